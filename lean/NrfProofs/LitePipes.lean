/-
The pipe calls of the lite driver (`open_rx_pipe`, `close_rx_pipe`, `open_tx_pipe`, `listen =`) and
the invariant behind C08's pipe-0 rule: `_pipe0_read_addr` is the address the user last opened pipe 0
with, and as long as it is set pipe 0 is enabled in EN_RXADDR.
-/
import NrfProofs.LiteAttrs

namespace Nrf
open Lite
open Rf24 (b2n andNot)

/-! ### projections of a register write / a command -/

namespace Radio

@[simp] theorem cfgOf_enRxAddr_l (r : Radio) : r.cfgOf.enRxAddr = r.enRxAddr := rfl
@[simp] theorem cfgOf_config_l (r : Radio) : r.cfgOf.config = r.config := rfl
@[simp] theorem cfgOf_ce_l (r : Radio) : r.cfgOf.ce = r.ce := rfl
@[simp] theorem cfgOf_rxAddr0_l (r : Radio) : r.cfgOf.rxAddr0 = r.rxAddr0 := rfl
@[simp] theorem cfgOf_violations_l (r : Radio) : r.cfgOf.violations = r.violations := rfl

theorem writeReg_enRxAddr_ne_l (r : Radio) (reg : Nat) (d : Bytes) (h : reg ≠ 2) :
    (r.writeReg reg d).enRxAddr = r.enRxAddr := by
  unfold writeReg
  split <;> first | rfl | omega | (split <;> rfl)

theorem writeReg_enRxAddr_eq_l (r : Radio) (v : Nat) : (r.writeReg 2 [v]).enRxAddr = v &&& 0x3F := by
  simp [writeReg]

theorem writeReg_config_eq_l (r : Radio) (v : Nat) : (r.writeReg 0 [v]).config = v &&& 0x7F := by
  simp [writeReg]

theorem writeReg_rxAddr0_ne_l (r : Radio) (reg : Nat) (d : Bytes) (h : reg ≠ 0x0A) :
    (r.writeReg reg d).rxAddr0 = r.rxAddr0 := by
  unfold writeReg
  split <;> first | rfl | omega | (split <;> rfl)

theorem writeReg_rxAddr0_eq_l (r : Radio) (d : Bytes) : (r.writeReg 0x0A d).rxAddr0 = overlay r.rxAddr0 d := by
  simp [writeReg]

theorem runCmd_enRxAddr_l (r : Radio) (c : Cmd) (d : Bytes) (h : c ≠ .wRegister 2) :
    (r.runCmd c d).1.enRxAddr = r.enRxAddr := by
  unfold runCmd
  cases c with
  | wRegister reg => dsimp only; split; · rfl
                     exact writeReg_enRxAddr_ne_l r _ d (by intro e; subst e; exact h rfl)
  | rRxPayload => dsimp only; unfold readPayload; split <;> rfl
  | wTxPayload => dsimp only; unfold writePayload; split <;> rfl
  | wTxPayloadNoAck => dsimp only; unfold writePayload; split <;> rfl
  | wAckPayload p => dsimp only; unfold writePayload; split <;> rfl
  | _ => rfl

theorem decodeCmd_ne_w2_l (c : Nat) (h : c ≠ 0x22) : decodeCmd c ≠ .wRegister 2 := by
  unfold decodeCmd
  repeat' split
  all_goals first
    | (intro e; have := Cmd.wRegister.inj e; omega)
    | (intro e; cases e)

/-- only W_REGISTER EN_RXADDR changes EN_RXADDR -/
theorem xfer_enRxAddr_l (r : Radio) (c : Nat) (d : Bytes) (h : c ≠ 0x22) :
    (r.xfer (c :: d)).1.enRxAddr = r.enRxAddr :=
  runCmd_enRxAddr_l r _ d (decodeCmd_ne_w2_l c h)

/-- a write of RX_ADDR_P0 (possibly with no data byte: then nothing happens) -/
theorem xfer_wP0_l (r : Radio) (b : Bytes) :
    (r.xfer (0x2A :: b)).1.rxAddr0 = (if b = [] then r.rxAddr0 else overlay r.rxAddr0 b) := by
  unfold xfer
  have : decodeCmd 0x2A = .wRegister 0x0A := by decide
  simp only [this, runCmd]
  cases b with
  | nil => simp
  | cons x xs => simp [writeReg_rxAddr0_eq_l]

theorem overlay_prefix_l (old new : Bytes) (ho : old.length = 5) :
    (overlay old new).take (min new.length 5) = new.take 5 := by
  unfold overlay
  rw [List.take_append_of_le_length (by rw [List.length_take]; omega)]
  exact List.take_of_length_le (by rw [List.length_take]; omega)

end Radio

namespace LiteBits
theorem listen_set : ∀ x, x < 128 → ∀ b, b < 2 →
    ((x &&& 0xFC) ||| (2 + b)) < 128 ∧ ((x &&& 0xFC) ||| (2 + b)) &&& 0x7F = ((x &&& 0xFC) ||| (2 + b)) ∧
    (((x &&& 0xFC) ||| (2 + b)) &&& 1 ≠ 0 ↔ b = 1) ∧ ((x &&& 0xFC) ||| (2 + b)) &&& 2 ≠ 0 := by decide +kernel
end LiteBits

/-! ### generic steps -/

namespace LiteState

/-- any `regWriteBytes` -/
theorem does_writeBytes (s : LiteState) (h : s.Ok) (reg : Nat) (b : Bytes) :
    s.Does (regWriteBytes reg b) (.ok ()) (fun c => (c.xfer ((0x20 ||| reg) :: b)).1.cfgOf) :=
  ⟨s.spiStep ((0x20 ||| reg) :: b), lexec_regWriteBytes reg b s, CfgStep.spi s _ h.wf, rfl, h.spiStep _⟩

/-- any bare command -/
theorem does_cmd (s : LiteState) (h : s.Ok) (c : Nat) (h40 : 0x40 ≤ c) (h50 : c ≠ 0x50) :
    s.Does (regCmd c) (.ok ()) id :=
  ⟨s.spiStep [c], lexec_regCmd c s, CfgStep.spiCmd s c [] h.wf h40 h50, rfl, h.spiStep _⟩

/-- a computation that first changes `_pipe0_read_addr` -/
theorem does_after_modD {α} (s : LiteState) (h : s.Ok) (p : Option Bytes) (m : LiteM α) (res : Except PyErr α)
    (f : Radio → Radio)
    (hm : ∀ s1 : LiteState, s1.Ok → s1.cfg = s.cfg → s1.d.rid = s.d.rid → s1.Does m res f) :
    ∃ s', lexec (Lite.modD (fun d => { d with pipe0ReadAddr := p }) >>= fun _ => m) s = (res, s') ∧
      CfgStep s s' f ∧ s'.d.pipe0ReadAddr = p ∧ s'.Ok := by
  let s1 : LiteState := { s with d := { s.d with pipe0ReadAddr := p } }
  have o1 : s1.Ok := h.modD (fun d => { d with pipe0ReadAddr := p }) rfl
  obtain ⟨s', e, c, pp, o⟩ := hm s1 o1 rfl rfl
  refine ⟨s', ?_, ⟨c.wf, c.cfg, c.others, c.rid⟩, pp, o⟩
  rw [lexec_bind, lexec_modD]
  exact e

end LiteState

/-! ### the invariant -/

/-- `u` is the address the user last opened pipe 0 with (`none`: never opened / closed) -/
structure LiteState.P0Inv (s : LiteState) (u : Option Bytes) : Prop where
  ok : s.Ok
  p0r : s.d.pipe0ReadAddr = u
  opened : u.isSome = true → Radio.bit s.cfg.enRxAddr 0 = true

/-- the calls of `Spec.Lite.PipeOp` on the lite driver -/
def Lite.runPipeOp : Spec.Lite.PipeOp → LiteM Unit
  | .openRx p a => openRxPipe p a
  | .closeRx p => closeRxPipe p
  | .openTx a => openTxPipe a
  | .listen b => setListen b

def Except.liteOkB {ε α} : Except ε α → Bool
  | .ok _ => true
  | .error _ => false

/-- `close_rx_pipe(p)` for a valid pipe: what happens to EN_RXADDR -/
theorem lite_closeRxPipe_core (s : LiteState) (h : s.Ok) (p : Nat) (hp : p < 6) :
    ∃ s', lexec (do
        let op ← regRead 2
        if op &&& (1 <<< p) ≠ 0 then regWrite 2 (andNot op (1 <<< p) : Nat)) s = (.ok (), s') ∧
      s'.Ok ∧ s'.d.pipe0ReadAddr = s.d.pipe0ReadAddr ∧ s'.d.rid = s.d.rid ∧
      Radio.bit s'.cfg.enRxAddr p = false ∧
      (∀ q, q < 6 → q ≠ p → Radio.bit s'.cfg.enRxAddr q = Radio.bit s.cfg.enRxAddr q) ∧
      s'.cfg.config = s.cfg.config ∧ s'.cfg.ce = s.cfg.ce ∧ s'.cfg.rxAddr0 = s.cfg.rxAddr0 := by
  have hv : s.cfg.enRxAddr < 64 := h.regs.enRxAddr
  obtain ⟨c1, c2, c3⟩ := LiteBits.close_bit _ hv _ hp
  have hb := LiteBits.closed_bit _ hv _ hp
  have o1 := h.spiStep [2, 0]
  have k1 := LiteState.CfgStep.spiRead s 2 [0] h.wf (by decide)
  by_cases hbit : s.cfg.enRxAddr &&& (1 <<< p) ≠ 0
  · refine ⟨(s.spiStep [2, 0]).spiStep [0x20 ||| 2, andNot s.cfg.enRxAddr (1 <<< p)], ?_, o1.spiStep _, rfl, rfl, ?_⟩
    · simp only [lexec_bind, lexec_regRead, lexec_ite, s.read_enRxAddr]
      rw [if_pos hbit, lexec_regWriteNat _ _ _ (by omega) (by decide)]
    · have k2 := k1.trans (LiteState.CfgStep.spiWrite _ 2 (andNot s.cfg.enRxAddr (1 <<< p)) o1.wf (by decide))
      have e : ((s.spiStep [2, 0]).spiStep [0x20 ||| 2, andNot s.cfg.enRxAddr (1 <<< p)]).cfg =
          (s.cfg.writeReg 2 [andNot s.cfg.enRxAddr (1 <<< p)]).cfgOf := k2.cfg
      rw [e]
      simp only [Radio.cfgOf_enRxAddr_l, Radio.cfgOf_config_l, Radio.cfgOf_ce_l, Radio.cfgOf_rxAddr0_l,
        Radio.writeReg_enRxAddr_eq_l, Radio.writeReg_ce_l, Radio.writeReg_config_ne_l _ _ _ (by decide : (2 : Nat) ≠ 0),
        Radio.writeReg_rxAddr0_ne_l _ _ _ (by decide : (2 : Nat) ≠ 0x0A), lite_and_mask_lt _ 6 c1]
      exact ⟨c2, c3, trivial, trivial, trivial⟩
  · refine ⟨s.spiStep [2, 0], ?_, o1, rfl, rfl, ?_⟩
    · simp only [lexec_bind, lexec_regRead, lexec_ite, s.read_enRxAddr, lexec_pure]
      rw [if_neg hbit]
    · have e : (s.spiStep [2, 0]).cfg = s.cfg := k1.cfg
      rw [e]
      refine ⟨?_, fun _ _ _ => rfl, rfl, rfl, rfl⟩
      rw [hb] at hbit
      simpa using hbit

/-- `close_rx_pipe(p)` -/
theorem lite_closeRxPipe_spec (s : LiteState) (h : s.Ok) (p : Int) {res : Except PyErr Unit} {s' : LiteState}
    (hrun : lexec (closeRxPipe p) s = (res, s')) :
    s'.Ok ∧ s'.d.rid = s.d.rid ∧ s'.cfg.config = s.cfg.config ∧ s'.cfg.ce = s.cfg.ce ∧
    s'.cfg.rxAddr0 = s.cfg.rxAddr0 ∧
    (if 0 ≤ p ∧ p ≤ 5 then
      res = .ok () ∧ s'.d.pipe0ReadAddr = (if p = 0 then none else s.d.pipe0ReadAddr) ∧
      Radio.bit s'.cfg.enRxAddr p.toNat = false ∧
      (∀ q, q < 6 → q ≠ p.toNat → Radio.bit s'.cfg.enRxAddr q = Radio.bit s.cfg.enRxAddr q)
     else res = .error .valueError ∧ s' = s) := by
  unfold closeRxPipe at hrun
  by_cases hp : p < 0 ∨ p > 5
  · simp only [lexec_bind, lexec_ite, hp, ↓reduceIte, lexec_raise] at hrun
    obtain ⟨rfl, rfl⟩ := Prod.mk.inj hrun
    have : ¬ (0 ≤ p ∧ p ≤ 5) := by omega
    refine ⟨h, rfl, rfl, rfl, rfl, ?_⟩
    rw [if_neg this]
    exact ⟨rfl, rfl⟩
  · have hp' : 0 ≤ p ∧ p ≤ 5 := by omega
    have hp6 : p.toNat < 6 := by omega
    simp only [lexec_bind, lexec_ite, hp, ↓reduceIte, lexec_pure] at hrun
    rw [if_pos hp']
    by_cases h0 : p = 0
    · subst h0
      simp only [↓reduceIte, lexec_modD] at hrun
      have o1 : ({ s with d := { s.d with pipe0ReadAddr := none } } : LiteState).Ok :=
        h.modD (fun d => { d with pipe0ReadAddr := none }) rfl
      obtain ⟨s2, e2, o2, p2, r2, b1, b2, b3, b4, b5⟩ := lite_closeRxPipe_core _ o1 (0 : Int).toNat hp6
      simp only [lexec_bind, lexec_ite, lexec_pure] at e2
      rw [e2] at hrun
      obtain ⟨rfl, rfl⟩ := Prod.mk.inj hrun
      exact ⟨o2, r2, b3, b4, b5, rfl, by rw [if_pos rfl]; exact p2, b1, b2⟩
    · simp only [h0, ↓reduceIte, lexec_pure] at hrun
      obtain ⟨s2, e2, o2, p2, r2, b1, b2, b3, b4, b5⟩ := lite_closeRxPipe_core s h p.toNat hp6
      simp only [lexec_bind, lexec_ite, lexec_pure] at e2
      rw [e2] at hrun
      obtain ⟨rfl, rfl⟩ := Prod.mk.inj hrun
      exact ⟨o2, r2, b3, b4, b5, rfl, by rw [if_neg h0]; exact p2, b1, b2⟩

namespace Radio

theorem runCmd_rxAddr0_l (r : Radio) (c : Cmd) (d : Bytes) (h : c ≠ .wRegister 0x0A) :
    (r.runCmd c d).1.rxAddr0 = r.rxAddr0 := by
  unfold runCmd
  cases c with
  | wRegister reg => dsimp only; split; · rfl
                     exact writeReg_rxAddr0_ne_l r _ d (by intro e; subst e; exact h rfl)
  | rRxPayload => dsimp only; unfold readPayload; split <;> rfl
  | wTxPayload => dsimp only; unfold writePayload; split <;> rfl
  | wTxPayloadNoAck => dsimp only; unfold writePayload; split <;> rfl
  | wAckPayload p => dsimp only; unfold writePayload; split <;> rfl
  | _ => rfl

theorem decodeCmd_ne_wA_l (c : Nat) (h : c ≠ 0x2A) : decodeCmd c ≠ .wRegister 0x0A := by
  unfold decodeCmd
  repeat' split
  all_goals first
    | (intro e; have := Cmd.wRegister.inj e; omega)
    | (intro e; cases e)

/-- only W_REGISTER RX_ADDR_P0 changes RX_ADDR_P0 -/
theorem xfer_rxAddr0_l (r : Radio) (c : Nat) (d : Bytes) (h : c ≠ 0x2A) :
    (r.xfer (c :: d)).1.rxAddr0 = r.rxAddr0 :=
  runCmd_rxAddr0_l r _ d (decodeCmd_ne_wA_l c h)

end Radio

/-- the tail of `open_rx_pipe` / of `listen = False`: `_reg_write(2, _reg_read(2) | (1 << p))` -/
theorem lite_openBit_core (s : LiteState) (h : s.Ok) (p : Nat) (hp : p < 6) :
    ∃ s', lexec (do
        let v ← regRead 2
        regWrite 2 (v ||| (1 <<< p) : Nat)) s = (.ok (), s') ∧
      s'.Ok ∧ s'.d.pipe0ReadAddr = s.d.pipe0ReadAddr ∧ s'.d.rid = s.d.rid ∧
      Radio.bit s'.cfg.enRxAddr p = true ∧
      (∀ q, q < 6 → q ≠ p → Radio.bit s'.cfg.enRxAddr q = Radio.bit s.cfg.enRxAddr q) ∧
      s'.cfg.config = s.cfg.config ∧ s'.cfg.ce = s.cfg.ce ∧ s'.cfg.rxAddr0 = s.cfg.rxAddr0 := by
  have hv : s.cfg.enRxAddr < 64 := h.regs.enRxAddr
  obtain ⟨c1, c2, c3⟩ := LiteBits.open_bit _ hv _ hp
  have o1 := h.spiStep [2, 0]
  have k1 := LiteState.CfgStep.spiRead s 2 [0] h.wf (by decide)
  refine ⟨(s.spiStep [2, 0]).spiStep [0x20 ||| 2, s.cfg.enRxAddr ||| (1 <<< p)], ?_, o1.spiStep _, rfl, rfl, ?_⟩
  · simp only [lexec_bind, lexec_regRead, s.read_enRxAddr]
    rw [lexec_regWriteNat _ _ _ (by omega) (by decide)]
  · have k2 := k1.trans (LiteState.CfgStep.spiWrite _ 2 (s.cfg.enRxAddr ||| (1 <<< p)) o1.wf (by decide))
    have e : ((s.spiStep [2, 0]).spiStep [0x20 ||| 2, s.cfg.enRxAddr ||| (1 <<< p)]).cfg =
        (s.cfg.writeReg 2 [s.cfg.enRxAddr ||| (1 <<< p)]).cfgOf := k2.cfg
    rw [e]
    simp only [Radio.cfgOf_enRxAddr_l, Radio.cfgOf_config_l, Radio.cfgOf_ce_l, Radio.cfgOf_rxAddr0_l,
      Radio.writeReg_enRxAddr_eq_l, Radio.writeReg_ce_l, Radio.writeReg_config_ne_l _ _ _ (by decide : (2 : Nat) ≠ 0),
      Radio.writeReg_rxAddr0_ne_l _ _ _ (by decide : (2 : Nat) ≠ 0x0A), lite_and_mask_lt _ 6 c1]
    exact ⟨c2, c3, trivial, trivial, trivial⟩

/-- an SPI step that is not a write of CONFIG / EN_RXADDR / RX_ADDR_P0 keeps those registers and CE -/
theorem lite_spiStep_keeps (s : LiteState) (h : s.Ok) (c : Nat) (d : Bytes) (h20 : c ≠ 0x20) (h22 : c ≠ 0x22) :
    (s.spiStep (c :: d)).Ok ∧ (s.spiStep (c :: d)).cfg.config = s.cfg.config ∧
    (s.spiStep (c :: d)).cfg.ce = s.cfg.ce ∧ (s.spiStep (c :: d)).cfg.enRxAddr = s.cfg.enRxAddr ∧
    (c ≠ 0x2A → (s.spiStep (c :: d)).cfg.rxAddr0 = s.cfg.rxAddr0) := by
  have e : (s.spiStep (c :: d)).cfg = (s.cfg.xfer (c :: d)).1.cfgOf := LiteState.spiStep_cfg _ _ h.wf
  rw [e]
  refine ⟨h.spiStep _, ?_, ?_, ?_, ?_⟩
  · simp only [Radio.cfgOf_config_l]; exact Radio.xfer_config_l _ _ _ h20
  · simp only [Radio.cfgOf_ce_l]; exact Radio.xfer_ce_l _ _
  · simp only [Radio.cfgOf_enRxAddr_l]; exact Radio.xfer_enRxAddr_l _ _ _ h22
  · intro h2a; simp only [Radio.cfgOf_rxAddr0_l]; exact Radio.xfer_rxAddr0_l _ _ _ h2a

/-- `open_rx_pipe(p, addr)` -/
theorem lite_openRxPipe_spec (s : LiteState) (h : s.Ok) (p : Int) (a : Bytes) {res : Except PyErr Unit} {s' : LiteState}
    (hrun : lexec (openRxPipe p a) s = (res, s')) :
    s'.Ok ∧ s'.d.rid = s.d.rid ∧ s'.cfg.config = s.cfg.config ∧ s'.cfg.ce = s.cfg.ce ∧
    (res = .ok () ∨ s' = s) ∧
    (res = .ok () →
      (0 ≤ p ∧ p ≤ 5) ∧
      s'.d.pipe0ReadAddr = (if p = 0 then some a else s.d.pipe0ReadAddr) ∧
      Radio.bit s'.cfg.enRxAddr p.toNat = true ∧
      (∀ q, q < 6 → q ≠ p.toNat → Radio.bit s'.cfg.enRxAddr q = Radio.bit s.cfg.enRxAddr q) ∧
      s'.cfg.rxAddr0 = (if p = 0 then Radio.overlay s.cfg.rxAddr0 a else s.cfg.rxAddr0)) ∧
    ((0 ≤ p ∧ p ≤ 5) → a ≠ [] → (p < 2 ∨ a.headD 0 ≤ 255) → res = .ok ()) := by
  unfold openRxPipe at hrun
  by_cases hp : ¬ (0 ≤ p ∧ p ≤ 5)
  · simp only [lexec_bind, lexec_ite, hp, not_false_eq_true, ↓reduceIte, lexec_raise] at hrun
    obtain ⟨rfl, rfl⟩ := Prod.mk.inj hrun
    exact ⟨h, rfl, rfl, rfl, Or.inr rfl, (fun e => by cases e), fun hh => absurd hh hp⟩
  · have hp' : 0 ≤ p ∧ p ≤ 5 := by omega
    have hp6 : p.toNat < 6 := by omega
    by_cases ha : a.isEmpty = true
    · simp only [lexec_bind, lexec_ite, hp, ↓reduceIte, lexec_pure, ha, lexec_raise] at hrun
      obtain ⟨rfl, rfl⟩ := Prod.mk.inj hrun
      exact ⟨h, rfl, rfl, rfl, Or.inr rfl, (fun e => by cases e),
        fun _ hne => absurd (List.isEmpty_iff.mp ha) hne⟩
    · have hane : a ≠ [] := fun e => ha (by rw [e]; rfl)
      simp only [lexec_bind, lexec_ite, hp, ↓reduceIte, lexec_pure, ha, Bool.false_eq_true] at hrun
      by_cases h2 : p.toNat < 2
      · -- pipes 0 and 1: the address goes to RX_ADDR_P0 / P1
        simp only [h2, ↓reduceIte, lexec_regWriteBytes] at hrun
        have hcmd : 0x20 ||| (0x0A + p.toNat) ≠ 0x20 ∧ 0x20 ||| (0x0A + p.toNat) ≠ 0x22 := by
          have : p.toNat = 0 ∨ p.toNat = 1 := by omega
          rcases this with e | e <;> rw [e] <;> decide
        by_cases h0 : p = 0
        · subst h0
          have hp' : (0 : Int) ≤ 0 ∧ (0 : Int) ≤ 5 := by decide
          simp only [Int.toNat_zero, ↓reduceIte, lexec_modD] at hrun
          have o1 : ({ s with d := { s.d with pipe0ReadAddr := some a } } : LiteState).Ok :=
            h.modD (fun d => { d with pipe0ReadAddr := some a }) rfl
          obtain ⟨o2, k1, k2, k3, _⟩ := lite_spiStep_keeps _ o1 (0x20 ||| (0x0A + 0)) a (by decide) (by decide)
          obtain ⟨s3, e3, o3, p3, r3, b1, b2, b3, b4, b5⟩ := lite_openBit_core _ o2 0 (by decide)
          simp only [lexec_bind] at e3
          rw [e3] at hrun
          obtain ⟨rfl, rfl⟩ := Prod.mk.inj hrun
          have hA : (({ s with d := { s.d with pipe0ReadAddr := some a } } : LiteState).spiStep
              ((0x20 ||| (0x0A + 0)) :: a)).cfg.rxAddr0 = Radio.overlay s.cfg.rxAddr0 a := by
            rw [LiteState.spiStep_cfg _ _ o1.wf]
            simp only [Radio.cfgOf_rxAddr0_l]
            show ((s.cfg.xfer (0x2A :: a)).1).rxAddr0 = _
            rw [Radio.xfer_wP0_l, if_neg hane]
          refine ⟨o3, r3, b3.trans k1, b4.trans k2, Or.inl rfl, fun _ => ⟨hp', ?_, b1, ?_, ?_⟩, fun _ _ _ => rfl⟩
          · rw [if_pos rfl]; exact p3
          · intro q hq hne; rw [b2 q hq hne, k3]; rfl
          · rw [if_pos rfl, b5, hA]
        · have hp1 : p.toNat ≠ 0 := by omega
          simp only [hp1, ↓reduceIte, lexec_pure] at hrun
          obtain ⟨o2, k1, k2, k3, k4⟩ := lite_spiStep_keeps s h (0x20 ||| (0x0A + p.toNat)) a hcmd.1 hcmd.2
          obtain ⟨s3, e3, o3, p3, r3, b1, b2, b3, b4, b5⟩ := lite_openBit_core _ o2 p.toNat hp6
          simp only [lexec_bind] at e3
          rw [e3] at hrun
          obtain ⟨rfl, rfl⟩ := Prod.mk.inj hrun
          have hne2A : 0x20 ||| (0x0A + p.toNat) ≠ 0x2A := by
            have : p.toNat = 1 := by omega
            rw [this]; decide
          refine ⟨o3, r3, b3.trans k1, b4.trans k2, Or.inl rfl, fun _ => ⟨hp', ?_, b1, ?_, ?_⟩, fun _ _ _ => rfl⟩
          · rw [if_neg h0]; exact p3
          · intro q hq hne; rw [b2 q hq hne, k3]
          · rw [if_neg h0, b5, k4 hne2A]
      · -- pipes 2..5: only the first byte goes to RX_ADDR_Px
        simp only [h2, ↓reduceIte] at hrun
        have h0 : p ≠ 0 := by omega
        by_cases hhd : (a.headD 0 : Int) < 0 ∨ (a.headD 0 : Int) > 255
        · rw [lexec_regWrite_bad _ _ _ hhd] at hrun
          simp only at hrun
          obtain ⟨rfl, rfl⟩ := Prod.mk.inj hrun
          refine ⟨h, rfl, rfl, rfl, Or.inr rfl, (fun e => by cases e), fun _ _ hh => ?_⟩
          rcases hh with hh | hh <;> omega
        · have hreg : 0x0A + p.toNat < 0x20 := by omega
          rw [lexec_regWriteNat _ _ _ (by omega) (by omega)] at hrun
          simp only at hrun
          have k := LiteState.CfgStep.spiWrite s (0x0A + p.toNat) (a.headD 0) h.wf hreg
          have o2 := h.spiStep [0x20 ||| (0x0A + p.toNat), a.headD 0]
          obtain ⟨s3, e3, o3, p3, r3, b1, b2, b3, b4, b5⟩ := lite_openBit_core _ o2 p.toNat hp6
          simp only [lexec_bind] at e3
          rw [e3] at hrun
          obtain ⟨rfl, rfl⟩ := Prod.mk.inj hrun
          have e := k.cfg
          have k1 : (s.spiStep [0x20 ||| (0x0A + p.toNat), a.headD 0]).cfg.config = s.cfg.config := by
            rw [e]; simp only [Radio.cfgOf_config_l]; exact Radio.writeReg_config_ne_l _ _ _ (by omega)
          have k2 : (s.spiStep [0x20 ||| (0x0A + p.toNat), a.headD 0]).cfg.ce = s.cfg.ce := by
            rw [e]; simp only [Radio.cfgOf_ce_l]; exact Radio.writeReg_ce_l _ _ _
          have k3 : (s.spiStep [0x20 ||| (0x0A + p.toNat), a.headD 0]).cfg.enRxAddr = s.cfg.enRxAddr := by
            rw [e]; simp only [Radio.cfgOf_enRxAddr_l]; exact Radio.writeReg_enRxAddr_ne_l _ _ _ (by omega)
          have k4 : (s.spiStep [0x20 ||| (0x0A + p.toNat), a.headD 0]).cfg.rxAddr0 = s.cfg.rxAddr0 := by
            rw [e]; simp only [Radio.cfgOf_rxAddr0_l]; exact Radio.writeReg_rxAddr0_ne_l _ _ _ (by omega)
          refine ⟨o3, r3, b3.trans k1, b4.trans k2, Or.inl rfl, fun _ => ⟨hp', ?_, b1, ?_, ?_⟩, fun _ _ _ => rfl⟩
          · rw [if_neg h0]; exact p3
          · intro q hq hne; rw [b2 q hq hne, k3]
          · rw [if_neg h0, b5, k4]

/-- `open_tx_pipe(addr)`: RX_ADDR_P0 and TX_ADDR are written, nothing else -/
theorem lite_openTxPipe_spec (s : LiteState) (h : s.Ok) (a : Bytes) {res : Except PyErr Unit} {s' : LiteState}
    (hrun : lexec (openTxPipe a) s = (res, s')) :
    res = .ok () ∧ s'.Ok ∧ s'.d.rid = s.d.rid ∧ s'.d.pipe0ReadAddr = s.d.pipe0ReadAddr ∧
    s'.cfg.config = s.cfg.config ∧ s'.cfg.ce = s.cfg.ce ∧ s'.cfg.enRxAddr = s.cfg.enRxAddr ∧
    s'.cfg.rxAddr0 = (if a = [] then s.cfg.rxAddr0 else Radio.overlay s.cfg.rxAddr0 a) := by
  unfold openTxPipe at hrun
  simp only [lexec_bind, lexec_regWriteBytes] at hrun
  obtain ⟨rfl, rfl⟩ := Prod.mk.inj hrun
  obtain ⟨o1, k1, k2, k3, _⟩ := lite_spiStep_keeps s h (0x20 ||| 0x0A) a (by decide) (by decide)
  obtain ⟨o2, j1, j2, j3, j4⟩ := lite_spiStep_keeps _ o1 (0x20 ||| 0x10) a (by decide) (by decide)
  refine ⟨rfl, o2, rfl, rfl, j1.trans k1, j2.trans k2, j3.trans k3, ?_⟩
  rw [j4 (by decide), LiteState.spiStep_cfg _ _ h.wf]
  simp only [Radio.cfgOf_rxAddr0_l]
  exact Radio.xfer_wP0_l _ _

/-- `listen = is_rx` -/
theorem lite_setListen_spec (s : LiteState) (h : s.Ok) (b : Bool) {res : Except PyErr Unit} {s' : LiteState}
    (hrun : lexec (setListen b) s = (res, s')) :
    res = .ok () ∧ s'.Ok ∧ s'.d.rid = s.d.rid ∧ s'.d.pipe0ReadAddr = s.d.pipe0ReadAddr ∧
    s'.cfg.config = (s.cfg.config &&& 0xFC) ||| (2 + b2n b) ∧ s'.cfg.ce = b ∧
    (b = true →
      match s.d.pipe0ReadAddr with
      | some ra => s'.cfg.enRxAddr = s.cfg.enRxAddr ∧
          s'.cfg.rxAddr0 = (if ra = [] then s.cfg.rxAddr0 else Radio.overlay s.cfg.rxAddr0 ra)
      | none => Radio.bit s'.cfg.enRxAddr 0 = false) ∧
    (b = false → Radio.bit s'.cfg.enRxAddr 0 = true) := by
  have hx : s.cfg.config < 128 := h.regs.config
  obtain ⟨l1, l2, _, _⟩ := LiteBits.listen_set _ hx _ (Nrf.lite_b2n_lt b)
  -- the common prefix: CE low, read CONFIG, write the role
  have o1 := h.ceStep false
  have c1 : (s.ceStep false).cfg = { s.cfg with ce := false } := LiteState.ceStep_cfg _ _ h.wf
  have o2 := o1.spiStep [0, 0]
  have c2 : ((s.ceStep false).spiStep [0, 0]).cfg = { s.cfg with ce := false } :=
    (LiteState.CfgStep.spiRead _ 0 [0] o1.wf (by decide)).cfg.trans c1
  have rv : (s.ceStep false).readVal 0 = s.cfg.config := by rw [LiteState.read_config, c1]
  obtain ⟨v, hvdef⟩ : ∃ v, v = (s.cfg.config &&& 0xFC) ||| (2 + b2n b) := ⟨_, rfl⟩
  rw [← hvdef] at l1 l2
  have o3 := o2.spiStep [0x20 ||| 0, v]
  have c3 : (((s.ceStep false).spiStep [0, 0]).spiStep [0x20 ||| 0, v]).cfg = { s.cfg with ce := false, config := v } := by
    rw [(LiteState.CfgStep.spiWrite _ 0 v o2.wf (by decide)).cfg, c2,
      Radio.writeReg_config_l _ _ l1 (Or.inl rfl)]
    rfl
  unfold setListen at hrun
  simp only [lexec_bind, lexec_setCE, lexec_regRead, rv] at hrun
  rw [← hvdef, lexec_regWriteNat _ _ _ (by omega) (by decide)] at hrun
  simp only [lexec_ite] at hrun
  cases b with
  | true =>
    simp only [↓reduceIte, lexec_bind, lexec_setCE, lexec_getD, LiteState.ceStep_d, LiteState.spiStep_p0r] at hrun
    have o4 := o3.ceStep true
    have c4 : ((((s.ceStep false).spiStep [0, 0]).spiStep [0x20 ||| 0, v]).ceStep true).cfg =
        { s.cfg with ce := true, config := v } := by
      rw [LiteState.ceStep_cfg _ _ o3.wf, c3]
    cases hp0 : s.d.pipe0ReadAddr with
    | some ra =>
      simp only [hp0, lexec_bind, lexec_regWriteBytes, lexec_sleepNs] at hrun
      obtain ⟨rfl, rfl⟩ := Prod.mk.inj hrun
      obtain ⟨o5, k1, k2, k3, _⟩ := lite_spiStep_keeps _ o4 (0x20 ||| 0x0A) ra (by decide) (by decide)
      refine ⟨rfl, o5.sleepStep _, rfl, hp0, ?_, ?_, fun _ => ⟨?_, ?_⟩, fun e => by cases e⟩
      · rw [LiteState.sleepStep_cfg, k1, c4, hvdef]
      · rw [LiteState.sleepStep_cfg, k2, c4]
      · rw [LiteState.sleepStep_cfg, k3, c4]
      · rw [LiteState.sleepStep_cfg, LiteState.spiStep_cfg _ _ o4.wf]
        simp only [Radio.cfgOf_rxAddr0_l]
        show ((((((s.ceStep false).spiStep [0, 0]).spiStep [0x20 ||| 0, v]).ceStep true).cfg).xfer (0x2A :: ra)).1.rxAddr0 = _
        rw [Radio.xfer_wP0_l, c4]
    | none =>
      simp only [hp0, lexec_bind] at hrun
      cases hc : lexec (closeRxPipe 0) ((((s.ceStep false).spiStep [0, 0]).spiStep [0x20 ||| 0, v]).ceStep true) with
      | mk r5 s5 =>
        obtain ⟨o5, r5', k1, k2, _, k4⟩ := lite_closeRxPipe_spec _ o4 0 hc
        rw [if_pos (by decide)] at k4
        obtain ⟨rfl, k5, k6, _⟩ := k4
        rw [hc] at hrun
        simp only [lexec_sleepNs] at hrun
        obtain ⟨rfl, rfl⟩ := Prod.mk.inj hrun
        refine ⟨rfl, o5.sleepStep _, r5', ?_, ?_, ?_, fun _ => ?_, fun e => by cases e⟩
        · show s5.d.pipe0ReadAddr = _
          rw [k5, if_pos rfl]
        · rw [LiteState.sleepStep_cfg, k1, c4, hvdef]
        · rw [LiteState.sleepStep_cfg, k2, c4]
        · show Radio.bit (s5.sleepStep 100000).cfg.enRxAddr 0 = false
          rw [LiteState.sleepStep_cfg]; exact k6
  | false =>
    simp only [Bool.false_eq_true, ↓reduceIte, lexec_bind, lexec_regRead, lexec_ite] at hrun
    -- optional FLUSH_TX, then EN_RXADDR |= 1
    have key : ∀ s4 : LiteState, s4.Ok → s4.d.rid = s.d.rid → s4.d.pipe0ReadAddr = s.d.pipe0ReadAddr →
        s4.cfg.config = (s.cfg.config &&& 0xFC) ||| (2 + b2n false) → s4.cfg.ce = false →
        ∀ {res : Except PyErr Unit} {s' : LiteState},
        lexec ((do let v ← regRead 2; regWrite 2 (v ||| 1 : Nat)) >>= fun _ => sleepNs 100000) s4 = (res, s') →
        res = .ok () ∧ s'.Ok ∧ s'.d.rid = s.d.rid ∧ s'.d.pipe0ReadAddr = s.d.pipe0ReadAddr ∧
          s'.cfg.config = (s.cfg.config &&& 0xFC) ||| (2 + b2n false) ∧ s'.cfg.ce = false ∧
          Radio.bit s'.cfg.enRxAddr 0 = true := by
      intro s4 o4 r4 p4 cc4 ce4 res s' hr
      obtain ⟨s6, e6, o6, p6, r6, b1, _, b3, b4, _⟩ := lite_openBit_core s4 o4 0 (by decide)
      have e6' : lexec (do let v ← regRead 2; regWrite 2 (v ||| 1 : Nat)) s4 = (.ok (), s6) := e6
      rw [lexec_bind, e6'] at hr
      simp only [lexec_sleepNs] at hr
      obtain ⟨rfl, rfl⟩ := Prod.mk.inj hr
      exact ⟨rfl, o6.sleepStep _, r6.trans r4, p6.trans p4, by rw [LiteState.sleepStep_cfg, b3, cc4],
        by rw [LiteState.sleepStep_cfg, b4, ce4], by rw [LiteState.sleepStep_cfg]; exact b1⟩
    obtain ⟨o4, k1, k2, _, _⟩ := lite_spiStep_keeps _ o3 0x1D [0] (by decide) (by decide)
    by_cases hf : (((s.ceStep false).spiStep [0, 0]).spiStep [0x20 ||| 0, v]).readVal 0x1D &&& 6 = 6
    · simp only [hf, ↓reduceIte, flushTx, lexec_regCmd] at hrun
      obtain ⟨o5, j1, j2, _, _⟩ := lite_spiStep_keeps _ o4 0xE1 [] (by decide) (by decide)
      simp only [lexec_bind, lexec_regRead] at key
      obtain ⟨q1, q2, q3, q4, q5, q6, q7⟩ := key _ o5 rfl rfl (by rw [j1, k1, c3, hvdef]) (by rw [j2, k2, c3]) hrun
      exact ⟨q1, q2, q3, q4, q5, q6, (fun e => by cases e), fun _ => q7⟩
    · simp only [hf, ↓reduceIte, lexec_pure] at hrun
      simp only [lexec_bind, lexec_regRead] at key
      obtain ⟨q1, q2, q3, q4, q5, q6, q7⟩ := key _ o4 rfl rfl (by rw [k1, c3, hvdef]) (by rw [k2, c3]) hrun
      exact ⟨q1, q2, q3, q4, q5, q6, (fun e => by cases e), fun _ => q7⟩

/-! ### one call of the alphabet -/

open Spec.Lite in
/-- every call keeps the invariant (with the ghost `user0` updated as the spec says); entering RX
    mode establishes the pipe-0 rule -/
theorem lite_pipeOp_step (s : LiteState) (u : Option Bytes) (hinv : s.P0Inv u) (op : PipeOp)
    {res : Except PyErr Unit} {s' : LiteState} (hrun : lexec (runPipeOp op) s = (res, s')) :
    s'.P0Inv (userStep u op (Except.liteOkB res)) ∧
    (op = .listen true → res = .ok () ∧ rxEntry (userStep u op (Except.liteOkB res)) s'.cfg = true) := by
  cases op with
  | openRx p a =>
    refine ⟨?_, fun e => by cases e⟩
    obtain ⟨o, _, _, _, hor, hok, _⟩ := lite_openRxPipe_spec s hinv.ok p a hrun
    cases res with
    | error e =>
      have : s' = s := by rcases hor with h | h; · cases h
                          exact h
      subst this
      simpa [userStep, Except.liteOkB] using hinv
    | ok x =>
      obtain ⟨hp, p1, b1, b2, _⟩ := hok rfl
      simp only [userStep, Except.liteOkB, true_and]
      by_cases h0 : p = 0
      · subst h0
        simp only [↓reduceIte] at p1 ⊢
        exact ⟨o, p1, fun _ => b1⟩
      · simp only [h0, ↓reduceIte] at p1 ⊢
        refine ⟨o, p1.trans hinv.p0r, fun hu => ?_⟩
        rw [b2 0 (by decide) (by omega)]
        exact hinv.opened hu
  | closeRx p =>
    refine ⟨?_, fun e => by cases e⟩
    obtain ⟨o, _, _, _, _, hc⟩ := lite_closeRxPipe_spec s hinv.ok p hrun
    by_cases hp : 0 ≤ p ∧ p ≤ 5
    · rw [if_pos hp] at hc
      obtain ⟨rfl, p1, _, b2⟩ := hc
      simp only [userStep, Except.liteOkB, true_and]
      by_cases h0 : p = 0
      · subst h0
        simp only [↓reduceIte] at p1 ⊢
        exact ⟨o, p1, fun hu => by cases hu⟩
      · simp only [h0, ↓reduceIte] at p1 ⊢
        refine ⟨o, p1.trans hinv.p0r, fun hu => ?_⟩
        rw [b2 0 (by decide) (by omega)]
        exact hinv.opened hu
    · rw [if_neg hp] at hc
      obtain ⟨rfl, rfl⟩ := hc
      simpa [userStep, Except.liteOkB] using hinv
  | openTx a =>
    refine ⟨?_, fun e => by cases e⟩
    obtain ⟨_, o, _, p1, _, _, b1, _⟩ := lite_openTxPipe_spec s hinv.ok a hrun
    simp only [userStep]
    exact ⟨o, p1.trans hinv.p0r, fun hu => by rw [b1]; exact hinv.opened hu⟩
  | listen b =>
    obtain ⟨hres, o, _, p1, hcfg, hce, htrue, hfalse⟩ := lite_setListen_spec s hinv.ok b hrun
    simp only [userStep]
    have hp0 := hinv.p0r
    constructor
    · refine ⟨o, p1.trans hp0, fun hu => ?_⟩
      cases b with
      | false => exact hfalse rfl
      | true =>
        have ht := htrue rfl
        rw [hp0] at ht
        cases u with
        | none => cases hu
        | some ra =>
          simp only at ht
          rw [ht.1]; exact hinv.opened rfl
    · intro e
      cases e
      refine ⟨hres, ?_⟩
      have ht := htrue rfl
      rw [hp0] at ht
      obtain ⟨_, _, l3, l4⟩ := LiteBits.listen_set _ hinv.ok.regs.config 1 (by decide)
      have hprim : s'.cfg.primRx = true := by
        unfold Radio.primRx; rw [hcfg]
        have : b2n true = 1 := rfl
        rw [this]
        simpa using l3.2 rfl
      have hpwr : s'.cfg.pwrUp = true := by
        unfold Radio.pwrUp; rw [hcfg]
        have : b2n true = 1 := rfl
        rw [this]
        simpa using l4
      unfold rxEntry
      rw [hprim, hpwr, hce]
      cases u with
      | none =>
        simp only at ht
        simp [ht]
      | some ra =>
        simp only at ht
        obtain ⟨h1, h2⟩ := ht
        have hb : Radio.bit s'.cfg.enRxAddr 0 = true := by rw [h1]; exact hinv.opened rfl
        have hpre : s'.cfg.rxAddr0.take (min ra.length 5) = ra.take 5 := by
          rw [h2]
          by_cases hra : ra = []
          · subst hra; simp
          · rw [if_neg hra]
            exact Radio.overlay_prefix_l _ _ hinv.ok.regs.rxAddr0
        simp [hb, hpre]

end Nrf
