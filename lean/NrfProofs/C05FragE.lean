/-
C05 helper lemmas, part 9 (fragmented messages end to end, closed system), E: the two ends.

* `deliver_last` — after `write()` returned, the LAST fragment waits in the neighbour's RX FIFO; its next
  `update()` (entered as the test session does) completes the message;
* `two_nodes_frag` — a fragmented user message between two neighbours, end to end
  (`Nrf.Props.C05.C05_two_nodes_frag` is this statement).
-/
import NrfProofs.C05FragD
import NrfProofs.C05RouteTop

namespace Nrf.Net
open Nrf Nrf.Spec Nrf.Proofs Nrf.Props.C04

theorem dropLast_concat_of_getLast? {α : Type} (l : List α) (a : α) (h : l.getLast? = some a) :
    l.dropLast ++ [a] = l := by
  have hne : l ≠ [] := by intro e; rw [e] at h; cases h
  have h2 : l.getLast? = some (l.getLast hne) := List.getLast?_eq_some_getLast hne
  rw [h2] at h
  have := List.dropLast_concat_getLast hne
  rw [Option.some.inj h] at this
  exact this

/-- every entry of a plan is a well-formed fragment for the receiver -/
theorem PlanOk.mem {me : Nat} : ∀ {tr : List (Header × Bytes × Frame)} {pv : Option Frame},
    PlanOk me pv tr → ∀ x ∈ tr, FragOk me x.2.1 x.2.2 := by
  intro tr
  induction tr with
  | nil => intro _ _ x hx; cases hx
  | cons t rest ih =>
    intro pv h x hx
    obtain ⟨hd, pl, g⟩ := t
    obtain ⟨_, hok, _, hrest⟩ := h
    rcases List.mem_cons.mp hx with e | e
    · subst e; exact hok
    · exact ih hrest x e

/-- the last entry of the plan of a message carries its last fragment -/
theorem fragTr_last (a b i msgT n : Nat) (msg : Bytes) : ∀ (m : Nat) (h : Header) (x : Header × Bytes × Frame),
    (fragTr a b i msgT n msg m h).getLast? = some x → x.2.2 = rxFrag a b i msgT n msg (n - 1) := by
  intro m
  induction m with
  | zero => intro h x hx; cases hx
  | succ m ih =>
    intro h x hx
    cases m with
    | zero =>
      simp only [fragTr, List.getLast?_singleton, Option.some.injEq] at hx
      rw [← hx]
    | succ m =>
      rw [fragTr] at hx
      rw [fragTr, List.getLast?_cons_cons] at hx
      exact ih _ x (by rw [fragTr]; exact hx)

section
variable {L : LinkCfg} {Pa Pb : List Bytes} {A : Bytes} {p a b : Nat} {s0 s : NetState} {q : NetQueue}

/-- **The last fragment completes the message**: `write()` has returned (the sender listens again), a LAST
    fragment `g` (not of external data) waits in `b`'s RX FIFO.  The next `update()` of `b`, entered as the
    test session does (`ret`, `callAs`), returns the fragment's type; `b`'s queue object is what
    `queue.enqueue(g)` makes of it, every other node's queue is as at the start, and every RX FIFO of the
    network is empty (`b` has read its one entry, no other radio was touched). -/
theorem deliver_last (hc : L3Contracts) (E : FragEnv L Pb A p a b s0) {pl : Bytes} {last : Option Bytes}
    (h : FragSt L Pa Pb A p a b s0 s (true, true, 0x3E) (some pl) last q) (g : Frame)
    (hok : FragOk (s0.nodeAt b).a.addr pl g) (hty : g.header.ty = MSG_FRAG_LAST)
    (hres : g.header.reserved ≠ NETWORK_EXT_DATA) (hsize : s0.nodes.length ≤ 100000) :
    ∃ s2, nexec apiUpdate ((s.ret).callAs b) = (.ok MSG_FRAG_LAST, s2) ∧ s2.nodes.length = s0.nodes.length ∧
      (s2.nodeAt b).queue = (q.enqueue g).1 ∧ (∀ j, j ≠ b → (s2.nodeAt j).queue = (s0.nodeAt j).queue) ∧
      ∀ i, i < s0.nodes.length → (s2.radioAt i).rxFifo = [] := by
  obtain ⟨k1, k32, kun, kto, kvt, kvf⟩ := hok
  have hba : b ≠ a := fun e => E.hab e.symm
  generalize ht : (s.ret).callAs b = t
  have hsame : Same s t := by rw [← ht]; exact (Same.ret s).trans (Same.callAs _ b)
  have htc : t.cur = b := by rw [← ht]; rfl
  have hta : t.active = [b] := by rw [← ht]; rfl
  have htcl : t.closed = true := by rw [hsame.closed]; exact h.closed
  have htl : t.nodes.length = s0.nodes.length := by rw [hsame.len]; exact h.len
  have htrad : ∀ i, t.radioAt i = s.radioAt i := by
    intro i; rw [← ht]; show (s.ret).radioAt i = _; exact (ret_facts s i).2.2
  have htrf : ∀ i, (t.nodeAt i).rf = (s.nodeAt i).rf := by
    intro i; rw [← ht, nodeAt_callAs]; exact (ret_facts s i).1
  have htq : ∀ i, (t.nodeAt i).queue = (s.nodeAt i).queue := by
    intro i; rw [← ht, nodeAt_callAs]; exact (ret_facts s i).2.1
  have htn : t.node = t.nodeAt b := by rw [node_eq_nodeAt, htc]
  have htdr : t.drv.radio = s.radioAt b := by
    show t.w.radio t.node.rf.rid = _
    rw [htn, ← htrad b]; rfl
  have hquiet : Quiet t := by
    intro i hi hic _
    rw [htl] at hi; rw [htc] at hic
    rw [htrad]
    by_cases hia : i = a
    · subst hia; exact h.sndFifo
    · exact h.third_fifo E i hi hia hic
  have hg : (q.enqueue g).2.2 = g := enqueue_frame q g (Or.inr hres)
  obtain ⟨t', eu, U⟩ := nodeUpdate_enq hc 199996 t L Pb p pl g (by rw [htc, htl]; exact E.hb) htcl
    (by rw [htl]; omega) hquiet
    (by
      unfold DrvState.Wf
      show t.node.rf.rid < t.w.radios.length
      rw [htn, htrf b, hsame.rlen, h.rlen]
      show s.ridAt b < _
      rw [h.rid b]; exact E.wb)
    (by rw [htdr, htn, htrf b]; exact h.rcvN)
    (by rw [htn, (hsame.stat b).2.2.1]; exact h.rcvStat.2.1)
    (by rw [htn, (hsame.stat b).2.2.2.1, h.rcvStat.2.2]; exact E.kind)
    (by rw [htdr, h.rcvFifo]; rfl) E.p5 k1 k32 (kun _)
    (by rw [htn, (hsame.stat b).1, h.rcvStat.1]; exact kto) kvt kvf (Or.inr (Or.inr (Or.inr hty)))
    (by
      rw [htn, htq b, h.rcvQ, hg, hty]
      decide)
  rw [hty] at eu
  rw [htn, htq b, h.rcvQ, hg] at U
  obtain ⟨Uc, _, _, Ul, Uo, d, Un, F, _, x⟩ := U
  have ht'b : t'.nodeAt b = t'.node := by rw [node_eq_nodeAt, Uc, htc]
  refine ⟨t', eu, by rw [Ul, htl], ?_, ?_, ?_⟩
  · rw [ht'b, Un]
  · intro j hj
    rw [Uo j (by rw [htc]; exact hj), htq j]
    exact h.queues j hj
  · -- quiescence: `b` has read its one entry, nobody else's radio was touched
    intro i hi
    by_cases hib : i = b
    · subst hib
      have : t'.radioAt i = t'.w.radio d.rid := by
        unfold NetState.radioAt NetState.ridAt
        rw [ht'b, Un]
      rw [this]; exact x
    · have hri : t'.ridAt i = s0.ridAt i := by
        unfold NetState.ridAt
        rw [Uo i (by rw [htc]; exact hib), htrf i]
        exact h.rid i
      have hne : s0.ridAt i ≠ t.drv.d.rid := by
        show _ ≠ t.node.rf.rid
        rw [htn, htrf b]
        show _ ≠ s.ridAt b
        rw [h.rid b]
        exact E.rid i b hi E.hb hib
      have hrad : t'.radioAt i = s.radioAt i := by
        have := F.others _ hne
        simp only [] at this
        rw [← htrad i]
        unfold NetState.radioAt
        rw [hri, this, (hsame.stat i).2.2.2.2, h.rid i]
        rfl
      rw [hrad]
      by_cases hia : i = a
      · subst hia; exact h.sndFifo
      · exact h.third_fifo E i hi hia hib

end

/-- **A fragmented user message between two neighbours is delivered exactly once, intact** — closed system
    (`runOthers`), loss-free, under the driver contracts.  The statement is that of
    `Nrf.Props.C05.C05_two_nodes_frag`.  `hdup`: the packet `b`'s radio accepted last (if any) is not the
    packed FIRST fragment of this message; `hothers`: no third radio listens to a unicast packet for the
    address of `b`'s pipe `hopPipe x y` (`Nrf.Net.NetOk.hothers`). -/
theorem two_nodes_frag (hc : L3Contracts) (cfg : AddrCfg) (hcfg : CfgOk cfg) (L : LinkCfg)
    (s : NetState) (a b : Nat) (x y : List Nat) (Pa Pb : List Bytes) (ty : Int) (msg : Bytes)
    (hx : IsNode x) (hy : IsNode y) (hadj : nextHopSpec x y = y) (hxy : x ≠ y)
    (hcur : s.cur = a) (hact : s.active = [a]) (hclosed : s.closed = true)
    (ha : a < s.nodes.length) (hb : b < s.nodes.length) (hab : a ≠ b) (hsize : s.nodes.length ≤ 90000)
    (hrid : ∀ i j, i < s.nodes.length → j < s.nodes.length → i ≠ j → s.ridAt i ≠ s.ridAt j)
    (hWa : s.ridAt a < s.w.radios.length) (hWb : s.ridAt b < s.w.radios.length)
    (hNa : NodeRadio L Pa true true 0x3E (s.nodeAt a).rf (s.radioAt a))
    (haddr_a : (s.nodeAt a).a = nodeSpec x) (hcfg_a : (s.nodeAt a).cfg = cfg)
    (hfrag_a : (s.nodeAt a).fragEnabled = true)
    (hmax : msg.length ≤ (s.nodeAt a).maxMessageLength) (hlen : MAX_FRAG_SIZE < msg.length)
    (hlen144 : msg.length ≤ 144)
    (hNb : NodeRadio L Pb true true 0x3E (s.nodeAt b).rf (s.radioAt b))
    (hPb : beginPipes cfg (val y) = .ok Pb)
    (hdup : NotDupFrame (s.radioAt b) ⟨⟨val x, val y, s.nextId &&& 0xFFFF, .int MSG_FRAG_FIRST,
      fragTotal msg.length⟩, msg.take MAX_FRAG_SIZE⟩)
    (haddr_b : (s.nodeAt b).a = nodeSpec y) (harr_b : (s.nodeAt b).arrivals = [])
    (hkind_b : (s.nodeAt b).kind ≠ .meshMaster) (hfrag_b : (s.nodeAt b).queue.frag = true)
    (hquiet : ∀ i, i < s.nodes.length → (s.radioAt i).rxFifo = [])
    (hothers : ∀ r A buf pid, r ≠ s.ridAt a → r ≠ s.ridAt b → Pb[hopPipe x y]? = some A →
      (s.w.radio r).listensTo (unicastPacket L A buf pid) = none)
    (hfaults : s.w.faults = []) (hty : 0 ≤ ty ∧ ty ≤ 127)
    (hroom : ((s.nodeAt b).queue.frames.length : Int) < (s.nodeAt b).queue.maxSize)
    (hnew : ∀ g ∈ (s.nodeAt b).queue.frames, ¬ (g.header.fromNode = val x ∧
      g.header.frameId = s.nextId &&& 0xFFFF ∧ g.header.ty = ty.toNat)) :
    ∃ s1 s2, nexec (apiNetWrite (val y) ty msg AUTO_ROUTING) s =
        (.ok (true, callerFrame x y s.nextId ty msg), s1) ∧
      nexec apiUpdate ((s1.ret).callAs b) = (.ok MSG_FRAG_LAST, s2) ∧
      DeliveredOnce s.nodes s2.nodes b (val x) ty.toNat msg ∧
      ∀ i, i < s.nodes.length → (s2.radioAt i).rxFifo = [] := by
  subst hcur
  have hvx : val x < 4096 := val_lt_4096 hx
  have hvy : val y < 4096 := val_lt_4096 hy
  have hmy : maskInt (val y : Int) 0xFFF = val y := maskInt_natCast _ _ (by omega)
  have hnode : s.node = s.nodeAt s.cur := rfl
  obtain ⟨hm1, hm2, hm3⟩ := userType_mask ty hty
  -- `write()` down to `_write`
  have hw := apiNetWrite_eq (val y) ty msg s (by rw [hmy]; exact isValid_val hy) (by rw [hnode]; exact hmax)
    (Or.inr (by rw [hnode]; exact hfrag_a))
  simp only [hmy] at hw
  have hcf : ({ header := { fromNode := s.node.a.addr, toNode := val y, frameId := s.nextId,
                            msgType := .int (maskInt ty 0xFF), reserved := 0 },
                message := msg } : Frame) = callerFrame x y s.nextId ty msg := by
    unfold callerFrame
    rw [hnode, haddr_a]; rfl
  rw [hcf] at hw
  generalize hcdef : callerFrame x y s.nextId ty msg = c at hw ⊢
  have hwc : wireCopy c = ⟨⟨val x, val y, s.nextId &&& 0xFFFF, .int ty.toNat, 0⟩, msg⟩ := by
    rw [← hcdef]
    unfold wireCopy callerFrame
    simp only [Header.ty, hm1, hm2]
    rw [and_fff, and_fff, Nat.mod_eq_of_lt hvx, Nat.mod_eq_of_lt hvy]
    rfl
  -- the prepared state
  have hprep : (({ s with nextId := (((s.nextId + 1) &&& 0xFFFF) + 1) &&& 0xFFFF } : NetState).setNode
      fun n => { n with frameBuf := wireCopy c }) = prepared s c := rfl
  rw [hprep] at hw
  generalize hs' : prepared s c = s' at hw ⊢
  have hs'c : s'.cur = s.cur := by rw [← hs']; rfl
  have hs'a : s'.active = s.active := by rw [← hs']; rfl
  have hs'l : s'.nodes.length = s.nodes.length := by rw [← hs']; simp [prepared]
  have hs'w : s'.w = s.w := by rw [← hs']; rfl
  have hs'cl : s'.closed = true := by rw [← hs']; exact hclosed
  have hs'n : s'.node = { s.node with frameBuf := wireCopy c } := by
    rw [← hs']; exact node_setNode _ _ ha
  have hs'at : ∀ i, i ≠ s.cur → s'.nodeAt i = s.nodeAt i := by
    intro i hi
    rw [← hs']
    show (NetState.setNode _ _).nodeAt i = _
    rw [nodeAt_setNode, if_neg (fun h => hi h.1)]
    rfl
  have hs'ata : s'.nodeAt s.cur = s'.node := by rw [← hs'c]; rfl
  have hs'rid : ∀ i, s'.ridAt i = s.ridAt i := by
    intro i
    by_cases hi : i = s.cur
    · subst hi
      unfold NetState.ridAt
      rw [hs'ata, hs'n]; rfl
    · unfold NetState.ridAt; rw [hs'at i hi]
  have hs'rad : ∀ i, s'.radioAt i = s.radioAt i := by
    intro i; unfold NetState.radioAt; rw [hs'rid, hs'w]
  have hba : b ≠ s.cur := fun h => hab h.symm
  -- the hop according to C04
  obtain ⟨hp1, hp5⟩ : 1 ≤ hopPipe x y ∧ hopPipe x y ≤ 5 := by
    have := C04_listens cfg hcfg x y hx hy hxy TX_NORMAL (Or.inl rfl)
    exact ⟨this.1, this.2.1⟩
  obtain ⟨A, hA1, hA2, hA3⟩ := listen_addrs cfg hcfg y hy Pb hPb (hopPipe x y) hp1 hp5
  have hl2p : logi2phys s'.node.a (val y) TX_NORMAL = (val y, hopPipe x y, false) := by
    rw [hs'n]
    show logi2phys s.node.a _ _ = _
    rw [hnode, haddr_a, l2p_tree hx hy (Or.inl rfl), hadj]
  -- the situation
  have E : FragEnv L Pb A (hopPipe x y) s.cur b s' := by
    refine ⟨by rw [hs'l]; exact ha, by rw [hs'l]; exact hb, hab, ?_, by rw [hs'rid, hs'w]; exact hWa,
      by rw [hs'rid, hs'w]; exact hWb, ?_, ?_, hA2, hp1, hp5, hA3, by rw [hs'at b hba]; exact hkind_b⟩
    · intro i j hi hj hij
      rw [hs'rid, hs'rid]; exact hrid i j (by rw [← hs'l]; exact hi) (by rw [← hs'l]; exact hj) hij
    · intro i hi _
      rw [hs'rad]; exact hquiet i (by rw [← hs'l]; exact hi)
    · intro r buf pid hra hrb
      rw [hs'w]; exact hothers r A buf pid (by rw [← hs'rid]; exact hra) (by rw [← hs'rid]; exact hrb) hA2
  have h0 : FragSt L Pa Pb A (hopPipe x y) s.cur b s' s' (true, true, 0x3E) none
      ((s.radioAt b).lastRx.map (·.data)) (s.nodeAt b).queue := by
    refine ⟨hs'c, by rw [hs'a, hact], hs'cl, rfl, by rw [hs'w]; exact hfaults, rfl, fun _ => rfl, ?_,
      (by intro e; cases e), by rw [hs'rad]; exact hquiet _ ha, by rw [hs'at b hba, hs'rad]; exact hNb,
      by rw [hs'rad]; exact hquiet b hb, by rw [hs'rad], by rw [hs'at b hba],
      ⟨rfl, by rw [hs'at b hba]; exact harr_b, rfl⟩, fun _ _ _ => rfl, fun _ _ => rfl⟩
    rw [hs'ata, hs'n, hs'rad]; exact hNa
  -- the plan
  generalize hn : fragTotal msg.length = n
  have hb2 : 2 ≤ n ∧ n ≤ 6 ∧ msg.length ≤ 24 * n := by
    rw [← hn]; unfold fragTotal; unfold MAX_FRAG_SIZE at *
    split <;> omega
  have hfb : s'.node.frameBuf = ⟨⟨val x, val y, s.nextId &&& 0xFFFF, .int ty.toNat, 0⟩, msg⟩ := by
    rw [hs'n]; exact hwc
  have hi16 : s.nextId &&& 0xFFFF < 65536 := by rw [and_ffff]; exact Nat.mod_lt _ (by decide)
  generalize htr : fragTr (val x) (val y) (s.nextId &&& 0xFFFF) ty.toNat n msg n
    ⟨val x, val y, s.nextId &&& 0xFFFF, .int ty.toNat, 0⟩ = tr
  have hme : (s'.nodeAt b).a.addr = val y := by rw [hs'at b hba, haddr_b]; rfl
  have hplanok : PlanOk (s'.nodeAt b).a.addr none tr := by
    rw [hme, ← htr]
    exact fragTr_ok (val x) (val y) _ ty.toNat n msg hvx hvy hi16 hb2.1 (by omega) (by omega) hb2.2.2
      (isValid_val hx) (isValid_val hy) n _ none (Nat.le_refl n) rfl rfl rfl (fun _ e => nomatch e)
  have htrl : tr.length = n := by rw [← htr]; exact fragTr_length _ _ _ _ _ _ _ _
  have htrne : tr ≠ [] := by
    intro e; rw [e] at htrl; simp at htrl; omega
  -- the receiver's duplicate filter is silent for the first fragment
  have hfirst : ∀ t, tr.head? = some t → (s.radioAt b).lastRx.map (·.data) ≠ some t.2.1 := by
    intro t ht e
    rw [← htr] at ht
    have hpk := fragTr_head_pack (val x) (val y) (s.nextId &&& 0xFFFF) ty.toNat n msg hb2.1 (by omega) (by omega)
      hb2.2.2 n _ (Nat.le_refl n) rfl rfl rfl t ht
    have hr0 : rxFrag (val x) (val y) (s.nextId &&& 0xFFFF) ty.toNat n msg (n - n) =
        ⟨⟨val x, val y, s.nextId &&& 0xFFFF, .int MSG_FRAG_FIRST, fragTotal msg.length⟩, msg.take MAX_FRAG_SIZE⟩ := by
      rw [Nat.sub_self, hn]
      unfold rxFrag
      rw [if_neg (by omega), if_pos rfl]; rfl
    rw [hr0] at hpk
    cases hl : (s.radioAt b).lastRx with
    | none => rw [hl] at e; cases e
    | some l =>
      rw [hl] at e
      simp only [Option.map_some, Option.some.injEq] at e
      exact hdup l hl (by rw [e]; exact hpk)
  obtain ⟨s1, xl, hxl, e1, h1⟩ := nodeWrite_frag hc E h0 199998 (val y) (hopPipe x y) ty.toNat tr hfirst
    (by rw [hs'n]; show pipeAddress s.node.cfg _ _ = _; rw [hnode, hcfg_a]; exact hA1)
    (by
      rw [hs'n]
      show val y ≠ s.node.a.addr
      rw [hnode, haddr_a]
      exact fun h => hxy (val_inj hx.1 hy.1 h.symm))
    (by rw [hfb]; show ¬ msg.length ≤ MAX_FRAG_SIZE; omega)
    (by
      rw [hfb]
      show fragPlan msg (fragTotal msg.length) ty.toNat (fragTotal msg.length) _ = _
      rw [hn, ← htr, fragTr_plan])
    htrne hplanok (by rw [hfb]) hl2p (by rw [hs'l, htrl]; omega)
  have hF : F = 199998 + 2 := rfl
  rw [hF, e1] at hw
  -- the last fragment
  have hxg : xl.2.2 = rxFrag (val x) (val y) (s.nextId &&& 0xFFFF) ty.toNat n msg (n - 1) := by
    rw [← htr] at hxl; exact fragTr_last _ _ _ _ _ _ _ _ _ hxl
  have hxok : FragOk (s'.nodeAt b).a.addr xl.2.1 xl.2.2 := hplanok.mem xl (List.mem_of_getLast? hxl)
  have hlastfr : rxFrag (val x) (val y) (s.nextId &&& 0xFFFF) ty.toNat n msg (n - 1) =
      ⟨⟨val x, val y, s.nextId &&& 0xFFFF, .int MSG_FRAG_LAST, ty.toNat⟩, msg.drop (24 * (n - 1))⟩ := by
    unfold rxFrag; rw [if_pos (by omega)]
  obtain ⟨s2, e2, l2, q2, o2, z2⟩ := deliver_last hc E h1 xl.2.2 hxok (by rw [hxg, hlastfr]; rfl)
    (by rw [hxg, hlastfr]; show ty.toNat ≠ NETWORK_EXT_DATA; unfold NETWORK_EXT_DATA; omega)
    (by rw [hs'l]; omega)
  refine ⟨s1, s2, hw, e2, ?_, fun i hi => z2 i (by rw [hs'l]; exact hi)⟩
  -- exactly once, nowhere else
  have hframes : (tr.map (·.2.2)).dropLast ++ [xl.2.2] = (List.range n).map
      (rxFrag (val x) (val y) (s.nextId &&& 0xFFFF) ty.toNat n msg) := by
    have h1 : (tr.map (·.2.2)).getLast? = some xl.2.2 := by rw [List.getLast?_map, hxl]; rfl
    rw [dropLast_concat_of_getLast? _ _ h1, ← htr, fragTr_frames _ _ _ _ _ _ _ _ (Nat.le_refl n), Nat.sub_self,
      ← List.range_eq_range']
  have hq2 : (s2.nodeAt b).queue = { (s.nodeAt b).queue with
      cache := ⟨⟨val x, val y, s.nextId &&& 0xFFFF, .int ty.toNat, ty.toNat⟩, msg⟩, cacheValid := false,
      frames := (s.nodeAt b).queue.frames ++ [⟨⟨val x, val y, s.nextId &&& 0xFFFF, .int ty.toNat, ty.toNat⟩, msg⟩] } := by
    rw [q2]
    have : ((feed (s.nodeAt b).queue (tr.map (·.2.2)).dropLast).enqueue xl.2.2).1 =
        feed (s.nodeAt b).queue ((tr.map (·.2.2)).dropLast ++ [xl.2.2]) := by
      rw [feed_append]; rfl
    rw [this, hframes]
    exact feed_message (val x) (val y) _ ty.toNat n msg hvx hvy hi16 hb2.1 (by omega) _ hfrag_b (by omega)
      (by unfold NETWORK_EXT_DATA; omega) hroom hnew
  refine ⟨by rw [l2, hs'l], ⟨⟨⟨val x, val y, s.nextId &&& 0xFFFF, .int ty.toNat, ty.toNat⟩, msg⟩, ?_, ?_⟩, ?_⟩
  · show (s2.nodeAt b).queue.frames = (s.nodeAt b).queue.frames ++ [_]
    rw [hq2]
  · exact ⟨rfl, rfl, rfl⟩
  · intro j hj
    show (s2.nodeAt j).queue.frames = (s.nodeAt j).queue.frames
    rw [o2 j hj]
    by_cases hja : j = s.cur
    · subst hja; rw [hs'ata, hs'n]; rfl
    · rw [hs'at j hja]

end Nrf.Net
