/-
C14, closed system, part 9: the relay step for ONE relay.  A node with `allow_multicast` and
`multicast_relay` on that receives a frame for `0o100` queues it (it is still delivered to its own
application), sleeps, and re-multicasts `frame_buf` to the address of the NEXT level
(`_handle_frame_for_other_node`); `_net_update` then loops to its next `read()`.
-/
import NrfProofs.C14Closed8
namespace Nrf.Net
open Nrf Nrf.Spec Nrf.Proofs Nrf.Proofs.McastK Nrf.Props.C04

def NetState.relayWait (s : NetState) (a : Nat) : NetState :=
  (if a >>> 3 = 0 then s.slept 2400000 else s).slept ((a % 4) * 600000)

theorem slept_slept (s : NetState) (x y : Nat) : (s.slept x).slept y = s.slept (x + y) := by
  unfold NetState.slept World.sleep
  simp only [Nat.add_assoc]

theorem relayWait_eq (s : NetState) (a : Nat) : ∃ n, s.relayWait a = s.slept n := by
  unfold NetState.relayWait
  by_cases h : a >>> 3 = 0
  · rw [if_pos h, slept_slept]; exact ⟨_, rfl⟩
  · rw [if_neg h]; exact ⟨_, rfl⟩

theorem relay_next (l : Nat) (h1 : 1 ≤ l) (h3 : l ≤ 3) : (lvl2addr l <<< 3) &&& 0xFFFF = lvl2addr (l + 1) := by
  have : l = 1 ∨ l = 2 ∨ l = 3 := by omega
  rcases this with h | h | h <;> subst h <;> decide

theorem handleOther_mc_relay (f ty : Nat) (s : NetState) (fb : Frame) (hcur : s.cur < s.nodes.length)
    (hfb : s.node.frameBuf = fb) (hwire : wireCopy fb = fb) (hty : fb.header.ty = ty)
    (husr : ty ≤ MAX_USR_DEF_MSG_TYPE)
    (ham : s.node.cfg.allowMulticast = true) (hto : fb.header.toNode = NETWORK_MULTICAST_ADDR)
    (hrel : s.node.relayEnabled = true)
    (hroom : (s.node.queue.frames.length : Int) < s.node.queue.maxSize)
    (hnew : ∀ g ∈ s.node.queue.frames, ¬ (g.header.fromNode = fb.header.fromNode ∧
      g.header.frameId = fb.header.frameId ∧ g.header.ty = fb.header.ty))
    (b : Bool) (s' : NetState)
    (hw : nexec (nodeWrite f ((lvl2addr s.node.a.netLvl <<< 3) &&& 0xFFFF) TX_MULTICAST)
      ((s.enqueued fb).relayWait s.node.a.addr) = (.ok b, s'))
    (hty' : s'.node.frameBuf.header.ty = ty) :
    nexec (handleOther (f + 1) ty) s = (.ok (true, ty), s') := by
  have hplain : fb.header.ty ≠ MSG_FRAG_FIRST ∧ fb.header.ty ≠ MSG_FRAG_MORE ∧ fb.header.ty ≠ MSG_FRAG_LAST := by
    rw [hty]
    unfold MAX_USR_DEF_MSG_TYPE at husr
    unfold MSG_FRAG_FIRST MSG_FRAG_MORE MSG_FRAG_LAST
    omega
  have hpoll : ¬ (ty = NETWORK_POLL ∧ s.node.a.addr ≠ NETWORK_DEFAULT_ADDR) := by
    rintro ⟨h, _⟩
    unfold MAX_USR_DEF_MSG_TYPE at husr
    unfold NETWORK_POLL at h
    omega
  have hto' : s.node.frameBuf.header.toNode = NETWORK_MULTICAST_ADDR := by rw [hfb]; exact hto
  have hnot131 : ¬ s'.node.frameBuf.header.ty = NETWORK_EXT_DATA := by
    rw [hty']
    unfold MAX_USR_DEF_MSG_TYPE at husr
    unfold NETWORK_EXT_DATA
    omega
  rw [handleOther.eq_2]
  simp only [nexec_bind, nexec_getNode, ham, hto', hpoll, ↓reduceIte, true_and]
  rw [enqueueFrameBuf_ok s fb hfb hwire hplain hroom hnew]
  unfold NetState.relayWait NetState.slept at hw
  by_cases h : s.node.a.addr >>> 3 = 0
  · simp only [h, ↓reduceIte] at hw
    simp only [h, hrel, ↓reduceIte, nexec_bind, nexec_pure, nexec_getNode, nexec_ite, nexec_sleepNs, hw, hnot131]
  · simp only [h, ↓reduceIte] at hw
    simp only [h, hrel, ↓reduceIte, nexec_bind, nexec_pure, nexec_getNode, nexec_ite, nexec_sleepNs, hw, hnot131]

/-- **The relay's transmission** from a tree network in which every RX FIFO is empty: `_write(next level
    address, TX_MULTICAST)` of the frame `fr` in `frame_buf` returns `True`; exactly one record goes on the
    air (the relay's radio, the address of level `Lj + 1`, one attempt, no acknowledgement awaited);
    exactly the other nodes of level `Lj + 1` hold the packet afterwards; the network is the same tree
    network. -/
theorem relay_sent_air (hc : L3Contracts) (cfg : AddrCfg) (hcfg : CfgOk cfg) (ham : cfg.allowMulticast = true)
    (L : LinkCfg) (tree : Nat → List Nat) (fr : Frame) (pk : Bytes) (t : Nat) (o : List Nat) (T : McFrame fr pk t o)
    (s : NetState) (g : Nat)
    (hok : NetOk cfg L tree s) (hcur : s.cur < s.nodes.length) (hfuel : s.nodes.length + 2 ≤ g)
    (hfb : s.node.frameBuf = fr)
    (hlvl : 1 ≤ (tree s.cur).length ∧ (tree s.cur).length ≤ 3)
    (hquiet : ∀ i, i < s.nodes.length → (s.radioAt i).rxFifo = [])
    (hdup : ∀ i, i < s.nodes.length → i ≠ s.cur → ∀ l, (s.radioAt i).lastRx = some l → l.data ≠ pk) :
    ∃ (D : DrvState) (k : Packet),
      nexec (nodeWrite (g + 2) ((lvl2addr s.node.a.netLvl <<< 3) &&& 0xFFFF) TX_MULTICAST) s = (.ok true, s.afterRf D) ∧
      NetOk cfg L tree (s.afterRf D) ∧ Same s (s.afterRf D) ∧
      levelAddrSpec cfg.pfx cfg.sfx ((tree s.cur).length + 1) = some k.addr ∧ k.data = pk ∧
      (∀ i, i < s.nodes.length → ((s.afterRf D).radioAt i).rxFifo =
        if i ≠ s.cur ∧ (tree i).length = (tree s.cur).length + 1 then [{ pipe := 0, data := pk }] else []) ∧
      D.w.air = s.w.air ++ [{ sender := s.ridAt s.cur, pkt := k, attempts := 1, ok := true }] := by
  obtain ⟨hn1, hn2, hn3, hn4, hn5, hn6⟩ := hok.node s.cur hcur
  obtain ⟨P, hP, hN⟩ := hok.radio s.cur hcur
  have hnode : s.node = s.nodeAt s.cur := rfl
  generalize hLv : (tree s.cur).length + 1 = Lv
  have hL4 : Lv ≤ 4 := by omega
  have hwd : (lvl2addr s.node.a.netLvl <<< 3) &&& 0xFFFF = lvl2addr Lv := by
    rw [hnode, hn2, ← hLv]
    exact relay_next _ hlvl.1 hlvl.2
  rw [hwd]
  have hg := sfxFn_spec (sfx := cfg.sfx) hcfg.1
  have hA : pipeAddress cfg (lvl2addr Lv) 0 = .ok (levelFn cfg.pfx (sfxFn cfg.sfx) Lv) :=
    pipeAddress_levelFn hg ham (by omega)
  generalize hAdef : levelFn cfg.pfx (sfxFn cfg.sfx) Lv = A at hA
  have hAlen : A.length = 5 := by rw [← hAdef]; exact levelFn_length _ _ _
  have hAspec : levelAddrSpec cfg.pfx cfg.sfx Lv = some A := by
    rw [levelAddrSpec_fn hg (by omega), hAdef]
  have hdrvrad : s.drv.radio = s.radioAt s.cur := rfl
  obtain ⟨D, pid, e, r1, l1, f1, N1, x1, lr1, hoth, hair⟩ := nodeWrite_mc_air hc g s L P (lvl2addr Lv) t A pk
    hcur hok.closed hfuel
    (by intro i hi _ _; exact hquiet i hi)
    hn6 hN
    (by intro i hi hic; exact (hok.inj i s.cur hi hcur hic).2)
    (by show pipeAddress s.node.cfg _ _ = _; rw [hnode, hn3]; exact hA)
    hAlen hok.faults
    (by rw [hfb]; exact T.len) (by rw [hfb]; exact T.pack) (by rw [hfb]; exact T.ty)
  generalize hkdef : unicastPacket L A pk pid = k at hoth hair
  have hrecv : ∀ j, j < s.nodes.length → j ≠ s.cur →
      (s.radioAt j).receive k =
        (if (tree j).length = Lv then (s.radioAt j).withMc [{ pipe := 0, data := pk }] { pid := pid, addr := A, data := pk }
         else s.radioAt j, none) := by
    intro j hj hjc
    obtain ⟨Pj, hPj, hNj⟩ := hok.radio j hj
    obtain ⟨pl1, pl2⟩ := pipes_level cfg hcfg ham (tree j) (hok.node j hj).1 Pj hPj Lv (by omega)
    rw [hAdef] at pl1 pl2
    by_cases hl : (tree j).length = Lv
    · rw [if_pos hl, ← hkdef, Radio.receive_mc hNj A pk pid (pl1 hl) (by rw [hquiet j hj]; decide)
        (by
          intro hh
          exact hdup j hj hjc _ hh rfl)]
      rw [hquiet j hj]
      rfl
    · rw [if_neg hl, ← hkdef]
      exact Radio.receive_ignore _ _ (listensTo_none_of_no_match hNj A pk pid (pl2 hl))
  have hspare : ∀ r, (∀ i, i < s.nodes.length → s.ridAt i ≠ r) → (s.w.radio r).receive k = (s.w.radio r, none) :=
    fun r hr => Radio.receive_ignore _ _ (hok.spare r k hr)
  generalize hs1 : s.afterRf D = s1
  have c1 : s1.cur = s.cur := by rw [← hs1]; rfl
  have len1 : s1.nodes.length = s.nodes.length := by rw [← hs1]; simp
  have w1 : s1.w = D.w := by rw [← hs1]; rfl
  have node1 : s1.node = { s.node with rf := D.d } := by rw [← hs1, afterRf_node _ _ hcur]
  have at1 : ∀ i, i ≠ s.cur → s1.nodeAt i = s.nodeAt i := by
    intro i hi
    rw [← hs1, nodeAt_afterRf_ne _ _ _ hi]
  have nodecur1 : s1.nodeAt s.cur = s1.node := by rw [node_eq_nodeAt, c1]
  have rid1 : ∀ i, s1.ridAt i = s.ridAt i := by
    intro i
    unfold NetState.ridAt
    by_cases hi : i = s.cur
    · subst hi
      rw [nodecur1, node1]
      show D.d.rid = _
      rw [r1]; rfl
    · rw [at1 i hi]
  have same1 : Same s s1 := by
    refine ⟨by rw [← hs1]; rfl, len1, ?_, by rw [w1, l1], ?_⟩
    · intro i
      refine ⟨?_, ?_, ?_, ?_, rid1 i⟩ <;>
      · by_cases hi : i = s.cur
        · subst hi; rw [nodecur1, node1]; rfl
        · rw [at1 i hi]
    · intro r hr
      rw [w1, hoth r (fun e => hr s.cur hcur e.symm), hspare r hr]
  have radcur1 : s1.radioAt s.cur = D.radio := by
    unfold NetState.radioAt
    rw [rid1, w1]
    show D.w.radio s.node.rf.rid = _
    rw [← r1]; rfl
  have radne1 : ∀ j, j < s.nodes.length → j ≠ s.cur → s1.radioAt j = ((s.radioAt j).receive k).1 := by
    intro j hj hjc
    unfold NetState.radioAt
    rw [rid1, w1, hoth _ (hok.inj j s.cur hj hcur hjc).2]
  have ok1 : NetOk cfg L tree s1 := by
    refine hok.of_same same1 (by rw [w1]; exact f1) ?_
    intro i hi P' hP' hN'
    by_cases hic : i = s.cur
    · subst hic
      have : P' = P := Except.ok.inj (hP'.symm.trans hP)
      subst this
      rw [nodecur1, node1, radcur1]
      exact N1
    · rw [at1 i hic, radne1 i hi hic, hrecv i hi hic]
      simp only []
      split
      · exact hN'.withMc 0 pk _ (by omega)
      · exact hN'
  subst hs1
  refine ⟨D, k, e, ok1, same1, ?_, ?_, ?_, hair⟩
  · rw [← hkdef]; exact hAspec
  · rw [← hkdef]; rfl
  · intro j hj
    by_cases hjc : j = s.cur
    · subst hjc
      rw [radcur1, x1, hdrvrad, if_neg (fun h => h.1 rfl)]
      exact hquiet s.cur hcur
    · rw [radne1 j hj hjc, hrecv j hj hjc]
      simp only []
      by_cases hl : (tree j).length = Lv
      · rw [if_pos hl, if_pos ⟨hjc, hl⟩]; rfl
      · rw [if_neg hl, if_neg (fun h => hl h.2)]
        exact hquiet j hj

/-- **The relay step, one relay, closed system, composed.** -/
theorem multicast_relay_step (hc : L3Contracts) (cfg : AddrCfg) (hcfg : CfgOk cfg) (ham : cfg.allowMulticast = true)
    (L : LinkCfg) (tree : Nat → List Nat) (fr : Frame) (pk : Bytes) (t : Nat) (o : List Nat)
    (T : McFrame fr pk t o) (s1 : NetState) (j : Nat)
    (hok : NetOk cfg L tree s1) (hj : j < s1.nodes.length) (hsize : s1.nodes.length ≤ 400)
    (hlvl : 1 ≤ (tree j).length ∧ (tree j).length ≤ 3)
    (hfifo : ∀ i, i < s1.nodes.length → (s1.radioAt i).rxFifo = if i = j then [{ pipe := 0, data := pk }] else [])
    (haccj : Accepts (s1.nodeAt j).queue fr) (hrelj : (s1.nodeAt j).relayEnabled = true)
    (hnext : ∀ i, i < s1.nodes.length → i ≠ j → (tree i).length = (tree j).length + 1 →
      Accepts (s1.nodeAt i).queue fr ∧ (s1.nodeAt i).relayEnabled = false)
    (hdup : ∀ i, i < s1.nodes.length → i ≠ j → ∀ l, (s1.radioAt i).lastRx = some l → l.data ≠ pk) :
    ∃ (s2 : NetState) (k : Packet),
      nexec apiUpdate ((s1.ret).callAs j) = (.ok t, s2) ∧ NetOk cfg L tree s2 ∧
      levelAddrSpec cfg.pfx cfg.sfx ((tree j).length + 1) = some k.addr ∧ k.data = pk ∧
      s2.w.air = s1.w.air ++ [{ sender := s1.ridAt j, pkt := k, attempts := 1, ok := true }] ∧
      (∀ i, i < s1.nodes.length →
        (s2.nodeAt i).queue.frames = (s1.nodeAt i).queue.frames ++
          (if i = j ∨ (i ≠ j ∧ (tree i).length = (tree j).length + 1) then [fr] else [])) ∧
      (∀ i, i < s1.nodes.length → (s2.radioAt i).rxFifo = []) := by
  obtain ⟨hm1, hm2⟩ := T.tyMask
  generalize hu : (s1.ret).callAs j = u
  have ucur : u.cur = j := by rw [← hu]; rfl
  have uact : u.active = [j] := by rw [← hu]; rfl
  have sameu : Same s1 u := by rw [← hu]; exact (Same.ret s1).trans (Same.callAs _ j)
  have ulen : u.nodes.length = s1.nodes.length := sameu.len
  have urf : ∀ k, (u.nodeAt k).rf = (s1.nodeAt k).rf := by
    intro k; rw [← hu, nodeAt_callAs]; exact (ret_facts s1 k).1
  have uq : ∀ k, (u.nodeAt k).queue = (s1.nodeAt k).queue := by
    intro k; rw [← hu, nodeAt_callAs]; exact (ret_facts s1 k).2.1
  have urad : ∀ k, u.radioAt k = s1.radioAt k := by
    intro k
    unfold NetState.radioAt
    rw [(sameu.stat k).2.2.2.2]
    rw [← hu]; rfl
  have urel : ∀ k, (u.nodeAt k).relayEnabled = (s1.nodeAt k).relayEnabled := by
    intro k
    rw [← hu, nodeAt_callAs, nodeAt_ret]
    split <;> rfl
  have uw : u.w.faults = s1.w.faults := by rw [← hu]; rfl
  have uwair : u.w.air = s1.w.air := by rw [← hu]; rfl
  have oku : NetOk cfg L tree u :=
    hok.of_same sameu (by rw [uw]; exact hok.faults) (fun i _ P _ hN => by rw [urf, urad]; exact hN)
  have hjl : j < u.nodes.length := by rw [ulen]; exact hj
  have hucl : u.cur < u.nodes.length := by rw [ucur]; exact hjl
  have unode : u.node = u.nodeAt j := by rw [node_eq_nodeAt, ucur]
  obtain ⟨m1, m2, m3, m4, m5, m6⟩ := oku.node j hjl
  obtain ⟨P, hP, hN⟩ := oku.radio j hjl
  have hdrvrad : u.drv.radio = u.radioAt j := by
    unfold DrvState.radio NetState.drv NetState.radioAt NetState.ridAt
    rw [unode]
  have hqu : Quiet u := by
    intro i hi hic _
    rw [ucur] at hic
    rw [urad, hfifo i (by rw [← ulen]; exact hi), if_neg hic]
  have hfifou : u.drv.radio.rxFifo = [{ pipe := 0, data := pk }] := by
    rw [hdrvrad, urad, hfifo j hj, if_pos rfl]
  have hWfu : u.drv.Wf := by show u.node.rf.rid < u.w.radios.length; rw [unode]; exact m6
  have hpkl : pk.length = 8 + fr.message.length := pack_length T.pack
  have hridj : u.drv.d.rid = u.ridAt j := by show u.node.rf.rid = _; rw [unode]; rfl
  -- fuel
  obtain ⟨g, hg⟩ : ∃ x : Nat, x = 199995 := ⟨_, rfl⟩
  have hF : F = ((((g + 1) + 1) + 1) + 1) + 1 := by rw [hg]; rfl
  -- (1) the relay's first read: its own packet
  obtain ⟨D1, e1, F1, N1, x1, a1⟩ := rfRead_head_air readKeepsAir hc ((g + 1) + 1) u L P true true 0x3E hucl oku.closed
    (by rw [ulen, hg]; omega) hqu hWfu (by rw [unode, hdrvrad]; exact hN) (by rw [unode]; exact m4)
    (by
      intro e he
      rw [hfifou] at he
      simp only [List.mem_singleton] at he
      subst he
      have := T.len
      unfold MAX_FRAG_SIZE at this
      exact ⟨Nat.zero_le _, by simp only []; omega, by simp only []; omega⟩)
  rw [hfifou] at e1 x1
  simp only [List.head?_cons, Option.map_some, List.tail_cons] at e1 x1
  have hn1 : (u.afterRf D1).node = { u.node with rf := D1.d } := afterRf_node u D1 hucl
  have hun : (u.afterRf D1).node.frameBuf.unpack pk = (wireCopy fr, true) := unpack_of_pack fr _ t T.ty pk T.pack
  rw [T.wire] at hun
  have hvt : isValid fr.header.toNode = true := by rw [T.dst]; decide
  have hvf : isValid fr.header.fromNode = true := by rw [T.src]; exact isValid_val T.ho
  have hto' : ¬ fr.header.toNode = (u.afterRf D1).node.a.addr := by
    rw [hn1, T.dst]
    show ¬ _ = u.node.a.addr
    rw [unode, m2]
    exact fun h => val_ne_multicast m1 h.symm
  have hc1 : (u.afterRf D1).cur < (u.afterRf D1).nodes.length := by simpa using hucl
  generalize hv2 : (u.afterRf D1).withFrame fr = v2
  have hc2 : v2.cur < v2.nodes.length := by rw [← hv2]; simpa using hucl
  have hn2 : v2.node = { u.node with rf := D1.d, frameBuf := fr } := by
    rw [← hv2, withFrame_node _ _ hc1, hn1]
  -- (2) the state in which the relay transmits
  obtain ⟨n, hn⟩ := relayWait_eq (v2.enqueued fr) v2.node.a.addr
  generalize hv3 : v2.enqueued fr = v3 at hn
  generalize hv4 : v3.slept n = v4 at hn
  have v3cur : v3.cur = j := by rw [← hv3, ← hv2]; exact ucur
  have v3node : v3.node = Node.pushFrame { u.node with rf := D1.d, frameBuf := fr } fr := by
    rw [← hv3, enqueued_node _ _ hc2, hn2]
  have v3at : ∀ k, k ≠ j → v3.nodeAt k = u.nodeAt k := by
    intro k hk
    have hk' : k ≠ u.cur := by rw [ucur]; exact hk
    rw [← hv3, ← hv2, nodeAt_enqueued_ne _ _ k (by simpa using hk'), nodeAt_withFrame_ne _ _ k (by simpa using hk'),
      nodeAt_afterRf_ne u D1 k hk']
  have v3w : v3.w = D1.w := by rw [← hv3, ← hv2]; rfl
  have v4cur : v4.cur = j := by rw [← hv4]; exact v3cur
  have v4act : v4.active = [j] := by rw [← hv4, ← hv3, ← hv2]; exact uact
  have v4len : v4.nodes.length = s1.nodes.length := by rw [← hv4, ← hv3, ← hv2]; simp [ulen]
  have v4node : v4.node = Node.pushFrame { u.node with rf := D1.d, frameBuf := fr } fr := by
    rw [← hv4, slept_node]; exact v3node
  have v4at : ∀ k, k ≠ j → v4.nodeAt k = u.nodeAt k := by
    intro k hk; rw [← hv4, slept_nodeAt]; exact v3at k hk
  have v4nodej : v4.nodeAt j = v4.node := by rw [node_eq_nodeAt, v4cur]
  have v4radio : ∀ r, v4.w.radio r = D1.w.radio r := by
    intro r; rw [← hv4, slept_radio, v3w]
  have v4faults : v4.w.faults = [] := by
    rw [← hv4, slept_faults, v3w, F1.faults]; exact oku.faults
  have v4air : v4.w.air = s1.w.air := by
    rw [← hv4]
    show v3.w.air = _
    rw [v3w, a1, uwair]
  have v4ridj : v4.ridAt j = u.ridAt j := by
    unfold NetState.ridAt
    rw [v4nodej, v4node]
    show D1.d.rid = _
    rw [F1.rid]; exact hridj
  have v4rad_j : v4.radioAt j = D1.radio := by
    unfold NetState.radioAt
    rw [v4radio, v4ridj, ← hridj, ← F1.rid]; rfl
  have v4rad_ne : ∀ k, k < s1.nodes.length → k ≠ j → v4.radioAt k = s1.radioAt k := by
    intro k hk hkj
    unfold NetState.radioAt NetState.ridAt
    rw [v4radio, v4at k hkj, F1.others _ (by
      rw [hridj]; exact (oku.inj k j (by rw [ulen]; exact hk) hjl hkj).2)]
    exact urad k
  have same04 : Same u v4 := by
    rw [← hv4, ← hv3, ← hv2]
    exact (((Same.afterRf u D1 hucl F1.rid F1.len (fun r hr => F1.others r (fun e => hr u.cur hucl e.symm))).trans
      (Same.withFrame _ fr)).trans (Same.enqueued _ fr)).trans (Same.slept _ n)
  have ok4 : NetOk cfg L tree v4 := by
    refine oku.of_same same04 v4faults ?_
    intro i hi P' hP' hN'
    by_cases hic : i = j
    · subst hic
      have : P' = P := Except.ok.inj (hP'.symm.trans hP)
      subst this
      rw [v4nodej, v4node, v4rad_j]
      exact N1
    · rw [v4at i hic, v4rad_ne i (by rw [← ulen]; exact hi) hic, ← urad]; exact hN'
  have hav : v4.node.a = v2.node.a := by rw [v4node, hn2]; rfl
  -- (3) the relay's transmission
  obtain ⟨D, k, e5, ok5, same45, hAk, hkd, fifo5, air5⟩ := relay_sent_air hc cfg hcfg ham L tree fr pk t o T v4 g ok4
    (by rw [v4cur, v4len]; exact hj) (by rw [v4len, hg]; omega) (by rw [v4node]; rfl)
    (by rw [v4cur]; exact hlvl)
    (by
      intro i hi
      rw [v4len] at hi
      by_cases hij : i = j
      · subst hij; rw [v4rad_j]; exact x1
      · rw [v4rad_ne i hi hij, hfifo i hi, if_neg hij])
    (by
      intro i hi hic l hl
      rw [v4len] at hi
      rw [v4cur] at hic
      rw [v4rad_ne i hi hic] at hl
      exact hdup i hi hic l hl)
  rw [v4cur] at hAk fifo5 air5
  rw [v4len] at fifo5
  rw [hav] at e5
  have hc4 : v4.cur < v4.nodes.length := by rw [v4cur, v4len]; exact hj
  generalize hv5 : v4.afterRf D = v5 at e5 ok5 same45 fifo5
  have v5cur : v5.cur = j := by rw [← hv5]; exact v4cur
  have v5act : v5.active = [j] := by rw [← hv5]; exact v4act
  have v5len : v5.nodes.length = s1.nodes.length := by rw [← hv5]; simp [v4len]
  have v5node : v5.node = { v4.node with rf := D.d } := by rw [← hv5, afterRf_node _ _ hc4]
  have v5at : ∀ i, i ≠ j → v5.nodeAt i = u.nodeAt i := by
    intro i hi
    rw [← hv5, nodeAt_afterRf_ne _ _ _ (by rw [v4cur]; exact hi), v4at i hi]
  have v5nodej : v5.nodeAt j = v5.node := by rw [node_eq_nodeAt, v5cur]
  have v5air : v5.w.air = s1.w.air ++ [{ sender := s1.ridAt j, pkt := k, attempts := 1, ok := true }] := by
    rw [← hv5]
    show D.w.air = _
    rw [air5, v4air, v4ridj, (sameu.stat j).2.2.2.2]
  have hho : nexec (handleOther (((g + 1) + 1) + 1) t) v2 = (.ok (true, t), v5) :=
    handleOther_mc_relay ((g + 1) + 1) t v2 fr hc2 (by rw [hn2]) T.wire hm2 T.usr
      (by rw [hn2]; show u.node.cfg.allowMulticast = true; rw [unode, m3]; exact ham)
      T.dst
      (by rw [hn2]; show u.node.relayEnabled = true; rw [unode, urel]; exact hrelj)
      (by rw [hn2]; show (u.node.queue.frames.length : Int) < u.node.queue.maxSize; rw [unode, uq]; exact haccj.1)
      (by rw [hn2]; show ∀ g ∈ u.node.queue.frames, _; rw [unode, uq]; exact haccj.2)
      true v5 (by rw [hv3, hn]; exact e5)
      (by rw [v5node, v4node]; exact hm2)
  -- (4) the receivers of the relayed packet wait
  generalize hR : mcReceivers tree s1.nodes.length j ((tree j).length + 1) = R
  have hmem : ∀ i, i ∈ R ↔ i < s1.nodes.length ∧ i ≠ j ∧ (tree i).length = (tree j).length + 1 := by
    intro i; rw [← hR]; exact mem_mcReceivers
  have hjR : j ∉ R := fun h => ((hmem j).mp h).2.1 rfl
  have hRnd : R.Nodup := by rw [← hR]; exact mcReceivers_nodup _ _ _ _
  have hRlen : R.length ≤ s1.nodes.length := by rw [← hR]; exact mcReceivers_length _ _ _ _
  have hjact5 : j ∈ v5.active := by rw [v5act]; exact List.mem_singleton.mpr rfl
  have W : McWait cfg L tree fr pk R v5 := by
    refine ⟨ok5, by rw [v5cur, v5len]; exact hj, by rw [v5cur]; exact hjact5, hRnd, ?_, ?_, ?_⟩
    · intro i hi _
      rw [v5len] at hi
      rw [fifo5 i hi]
      by_cases h : i ≠ j ∧ (tree i).length = (tree j).length + 1
      · rw [if_pos h, if_pos ((hmem i).mpr ⟨hi, h⟩)]
      · rw [if_neg h, if_neg (fun hh => h ((hmem i).mp hh).2)]
    · intro i hi
      obtain ⟨h0, h1, _⟩ := (hmem i).mp hi
      refine ⟨by rw [v5len]; exact h0, ?_⟩
      rw [v5act]
      intro h
      exact h1 (List.mem_singleton.mp h)
    · intro i hi
      obtain ⟨h0, h1, h2⟩ := (hmem i).mp hi
      rw [v5at i h1, uq, urel]
      exact hnext i h0 h1 h2
  have hfu : mcFuel v5.nodes.length R.length ≤ g + 1 := by
    unfold mcFuel
    rw [v5len, hg]
    have h1 : R.length * (s1.nodes.length + 10) ≤ 400 * 410 :=
      Nat.mul_le_mul (by omega) (by omega)
    omega
  obtain ⟨v6, hro, D56, air6⟩ := mc_runOthers_air readKeepsAir hc cfg ham L tree fr pk t o T R.length R rfl v5 (g + 1) W hfu
  obtain ⟨ok6, cur6, act6, same6, fifo6, stay6, queue6, attrs6⟩ := D56
  -- (5) the relay's own next read: nothing
  have len6 : v6.nodes.length = s1.nodes.length := by rw [same6.len, v5len]
  have c6 : v6.cur = j := by rw [cur6, v5cur]
  have hj6 : v6.cur < v6.nodes.length := by rw [c6, len6]; exact hj
  obtain ⟨P6, hP6, hN6⟩ := ok6.radio j (by rw [len6]; exact hj)
  obtain ⟨n1, n2, n3, n4, n5, n6⟩ := ok6.node j (by rw [len6]; exact hj)
  have node6 : v6.node = v6.nodeAt j := by rw [node_eq_nodeAt, c6]
  have drvrad6 : v6.drv.radio = v6.radioAt j := by
    unfold DrvState.radio NetState.drv NetState.radioAt NetState.ridAt
    rw [node6]
  have fifoj : v6.drv.radio.rxFifo = [] := by
    rw [drvrad6, (stay6 j (by rw [v5len]; exact hj) hjact5).1, fifo5 j hj, if_neg (fun h => h.1 rfl)]
  have hN6' : NodeRadio L P6 true true 0x3E v6.node.rf v6.drv.radio := by rw [drvrad6, node6]; exact hN6
  have hWf6 : v6.drv.Wf := by show v6.node.rf.rid < v6.w.radios.length; rw [node6]; exact n6
  obtain ⟨D3, eD, FD, ND, xD⟩ := hc.read v6.drv L P6 true true 0x3E hWf6 hN6'
    (by rw [fifoj]; intro e he; cases he)
  have airD : D3.w.air = v6.w.air := readKeepsAir.of_exec hWf6 (NodeRadio.txEmpty hN6') eD
  rw [fifoj] at eD xD
  simp only [List.head?_nil, Option.map_none, List.tail_nil] at eD xD
  have harr5 : v5.node.arrivals = [] := by
    rw [node_eq_nodeAt, v5cur]
    exact (ok5.node j (by rw [v5len]; exact hj)).2.2.2.1
  have hrd : nexec (rfRead ((g + 1) + 1)) v5 = (.ok none, v6.afterRf D3) := by
    rw [rfRead.eq_2, nexec_bind, deliverDue_nil v5 harr5]
    simp only []
    rw [nexec_bind, nexec_get]
    simp only [ok5.closed, if_true]
    rw [nexec_bind, hro]
    simp only []
    exact nexec_liftRf_ok _ v6 _ D3 eD
  have hnu : nexec (netUpdate ((((g + 1) + 1) + 1) + 1) 0) u = (.ok t, v6.afterRf D3) := by
    rw [netUpdate_step, e1]
    simp only [hun, hvt, hvf, Bool.not_true, Bool.or_self, Bool.false_eq_true, if_false]
    simp only [if_neg hto']
    rw [hv2, hm2, hho]
    simp only [if_true]
    rw [netUpdate_step, hrd]
  have hkind : (v6.afterRf D3).node.kind ≠ .meshMaster := by
    rw [afterRf_node _ _ hj6]
    show v6.node.kind ≠ _
    rw [node6]; exact n5
  have hup : nexec apiUpdate u = (.ok t, v6.afterRf D3) := by
    unfold apiUpdate
    rw [hF]
    exact nodeUpdate_plain _ u _ t hnu hkind
  have hridy : v6.drv.d.rid = v6.ridAt j := by
    show v6.node.rf.rid = _
    rw [node6]; rfl
  have hothers : ∀ i, i < s1.nodes.length → i ≠ j → D3.w.radio (v6.ridAt i) = v6.radioAt i := by
    intro i hi hij
    rw [FD.others _ (by rw [hridy]; exact (ok6.inj i j (by rw [len6]; exact hi) (by rw [len6]; exact hj) hij).2)]
    rfl
  have same7 : Same v6 (v6.afterRf D3) :=
    Same.afterRf v6 D3 hj6 FD.rid FD.len (fun r hr => FD.others r (by
      rw [hridy]; exact fun e => hr j (by rw [len6]; exact hj) e.symm))
  refine ⟨v6.afterRf D3, k, hup, ?_, hAk, hkd, by rw [afterRf_w, airD, air6, v5air], ?_, ?_⟩
  · refine ok6.of_same same7 (by rw [afterRf_w, FD.faults]; exact ok6.faults) ?_
    intro i hi P' hP' hN'
    by_cases hiy : i = j
    · subst hiy
      have : P' = P6 := Except.ok.inj (hP'.symm.trans hP6)
      subst this
      have h1 : (v6.afterRf D3).nodeAt v6.cur = { v6.nodeAt v6.cur with rf := D3.d } := by
        rw [nodeAt_afterRf, if_pos ⟨rfl, hj6⟩]
      rw [← c6, h1, radioAt_afterRf_cur v6 D3 hj6]
      exact ND
    · rw [nodeAt_afterRf_ne v6 D3 i (by rw [c6]; exact hiy), radioAt_afterRf_ne v6 D3 i (by rw [c6]; exact hiy),
        hothers i (by rw [← len6]; exact hi) hiy]
      exact hN'
  · intro i hi
    rw [queue_afterRf, queue6 i (by rw [v5len]; exact hi)]
    by_cases hij : i = j
    · subst hij
      rw [if_neg hjR, List.append_nil, if_pos (Or.inl rfl), v5nodej, v5node, v4node]
      show u.node.queue.frames ++ [fr] = _
      rw [unode, uq]
    · rw [v5at i hij, uq]
      by_cases h : (tree i).length = (tree j).length + 1
      · rw [if_pos ((hmem i).mpr ⟨hi, hij, h⟩), if_pos (Or.inr ⟨hij, h⟩)]
      · rw [if_neg (fun hh => h ((hmem i).mp hh).2.2), if_neg (fun hh => hh.elim hij (fun x => h x.2))]
  · intro i hi
    by_cases hij : i = j
    · subst hij
      rw [← c6, radioAt_afterRf_cur v6 D3 hj6]; exact xD
    · rw [radioAt_afterRf_ne v6 D3 i (by rw [c6]; exact hij), hothers i hi hij]
      exact fifo6 i (by rw [v5len]; exact hi) (by
        rw [v5act]
        intro h
        exact hij (List.mem_singleton.mp h))

end Nrf.Net
