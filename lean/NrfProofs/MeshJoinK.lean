/-
C17, joining: what `renew_address()` has established when it returns an address (client side), and
what the master's table is after it handled an address request (master side, = C16's allocator).
-/
import NrfProofs.MeshFrameK

namespace Nrf.Proofs.MeshK
open Nrf Nrf.Net Nrf.NetK Nrf.Spec Nrf.Spec.MeshProtocol

/-! ### no call ever changes the node's ID or class -/

structure IdKeeps (n n' : Node) : Prop where
  nodeId : n'.nodeId = n.nodeId
  kind : n'.kind = n.kind

theorem idKeeps_rel : NodeRel IdKeeps := by
  refine ⟨?_, ?_, ?_, ?_, ?_⟩
  · intro n; constructor <;> rfl
  · intro a b c h1 h2; exact ⟨h2.nodeId.trans h1.nodeId, h2.kind.trans h1.kind⟩
  · intro n r; constructor <;> rfl
  · intro n c; constructor <;> rfl
  · intro n a; constructor <;> rfl

section idk
variable {I : NetState → Prop} (hst : NetStable IdKeeps I)
include hst

theorem enqueueFrameBuf_id : NPres I enqueueFrameBuf := by
  unfold enqueueFrameBuf
  npres_k hst []

theorem beginRadio_id (a : Nat) : NPres I (beginRadio a) := by
  unfold beginRadio
  npres_k hst [NPres.forIn_list _ _ (by intro _ _; npres_k hst []) _]

theorem begin_id (a : Nat) : NPres I (begin a) := by
  unfold begin
  npres_k hst [beginRadio_id hst _]

theorem allPres_succ_id (f : Nat) (ih : AllPres I f) (hro : ∀ i, NPres I (runOthers (f + 1) i)) :
    AllPres I (f + 1) := by
  refine ⟨?_, ?_, ?_, ?_, ?_, ?_, ?_, ?_, hro, ?_, ?_, ?_, ?_, ?_, ?_, ?_, ?_⟩
  · intro _; rw [rfSend.eq_2]; npres_k hst [ih.runOthers _]
  · rw [rfResend.eq_2]; npres_k hst [ih.runOthers _]
  · intro _; rw [txStandby.eq_2]; npres_k hst [ih.rfResend, ih.txStandby _]
  · intro _; rw [txStandbyFor.eq_2]; npres_k hst [ih.txStandby _]
  · intro _ _; rw [fragRetry.eq_2]; npres_k hst [ih.txStandbyFor _, ih.fragRetry _ _]
  · intro _ _ _; rw [nodeFragLoop.eq_2]
    npres_k hst [ih.rfSend _, ih.fragRetry _ _, ih.nodeFragLoop _ _ _]
  · intro _ _ _; rw [nodeWriteToPipe.eq_2]
    npres_k hst [enqueueFrameBuf_id hst, ih.rfSend _, ih.txStandbyFor _, ih.nodeFragLoop _ _ _]
  · rw [rfRead.eq_2]; npres_k hst [ih.runOthers _]
  · intro _; rw [netUpdate.eq_2]
    npres_k hst [ih.rfRead, ih.netUpdate _, ih.handleThis _, ih.handleOther _]
  · intro _; rw [handleThis.eq_2]
    npres_k hst [enqueueFrameBuf_id hst, ih.nodeWrite _ _]
  · intro _; rw [handleOther.eq_2]
    npres_k hst [enqueueFrameBuf_id hst, ih.nodeWrite _ _]
  · intro _; rw [ackWait.eq_2]; npres_k hst [ih.netUpdate _, ih.ackWait _]
  · intro _ _; rw [nodeWrite.eq_2]
    npres_k hst [ih.nodeWriteToPipe _ _ _, ih.ackWait _]
  · rw [nodeUpdate.eq_2]
    npres_k hst [ih.netUpdate _, ih.nodeWrite _ _, ih.masterRelease _, ih.masterDhcp]
  · intro _; rw [masterRelease.eq_2]
    npres_k hst [ih.nodeWrite _ _, begin_id hst _]
  · rw [masterDhcp.eq_2]
    npres_k hst [ih.nodeWrite _ _]

end idk

/-- **no function of the node layer changes the node's ID or class** (nor, as in `frameAll`,
    touches another node on the call stack or moves the clock back) -/
theorem frameAllId : ∀ f s0, Good s0 → AllPres (Frame IdKeeps clockLe s0) f := by
  intro f
  induction f with
  | zero => intro _ _; exact allPres_zero _
  | succ f ih =>
    intro s0 g
    refine allPres_succ_id (frame_stable idKeeps_rel clockLe_rel g) f (ih s0 g) ?_
    intro i
    exact runOthers_frame idKeeps_rel clockLe_rel clockLe_restorable (f + 1) i s0 g

section apiId
variable {s0 : NetState} (g : Good s0)
include g

theorem lookupWait_id (deadline : Nat) : ∀ f, NPres (Frame IdKeeps clockLe s0) (lookupWait deadline f) := by
  have hst := frame_stable idKeeps_rel clockLe_rel g
  intro f
  induction f with
  | zero => rw [lookupWait]; exact NPres.throw _
  | succ f ih => rw [lookupWait]; npres_k hst [(frameAllId F s0 g).netUpdate _, ih]

theorem lookup2Master_id (number : Int) (ty : Nat) :
    NPres (Frame IdKeeps clockLe s0) (lookup2Master number ty) := by
  have hst := frame_stable idKeeps_rel clockLe_rel g
  unfold lookup2Master
  npres_k hst [(frameAllId F s0 g).nodeWrite _ _, lookupWait_id g _ _]

theorem meshLookupNodeId_id (a : Option Int) : NPres (Frame IdKeeps clockLe s0) (meshLookupNodeId a) := by
  have hst := frame_stable idKeeps_rel clockLe_rel g
  unfold meshLookupNodeId
  npres_k hst [lookup2Master_id g _ _]

theorem contactLoop_id (deadline : Nat) : ∀ f sl, NPres (Frame IdKeeps clockLe s0) (contactLoop deadline f sl) := by
  have hst := frame_stable idKeeps_rel clockLe_rel g
  intro f
  induction f with
  | zero => intro _; rw [contactLoop]; exact NPres.throw _
  | succ f ih => intro _; rw [contactLoop]; npres_k hst [(frameAllId F s0 g).netUpdate _, ih _]

theorem makeContact_id (lvl : Nat) : NPres (Frame IdKeeps clockLe s0) (makeContact lvl) := by
  have hst := frame_stable idKeeps_rel clockLe_rel g
  unfold makeContact
  npres_k hst [(frameAllId F s0 g).nodeWrite _ _, contactLoop_id g _ _ _]

theorem responseWait_id (contact deadline : Nat) :
    ∀ f c, NPres (Frame IdKeeps clockLe s0) (responseWait contact deadline f c) := by
  have hst := frame_stable idKeeps_rel clockLe_rel g
  intro f
  induction f with
  | zero => intro _; rw [responseWait.eq_1]; exact NPres.throw _
  | succ f ih => intro _; rw [responseWait.eq_2]; npres_k hst [(frameAllId F s0 g).netUpdate _, ih _]

end apiId

section apiTab
variable {s0 : NetState} (g : Good s0)
include g

theorem lookupWait_tab (deadline : Nat) : ∀ f, NPres (Frame TabKeeps clockLe s0) (lookupWait deadline f) := by
  have hst := frame_stable tabKeeps_rel clockLe_rel g
  intro f
  induction f with
  | zero => rw [lookupWait]; exact NPres.throw _
  | succ f ih =>
    rw [lookupWait]
    npres_k hst [(writePres_tab clockLe_rel clockLe_restorable F s0 g).netUpdate _, ih]

theorem lookup2Master_tab (number : Int) (ty : Nat) :
    NPres (Frame TabKeeps clockLe s0) (lookup2Master number ty) := by
  have hst := frame_stable tabKeeps_rel clockLe_rel g
  unfold lookup2Master
  npres_k hst [(writePres_tab clockLe_rel clockLe_restorable F s0 g).nodeWrite _ _, lookupWait_tab g _ _]

/-- a lookup changes neither the node's address nor anything else of its identity -/
theorem meshLookupNodeId_tab (a : Option Int) : NPres (Frame TabKeeps clockLe s0) (meshLookupNodeId a) := by
  have hst := frame_stable tabKeeps_rel clockLe_rel g
  unfold meshLookupNodeId
  npres_k hst [lookup2Master_tab g _ _]

end apiTab

theorem lookupNodeId_keeps_addr (a : Option Int) (s : NetState) (g : Good s) :
    (curNode (nexec (meshLookupNodeId a) s).2).a = (curNode s).a :=
  ((meshLookupNodeId_tab g a).run s (Frame.refl tabKeeps_rel clockLe_rel s)).me.a

/-- the call is well placed and the node has ID `id` -/
structure Stays (id : Nat) (s : NetState) : Prop where
  good : Good s
  id : (curNode s).nodeId = id

theorem Stays.step {α} {m : NetM α} (hm : ∀ s0, Good s0 → NPres (Frame IdKeeps clockLe s0) m)
    {id : Nat} {s : NetState} (h : Stays id s) : Stays id (nexec m s).2 := by
  have := (hm s h.good).run s (Frame.refl idKeeps_rel clockLe_rel s)
  exact ⟨this.good h.good, this.me.nodeId.trans h.id⟩

theorem Stays.updCur {id : Nat} {s : NetState} (h : Stays id s) (f : Node → Node)
    (hf : ∀ n, (f n).nodeId = n.nodeId) : Stays id (updCur s f) :=
  ⟨⟨h.good.onStack, by rw [updCur_length]; exact h.good.exists_⟩,
   by rw [curNode_updCur _ _ h.good.exists_, hf]; exact h.id⟩

/-! ### the client: what a successful `_request_address` has established -/

/-- what the node knows when `_request_address` succeeded with address `a`, ending in state `s'` -/
structure JoinedWith (id : Nat) (carried : Option Nat) (a : Nat) (s' : NetState) : Prop where
  /-- the address came out of the acceptance test for some contact (or was carried over from an
      earlier contact of the same call, for which it had) -/
  accepted : (∃ contact s1, Accepted contact a s1 ∧ (curNode s1).nodeId = id) ∨ carried = some a
  /-- the final state `s'` is the one in which a `lookup_node_id(a)` — the double check, made by the
      node with address `a` — returned the node's own ID: it is the last thing the call did -/
  confirmed : ∃ s2, Stays id s2 ∧ (curNode s2).a.addr = a ∧
    nexec (meshLookupNodeId (some (a : Int))) s2 = (.ok (id : Int), s')

theorem responseWait_accepts_id (contact deadline : Nat) (id : Nat) :
    ∀ fuel carried s v s', Stays id s →
      nexec (responseWait contact deadline fuel carried) s = (.ok (some v), s') →
      Stays id s' ∧ (carried = some v ∨ (Accepted contact v s' ∧ (curNode s').nodeId = id)) := by
  intro fuel carried s v s' hs h
  have hst : Stays id s' := by
    have := hs.step (m := responseWait contact deadline fuel carried) (fun s0 g0 => responseWait_id g0 _ _ _ _)
    rw [h] at this; exact this
  refine ⟨hst, ?_⟩
  rcases responseWait_accepts contact deadline fuel carried s v s' h with h1 | h1
  · exact Or.inl h1
  · exact Or.inr ⟨h1, hst.id⟩

/-- the state in which `_request_address` writes its request to `contact` -/
def requestSent (s : NetState) (contact : Nat) : NetState :=
  updCur s fun n => { n with frameBuf :=
    { header := { n.frameBuf.header with msgType := .int MESH_ADDR_REQUEST, toNode := contact,
                                         fromNode := NETWORK_DEFAULT_ADDR, reserved := (curNode s).nodeId },
      message := [] } }

theorem requestLoop_cons (contact : Nat) (rest : List Nat) (carried : Option Nat) (s : NetState) :
    nexec (requestLoop (contact :: rest) carried) s =
      nexec (do
        let _ ← nodeWrite F contact TX_PHYSICAL
        let deadline := 225000000 + (← nowNs)
        let newAddr ← responseWait contact deadline F carried
        match newAddr with
        | none => requestLoop rest none
        | some a =>
          begin a
          let n ← getNode
          if (← meshLookupNodeId (some n.a.addr)) ≠ n.nodeId then
            if (← meshLookupNodeId (some n.a.addr)) ≠ n.nodeId then
              begin NETWORK_DEFAULT_ADDR
              return (← requestLoop rest (some a))
          return true) (requestSent s contact) := by
  rw [requestLoop]
  simp only [nexec_bind, nexec_getNode, nexec_setHdr, nexec_modNode, updCur_updCur]
  rfl

/-- **C17, join (client side, one `_request_address`).**  Whatever arrives and whenever: if the loop
    over the contacts returns `True`, the node's address is an address `a` that passed the
    acceptance test (`C17_accept`) and for which — after `_begin(a)` — the double-check lookup
    returned the node's own ID. -/
theorem requestLoop_true (id : Nat) : ∀ contacts carried s s', Stays id s →
    nexec (requestLoop contacts carried) s = (.ok true, s') →
    Stays id s' ∧ JoinedWith id carried (curNode s').a.addr s' := by
  intro contacts
  induction contacts with
  | nil =>
    intro carried s s' _ h
    rw [requestLoop] at h
    cases h
  | cons contact rest ih =>
    intro carried s s' hs h
    rw [requestLoop_cons] at h
    have hs0 : Stays id (requestSent s contact) := hs.updCur _ (fun _ => rfl)
    simp only [nexec_bind, nexec_nowNs] at h
    -- the request
    have hs1 := hs0.step (m := nodeWrite F contact TX_PHYSICAL) (fun s0 g0 => (frameAllId F s0 g0).nodeWrite _ _)
    rcases hw : nexec (nodeWrite F contact TX_PHYSICAL) (requestSent s contact) with ⟨r1, s1⟩
    rw [hw] at h hs1
    cases r1 with
    | error e => cases h
    | ok _ =>
      simp only at h hs1
      -- the wait
      rcases hrw : nexec (responseWait contact (225000000 + s1.w.clock) F carried) s1 with ⟨r2, s2⟩
      rw [hrw] at h
      cases r2 with
      | error e => cases h
      | ok o =>
        cases o with
        | none =>
          simp only at h
          have hs2 : Stays id s2 := by
            have := hs1.step (m := responseWait contact (225000000 + s1.w.clock) F carried)
              (fun s0 g0 => responseWait_id g0 _ _ _ _)
            rw [hrw] at this; exact this
          obtain ⟨h1, h2⟩ := ih none s2 s' hs2 h
          refine ⟨h1, ⟨?_, h2.confirmed⟩⟩
          rcases h2.accepted with h3 | h3
          · exact Or.inl h3
          · cases h3
        | some a =>
          simp only [nexec_bind] at h
          obtain ⟨hs2, hacc⟩ := responseWait_accepts_id contact _ id F carried s1 a s2 hs1 hrw
          -- `_begin(a)`
          rcases hb : nexec (begin a) s2 with ⟨r3, s3⟩
          rw [hb] at h
          cases r3 with
          | error e => cases h
          | ok _ =>
            simp only [nexec_getNode] at h
            obtain ⟨haddr3, _, _⟩ := begin_ok_addr a s2 s3 hs2.good hb
            have hs3 : Stays id s3 := by
              have := hs2.step (m := begin a)
                (fun s0 g0 => begin_id (frame_stable idKeeps_rel clockLe_rel g0) _)
              rw [hb] at this; exact this
            have hacc' : (∃ contact s1, Accepted contact a s1 ∧ (curNode s1).nodeId = id) ∨ carried = some a := by
              rcases hacc with h1 | h1
              · exact Or.inr h1
              · exact Or.inl ⟨contact, s2, h1⟩
            -- first double check
            rw [haddr3, hs3.id] at h
            rcases hl1 : nexec (meshLookupNodeId (some (a : Int))) s3 with ⟨r4, s4⟩
            rw [hl1] at h
            have hs4 : Stays id s4 := by
              have := hs3.step (m := meshLookupNodeId (some (a : Int))) (fun s0 g0 => meshLookupNodeId_id g0 _)
              rw [hl1] at this; exact this
            cases r4 with
            | error e => cases h
            | ok v1 =>
              simp only [ne_eq, ite_not, nexec_ite, nexec_pure, nexec_bind] at h
              have ha4 : (curNode s4).a.addr = a := by
                have := lookupNodeId_keeps_addr (some (a : Int)) s3 hs3.good
                rw [hl1] at this
                rw [this, haddr3]
              by_cases hv1 : v1 = (id : Int)
              · simp only [hv1, ↓reduceIte] at h
                cases h
                exact ⟨hs4, ⟨by rw [ha4]; exact hacc', ⟨s3, hs3, haddr3.trans ha4.symm, by rw [ha4, hl1, hv1]⟩⟩⟩
              · simp only [hv1, ↓reduceIte] at h
                -- second double check
                rcases hl2 : nexec (meshLookupNodeId (some (a : Int))) s4 with ⟨r5, s5⟩
                rw [hl2] at h
                have hs5 : Stays id s5 := by
                  have := hs4.step (m := meshLookupNodeId (some (a : Int)))
                    (fun s0 g0 => meshLookupNodeId_id g0 _)
                  rw [hl2] at this; exact this
                have ha5 : (curNode s5).a.addr = a := by
                  have := lookupNodeId_keeps_addr (some (a : Int)) s4 hs4.good
                  rw [hl2] at this
                  rw [this, ha4]
                cases r5 with
                | error e => cases h
                | ok v2 =>
                  simp only at h
                  by_cases hv2 : v2 = (id : Int)
                  · simp only [hv2, ↓reduceIte] at h
                    cases h
                    exact ⟨hs5, ⟨by rw [ha5]; exact hacc', ⟨s4, hs4, ha4.trans ha5.symm, by rw [ha5, hl2, hv2]⟩⟩⟩
                  · simp only [hv2, ↓reduceIte] at h
                    rcases hb2 : nexec (begin NETWORK_DEFAULT_ADDR) s5 with ⟨r6, s6⟩
                    rw [hb2] at h
                    have hs6 : Stays id s6 := by
                      have := hs5.step (m := begin NETWORK_DEFAULT_ADDR)
                        (fun s0 g0 => begin_id (frame_stable idKeeps_rel clockLe_rel g0) _)
                      rw [hb2] at this; exact this
                    cases r6 with
                    | error e => cases h
                    | ok _ =>
                      simp only [] at h
                      rcases hrl : nexec (requestLoop rest (some a)) s6 with ⟨r7, s7⟩
                      rw [hrl] at h
                      cases r7 with
                      | error e => cases h
                      | ok b =>
                        cases h
                        obtain ⟨h1, h2⟩ := ih (some a) s6 _ hs6 hrl
                        refine ⟨h1, ⟨?_, h2.confirmed⟩⟩
                        rcases h2.accepted with h3 | h3
                        · exact Or.inl h3
                        · cases h3
                          exact hacc'

theorem requestAddress_true (id level : Nat) (s s' : NetState) (hs : Stays id s)
    (h : nexec (requestAddress level) s = (.ok true, s')) :
    Stays id s' ∧ JoinedWith id none (curNode s').a.addr s' := by
  unfold requestAddress at h
  simp only [nexec_bind] at h
  have hs1 := hs.step (m := makeContact level) (fun s0 g0 => makeContact_id g0 _)
  rcases hm : nexec (makeContact level) s with ⟨r, s1⟩
  rw [hm] at h hs1
  cases r with
  | error e => cases h
  | ok contacts =>
    simp only at h hs1
    by_cases he : contacts.isEmpty = true
    · simp only [he, ↓reduceIte, nexec_pure] at h; cases h
    · simp only [he, Bool.false_eq_true, ↓reduceIte] at h
      exact requestLoop_true id contacts none s1 s' hs1 h

theorem requestLoop_id {s0 : NetState} (g0 : Good s0) :
    ∀ cs c, NPres (Frame IdKeeps clockLe s0) (requestLoop cs c) := by
  have hst := frame_stable idKeeps_rel clockLe_rel g0
  intro cs
  induction cs with
  | nil => intro _; rw [requestLoop]; exact NPres.pure _
  | cons c rest ih2 =>
    intro _
    rw [requestLoop]
    npres_k hst [(frameAllId F s0 g0).nodeWrite _ _, responseWait_id g0 _ _ _ _, begin_id hst _,
      meshLookupNodeId_id g0 _, ih2 _]

theorem requestAddress_id {s0 : NetState} (g0 : Good s0) (level : Nat) :
    NPres (Frame IdKeeps clockLe s0) (requestAddress level) := by
  have hst := frame_stable idKeeps_rel clockLe_rel g0
  unfold requestAddress
  npres_k hst [makeContact_id g0 _, requestLoop_id g0 _ _]

/-- the retry loop of `renew_address` over an arbitrary request computation -/
def renewLoopG (req : Nat → NetM Bool) (endTimer : Nat) : Nat → Nat → Nat → NetM (Option Nat)
  | 0, _, _ => throw .diverge
  | f + 1, total, count => do
    if (← req count) then return some (← getNode).a.addr
    if (← nowNs) > endTimer then return none
    sleepNs ((25 + ((total + 1) * (count + 1)) * 2) * 1000000)
    renewLoopG req endTimer f ((total + 1) % 10) ((count + 1) % 4)

theorem renewLoop_eq (endTimer : Nat) : ∀ f total count,
    renewLoop endTimer f total count = renewLoopG requestAddress endTimer f total count := by
  intro f
  induction f with
  | zero => intro _ _; rfl
  | succ f ih => intro _ _; rw [renewLoop, renewLoopG, ih]

/-- if the loop returns an address, it is the node's address right after a request that succeeded -/
theorem renewLoopG_some (req : Nat → NetM Bool) (P : NetState → Prop)
    (hreq : ∀ c s, P s → P (nexec (req c) s).2)
    (hsl : ∀ s n, P s → P { s with w := s.w.sleep n }) (endTimer : Nat) :
    ∀ f total count s a s', P s →
      nexec (renewLoopG req endTimer f total count) s = (.ok (some a), s') →
      ∃ c s1, P s1 ∧ nexec (req c) s1 = (.ok true, s') ∧ (curNode s').a.addr = a := by
  intro f
  induction f with
  | zero => intro _ _ s a s' _ h; rw [renewLoopG] at h; cases h
  | succ f ih =>
    intro total count s a s' hs h
    rw [renewLoopG] at h
    simp only [nexec_bind] at h
    have hs1 := hreq count s hs
    rcases hr : nexec (req count) s with ⟨r, s1⟩
    rw [hr] at h hs1
    cases r with
    | error e => cases h
    | ok b =>
      simp only at h hs1
      cases b with
      | true =>
        simp only [↓reduceIte, nexec_bind, nexec_getNode, nexec_pure] at h
        cases h
        exact ⟨count, s, hs, hr, rfl⟩
      | false =>
        simp only [Bool.false_eq_true, ↓reduceIte, nexec_bind, nexec_nowNs, nexec_ite, nexec_pure] at h
        by_cases ht : s1.w.clock > endTimer
        · simp only [ht, ↓reduceIte] at h; cases h
        · simp only [ht, ↓reduceIte, nexec_sleepNs] at h
          exact ih _ _ _ a s' (hsl s1 _ hs1) h

theorem renewLoop_some (id endTimer : Nat) (f total count : Nat) (s : NetState) (a : Nat) (s' : NetState)
    (hs : Stays id s) (h : nexec (renewLoop endTimer f total count) s = (.ok (some a), s')) :
    Stays id s' ∧ (curNode s').a.addr = a ∧ JoinedWith id none a s' := by
  rw [renewLoop_eq] at h
  obtain ⟨c, s1, hs1, hr, ha⟩ := renewLoopG_some requestAddress (Stays id)
    (fun c s hs => hs.step (m := requestAddress c) (fun s0 g0 => requestAddress_id g0 _))
    (fun s n hs => ⟨⟨hs.good.onStack, hs.good.exists_⟩, hs.id⟩) endTimer f total count s a s' hs h
  obtain ⟨h1, h2⟩ := requestAddress_true id c s1 s' hs1 hr
  exact ⟨h1, ha, ha ▸ h2⟩

/-- `renew_address()` after the optional `update()`: drop the current address, then request
    until the timeout -/
def renewTail (fuel timeoutMs : Nat) : NetM (Option Nat) := do
  if (← getNode).a.addr ≠ NETWORK_DEFAULT_ADDR then begin NETWORK_DEFAULT_ADDR
  let endTimer := timeoutMs * 1000000 + (← nowNs)
  renewLoop endTimer fuel 0 0

theorem meshRenew_eq (timeoutMs : Nat) : meshRenew timeoutMs = (do
    let n ← getNode
    if n.kind = .meshMaster ∧ n.nodeId = 0 then return some 0
    if (← liftRf Rf24.available) then let _ ← apiUpdate
    renewTail 100000 timeoutMs) := rfl

theorem renewTail_some (id fuel timeoutMs : Nat) (s : NetState) (a : Nat) (s' : NetState) (hs : Stays id s)
    (h : nexec (renewTail fuel timeoutMs) s = (.ok (some a), s')) :
    Stays id s' ∧ (curNode s').a.addr = a ∧ JoinedWith id none a s' := by
  unfold renewTail at h
  simp only [nexec_bind, nexec_getNode, ne_eq, ite_not, nexec_ite] at h
  by_cases hd : (curNode s).a.addr = NETWORK_DEFAULT_ADDR
  · simp only [hd, ↓reduceIte, nexec_pure, nexec_nowNs] at h
    exact renewLoop_some id _ _ _ _ s a s' hs h
  · simp only [hd, ↓reduceIte] at h
    have hs3 := hs.step (m := begin NETWORK_DEFAULT_ADDR)
      (fun s0 g0 => begin_id (frame_stable idKeeps_rel clockLe_rel g0) _)
    rcases hb : nexec (begin NETWORK_DEFAULT_ADDR) s with ⟨r3, s3⟩
    rw [hb] at h hs3
    cases r3 with
    | error e => cases h
    | ok _ =>
      simp only [nexec_nowNs] at h
      exact renewLoop_some id _ _ _ _ s3 a s' hs3 h

/-- **C17, join (client side).**  A node that is not the master calls `renew_address(timeout)`;
    whatever arrives and whenever, whatever the other nodes do: if the call returns an address `a`
    then `a` is the node's `node_address` (`_begin(a)` ran last), the node's ID is unchanged, `a`
    passed the acceptance test of `C17_accept` for some contact, and a `lookup_node_id(a)` made
    after `_begin(a)` returned the node's own ID. -/
theorem meshRenew_some (id timeoutMs : Nat) (s : NetState) (a : Nat) (s' : NetState) (hs : Stays id s)
    (hnm : ¬ ((curNode s).kind = .meshMaster ∧ (curNode s).nodeId = 0))
    (h : nexec (meshRenew timeoutMs) s = (.ok (some a), s')) :
    Stays id s' ∧ (curNode s').a.addr = a ∧ JoinedWith id none a s' := by
  rw [meshRenew_eq] at h
  simp only [nexec_bind, nexec_getNode, hnm, ↓reduceIte] at h
  -- `if self._rf24.available(): self.update()`
  have hs1 := hs.step (m := liftRf Rf24.available) (fun s0 g0 =>
    (frame_stable idKeeps_rel clockLe_rel g0).liftRf _ (fun _ hJ => available_pres hJ))
  rcases hav : nexec (liftRf Rf24.available) s with ⟨r, s1⟩
  rw [hav] at h hs1
  cases r with
  | error e => cases h
  | ok b =>
    simp only at h hs1
    cases b with
    | false =>
      simp only [Bool.false_eq_true, ↓reduceIte, nexec_pure] at h
      exact renewTail_some id _ timeoutMs s1 a s' hs1 h
    | true =>
      simp only [↓reduceIte, nexec_bind] at h
      have hs2 := hs1.step (m := apiUpdate) (fun s0 g0 => (frameAllId F s0 g0).nodeUpdate)
      rcases hu : nexec apiUpdate s1 with ⟨r2, s2⟩
      rw [hu] at h hs2
      cases r2 with
      | error e => cases h
      | ok _ => exact renewTail_some id _ timeoutMs s2 a s' hs2 h

/-! ### the master: an address request runs C16's allocator -/

/-- the candidate search of `masterDhcp` is the table effect of C16's `dhcpLoop` -/
theorem dhcpFind_table (t : Mesh.Table) (fromNode reserved via sh : Nat) (w1 : Bool) : ∀ n,
    (Mesh.dhcpLoop t fromNode reserved via sh w1 n).1 =
      match dhcpFind t reserved via sh n with
      | none => t
      | some a => Mesh.setAddress t reserved a := by
  intro n
  induction n with
  | zero => rfl
  | succ n ih =>
    rw [Mesh.dhcpLoop, dhcpFind]
    by_cases h1 : via ||| ((n + 1) <<< sh) = NETWORK_DEFAULT_ADDR
    · simp only [h1, ↓reduceIte]; exact ih
    · simp only [h1, ↓reduceIte]
      by_cases h2 : Mesh.collisionScan (via ||| ((n + 1) <<< sh)) reserved t = true
      · simp only [h2, ↓reduceIte]; exact ih
      · simp only [h2, Bool.false_eq_true, ↓reduceIte]

/-- the table `_dhcp()` leaves, by C16's pure model (`Mesh.dhcp`; its table component does not
    depend on the outcome of the transmissions) -/
def dhcpTable (n : Node) : Mesh.Table :=
  (Mesh.dhcp n.dhcp n.frameBuf.header.fromNode n.frameBuf.header.reserved true).1

theorem dhcp_table_w1 (t : Mesh.Table) (fromNode reserved : Nat) (w1 w2 : Bool) :
    (Mesh.dhcp t fromNode reserved w1).1 = (Mesh.dhcp t fromNode reserved w2).1 := by
  unfold Mesh.dhcp
  rw [dhcpFind_table, dhcpFind_table]

/-- the reply part of `_dhcp()`: build the response frame for `newAddr` and transmit it (to the
    relay, routed, repeated once on failure; or directly to the unassigned address) -/
def dhcpSend (f : Nat) (fromNode newAddr : Nat) : NetM Unit := do
  setHdr fun h => { (h.setTy MESH_ADDR_RESPONSE) with toNode := h.fromNode }
  let msg ← liftPy (Mesh.packHNat newAddr)
  modNode fun n => { n with frameBuf := { n.frameBuf with message := msg } }
  if fromNode ≠ NETWORK_DEFAULT_ADDR then
    let toNode := (← getNode).frameBuf.header.toNode
    let response ← liftPy (← getNode).frameBuf.pack
    if !(← nodeWrite f toNode TX_NORMAL) then
      -- waiting for the NETWORK_ACK may have replaced frame_buf: restore the response
      modNode fun n => { n with frameBuf := (n.frameBuf.unpack response).1 }
      let _ ← nodeWrite f toNode TX_NORMAL
  else
    let _ ← nodeWrite f (← getNode).frameBuf.header.toNode TX_PHYSICAL

def clearDhcp (n : Node) : Node := { n with doDhcp := false }
def setLease (reserved newAddr : Nat) (n : Node) : Node :=
  { n with dhcp := Mesh.setAddress n.dhcp reserved newAddr }

theorem masterDhcp_succ (f : Nat) : masterDhcp (f + 1) = (do
    let n ← getNode
    if !n.doDhcp then return
    modNode clearDhcp
    let fromNode := n.frameBuf.header.fromNode
    let reserved := n.frameBuf.header.reserved
    let viaNode := if fromNode ≠ NETWORK_DEFAULT_ADDR then fromNode else 0
    let shiftVal := if fromNode ≠ NETWORK_DEFAULT_ADDR then Mesh.shiftLoop fromNode 0 else 0
    let extra := if fromNode = NETWORK_DEFAULT_ADDR then 1 else 0
    match dhcpFind n.dhcp reserved viaNode shiftVal (Mesh.MESH_MAX_CHILDREN + extra) with
    | none => return
    | some newAddr =>
      modNode (setLease reserved newAddr)
      dhcpSend f fromNode newAddr) := by
  rw [masterDhcp.eq_2]
  rfl

theorem dhcpSend_tab {s0 : NetState} (g : Good s0) (f fromNode newAddr : Nat) :
    NPres (Frame TabKeeps clockLe s0) (dhcpSend f fromNode newAddr) := by
  have hst := frame_stable tabKeeps_rel clockLe_rel g
  have hw := writePres_tab clockLe_rel clockLe_restorable f s0 g
  unfold dhcpSend
  npres_k hst [hw.nodeWrite _ _]

/-- **C17 / C16, `_dhcp()` on the node layer** (closed system included).  With a request pending
    (`_do_dhcp` set), however the transmissions of the reply end and whatever other nodes do
    meanwhile: afterwards the master's table is exactly what C16's allocator `Mesh.dhcp` computes
    from the table, `from_node` and `reserved` of the frame in `frame_buf`; `_do_dhcp` is cleared;
    class, ID, address constants and configuration are unchanged. -/
theorem masterDhcp_table (f : Nat) (s : NetState) (g : Good s) (hd : (curNode s).doDhcp = true) :
    (curNode (nexec (masterDhcp (f + 1)) s).2).dhcp = dhcpTable (curNode s) ∧
    (curNode (nexec (masterDhcp (f + 1)) s).2).doDhcp = false ∧
    (curNode (nexec (masterDhcp (f + 1)) s).2).kind = (curNode s).kind ∧
    (curNode (nexec (masterDhcp (f + 1)) s).2).nodeId = (curNode s).nodeId ∧
    (curNode (nexec (masterDhcp (f + 1)) s).2).a = (curNode s).a := by
  rw [masterDhcp_succ]
  simp only [nexec_bind, nexec_getNode, hd, Bool.not_true, Bool.false_eq_true, ↓reduceIte, nexec_modNode]
  have htab : dhcpTable (curNode s) =
      match dhcpFind (curNode s).dhcp (curNode s).frameBuf.header.reserved
        (if (curNode s).frameBuf.header.fromNode ≠ NETWORK_DEFAULT_ADDR then (curNode s).frameBuf.header.fromNode else 0)
        (if (curNode s).frameBuf.header.fromNode ≠ NETWORK_DEFAULT_ADDR then
          Mesh.shiftLoop (curNode s).frameBuf.header.fromNode 0 else 0)
        (Mesh.MESH_MAX_CHILDREN + if (curNode s).frameBuf.header.fromNode = NETWORK_DEFAULT_ADDR then 1 else 0) with
      | none => (curNode s).dhcp
      | some a => Mesh.setAddress (curNode s).dhcp (curNode s).frameBuf.header.reserved a := by
    unfold dhcpTable Mesh.dhcp
    rw [dhcpFind_table]
  rw [htab]
  generalize hsa : updCur s clearDhcp = sa
  have hca : curNode sa = clearDhcp (curNode s) := by
    rw [← hsa, curNode_updCur _ _ g.exists_]
  have ga : Good sa := by
    rw [← hsa]; exact ⟨g.onStack, by rw [updCur_length]; exact g.exists_⟩
  cases hfind : dhcpFind (curNode s).dhcp (curNode s).frameBuf.header.reserved
      (if (curNode s).frameBuf.header.fromNode ≠ NETWORK_DEFAULT_ADDR then (curNode s).frameBuf.header.fromNode else 0)
      (if (curNode s).frameBuf.header.fromNode ≠ NETWORK_DEFAULT_ADDR then
        Mesh.shiftLoop (curNode s).frameBuf.header.fromNode 0 else 0)
      (Mesh.MESH_MAX_CHILDREN + if (curNode s).frameBuf.header.fromNode = NETWORK_DEFAULT_ADDR then 1 else 0) with
  | none =>
    simp only [nexec_pure]
    rw [hca]
    exact ⟨rfl, rfl, rfl, rfl, rfl⟩
  | some newAddr =>
    simp only [nexec_bind, nexec_modNode]
    generalize hsb : updCur sa (setLease (curNode s).frameBuf.header.reserved newAddr) = sb
    have hcb : curNode sb = setLease (curNode s).frameBuf.header.reserved newAddr (clearDhcp (curNode s)) := by
      rw [← hsb, curNode_updCur _ _ ga.exists_, hca]
    have gb : Good sb := by
      rw [← hsb]; exact ⟨ga.onStack, by rw [updCur_length]; exact ga.exists_⟩
    have hfr := (dhcpSend_tab gb f (curNode s).frameBuf.header.fromNode newAddr).run sb
      (Frame.refl tabKeeps_rel clockLe_rel sb)
    refine ⟨hfr.me.dhcp.trans ?_, hfr.me.doDhcp.trans ?_, hfr.me.kind.trans ?_, hfr.me.nodeId.trans ?_,
      hfr.me.a.trans ?_⟩ <;> (rw [hcb]; rfl)

/-- **C17, the master handles an address request** (type 195 with a non-zero ID in `reserved`; the
    master has no request pending): `update()` remembers the request and runs `_dhcp()`: the table
    afterwards is C16's `Mesh.dhcp` of the table before (all of C16 — one lease per ID, one ID per
    address, the child rule — applies to it), however the reply's transmission ends. -/
theorem masterPart_request (f : Nat) (s : NetState) (g : Good s)
    (hk : (curNode s).kind = .meshMaster) (hid : (curNode s).nodeId = 0)
    (hr : (curNode s).frameBuf.header.reserved ≠ 0) :
    (curNode (nexec (masterPart (f + 1) MESH_ADDR_REQUEST) s).2).dhcp = dhcpTable (curNode s) ∧
    (curNode (nexec (masterPart (f + 1) MESH_ADDR_REQUEST) s).2).doDhcp = false := by
  have hlk : ¬ ((MESH_ADDR_REQUEST = MESH_ADDR_LOOKUP ∨ MESH_ADDR_REQUEST = MESH_ID_LOOKUP) ∧
      Mesh.lookupLongEnough MESH_ADDR_REQUEST (curNode s).frameBuf.message = true) := by
    simp [MESH_ADDR_LOOKUP, MESH_ADDR_REQUEST, MESH_ID_LOOKUP]
  have hrel : ¬ (MESH_ADDR_REQUEST = MESH_ADDR_RELEASE) := by decide
  unfold masterPart
  simp only [nexec_bind, nexec_getNode, hk, ne_eq, not_true_eq_false, ↓reduceIte, hr, not_false_eq_true,
    and_self, nexec_modNode, hid, hlk, hrel, nexec_pure]
  generalize hs1 : updCur s (fun n => { n with doDhcp := true }) = s1
  have hc1 : curNode s1 = { curNode s with doDhcp := true } := by
    rw [← hs1, curNode_updCur _ _ g.exists_]
  have g1 : Good s1 := by
    rw [← hs1]; exact ⟨g.onStack, by rw [updCur_length]; exact g.exists_⟩
  have := masterDhcp_table f s1 g1 (by rw [hc1])
  rcases hrun : nexec (masterDhcp (f + 1)) s1 with ⟨r, s2⟩
  rw [hrun] at this
  have hdt : dhcpTable (curNode s1) = dhcpTable (curNode s) := by rw [hc1]; rfl
  cases r with
  | error e => exact ⟨this.1.trans hdt, this.2.1⟩
  | ok _ => exact ⟨this.1.trans hdt, this.2.1⟩

end Nrf.Proofs.MeshK
