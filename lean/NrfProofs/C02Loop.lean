/-
C02 helper lemmas, part 4: `resend()` on a pending failed transmission, and the `force_retry` loop
of `send()`, for every fault pattern — by induction on the number of forced retries.
-/
import NrfProofs.C02Send

namespace Nrf
open Rf24 Spec.Link

/-- somebody acknowledges packet `k` of radio `i`, and a transmitter with registers `R` hears it -/
def ackedR (R : Radio) (w : World) (i : Nat) (k : Packet) : Bool := World.canHear R && (w.deliver i k).2.isSome

theorem acked_eq_ackedR (R : Radio) (s : DrvState) (k : Packet) (h : s.rad.regs = R.regs) :
    s.w.acked s.d.rid k = ackedR R s.w s.d.rid k := by
  unfold World.acked ackedR
  have : World.canHear (s.w.radio s.d.rid) = World.canHear R := Radio.canHear_regs _ _ h
  rw [this]

theorem ackedR_ackMap (R : Radio) (w w' : World) (i : Nat) (k : Packet) (h : w'.ackMap i k = w.ackMap i k) :
    ackedR R w' i k = ackedR R w i k := by
  unfold ackedR; rw [World.deliver_snd_ackMap, World.deliver_snd_ackMap, h]

theorem deliver_snd_ackMap_eq (w w' : World) (i : Nat) (k : Packet) (h : w'.ackMap i k = w.ackMap i k) :
    (w'.deliver i k).2 = (w.deliver i k).2 := by
  rw [World.deliver_snd_ackMap, World.deliver_snd_ackMap, h]

/-- what transmissions of packet `k` by radio `i` did to the world: `att` attempts consumed from
    the fault pattern, only records of `k` appended to the air log, the acknowledgement map of
    `k` unchanged, virtual time bounded -/
structure Sent (i : Nat) (k : Packet) (R : Radio) (w w' : World) (att spis : Nat) : Prop where
  faults : w'.faults = w.faults.drop att
  air : ∃ L, w'.air = w.air ++ L ∧ ∀ x ∈ L, x.sender = i ∧ x.pkt = k
  ackMap : w'.ackMap i k = w.ackMap i k
  len : w'.radios.length = w.radios.length
  eff : w'.eff i ≤ w.eff i + att * (T_TX_NS + World.ardNs R) + spis * SPI_COST_NS
  /-- every other radio has received the packet once per attempt that got through -/
  others : ∀ j, j ≠ i → j < w.radios.length → w'.radio j = recvN k (deliveries w.faults att) (w.radio j)

theorem Sent.ofKept {i : Nat} {k : Packet} {R : Radio} {w w' : World} {n : Nat} (h : Kept i k w w' n) :
    Sent i k R w w' 0 n :=
  ⟨by rw [h.faults]; rfl, ⟨[], by rw [h.air]; simp, fun x hx => by cases hx⟩, h.ackMap, h.len, by
    have := h.eff; omega, fun j hj _ => by rw [deliveries_zero, h.others j hj]; rfl⟩

theorem Sent.trans {i : Nat} {k : Packet} {R : Radio} {a b c : World} {m n p q : Nat}
    (h1 : Sent i k R a b m p) (h2 : Sent i k R b c n q) : Sent i k R a c (m + n) (p + q) := by
  obtain ⟨L1, hL1, hm1⟩ := h1.air
  obtain ⟨L2, hL2, hm2⟩ := h2.air
  refine ⟨by rw [h2.faults, h1.faults, List.drop_drop], ⟨L1 ++ L2, by rw [hL2, hL1, List.append_assoc], ?_⟩,
    h2.ackMap.trans h1.ackMap, h2.len.trans h1.len, ?_, ?_⟩
  · intro x hx
    rcases List.mem_append.1 hx with hx | hx
    · exact hm1 x hx
    · exact hm2 x hx
  · have := h1.eff; have := h2.eff
    rw [Nat.add_mul, Nat.add_mul]; omega
  · intro j hji hj
    rw [h2.others j hji (by rw [h1.len]; exact hj), h1.others j hji hj, h1.faults, deliveries_add, recvN_add]

theorem Sent.mono {i : Nat} {k : Packet} {R : Radio} {a b : World} {m p q : Nat}
    (h : Sent i k R a b m p) (hpq : p ≤ q) : Sent i k R a b m q :=
  ⟨h.faults, h.air, h.ackMap, h.len, by
    have := h.eff
    have : p * SPI_COST_NS ≤ q * SPI_COST_NS := Nat.mul_le_mul_right _ hpq
    omega, h.others⟩

/-- from state to state: same object, shadows untouched apart from the cached status byte -/
structure Run (k : Packet) (R : Radio) (s s' : DrvState) (att spis : Nat) : Prop where
  rid : s'.d.rid = s.d.rid
  d : s'.d = { s.d with status := s'.d.status }
  sent : Sent s.d.rid k R s.w s'.w att spis
  wf : s'.Wf
  /-- once the packet has been on the air the PID counter stands one past its PID … -/
  npid : 1 ≤ att → s'.rad.nextPid = (k.pid + 1) % 4
  /-- … and without a transmission it is where it was -/
  npid0 : att = 0 → s'.rad.nextPid = s.rad.nextPid

theorem Run.ofRel {k : Packet} {R : Radio} {s s' : DrvState} {n : Nat} (h : Rel k s s' n) : Run k R s s' 0 n :=
  ⟨h.rid, h.d, Sent.ofKept h.kept, h.wf, fun hc => by omega, fun _ => h.npid⟩

theorem Run.trans {k : Packet} {R : Radio} {a b c : DrvState} {m n p q : Nat}
    (h1 : Run k R a b m p) (h2 : Run k R b c n q) : Run k R a c (m + n) (p + q) :=
  ⟨h2.rid.trans h1.rid, by rw [h2.d, h1.d], by have := h2.sent; rw [h1.rid] at this; exact h1.sent.trans this, h2.wf,
   fun hmn => by
     by_cases hn : n = 0
     · rw [h2.npid0 hn]; exact h1.npid (by omega)
     · exact h2.npid (by omega),
   fun hmn => by rw [h2.npid0 (by omega), h1.npid0 (by omega)]⟩

theorem Run.mono {k : Packet} {R : Radio} {a b : DrvState} {m p q : Nat} (h : Run k R a b m p) (hpq : p ≤ q) :
    Run k R a b m q := ⟨h.rid, h.d, h.sent.mono hpq, h.wf, h.npid, h.npid0⟩

/-- firing an armed transmitter, as a `Run` -/
theorem fire_run (R : Radio) (e : TxEntry) (k : Packet) (s : DrvState) (h : Armed R e k s) :
    Run k R s (s.fired e) (cycleAttemptsSpec (R.awaitsAck e) (ackedR R s.w s.d.rid k) s.w.faults (World.arcOf R + 1)) 1 := by
  obtain ⟨hwf, hd, _, _, hf, ha, hm, _, he, hl, hoth⟩ := fire_common R e k s h
  rw [acked_eq_ackedR R s k h.regs] at hf ha he hoth
  refine ⟨rfl, ?_, ⟨hf, ⟨_, ha, ?_⟩, hm, hl, by rw [Nat.one_mul]; exact he, hoth⟩, hwf, fun _ => fired_npid R e k s h,
    fun hc => ?_⟩
  · rw [hd]
  · intro x hx
    simp only [List.mem_cons, List.not_mem_nil, or_false] at hx
    subst hx; exact ⟨rfl, rfl⟩
  · have := cycleAttemptsSpec_pos (R.awaitsAck e) (ackedR R s.w s.d.rid k) s.w.faults (World.arcOf R)
    omega

def falsy (res : SendRes) : Bool := match res with | .bool b => !b | .payload p => p.isNone || p == some []

theorem falsy_okResult (sendOnly : Bool) (taken : Option Bytes) (h : ∀ d, taken = some d → d ≠ []) :
    falsy (okResult sendOnly taken) = false := by
  unfold okResult falsy
  cases sendOnly with
  | true => rfl
  | false =>
    cases taken with
    | none => rfl
    | some d =>
      have := h d rfl
      simp only [Bool.false_eq_true, ↓reduceIte, Option.isNone_some, Bool.false_or]
      cases d with
      | nil => exact absurd rfl this
      | cons a t => rfl

/-- the transmission is over: TX FIFO empty; and if the result is `True`, the final test of
    `send()` will not read -/
structure Settled (R : Radio) (sendOnly : Bool) (res : SendRes) (s : DrvState) : Prop where
  tx : s.rad.txFifo = []
  noRead : res = .bool true → ¬ (s.d.status &&& 0x60 = 0x60 ∧ (!sendOnly) = true)
  regs : s.rad.regs = R.regs
  pipes : s.rad.RxPipes
  rx : s.rad.rxFifo = [] ∨ rxPipeField s.d = s.rad.rxPNo

theorem fresh_rx (s : DrvState) (hp : s.rad.RxPipes) (hf : s.d.status = s.rad.status) : rxPipeField s.d = s.rad.rxPNo := by
  unfold rxPipeField; rw [hf]; exact (Radio.status_decodeP _ hp).1

/-- what the environment must satisfy for the ACK payload to be readable: the shadow of EN_DPL
    agrees with the radio when the radio takes ACK payloads, and no radio attaches an empty one -/
structure AckEnv (R : Radio) (k : Packet) (s : DrvState) : Prop where
  feat : R.ackPayRx = true → s.d.features &&& 4 ≠ 0
  nonempty : ∀ d, (s.w.deliver s.d.rid k).2 = some (some d) → d ≠ []

theorem AckEnv.run {R : Radio} {k : Packet} {s s' : DrvState} {m p : Nat} (h : AckEnv R k s) (hr : Run k R s s' m p) :
    AckEnv R k s' := by
  refine ⟨?_, ?_⟩
  · intro hc; rw [hr.d]; exact h.feat hc
  · intro d hd
    rw [hr.rid, deliver_snd_ackMap_eq _ _ _ _ hr.sent.ackMap] at hd
    exact h.nonempty d hd

theorem ackTaken_nonempty (aw : Bool) (a : Option (Option Bytes)) (c r : Bool) (h : ∀ d, a = some (some d) → d ≠ [])
    (d : Bytes) (hd : ackTaken aw a c r = some d) : d ≠ [] := by
  unfold ackTaken at hd
  split at hd
  · split at hd
    · cases hd; exact h _ rfl
    · cases hd
  · cases hd

/-- **one cycle from an armed transmitter, then the decision of `resend()`** (`send_only` off
    requires the RX FIFO empty: it has just been flushed) -/
theorem armed_finish (R : Radio) (e : TxEntry) (k : Packet) (s : DrvState) (sendOnly : Bool)
    (h : Armed R e k s) (henv : AckEnv R k s) (hrx : sendOnly = false → s.rad.rxFifo = []) :
    ∃ s', exec (resendFinish sendOnly) (s.fired e) =
        (.ok (if cycleOkSpec (R.awaitsAck e) (ackedR R s.w s.d.rid k) s.w.faults (World.arcOf R + 1)
              then okResult sendOnly (ackTaken (R.awaitsAck e) (s.w.deliver s.d.rid k).2 R.ackPayRx true)
              else .bool false), s') ∧
      Run k R s s' (cycleAttemptsSpec (R.awaitsAck e) (ackedR R s.w s.d.rid k) s.w.faults (World.arcOf R + 1)) 4 ∧
      (cycleOkSpec (R.awaitsAck e) (ackedR R s.w s.d.rid k) s.w.faults (World.arcOf R + 1) = false →
        s' = s.fired e ∧ FailedSt R (e.withPid (s.rad.pidFor e)) k s' ∧ s'.d.status = s'.rad.status) ∧
      (cycleOkSpec (R.awaitsAck e) (ackedR R s.w s.d.rid k) s.w.faults (World.arcOf R + 1) = true →
        Settled R sendOnly (okResult sendOnly (ackTaken (R.awaitsAck e) (s.w.deliver s.d.rid k).2 R.ackPayRx true)) s') := by
  have hrun := fire_run R e k s h
  obtain ⟨hwf, hd, hregs6, _, _⟩ := fire_common R e k s h
  have hfresh : (s.fired e).d.status = (s.fired e).rad.status := by rw [hd]
  obtain ⟨hfail, hsucc⟩ := fired_cases R e k s h
  rw [acked_eq_ackedR R s k h.regs] at hfail hsucc
  cases hok : cycleOkSpec (R.awaitsAck e) (ackedR R s.w s.d.rid k) s.w.faults (World.arcOf R + 1) with
  | false =>
    obtain ⟨hf, _, _⟩ := hfail hok
    refine ⟨s.fired e, ?_, hrun.mono (by omega), fun _ => ⟨rfl, hf, hfresh⟩, (fun hc => by cases hc)⟩
    rw [resendFinish_failed R _ k _ sendOnly hf hfresh]
    rfl
  | true =>
    obtain ⟨htx, hpipes, hfl, hrxF, _⟩ := hsucc hok
    simp only [↓reduceIte]
    cases hso : sendOnly with
    | true =>
      refine ⟨s.fired e, ?_, hrun.mono (by omega), (fun hc => by cases hc),
        fun _ => ⟨htx, ?_, hregs6, hpipes, Or.inr (fresh_rx _ hpipes hfresh)⟩⟩
      · rw [resendFinish_true _ true hpipes hfresh _ hfl (Or.inr rfl)]; rfl
      · rintro _ ⟨_, h2⟩; cases h2
    | false =>
      have hrx0 := hrx hso
      rw [hrx0] at hfl hrxF
      simp only [List.length_nil, Nat.zero_lt_succ, decide_true, List.nil_append] at hfl hrxF
      cases hat : ackTaken (R.awaitsAck e) (s.w.deliver s.d.rid k).2 R.ackPayRx true with
      | none =>
        rw [hat] at hfl hrxF
        simp only [Option.isSome_none, Bool.false_eq_true, ↓reduceIte] at hfl
        refine ⟨s.fired e, ?_, hrun.mono (by omega), (fun hc => by cases hc),
          fun _ => ⟨htx, ?_, hregs6, hpipes, Or.inr (fresh_rx _ hpipes hfresh)⟩⟩
        · rw [resendFinish_true _ false hpipes hfresh false (by rw [hfl]; rfl) (Or.inl rfl)]; rfl
        · rintro _ ⟨h1, _⟩
          have := (Radio.status_decodeP _ hpipes).2.2.2.2.2.2.2.1
          rw [hfresh, this, hfl] at h1
          exact absurd h1 (by decide)
      | some d =>
        rw [hat] at hfl hrxF
        simp only [Option.isSome_some, ↓reduceIte] at hfl
        have hdne : d ≠ [] := ackTaken_nonempty _ _ _ _ henv.nonempty d hat
        have hcan : R.ackPayRx = true := by
          unfold ackTaken at hat
          split at hat
          · rename_i hc; simp only [Bool.and_eq_true] at hc; exact hc.1.2
          · cases hat
        have hfeat : (s.fired e).d.features &&& 4 ≠ 0 := by rw [hd]; exact henv.feat hcan
        obtain ⟨r1, r2, r3, r4, r5⟩ := resendFinish_payload (s.fired e) hwf hfresh d hdne (by rw [hfl]; rfl) hrxF htx hfeat
        refine ⟨(exec (resendFinish false) (s.fired e)).2, ?_, ?_, (fun hc => by cases hc),
          fun _ => ⟨?_, ?_, by rw [r2]; exact hregs6, rxPipes_nil _ (by rw [r2]), Or.inl (by rw [r2])⟩⟩
        · apply Prod.ext
          · rw [r1]; rfl
          · rfl
        · have hr2 : Run k R (s.fired e) (exec (resendFinish false) (s.fired e)).2 0 3 := by
            refine ⟨by rw [r4], by rw [r4], ⟨by rw [r3.2.1]; rfl, ⟨[], by rw [r3.2.2.1]; simp, fun x hx => by cases hx⟩,
              ?_, r3.2.2.2.2.1, ?_, ?_⟩, ?_, ?_, ?_⟩
            · exact World.ackMap_congr _ _ _ _ r3.2.2.2.2.1 (fun j _ hjs => r3.1 j hjs)
            · rw [r5]; omega
            · intro j hji _; rw [deliveries_zero, r3.1 j hji]; rfl
            · unfold DrvState.Wf; rw [r4, r3.2.2.2.2.1]; exact hwf
            · intro hc; omega
            · intro _; rw [r2]
          have := hrun.trans hr2
          simpa using this
        · rw [r2]; exact htx
        · unfold okResult; simp only [Bool.false_eq_true, ↓reduceIte]
          intro hc; cases hc

theorem exec_resendFire (R : Radio) (e : TxEntry) (k : Packet) (s : DrvState) (sendOnly : Bool)
    (hp : R.Ptx) (h : Armed R e k s) :
    exec (resendFire sendOnly) s = exec (resendFinish sendOnly) (s.fired e) := by
  unfold resendFire
  rw [exec_bind, exec_fire_update s e h.wf h.fifo (Radio.ptx_regs _ _ h.regs hp) (by rw [h.flags]; rfl) h.sendable]

theorem withPid_self (e : TxEntry) (p : Nat) (h : e.pid = some p) : e.withPid p = e := by
  cases e; simp only [TxEntry.withPid] at *; rw [h]

/-- **`resend()` on a pending failed transmission**: one more cycle for the same packet, judged by
    the ground truth of the fault pattern -/
theorem resend_spec (R : Radio) (e : TxEntry) (k : Packet) (s : DrvState) (sendOnly : Bool) (hp : R.Ptx)
    (h : FailedSt R e k s) (henv : AckEnv R k s) :
    ∃ s', exec (resend sendOnly) s =
        (.ok (if cycleOkSpec (R.awaitsAck e) (ackedR R s.w s.d.rid k) s.w.faults (World.arcOf R + 1)
              then okResult sendOnly (ackTaken (R.awaitsAck e) (s.w.deliver s.d.rid k).2 R.ackPayRx true)
              else .bool false), s') ∧
      Run k R s s' (cycleAttemptsSpec (R.awaitsAck e) (ackedR R s.w s.d.rid k) s.w.faults (World.arcOf R + 1)) 7 ∧
      (cycleOkSpec (R.awaitsAck e) (ackedR R s.w s.d.rid k) s.w.faults (World.arcOf R + 1) = false →
        FailedSt R e k s' ∧ s'.d.status = s'.rad.status) ∧
      (cycleOkSpec (R.awaitsAck e) (ackedR R s.w s.d.rid k) s.w.faults (World.arcOf R + 1) = true →
        Settled R sendOnly (okResult sendOnly (ackTaken (R.awaitsAck e) (s.w.deliver s.d.rid k).2 R.ackPayRx true)) s') := by
  obtain ⟨s4, harm, hrel, hrx, _, hpid, hex⟩ := resend_arm R e k s sendOnly h
  have hrun4 : Run k R s s4 0 3 := Run.ofRel hrel
  obtain ⟨s', h1, h2, h3, h4⟩ := armed_finish R e k s4 sendOnly harm (henv.run hrun4) hrx
  have hfa : s4.w.faults = s.w.faults := hrel.kept.faults
  have hak : ackedR R s4.w s4.d.rid k = ackedR R s.w s.d.rid k := by
    rw [hrel.rid]; exact ackedR_ackMap _ _ _ _ _ hrel.kept.ackMap
  have hdl : (s4.w.deliver s4.d.rid k).2 = (s.w.deliver s.d.rid k).2 := by
    rw [hrel.rid]; exact deliver_snd_ackMap_eq _ _ _ _ hrel.kept.ackMap
  rw [hfa, hak] at h1 h2 h3 h4
  rw [hdl] at h1 h4
  refine ⟨s', ?_, ?_, ?_, h4⟩
  · rw [hex, exec_resendFire R e k s4 sendOnly hp harm, h1]
  · have := hrun4.trans h2
    simpa using this
  · intro hok
    obtain ⟨_, hf, hfr⟩ := h3 hok
    obtain ⟨p, hpp⟩ := h.hpid
    have : s4.rad.pidFor e = p := by rw [hpid]; unfold Radio.pidFor; rw [hpp]; rfl
    rw [this, withPid_self e p hpp] at hf
    exact ⟨hf, hfr⟩

/-! ### the `force_retry` loop -/

/-- ground truth of `n` more cycles of `N` attempts each on fault pattern `F` -/
def retryOk (aw A : Bool) (N : Nat) : Nat → List Outcome → Bool
  | 0, _ => false
  | n + 1, F => cycleOkSpec aw A F N || retryOk aw A N n (F.drop N)

/-- attempts they make: each failed cycle uses all `N`, the first successful one ends the loop -/
def retryAttempts (aw A : Bool) (N : Nat) : Nat → List Outcome → Nat
  | 0, _ => 0
  | n + 1, F =>
    if cycleOkSpec aw A F N then cycleAttemptsSpec aw A F N
    else cycleAttemptsSpec aw A F N + retryAttempts aw A N n (F.drop N)

theorem retryAttempts_le (aw A : Bool) (N : Nat) (hN : 1 ≤ N) (n : Nat) (F : List Outcome) :
    retryAttempts aw A N n F ≤ n * N := by
  induction n generalizing F with
  | zero => simp [retryAttempts]
  | succ n ih =>
    unfold retryAttempts
    have h1 := cycleAttemptsSpec_le aw A F N hN
    have h2 := ih (F.drop N)
    rw [Nat.add_mul]
    split <;> omega

theorem exec_forceRetryLoop_stop (sendOnly : Bool) (f : Nat) (n : Int) (res : SendRes) (s : DrvState)
    (h : ((n != 0) && falsy res) = false) : exec (forceRetryLoop sendOnly (f + 1) n res) s = (.ok res, s) := by
  unfold forceRetryLoop
  cases res with
  | bool b => simp only [falsy] at h; simp only [h, Bool.false_eq_true, ↓reduceIte, exec_pure]
  | payload p => simp only [falsy] at h; simp only [h, Bool.false_eq_true, ↓reduceIte, exec_pure]

theorem exec_forceRetryLoop_step (sendOnly : Bool) (f : Nat) (n : Int) (res : SendRes) (s : DrvState)
    (h : ((n != 0) && falsy res) = true) :
    exec (forceRetryLoop sendOnly (f + 1) n res) s =
      exec (resend sendOnly >>= fun r => forceRetryLoop sendOnly f (n - 1) r) s := by
  conv => lhs; unfold forceRetryLoop
  cases res with
  | bool b => simp only [falsy] at h; simp only [h, ↓reduceIte]
  | payload p => simp only [falsy] at h; simp only [h, ↓reduceIte]

/-- **the forced retries of `send()`**, from a pending failed transmission, for every fault
    pattern: by induction on the number `n` of retries left (fuel `f > n`) -/
theorem retry_loop (R : Radio) (e : TxEntry) (k : Packet) (sendOnly : Bool) (hp : R.Ptx) :
    ∀ (n f : Nat), n < f → ∀ s : DrvState, FailedSt R e k s → s.d.status = s.rad.status → AckEnv R k s →
      ∃ s', exec (forceRetryLoop sendOnly f (n : Int) (.bool false)) s =
          (.ok (if retryOk (R.awaitsAck e) (ackedR R s.w s.d.rid k) (World.arcOf R + 1) n s.w.faults
                then okResult sendOnly (ackTaken (R.awaitsAck e) (s.w.deliver s.d.rid k).2 R.ackPayRx true)
                else .bool false), s') ∧
        Run k R s s' (retryAttempts (R.awaitsAck e) (ackedR R s.w s.d.rid k) (World.arcOf R + 1) n s.w.faults) (7 * n) ∧
        (retryOk (R.awaitsAck e) (ackedR R s.w s.d.rid k) (World.arcOf R + 1) n s.w.faults = false →
          FailedSt R e k s' ∧ s'.d.status = s'.rad.status) ∧
        (retryOk (R.awaitsAck e) (ackedR R s.w s.d.rid k) (World.arcOf R + 1) n s.w.faults = true →
          Settled R sendOnly (okResult sendOnly (ackTaken (R.awaitsAck e) (s.w.deliver s.d.rid k).2 R.ackPayRx true)) s') := by
  intro n
  induction n with
  | zero =>
    intro f hf s h hfresh henv
    obtain ⟨f', rfl⟩ : ∃ f', f = f' + 1 := ⟨f - 1, by omega⟩
    refine ⟨s, ?_, ?_, fun _ => ⟨h, hfresh⟩, fun hc => by simp [retryOk] at hc⟩
    · rw [exec_forceRetryLoop_stop _ _ _ _ _ (by simp)]
      simp [retryOk]
    · exact ⟨rfl, rfl, ⟨by simp [retryAttempts], ⟨[], by simp, fun x hx => by cases hx⟩, rfl, rfl, by
        simp [retryAttempts], fun j _ _ => by simp [retryAttempts, deliveries_zero, recvN]⟩, h.wf,
        fun hc => by simp [retryAttempts] at hc, fun _ => rfl⟩
  | succ n ih =>
    intro f hf s h hfresh henv
    obtain ⟨f', rfl⟩ : ∃ f', f = f' + 1 := ⟨f - 1, by omega⟩
    have hstep : ((((n + 1 : Nat) : Int) != 0) && falsy (.bool false)) = true := by
      simp [falsy]; omega
    rw [exec_forceRetryLoop_step _ _ _ _ _ hstep]
    obtain ⟨s1, h1, h2, h3, h4⟩ := resend_spec R e k s sendOnly hp h henv
    rw [exec_bind, h1]
    simp only
    have hn1 : (((n + 1 : Nat) : Int) - 1) = (n : Int) := by omega
    rw [hn1]
    unfold retryOk retryAttempts
    cases hok : cycleOkSpec (R.awaitsAck e) (ackedR R s.w s.d.rid k) s.w.faults (World.arcOf R + 1) with
    | true =>
      simp only [Bool.true_or, ↓reduceIte]
      have hs := h4 hok
      have hne : falsy (okResult sendOnly (ackTaken (R.awaitsAck e) (s.w.deliver s.d.rid k).2 R.ackPayRx true)) = false :=
        falsy_okResult _ _ (fun d hd => ackTaken_nonempty _ _ _ _ henv.nonempty d hd)
      obtain ⟨f'', rfl⟩ : ∃ f'', f' = f'' + 1 := ⟨f' - 1, by omega⟩
      refine ⟨s1, ?_, ?_, (fun hc => by cases hc), fun _ => hs⟩
      · rw [exec_forceRetryLoop_stop _ _ _ _ _ (by rw [hne]; simp)]
      · exact h2.mono (by omega)
    | false =>
      simp only [Bool.false_or, Bool.false_eq_true, ↓reduceIte]
      obtain ⟨hf1, hfr1⟩ := h3 hok
      have henv1 := henv.run h2
      obtain ⟨s2, g1, g2, g3, g4⟩ := ih f' (by omega) s1 hf1 hfr1 henv1
      have hatt : cycleAttemptsSpec (R.awaitsAck e) (ackedR R s.w s.d.rid k) s.w.faults (World.arcOf R + 1)
          = World.arcOf R + 1 := cycleAttemptsSpec_failed _ _ _ _ hok
      have hfa : s1.w.faults = s.w.faults.drop (World.arcOf R + 1) := by rw [h2.sent.faults, hatt]
      have hak : ackedR R s1.w s1.d.rid k = ackedR R s.w s.d.rid k := by
        rw [h2.rid]; exact ackedR_ackMap _ _ _ _ _ h2.sent.ackMap
      have hdl : (s1.w.deliver s1.d.rid k).2 = (s.w.deliver s.d.rid k).2 := by
        rw [h2.rid]; exact deliver_snd_ackMap_eq _ _ _ _ h2.sent.ackMap
      rw [hfa, hak] at g1 g2 g3 g4
      rw [hdl] at g1 g4
      rw [hok] at h1
      simp only [Bool.false_eq_true, ↓reduceIte] at h1
      refine ⟨s2, g1, ?_, g3, g4⟩
      have := h2.trans g2
      rw [hatt] at this ⊢
      exact this.mono (by omega)

end Nrf
