/-
Helper lemmas for C16: `load_dhcp` into a LIVE (non-empty) table.

Both branches of `load_dhcp` call `set_address(id, addr, search_by_address=True)` for every pair of
the file, in file order (`loadPairs`, `NrfProofs/Lease.lean`).  Here: what the resulting table
contains when the file was written from an injective table `u` and the master holds an injective
table `t` (`mem_loadPairs`), and the exact list — order included — when the file is the image of the
very table the master still holds (`loadPairs_self`).
-/
import NrfProofs.Lease

namespace Nrf.Proofs.Lease
open Nrf Nrf.Net Nrf.Mesh Nrf.Spec

theorem inj_loadPairs {t : Table} (h : Inj t) (ps : Table) : Inj (loadPairs t ps) := by
  induction ps generalizing t with
  | nil => exact h
  | cons e ps ih =>
    rw [loadPairs_cons]
    exact ih (inj_setAddress_true h e.1 e.2)

/-- **Membership after loading into a live table.**  `t` injective (what the master holds), `ps`
    with distinct IDs and distinct addresses (what the file holds).  Afterwards the table holds every
    pair of the file, and of the old entries exactly those whose ID is not an ID of the file and whose
    address is not an address of the file. -/
theorem mem_loadPairs {t : Table} (h : Inj t) (ps : Table) (hk : (keys ps).Nodup)
    (ha : (addrs ps).Nodup) (j b : Nat) :
    (j, b) ∈ loadPairs t ps ↔ (j, b) ∈ ps ∨ (j ∉ keys ps ∧ b ∉ addrs ps ∧ (j, b) ∈ t) := by
  induction ps generalizing t with
  | nil => simp [loadPairs]
  | cons e ps ih =>
    obtain ⟨i, a⟩ := e
    have hk' : i ∉ keys ps ∧ (keys ps).Nodup := by simpa [keys] using hk
    have ha' : a ∉ addrs ps ∧ (addrs ps).Nodup := by simpa [addrs] using ha
    rw [loadPairs_cons, ih (inj_setAddress_true h i a) hk'.2 ha'.2, mem_setAddress_true h]
    simp only [List.mem_cons, Prod.mk.injEq, keys, addrs, List.map_cons, not_or]
    constructor
    · rintro (hm | ⟨hj, hb, ⟨rfl, rfl⟩ | ⟨hji, hba, hm⟩⟩)
      · exact Or.inl (Or.inr hm)
      · exact Or.inl (Or.inl ⟨rfl, rfl⟩)
      · exact Or.inr ⟨⟨hji, hj⟩, ⟨hba, hb⟩, hm⟩
    · rintro ((⟨rfl, rfl⟩ | hm) | ⟨⟨hji, hj⟩, ⟨hba, hb⟩, hm⟩)
      · exact Or.inr ⟨hk'.1, ha'.1, Or.inl ⟨rfl, rfl⟩⟩
      · exact Or.inl hm
      · exact Or.inr ⟨hj, hb, Or.inr ⟨hji, hba, hm⟩⟩

/-- `set_address(i, a, True)` on a table whose FIRST entry is `(i, a)`: the entry moves to the end -/
theorem setAddress_true_head (i a : Nat) (rest : Table) (hi : i ∉ keys rest) :
    setAddress ((i, a) :: rest) i a true = rest ++ [(i, a)] := by
  unfold setAddress
  rw [setAddressGo_true]
  simp only [firstHolder, ↓reduceIte, dictDel]
  exact dictSet_of_not_mem _ hi

/-- Loading the pairs `ps` into a table that starts with exactly these pairs rotates them, one by
    one, behind the rest. -/
theorem loadPairs_prefix (ps acc : Table) (hk : (keys (ps ++ acc)).Nodup) :
    loadPairs (ps ++ acc) ps = acc ++ ps := by
  induction ps generalizing acc with
  | nil => simp [loadPairs]
  | cons e ps ih =>
    obtain ⟨i, a⟩ := e
    have hk' : i ∉ keys (ps ++ acc) ∧ (keys (ps ++ acc)).Nodup := by simpa [keys] using hk
    rw [loadPairs_cons, List.cons_append]
    simp only
    rw [setAddress_true_head i a _ hk'.1, List.append_assoc, ih]
    · simp
    · have hperm : (keys (ps ++ (acc ++ [(i, a)]))).Perm (keys ((i, a) :: ps ++ acc)) := by
        simp only [keys, List.map_append, List.map_cons, List.map_nil, List.cons_append]
        rw [← List.append_assoc]
        exact List.perm_append_singleton _ _
      exact hperm.nodup_iff.mpr hk

/-- **Loading the image of the table the master still holds gives that table back, order
    included** (each entry is deleted and re-appended in turn). -/
theorem loadPairs_self (t : Table) (hk : (keys t).Nodup) : loadPairs t t = t := by
  have := loadPairs_prefix t [] (by simpa using hk)
  simpa using this

end Nrf.Proofs.Lease
