/-
C13 helper lemmas, part 5b (routes of any length): delivery at the destination for every acknowledged
type the node layer hands to the application — user types 65..127 at any node, and the system types
129, 132..147, 151..191 at a node that does not return system messages to `update()`'s caller
(`ret_sys_msg = False`, the default of `RF24Network`).  The six types the network layer consumes or
treats as fragments (128, 130, 131, 148, 149, 150) are excluded.  Generalises `handleThis_user_ok`,
`netUpdate_deliver`, `dest_update` (types ≤ 127) of NrfProofs/C05Closed.lean / C13Live.lean.
-/
import NrfProofs.C13HopsLink

namespace Nrf.Net.Hops
open Nrf Nrf.Spec Nrf.Proofs Nrf.Props.C04

/-- type `t` (< 192), addressed to a node with `ret_sys_msg = retSys`, ends in that node's queue -/
def SysOk (t : Nat) (retSys : Bool) : Prop :=
  (t ≤ MAX_USR_DEF_MSG_TYPE ∨ retSys = false) ∧ t < 192 ∧
  t ≠ 128 ∧ t ≠ 130 ∧ t ≠ 131 ∧ t ≠ 148 ∧ t ≠ 149 ∧ t ≠ 150

instance (t : Nat) (b : Bool) : Decidable (SysOk t b) := by unfold SysOk; infer_instance

theorem sysOk_user {t : Nat} (h : t ≤ MAX_USR_DEF_MSG_TYPE) (b : Bool) : SysOk t b := by
  unfold MAX_USR_DEF_MSG_TYPE at h
  unfold SysOk MAX_USR_DEF_MSG_TYPE
  omega

/-- `_handle_frame_for_this_node(t)` for such a type: one `queue.enqueue(frame_buf)` -/
theorem handleThis_enqueue_sys (f msgT : Nat) (s : NetState) (h : SysOk msgT s.node.retSysMsg) :
    nexec (handleThis (f + 1) msgT) s =
      match nexec enqueueFrameBuf s with
      | (.ok _, s') =>
        (.ok (if s'.node.frameBuf.header.ty = NETWORK_EXT_DATA then (false, NETWORK_EXT_DATA)
              else (true, msgT)), s')
      | (.error e, s') => (.error e, s') := by
  obtain ⟨h0, h192, h128, h130, h131, h148, h149, h150⟩ := h
  rw [handleThis.eq_2]
  have h1 : msgT ≠ NETWORK_PING := h130
  have h2 : msgT ≠ MESH_ADDR_RESPONSE := h128
  have h3 : msgT ≠ MESH_ADDR_REQUEST := by unfold MESH_ADDR_REQUEST; omega
  simp only [nexec_bind, nexec_getNode, nexec_ite, nexec_pure, h1, h2, h3, false_and, if_false]
  have hc1 : ¬ (s.node.retSysMsg = true ∧ msgT > MAX_USR_DEF_MSG_TYPE ∨ msgT = NETWORK_ACK) := by
    rintro (⟨ha, hb⟩ | hb)
    · rcases h0 with h0 | h0
      · omega
      · rw [h0] at ha; cases ha
    · unfold NETWORK_ACK at hb; omega
  rw [if_neg hc1]
  rcases nexec enqueueFrameBuf s with ⟨r, s'⟩
  cases r with
  | error e => rfl
  | ok a => simp only []; split <;> rfl

/-- a frame of such a type (already in wire form) for this node, queue with room and without a frame of
    the same origin, id and type: enqueued once; `_net_update` is told to carry on -/
theorem handleThis_sys_ok (f ty : Nat) (s : NetState) (fb : Frame) (hcur : s.cur < s.nodes.length)
    (hfb : s.node.frameBuf = fb) (hwire : wireCopy fb = fb) (hty : fb.header.ty = ty)
    (hsys : SysOk ty s.node.retSysMsg)
    (hroom : (s.node.queue.frames.length : Int) < s.node.queue.maxSize)
    (hnew : ∀ g ∈ s.node.queue.frames, ¬ (g.header.fromNode = fb.header.fromNode ∧
      g.header.frameId = fb.header.frameId ∧ g.header.ty = fb.header.ty)) :
    nexec (handleThis (f + 1) ty) s = (.ok (true, ty), s.enqueued fb) := by
  have hplain : fb.header.ty ≠ MSG_FRAG_FIRST ∧ fb.header.ty ≠ MSG_FRAG_MORE ∧ fb.header.ty ≠ MSG_FRAG_LAST := by
    rw [hty]
    obtain ⟨_, _, _, _, _, h148, h149, h150⟩ := hsys
    exact ⟨h148, h149, h150⟩
  rw [handleThis_enqueue_sys f _ _ hsys, enqueueFrameBuf_ok s fb hfb hwire hplain hroom hnew]
  have hn : (s.enqueued fb).node.frameBuf.header.ty = ty := by
    show (NetState.setNode _ _).node.frameBuf.header.ty = ty
    rw [node_setNode _ _ hcur]; exact hty
  have hnot131 : ¬ (s.enqueued fb).node.frameBuf.header.ty = NETWORK_EXT_DATA := by
    rw [hn]
    exact hsys.2.2.2.2.1
  simp only [if_neg hnot131]

/-- `netUpdate_deliver` for every type the destination queues -/
theorem netUpdate_deliver_sys (hc : L3Contracts) (f : Nat) (s : NetState) (L : LinkCfg) (P : List Bytes)
    (p : Nat) (pk : Bytes) (fr : Frame) (t : Nat)
    (hcur : s.cur < s.nodes.length) (hclosed : s.closed = true) (hfuel : s.nodes.length + 2 ≤ f)
    (hq : Quiet s) (hWf : s.drv.Wf) (hN : NodeRadio L P true true 0x3E s.node.rf s.drv.radio)
    (harr : s.node.arrivals = []) (hfifo : s.drv.radio.rxFifo = [{ pipe := p, data := pk }]) (hp : p ≤ 5)
    (hfr : fr.header.msgType = .int t) (hpk : fr.pack = .ok pk) (hmsg : fr.message.length ≤ MAX_FRAG_SIZE)
    (hto : (wireCopy fr).header.toNode = s.node.a.addr)
    (hvt : isValid (wireCopy fr).header.toNode = true) (hvf : isValid (wireCopy fr).header.fromNode = true)
    (hty : SysOk (t &&& 0xFF) s.node.retSysMsg)
    (hroom : (s.node.queue.frames.length : Int) < s.node.queue.maxSize)
    (hnew : ∀ g ∈ s.node.queue.frames, ¬ (g.header.fromNode = (wireCopy fr).header.fromNode ∧
      g.header.frameId = (wireCopy fr).header.frameId ∧ g.header.ty = (wireCopy fr).header.ty)) :
    ∃ D1 D2 : DrvState, nexec (netUpdate (f + 3) 0) s =
        (.ok (t &&& 0xFF), ((((s.afterRf D1).withFrame (wireCopy fr)).enqueued (wireCopy fr)).afterRf D2)) ∧
      DrvFrame s.drv D1 ∧ DrvFrame D1 D2 ∧ NodeRadio L P true true 0x3E D2.d D2.radio ∧ D2.radio.rxFifo = [] := by
  have hpkl : pk.length = 8 + fr.message.length := pack_length hpk
  obtain ⟨D1, e1, F1, N1, x1⟩ := rfRead_head hc (f + 1) s L P true true 0x3E hcur hclosed (by omega) hq hWf hN harr
    (by
      intro e he
      rw [hfifo] at he
      simp only [List.mem_singleton] at he
      subst he
      unfold MAX_FRAG_SIZE at hmsg
      exact ⟨hp, by simp only []; omega, by simp only []; omega⟩)
  rw [hfifo] at e1 x1
  simp only [List.head?_cons, Option.map_some, List.tail_cons] at e1 x1
  have hn1 : (s.afterRf D1).node = { s.node with rf := D1.d } := afterRf_node s D1 hcur
  have hun : (s.afterRf D1).node.frameBuf.unpack pk = (wireCopy fr, true) := unpack_of_pack fr _ t hfr pk hpk
  have hwty : (wireCopy fr).header.ty = t &&& 0xFF := by simp [wireCopy, Header.ty, hfr]
  have hidem : wireCopy (wireCopy fr) = wireCopy fr := by
    unfold wireCopy
    simp only [Header.ty, Nat.and_assoc, Nat.and_self]
  rw [show f + 3 = (f + 2) + 1 from rfl, netUpdate_step, e1]
  simp only [hun, hvt, hvf, Bool.not_true, Bool.or_self, Bool.false_eq_true, if_false]
  have hto' : (wireCopy fr).header.toNode = (s.afterRf D1).node.a.addr := by rw [hn1]; exact hto
  simp only [if_pos hto']
  have hc1 : (s.afterRf D1).cur < (s.afterRf D1).nodes.length := by simpa using hcur
  have hc2 : ((s.afterRf D1).withFrame (wireCopy fr)).cur < ((s.afterRf D1).withFrame (wireCopy fr)).nodes.length := by
    simpa using hcur
  have hn2 : ((s.afterRf D1).withFrame (wireCopy fr)).node = { s.node with rf := D1.d, frameBuf := wireCopy fr } := by
    rw [withFrame_node _ _ hc1, hn1]
  rw [hwty, show f + 2 = (f + 1) + 1 from rfl,
    handleThis_sys_ok (f + 1) (t &&& 0xFF) _ (wireCopy fr) hc2 (by rw [hn2]) hidem hwty (by rw [hn2]; exact hty)
      (by rw [hn2]; exact hroom) (by rw [hn2]; exact hnew)]
  simp only [if_true]
  generalize hs3 : (((s.afterRf D1).withFrame (wireCopy fr)).enqueued (wireCopy fr)) = s3
  have hs3c : s3.cur = s.cur := by rw [← hs3]; rfl
  have hs3a : s3.active = s.active := by rw [← hs3]; rfl
  have hs3l : s3.nodes.length = s.nodes.length := by rw [← hs3]; simp
  have hs3w : s3.w = D1.w := by rw [← hs3]; rfl
  have hs3cl : s3.closed = true := by rw [← hs3]; exact hclosed
  have hs3n : s3.node = Node.pushFrame { s.node with rf := D1.d, frameBuf := wireCopy fr } (wireCopy fr) := by
    rw [← hs3, enqueued_node _ _ hc2, hn2]
  have hs3d : s3.drv = D1 := by
    unfold NetState.drv; rw [hs3n, hs3w]; rfl
  have hs3q : Quiet s3 := by
    apply hq.of_eq hs3l hs3c hs3a
    intro i hi hic hia
    unfold NetState.radioAt NetState.ridAt
    have : s3.nodeAt i = s.nodeAt i := by
      rw [← hs3, nodeAt_enqueued_ne _ _ i (by simpa using hic), nodeAt_withFrame_ne _ _ i (by simpa using hic),
        nodeAt_afterRf_ne s D1 i hic]
    rw [this, hs3w]
    by_cases h : (s.nodeAt i).rf.rid = s.drv.d.rid
    · have h0 := hq i hi hic hia
      unfold NetState.radioAt NetState.ridAt at h0
      rw [h0, h, ← F1.rid]
      exact x1
    · rw [F1.others _ h]; rfl
  obtain ⟨D2, e2, F2, N2, x2⟩ := rfRead_head hc f s3 L P true true 0x3E (by rw [hs3c, hs3l]; exact hcur) hs3cl
    (by rw [hs3l]; omega) hs3q (by rw [hs3d]; exact F1.wf hWf) (by rw [hs3n, hs3d]; exact N1)
    (by rw [hs3n]; exact harr) (by rw [hs3d, x1]; simp)
  rw [hs3d, x1] at e2 x2
  simp only [List.head?_nil, Option.map_none, List.tail_nil] at e2 x2
  rw [netUpdate_step, e2]
  simp only []
  refine ⟨D1, D2, ?_, F1, hs3d ▸ F2, N2, x2⟩
  rw [hs3]

/-- `dest_update` for every type the destination queues -/
theorem dest_update_sys (hc : L3Contracts) (f : Nat) (s : NetState) (L : LinkCfg) (P : List Bytes)
    (p : Nat) (pk : Bytes) (fr : Frame) (t : Nat) (d : List Nat)
    (hcur : s.cur < s.nodes.length) (hclosed : s.closed = true) (hfuel : s.nodes.length + 2 ≤ f)
    (hq : Quiet s) (hWf : s.drv.Wf) (hN : NodeRadio L P true true 0x3E s.node.rf s.drv.radio)
    (harr : s.node.arrivals = []) (hkind : s.node.kind ≠ .meshMaster) (haddr : s.node.a = nodeSpec d)
    (hfifo : s.drv.radio.rxFifo = [{ pipe := p, data := pk }]) (hp : p ≤ 5)
    (hwire : wireCopy fr = fr) (hfr : fr.header.msgType = .int t) (hpk : fr.pack = .ok pk)
    (hmsg : fr.message.length ≤ MAX_FRAG_SIZE) (hto : fr.header.toNode = val d) (hd : IsNode d)
    (hvf : isValid fr.header.fromNode = true) (hty : SysOk t s.node.retSysMsg)
    (hacc : Accepts s.node.queue fr) :
    ∃ D1 D2 : DrvState, nexec (nodeUpdate (f + 4)) s = (.ok t, s.delivered fr D1 D2) ∧
      DrvFrame s.drv D1 ∧ DrvFrame D1 D2 ∧ NodeRadio L P true true 0x3E D2.d D2.radio ∧ D2.radio.rxFifo = [] := by
  have hm : t &&& 0xFF = t := by
    have h2 : (wireCopy fr).header.ty = t &&& 0xFF := by simp [wireCopy, Header.ty, hfr]
    rw [hwire] at h2
    have h1 : fr.header.ty = t := by simp [Header.ty, hfr]
    rw [h1] at h2; exact h2.symm
  obtain ⟨D1, D2, e, F1, F2, N2, x2⟩ := netUpdate_deliver_sys hc f s L P p pk fr t hcur hclosed hfuel hq hWf hN harr
    hfifo hp hfr hpk hmsg (by rw [hwire, hto, haddr]; rfl) (by rw [hwire, hto]; exact isValid_val hd)
    (by rw [hwire]; exact hvf) (by rw [hm]; exact hty) hacc.1 (by rw [hwire]; exact hacc.2)
  rw [hm, hwire] at e
  refine ⟨D1, D2, ?_, F1, F2, N2, x2⟩
  show nexec (nodeUpdate ((f + 3) + 1)) s = _
  refine nodeUpdate_plain (f + 3) s _ t e ?_
  have hc1 : (s.afterRf D1).cur < (s.afterRf D1).nodes.length := by simpa using hcur
  have hc2 : ((s.afterRf D1).withFrame fr).cur < ((s.afterRf D1).withFrame fr).nodes.length := by simpa using hcur
  have hc3 : (((s.afterRf D1).withFrame fr).enqueued fr).cur <
      (((s.afterRf D1).withFrame fr).enqueued fr).nodes.length := by simpa using hcur
  unfold NetState.delivered
  rw [afterRf_node _ _ hc3, enqueued_node _ _ hc2, withFrame_node _ _ hc1, afterRf_node _ _ hcur]
  exact hkind

/-! ### the frame, without the restriction to user types -/

/-- a single-frame message in wire form whose type (65..191) asks for a NETWORK_ACK, from `x` to `d` -/
structure AckTransitS (fr : Frame) (pk : Bytes) (t : Nat) (x d : List Nat) : Prop where
  wire : wireCopy fr = fr
  ty : fr.header.msgType = .int t
  ack : 64 < t ∧ t < 192
  dst : fr.header.toNode = val d
  src : fr.header.fromNode = val x
  pack : fr.pack = .ok pk
  len : fr.message.length ≤ MAX_FRAG_SIZE
  hd : IsNode d
  hx : IsNode x

theorem ackTransit_toS {fr : Frame} {pk : Bytes} {t : Nat} {x d : List Nat} (T : AckTransit fr pk t x d) :
    AckTransitS fr pk t x d := ⟨T.wire, T.ty, T.ack, T.dst, T.src, T.pack, T.len, T.hd, T.hx⟩

theorem retSys_switchTo (s : NetState) (j i : Nat) :
    ((s.switchTo j).nodeAt i).retSysMsg = (s.nodeAt i).retSysMsg := by
  have : (s.switchTo j).nodeAt i = (s.setNode fun n => { n with clock := s.w.clock }).nodeAt i := rfl
  rw [this, nodeAt_setNode]
  split <;> rfl

/-- the context switch of `runOthers` touches the node object of the node that was running only -/
theorem nodeAt_switchTo_ne (s : NetState) (j i : Nat) (h : i ≠ s.cur) : (s.switchTo j).nodeAt i = s.nodeAt i := by
  have : (s.switchTo j).nodeAt i = (s.setNode fun n => { n with clock := s.w.clock }).nodeAt i := rfl
  rw [this, nodeAt_setNode, if_neg (fun hh => h hh.1)]

end Nrf.Net.Hops
