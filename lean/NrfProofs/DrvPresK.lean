/-
Invariants of the RF24 driver methods the node layer calls: anything that no *primitive* of the
driver (one SPI transaction, a CE edge, a sleep, a change of shadow attributes) can break is
preserved by `listen=`, `auto_ack=`, `set_auto_retries`, `open_rx_pipe`, `open_tx_pipe`, `send`,
`resend`, `read`, `available` — whatever they return or raise.
-/
import NrfProofs.Hoare

namespace Nrf.NetK
open Nrf Nrf.Rf24

/-- every run of `m` from a state satisfying `I` ends (normally or with an exception) in a state
    satisfying `I` -/
structure DPres {α} (I : DrvState → Prop) (m : DrvM α) : Prop where
  run : ∀ s, I s → I (exec m s).2

theorem DPres.pure {α} {I : DrvState → Prop} (a : α) : DPres I (pure a : DrvM α) := ⟨fun _ h => h⟩
theorem DPres.throw {α} {I : DrvState → Prop} (e : PyErr) : DPres I (throw e : DrvM α) := ⟨fun _ h => h⟩
theorem DPres.raise {α} {I : DrvState → Prop} (e : PyErr) : DPres I (raise e : DrvM α) := ⟨fun _ h => h⟩
theorem DPres.getD {I : DrvState → Prop} : DPres I getD := ⟨fun _ h => h⟩
theorem DPres.get {I : DrvState → Prop} : DPres I (get : DrvM DrvState) := ⟨fun _ h => h⟩
theorem DPres.nowNs {I : DrvState → Prop} : DPres I nowNs := ⟨fun _ h => h⟩

theorem DPres.bind {α β} {I : DrvState → Prop} {m : DrvM α} {f : α → DrvM β}
    (h1 : DPres I m) (h2 : ∀ a, DPres I (f a)) : DPres I (m >>= f) := by
  constructor
  intro s hs
  rw [exec_bind]
  have := h1.run s hs
  rcases hm : exec m s with ⟨r, s'⟩
  rw [hm] at this
  cases r with
  | error e => exact this
  | ok a => exact (h2 a).run s' this

theorem DPres.ite {α} {I : DrvState → Prop} {c : Prop} [Decidable c] {a b : DrvM α}
    (h1 : DPres I a) (h2 : DPres I b) : DPres I (if c then a else b) := by
  split <;> assumption

/-- an invariant that no primitive of the driver can break -/
structure DrvStable (I : DrvState → Prop) : Prop where
  xfer : ∀ out, DPres I (xfer out)
  setCE : ∀ v, DPres I (setCE v)
  sleep : ∀ n, DPres I (sleepNs n)
  modD : ∀ f, (∀ d, (f d).rid = d.rid) → DPres I (modD f)

/-- decompose a `do` block along binds / ifs / matches; close the leaves with the given lemmas -/
syntax "dpres" "[" term,* "]" : tactic
macro_rules
  | `(tactic| dpres [$ts,*]) => `(tactic| repeat' (first
      | with_reducible apply DPres.bind
      | intro _
      | with_reducible apply DPres.ite
      | with_reducible exact DPres.pure _ | with_reducible exact DPres.throw _ | with_reducible exact DPres.raise _
      | with_reducible exact DPres.getD | with_reducible exact DPres.get
      | with_reducible exact DPres.nowNs
      $[| with_reducible exact $ts]*
      | split
      | (dsimp only)))

section methods
variable {I : DrvState → Prop} (h : DrvStable I)
include h

theorem regWrite_pres (reg : Nat) (v : Int) : DPres I (regWrite reg v) := by
  unfold regWrite; dpres [h.xfer _]
theorem regRead_pres (reg : Nat) : DPres I (regRead reg) := by
  unfold regRead; dpres [h.xfer _]
theorem regReadBytes_pres (reg n : Nat) : DPres I (regReadBytes reg n) := by
  unfold regReadBytes; dpres [h.xfer _]
theorem regWriteBytes_pres (reg : Nat) (b : Bytes) : DPres I (regWriteBytes reg b) := by
  unfold regWriteBytes; dpres [h.xfer _]
theorem regCmd_pres (c : Nat) : DPres I (regCmd c) := by
  unfold regCmd; dpres [h.xfer _]
theorem flushTx_pres : DPres I flushTx := regCmd_pres h _
theorem flushRx_pres : DPres I flushRx := regCmd_pres h _
theorem update_pres : DPres I update := by
  unfold update; dpres [regCmd_pres h _]
theorem clearStatusFlags_pres (a b c : Bool) : DPres I (clearStatusFlags a b c) := by
  unfold clearStatusFlags; exact regWrite_pres h _ _

omit h in
theorem setPipes_rid (d : Rf24) (i : Nat) (b : Bytes) : (setPipes d i b).rid = d.rid := by
  unfold setPipes; split <;> rfl

theorem assignPrefix_pres (i : Nat) (a : Bytes) : DPres I (assignPrefix i a) := by
  unfold assignPrefix
  dpres [h.modD _ (fun d => setPipes_rid d _ _)]

omit h in
theorem address_pres (i : Int) : DPres I (address i) := by
  unfold address; dpres []

theorem setAutoAckAttr_pres (a : Arg) : DPres I (setAutoAckAttr a) := by
  unfold setAutoAckAttr
  dpres [regWrite_pres h _ _, regRead_pres h _, h.modD _ (fun _ => rfl)]

theorem setAutoRetries_pres (d c : Int) : DPres I (setAutoRetries d c) := by
  unfold setAutoRetries
  dpres [regWrite_pres h _ _, h.modD _ (fun _ => rfl)]

theorem openTxPipe_pres (a : Bytes) : DPres I (openTxPipe a) := by
  unfold openTxPipe
  dpres [regWrite_pres h _ _, regWriteBytes_pres h _ _, assignPrefix_pres h _ _, h.modD _ (fun _ => rfl)]

theorem openRxPipe_pres (p : Int) (a : Bytes) : DPres I (openRxPipe p a) := by
  unfold openRxPipe
  dpres [regWrite_pres h _ _, regRead_pres h _, regWriteBytes_pres h _ _, assignPrefix_pres h _ _,
    h.modD _ (fun _ => rfl)]

theorem setListen_pres (b : Bool) : DPres I (setListen b) := by
  unfold setListen
  dpres [h.setCE _, h.sleep _, regWrite_pres h _ _, regWriteBytes_pres h _ _, assignPrefix_pres h _ _,
    address_pres _, flushTx_pres h, h.modD _ (fun _ => rfl)]

theorem available_pres : DPres I available := by
  unfold available; dpres [update_pres h]

theorem any_pres : DPres I any := by
  unfold any; dpres [regRead_pres h _]

theorem read_pres (l : Option Nat) : DPres I (Rf24.read l) := by
  unfold Rf24.read
  dpres [any_pres h, regReadBytes_pres h _ _, clearStatusFlags_pres h _ _ _]

theorem pollFlags_pres : ∀ f, DPres I (pollFlags f) := by
  intro f
  induction f with
  | zero => exact DPres.raise _
  | succ f ih =>
    rw [pollFlags]
    dpres [update_pres h, ih]

theorem fifo_pres (a : Bool) (c : Option Bool) : DPres I (fifo a c) := by
  unfold fifo
  dpres [regRead_pres h _]

theorem resend_pres (so : Bool) : DPres I (resend so) := by
  unfold resend
  dpres [h.setCE _, fifo_pres h _ _, flushRx_pres h, clearStatusFlags_pres h _ _ _, update_pres h,
    pollFlags_pres h _, read_pres h _]

theorem forceRetryLoop_pres (so : Bool) : ∀ f n r, DPres I (forceRetryLoop so f n r) := by
  intro f
  induction f with
  | zero => intro _ _; exact DPres.raise _
  | succ f ih =>
    intro n r
    cases r <;> (rw [forceRetryLoop]; dpres [resend_pres h _, ih _ _])

theorem write_pres (buf : Bytes) (m a w : Bool) : DPres I (write buf m a w) := by
  unfold write
  dpres [h.setCE _, clearStatusFlags_pres h _ _ _, regWriteBytes_pres h _ _]

theorem send_pres (buf : Bytes) (m a : Bool) (fr : Int) (so : Bool) : DPres I (send buf m a fr so) := by
  unfold send
  dpres [h.setCE _, flushTx_pres h, flushRx_pres h, write_pres h _ _ _ _, pollFlags_pres h _,
    forceRetryLoop_pres h _ _ _ _, read_pres h _]

end methods

/-! ### instances -/

/-- a relation between worlds that every step of the environment respects -/
structure WorldRel (W : World → World → Prop) : Prop where
  refl : ∀ w, W w w
  trans : ∀ a b c, W a b → W b c → W a c
  spi : ∀ w r out, W w (w.spi r out).1
  setCE : ∀ w r v, W w (w.setCE r v)
  sleep : ∀ w n, W w (w.sleep n)
  inject : ∀ w r p d, W w (w.inject r p d)

/-- "the world moved on from `w0` by steps of the environment, the driver object is the one for
    radio `rid`" cannot be broken by a driver primitive -/
theorem stable_world {W : World → World → Prop} (hW : WorldRel W) (w0 : World) (rid : Nat) :
    DrvStable (fun t => W w0 t.w ∧ t.d.rid = rid) := by
  refine ⟨?_, ?_, ?_, ?_⟩
  · intro out
    constructor
    intro s hs
    rw [exec_xfer]
    exact ⟨hW.trans _ _ _ hs.1 (hW.spi _ _ _), hs.2⟩
  · intro v
    constructor
    intro s hs
    rw [exec_setCE]
    exact ⟨hW.trans _ _ _ hs.1 (hW.setCE _ _ _), hs.2⟩
  · intro n
    constructor
    intro s hs
    rw [exec_sleepNs]
    exact ⟨hW.trans _ _ _ hs.1 (hW.sleep _ _), hs.2⟩
  · intro f hf
    constructor
    intro s hs
    rw [exec_modD]
    exact ⟨hs.1, by rw [← hs.2]; exact hf _⟩

/-- the clock never runs backwards and no radio appears or disappears -/
def clockLe (w w' : World) : Prop := w.clock ≤ w'.clock ∧ w'.radios.length = w.radios.length

theorem nextFault_clock (w : World) : w.nextFault.1.clock = w.clock := by
  unfold World.nextFault; split <;> rfl

theorem attemptLoop_clock (s : Nat) (k : Packet) : ∀ n made w,
    (World.attemptLoop s k n made w).1.clock = w.clock := by
  intro n
  induction n with
  | zero => intro _ _; rfl
  | succ n ih =>
    intro made w
    unfold World.attemptLoop
    simp only
    split
    · rw [ih, nextFault_clock]
    · rw [ih]; exact nextFault_clock w
    · split
      · split
        · exact nextFault_clock w
        · rw [ih]; exact nextFault_clock w
      · rw [ih]; exact nextFault_clock w

theorem cycle_clock (w : World) (s : Nat) (e : TxEntry) (rest : List TxEntry) :
    (w.cycle s e rest).clock = w.clock := by
  unfold World.cycle
  dsimp only
  split
  · show (if _ then _ else _ : World).clock = _
    split
    · exact nextFault_clock _
    · exact nextFault_clock _
  · split
    · exact attemptLoop_clock _ _ _ _ _
    · exact attemptLoop_clock _ _ _ _ _

theorem tryTransmit_clock (s f : Nat) (w : World) : (World.tryTransmit s f w).clock = w.clock := by
  induction f generalizing w with
  | zero => rfl
  | succ f ih =>
    unfold World.tryTransmit
    dsimp only
    split
    · split
      · rfl
      · split
        · rfl
        · rw [ih, cycle_clock]
    · rfl

theorem inject_clock (w : World) (r p : Nat) (d : Bytes) : (w.inject r p d).clock = w.clock := by
  unfold World.inject
  dsimp only
  repeat' split
  all_goals rfl

theorem clockLe_rel : WorldRel clockLe := by
  refine ⟨fun w => ⟨Nat.le_refl _, rfl⟩, fun a b c h1 h2 => ⟨Nat.le_trans h1.1 h2.1, h2.2.trans h1.2⟩,
    ?_, ?_, ?_, ?_⟩
  · intro w r out
    refine ⟨?_, World.spi_length _ _ _⟩
    unfold World.spi
    dsimp only
    rw [tryTransmit_clock]
    show w.clock ≤ (w.jump r).clock + SPI_COST_NS
    unfold World.jump
    dsimp only
    omega
  · intro w r v
    refine ⟨?_, World.setCE_length _ _ _⟩
    unfold World.setCE
    dsimp only
    rw [tryTransmit_clock]
    show w.clock ≤ (w.jump r).clock
    unfold World.jump
    dsimp only
    omega
  · intro w n
    exact ⟨by unfold World.sleep; dsimp only; omega, rfl⟩
  · intro w r p d
    exact ⟨by rw [inject_clock]; exact Nat.le_refl _, (World.inject_cfgEq w r p d).1⟩

end Nrf.NetK
