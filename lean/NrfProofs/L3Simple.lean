/-
Discharging `L3Contracts`, part 2: `auto_ack = v` and `read()`.
-/
import NrfProofs.L3Base

set_option linter.unusedSimpArgs false

namespace Nrf.L3
open Nrf Nrf.Rf24

/-! ### `auto_ack = 0x3E | 0x3F` -/

theorem wr_enAA (r : Radio) (v : Nat) :
    r.writeReg 1 [v] = { r with enAA := v &&& 0x3F,
                                violations := r.violations ++ Radio.reservedLog "EN_AA" 0x3F v } := rfl

theorem exec_setAA (s : DrvState) (v : Nat) (hv : v < 64) :
    exec (setAutoAckAttr (.i v)) s =
      (.ok (), (s.modShadow fun d => { d with aa := v }).spiStep [0x20 ||| 1, v]) := by
  have hmod : ((v : Int) % 64).toNat = v := by omega
  unfold setAutoAckAttr
  simp only [exec_bind, exec_modD', exec_getD, hmod]
  rw [exec_regWrite _ _ _ (by simp only [DrvState.modShadow]; omega) (by decide)]
  rfl

theorem l3_setAA (s : DrvState) (L : LinkCfg) (P : List Bytes) (rx ce : Bool) (aa v : Nat) (hw : s.Wf)
    (hN : NodeRadio L P rx ce aa s.d s.radio) (hv : v = 0x3E ∨ v = 0x3F) :
    ∃ s', exec (setAutoAckAttr (.i v)) s = (.ok (), s') ∧ DrvFrame s s' ∧
      NodeRadio L P rx ce v s'.d s'.radio ∧ s'.radio.rxFifo = s.radio.rxFifo ∧
      s'.radio.rxAddr0 = s.radio.rxAddr0 ∧ s'.radio.txAddr = s.radio.txAddr := by
  have hv64 : v < 64 := by rcases hv with h | h <;> omega
  obtain ⟨h1, h2, h3, h4, h5, h6, h7, h8, h9, h10, h11, h12, h13, h14, h15, h16, h17, h18, h19, h20, h21, h22,
    h23, h24, h25, h26, h27, h28, h29⟩ := hN
  refine ⟨_, exec_setAA s v hv64, ?_⟩
  have s1 := snap_mod (snap_self s hw) (fun d => { d with aa := v }) rfl
  have hx : (s.radio.xfer [0x20 ||| 1, v]).1 =
      { s.radio with enAA := v, violations := s.radio.violations ++ Radio.reservedLog "EN_AA" 0x3F v } := by
    rw [xfer_wreg _ 1 v (by decide), wr_enAA, and_3F_of_lt hv64]
  have s2 := snap_spi s1 [0x20 ||| 1, v] (Or.inl (by rw [hx]; exact h26))
  rw [hx] at s2
  generalize (s.modShadow fun d => { d with aa := v }).spiStep [0x20 ||| 1, v] = s' at s2
  refine ⟨s2.frame rfl rfl, ?_, ?_, ?_, ?_⟩
  · rw [s2.radio_eq, s2.d_eq]
    exact ⟨h1, h2, h3, h4, h5, h6, h7, rfl, rfl, h10, h11, h12, h13, h14, h15, h16, h17, h18, h19, h20, h21,
      h22, h23, h24, h25, h26, h27, h28, h29⟩
  · rw [s2.radio_eq]
  · rw [s2.radio_eq]
  · rw [s2.radio_eq]

/-! ### `read()` -/

theorem exec_regReadBytes (reg n : Nat) (s : DrvState) :
    exec (regReadBytes reg n) s = (.ok ((s.w.spi s.d.rid (reg :: zeros n)).2.drop 1), s.spiStep (reg :: zeros n)) := by
  unfold regReadBytes
  simp only [exec_bind, exec_xfer, exec_pure]
  rfl

theorem exec_clearDr (s : DrvState) : exec (clearStatusFlags true false false) s = (.ok (), s.spiStep [0x27, 0x40]) := by
  unfold clearStatusFlags
  rw [exec_regWrite _ _ _ (by decide) (by decide)]
  rfl

theorem l3_read (s : DrvState) (L : LinkCfg) (P : List Bytes) (rx ce : Bool) (aa : Nat) (hw : s.Wf)
    (hN : NodeRadio L P rx ce aa s.d s.radio)
    (hf : ∀ e ∈ s.radio.rxFifo, e.pipe ≤ 5 ∧ 1 ≤ e.data.length ∧ e.data.length ≤ 32) :
    ∃ s', exec (Rf24.read none) s = (.ok (s.radio.rxFifo.head?.map (·.data)), s') ∧ DrvFrame s s' ∧
      NodeRadio L P rx ce aa s'.d s'.radio ∧ s'.radio.rxFifo = s.radio.rxFifo.tail := by
  obtain ⟨h1, h2, h3, h4, h5, h6, h7, h8, h9, h10, h11, h12, h13, h14, h15, h16, h17, h18, h19, h20, h21, h22,
    h23, h24, h25, h26, h27, h28, h29⟩ := hN
  have s0 := snap_self s hw
  cases hfifo : s.radio.rxFifo with
  | nil =>
    -- R_RX_PL_WID only
    have hx := xfer_plWid_nil s.radio hfifo
    have hid : (s.radio.xfer [0x60, 0]).1.txFifo = [] ∨ (s.radio.xfer [0x60, 0]).1.txMode = false :=
      Or.inl (by rw [hx]; exact h26)
    have o1 := snap_spi_out s0 [0x60, 0] hid
    have s1 := snap_spi s0 [0x60, 0] hid
    rw [hx] at o1 s1
    have hpno : s.radio.rxPNo = 7 := by unfold Radio.rxPNo; rw [hfifo]
    have hfield : (s.radio.status >>> 1) &&& 7 = 7 := by
      rw [status_field _ (by rw [hpno]; omega), hpno]
    have hex : exec (Rf24.read none) s = (.ok none, s.spiStep [0x60, 0]) := by
      unfold Rf24.read any
      simp only [exec_bind, exec_regRead, exec_getD, exec_pure, exec_ite, o1, s1.d_eq, List.getD_cons_succ,
        List.getD_cons_zero, List.headD_cons, rxPipeField, hfield, ↓reduceIte, (by decide : ¬ (7 : Nat) < 6)]
    refine ⟨_, hex, ?_⟩
    generalize s.spiStep [0x60, 0] = s' at s1
    refine ⟨s1.frame rfl rfl, ?_, ?_⟩
    · rw [s1.radio_eq, s1.d_eq]
      exact ⟨h1, h2, h3, h4, h5, h6, h7, h8, h9, h10, h11, h12, h13, h14, h15, h16, h17, h18, h19, h20, h21,
        h22, h23, h24, h25, h26, h27, h28, h29⟩
    · rw [s1.radio_eq, hfifo]; rfl
  | cons e rest =>
    obtain ⟨hp, hl1, hl32⟩ := hf e (by rw [hfifo]; exact List.mem_cons_self)
    -- R_RX_PL_WID
    have hx := xfer_plWid_cons s.radio e rest hfifo
    have hid : (s.radio.xfer [0x60, 0]).1.txFifo = [] ∨ (s.radio.xfer [0x60, 0]).1.txMode = false :=
      Or.inl (by rw [hx]; exact h26)
    have o1 := snap_spi_out s0 [0x60, 0] hid
    have s1 := snap_spi s0 [0x60, 0] hid
    rw [hx] at o1 s1
    simp only [List.headD_cons] at s1
    have hpno : s.radio.rxPNo = e.pipe := by unfold Radio.rxPNo; rw [hfifo]
    have hfield : (s.radio.status >>> 1) &&& 7 = e.pipe := by
      rw [status_field _ (by rw [hpno]; omega), hpno]
    generalize ht1 : s.spiStep [0x60, 0] = t1 at s1
    -- R_RX_PAYLOAD
    have hx2 := xfer_rxPayload s.radio e rest hfifo hl1
    have hid2 : (s.radio.xfer (0x61 :: zeros e.data.length)).1.txFifo = [] ∨
        (s.radio.xfer (0x61 :: zeros e.data.length)).1.txMode = false := Or.inl (by rw [hx2]; exact h26)
    have o2 := snap_spi_out s1 (0x61 :: zeros e.data.length) hid2
    have s2 := snap_spi s1 (0x61 :: zeros e.data.length) hid2
    rw [hx2] at o2 s2
    rw [s1.d_eq] at o2
    simp only [List.headD_cons] at s2
    generalize ht2 : t1.spiStep (0x61 :: zeros e.data.length) = t2 at s2
    -- W_REGISTER STATUS
    generalize hr2 : ({ s.radio with rxFifo := rest, lastByte := e.data.getLastD (e.data.getLastD s.radio.lastByte) } : Radio) = r2 at s2
    have ht26 : r2.txFifo = [] := by rw [← hr2]; exact h26
    have hx3 := xfer_clearDr r2
    have hid3 : (r2.xfer [0x27, 0x40]).1.txFifo = [] ∨ (r2.xfer [0x27, 0x40]).1.txMode = false :=
      Or.inl (by rw [hx3]; exact ht26)
    have s3 := snap_spi s2 [0x27, 0x40] hid3
    rw [hx3] at s3
    simp only [List.headD_cons] at s3
    have hne : ¬ e.data.length = 0 := by omega
    have hlt : e.pipe < 6 := by omega
    have hfeat : ¬ (s.d.features &&& 4 = 0) := by rw [h12]; decide
    have hex : exec (Rf24.read none) s = (.ok (some e.data), t2.spiStep [0x27, 0x40]) := by
      unfold Rf24.read any
      simp only [exec_bind, exec_regRead, exec_getD, exec_pure, exec_ite, ht1, o1, s1.d_eq, List.getD_cons_succ,
        List.getD_cons_zero, rxPipeField, hfield, hlt, ↓reduceIte, hfeat, ne_eq, not_false_eq_true, hne,
        exec_regReadBytes, ht2, o2, List.drop_succ_cons, List.drop_zero, exec_clearDr]
    refine ⟨_, by rw [hex]; rfl, ?_⟩
    generalize t2.spiStep [0x27, 0x40] = s' at s3
    have hrest : ∀ x ∈ rest, x.pipe ≤ 5 := fun x hx => h29 x (by rw [hfifo]; exact List.mem_cons_of_mem _ hx)
    refine ⟨s3.frame rfl (by rw [← hr2]), ?_, ?_⟩
    · rw [s3.radio_eq, s3.d_eq, ← hr2]
      exact ⟨h1, h2, h3, h4, h5, h6, h7, h8, h9, h10, h11, h12, h13, h14, h15, h16, h17, h18, h19, h20, h21,
        h22, h23, h24, h25, h26, h27, h28, hrest⟩
    · rw [s3.radio_eq, ← hr2]; rfl

end Nrf.L3
