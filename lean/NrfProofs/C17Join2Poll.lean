/-
C17, end-to-end join, part 8: the master answers a NETWORK_POLL.

`master_poll` — `update()` of the master (address 0, listening, multicast allowed, children
allowed) with the poll multicast of an unassigned node as the only payload in its RX FIFO, in a
quiet closed loss-free network: `_handle_frame_for_other_node` turns the frame round (`to_node` =
the poller, `from_node` = 0), sleeps `parent_pipe` ms, and transmits it — unacknowledged — to pipe 0
of the poller's address; `_net_update()` reads on (nothing), `update()` returns 0.
-/
import NrfProofs.C17Join2Idle

namespace Nrf.Net.Join
open Nrf Nrf.Net Nrf.Spec Nrf.Proofs

theorem validMc : isValid NETWORK_MULTICAST_ADDR = true := by
  unfold isValid
  simp

/-- the poll multicast as `_make_contact` builds it in a `frame_buf` with id `fid` and `reserved = r` -/
theorem pollFrame_wire (fid r : Nat) (hr : r ≤ 255) (hfid : fid < 65536) : wireCopy (pollFrame fid r) = pollFrame fid r := by
  unfold wireCopy pollFrame
  simp only [Header.ty, NETWORK_DEFAULT_ADDR, NETWORK_MULTICAST_ADDR, NETWORK_POLL]
  have e1 : r &&& 0xFF = r := by rw [and_ff]; omega
  have e2 : fid &&& 0xFFFF = fid := by rw [and_ffff]; omega
  rw [e1, e2]
  rfl

theorem pollReply_wire (fid r : Nat) (hr : r ≤ 255) (hfid : fid < 65536) :
    wireCopy (pollReply fid r 0) = pollReply fid r 0 := by
  unfold wireCopy pollReply
  simp only [Header.ty, NETWORK_DEFAULT_ADDR, NETWORK_POLL]
  have e1 : r &&& 0xFF = r := by rw [and_ff]; omega
  have e2 : fid &&& 0xFFFF = fid := by rw [and_ffff]; omega
  rw [e1, e2]
  rfl

/-- **`update()` of the master with a NETWORK_POLL multicast from an unassigned node as the only
    payload in its RX FIFO.**  Returns 0; `frame_buf` holds the answer (type 194, from 0, to
    0o4444); the answer has been transmitted to `_pipe_address(0o4444, 0)` — every other radio has
    `receive`d it; nothing else of the master's node object changed; it listens again, RX FIFO empty. -/
theorem master_poll (f : Nat) (sm : NetState) (L : LinkCfg) (Pm : List Bytes) (p fid r : Nat)
    (A pk pk' : Bytes)
    (hcur : sm.cur < sm.nodes.length) (hclosed : sm.closed = true)
    (hfuel : sm.nodes.length + 2 ≤ f) (hall : ∀ k, k < sm.nodes.length → k ≠ sm.cur → k ∈ sm.active)
    (hWf : sm.drv.Wf)
    (hN : NodeRadio L Pm true true 0x3E sm.node.rf sm.drv.radio)
    (hrid : ∀ k, k < sm.nodes.length → k ≠ sm.cur → sm.ridAt k ≠ sm.ridAt sm.cur)
    (harr : sm.node.arrivals = []) (hfifo : sm.drv.radio.rxFifo = [{ pipe := p, data := pk }]) (hp : p ≤ 5)
    (hfaults : sm.w.faults = [])
    (hpk : (pollFrame fid r).pack = .ok pk) (hr : r ≤ 255) (hfid : fid < 65536)
    (hkind : sm.node.kind = .meshMaster) (hid : sm.node.nodeId = 0) (haddr0 : sm.node.a.addr = 0)
    (hmc : sm.node.cfg.allowMulticast = true) (hpar : sm.node.parenthood = true)
    (hdo : sm.node.doDhcp = false)
    (hA : pipeAddress sm.node.cfg NETWORK_DEFAULT_ADDR 0 = .ok A) (hAlen : A.length = 5)
    (hpk' : (pollReply fid r 0).pack = .ok pk') :
    ∃ s' : NetState, nexec (nodeUpdate (f + 5)) sm = (.ok 0, s') ∧
      s'.cur = sm.cur ∧ s'.active = sm.active ∧ s'.closed = true ∧ s'.nextId = sm.nextId ∧
      s'.nodes.length = sm.nodes.length ∧
      (∀ k, k ≠ sm.cur → s'.nodeAt k = sm.nodeAt k) ∧
      s'.node.body = { sm.node.body with frameBuf := pollReply fid r 0 } ∧
      s'.node.clock = sm.node.clock ∧
      s'.node.rf.rid = sm.node.rf.rid ∧ s'.w.radios.length = sm.w.radios.length ∧ s'.w.faults = [] ∧
      NodeRadio L Pm true true 0x3E s'.node.rf s'.drv.radio ∧ s'.drv.radio.rxFifo = [] ∧
      s'.drv.radio.lastRx = sm.drv.radio.lastRx ∧
      (∃ pid, ∀ q, q ≠ sm.ridAt sm.cur →
        s'.w.radio q = ((sm.w.radio q).receive (unicastPacket L A pk' pid)).1) := by
  have hpkl : pk.length = 8 + (pollFrame fid r).message.length := pack_length hpk
  have hquiet : Quiet sm := fun k hk hkc hka => absurd (hall k hk hkc) hka
  -- the read
  obtain ⟨D1, e1, F1, N1, x1⟩ := rfRead_head l3contracts (f + 2) sm L Pm true true 0x3E hcur hclosed (by omega)
    hquiet hWf hN harr
    (by
      intro e he
      rw [hfifo] at he
      simp only [List.mem_singleton] at he
      subst he
      exact ⟨hp, by simp only []; rw [hpkl]; simp [pollFrame], by simp only []; rw [hpkl]; simp [pollFrame]⟩)
  rw [hfifo] at e1 x1
  simp only [List.head?_cons, Option.map_some, List.tail_cons] at e1 x1
  have hc1 : (sm.afterRf D1).cur < (sm.afterRf D1).nodes.length := by simpa using hcur
  have hn1 : (sm.afterRf D1).node = { sm.node with rf := D1.d } := afterRf_node sm D1 hcur
  have hwire := pollFrame_wire fid r hr hfid
  have hun : (sm.afterRf D1).node.frameBuf.unpack pk = (pollFrame fid r, true) := by
    rw [unpack_of_pack (pollFrame fid r) _ NETWORK_POLL rfl pk hpk, hwire]
  -- the state handed to `_handle_frame_for_other_node`
  generalize hs2 : (sm.afterRf D1).withFrame (pollFrame fid r) = s2
  have hc2 : s2.cur < s2.nodes.length := by rw [← hs2]; simpa using hcur
  have hn2 : s2.node = { sm.node with rf := D1.d, frameBuf := pollFrame fid r } := by
    rw [← hs2, withFrame_node _ _ hc1, hn1]
  -- the state handed to `_write`
  let nd : Node := { sm.node with rf := D1.d, frameBuf := pollReply fid r 0 }
  generalize hkk : sm.node.a.parentPipe * 1000000 = kk
  generalize hs4 : ((sm.afterRf D1).putNode nd).slept kk = s4
  have hc4 : s4.cur < s4.nodes.length := by rw [← hs4]; simpa [NetState.putNode, NetState.setNode] using hcur
  have hn4 : s4.node = nd := by rw [← hs4, slept_node]; exact node_putNode _ _ hc1
  have hd4r : s4.drv.radio = D1.radio := by
    rw [← hs4, slept_drv_radio]
    show ((sm.afterRf D1).putNode nd).w.radio ((sm.afterRf D1).putNode nd).node.rf.rid = _
    rw [node_putNode _ _ hc1, putNode_w, afterRf_w]
    rfl
  have hd4d : s4.drv.d = D1.d := by
    show s4.node.rf = _
    rw [hn4]
  have hnode4 : ∀ k, k ≠ sm.cur → s4.nodeAt k = sm.nodeAt k := by
    intro k hk
    rw [← hs4, slept_nodeAt, nodeAt_putNode_ne _ _ _ (by simpa using hk), nodeAt_afterRf_ne sm D1 k hk]
  have hlen4 : s4.nodes.length = sm.nodes.length := by
    rw [← hs4]; simp [NetState.putNode, NetState.setNode]
  have hact4 : s4.active = sm.active := by rw [← hs4]; rfl
  have hcur4 : s4.cur = sm.cur := by rw [← hs4]; rfl
  have hq4 : Quiet s4 := by
    intro k hk hkc hka
    rw [hlen4] at hk; rw [hcur4] at hkc; rw [hact4] at hka
    exact absurd (hall k hk hkc) hka
  have hrid4 : ∀ k, k < s4.nodes.length → k ≠ s4.cur → s4.ridAt k ≠ s4.ridAt s4.cur := by
    intro k hk hkc
    have hk' : k < sm.nodes.length := by rw [← hs4] at hk; simpa [NetState.putNode, NetState.setNode] using hk
    have hkc' : k ≠ sm.cur := by rw [hcur4] at hkc; exact hkc
    have h1 : s4.ridAt k = sm.ridAt k := by unfold NetState.ridAt; rw [hnode4 k hkc']
    have h2 : s4.ridAt s4.cur = sm.ridAt sm.cur := by
      show s4.node.rf.rid = _
      rw [hn4]; exact F1.rid
    rw [h1, h2]; exact hrid k hk' hkc'
  have hw4 : s4.w.radios.length = sm.w.radios.length ∧ s4.w.faults = [] := by
    rw [← hs4, slept_rlen, slept_faults, putNode_w, afterRf_w]
    exact ⟨F1.len, F1.faults.trans hfaults⟩
  obtain ⟨D2, e2, r2, l2, f2, N2, x2, lr2, hoth⟩ := mc_write f s4 L Pm NETWORK_DEFAULT_ADDR TX_PHYSICAL
    NETWORK_POLL A pk' hc4 (by rw [← hs4]; exact hclosed)
    (by rw [← hs4]; simpa [NetState.putNode, NetState.setNode] using hfuel) hq4
    (by show s4.drv.d.rid < s4.w.radios.length
        rw [hd4d, hw4.1, F1.rid]; exact hWf)
    (by rw [← hd4d] at N1; rw [hd4r]; exact N1) hrid4
    (by rw [hn4]; exact hA) hAlen hw4.2
    (by rw [hn4]; simp [nd, pollReply, MAX_FRAG_SIZE]) (by rw [hn4]; exact hpk') (by rw [hn4]; rfl) (by decide)
  -- `_handle_frame_for_other_node`
  have hho : nexec (handleOther (f + 3) NETWORK_POLL) s2 = (.ok (true, 0), s4.afterRf D2) := by
    rw [handleOther.eq_2]
    have hto : (pollFrame fid r).header.toNode = NETWORK_MULTICAST_ADDR := rfl
    have hcond : NETWORK_POLL = NETWORK_POLL ∧ sm.node.a.addr ≠ NETWORK_DEFAULT_ADDR := by
      refine ⟨rfl, ?_⟩
      rw [haddr0]; decide
    simp only [nexec_bind, nexec_getNode, hn2, hmc, if_true, hto]
    rw [nexec_ite, if_pos (by simpa using hcond.2)]
    rw [hkk, nexec_ite, if_pos hpar, nexec_bind, nexec_setHdr]
    simp only []
    generalize hY : NetState.setNode s2 _ = Y
    have hYs : Y = (sm.afterRf D1).putNode nd := by
      rw [← hY, ← hs2]
      unfold NetState.withFrame NetState.putNode
      rw [setNode_setNode]
      apply setNode_congr
      rw [hn1]
      show _ = nd
      simp only [nd, Function.comp, pollReply, pollFrame, haddr0]
    rw [nexec_bind, nexec_sleepNs]
    simp only []
    have hXs : ({ Y with w := Y.w.sleep kk } : NetState) = s4 := by
      rw [← hs4, hYs]
      rfl
    rw [hXs, nexec_bind, nexec_getNode]
    simp only []
    rw [hn4]
    have htn : nd.frameBuf.header.toNode = NETWORK_DEFAULT_ADDR := rfl
    rw [htn, nexec_bind, e2]
    rfl
  -- the second `read()`: nothing
  generalize hs5 : s4.afterRf D2 = s5 at hho
  have hc5 : s5.cur < s5.nodes.length := by rw [← hs5]; simpa using hc4
  have hn5 : s5.node = { nd with rf := D2.d } := by rw [← hs5, afterRf_node s4 D2 hc4, hn4]
  have hd5 : s5.drv = D2 := by rw [← hs5]; exact afterRf_drv s4 D2 hc4
  have hnode5 : ∀ k, k ≠ sm.cur → s5.nodeAt k = sm.nodeAt k := by
    intro k hk
    rw [← hs5, nodeAt_afterRf_ne s4 D2 k (by rw [hcur4]; exact hk), hnode4 k hk]
  have hq5 : Quiet s5 := by
    intro k hk hkc hka
    have hk' : k < sm.nodes.length := by
      rw [← hs5, ← hs4] at hk; simpa [NetState.putNode, NetState.setNode] using hk
    have hkc' : k ≠ sm.cur := by rw [← hs5, afterRf_cur, hcur4] at hkc; exact hkc
    have hka' : k ∉ sm.active := by rw [← hs5, ← hs4] at hka; exact hka
    exact absurd (hall k hk' hkc') hka'
  have hfifo5 : s5.drv.radio.rxFifo = [] := by rw [hd5, x2, hd4r, x1]
  obtain ⟨D3, e3, F3, N3, x3⟩ := rfRead_head l3contracts (f + 1) s5 L Pm true true 0x3E hc5
    (by rw [← hs5, ← hs4]; exact hclosed)
    (by rw [← hs5, afterRf_len, hlen4]; omega) hq5
    (by rw [hd5]; show D2.d.rid < D2.w.radios.length
        rw [r2, l2, hw4.1, hn4]; show D1.d.rid < _; rw [F1.rid]; exact hWf)
    (by rw [hn5, hd5]; exact N2) (by rw [hn5]; exact harr)
    (by rw [hfifo5]; intro e he; cases he)
  rw [hfifo5] at e3 x3
  simp only [List.head?_nil, Option.map_none, List.tail_nil] at e3 x3
  generalize hs6 : s5.afterRf D3 = s6 at e3
  have hn6 : s6.node = { nd with rf := D3.d } := by rw [← hs6, afterRf_node s5 D3 hc5, hn5]
  have hnu : nexec (netUpdate (f + 4) 0) sm = (.ok 0, s6) := by
    rw [show f + 4 = (f + 2 + 1) + 1 from rfl, netUpdate_step, e1]
    have hvt : isValid (pollFrame fid r).header.toNode = true := validMc
    have hvf : isValid (pollFrame fid r).header.fromNode = true := validDefault
    simp only [hun, hvt, hvf, Bool.not_true, Bool.or_self, Bool.false_eq_true, if_false]
    have hne : ¬ ((pollFrame fid r).header.toNode = (sm.afterRf D1).node.a.addr) := by
      rw [hn1]
      show ¬ (NETWORK_MULTICAST_ADDR = sm.node.a.addr)
      rw [haddr0]; decide
    have hty : (pollFrame fid r).header.ty = NETWORK_POLL := rfl
    rw [if_neg hne, hs2, hty, hho]
    simp only [if_true]
    rw [show f + 2 + 1 = (f + 1 + 1) + 1 from rfl, netUpdate_step, e3]
  refine ⟨s6, ?_, ?_, ?_, ?_, ?_, ?_, ?_, ?_, ?_, ?_, ?_, ?_, ?_, ?_, ?_, ?_⟩
  · rw [show f + 5 = (f + 4) + 1 from rfl, nodeUpdate.eq_2, nexec_bind, hnu]
    simp only []
    rw [nexec_bind, nexec_getNode]
    simp only [hn6]
    have hk : ¬ (nd.kind ≠ NodeKind.meshMaster) := by simp [nd, hkind]
    have h1 : ¬ (0 = MESH_ADDR_REQUEST ∧ nd.frameBuf.header.reserved ≠ 0) := fun h => absurd h.1 (by decide)
    have h2 : nd.nodeId = 0 := hid
    have h3 : ¬ ((0 = MESH_ADDR_LOOKUP ∨ 0 = MESH_ID_LOOKUP) ∧ Mesh.lookupLongEnough 0 nd.frameBuf.message = true) := by
      rintro ⟨h | h, _⟩ <;> exact absurd h (by decide)
    have h4 : ¬ (0 = MESH_ADDR_RELEASE) := by decide
    simp only [if_neg hk, if_neg h1, h2, if_true, if_neg h3, if_neg h4, nexec_bind, nexec_pure]
    rw [masterDhcp.eq_2, nexec_bind, nexec_getNode]
    simp only [hn6]
    have h5 : nd.doDhcp = false := hdo
    simp only [h5, Bool.not_false, if_true, nexec_pure]
  · rw [← hs6, ← hs5]; exact hcur4
  · rw [← hs6, ← hs5]; exact hact4
  · rw [← hs6, ← hs5, ← hs4]; exact hclosed
  · rw [← hs6, ← hs5, ← hs4]; rfl
  · rw [← hs6, ← hs5, afterRf_len, afterRf_len]; exact hlen4
  · intro k hk
    rw [← hs6, nodeAt_afterRf_ne s5 D3 k (by rw [← hs5, afterRf_cur, hcur4]; exact hk)]
    exact hnode5 k hk
  · rw [hn6]; rfl
  · rw [hn6]
  · rw [hn6]; show D3.d.rid = _
    rw [F3.rid, hd5, r2, hn4]; exact F1.rid
  · rw [← hs6, afterRf_w, F3.len, hd5, l2]; exact hw4.1
  · rw [← hs6, afterRf_w, F3.faults, hd5]; exact f2
  · have : s6.drv = D3 := by rw [← hs6]; exact afterRf_drv s5 D3 hc5
    show NodeRadio L Pm true true 0x3E s6.drv.d s6.drv.radio
    rw [this]; exact N3
  · have : s6.drv = D3 := by rw [← hs6]; exact afterRf_drv s5 D3 hc5
    rw [this]; exact x3
  · have : s6.drv = D3 := by rw [← hs6]; exact afterRf_drv s5 D3 hc5
    rw [this, F3.lastRx, hd5, lr2, hd4r]; exact F1.lastRx
  · obtain ⟨pid, hpid⟩ := hoth
    refine ⟨pid, fun q hq => ?_⟩
    have h2 : s4.ridAt s4.cur = sm.ridAt sm.cur := by
      show s4.node.rf.rid = _
      rw [hn4]; exact F1.rid
    have hq5' : q ≠ s5.drv.d.rid := by
      rw [hd5, r2, hn4]; show q ≠ D1.d.rid; rw [F1.rid]; exact hq
    rw [← hs6, afterRf_w, F3.others q hq5', hd5, hpid q (by rw [h2]; exact hq), ← hs4, slept_radio, putNode_w,
      afterRf_w, F1.others q hq]
    rfl

end Nrf.Net.Join
