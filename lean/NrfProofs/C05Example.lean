/-
A concrete two-node network (master `0o0` on radio 0, its child `0o1` on radio 1, both as their
constructors and `_begin` leave them — values taken from running the model) for the non-vacuity
examples of the closed-system theorems of C05 / C13.
-/
import NrfProofs.C05Closed

namespace Nrf.Net.Example
open Nrf Nrf.Net Nrf.Spec Nrf.Proofs Nrf.Props.C04

def rf0 : Rf24 :=
  { rid := 0, status := 14, pipes0 := [195, 204, 204, 204, 204], pipes1 := [60, 204, 204, 204, 204],
    pipesN := [51, 206, 62, 227], config := 15, openPipes := 63, features := 5, retrySetup := 85, rfSetup := 7,
    dynPl := 63, aa := 62, channel := 76, addrLen := 5, pipe0ReadAddr := some [195, 204, 204, 204, 204],
    txAddress := [231, 231, 231, 231, 231], isPlus := true }

def rf1 : Rf24 :=
  { rid := 1, status := 14, pipes0 := [204, 60, 204, 204, 204], pipes1 := [60, 60, 204, 204, 204],
    pipesN := [51, 206, 62, 227], config := 15, openPipes := 63, features := 5, retrySetup := 117, rfSetup := 7,
    dynPl := 63, aa := 62, channel := 76, addrLen := 5, pipe0ReadAddr := some [204, 60, 204, 204, 204],
    txAddress := [231, 231, 231, 231, 231], isPlus := true }

def radio0 : Radio :=
  { config := 15, enAA := 62, enRxAddr := 63, setupRetr := 85, rfCh := 76, rfSetup := 7,
    rxAddr0 := [195, 204, 204, 204, 204], rxAddr1 := [60, 204, 204, 204, 204], rxAddrN := [51, 206, 62, 227],
    rxPw := [32, 32, 32, 32, 32, 32], dynpd := 63, feature := 5, ce := true }

def radio1 : Radio :=
  { config := 15, enAA := 62, enRxAddr := 63, setupRetr := 117, rfCh := 76, rfSetup := 7,
    rxAddr0 := [204, 60, 204, 204, 204], rxAddr1 := [60, 60, 204, 204, 204], rxAddrN := [51, 206, 62, 227],
    rxPw := [32, 32, 32, 32, 32, 32], dynpd := 63, feature := 5, ce := true }

/-- master and child, the master about to call `write()` -/
def two : NetState :=
  { nodes := [{ rf := rf0, a := nodeSpec [] }, { rf := rf1, a := nodeSpec [1] }],
    cur := 0, active := [0], nextId := 4, closed := true,
    w := { radios := [radio0, radio1], busyUntil := [0, 0] } }

def L : LinkCfg := { ch := 76, rfSetup := 7, crc := 4 }

def P0 : List Bytes :=
  [[195, 204, 204, 204, 204], [60, 204, 204, 204, 204], [51, 204, 204, 204, 204], [206, 204, 204, 204, 204],
   [62, 204, 204, 204, 204], [227, 204, 204, 204, 204]]

def P1 : List Bytes :=
  [[204, 60, 204, 204, 204], [60, 60, 204, 204, 204], [51, 60, 204, 204, 204], [206, 60, 204, 204, 204],
   [62, 60, 204, 204, 204], [227, 60, 204, 204, 204]]

theorem two_radio0 : NodeRadio L P0 true true 0x3E (two.nodeAt 0).rf (two.radioAt 0) := by decide
theorem two_radio1 : NodeRadio L P1 true true 0x3E (two.nodeAt 1).rf (two.radioAt 1) := by decide

theorem two_pipes1 : beginPipes {} (val [1]) = .ok P1 :=
  (beginPipes_eq (cfg := {}) (sfxFn_spec rfl) (by decide)).trans (congrArg Except.ok (by decide))

theorem two_pipes0 : beginPipes {} (val []) = .ok P0 :=
  (beginPipes_eq (cfg := {}) (sfxFn_spec rfl) (by decide)).trans (congrArg Except.ok (by decide))

/-- a radio index beyond the two radios: a powered-down default chip, which listens to nothing -/
theorem two_others (r : Nat) (k : Packet) (h0 : r ≠ two.ridAt 0) (h1 : r ≠ two.ridAt 1) :
    (two.w.radio r).listensTo k = none := by
  have h0' : r ≠ 0 := h0
  have h1' : r ≠ 1 := h1
  have : two.w.radio r = default := by
    unfold World.radio
    have : two.w.radios.length ≤ r := by
      show 2 ≤ r
      omega
    rw [List.getD_eq_getElem?_getD, List.getElem?_eq_none this]
    rfl
  rw [this]
  exact Radio.listensTo_not_rx _ _ (by decide)

end Nrf.Net.Example
