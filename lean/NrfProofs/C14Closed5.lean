/-
C14, closed system, part 5: the air log (`World.air`) at the driver level.

`World.air` grows only in `World.cycle` (one record per transmit cycle), and a cycle runs only out of
`tryTransmit`, i.e. after an SPI transaction or a CE edge of a radio that is in TX mode **with a payload
in its TX FIFO**.  So a driver method that never issues `W_TX_PAYLOAD` / `W_TX_PAYLOAD_NOACK` /
`W_ACK_PAYLOAD` and starts with an empty TX FIFO appends nothing: `AK m` ("air kept") — a state-independent
property of the computation `m`, closed under `bind` / `if` / `match`.  It holds of `auto_ack = …`,
`listen = …`, `open_tx_pipe()`, `read()`, `any()`, `available()`, `update()`, `flush_tx()`,
`clear_status_flags()` (whatever the state, whatever the arguments).

The snapshot triples `Run` / `RunW` of NrfProofs/L3Run.lean / L3Send.lean do not look at the air log;
the contracts `L3Contracts` say nothing about it.  Since `exec` is a function, `AK m` adds the air clause
to every contract `exec m s = (.ok a, s')` after the fact (`AK.of_exec`).
-/
import NrfProofs.C14Closed1

set_option linter.unusedSimpArgs false
set_option linter.unusedVariables false

namespace Nrf.L3
open Nrf Nrf.Rf24

/-! ### the world: no payload, no cycle -/

/-- a CE edge of a radio whose TX FIFO is empty: nothing goes on the air -/
theorem setCE_nil (w : World) (a : Nat) (v : Bool) (ht : (w.radio a).txFifo = []) :
    (w.setCE a v).air = w.air ∧ ((w.setCE a v).radio a).txFifo = [] := by
  have h0 : (((w.jump a).setRadio a { (w.radio a) with ce := v }).radio a).txFifo = [] := by
    rw [World.radio_setRadio]
    split
    · exact ht
    · exact ht
  have key : w.setCE a v = (w.jump a).setRadio a { (w.radio a) with ce := v } := by
    unfold World.setCE
    simp only [jump_radio]
    exact tryTransmit_idle _ _ _ (Or.inl h0)
  rw [key]
  exact ⟨rfl, h0⟩

/-- an SPI transaction that leaves the TX FIFO of the radio empty: nothing goes on the air -/
theorem spi_nil (w : World) (a : Nat) (out : Bytes) (ht : (w.radio a).txFifo = [])
    (hx : ((w.radio a).xfer out).1.txFifo = []) :
    (w.spi a out).1.air = w.air ∧ ((w.spi a out).1.radio a).txFifo = [] := by
  have hrad : ∀ (w' : World) (c n : Nat) j, ({ w' with clock := c, spiCount := n } : World).radio j = w'.radio j :=
    fun _ _ _ _ => rfl
  have h0 : (({ ((w.jump a).setRadio a ((w.radio a).xfer out).1) with
        clock := (w.jump a).clock + SPI_COST_NS, spiCount := (w.jump a).spiCount + 1 } : World).radio a).txFifo = [] := by
    rw [hrad, World.radio_setRadio]
    split
    · exact hx
    · exact ht
  have key : (w.spi a out).1 =
      { ((w.jump a).setRadio a ((w.radio a).xfer out).1) with
        clock := (w.jump a).clock + SPI_COST_NS, spiCount := (w.jump a).spiCount + 1 } := by
    unfold World.spi
    simp only [jump_radio]
    exact tryTransmit_idle _ _ _ (Or.inl h0)
  rw [key]
  exact ⟨rfl, h0⟩

/-- an SPI transaction of a radio that is not in TX mode afterwards (CE low): nothing goes on the air -/
theorem spi_air_idle (w : World) (a : Nat) (out : Bytes) (ha : a < w.radios.length)
    (hidle : ((w.radio a).xfer out).1.txFifo = [] ∨ ((w.radio a).xfer out).1.txMode = false) :
    (w.spi a out).1.air = w.air := by
  have hl : a < (w.jump a).radios.length := ha
  have key : (w.spi a out).1 =
      { ((w.jump a).setRadio a ((w.radio a).xfer out).1) with
        clock := (w.jump a).clock + SPI_COST_NS, spiCount := (w.jump a).spiCount + 1 } := by
    unfold World.spi
    simp only [jump_radio]
    apply tryTransmit_idle
    have : ∀ (w' : World) (c n : Nat) j, ({ w' with clock := c, spiCount := n } : World).radio j = w'.radio j :=
      fun _ _ _ _ => rfl
    rw [this, World.radio_setRadio]
    simp only [hl, and_self, ↓reduceIte]
    exact hidle
  rw [key]; rfl

/-- a command byte that does not write the TX FIFO -/
def SafeCmd (c : Nat) : Prop := c ≠ 0xA0 ∧ c ≠ 0xB0 ∧ ¬ (0xA8 ≤ c ∧ c ≤ 0xAD)

instance (c : Nat) : Decidable (SafeCmd c) := by unfold SafeCmd; infer_instance

theorem readPayload_txFifo (r : Radio) (n : Nat) : (r.readPayload n).1.txFifo = r.txFifo := by
  unfold Radio.readPayload
  split <;> rfl

theorem decodeCmd_safe (c : Nat) (hc : SafeCmd c) :
    Radio.decodeCmd c ≠ .wTxPayload ∧ Radio.decodeCmd c ≠ .wTxPayloadNoAck ∧
      ∀ p, Radio.decodeCmd c ≠ .wAckPayload p := by
  obtain ⟨h1, h2, h3⟩ := hc
  unfold Radio.decodeCmd
  simp only [h1, h2, h3, if_false]
  refine ⟨?_, ?_, ?_⟩
  · repeat' split
    all_goals (intro h; cases h)
  · repeat' split
    all_goals (intro h; cases h)
  · intro p
    repeat' split
    all_goals (intro h; cases h)

theorem runCmd_txFifo_nil (r : Radio) (cmd : Radio.Cmd) (b : Bytes) (ht : r.txFifo = [])
    (h1 : cmd ≠ .wTxPayload) (h2 : cmd ≠ .wTxPayloadNoAck) (h3 : ∀ p, cmd ≠ .wAckPayload p) :
    (r.runCmd cmd b).1.txFifo = [] := by
  cases cmd with
  | rRegister reg => exact ht
  | wRegister reg =>
    show (if b.length = 0 then r else r.writeReg reg b).txFifo = []
    split
    · exact ht
    · rw [writeReg_txFifo]; exact ht
  | activate => exact ht
  | rRxPlWid => exact ht
  | rRxPayload =>
    show (r.readPayload b.length).1.txFifo = []
    rw [readPayload_txFifo]; exact ht
  | wTxPayload => exact absurd rfl h1
  | wTxPayloadNoAck => exact absurd rfl h2
  | wAckPayload p => exact absurd rfl (h3 p)
  | flushTx => rfl
  | flushRx => exact ht
  | nop => exact ht

/-- such a command leaves an empty TX FIFO empty -/
theorem xfer_txFifo_nil (r : Radio) (c : Nat) (b : Bytes) (hc : SafeCmd c) (ht : r.txFifo = []) :
    (r.xfer (c :: b)).1.txFifo = [] := by
  obtain ⟨h1, h2, h3⟩ := decodeCmd_safe c hc
  exact runCmd_txFifo_nil r _ b ht h1 h2 h3

theorem safeCmd_wreg (reg : Nat) (hr : reg < 0x20) : SafeCmd (0x20 ||| reg) := by
  have : 0x20 ||| reg < 2 ^ 6 := Nat.or_lt_two_pow (by decide) (by omega)
  unfold SafeCmd
  omega

theorem safeCmd_lt (reg : Nat) (hr : reg < 0xA0) : SafeCmd reg := by
  unfold SafeCmd
  omega

/-! ### "air kept": a property of driver computations -/

/-- from every state whose own radio has an empty TX FIFO the computation ends (normally or with an
    exception) in such a state, on the same radio, **with the air log unchanged** -/
def AK {α} (m : DrvM α) : Prop :=
  ∀ s : DrvState, s.radio.txFifo = [] →
    (exec m s).2.radio.txFifo = [] ∧ (exec m s).2.d.rid = s.d.rid ∧ (exec m s).2.w.air = s.w.air

theorem AK.pure {α} (a : α) : AK (Pure.pure a : DrvM α) := fun _ ht => ⟨ht, rfl, rfl⟩
theorem AK.throw {α} (e : PyErr) : AK (throw e : DrvM α) := fun _ ht => ⟨ht, rfl, rfl⟩
theorem AK.raise {α} (e : PyErr) : AK (raise e : DrvM α) := fun _ ht => ⟨ht, rfl, rfl⟩
theorem AK.getD : AK getD := fun _ ht => ⟨ht, rfl, rfl⟩
theorem AK.nowNs : AK nowNs := fun _ ht => ⟨ht, rfl, rfl⟩

theorem AK.bind {α β} {x : DrvM α} {f : α → DrvM β} (hx : AK x) (hf : ∀ a, AK (f a)) : AK (x >>= f) := by
  intro s ht
  obtain ⟨t1, r1, a1⟩ := hx s ht
  rw [exec_bind]
  rcases h : exec x s with ⟨res, s1⟩
  rw [h] at t1 r1 a1
  cases res with
  | error e => exact ⟨t1, r1, a1⟩
  | ok a =>
    obtain ⟨t2, r2, a2⟩ := hf a s1 t1
    exact ⟨t2, r2.trans r1, a2.trans a1⟩

theorem AK.ite {α} (c : Prop) [Decidable c] {a b : DrvM α} (ha : AK a) (hb : AK b) : AK (if c then a else b) := by
  split
  · exact ha
  · exact hb

theorem AK.modD (f : Rf24 → Rf24) (hf : ∀ d, (f d).rid = d.rid) : AK (modD f) := by
  intro s ht
  rw [exec_modD]
  refine ⟨?_, hf s.d, rfl⟩
  show (s.w.radio (f s.d).rid).txFifo = []
  rw [hf]; exact ht

theorem AK.sleepNs (n : Nat) : AK (sleepNs n) := fun _ ht => ⟨ht, rfl, rfl⟩

theorem AK.setCE (v : Bool) : AK (setCE v) := by
  intro s ht
  rw [exec_setCE]
  obtain ⟨h1, h2⟩ := setCE_nil s.w s.d.rid v ht
  exact ⟨h2, rfl, h1⟩

theorem AK.xfer (c : Nat) (b : Bytes) (hc : SafeCmd c) : AK (xfer (c :: b)) := by
  intro s ht
  rw [exec_xfer]
  obtain ⟨h1, h2⟩ := spi_nil s.w s.d.rid (c :: b) ht (xfer_txFifo_nil _ c b hc ht)
  exact ⟨h2, rfl, h1⟩

theorem AK.regRead (reg : Nat) (hr : reg < 0xA0) : AK (regRead reg) := by
  unfold Rf24.regRead
  exact AK.bind (AK.xfer _ _ (safeCmd_lt reg hr)) (fun _ => AK.pure _)

theorem AK.regReadBytes (reg n : Nat) (hr : reg < 0xA0) : AK (regReadBytes reg n) := by
  unfold Rf24.regReadBytes
  exact AK.bind (AK.xfer _ _ (safeCmd_lt reg hr)) (fun _ => AK.pure _)

theorem AK.regWriteBytes (reg : Nat) (b : Bytes) (hr : reg < 0x20) : AK (regWriteBytes reg b) := by
  unfold Rf24.regWriteBytes
  exact AK.bind (AK.xfer _ _ (safeCmd_wreg reg hr)) (fun _ => AK.pure _)

theorem AK.regWrite (reg : Nat) (v : Int) (hr : reg < 0x20) : AK (regWrite reg v) := by
  unfold Rf24.regWrite
  have h2 : (if reg ≠ 0x50 then 0x20 else 0) = 0x20 := if_pos (by omega)
  rw [h2]
  dsimp only
  refine AK.ite _ ?_ ?_
  · exact AK.bind (AK.raise _) (fun _ => AK.bind (AK.xfer _ _ (safeCmd_wreg reg hr)) (fun _ => AK.pure _))
  · exact AK.bind (AK.xfer _ _ (safeCmd_wreg reg hr)) (fun _ => AK.pure _)

theorem AK.regCmd (c : Nat) (hc : SafeCmd c) : AK (regCmd c) := by
  unfold Rf24.regCmd
  exact AK.bind (AK.xfer _ _ hc) (fun _ => AK.pure _)

theorem AK.flushTx : AK flushTx := AK.regCmd _ (by decide)
theorem AK.flushRx : AK flushRx := AK.regCmd _ (by decide)

theorem AK.update : AK update := by
  unfold Rf24.update
  exact AK.bind (AK.regCmd _ (by decide)) (fun _ => AK.pure _)

theorem AK.clearStatusFlags (a b c : Bool) : AK (clearStatusFlags a b c) := by
  unfold Rf24.clearStatusFlags
  exact AK.regWrite _ _ (by decide)

theorem setPipes_rid (d : Rf24) (i : Nat) (b : Bytes) : (setPipes d i b).rid = d.rid := by
  unfold setPipes
  split <;> rfl

/-- one step of the syntax-directed proof of `AK m` (matching up to reducible unfolding only) -/
syntax "ak_step" : tactic
macro_rules
  | `(tactic| ak_step) => `(tactic| first
    | (with_reducible exact AK.pure _) | (with_reducible exact AK.raise _) | (with_reducible exact AK.throw _)
    | (with_reducible exact AK.getD) | (with_reducible exact AK.nowNs)
    | (with_reducible exact AK.sleepNs _) | (with_reducible exact AK.setCE _)
    | (with_reducible exact AK.flushTx) | (with_reducible exact AK.flushRx) | (with_reducible exact AK.update)
    | (with_reducible exact AK.clearStatusFlags _ _ _)
    | ((with_reducible refine AK.modD _ ?_) <;> (intro _; first | rfl | exact setPipes_rid _ _ _))
    | ((with_reducible refine AK.regWrite _ _ ?_) <;> decide)
    | ((with_reducible refine AK.regWriteBytes _ _ ?_) <;> decide)
    | ((with_reducible refine AK.regRead _ ?_) <;> decide)
    | ((with_reducible refine AK.regReadBytes _ _ ?_) <;> decide)
    | (with_reducible refine AK.bind ?_ (fun _ => ?_))
    | (with_reducible refine AK.ite _ ?_ ?_)
    | split)

theorem AK.assignPrefix (i : Nat) (a : Bytes) : AK (assignPrefix i a) := by
  unfold Rf24.assignPrefix
  repeat' ak_step

theorem AK.address (i : Int) : AK (address i) := by
  unfold Rf24.address
  repeat' ak_step

/-- **`auto_ack = a`** appends nothing to the air log -/
theorem AK.setAutoAckAttr (a : Arg) : AK (setAutoAckAttr a) := by
  unfold Rf24.setAutoAckAttr
  cases a <;> dsimp only <;> repeat' ak_step

/-- **`listen = is_rx`** appends nothing to the air log -/
theorem AK.setListen (isRx : Bool) : AK (setListen isRx) := by
  unfold Rf24.setListen
  repeat' (first | (with_reducible exact AK.assignPrefix _ _) | (with_reducible exact AK.address _) | ak_step)

/-- **`open_tx_pipe(a)`** appends nothing to the air log -/
theorem AK.openTxPipe (a : Bytes) : AK (openTxPipe a) := by
  unfold Rf24.openTxPipe
  repeat' (first | (with_reducible exact AK.assignPrefix _ _) | ak_step)

/-- `any()` -/
theorem AK.any : AK any := by
  unfold Rf24.any
  repeat' ak_step

/-- **`read(length)`** appends nothing to the air log -/
theorem AK.read (l : Option Nat) : AK (read l) := by
  unfold Rf24.read
  repeat' (first | (with_reducible exact AK.any) | ak_step)

/-- **`available()`** appends nothing to the air log -/
theorem AK.available : AK available := by
  unfold Rf24.available
  repeat' ak_step

/-- the air clause of a contract `exec m s = (.ok a, s')`, after the fact -/
theorem AK.of_exec {α} {m : DrvM α} (h : AK m) {s s' : DrvState} {res : Except PyErr α}
    (ht : s.radio.txFifo = []) (e : exec m s = (res, s')) : s'.w.air = s.w.air := by
  have := (h s ht).2.2
  rw [e] at this
  exact this

/-- the TX FIFO of a node radio is empty between calls -/
theorem _root_.Nrf.NodeRadio.txEmpty {L : LinkCfg} {P : List Bytes} {rx ce : Bool} {aa : Nat} {d : Rf24} {r : Radio}
    (h : NodeRadio L P rx ce aa d r) : r.txFifo = [] := by
  obtain ⟨h1, h2, h3, h4, h5, h6, h7, h8, h9, h10, h11, h12, h13, h14, h15, h16, h17, h18, h19, h20, h21, h22,
    h23, h24, h25, h26, h27, h28, h29⟩ := h
  exact h26

/-- `read()` keeps the air log (the form NrfProofs/C14Closed6.lean takes as a hypothesis) -/
theorem read_keeps_air (s : DrvState) (ht : s.radio.txFifo = []) :
    (exec (Rf24.read none) s).2.w.air = s.w.air :=
  ((AK.read none) s ht).2.2

end Nrf.L3
