/-
C15 — the invariant of `update()` that is not configuration (`TI`): idle transmitter, sane RX
FIFO and arrival script, bounded frame buffer, bounded lease table, the static attributes; the
measure `M` (frames that can still be read); how the steps of the node layer act on them.
-/
import NrfProofs.C15Read
import NrfProofs.C15Addr
import NrfProofs.C15Drop

namespace Nrf.Net
open Nrf Rf24 Nrf.Spec Nrf.Proofs

/-- a payload the radio can hold: 1..32 bytes -/
def RxOk (b : Bytes) : Prop := 1 ≤ b.length ∧ b.length ≤ 32 ∧ b.wf

/-- the RX FIFO of the current node's radio -/
def NetState.rxq (s : NetState) : List RxEntry := (s.w.radio s.node.rf.rid).rxFifo

/-- the frames `update()` can still get to read: in the RX FIFO, or scripted to arrive -/
def NetState.M (s : NetState) : Nat := s.rxq.length + s.node.arrivals.length

structure TI (Lm tt rt : Nat) (s : NetState) : Prop where
  open_ : s.closed = false
  cur : s.cur < s.nodes.length
  good : GoodCfg s.node.cfg
  tree : TreeAt s.node.a
  tt : s.node.txTimeout = tt
  rt : s.node.routeTimeout = rt
  dyn : s.node.rf.dynPl &&& 1 ≠ 0
  feat : s.node.rf.features &&& 4 ≠ 0
  txs : TxS s.drv
  msg : s.node.frameBuf.message.length ≤ Lm
  /-- RX FIFO entries: 0..32 bytes (a 0-byte entry makes `read()` return `None` without removing it) -/
  rx : ∀ e ∈ s.rxq, e.data = [] ∨ RxOk e.data
  /-- scripted arrivals: 0..32 bytes (a 0-byte arrival is refused by the model's radio, `World.inject_nil`) -/
  arr : ∀ a ∈ s.node.arrivals, a.2.2 = [] ∨ RxOk a.2.2
  tab : ∀ p ∈ s.node.dhcp, p.1 < 32768 ∧ p.2 < 32768

/-- time does not run backwards, the measure does not grow -/
structure NP (s s' : NetState) : Prop where
  clock : s.w.clock ≤ s'.w.clock
  m : s'.M ≤ s.M
  /-- the master's `_do_dhcp` flag is not raised (only `RF24Mesh.update()` itself raises it) -/
  dd : s.node.doDhcp = false → s'.node.doDhcp = false
  nid : s'.node.nodeId = s.node.nodeId

theorem NP.refl (s : NetState) : NP s s := ⟨Nat.le_refl _, Nat.le_refl _, id, rfl⟩
theorem NP.trans {a b c : NetState} (h1 : NP a b) (h2 : NP b c) : NP a c :=
  ⟨Nat.le_trans h1.clock h2.clock, Nat.le_trans h2.m h1.m, fun h => h2.dd (h1.dd h), h2.nid.trans h1.nid⟩

/-- what the invariant needs of an `RF24` call that ended in `ds'`: transmitter idle again, RX FIFO
    not grown, DYNPD / FEATURE shadows unchanged, time not run backwards -/
structure Adv (ds ds' : DrvState) : Prop where
  rid : ds'.d.rid = ds.d.rid
  clock : ds.w.clock ≤ ds'.w.clock
  txs : TxS ds'
  rxq : (ds'.w.radio ds.d.rid).rxFifo <:+ (ds.w.radio ds.d.rid).rxFifo
  shd : ds'.d.dynPl = ds.d.dynPl ∧ ds'.d.features = ds.d.features

theorem _root_.Nrf.Prog.adv {ds ds' : DrvState} (h : Prog ds ds') (hq : TxS ds) : Adv ds ds' :=
  ⟨h.rid, h.clock, h.txs hq, h.rxq hq, h.shd⟩

section
variable {Lm tt rt : Nat} {s : NetState}

/-- an `RF24` call that only makes progress -/
theorem TI.putDrv (h : TI Lm tt rt s) (ds : DrvState) (hp : Adv s.drv ds) :
    TI Lm tt rt (s.putDrv ds) ∧ NP s (s.putDrv ds) := by
  have hn := NetState.node_putDrv s ds h.cur
  have hd := NetState.drv_putDrv s ds h.cur
  have hrid : ds.d.rid = s.node.rf.rid := hp.rid
  have hrx : (s.putDrv ds).rxq = (ds.w.radio s.node.rf.rid).rxFifo := by
    unfold NetState.rxq
    rw [hn]
    show (ds.w.radio ds.d.rid).rxFifo = _
    rw [hrid]
  have hsuf : (ds.w.radio s.node.rf.rid).rxFifo <:+ s.rxq := hp.rxq
  refine ⟨?_, ?_⟩
  · exact
      { open_ := h.open_
        cur := by simpa using h.cur
        good := by rw [hn]; exact h.good
        tree := by rw [hn]; exact h.tree
        tt := by rw [hn]; exact h.tt
        rt := by rw [hn]; exact h.rt
        dyn := by rw [hn]; show ds.d.dynPl &&& 1 ≠ 0; rw [hp.shd.1]; exact h.dyn
        feat := by rw [hn]; show ds.d.features &&& 4 ≠ 0; rw [hp.shd.2]; exact h.feat
        txs := by rw [hd]; exact hp.txs
        msg := by rw [hn]; exact h.msg
        rx := by
          rw [hrx]
          intro e he
          exact h.rx e (hsuf.subset he)
        arr := by rw [hn]; exact h.arr
        tab := by rw [hn]; exact h.tab }
  · refine ⟨hp.clock, ?_, fun hh => by rw [hn]; exact hh, by rw [hn]⟩
    unfold NetState.M
    rw [hrx, hn]
    have := hsuf.length_le
    show (ds.w.radio s.node.rf.rid).rxFifo.length + s.node.arrivals.length ≤ _
    omega

/-- a change of the current node that touches only frame buffer, queue, lease table, flags -/
theorem TI.setNode (h : TI Lm tt rt s) (f : Node → Node)
    (hf : (f s.node).cfg = s.node.cfg ∧ (f s.node).a = s.node.a ∧ (f s.node).txTimeout = s.node.txTimeout ∧
      (f s.node).routeTimeout = s.node.routeTimeout ∧ (f s.node).rf = s.node.rf ∧
      (f s.node).arrivals = s.node.arrivals)
    (hm : (f s.node).frameBuf.message.length ≤ Lm)
    (ht : ∀ p ∈ (f s.node).dhcp, p.1 < 32768 ∧ p.2 < 32768)
    (hdd : s.node.doDhcp = false → (f s.node).doDhcp = false := by exact id)
    (hnid : (f s.node).nodeId = s.node.nodeId := by exact rfl) :
    TI Lm tt rt (s.setNode f) ∧ NP s (s.setNode f) := by
  have hn := NetState.node_setNode s f h.cur
  obtain ⟨f1, f2, f3, f4, f5, f6⟩ := hf
  have hd : (s.setNode f).drv = s.drv := NetState.drv_setNode f h.cur f5
  have hrx : (s.setNode f).rxq = s.rxq := by
    unfold NetState.rxq; rw [hn, f5]; rfl
  refine ⟨?_, ⟨Nat.le_refl _, ?_, fun hh => by rw [hn]; exact hdd hh, by rw [hn]; exact hnid⟩⟩
  · exact
      { open_ := h.open_
        cur := by simpa using h.cur
        good := by rw [hn, f1]; exact h.good
        tree := by rw [hn, f2]; exact h.tree
        tt := by rw [hn, f3]; exact h.tt
        rt := by rw [hn, f4]; exact h.rt
        dyn := by rw [hn, f5]; exact h.dyn
        feat := by rw [hn, f5]; exact h.feat
        txs := by rw [hd]; exact h.txs
        msg := by rw [hn]; exact hm
        rx := by rw [hrx]; exact h.rx
        arr := by rw [hn, f6]; exact h.arr
        tab := by rw [hn]; exact ht }
  · unfold NetState.M; rw [hrx, hn, f6]; exact Nat.le_refl _

theorem TI.nextId (h : TI Lm tt rt s) (n : Nat) : TI Lm tt rt { s with nextId := n } ∧ NP s { s with nextId := n } :=
  ⟨{ open_ := h.open_, cur := h.cur, good := h.good, tree := h.tree, tt := h.tt, rt := h.rt, dyn := h.dyn,
     feat := h.feat, txs := h.txs, msg := h.msg, rx := h.rx, arr := h.arr, tab := h.tab },
   ⟨Nat.le_refl _, Nat.le_refl _, id, rfl⟩⟩

theorem TI.sleep (h : TI Lm tt rt s) (ns : Nat) :
    TI Lm tt rt { s with w := s.w.sleep ns } ∧ NP s { s with w := s.w.sleep ns } ∧
      s.w.clock + ns = ({ s with w := s.w.sleep ns } : NetState).w.clock := by
  refine ⟨?_, ⟨by show s.w.clock ≤ s.w.clock + ns; omega, Nat.le_refl _, id, rfl⟩, rfl⟩
  exact { open_ := h.open_, cur := h.cur, good := h.good, tree := h.tree, tt := h.tt, rt := h.rt, dyn := h.dyn,
          feat := h.feat, txs := (Prog.sleep s.drv ns).txs h.txs, msg := h.msg, rx := h.rx, arr := h.arr,
          tab := h.tab }

end

/-! ### arrivals -/

theorem inject_txs (ds : DrvState) (j p : Nat) (b : Bytes) (h : TxS ds) :
    TxS { ds with w := ds.w.inject j p b } := by
  unfold World.inject
  dsimp only
  have key : ∀ r' : Radio, r'.txFifo = (ds.w.radio j).txFifo → r'.flags &&& 0x10 = (ds.w.radio j).flags &&& 0x10 →
      (∀ e ∈ r'.rxFifo, e ∈ (ds.w.radio j).rxFifo ∨ e.pipe ≤ 5) →
      TxS { ds with w := ds.w.setRadio j r' } := by
    intro r' h1 h2 h3
    unfold TxS TxQ
    show ((((ds.w.setRadio j r').radio ds.d.rid).txFifo = [] ∨ ((ds.w.setRadio j r').radio ds.d.rid).flags &&& 0x10 ≠ 0) ∧
      (∀ e ∈ ((ds.w.setRadio j r').radio ds.d.rid).txFifo, e.kind = TxKind.payload) ∧
      ((ds.w.setRadio j r').radio ds.d.rid).txFifo.length ≤ 3) ∧
      (((ds.w.setRadio j r').radio ds.d.rid).flags &&& 0x10 ≠ 0 → ds.d.status &&& 0x10 ≠ 0) ∧
      ∀ e ∈ ((ds.w.setRadio j r').radio ds.d.rid).rxFifo, e.pipe ≤ 5
    rw [World.radio_setRadio]
    split
    · rename_i hh
      have e := hh.1
      have hq := h
      unfold TxS TxQ at hq
      rw [e] at hq
      rw [h1, h2]
      refine ⟨hq.1, hq.2.1, ?_⟩
      intro x hx
      rcases h3 x hx with hx | hx
      · exact hq.2.2 x hx
      · exact hx
    · exact h
  have hor : ∀ x : Nat, (x ||| 0x40) &&& 0x10 = x &&& 0x10 := by
    intro x
    rw [Nat.and_or_distrib_right]
    simp
  repeat' split
  all_goals first
    | exact h
    | (rename_i hc
       refine key _ rfl (hor _) ?_
       intro e he
       simp only [Bool.and_eq_true, decide_eq_true_eq] at hc
       rcases List.mem_append.1 he with he | he
       · exact Or.inl he
       · right
         simp only [List.mem_cons, List.not_mem_nil, or_false] at he
         subst he
         show p ≤ 5
         omega)

theorem mem_of_takeWhile {α} {p : α → Bool} {l : List α} {x : α} (h : x ∈ l.takeWhile p) : x ∈ l :=
  (List.takeWhile_sublist p).subset h

theorem mem_of_dropWhile {α} {p : α → Bool} {l : List α} {x : α} (h : x ∈ l.dropWhile p) : x ∈ l :=
  (List.dropWhile_sublist p).subset h

theorem length_filter_le {α} (l : List α) (p : α → Bool) : (l.takeWhile p).length + (l.dropWhile p).length = l.length := by
  rw [← List.length_append, List.takeWhile_append_dropWhile]

section
variable {Lm tt rt : Nat} {s : NetState}

/-- what a list of scripted arrivals does to the RX FIFO of radio `j`: it appends some of them -/
theorem injects_rx (l : List (Nat × Nat × Bytes)) (j : Nat) (w : World) :
    ∃ add : List RxEntry, ((l.foldl (fun w a => w.inject j a.2.1 a.2.2) w).radio j).rxFifo = (w.radio j).rxFifo ++ add ∧
      add.length ≤ l.length ∧ ∀ e ∈ add, ∃ a ∈ l, e.data = a.2.2 := by
  induction l generalizing w with
  | nil => exact ⟨[], by simp, Nat.le_refl _, fun _ h => by cases h⟩
  | cons a l ih =>
    obtain ⟨add, h1, h2, h3⟩ := ih (w.inject j a.2.1 a.2.2)
    have hone : ((w.inject j a.2.1 a.2.2).radio j).rxFifo = (w.radio j).rxFifo ∨
        ((w.inject j a.2.1 a.2.2).radio j).rxFifo = (w.radio j).rxFifo ++ [{ pipe := a.2.1, data := a.2.2 }] := by
      have key : ∀ r' : Radio, r'.rxFifo = (w.radio j).rxFifo ++ [{ pipe := a.2.1, data := a.2.2 }] →
          ((w.setRadio j r').radio j).rxFifo = (w.radio j).rxFifo ∨
          ((w.setRadio j r').radio j).rxFifo = (w.radio j).rxFifo ++ [{ pipe := a.2.1, data := a.2.2 }] := by
        intro r' hr
        rw [World.radio_setRadio]
        split
        · exact Or.inr hr
        · exact Or.inl rfl
      unfold World.inject
      dsimp only
      repeat' split
      all_goals first
        | exact Or.inl rfl
        | exact key _ rfl
    rcases hone with ho | ho
    · refine ⟨add, ?_, by simp; omega, ?_⟩
      · rw [List.foldl_cons, h1, ho]
      · intro e he; obtain ⟨x, hx, hd⟩ := h3 e he; exact ⟨x, List.mem_cons_of_mem _ hx, hd⟩
    · refine ⟨{ pipe := a.2.1, data := a.2.2 } :: add, ?_, by simp; omega, ?_⟩
      · rw [List.foldl_cons, h1, ho]; simp
      · intro e he
        rcases List.mem_cons.1 he with rfl | he
        · exact ⟨a, List.mem_cons_self .., rfl⟩
        · obtain ⟨x, hx, hd⟩ := h3 e he; exact ⟨x, List.mem_cons_of_mem _ hx, hd⟩

/-- the model's radio refuses a 0-byte payload: with dynamic payloads the length must be 1..32, with
    static payloads it must equal RX_PW_Px and be non-zero -/
theorem World.inject_nil (w : World) (j p : Nat) : w.inject j p [] = w := by
  unfold World.inject
  simp

/-- `injects_rx`, and what is appended has at least one byte -/
theorem injects_rx_ne (l : List (Nat × Nat × Bytes)) (j : Nat) (w : World) :
    ∃ add : List RxEntry, ((l.foldl (fun w a => w.inject j a.2.1 a.2.2) w).radio j).rxFifo = (w.radio j).rxFifo ++ add ∧
      add.length ≤ l.length ∧ (∀ e ∈ add, ∃ a ∈ l, e.data = a.2.2) ∧ ∀ e ∈ add, e.data ≠ [] := by
  induction l generalizing w with
  | nil => exact ⟨[], by simp, Nat.le_refl _, (fun _ h => by cases h), (fun _ h => by cases h)⟩
  | cons a l ih =>
    obtain ⟨add, h1, h2, h3, h4⟩ := ih (w.inject j a.2.1 a.2.2)
    by_cases hnil : a.2.2 = []
    · refine ⟨add, ?_, by simp; omega, ?_, h4⟩
      · rw [List.foldl_cons, h1, hnil, World.inject_nil]
      · intro e he; obtain ⟨x, hx, hd⟩ := h3 e he; exact ⟨x, List.mem_cons_of_mem _ hx, hd⟩
    · obtain ⟨add1, g1, g2, g3⟩ := injects_rx [a] j w
      have g1' : ((w.inject j a.2.1 a.2.2).radio j).rxFifo = (w.radio j).rxFifo ++ add1 := g1
      refine ⟨add1 ++ add, ?_, ?_, ?_, ?_⟩
      · rw [List.foldl_cons, h1, g1', List.append_assoc]
      · have g2' : add1.length ≤ 1 := g2
        simp only [List.length_append, List.length_cons]; omega
      · intro e he
        rcases List.mem_append.1 he with he | he
        · obtain ⟨x, hx, hd⟩ := g3 e he
          simp only [List.mem_singleton] at hx
          exact ⟨a, List.mem_cons_self .., hx ▸ hd⟩
        · obtain ⟨x, hx, hd⟩ := h3 e he; exact ⟨x, List.mem_cons_of_mem _ hx, hd⟩
      · intro e he
        rcases List.mem_append.1 he with he | he
        · obtain ⟨x, hx, hd⟩ := g3 e he
          simp only [List.mem_singleton] at hx
          rw [hd, hx]; exact hnil
        · exact h4 e he

theorem injects_txs (l : List (Nat × Nat × Bytes)) (j : Nat) (ds : DrvState) (h : TxS ds) :
    TxS { ds with w := l.foldl (fun w a => w.inject j a.2.1 a.2.2) ds.w } := by
  induction l generalizing ds with
  | nil => exact h
  | cons a l ih => exact ih { ds with w := ds.w.inject j a.2.1 a.2.2 } (inject_txs ds j a.2.1 a.2.2 h)

/-- `deliverDue`: the due arrivals move from the script into the RX FIFO (or are lost) -/
theorem TI.due (h : TI Lm tt rt s) : TI Lm tt rt (afterDue s) ∧ NP s (afterDue s) ∧
    (afterDue s).w.clock = s.w.clock := by
  have hn : (afterDue s).node
      = { s.node with arrivals := s.node.arrivals.dropWhile (fun a => decide (a.1 ≤ s.w.clock)) } :=
    NetState.node_setNode ({ s with w := dueWorld s }) _ h.cur
  obtain ⟨add, h1, h2, h3, h4⟩ := injects_rx_ne (s.node.arrivals.takeWhile (fun a => decide (a.1 ≤ s.w.clock)))
    s.node.rf.rid s.w
  have hrx : (afterDue s).rxq = s.rxq ++ add := by
    unfold NetState.rxq
    rw [hn]
    exact h1
  have hclk : (afterDue s).w.clock = s.w.clock := by
    show (dueWorld s).clock = s.w.clock
    unfold dueWorld
    have : ∀ (l : List (Nat × Nat × Bytes)) (w : World),
        (l.foldl (fun w a => w.inject s.node.rf.rid a.2.1 a.2.2) w).clock = w.clock := by
      intro l
      induction l with
      | nil => intro w; rfl
      | cons a l ih =>
        intro w
        rw [List.foldl_cons, ih]
        unfold World.inject
        dsimp only
        repeat' split
        all_goals rfl
    exact this _ _
  refine ⟨?_, ⟨Nat.le_of_eq hclk.symm, ?_, fun hh => by rw [hn]; exact hh, by rw [hn]⟩, hclk⟩
  · exact
      { open_ := h.open_
        cur := by show s.cur < (s.nodes.modify s.cur _).length; simpa using h.cur
        good := by rw [hn]; exact h.good
        tree := by rw [hn]; exact h.tree
        tt := by rw [hn]; exact h.tt
        rt := by rw [hn]; exact h.rt
        dyn := by rw [hn]; exact h.dyn
        feat := by rw [hn]; exact h.feat
        txs := by
          have := injects_txs (s.node.arrivals.takeWhile (fun a => decide (a.1 ≤ s.w.clock))) s.node.rf.rid s.drv h.txs
          show TxS { d := (afterDue s).node.rf, w := dueWorld s }
          rw [hn]
          exact this
        msg := by rw [hn]; exact h.msg
        rx := by
          rw [hrx]
          intro e he
          rcases List.mem_append.1 he with he | he
          · exact h.rx e he
          · obtain ⟨a, ha, hd⟩ := h3 e he
            rcases h.arr a (mem_of_takeWhile ha) with h0 | hok
            · exact absurd (hd.trans h0) (h4 e he)
            · rw [hd]; exact Or.inr hok
        arr := by
          rw [hn]
          intro a ha
          exact h.arr a (mem_of_dropWhile ha)
        tab := by rw [hn]; exact h.tab }
  · unfold NetState.M
    rw [hrx, hn]
    have := length_filter_le s.node.arrivals (fun a => decide (a.1 ≤ s.w.clock))
    simp only [List.length_append]
    show s.rxq.length + add.length + (s.node.arrivals.dropWhile _).length ≤ s.rxq.length + s.node.arrivals.length
    omega

end

end Nrf.Net
