/-
C14, driver level: what `_write_to_pipe` programs into the radio for a multicast
(`auto_ack = 0x3E`, `listen = False`, `open_tx_pipe(level address)`), and what the radio's
transmit cycle does with `EN_AA` bit 0 clear (one attempt, no acknowledgement awaited, TX_DS).
-/
import NrfProofs.Hoare

namespace Nrf.Proofs.McastK
open Nrf Nrf.Rf24

/-! ### three driver calls, exactly -/

/-- `auto_ack = 0x3E`: one register write -/
theorem exec_setAutoAck3E (s : DrvState) :
    exec (setAutoAckAttr (.i 0x3E)) s =
      (.ok (), (s.modShadow fun d => { d with aa := 62 }).spiStep [0x20 ||| 1, 62]) := by
  unfold setAutoAckAttr
  simp only [exec_bind, exec_modD', exec_getD]
  rw [exec_regWrite _ _ _ (by simp [DrvState.modShadow]) (by decide)]
  rfl

theorem and_or_lt (c : Nat) : c &&& 252 ||| 2 < 256 := by
  have h1 : c &&& 252 < 2 ^ 8 := Nat.lt_of_le_of_lt Nat.and_le_right (by omega)
  have : c &&& 252 ||| 2 < 2 ^ 8 := Nat.or_lt_two_pow h1 (by omega)
  simpa using this

/-- the CONFIG value `listen = False` writes -/
def txConfig (c : Nat) : Nat := c &&& 0xFC ||| 2

/-- the state `listen = False` ends in while auto-ack is off on pipe 0: CE low, CONFIG (PWR_UP,
    PRIM_RX = 0), the 150 µs settling sleep; no FIFO flush, pipe 0 is not touched -/
def listenFalseState (s : DrvState) : DrvState :=
  { d := { s.d with config := txConfig s.d.config,
                    status := (((s.w.setCE s.d.rid false).spi s.d.rid [0x20 ||| 0, txConfig s.d.config]).2).headD s.d.status },
    w := ((s.w.setCE s.d.rid false).spi s.d.rid [0x20 ||| 0, txConfig s.d.config]).1.sleep 150000 }

theorem exec_setListen_false (s : DrvState) (haa : s.d.aa &&& 1 = 0) :
    exec (setListen false) s = (.ok (), listenFalseState s) := by
  unfold setListen
  have hv : (0:Int) ≤ ((s.d.config &&& 0xFC ||| 2 + b2n false : Nat) : Int) ∧
      ((s.d.config &&& 0xFC ||| 2 + b2n false: Nat) : Int) ≤ 255 := by
    have := and_or_lt s.d.config
    simp only [b2n, Bool.false_eq_true, ↓reduceIte, Nat.add_zero]
    omega
  have h2 : ¬ (s.d.aa &&& 1 ≠ 0 ∧ s.d.openPipes &&& 1 = 0) := by simp [haa]
  have h3 : ∀ f : Nat, ¬ (f &&& 6 = 6 ∧ s.d.aa &&& s.d.dynPl &&& 1 ≠ 0) := by
    intro f
    rw [Nat.and_comm s.d.aa, Nat.and_assoc, haa]; simp
  simp only [exec_bind, exec_setCE, exec_modD, exec_getD, exec_nowNs,
    exec_regWrite _ _ _ hv (by decide : CONFIGURE ≠ 0x50), Bool.false_eq_true, ↓reduceIte,
    DrvState.spiStep, h2, h3, exec_ite, exec_pure, exec_sleepNs, Nat.sub_self, Nat.sub_zero,
    (by decide : (0 : Nat) < 150000)]
  simp [txConfig, b2n, listenFalseState, CONFIGURE]

/-- `open_tx_pipe(x)` while auto-ack is off on pipe 0: only TX_ADDR is written -/
theorem exec_openTxPipe_noaa (s : DrvState) (x : Bytes) (haa : s.d.aa &&& 1 = 0)
    (hx : x.length ≤ s.d.txAddress.length) :
    exec (openTxPipe x) s =
      (.ok (), (s.modShadow fun d => { d with txAddress := x ++ d.txAddress.drop x.length }).spiStep
        ((0x20 ||| 0x10) :: x)) := by
  unfold openTxPipe overwritePrefix
  have h1 : ¬ (s.d.aa &&& 1 ≠ 0) := by simp [haa]
  have h2 : ¬ (x.length > s.d.txAddress.length) := by omega
  simp only [exec_bind, exec_getD, h1, h2, ↓reduceIte, exec_modD', exec_regWriteBytes]
  rfl

/-! ### configuration part after CE / sleep -/

theorem cfg_setCE (s : DrvState) (hw : s.Wf) (v : Bool) :
    ({ s with w := s.w.setCE s.d.rid v } : DrvState).cfg = { s.cfg with ce := v } := by
  unfold DrvState.cfg
  simp only
  rw [World.setCE_cfgOf _ _ _ hw]
  simp

theorem cfg_sleep (s : DrvState) (n : Nat) : ({ s with w := s.w.sleep n } : DrvState).cfg = s.cfg := rfl

/-! ### the transmit set-up of a multicast -/

/-- the shadow attributes the set-up relies on: `_config` is a byte, `_tx_address` has 5 bytes
    (both hold from `__init__` on) -/
structure ShadowOk (d : Rf24) : Prop where
  tx5 : d.txAddress.length = 5

/-- state after `auto_ack = 0x3E; listen = False; open_tx_pipe(x)` -/
def afterTxSetup (s : DrvState) (x : Bytes) : DrvState :=
  (exec (openTxPipe x) (exec (setListen false) (exec (setAutoAckAttr (.i 0x3E)) s).2).2).2

/-- **C14, what the sender programs.**  From any state of a driver object whose radio exists, the
    three calls succeed and leave EN_AA = 0x3E (auto-ack off on pipe 0, on elsewhere),
    TX_ADDR = `x`, CE low, PRIM_RX = 0, PWR_UP = 1 — and change no configuration register of any
    other radio. -/
theorem txSetup_spec (s : DrvState) (hw : s.Wf) (hs : ShadowOk s.d) (x : Bytes) (hx : x.length = 5) :
    (exec (setAutoAckAttr (.i 0x3E)) s).1 = .ok () ∧
    (exec (setListen false) (exec (setAutoAckAttr (.i 0x3E)) s).2).1 = .ok () ∧
    (exec (openTxPipe x) (exec (setListen false) (exec (setAutoAckAttr (.i 0x3E)) s).2).2).1 = .ok () ∧
    (afterTxSetup s x).Wf ∧ (afterTxSetup s x).d.rid = s.d.rid ∧
    (afterTxSetup s x).cfg.enAA = 0x3E ∧ (afterTxSetup s x).cfg.txAddr.take 5 = x ∧
    (afterTxSetup s x).cfg.ce = false ∧ (afterTxSetup s x).cfg.config &&& 3 = 2 ∧
    (afterTxSetup s x).d.aa = 0x3E ∧ (afterTxSetup s x).d.txAddress = x ∧
    (∀ j, j ≠ s.d.rid → (afterTxSetup s x).cfgAt j = s.cfgAt j) ∧
    (afterTxSetup s x).cfg.setupAw = s.cfg.setupAw := by
  unfold afterTxSetup
  rw [exec_setAutoAck3E]
  -- state 1
  generalize h1 : (s.modShadow fun d => { d with aa := 62 }).spiStep [0x20 ||| 1, 62] = s1
  have hw1 : s1.Wf := by rw [← h1]; exact (spiStep_wf _ _).2 ((modShadow_wf _ _ rfl).2 hw)
  have hrid1 : s1.d.rid = s.d.rid := by rw [← h1]; rfl
  have haa1 : s1.d.aa = 62 := by rw [← h1]; rfl
  have htx1 : s1.d.txAddress = s.d.txAddress := by rw [← h1]; rfl
  have hcfg1 : s1.cfg = { s.cfg with enAA := 62 } := by
    rw [← h1, spiStep_cfg _ _ ((modShadow_wf _ _ rfl).2 hw), modShadow_cfg _ _ rfl,
      xfer_wreg_cfg _ 1 _ (by decide)]
    simp [Radio.writeReg, Radio.reservedLog]
    rfl
  have hat1 : ∀ j, j ≠ s.d.rid → s1.cfgAt j = s.cfgAt j := by
    intro j hj
    rw [← h1, spiStep_cfgAt _ _ ((modShadow_wf _ _ rfl).2 hw) j (by simpa using hj), modShadow_cfgAt]
  have haa1' : s1.d.aa &&& 1 = 0 := by rw [haa1]; rfl
  rw [exec_setListen_false s1 haa1']
  -- state 2
  generalize h2 : listenFalseState s1 = s2
  generalize hp2 : (({ s1 with w := s1.w.setCE s1.d.rid false } : DrvState).modShadow
      fun d => { d with config := txConfig s1.d.config }).spiStep [0x20 ||| 0, txConfig s1.d.config] = p2
  have e2c : s2.cfg = p2.cfg := by rw [← h2, ← hp2]; rfl
  have e2a : ∀ j, s2.cfgAt j = p2.cfgAt j := by intro j; rw [← h2, ← hp2]; rfl
  have e2w : s2.Wf ↔ p2.Wf := by rw [← h2, ← hp2]; exact Iff.rfl
  have hwc : ({ s1 with w := s1.w.setCE s1.d.rid false } : DrvState).Wf := by
    unfold DrvState.Wf; simp only [World.setCE_length]; exact hw1
  have hw2 : s2.Wf := by
    rw [e2w, ← hp2]
    exact (spiStep_wf _ _).2 ((modShadow_wf _ _ rfl).2 hwc)
  have hrid2 : s2.d.rid = s.d.rid := by rw [← h2]; exact hrid1
  have haa2 : s2.d.aa = 62 := by rw [← h2]; exact haa1
  have htx2 : s2.d.txAddress = s.d.txAddress := by rw [← h2]; exact htx1
  have hcfg2 : s2.cfg = ({ s1.cfg with ce := false }.writeReg 0 [txConfig s1.d.config]).cfgOf := by
    rw [e2c, ← hp2, spiStep_cfg _ _ ((modShadow_wf _ _ rfl).2 hwc), modShadow_cfg _ _ rfl,
      cfg_setCE _ hw1, xfer_wreg_cfg _ 0 _ (by decide)]
  have hat2 : ∀ j, j ≠ s.d.rid → s2.cfgAt j = s.cfgAt j := by
    intro j hj
    rw [← hat1 j hj, e2a, ← hp2,
      spiStep_cfgAt _ _ ((modShadow_wf _ _ rfl).2 hwc) j (by simpa [hrid1] using hj), modShadow_cfgAt]
    unfold DrvState.cfgAt
    simp only
    rw [World.setCE_cfgOf _ _ _ hw1, if_neg (by simpa [hrid1] using hj)]
  have haa2' : s2.d.aa &&& 1 = 0 := by rw [haa2]; rfl
  have hx2 : x.length ≤ s2.d.txAddress.length := by rw [htx2, hs.tx5, hx]; exact Nat.le_refl _
  rw [exec_openTxPipe_noaa s2 x haa2' hx2]
  -- state 3
  have hw3 : ((s2.modShadow fun d => { d with txAddress := x ++ d.txAddress.drop x.length }).spiStep
      ((0x20 ||| 0x10) :: x)).Wf := (spiStep_wf _ _).2 ((modShadow_wf _ _ rfl).2 hw2)
  have hxne : x ≠ [] := by intro h; rw [h] at hx; simp at hx
  have hcfg3 : ((s2.modShadow fun d => { d with txAddress := x ++ d.txAddress.drop x.length }).spiStep
      ((0x20 ||| 0x10) :: x)).cfg = (s2.cfg.writeReg 0x10 x).cfgOf := by
    rw [spiStep_cfg _ _ ((modShadow_wf _ _ rfl).2 hw2), modShadow_cfg _ _ rfl,
      xfer_wregs_cfg _ 0x10 _ (by decide) hxne]
  refine ⟨rfl, rfl, rfl, hw3, hrid2, ?_, ?_, ?_, ?_, haa2, ?_, ?_, ?_⟩
  · rw [hcfg3, hcfg2, hcfg1]; rfl
  · rw [hcfg3, hcfg2, hcfg1]
    show (Radio.overlay _ x).take 5 = x
    unfold Radio.overlay
    rw [List.take_of_length_le (by omega : x.length ≤ 5), List.take_append_of_le_length (by omega),
      List.take_of_length_le (by omega)]
  · rw [hcfg3, hcfg2, hcfg1]; rfl
  · rw [hcfg3, hcfg2, hcfg1]
    show (txConfig s1.d.config &&& 0x7F) &&& 3 = 2
    unfold txConfig
    generalize s1.d.config = c
    have : ∀ c : Nat, ((c &&& 0xFC ||| 2) &&& 0x7F) &&& 3 = 2 := by
      intro c
      rw [Nat.and_assoc, Nat.and_or_distrib_right, Nat.and_assoc]
      simp
    exact this c
  · show x ++ s2.d.txAddress.drop x.length = x
    rw [htx2, List.drop_of_length_le (by rw [hs.tx5, hx]; exact Nat.le_refl _), List.append_nil]
  · intro j hj
    rw [spiStep_cfgAt _ _ ((modShadow_wf _ _ rfl).2 hw2) j (by simpa [hrid2] using hj), modShadow_cfgAt]
    exact hat2 j hj
  · rw [hcfg3, hcfg2, hcfg1]; rfl

/-! ### the transmit cycle with auto-ack off on pipe 0 -/

/-- with EN_AA bit 0 clear the transmitter awaits no acknowledgement, whatever the payload -/
theorem awaitsAck_false (r : Radio) (e : TxEntry) (h : Radio.bit r.enAA 0 = false) :
    r.awaitsAck e = false := by
  unfold Radio.awaitsAck; simp [h]

theorem or_and_self (x m : Nat) : (x ||| m) &&& m = m := by
  apply Nat.eq_of_testBit_eq
  intro i
  simp only [Nat.testBit_and, Nat.testBit_or]
  cases Nat.testBit x i <;> cases Nat.testBit m i <;> rfl

theorem nextFault_air (w : World) : w.nextFault.1.air = w.air := by
  unfold World.nextFault; split <;> rfl

theorem nextFault_length (w : World) : w.nextFault.1.radios.length = w.radios.length :=
  (World.nextFault_cfgEq w).1

theorem updRadio_length (w : World) (s : Nat) (f : Radio → Radio) :
    (w.updRadio s f).radios.length = w.radios.length := by
  simp [World.updRadio, World.setRadio]

theorem radio_updRadio_self (w : World) (s : Nat) (f : Radio → Radio) (hs : s < w.radios.length) :
    (w.updRadio s f).radio s = f (w.radio s) := by
  unfold World.updRadio
  rw [World.radio_setRadio]
  simp [hs]

/-- **C14, unacknowledged transmission.**  A transmit cycle of a radio whose EN_AA bit 0 is clear
    makes exactly one attempt, awaits nothing, reports success (TX_DS latched, payload removed)
    whatever the fault pattern; the packet goes to `TX_ADDR[0:aw]`. -/
theorem cycle_noAck (w : World) (s : Nat) (e : TxEntry) (rest : List TxEntry)
    (hs : s < w.radios.length) (h : Radio.bit (w.radio s).enAA 0 = false) :
    (w.cycle s e rest).air = w.air ++ [{ sender := s, pkt := (w.radio s).packetFor e, attempts := 1, ok := true }] ∧
    ((w.radio s).packetFor e).addr = (w.radio s).txAddr.take (w.radio s).aw ∧
    ((w.cycle s e rest).radio s).txFifo = rest ∧
    ((w.cycle s e rest).radio s).flags &&& 0x20 = 0x20 := by
  have ha := awaitsAck_false (w.radio s) e h
  unfold World.cycle
  simp only [ha, Bool.not_false, ↓reduceIte]
  generalize hw1 : w.updRadio s (fun x => x.takePid e) = w1
  have hl1 : w1.radios.length = w.radios.length := by rw [← hw1]; exact updRadio_length _ _ _
  have ha1 : w1.air = w.air := by rw [← hw1]; rfl
  generalize hw3 : (if w1.nextFault.2 = Outcome.packetLost then w1.nextFault.1
      else (w1.nextFault.1.deliver s ((w.radio s).packetFor e)).1) = w3
  have hl3 : w3.radios.length = w.radios.length := by
    rw [← hw3, ← hl1, ← nextFault_length w1]
    split
    · rfl
    · exact (World.deliver_cfgEq _ _ _).1
  have ha3 : w3.air = w.air := by
    rw [← hw3, ← ha1, ← nextFault_air w1]
    split <;> rfl
  refine ⟨?_, rfl, ?_, ?_⟩
  · show (w3.updRadio s _).air ++ _ = _
    show w3.air ++ _ = _
    rw [ha3]
  · show ((w3.updRadio s (fun x => x.txDoneNoAck rest)).radio s).txFifo = rest
    rw [radio_updRadio_self _ _ _ (by omega)]
    rfl
  · show ((w3.updRadio s (fun x => x.txDoneNoAck rest)).radio s).flags &&& 0x20 = 0x20
    rw [radio_updRadio_self _ _ _ (by omega)]
    exact or_and_self _ _

end Nrf.Proofs.McastK
