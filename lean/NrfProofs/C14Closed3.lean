/-
C14, closed system, part 3: the receivers.  After a multicast every node of the addressed level holds
the packet in its RX FIFO (on pipe 0); none of them has run yet.  At the next scheduling point
(`runOthers`: a `read()` / `send()` of whichever node runs) the first of them runs `update()`; its
first `self._rf24.read()` is itself a scheduling point at which the *remaining* receivers run — so
the receivers run nested, the last one first.  Induction over the set of waiting receivers: each
`update()` reads the packet, finds `to_node = 0o100` with `allow_multicast` on, enqueues the frame
once (`_handle_frame_for_other_node`, relay off) and returns; nothing is transmitted.
-/
import NrfProofs.C14Closed2
import NrfProofs.C13HopsSys

namespace Nrf.Net
open Nrf Nrf.Spec Nrf.Proofs Nrf.Props.C04

/-! ### one receiver, quiet network -/

/-- a user frame with `to_node = 0o100` in `frame_buf` of a node that allows multicast, relay off, queue
    with room and without a frame of the same origin, id and type: enqueued once, nothing sent -/
theorem handleOther_mc_ok (f ty : Nat) (s : NetState) (fb : Frame) (hcur : s.cur < s.nodes.length)
    (hfb : s.node.frameBuf = fb) (hwire : wireCopy fb = fb) (hty : fb.header.ty = ty)
    (husr : ty ≤ MAX_USR_DEF_MSG_TYPE)
    (ham : s.node.cfg.allowMulticast = true) (hto : fb.header.toNode = NETWORK_MULTICAST_ADDR)
    (hrel : s.node.relayEnabled = false)
    (hroom : (s.node.queue.frames.length : Int) < s.node.queue.maxSize)
    (hnew : ∀ g ∈ s.node.queue.frames, ¬ (g.header.fromNode = fb.header.fromNode ∧
      g.header.frameId = fb.header.frameId ∧ g.header.ty = fb.header.ty)) :
    nexec (handleOther (f + 1) ty) s = (.ok (true, ty), s.enqueued fb) := by
  have hplain : fb.header.ty ≠ MSG_FRAG_FIRST ∧ fb.header.ty ≠ MSG_FRAG_MORE ∧ fb.header.ty ≠ MSG_FRAG_LAST := by
    rw [hty]
    unfold MAX_USR_DEF_MSG_TYPE at husr
    unfold MSG_FRAG_FIRST MSG_FRAG_MORE MSG_FRAG_LAST
    omega
  have hpoll : ¬ (ty = NETWORK_POLL ∧ s.node.a.addr ≠ NETWORK_DEFAULT_ADDR) := by
    rintro ⟨h, _⟩
    unfold MAX_USR_DEF_MSG_TYPE at husr
    unfold NETWORK_POLL at h
    omega
  have hto' : s.node.frameBuf.header.toNode = NETWORK_MULTICAST_ADDR := by rw [hfb]; exact hto
  rw [handleOther.eq_2]
  simp only [nexec_bind, nexec_getNode, ham, hto', hpoll, ↓reduceIte, true_and]
  rw [enqueueFrameBuf_ok s fb hfb hwire hplain hroom hnew]
  simp only [hrel, Bool.false_eq_true, ↓reduceIte, nexec_bind, nexec_pure, nexec_getNode, nexec_ite]
  have hn : (s.enqueued fb).node.frameBuf.header.ty = ty := by
    show (NetState.setNode _ _).node.frameBuf.header.ty = ty
    rw [node_setNode _ _ hcur]; exact hty
  have hnot131 : ¬ (s.enqueued fb).node.frameBuf.header.ty = NETWORK_EXT_DATA := by
    rw [hn]
    unfold MAX_USR_DEF_MSG_TYPE at husr
    unfold NETWORK_EXT_DATA
    omega
  simp only [if_neg hnot131]

/-- **A single multicast frame waiting at a receiver is delivered by one `_net_update()`**: quiet closed
    network, the running node listening with exactly the packed frame `pk` of `fr` (a user frame for
    `0o100`) in its RX FIFO, `allow_multicast` on, relay off, its queue accepting the frame.  The call
    returns the type; the queue has gained the wire copy of `fr`; the RX FIFO is empty; nothing was
    transmitted (only `read()` touched the radio). -/
theorem netUpdate_mc_deliver (hc : L3Contracts) (f : Nat) (s : NetState) (L : LinkCfg) (P : List Bytes)
    (p : Nat) (pk : Bytes) (fr : Frame) (t : Nat)
    (hcur : s.cur < s.nodes.length) (hclosed : s.closed = true) (hfuel : s.nodes.length + 2 ≤ f)
    (hq : Quiet s) (hWf : s.drv.Wf) (hN : NodeRadio L P true true 0x3E s.node.rf s.drv.radio)
    (harr : s.node.arrivals = []) (hfifo : s.drv.radio.rxFifo = [{ pipe := p, data := pk }]) (hp : p ≤ 5)
    (hfr : fr.header.msgType = .int t) (hpk : fr.pack = .ok pk) (hmsg : fr.message.length ≤ MAX_FRAG_SIZE)
    (hto : (wireCopy fr).header.toNode = NETWORK_MULTICAST_ADDR)
    (hself : s.node.a.addr ≠ NETWORK_MULTICAST_ADDR)
    (hvf : isValid (wireCopy fr).header.fromNode = true)
    (hty : t &&& 0xFF ≤ MAX_USR_DEF_MSG_TYPE)
    (ham : s.node.cfg.allowMulticast = true) (hrel : s.node.relayEnabled = false)
    (hroom : (s.node.queue.frames.length : Int) < s.node.queue.maxSize)
    (hnew : ∀ g ∈ s.node.queue.frames, ¬ (g.header.fromNode = (wireCopy fr).header.fromNode ∧
      g.header.frameId = (wireCopy fr).header.frameId ∧ g.header.ty = (wireCopy fr).header.ty)) :
    ∃ D1 D2 : DrvState, nexec (netUpdate (f + 3) 0) s =
        (.ok (t &&& 0xFF), ((((s.afterRf D1).withFrame (wireCopy fr)).enqueued (wireCopy fr)).afterRf D2)) ∧
      DrvFrame s.drv D1 ∧ DrvFrame D1 D2 ∧ NodeRadio L P true true 0x3E D2.d D2.radio ∧ D2.radio.rxFifo = [] := by
  have hpkl : pk.length = 8 + fr.message.length := pack_length hpk
  obtain ⟨D1, e1, F1, N1, x1⟩ := rfRead_head hc (f + 1) s L P true true 0x3E hcur hclosed (by omega) hq hWf hN harr
    (by
      intro e he
      rw [hfifo] at he
      simp only [List.mem_singleton] at he
      subst he
      unfold MAX_FRAG_SIZE at hmsg
      exact ⟨hp, by simp only []; omega, by simp only []; omega⟩)
  rw [hfifo] at e1 x1
  simp only [List.head?_cons, Option.map_some, List.tail_cons] at e1 x1
  have hn1 : (s.afterRf D1).node = { s.node with rf := D1.d } := afterRf_node s D1 hcur
  have hun : (s.afterRf D1).node.frameBuf.unpack pk = (wireCopy fr, true) := unpack_of_pack fr _ t hfr pk hpk
  have hwty : (wireCopy fr).header.ty = t &&& 0xFF := by simp [wireCopy, Header.ty, hfr]
  have hidem : wireCopy (wireCopy fr) = wireCopy fr := by
    unfold wireCopy
    simp only [Header.ty, Nat.and_assoc, Nat.and_self]
  have hvt : isValid (wireCopy fr).header.toNode = true := by rw [hto]; decide
  rw [show f + 3 = (f + 2) + 1 from rfl, netUpdate_step, e1]
  simp only [hun, hvt, hvf, Bool.not_true, Bool.or_self, Bool.false_eq_true, if_false]
  have hto' : ¬ (wireCopy fr).header.toNode = (s.afterRf D1).node.a.addr := by
    rw [hn1, hto]; exact fun h => hself h.symm
  simp only [if_neg hto']
  have hc1 : (s.afterRf D1).cur < (s.afterRf D1).nodes.length := by simpa using hcur
  have hc2 : ((s.afterRf D1).withFrame (wireCopy fr)).cur < ((s.afterRf D1).withFrame (wireCopy fr)).nodes.length := by
    simpa using hcur
  have hn2 : ((s.afterRf D1).withFrame (wireCopy fr)).node = { s.node with rf := D1.d, frameBuf := wireCopy fr } := by
    rw [withFrame_node _ _ hc1, hn1]
  rw [hwty, show f + 2 = (f + 1) + 1 from rfl,
    handleOther_mc_ok (f + 1) (t &&& 0xFF) _ (wireCopy fr) hc2 (by rw [hn2]) hidem hwty hty
      (by rw [hn2]; exact ham) hto (by rw [hn2]; exact hrel)
      (by rw [hn2]; exact hroom) (by rw [hn2]; exact hnew)]
  simp only [if_true]
  generalize hs3 : (((s.afterRf D1).withFrame (wireCopy fr)).enqueued (wireCopy fr)) = s3
  have hs3c : s3.cur = s.cur := by rw [← hs3]; rfl
  have hs3a : s3.active = s.active := by rw [← hs3]; rfl
  have hs3l : s3.nodes.length = s.nodes.length := by rw [← hs3]; simp
  have hs3w : s3.w = D1.w := by rw [← hs3]; rfl
  have hs3cl : s3.closed = true := by rw [← hs3]; exact hclosed
  have hs3n : s3.node = Node.pushFrame { s.node with rf := D1.d, frameBuf := wireCopy fr } (wireCopy fr) := by
    rw [← hs3, enqueued_node _ _ hc2, hn2]
  have hs3d : s3.drv = D1 := by
    unfold NetState.drv; rw [hs3n, hs3w]; rfl
  have hs3q : Quiet s3 := by
    apply hq.of_eq hs3l hs3c hs3a
    intro i hi hic hia
    unfold NetState.radioAt NetState.ridAt
    have : s3.nodeAt i = s.nodeAt i := by
      rw [← hs3, nodeAt_enqueued_ne _ _ i (by simpa using hic), nodeAt_withFrame_ne _ _ i (by simpa using hic),
        nodeAt_afterRf_ne s D1 i hic]
    rw [this, hs3w]
    by_cases h : (s.nodeAt i).rf.rid = s.drv.d.rid
    · have h0 := hq i hi hic hia
      unfold NetState.radioAt NetState.ridAt at h0
      rw [h0, h, ← F1.rid]
      exact x1
    · rw [F1.others _ h]; rfl
  obtain ⟨D2, e2, F2, N2, x2⟩ := rfRead_head hc f s3 L P true true 0x3E (by rw [hs3c, hs3l]; exact hcur) hs3cl
    (by rw [hs3l]; omega) hs3q (by rw [hs3d]; exact F1.wf hWf) (by rw [hs3n, hs3d]; exact N1)
    (by rw [hs3n]; exact harr) (by rw [hs3d, x1]; simp)
  rw [hs3d, x1] at e2 x2
  simp only [List.head?_nil, Option.map_none, List.tail_nil] at e2 x2
  rw [netUpdate_step, e2]
  simp only []
  refine ⟨D1, D2, ?_, F1, hs3d ▸ F2, N2, x2⟩
  rw [hs3]

/-! ### scheduling -/

/-- `_net_update()` of a node whose first scheduling point takes the network from `t0` to the quiet
    state `t1` is `_net_update()` from `t1` -/
theorem netUpdate_shift (f rv : Nat) (t0 t1 : NetState) (h0 : t0.node.arrivals = []) (h1 : t1.node.arrivals = [])
    (hc0 : t0.closed = true) (hc1 : t1.closed = true)
    (hro : nexec (runOthers f 0) t0 = (.ok (), t1)) (hq : nexec (runOthers f 0) t1 = (.ok (), t1)) :
    nexec (netUpdate (f + 2) rv) t0 = nexec (netUpdate (f + 2) rv) t1 := by
  have key : ∀ t : NetState, t.node.arrivals = [] → t.closed = true →
      nexec (rfRead (f + 1)) t =
        match nexec (runOthers f 0) t with
        | (.ok _, s1) => nexec (liftRf (Rf24.read none)) s1
        | (.error e, s1) => (.error e, s1) := by
    intro t ha hcl
    rw [rfRead.eq_2, nexec_bind, deliverDue_nil t ha]
    simp only []
    rw [nexec_bind, nexec_get]
    simp only [hcl, if_true]
    rw [nexec_bind]
    rcases nexec (runOthers f 0) t with ⟨r, s1⟩
    cases r <;> rfl
  have hr : nexec (rfRead (f + 1)) t0 = nexec (rfRead (f + 1)) t1 := by
    rw [key t0 h0 hc0, key t1 h1 hc1, hro, hq]
  rw [show f + 2 = (f + 1) + 1 from rfl, netUpdate_step, netUpdate_step, hr]

/-! ### the waiting receivers -/

/-- a single-frame user message in wire form with `to_node = 0o100`, from tree node `o` -/
structure McFrame (fr : Frame) (pk : Bytes) (t : Nat) (o : List Nat) : Prop where
  wire : wireCopy fr = fr
  ty : fr.header.msgType = .int t
  usr : t ≤ MAX_USR_DEF_MSG_TYPE
  dst : fr.header.toNode = NETWORK_MULTICAST_ADDR
  src : fr.header.fromNode = val o
  pack : fr.pack = .ok pk
  len : fr.message.length ≤ MAX_FRAG_SIZE
  ho : IsNode o

theorem McFrame.tyMask {fr : Frame} {pk : Bytes} {t : Nat} {o : List Nat} (T : McFrame fr pk t o) :
    t &&& 0xFF = t ∧ fr.header.ty = t := by
  have h1 : fr.header.ty = t := by simp [Header.ty, T.ty]
  have h2 : (wireCopy fr).header.ty = t &&& 0xFF := by simp [wireCopy, Header.ty, T.ty]
  rw [T.wire, h1] at h2
  exact ⟨h2.symm, h1⟩

/-- The nodes `R` (not on the call stack) hold the multicast packet `pk` in their RX FIFO on pipe 0 and
    nothing else; every other node that is not on the call stack has an empty RX FIFO; the waiting
    nodes have the relay off and their queues accept the frame. -/
structure McWait (cfg : AddrCfg) (L : LinkCfg) (tree : Nat → List Nat) (fr : Frame) (pk : Bytes)
    (R : List Nat) (s : NetState) : Prop where
  ok : NetOk cfg L tree s
  cur : s.cur < s.nodes.length
  act : s.cur ∈ s.active
  nodup : R.Nodup
  fifo : ∀ j, j < s.nodes.length → j ∉ s.active →
    (s.radioAt j).rxFifo = if j ∈ R then [{ pipe := 0, data := pk }] else []
  idle : ∀ j, j ∈ R → j < s.nodes.length ∧ j ∉ s.active
  acc : ∀ j, j ∈ R → Accepts (s.nodeAt j).queue fr ∧ (s.nodeAt j).relayEnabled = false

/-- … and afterwards: the same network, everybody listening, all RX FIFOs of nodes off the call stack
    empty, the radios and radio objects of the nodes on the call stack untouched, the queues of
    exactly the nodes of `R` extended by `fr` (once), the fault script and the air log as before. -/
structure McDone (cfg : AddrCfg) (L : LinkCfg) (tree : Nat → List Nat) (fr : Frame)
    (R : List Nat) (s s' : NetState) : Prop where
  ok : NetOk cfg L tree s'
  cur : s'.cur = s.cur
  active : s'.active = s.active
  same : Same s s'
  fifo : ∀ j, j < s.nodes.length → j ∉ s.active → (s'.radioAt j).rxFifo = []
  stay : ∀ j, j < s.nodes.length → j ∈ s.active →
    s'.radioAt j = s.radioAt j ∧ (s'.nodeAt j).rf = (s.nodeAt j).rf
  queue : ∀ j, j < s.nodes.length →
    (s'.nodeAt j).queue.frames = (s.nodeAt j).queue.frames ++ (if j ∈ R then [fr] else [])
  attrs : ∀ j, (s'.nodeAt j).relayEnabled = (s.nodeAt j).relayEnabled ∧
    (s'.nodeAt j).queue.maxSize = (s.nodeAt j).queue.maxSize

theorem McDone.refl {cfg : AddrCfg} {L : LinkCfg} {tree : Nat → List Nat} {fr : Frame} {pk : Bytes} {s : NetState}
    (h : McWait cfg L tree fr pk [] s) : McDone cfg L tree fr [] s s := by
  refine ⟨h.ok, rfl, rfl, Same.refl s, ?_, fun _ _ _ => ⟨rfl, rfl⟩, ?_, fun _ => ⟨rfl, rfl⟩⟩
  · intro j hj hja
    have := h.fifo j hj hja
    simpa using this
  · intro j _; simp

/-- fuel for `n` waiting receivers in a network of `len` nodes -/
def mcFuel (len n : Nat) : Nat := n * (len + 10) + len + 10

/-- the least member of a non-empty list -/
theorem exists_least : ∀ (R : List Nat), R ≠ [] → ∃ j, j ∈ R ∧ ∀ k, k ∈ R → j ≤ k := by
  intro R
  induction R with
  | nil => intro h; exact absurd rfl h
  | cons a R ih =>
    intro _
    by_cases hR : R = []
    · subst hR
      exact ⟨a, List.mem_cons_self, fun k hk => by simp at hk; omega⟩
    · obtain ⟨j, hj, hmin⟩ := ih hR
      by_cases h : a ≤ j
      · refine ⟨a, List.mem_cons_self, fun k hk => ?_⟩
        rcases List.mem_cons.mp hk with rfl | hk
        · omega
        · have := hmin k hk; omega
      · refine ⟨j, List.mem_cons_of_mem _ hj, fun k hk => ?_⟩
        rcases List.mem_cons.mp hk with rfl | hk
        · omega
        · exact hmin k hk

/-- **One waiting receiver runs `update()`** (entered by the scheduler): the remaining receivers run at
    its first `read()` (induction hypothesis), then it takes its own packet. -/
theorem mc_update_step (hc : L3Contracts) (cfg : AddrCfg) (ham : cfg.allowMulticast = true) (L : LinkCfg)
    (tree : Nat → List Nat) (fr : Frame) (pk : Bytes) (t : Nat) (o : List Nat) (T : McFrame fr pk t o)
    (R : List Nat) (j : Nat) (hjR : j ∈ R)
    (IH : ∀ (s : NetState) (f : Nat), McWait cfg L tree fr pk (R.erase j) s →
      mcFuel s.nodes.length (R.erase j).length ≤ f →
      ∃ s', nexec (runOthers f 0) s = (.ok (), s') ∧ McDone cfg L tree fr (R.erase j) s s')
    (s : NetState) (g : Nat) (H : McWait cfg L tree fr pk R s)
    (hg : mcFuel s.nodes.length (R.erase j).length + 4 ≤ g) :
    ∃ r s2, nexec (nodeUpdate g) (s.switchTo j) = (.ok r, s2) ∧
      McDone cfg L tree fr R s (s2.switchBack s.cur j) := by
  obtain ⟨hok, hcur, hact, hnd, hfifo, hidle, hacc⟩ := H
  obtain ⟨hjl, hja⟩ := hidle j hjR
  have hjc : j ≠ s.cur := fun e => hja (e ▸ hact)
  obtain ⟨hm1, hm2⟩ := T.tyMask
  -- the state after the context switch
  generalize ht0 : s.switchTo j = t0
  have t0cur : t0.cur = j := by rw [← ht0]; rfl
  have t0act : t0.active = j :: s.active := by rw [← ht0]; rfl
  have t0len : t0.nodes.length = s.nodes.length := by rw [← ht0]; exact (Same.switchTo s j).len
  have same0 : Same s t0 := by rw [← ht0]; exact Same.switchTo s j
  have t0w : t0.w.faults = s.w.faults := by rw [← ht0]; rfl
  have t0rad : ∀ i, t0.radioAt i = s.radioAt i := by intro i; rw [← ht0]; exact radioAt_switchTo s j i
  have t0rf : ∀ i, (t0.nodeAt i).rf = (s.nodeAt i).rf := by intro i; rw [← ht0]; exact rf_switchTo s j i
  have t0q : ∀ i, (t0.nodeAt i).queue = (s.nodeAt i).queue := by intro i; rw [← ht0]; exact queue_switchTo s j i
  have t0at : ∀ i, i ≠ s.cur → t0.nodeAt i = s.nodeAt i := by
    intro i hi; rw [← ht0]; exact Hops.nodeAt_switchTo_ne s j i hi
  have ok0 : NetOk cfg L tree t0 :=
    hok.of_same same0 (by rw [t0w]; exact hok.faults) (fun i _ P _ hN => by rw [t0rf, t0rad]; exact hN)
  have hmemE : ∀ k, k ≠ j → (k ∈ R.erase j ↔ k ∈ R) := fun k hk => List.mem_erase_of_ne hk
  have hjE : j ∉ R.erase j := fun h => (List.Nodup.mem_erase_iff hnd).mp h |>.1 rfl
  have W0 : McWait cfg L tree fr pk (R.erase j) t0 := by
    refine ⟨ok0, by rw [t0cur, t0len]; exact hjl, by rw [t0cur, t0act]; exact List.mem_cons_self,
      hnd.erase j, ?_, ?_, ?_⟩
    · intro k hk hka
      rw [t0len] at hk
      rw [t0act] at hka
      have hkj : k ≠ j := fun e => hka (e ▸ List.mem_cons_self)
      have hka' : k ∉ s.active := fun h => hka (List.mem_cons_of_mem _ h)
      rw [t0rad, hfifo k hk hka']
      by_cases hkR : k ∈ R
      · rw [if_pos hkR, if_pos ((hmemE k hkj).mpr hkR)]
      · rw [if_neg hkR, if_neg (fun h => hkR ((hmemE k hkj).mp h))]
    · intro k hk
      have hkR : k ∈ R := List.mem_of_mem_erase hk
      have hkj : k ≠ j := fun e => hjE (e ▸ hk)
      obtain ⟨h1, h2⟩ := hidle k hkR
      refine ⟨by rw [t0len]; exact h1, ?_⟩
      rw [t0act]
      intro h
      rcases List.mem_cons.mp h with h | h
      · exact hkj h
      · exact h2 h
    · intro k hk
      have hkR : k ∈ R := List.mem_of_mem_erase hk
      obtain ⟨_, h2⟩ := hidle k hkR
      have hkc : k ≠ s.cur := fun e => h2 (e ▸ hact)
      rw [t0at k hkc]
      exact hacc k hkR
  -- fuel
  obtain ⟨g4, rfl⟩ : ∃ x, g = x + 4 := ⟨g - 4, by omega⟩
  have hlenpos : s.nodes.length + 10 ≤ mcFuel s.nodes.length (R.erase j).length := by
    unfold mcFuel; omega
  -- the other receivers run at the first scheduling point
  obtain ⟨t1, hro, D01⟩ := IH t0 (g4 + 1) W0 (by rw [t0len]; omega)
  obtain ⟨ok1, cur1, act1, same1, fifo1, stay1, queue1, attrs1⟩ := D01
  have t1len : t1.nodes.length = s.nodes.length := by rw [same1.len, t0len]
  have t1cur : t1.cur = j := by rw [cur1, t0cur]
  have hjl1 : t1.cur < t1.nodes.length := by rw [t1cur, t1len]; exact hjl
  have hq1 : Quiet t1 := by
    intro i hi hic hia
    rw [t1len] at hi
    rw [act1] at hia
    exact fifo1 i (by rw [t0len]; exact hi) hia
  have hqro : nexec (runOthers (g4 + 1) 0) t1 = (.ok (), t1) :=
    runOthers_quiet0 t1 hq1 (g4 + 1) (by rw [t1len]; omega)
  obtain ⟨n1, n2, n3, n4, n5, n6⟩ := ok1.node j (by rw [t1len]; exact hjl)
  obtain ⟨m1, m2, m3, m4, m5, m6⟩ := ok0.node j (by rw [t0len]; exact hjl)
  have t1node : t1.node = t1.nodeAt j := by rw [node_eq_nodeAt, t1cur]
  have t0node : t0.node = t0.nodeAt j := by rw [node_eq_nodeAt, t0cur]
  have hshift := netUpdate_shift (g4 + 1) 0 t0 t1 (by rw [t0node]; exact m4) (by rw [t1node]; exact n4)
    ok0.closed ok1.closed hro hqro
  -- the receiver's own packet
  obtain ⟨P, hP, hN⟩ := ok1.radio j (by rw [t1len]; exact hjl)
  have hj0act : j ∈ t0.active := by rw [t0act]; exact List.mem_cons_self
  obtain ⟨st1, st2⟩ := stay1 j (by rw [t0len]; exact hjl) hj0act
  have hdrvrad : t1.drv.radio = t1.radioAt j := by
    unfold DrvState.radio NetState.drv NetState.radioAt NetState.ridAt
    rw [t1node]
  have hfifo1 : t1.drv.radio.rxFifo = [{ pipe := 0, data := pk }] := by
    rw [hdrvrad, st1, t0rad, hfifo j hjl hja, if_pos hjR]
  have hq1j : (t1.nodeAt j).queue.frames = (s.nodeAt j).queue.frames := by
    rw [queue1 j (by rw [t0len]; exact hjl), if_neg hjE, List.append_nil, t0q]
  have hmax1j : (t1.nodeAt j).queue.maxSize = (s.nodeAt j).queue.maxSize := by
    rw [(attrs1 j).2, t0q]
  have hrel1j : (t1.nodeAt j).relayEnabled = false := by
    rw [(attrs1 j).1, t0at j hjc]; exact (hacc j hjR).2
  obtain ⟨hroom, hnew⟩ := (hacc j hjR).1
  obtain ⟨D1, D2, e, F1, F2, N2, x2⟩ := netUpdate_mc_deliver hc g4 t1 L P 0 pk fr t hjl1 ok1.closed
    (by rw [t1len]; omega) hq1
    (by
      show t1.node.rf.rid < t1.w.radios.length
      rw [t1node]; exact n6)
    (by rw [t1node, hdrvrad]; exact hN)
    (by rw [t1node]; exact n4) hfifo1 (by omega) T.ty T.pack T.len
    (by rw [T.wire]; exact T.dst)
    (by rw [t1node, n2]; exact val_ne_multicast n1)
    (by rw [T.wire, T.src]; exact isValid_val T.ho)
    (by rw [hm1]; exact T.usr)
    (by rw [t1node, n3]; exact ham)
    (by rw [t1node]; exact hrel1j)
    (by rw [t1node, hq1j, hmax1j]; exact hroom)
    (by rw [t1node, hq1j, T.wire]; exact hnew)
  rw [hm1, T.wire] at e
  generalize hs2 : ((((t1.afterRf D1).withFrame fr).enqueued fr).afterRf D2) = t2 at e
  -- facts about the state after the receiver's `update()`
  have hc1 : (t1.afterRf D1).cur < (t1.afterRf D1).nodes.length := by simpa using hjl1
  have hc2 : ((t1.afterRf D1).withFrame fr).cur < ((t1.afterRf D1).withFrame fr).nodes.length := by simpa using hjl1
  have hc3 : (((t1.afterRf D1).withFrame fr).enqueued fr).cur < (((t1.afterRf D1).withFrame fr).enqueued fr).nodes.length := by
    simpa using hjl1
  have hnode2 : t2.node = (Node.pushFrame { t1.node with rf := D1.d, frameBuf := fr } fr).withRf D2.d := by
    rw [← hs2, afterRf_node _ _ hc3, enqueued_node _ _ hc2, withFrame_node _ _ hc1, afterRf_node _ _ hjl1]
    rfl
  have hat2 : ∀ k, k ≠ j → t2.nodeAt k = t1.nodeAt k := by
    intro k hk
    have hk' : k ≠ t1.cur := by rw [t1cur]; exact hk
    rw [← hs2, nodeAt_afterRf_ne _ _ _ (by simpa using hk'), nodeAt_enqueued_ne _ _ _ (by simpa using hk'),
      nodeAt_withFrame_ne _ _ _ (by simpa using hk'), nodeAt_afterRf_ne _ _ _ hk']
  have cur2 : t2.cur = j := by rw [← hs2]; exact t1cur
  have act2 : t2.active = j :: s.active := by rw [← hs2]; show t1.active = _; rw [act1, t0act]
  have hw2 : t2.w = D2.w := by rw [← hs2]; rfl
  have F02 : DrvFrame t1.drv D2 := F1.trans F2
  have hnodej2 : t2.nodeAt j = t2.node := by rw [node_eq_nodeAt, cur2]
  have same12 : Same t1 t2 := by
    refine ⟨by rw [← hs2]; rfl, by rw [← hs2]; simp, ?_, by rw [hw2, F02.len]; rfl, ?_⟩
    · intro k
      by_cases hk : k = j
      · subst hk
        unfold NetState.ridAt
        rw [hnodej2, hnode2, ← t1node]
        refine ⟨rfl, rfl, rfl, rfl, ?_⟩
        show D2.d.rid = _
        rw [F02.rid]; rfl
      · unfold NetState.ridAt; rw [hat2 k hk]; exact ⟨rfl, rfl, rfl, rfl, rfl⟩
    · intro r hr
      rw [hw2, F02.others r (fun e => hr t1.cur hjl1 e.symm)]; rfl
  have hrad2_j : t2.radioAt j = D2.radio := by
    unfold NetState.radioAt
    rw [(same12.stat j).2.2.2.2, hw2]
    show D2.w.radio (t1.nodeAt j).rf.rid = _
    rw [← t1node]
    show D2.w.radio t1.drv.d.rid = _
    rw [← F02.rid]; rfl
  have hrad2_ne : ∀ k, k < s.nodes.length → k ≠ j → t2.radioAt k = t1.radioAt k := by
    intro k hk hkj
    unfold NetState.radioAt
    rw [(same12.stat k).2.2.2.2, hw2, F02.others _ (by
      have := (ok1.inj k j (by rw [t1len]; exact hk) (by rw [t1len]; exact hjl) hkj).2
      show t1.ridAt k ≠ t1.node.rf.rid
      rw [t1node]; exact this)]
    rfl
  have ok2 : NetOk cfg L tree t2 := by
    refine ok1.of_same same12 (by rw [hw2, F02.faults]; exact ok1.faults) ?_
    intro i hi P' hP' hN'
    by_cases hic : i = j
    · subst hic
      have : P' = P := Except.ok.inj (hP'.symm.trans hP)
      subst this
      rw [hnodej2, hnode2, hrad2_j]
      exact N2
    · rw [hat2 i hic, hrad2_ne i (by rw [← t1len]; exact hi) hic]; exact hN'
  -- back to the scheduler
  generalize hs' : t2.switchBack s.cur j = s'
  have same2' : Same t2 s' := by rw [← hs']; exact Same.switchBack t2 s.cur j
  have rad' : ∀ i, s'.radioAt i = t2.radioAt i := by intro i; rw [← hs']; exact radioAt_switchBack t2 s.cur j i
  have rfq' : ∀ i, (s'.nodeAt i).rf = (t2.nodeAt i).rf ∧ (s'.nodeAt i).queue = (t2.nodeAt i).queue := by
    intro i; rw [← hs']; exact nodeAt_switchBack t2 s.cur j i
  have rel' : ∀ i, (s'.nodeAt i).relayEnabled = (t2.nodeAt i).relayEnabled := by
    intro i
    rw [← hs']
    have : (t2.switchBack s.cur j).nodeAt i = (t2.nodes.modify j fun n => { n with clock := t2.w.clock }).getD i default := rfl
    rw [this]
    unfold NetState.nodeAt
    simp only [List.getD_eq_getElem?_getD, List.getElem?_modify]
    cases t2.nodes[i]? with
    | none => rfl
    | some n =>
      simp only [Option.getD_some]
      split <;> rfl
  have ok' : NetOk cfg L tree s' :=
    ok2.of_same same2' (by rw [← hs']; exact ok2.faults)
      (fun i _ P' _ hN' => by rw [(rfq' i).1, rad']; exact hN')
  have hkind2 : t2.node.kind ≠ .meshMaster := by
    rw [hnode2]
    show t1.node.kind ≠ _
    rw [t1node]; exact n5
  have hupd : nexec (nodeUpdate ((g4 + 3) + 1)) t0 = (.ok t, t2) := by
    refine nodeUpdate_plain (g4 + 3) t0 t2 t ?_ hkind2
    rw [show g4 + 3 = (g4 + 1) + 2 from rfl, hshift]
    exact e
  refine ⟨t, t2, hupd, ?_⟩
  rw [hs']
  have hrelq2 : ∀ k, k ≠ j → (t2.nodeAt k).relayEnabled = (s.nodeAt k).relayEnabled ∧
      (t2.nodeAt k).queue.maxSize = (s.nodeAt k).queue.maxSize := by
    intro k hk
    rw [hat2 k hk, (attrs1 k).1, (attrs1 k).2, t0q]
    refine ⟨?_, rfl⟩
    rw [← ht0]
    have : (s.switchTo j).nodeAt k = (s.setNode fun n => { n with clock := s.w.clock }).nodeAt k := rfl
    rw [this, nodeAt_setNode]
    split <;> rfl
  refine ⟨ok', by rw [← hs']; rfl, ?_, (same0.trans same1).trans (same12.trans same2'), ?_, ?_, ?_, ?_⟩
  · rw [← hs']
    show t2.active.erase j = _
    rw [act2]
    exact List.erase_cons_head ..
  · intro k hk hka
    rw [rad']
    by_cases hkj : k = j
    · subst hkj; rw [hrad2_j]; exact x2
    · rw [hrad2_ne k hk hkj]
      exact fifo1 k (by rw [t0len]; exact hk) (by
        rw [t0act]
        intro h
        rcases List.mem_cons.mp h with h | h
        · exact hkj h
        · exact hka h)
  · intro k hk hka
    have hkj : k ≠ j := fun e => hja (e ▸ hka)
    obtain ⟨a1, a2⟩ := stay1 k (by rw [t0len]; exact hk) (by rw [t0act]; exact List.mem_cons_of_mem _ hka)
    refine ⟨by rw [rad', hrad2_ne k hk hkj, a1, t0rad], ?_⟩
    rw [(rfq' k).1, hat2 k hkj, a2, t0rf]
  · intro k hk
    rw [(rfq' k).2]
    by_cases hkj : k = j
    · subst hkj
      rw [hnodej2, hnode2, if_pos hjR]
      show t1.node.queue.frames ++ [fr] = _
      rw [t1node, hq1j]
    · rw [hat2 k hkj, queue1 k (by rw [t0len]; exact hk), t0q]
      by_cases hkR : k ∈ R
      · rw [if_pos hkR, if_pos ((hmemE k hkj).mpr hkR)]
      · rw [if_neg hkR, if_neg (fun h => hkR ((hmemE k hkj).mp h))]
  · intro k
    rw [rel' k, (rfq' k).2]
    by_cases hkj : k = j
    · subst hkj
      rw [hnodej2, hnode2]
      show t1.node.relayEnabled = _ ∧ t1.node.queue.maxSize = _
      rw [t1node, hmax1j, (attrs1 k).1, t0at k hjc]
      exact ⟨rfl, rfl⟩
    · exact hrelq2 k hkj

/-- **All waiting receivers run at one scheduling point**, each `update()` to completion. -/
theorem mc_runOthers (hc : L3Contracts) (cfg : AddrCfg) (ham : cfg.allowMulticast = true) (L : LinkCfg)
    (tree : Nat → List Nat) (fr : Frame) (pk : Bytes) (t : Nat) (o : List Nat) (T : McFrame fr pk t o) :
    ∀ (n : Nat) (R : List Nat), R.length = n → ∀ (s : NetState) (f : Nat), McWait cfg L tree fr pk R s →
      mcFuel s.nodes.length n ≤ f →
      ∃ s', nexec (runOthers f 0) s = (.ok (), s') ∧ McDone cfg L tree fr R s s' := by
  intro n
  induction n with
  | zero =>
    intro R hR s f H hf
    have : R = [] := List.length_eq_zero_iff.mp hR
    subst this
    refine ⟨s, ?_, McDone.refl H⟩
    apply runOthers_quiet0
    · intro i hi hic hia
      have := H.fifo i hi hia
      simpa using this
    · unfold mcFuel at hf; omega
  | succ n ih =>
    intro R hR s f H hf
    have hne : R ≠ [] := by intro h; rw [h] at hR; cases hR
    obtain ⟨j, hjR, hmin⟩ := exists_least R hne
    obtain ⟨hjl, hja⟩ := H.idle j hjR
    have hjc : j ≠ s.cur := fun e => hja (e ▸ H.act)
    have hEl : (R.erase j).length = n := by rw [List.length_erase_of_mem hjR, hR]; rfl
    have hfu : mcFuel s.nodes.length (n + 1) = mcFuel s.nodes.length n + (s.nodes.length + 10) := by
      unfold mcFuel; rw [Nat.add_mul]; omega
    obtain ⟨g, rfl⟩ : ∃ g, f = g + 1 + j := ⟨f - 1 - j, by unfold mcFuel at hf; omega⟩
    obtain ⟨r, s2, hu, D⟩ := mc_update_step hc cfg ham L tree fr pk t o T R j hjR
      (fun s0 f0 W0 h0 => ih (R.erase j) hEl s0 f0 W0 (by rw [← hEl]; exact h0)) s g H
      (by rw [hEl]; omega)
    refine ⟨s2.switchBack s.cur j, ?_, D⟩
    have hrunnable : ∀ k, k < s.nodes.length → (s.runnable k ↔ k ∈ R) := by
      intro k hk
      constructor
      · rintro ⟨h1, h2, h3, _⟩
        have h2' : k ∉ s.active := by simpa using h2
        have := H.fifo k hk h2'
        by_cases hkR : k ∈ R
        · exact hkR
        · rw [if_neg hkR] at this
          unfold NetState.radioAt NetState.ridAt NetState.nodeAt at this
          rw [this] at h3
          simp at h3
      · intro hkR
        obtain ⟨_, hka⟩ := H.idle k hkR
        have hf := H.fifo k hk hka
        rw [if_pos hkR] at hf
        obtain ⟨P, _, hN⟩ := H.ok.radio k hk
        refine ⟨fun e => hka (e ▸ H.act), by simpa using hka, ?_, hN.rxMode⟩
        unfold NetState.radioAt NetState.ridAt NetState.nodeAt at hf
        rw [hf]; rfl
    have hlen2 : s2.nodes.length = s.nodes.length := by
      have := D.same.len
      rw [(Same.switchBack s2 s.cur j).len] at this
      exact this
    apply runOthers_one g s s2 j (.ok r) hjl ((hrunnable j hjl).mpr hjR)
      (fun k hk hr => by
        have := hmin k ((hrunnable k (by omega)).mp hr)
        omega)
      hu hlen2 (by rw [hfu] at hf; unfold mcFuel at hf; omega)
    intro k hjk hk
    rintro ⟨h1, h2, h3, _⟩
    have h2' : k ∉ (s2.switchBack s.cur j).active := by simpa using h2
    rw [D.active] at h2'
    have := D.fifo k hk h2'
    unfold NetState.radioAt NetState.ridAt NetState.nodeAt at this
    rw [this] at h3
    simp at h3

end Nrf.Net
