/-
C14 ∘ C07: the medium clause of C14 (`C14_receivers`: who takes a multicast packet, nobody
acknowledges, stored once) for the radio of a node **after any history of admissible API calls** —
C07's invariant (`C07_history_listening`) carried over by the bridge `C14Bridge.listening_bridge`.

Import note: this file sits on the C07 stack (`NetExecC07`); since `nexec`, `NetState.node`, … are shared
with the closed-system stack (NrfProofs/NetExecCore.lean) it can be imported by NrfProps/C14.lean, where the
theorem is `C14_receivers_after_api`.  It does not import NrfProps/C14.lean: the proof of `C14_receivers` is
repeated from its lemmas (NrfProofs/McastAirK.lean).
-/
import NrfProps.C07
import NrfProofs.McastAirK
import NrfProofs.C14Bridge

namespace Nrf.Proofs.C14AfterApi
open Nrf Nrf.Net Nrf.Spec Nrf.Spec.Multicast Nrf.Proofs.McastK
open Nrf.Props.C07 (Runs CfgBytes radioOf Call)

/-- **After every history of admissible API calls, the node's radio receives multicasts as C14
    says.**  From a session in which the node listens (`NodeListens`, established by `_begin`:
    `C07_begin`), after any sequence `cs` of admissible entry points / arrivals / fault patterns
    that ran to completion (`Runs cs s s'`), the node being at the tree address `ds` with its
    multicast level equal to its tree level: the node's radio `radioOf s'` takes a packet on the
    address of level `L` — on pipe 0 — iff the node holds level `L`, never acknowledges it, and
    stores it once iff moreover the RX FIFO has room and the packet is no repetition. -/
theorem receivers_after_api (cs : List Call) (s s' : NetState)
    (hopen : Nrf.Net.Quiet7 s) (h : NodeListens s) (hc : CfgBytes s.node.cfg)
    (hadm : ∀ c ∈ cs, c.Admissible) (hr : Runs cs s s')
    (ds : List Nat) (hn : IsNode ds) (ha : s'.node.a.addr = val ds)
    (hlv : s'.node.a.netLvl = ds.length)
    {L : Nat} (hL : L ≤ 5) {x : Bytes}
    (hx : levelAddrSpec s'.node.cfg.pfx s'.node.cfg.sfx L = some x)
    {k : Packet} (hk : McPacket x k) (hcomp : Compatible (radioOf s') k) :
    ((radioOf s').listensTo k =
      if HoldsLevel s'.node.cfg.allowMulticast ds L then some 0 else none) ∧
    ((radioOf s').receive k).2 = none ∧
    ((radioOf s').receive k).1.rxFifo =
      (if HoldsLevel s'.node.cfg.allowMulticast ds L ∧ (radioOf s').rxFifo.length < 3 ∧
          (radioOf s').lastRx ≠ some { pid := k.pid, addr := k.addr, data := k.data }
        then (radioOf s').rxFifo ++ [{ pipe := 0, data := k.data }] else (radioOf s').rxFifo) ∧
    (¬ (HoldsLevel s'.node.cfg.allowMulticast ds L ∧ (radioOf s').rxFifo.length < 3 ∧
          (radioOf s').lastRx ≠ some { pid := k.pid, addr := k.addr, data := k.data }) →
      ((radioOf s').receive k).1 = radioOf s') := by
  have hl4 : s'.node.a.netLvl ≤ 4 := by rw [hlv]; exact hn.2
  have hlis : Nrf.Spec.Listening s'.node (radioOf s') :=
    Nrf.Props.C07.C07_history_listening cs s s' hopen h hc hadm hr ds hn ha hl4
  have hcfg : s'.node.cfg = s.node.cfg := (Nrf.Props.C07.C07_history cs s s' hopen h hc hadm hr).2
  have hok : Nrf.Props.C04.CfgOk { pfx := s'.node.cfg.pfx, sfx := s'.node.cfg.sfx } := by
    rw [hcfg]; exact hc.1
  have hl := Nrf.Proofs.C14Bridge.listening_bridge hlis hn ha hlv
  have hc' : SfxOk s'.node.cfg.pfx s'.node.cfg.sfx := hok
  have hx' : x = levelFn s'.node.cfg.pfx (sfxFn s'.node.cfg.sfx) L := by
    rw [levelAddrSpec_fn (sfxFn_spec hc'.1) hL] at hx
    exact (Option.some.inj hx).symm
  subst hx'
  exact ⟨listensTo_level hl hc' hn hL hk hcomp, receive_level hl hc' hn hL hk hcomp⟩

/-- non-vacuity: a session in which node 0o123 listens after `_begin` (C07's concrete session
    `demo`), the empty history and a one-step history (an environment move), the node on tree node
    `[3, 2, 1]` with its multicast level 3 = its tree level; a level address exists for every level
    `L ≤ 5` under the session's configuration -/
theorem receivers_after_api_example : ∃ (s s' : NetState) (ds : List Nat), Nrf.Net.Quiet7 s ∧ NodeListens s ∧ CfgBytes s.node.cfg ∧
    Runs [Call.envFaults [Outcome.ackLost]] s s' ∧
    (∀ c ∈ [Call.envFaults [Outcome.ackLost]], c.Admissible) ∧
    Runs [] s s ∧ IsNode ds ∧ s.node.a.addr = val ds ∧ s.node.a.netLvl = ds.length ∧
    levelAddrSpec s.node.cfg.pfx s.node.cfg.sfx 3 = some [0xCC, 0xCE, 0xCC, 0xCC, 0xCC] := by
  obtain ⟨h1, h2, h3, h4, h5⟩ := Nrf.Props.C07.C07_demo_base
  obtain ⟨s, _, b, _, _, e1, e2, e3, _, e5, _⟩ :=
    Nrf.Props.C07.C07_begin Nrf.Props.C07.demo [3, 2, 1] (by decide) h1 h2 h3 h4
  refine ⟨s, _, [3, 2, 1], Or.inl (e5.trans h5), b, by rw [e3]; exact h4,
    Runs.cons _ _ s _ _ rfl (Runs.nil _), fun c hc => by simp at hc; subst hc; trivial,
    Runs.nil _, by decide, e1, e2, ?_⟩
  rw [e3]; decide

end Nrf.Proofs.C14AfterApi
