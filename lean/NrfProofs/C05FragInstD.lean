/-
C05, round 2: kernel evaluation of CONCRETE runs — ALL ordered pairs (origin, destination) of the seven-node tree
`Example.sevenAt` with origin index in [0, 1]: a fragmented message of 60 bytes, type 5 (see C05FragPairs.lean).
-/
import NrfProofs.C05FragPairs

namespace Nrf.Net.Inst
open Nrf Nrf.Net Nrf.Spec Nrf.Proofs Nrf.Net.Example

theorem pairs_D : ∀ a ∈ [0, 1], ∀ d ∈ List.range 7, a ≠ d → pairRun a d = true := by
  decide +kernel

end Nrf.Net.Inst
