/-
Per-method lemmas for the C08 alphabet (`open_rx_pipe`, `close_rx_pipe`, `open_tx_pipe`,
`auto_ack =`, `set_auto_ack`, `listen =`): each method executed symbolically in an arbitrary world,
its effect stated as a record update of the shadows and of the configuration part of the radio.
-/
import NrfProofs.C08Core

set_option linter.unusedSimpArgs false

namespace Nrf
open Rf24

/-! ### small helpers -/

theorem andNot_le (x m : Nat) : andNot x m ≤ x := by
  unfold andNot
  apply Nat.le_of_testBit
  intro i
  simp only [Nat.testBit_xor, Nat.testBit_and]
  cases x.testBit i <;> cases m.testBit i <;> simp

theorem andNot_lt_64 {x : Nat} (m : Nat) (h : x < 64) : andNot x m < 64 := Nat.lt_of_le_of_lt (andNot_le x m) h

theorem or_bit_lt_64 {x : Nat} (h : x < 64) (p : Nat) (hp : p ≤ 5) : x ||| (1 <<< p) < 64 := by
  have : 1 <<< p < 2 ^ 6 := by
    rw [Nat.one_shiftLeft]; exact Nat.pow_lt_pow_right (by decide) (by omega)
  exact Nat.or_lt_two_pow (n := 6) (by omega) this

/-- `for i, val in enumerate(address): buf[i] = val` when the address fits -/
theorem exec_assignPrefix_ok (i : Nat) (addr : Bytes) (s : DrvState) (h : addr.length ≤ (getPipes s.d i).length) :
    exec (assignPrefix i addr) s =
      (.ok (), s.modShadow fun d => setPipes d i (addr ++ (getPipes s.d i).drop addr.length)) := by
  unfold assignPrefix overwritePrefix
  have h' : ¬ addr.length > (getPipes s.d i).length := by omega
  simp only [exec_bind, exec_getD, h', ↓reduceIte, exec_modD']

/-- `self.address(0)` -/
theorem exec_address0 (s : DrvState) : exec (address 0) s = (.ok s.d.pipes0, s) := by
  unfold address
  simp only [exec_bind, exec_getD, Int.reduceLT, Int.reduceLE, ↓reduceIte, exec_pure, getPipes,
    Int.toNat_zero, show ¬ ((0 : Int) > 5) by decide]

/-- commands other than register writes and ACTIVATE leave the configuration part alone -/
theorem Radio.xfer_cmd_cfgOf (r : Radio) (c : Nat) (d : Bytes) (hc : 0x40 ≤ c ∧ c ≠ 0x50) :
    (r.xfer (c :: d)).1.cfgOf = r.cfgOf := by
  unfold Radio.xfer
  simp only
  have h1 : ¬ c < 0x20 := by omega
  have h2 : ¬ c < 0x40 := by omega
  unfold Radio.decodeCmd
  simp only [h1, h2, hc.2, ↓reduceIte]
  repeat' split
  all_goals first
    | rfl
    | exact Radio.readPayload_cfgOf _ _
    | exact Radio.writePayload_cfgOf _ _ _

theorem spiStep_cmd (s : DrvState) (c : Nat) (d : Bytes) (hw : s.Wf) (hc : 0x40 ≤ c ∧ c ≠ 0x50) :
    (s.spiStep (c :: d)).cfg = s.cfg := by
  rw [spiStep_cfg _ _ hw, Radio.xfer_cmd_cfgOf _ _ _ hc]; rfl

/-- the tail of the `listen` setter: sleep out the rest of the 150 µs -/
def DrvState.settle (s : DrvState) (start : Nat) : DrvState :=
  if s.w.clock - start < 150000 then s.sleepStep (150000 - (s.w.clock - start)) else s

@[simp] theorem settle_cfg (s : DrvState) (t : Nat) : (s.settle t).cfg = s.cfg := by
  unfold DrvState.settle; split <;> rfl
@[simp] theorem settle_d (s : DrvState) (t : Nat) : (s.settle t).d = s.d := by
  unfold DrvState.settle; split <;> rfl
theorem settle_reach {b : Bool} {s0 : DrvState} (s : DrvState) (t : Nat) (h : Reach b s0 s) : Reach b s0 (s.settle t) := by
  unfold DrvState.settle; split
  · exact .sleep _ h
  · exact h

theorem cast_mod64 (x : Nat) : ((x : Int) % 64).toNat = x % 64 := by omega


/-! ### `close_rx_pipe` -/

/-- `close_rx_pipe(p)` with a pipe number outside 0..5: `IndexError`, nothing changes -/
theorem closeRxPipe_bad (p : Int) (s : DrvState) (h : p < 0 ∨ p > 5) :
    exec (closeRxPipe p) s = (.error .indexError, s) := by
  unfold closeRxPipe
  simp only [exec_bind, h, ↓reduceIte, exec_raise]

/-- `close_rx_pipe(p)`, 0 ≤ p ≤ 5 -/
theorem closeRxPipe_ok (p : Int) (s : DrvState) (hw : s.Wf) (h : 0 ≤ p ∧ p ≤ 5) (hreg : s.cfg.enRxAddr < 64) :
    ∃ s', exec (closeRxPipe p) s = (.ok (), s') ∧ Reach false s s' ∧
      s'.d = { s.d with openPipes := andNot s.cfg.enRxAddr (1 <<< p.toNat),
                        pipe0ReadAddr := if p = 0 then none else s.d.pipe0ReadAddr,
                        status := s'.d.status } ∧
      s'.cfg = { s.cfg with enRxAddr := andNot s.cfg.enRxAddr (1 <<< p.toNat) } := by
  have hb : ¬ (p < 0 ∨ p > 5) := by omega
  have hv : andNot s.cfg.enRxAddr (1 <<< p.toNat) ≤ 255 := by have := andNot_lt_64 (1 <<< p.toNat) hreg; omega
  unfold closeRxPipe
  by_cases hp : p = 0
  · subst hp
    simp only [exec_bind, hb, ↓reduceIte, exec_pure, OPEN_PIPES, exec_regRead_cfg 2 _ (by decide) (by decide),
      exec_modD', exec_getD, modShadow_d, spiStep_d', Radio.readReg, List.headD_cons,
      exec_regWrite_nat _ _ _ hv (by decide : (2:Nat) ≠ 0x50)]
    refine ⟨_, rfl, by reach_steps, ?_, ?_⟩
    · simp only [spiStep_d', modShadow_d, ↓reduceIte]
    · simp (config := {decide := true}) only [spiStep_wreg, spiStep_rreg, modShadow_cfg, spiStep_wf, modShadow_wf', hw,
        Radio.wr_enRxAddr _ _ (andNot_lt_64 _ hreg)]
  · simp only [exec_bind, hb, hp, ↓reduceIte, exec_pure, OPEN_PIPES, exec_regRead_cfg 2 _ (by decide) (by decide),
      exec_modD', exec_getD, modShadow_d, spiStep_d', Radio.readReg, List.headD_cons,
      exec_regWrite_nat _ _ _ hv (by decide : (2:Nat) ≠ 0x50)]
    refine ⟨_, rfl, by reach_steps, ?_, ?_⟩
    · simp only [spiStep_d', modShadow_d, ↓reduceIte]
    · simp (config := {decide := true}) only [spiStep_wreg, spiStep_rreg, modShadow_cfg, spiStep_wf, modShadow_wf', hw,
        Radio.wr_enRxAddr _ _ (andNot_lt_64 _ hreg)]

/-! ### `open_rx_pipe` -/

theorem openRxPipe_bad (p : Int) (addr : Bytes) (s : DrvState) (h : ¬ (0 ≤ p ∧ p ≤ 5)) :
    exec (openRxPipe p addr) s = (.error .indexError, s) := by
  unfold openRxPipe
  simp only [exec_bind, h, not_false_eq_true, ↓reduceIte, exec_raise]

/-- what an address write leaves in a 5-byte register / shadow -/
def putAddr (old new : Bytes) : Bytes := new ++ old.drop new.length

theorem overlay_eq_putAddr (old new : Bytes) (h : new.length ≤ 5) : Radio.overlay old new = putAddr old new := by
  unfold Radio.overlay putAddr
  rw [List.take_of_length_le h, Nat.min_eq_left h]

theorem putAddr_length (old new : Bytes) (ho : old.length = 5) (h : new.length ≤ 5) : (putAddr old new).length = 5 := by
  unfold putAddr; simp only [List.length_append, List.length_drop, ho]; omega

theorem putAddr_prefix (old new : Bytes) : new <+: putAddr old new := List.prefix_append _ _

/-- `open_rx_pipe(0, addr)` -/
theorem openRxPipe_0 (addr : Bytes) (s : DrvState) (hw : s.Wf) (ha : 1 ≤ addr.length ∧ addr.length ≤ 5)
    (hp0 : s.d.pipes0.length = 5) (hreg : s.cfg.enRxAddr < 64) :
    ∃ s', exec (openRxPipe 0 addr) s = (.ok (), s') ∧ Reach false s s' ∧
      s'.d = { s.d with pipe0ReadAddr := some addr, pipes0 := putAddr s.d.pipes0 addr,
                        openPipes := s.cfg.enRxAddr ||| 1, status := s'.d.status } ∧
      s'.cfg = { s.cfg with rxAddr0 := putAddr s.cfg.rxAddr0 addr, enRxAddr := s.cfg.enRxAddr ||| 1 } := by
  have hne : addr ≠ [] := by intro h; simp [h] at ha
  have hem : addr.isEmpty = false := by cases addr <;> simp at hne ⊢
  have hv1 : s.cfg.enRxAddr ||| 1 < 64 := by simpa using or_bit_lt_64 hreg 0 (by decide)
  have hv : s.cfg.enRxAddr ||| 1 ≤ 255 := by omega
  unfold openRxPipe
  have hfit : addr.length ≤ (getPipes (s.modShadow fun d => { d with pipe0ReadAddr := some addr }).d 0).length := by
    simp only [modShadow_dN, getPipes, ↓reduceIte, hp0]; exact ha.2
  simp (config := {decide := true}) only [drvx, Int.le_refl, Int.reduceLE, and_self, not_true_eq_false, ↓reduceIte, hem,
    Bool.false_eq_true, Int.toNat_zero, Nat.reduceLT, exec_assignPrefix_ok 0 addr _ hfit, Nat.add_zero,
    exec_regRead_cfg 2 _ (by decide) (by decide), Nat.shiftLeft_zero, getPipes, setPipes, hw, hne,
    Radio.wr_rxAddr0, exec_regWrite_nat _ _ _ hv (by decide : (2:Nat) ≠ 0x50)]
  refine ⟨_, rfl, by reach_steps, ?_, ?_⟩
  · simp only [spiStep_dN, modShadow_dN, putAddr]
  · simp (config := {decide := true}) only [drvx, hw, hne, Radio.wr_rxAddr0, Radio.wr_enRxAddr _ _ hv1,
      overlay_eq_putAddr _ _ ha.2]

/-- `open_rx_pipe(1, addr)` -/
theorem openRxPipe_1 (addr : Bytes) (s : DrvState) (hw : s.Wf) (ha : 1 ≤ addr.length ∧ addr.length ≤ 5)
    (hp1 : s.d.pipes1.length = 5) (hreg : s.cfg.enRxAddr < 64) :
    ∃ s', exec (openRxPipe 1 addr) s = (.ok (), s') ∧ Reach false s s' ∧
      s'.d = { s.d with pipes1 := putAddr s.d.pipes1 addr,
                        openPipes := s.cfg.enRxAddr ||| 2, status := s'.d.status } ∧
      s'.cfg = { s.cfg with rxAddr1 := putAddr s.cfg.rxAddr1 addr, enRxAddr := s.cfg.enRxAddr ||| 2 } := by
  have hne : addr ≠ [] := by intro h; simp [h] at ha
  have hem : addr.isEmpty = false := by cases addr <;> simp at hne ⊢
  have hv1 : s.cfg.enRxAddr ||| 2 < 64 := by simpa using or_bit_lt_64 hreg 1 (by decide)
  have hv : s.cfg.enRxAddr ||| 2 ≤ 255 := by omega
  unfold openRxPipe
  have hfit : addr.length ≤ (getPipes s.d 1).length := by
    simp only [getPipes, Nat.succ_ne_self, ↓reduceIte, hp1, show ¬ (1 = 0) by decide]; exact ha.2
  simp (config := {decide := true}) only [drvx, Int.reduceLE, and_self, not_true_eq_false, ↓reduceIte, hem,
    Bool.false_eq_true, Int.toNat_one, Nat.reduceLT, exec_assignPrefix_ok 1 addr _ hfit, Nat.reduceAdd,
    exec_regRead_cfg 2 _ (by decide) (by decide), Nat.reduceShiftLeft, getPipes, setPipes, hw, hne,
    Radio.wr_rxAddr1, exec_regWrite_nat _ _ _ hv (by decide : (2:Nat) ≠ 0x50)]
  refine ⟨_, rfl, by reach_steps, ?_, ?_⟩
  · simp only [spiStep_dN, modShadow_dN, putAddr]
  · simp (config := {decide := true}) only [drvx, hw, hne, Radio.wr_rxAddr1, Radio.wr_enRxAddr _ _ hv1,
      overlay_eq_putAddr _ _ ha.2]

theorem Radio.wr_rxAddrN (r : Radio) (i v : Nat) (hi : 2 ≤ i ∧ i ≤ 5) :
    r.writeReg (0x0A + i) [v] = { r with rxAddrN := r.rxAddrN.set (i - 2) v } := by
  have : i = 2 ∨ i = 3 ∨ i = 4 ∨ i = 5 := by omega
  rcases this with rfl | rfl | rfl | rfl <;> rfl

/-- `open_rx_pipe(p, addr)` for 2 ≤ p ≤ 5: only the first address byte is used -/
theorem openRxPipe_hi (p : Nat) (addr : Bytes) (s : DrvState) (hw : s.Wf) (hp : 2 ≤ p ∧ p ≤ 5)
    (ha : 1 ≤ addr.length) (hb : addr.headD 0 < 256) (hreg : s.cfg.enRxAddr < 64) :
    ∃ s', exec (openRxPipe (p : Int) addr) s = (.ok (), s') ∧ Reach false s s' ∧
      s'.d = { s.d with pipesN := s.d.pipesN.set (p - 2) (addr.headD 0),
                        openPipes := s.cfg.enRxAddr ||| (1 <<< p), status := s'.d.status } ∧
      s'.cfg = { s.cfg with rxAddrN := s.cfg.rxAddrN.set (p - 2) (addr.headD 0),
                            enRxAddr := s.cfg.enRxAddr ||| (1 <<< p) } := by
  have hne : addr ≠ [] := by intro h; simp [h] at ha
  have hem : addr.isEmpty = false := by cases addr <;> simp at hne ⊢
  have hv1 : s.cfg.enRxAddr ||| (1 <<< p) < 64 := or_bit_lt_64 hreg p hp.2
  have hv : s.cfg.enRxAddr ||| (1 <<< p) ≤ 255 := by omega
  have hh : addr.headD 0 ≤ 255 := by omega
  have h1 : (0 : Int) ≤ p ∧ (p : Int) ≤ 5 := by omega
  have h2 : ¬ p < 2 := by omega
  have h3 : 10 + p ≠ 0x50 := by omega
  have h4 : 10 + p < 0x20 := by omega
  unfold openRxPipe
  simp (config := {decide := true}) only [drvx, h1, and_self, not_true_eq_false, ↓reduceIte, hem,
    Bool.false_eq_true, Int.toNat_natCast, h2, exec_regWrite_nat _ _ _ hh h3,
    exec_regRead_cfg 2 _ (by decide) (by decide), hw, h4, Radio.wr_rxAddrN _ _ _ hp,
    exec_regWrite_nat _ _ _ hv (by decide : (2:Nat) ≠ 0x50)]
  refine ⟨_, rfl, by reach_steps, ?_, ?_⟩
  · simp only [spiStep_dN, modShadow_dN]
  · simp (config := {decide := true}) only [drvx, hw, h4, Radio.wr_rxAddrN _ _ _ hp, Radio.wr_enRxAddr _ _ hv1]

/-! ### `open_tx_pipe` -/

theorem overwritePrefix_ok (buf addr : Bytes) (h : addr.length ≤ buf.length) :
    overwritePrefix buf addr = .ok (addr ++ buf.drop addr.length) := by
  unfold overwritePrefix
  have : ¬ addr.length > buf.length := by omega
  simp only [this, ↓reduceIte]

/-- `open_tx_pipe(addr)` -/
theorem openTxPipe_ok (addr : Bytes) (s : DrvState) (hw : s.Wf) (ha : 1 ≤ addr.length ∧ addr.length ≤ 5)
    (hp0 : s.d.pipes0.length = 5) (htx : s.d.txAddress.length = 5) (hop : s.d.openPipes < 64) :
    ∃ s', exec (openTxPipe addr) s = (.ok (), s') ∧ Reach false s s' ∧
      s'.d = { s.d with
        pipes0 := if s.d.aa &&& 1 ≠ 0 then putAddr s.d.pipes0 addr else s.d.pipes0,
        openPipes := if s.d.aa &&& 1 ≠ 0 ∧ s.d.config &&& 1 = 0 ∧ s.d.openPipes &&& 1 = 0
                     then s.d.openPipes ||| 1 else s.d.openPipes,
        txAddress := putAddr s.d.txAddress addr, status := s'.d.status } ∧
      s'.cfg = { s.cfg with
        rxAddr0 := if s.d.aa &&& 1 ≠ 0 then putAddr s.cfg.rxAddr0 addr else s.cfg.rxAddr0,
        enRxAddr := if s.d.aa &&& 1 ≠ 0 ∧ s.d.config &&& 1 = 0 ∧ s.d.openPipes &&& 1 = 0
                    then s.d.openPipes ||| 1 else s.cfg.enRxAddr,
        txAddr := putAddr s.cfg.txAddr addr } := by
  have hne : addr ≠ [] := by intro h; simp [h] at ha
  have hv1 : s.d.openPipes ||| 1 < 64 := by simpa using or_bit_lt_64 hop 0 (by decide)
  have hv : s.d.openPipes ||| 1 ≤ 255 := by omega
  have hfit : addr.length ≤ (getPipes s.d 0).length := by
    simp only [getPipes, ↓reduceIte, hp0]; exact ha.2
  have htx' : addr.length ≤ s.d.txAddress.length := by omega
  unfold openTxPipe
  by_cases hA : s.d.aa &&& 1 ≠ 0
  · by_cases hB : s.d.config &&& 1 = 0 ∧ s.d.openPipes &&& 1 = 0
    · have hAB : s.d.aa &&& 1 ≠ 0 ∧ s.d.config &&& 1 = 0 ∧ s.d.openPipes &&& 1 = 0 := ⟨hA, hB⟩
      simp (config := {decide := true}) only [drvx, hA, hB, and_self, ↓reduceIte, exec_assignPrefix_ok 0 addr _ hfit,
        getPipes, setPipes, hw, hne, overwritePrefix_ok _ _ htx', Nat.add_zero,
        exec_regWrite_nat _ _ _ hv (by decide : (2:Nat) ≠ 0x50)]
      refine ⟨_, rfl, by reach_steps, ?_, ?_⟩
      · simp only [spiStep_dN, modShadow_dN, putAddr, hAB, hA, and_self, ↓reduceIte, ne_eq, not_false_eq_true]
      · simp (config := {decide := true}) only [drvx, hw, hne, Radio.wr_rxAddr0, Radio.wr_txAddr,
          Radio.wr_enRxAddr _ _ hv1, overlay_eq_putAddr _ _ ha.2, hAB, hA, and_self, ↓reduceIte]
    · have hAB : ¬ (s.d.aa &&& 1 ≠ 0 ∧ s.d.config &&& 1 = 0 ∧ s.d.openPipes &&& 1 = 0) := fun h => hB h.2
      simp (config := {decide := true}) only [drvx, hA, hB, ↓reduceIte, exec_assignPrefix_ok 0 addr _ hfit,
        getPipes, setPipes, hw, hne, overwritePrefix_ok _ _ htx', Nat.add_zero]
      refine ⟨_, rfl, by reach_steps, ?_, ?_⟩
      · simp only [spiStep_dN, modShadow_dN, putAddr, hAB, hA, ↓reduceIte, ne_eq, not_false_eq_true]
      · simp (config := {decide := true}) only [drvx, hw, hne, Radio.wr_rxAddr0, Radio.wr_txAddr,
          overlay_eq_putAddr _ _ ha.2, hAB, hA, ↓reduceIte]
  · have hAB : ¬ (s.d.aa &&& 1 ≠ 0 ∧ s.d.config &&& 1 = 0 ∧ s.d.openPipes &&& 1 = 0) := fun h => hA h.1
    simp (config := {decide := true}) only [drvx, hA, ↓reduceIte, hw, hne, overwritePrefix_ok _ _ htx']
    refine ⟨_, rfl, by reach_steps, ?_, ?_⟩
    · simp only [spiStep_dN, modShadow_dN, putAddr, hAB, hA, ↓reduceIte, false_and]
    · simp (config := {decide := true}) only [drvx, hw, hne, Radio.wr_txAddr,
        overlay_eq_putAddr _ _ ha.2, hAB, hA, ↓reduceIte, false_and]

/-! ### `auto_ack =` and `set_auto_ack` -/

/-- `auto_ack = v` for a `bool` -/
theorem setAutoAckAttr_bool (v : Bool) (s : DrvState) (hw : s.Wf) :
    ∃ s', exec (setAutoAckAttr (.b v)) s = (.ok (), s') ∧ Reach false s s' ∧
      s'.d = { s.d with aa := if v then 0x3F else 0, status := s'.d.status } ∧
      s'.cfg = { s.cfg with enAA := if v then 0x3F else 0 } := by
  have hv1 : (if v then 0x3F else 0 : Nat) < 64 := by cases v <;> decide
  have hv : (if v then 0x3F else 0 : Nat) ≤ 255 := by omega
  unfold setAutoAckAttr
  simp (config := {decide := true}) only [drvx, hw, exec_regWrite_nat _ _ _ hv (by decide : (1:Nat) ≠ 0x50)]
  refine ⟨_, rfl, by reach_steps, ?_, ?_⟩
  · simp only [spiStep_dN, modShadow_dN]
  · simp (config := {decide := true}) only [drvx, hw, Radio.wr_enAA _ _ hv1]

/-- the EN_AA value after `set_auto_ack(e, p)` -/
def aaSet (v p : Nat) (e : Bool) : Nat := andNot v (1 <<< p) ||| (b2n e <<< p)

theorem aaSet_lt_64 {v : Nat} (h : v < 64) (p : Nat) (hp : p ≤ 5) (e : Bool) : aaSet v p e < 64 := by
  unfold aaSet
  have h1 := andNot_lt_64 (1 <<< p) h
  have h2 : b2n e <<< p < 2 ^ 6 := by
    cases e
    · simp [b2n]
    · simp only [b2n, ↓reduceIte, Nat.one_shiftLeft]; exact Nat.pow_lt_pow_right (by decide) (by omega)
  exact Nat.or_lt_two_pow (n := 6) (by omega) h2

theorem setAutoAck_bad (e : Bool) (p : Int) (s : DrvState) (h : ¬ (0 ≤ p ∧ p ≤ 5)) :
    exec (setAutoAck e (some p)) s = (.error .indexError, s) := by
  unfold setAutoAck
  simp only [h, ↓reduceIte, exec_raise]

/-- `set_auto_ack(e, p)`, 0 ≤ p ≤ 5 -/
theorem setAutoAck_ok (e : Bool) (p : Nat) (s : DrvState) (hw : s.Wf) (hp : p ≤ 5) (hreg : s.cfg.enAA < 64) :
    ∃ s', exec (setAutoAck e (some (p : Int))) s = (.ok (), s') ∧ Reach false s s' ∧
      s'.d = { s.d with aa := aaSet s.cfg.enAA p e, status := s'.d.status } ∧
      s'.cfg = { s.cfg with enAA := aaSet s.cfg.enAA p e } := by
  have hv1 := aaSet_lt_64 hreg p hp e
  have hv : aaSet s.cfg.enAA p e ≤ 255 := by omega
  have h1 : (0 : Int) ≤ p ∧ (p : Int) ≤ 5 := by omega
  have hm : aaSet s.cfg.enAA p e % 64 = aaSet s.cfg.enAA p e := Nat.mod_eq_of_lt hv1
  unfold setAutoAck setAutoAckAttr
  simp (config := {decide := true}) only [drvx, hw, h1, and_self, ↓reduceIte, Int.toNat_natCast,
    exec_regRead_cfg 1 _ (by decide) (by decide), cast_mod64]
  have hfold : andNot s.cfg.enAA (1 <<< p) ||| b2n e <<< p = aaSet s.cfg.enAA p e := rfl
  simp (config := {decide := true}) only [hfold, hm, exec_regWrite_nat _ _ _ hv (by decide : (1:Nat) ≠ 0x50)]
  refine ⟨_, rfl, by reach_steps, ?_, ?_⟩
  · simp only [spiStep_dN, modShadow_dN]
  · simp (config := {decide := true}) only [drvx, hw, Radio.wr_enAA _ _ hv1]

/-! ### `listen =` -/

theorem settle_fold (X : DrvState) (start : Nat) :
    (if X.w.clock - start < 150000 then ((Except.ok () : Except PyErr Unit), X.sleepStep (150000 - (X.w.clock - start)))
      else (.ok (), X)) = (.ok (), X.settle start) := by
  unfold DrvState.settle; split <;> rfl

theorem cfg_rx_lt {c : Nat} (h : c < 128) : c &&& 0xFC ||| 3 < 128 :=
  (by decide : ∀ c : Fin 128, c.val &&& 0xFC ||| 3 < 128) ⟨c, h⟩
theorem cfg_tx_lt {c : Nat} (h : c < 128) : c &&& 0xFC ||| 2 < 128 :=
  (by decide : ∀ c : Fin 128, c.val &&& 0xFC ||| 2 < 128) ⟨c, h⟩

/-- `listen = True` when the user has a reading address for pipe 0 -/
theorem setListen_rx_some (ra : Bytes) (s : DrvState) (hw : s.Wf) (hu : s.d.pipe0ReadAddr = some ra)
    (ha : 1 ≤ ra.length ∧ ra.length ≤ 5) (hp0 : s.d.pipes0.length = 5) (hc : s.d.config < 128) :
    ∃ s', exec (setListen true) s = (.ok (), s') ∧ Reach true s s' ∧
      s'.d = { s.d with config := s.d.config &&& 0xFC ||| 3,
                        pipes0 := if ra ≠ s.d.pipes0 then putAddr s.d.pipes0 ra else s.d.pipes0,
                        status := s'.d.status } ∧
      s'.cfg = { s.cfg with ce := true, config := s.d.config &&& 0xFC ||| 3,
                            rxAddr0 := if ra ≠ s.d.pipes0 then putAddr s.cfg.rxAddr0 ra else s.cfg.rxAddr0 } := by
  have hne : ra ≠ [] := by intro h; simp [h] at ha
  have hv1 := cfg_rx_lt hc
  have hv : s.d.config &&& 0xFC ||| 3 ≤ 255 := by omega
  have hfit : ra.length ≤ (getPipes s.d 0).length := by simp only [getPipes, ↓reduceIte, hp0]; exact ha.2
  unfold setListen
  by_cases hd : ra ≠ s.d.pipes0
  · simp (config := {decide := true}) only [drvx, hw, hne, hu, hd, ↓reduceIte, b2n, exec_address0, Nat.reduceAdd,
      exec_regWrite_nat _ _ _ hv (by decide : (0:Nat) ≠ 0x50), exec_assignPrefix_ok, hp0, ha.2, getPipes, setPipes,
      Nat.add_zero, settle_fold]
    refine ⟨_, rfl, settle_reach _ _ (by reach_steps), ?_, ?_⟩
    · simp only [settle_d, spiStep_dN, modShadow_dN, ceStep_dN, putAddr, hd, hu, ↓reduceIte, ne_eq, not_false_eq_true]
    · simp (config := {decide := true}) only [settle_cfg, drvx, hw, hne, Radio.wr_config _ _ hv1, Radio.wr_rxAddr0,
        overlay_eq_putAddr _ _ ha.2, hd, ↓reduceIte, Bool.false_eq_true, false_and, List.append_nil]
  · simp (config := {decide := true}) only [drvx, hw, hne, hu, hd, ↓reduceIte, b2n, exec_address0, Nat.reduceAdd,
      exec_regWrite_nat _ _ _ hv (by decide : (0:Nat) ≠ 0x50), settle_fold]
    refine ⟨_, rfl, settle_reach _ _ (by reach_steps), ?_, ?_⟩
    · simp only [settle_d, spiStep_dN, modShadow_dN, ceStep_dN, hd, hu, ↓reduceIte]
    · simp (config := {decide := true}) only [settle_cfg, drvx, hw, Radio.wr_config _ _ hv1,
        hd, ↓reduceIte, Bool.false_eq_true, false_and, List.append_nil]

/-- `listen = True` when the user has no reading address for pipe 0 -/
theorem setListen_rx_none (s : DrvState) (hw : s.Wf) (hu : s.d.pipe0ReadAddr = none)
    (hc : s.d.config < 128) (hop : s.d.openPipes < 64) :
    ∃ s', exec (setListen true) s = (.ok (), s') ∧ Reach true s s' ∧
      s'.d = { s.d with config := s.d.config &&& 0xFC ||| 3,
                        openPipes := if s.d.openPipes &&& 1 ≠ 0 then s.d.openPipes &&& 0x3E else s.d.openPipes,
                        status := s'.d.status } ∧
      s'.cfg = { s.cfg with ce := true, config := s.d.config &&& 0xFC ||| 3,
                            enRxAddr := if s.d.openPipes &&& 1 ≠ 0 then s.d.openPipes &&& 0x3E else s.cfg.enRxAddr } := by
  have hv1 := cfg_rx_lt hc
  have hv : s.d.config &&& 0xFC ||| 3 ≤ 255 := by omega
  have ho1 : s.d.openPipes &&& 0x3E < 64 := Nat.lt_of_le_of_lt Nat.and_le_left hop
  have ho : s.d.openPipes &&& 0x3E ≤ 255 := by omega
  unfold setListen
  by_cases hd : s.d.openPipes &&& 1 ≠ 0
  · simp (config := {decide := true}) only [drvx, hw, hu, hd, ↓reduceIte, b2n, exec_address0, Nat.reduceAdd,
      exec_regWrite_nat _ _ _ hv (by decide : (0:Nat) ≠ 0x50), exec_regWrite_nat _ _ _ ho (by decide : (2:Nat) ≠ 0x50),
      settle_fold]
    refine ⟨_, rfl, settle_reach _ _ (by reach_steps), ?_, ?_⟩
    · simp only [settle_d, spiStep_dN, modShadow_dN, ceStep_dN, hd, hu, ↓reduceIte, ne_eq, not_false_eq_true]
    · simp (config := {decide := true}) only [settle_cfg, drvx, hw, Radio.wr_config _ _ hv1, Radio.wr_enRxAddr _ _ ho1,
        hd, ↓reduceIte, Bool.false_eq_true, false_and, List.append_nil]
  · simp (config := {decide := true}) only [drvx, hw, hu, hd, ↓reduceIte, b2n, exec_address0, Nat.reduceAdd,
      exec_regWrite_nat _ _ _ hv (by decide : (0:Nat) ≠ 0x50), settle_fold]
    refine ⟨_, rfl, settle_reach _ _ (by reach_steps), ?_, ?_⟩
    · simp only [settle_d, spiStep_dN, modShadow_dN, ceStep_dN, hd, hu, ↓reduceIte]
    · simp (config := {decide := true}) only [settle_cfg, drvx, hw, Radio.wr_config _ _ hv1,
        hd, ↓reduceIte, Bool.false_eq_true, false_and, List.append_nil]

/-- `listen = False` -/
theorem setListen_tx (s : DrvState) (hw : s.Wf) (hc : s.d.config < 128) (hop : s.d.openPipes < 64) :
    ∃ s', exec (setListen false) s = (.ok (), s') ∧ Reach true s s' ∧
      s'.d = { s.d with config := s.d.config &&& 0xFC ||| 2,
                        openPipes := if s.d.aa &&& 1 ≠ 0 ∧ s.d.openPipes &&& 1 = 0 then s.d.openPipes ||| 1
                                     else s.d.openPipes,
                        status := s'.d.status } ∧
      s'.cfg = { s.cfg with ce := false, config := s.d.config &&& 0xFC ||| 2,
                            enRxAddr := if s.d.aa &&& 1 ≠ 0 ∧ s.d.openPipes &&& 1 = 0 then s.d.openPipes ||| 1
                                        else s.cfg.enRxAddr } := by
  have hv1 := cfg_tx_lt hc
  have hv : s.d.config &&& 0xFC ||| 2 ≤ 255 := by omega
  have ho1 : s.d.openPipes ||| 1 < 64 := by simpa using or_bit_lt_64 hop 0 (by decide)
  have ho : s.d.openPipes ||| 1 ≤ 255 := by omega
  unfold setListen
  by_cases hF : s.d.features &&& 6 = 6 ∧ (s.d.aa &&& s.d.dynPl) &&& 1 ≠ 0
  · by_cases hO : s.d.aa &&& 1 ≠ 0 ∧ s.d.openPipes &&& 1 = 0
    · simp (config := {decide := true}) only [drvx, hw, hF, hO, and_self, ↓reduceIte, b2n, Nat.add_zero, flushTx,
        Bool.false_eq_true, exec_regWrite_nat _ _ _ hv (by decide : (0:Nat) ≠ 0x50),
        exec_regWrite_nat _ _ _ ho (by decide : (2:Nat) ≠ 0x50), settle_fold]
      refine ⟨_, rfl, settle_reach _ _ (by reach_steps), ?_, ?_⟩
      · simp only [settle_d, spiStep_dN, modShadow_dN, ceStep_dN, hO, and_self, ↓reduceIte, ne_eq, not_false_eq_true]
      · simp (config := {decide := true}) only [settle_cfg, drvx, hw, spiStep_cmd, Radio.wr_config _ _ hv1,
          Radio.wr_enRxAddr _ _ ho1, hO, and_self, ↓reduceIte, Bool.false_eq_true, false_and, List.append_nil]
    · simp (config := {decide := true}) only [drvx, hw, hF, hO, and_self, ↓reduceIte, b2n, Nat.add_zero, flushTx,
        Bool.false_eq_true, exec_regWrite_nat _ _ _ hv (by decide : (0:Nat) ≠ 0x50), settle_fold]
      refine ⟨_, rfl, settle_reach _ _ (by reach_steps), ?_, ?_⟩
      · simp only [settle_d, spiStep_dN, modShadow_dN, ceStep_dN, hO, ↓reduceIte]
      · simp (config := {decide := true}) only [settle_cfg, drvx, hw, spiStep_cmd, Radio.wr_config _ _ hv1,
          hO, ↓reduceIte, Bool.false_eq_true, false_and, List.append_nil]
  · by_cases hO : s.d.aa &&& 1 ≠ 0 ∧ s.d.openPipes &&& 1 = 0
    · simp (config := {decide := true}) only [drvx, hw, hF, hO, and_self, ↓reduceIte, b2n, Nat.add_zero,
        Bool.false_eq_true, exec_regWrite_nat _ _ _ hv (by decide : (0:Nat) ≠ 0x50),
        exec_regWrite_nat _ _ _ ho (by decide : (2:Nat) ≠ 0x50), settle_fold]
      refine ⟨_, rfl, settle_reach _ _ (by reach_steps), ?_, ?_⟩
      · simp only [settle_d, spiStep_dN, modShadow_dN, ceStep_dN, hO, and_self, ↓reduceIte, ne_eq, not_false_eq_true]
      · simp (config := {decide := true}) only [settle_cfg, drvx, hw, Radio.wr_config _ _ hv1,
          Radio.wr_enRxAddr _ _ ho1, hO, and_self, ↓reduceIte, Bool.false_eq_true, false_and, List.append_nil]
    · simp (config := {decide := true}) only [drvx, hw, hF, hO, and_self, ↓reduceIte, b2n, Nat.add_zero,
        Bool.false_eq_true, exec_regWrite_nat _ _ _ hv (by decide : (0:Nat) ≠ 0x50), settle_fold]
      refine ⟨_, rfl, settle_reach _ _ (by reach_steps), ?_, ?_⟩
      · simp only [settle_d, spiStep_dN, modShadow_dN, ceStep_dN, hO, ↓reduceIte]
      · simp (config := {decide := true}) only [settle_cfg, drvx, hw, Radio.wr_config _ _ hv1,
          hO, ↓reduceIte, Bool.false_eq_true, false_and, List.append_nil]

end Nrf
