/-
C09 helper definitions and lemmas: several driver objects sharing a world, each used inside its own
`with` block; what a block does to the world invariants.
-/
import NrfProofs.C09Enter

namespace Nrf
open Rf24 Spec

/-- the shadows stay in range when only the CONFIG shadow's PWR_UP bit and the cached STATUS change -/
theorem inRange_enter {d : Rf24} (h : InRange d) (st : Nat) :
    InRange { d with config := d.config ||| 2, status := st } :=
  ⟨or2_lt_128 h.1, h.2⟩

theorem inRange_exit {d : Rf24} (h : InRange d) (st : Nat) :
    InRange { d with config := d.config &&& 0x7D, status := st } :=
  ⟨and7D_lt_128 h.1, h.2⟩

theorem cfg_pwr_cycle {c : Nat} (h : c < 128) : (c &&& 0x7D) ||| 2 = c ||| 2 :=
  (by decide : ∀ c : Fin 128, (c.val &&& 0x7D) ||| 2 = c.val ||| 2) ⟨c, h⟩

theorem cfg_pwr_down {c : Nat} (h : c < 128) : (c &&& 0x7D) &&& 2 = 0 :=
  (by decide : ∀ c : Fin 128, (c.val &&& 0x7D) &&& 2 = 0) ⟨c, h⟩

theorem cfg_pwr_up {c : Nat} (h : c < 128) : (c ||| 2) &&& 2 = 2 :=
  (by decide : ∀ c : Fin 128, (c.val ||| 2) &&& 2 = 2) ⟨c, h⟩

/-- every radio of the world is there, has accessible feature registers and the chip's register shape -/
def WorldOk (n : Nat) (w : World) : Prop :=
  w.radios.length = n ∧ ∀ j, j < n → (w.radio j).featureVisible = true ∧ RadioShape (w.radio j)

theorem featureVisible_cfgOf (r : Radio) : r.cfgOf.featureVisible = r.featureVisible := rfl
theorem radioShape_cfgOf (r : Radio) : RadioShape r.cfgOf ↔ RadioShape r := Iff.rfl

/-- registers equal to in-range shadows have the chip's shape -/
theorem radioShape_of_shadowEq {d : Rf24} {r : Radio} (h : regsOf r = shadowRegs d) (hr : InRange d) : RadioShape r := by
  obtain ⟨_, _, _, _, _, _, _, _, _, _, hp0, hp1, htx, ⟨hpnl, _⟩, ⟨hpll, _⟩⟩ := hr
  have e0 : r.rxAddr0 = d.pipes0 := congrArg CfgRegs.rxAddr0 h
  have e1 : r.rxAddr1 = d.pipes1 := congrArg CfgRegs.rxAddr1 h
  have e2 : r.txAddr = d.txAddress := congrArg CfgRegs.txAddr h
  have e3 : r.rxAddrN = d.pipesN := congrArg CfgRegs.rxAddrN h
  have e4 : r.rxPw = d.plLen := congrArg CfgRegs.rxPw h
  unfold RadioShape
  rw [e0, e1, e2, e3, e4]
  exact ⟨hp0, hp1, htx, hpnl, hpll⟩

/-- a step that keeps the number of radios, the variant state and shape of the object's radio and
    the configuration part of all others keeps `WorldOk` -/
theorem worldOk_step {n : Nat} {w w' : World} (i : Nat) (h : WorldOk n w) (hl : w'.radios.length = w.radios.length)
    (hi : (w'.radio i).featureVisible = true ∧ RadioShape (w'.radio i))
    (hfr : ∀ j, j ≠ i → (w'.radio j).cfgOf = (w.radio j).cfgOf) : WorldOk n w' := by
  refine ⟨hl.trans h.1, fun j hj => ?_⟩
  by_cases hji : j = i
  · rw [hji]; exact hi
  · have := hfr j hji
    have h2 := h.2 j hj
    rw [← featureVisible_cfgOf, ← radioShape_cfgOf, this]
    exact h2

/-- what an object does inside its `with` block -/
structure Body where
  run : DrvState → DrvState

/-- the contract of a block body (C03's invariant, taken as a hypothesis here): from a state in
    which the object's shadows are in range and equal the registers, it ends in such a state, still
    driving the same radio, the world still in order -/
def Body.Ok (n : Nat) (b : Body) : Prop :=
  ∀ s : DrvState, s.d.rid < n → WorldOk n s.w → InRange s.d → ShadowEq s.d (s.w.radio s.d.rid) →
    (b.run s).d.rid = s.d.rid ∧ WorldOk n (b.run s).w ∧ InRange (b.run s).d ∧
    ShadowEq (b.run s).d ((b.run s).w.radio s.d.rid)

/-- several driver objects (their shadow states) sharing one world -/
structure Sys where
  objs : List Rf24
  w : World

/-- what a block shows to an observer: the register file right after `__enter__`, the register file
    at the end of the block (before `__exit__`), the object's radio after `__exit__` -/
structure BlockObs where
  entered : CfgRegs
  established : CfgRegs
  afterExit : Radio

/-- one `with` block of object `i` with body `b` -/
def Sys.block (σ : Sys) (i : Nat) (b : Body) : BlockObs × Sys :=
  let d := σ.objs.getD i default
  let s1 := (exec enter ⟨d, σ.w⟩).2
  let s2 := b.run s1
  let s3 := (exec Rf24.exit s2).2
  ({ entered := regsOf (s1.w.radio d.rid), established := regsOf (s2.w.radio d.rid), afterExit := s3.w.radio d.rid },
   { objs := σ.objs.set i s3.d, w := s3.w })

/-- C09 along a history of blocks; `est i` = the register file object `i` had established at the
    end of its latest block (`none` before its first) -/
def Holds : List (Nat × Body) → Sys → (Nat → Option CfgRegs) → Prop
  | [], _, _ => True
  | (i, b) :: rest, σ, est =>
    let r := σ.block i b
    (∀ R, est i = some R → r.1.entered = withPwr R) ∧ PoweredDown r.1.afterExit ∧
    Holds rest r.2 (fun k => if k = i then some r.1.established else est k)

/-- the invariant between blocks -/
def Good (n : Nat) (σ : Sys) (est : Nat → Option CfgRegs) : Prop :=
  WorldOk n σ.w ∧ ∀ i, i < σ.objs.length →
    (σ.objs.getD i default).rid < n ∧ InRange (σ.objs.getD i default) ∧
    ∀ R, est i = some R → shadowRegs (σ.objs.getD i default) = { R with config := R.config &&& 0x7D } ∧ R.config < 128

theorem getD_set_list (l : List Rf24) (i k : Nat) (x : Rf24) (hi : i < l.length) :
    (l.set i x).getD k default = if k = i then x else l.getD k default := by
  simp only [List.getD_eq_getElem?_getD, List.getElem?_set]
  by_cases h : i = k
  · subst h; simp [hi]
  · have : ¬ k = i := fun e => h e.symm
    simp [h, this]

/-- one block: what it shows and that the invariant survives -/
theorem block_step (n : Nat) (σ : Sys) (est : Nat → Option CfgRegs) (i : Nat) (b : Body)
    (hg : Good n σ est) (hi : i < σ.objs.length) (hb : b.Ok n) :
    (∀ R, est i = some R → (σ.block i b).1.entered = withPwr R) ∧ PoweredDown (σ.block i b).1.afterExit ∧
    Good n (σ.block i b).2 (fun k => if k = i then some (σ.block i b).1.established else est k) := by
  obtain ⟨hwo, hobj⟩ := hg
  obtain ⟨hrid, hr, hest⟩ := hobj i hi
  generalize hd : σ.objs.getD i default = d at *
  have hwf : (DrvState.mk d σ.w).Wf := by show d.rid < σ.w.radios.length; rw [hwo.1]; exact hrid
  obtain ⟨hvis, hshape⟩ := hwo.2 d.rid hrid
  -- enter
  obtain ⟨s1, hex1, hd1, hrid1, hwf1, hfr1, hlen1, hce1, hpl1, hact1, _, hvis1, _⟩ := enter_spec ⟨d, σ.w⟩ hwf hr hshape
  have hregs1 := hvis1 hvis
  have hr1 : InRange s1.d := by rw [hd1]; exact inRange_enter hr _
  have hc1 : s1.cfg = (s1.w.radio d.rid).cfgOf := by unfold DrvState.cfg; rw [hrid1]
  have hregs1' : regsOf (s1.w.radio d.rid) = shadowRegs { d with config := d.config ||| 2 } := by
    rw [hc1] at hregs1; exact hregs1
  have heq1 : ShadowEq s1.d (s1.w.radio s1.d.rid) := by
    show regsOf (s1.w.radio s1.d.rid) = shadowRegs s1.d
    rw [hrid1]
    show regsOf (s1.w.radio d.rid) = shadowRegs s1.d
    rw [hregs1', hd1]; rfl
  have hwo1 : WorldOk n s1.w := by
    refine worldOk_step d.rid hwo hlen1 ⟨?_, ?_⟩ hfr1
    · have h1 : (s1.w.radio d.rid).plus = (σ.w.radio d.rid).plus := by rw [hc1] at hpl1; exact hpl1
      have h2 : (s1.w.radio d.rid).activated = (σ.w.radio d.rid).activated := by rw [hc1] at hact1; exact hact1
      unfold Radio.featureVisible; rw [h1, h2]; exact hvis
    · exact radioShape_of_shadowEq hregs1' (inRange_enter hr d.status)
  -- body
  obtain ⟨hrid2, hwo2, hr2, heq2⟩ := hb s1 (by rw [hrid1]; exact hrid) hwo1 hr1 heq1
  generalize hs2 : b.run s1 = s2 at *
  rw [hrid1] at hrid2 heq2
  have hwf2 : s2.Wf := by show s2.d.rid < s2.w.radios.length; rw [hwo2.1, hrid2]; exact hrid
  -- exit
  obtain ⟨s3, hex3, hd3, hrid3, hwf3, hfr3, hlen3, hcfg3⟩ := exit_spec s2 hwf2 hr2.1
  have hc3 : s3.cfg = (s3.w.radio d.rid).cfgOf := by unfold DrvState.cfg; rw [hrid3, hrid2]
  have hc2 : s2.cfg = (s2.w.radio d.rid).cfgOf := by unfold DrvState.cfg; rw [hrid2]
  have hblock : σ.block i b = (BlockObs.mk (regsOf (s1.w.radio d.rid)) (regsOf (s2.w.radio d.rid)) (s3.w.radio d.rid),
      Sys.mk (σ.objs.set i s3.d) s3.w) := by
    unfold Sys.block
    simp only [hd, hex1, hs2, hex3]
  rw [hblock]
  have hR2 : regsOf (s2.w.radio d.rid) = shadowRegs s2.d := heq2
  have hleft : (s3.w.radio d.rid).cfgOf = { (s2.w.radio d.rid).cfgOf with ce := false, config := s2.d.config &&& 0x7D } := by
    rw [← hc3, hcfg3, hc2]
  refine ⟨?_, ?_, ?_, ?_⟩
  · intro R hR
    obtain ⟨h1, h2⟩ := hest R hR
    show regsOf (s1.w.radio d.rid) = withPwr R
    rw [hregs1']
    have : shadowRegs { d with config := d.config ||| 2 } = { shadowRegs d with config := d.config ||| 2 } := rfl
    rw [this, h1]
    have hdc : d.config = R.config &&& 0x7D := congrArg CfgRegs.config h1
    rw [hdc, cfg_pwr_cycle h2]
    rfl
  · constructor
    · have : (s3.w.radio d.rid).cfgOf.ce = false := by rw [hleft]
      exact this
    · have : (s3.w.radio d.rid).cfgOf.config = s2.d.config &&& 0x7D := by rw [hleft]
      show (s3.w.radio d.rid).cfgOf.config &&& 2 = 0
      rw [this]; exact cfg_pwr_down hr2.1
  · -- world after exit
    refine worldOk_step d.rid hwo2 hlen3 ⟨?_, ?_⟩ (by rw [← hrid2]; exact hfr3)
    · have h2 := (hwo2.2 d.rid hrid).1
      rw [← featureVisible_cfgOf, hleft]
      exact h2
    · have h2 := (hwo2.2 d.rid hrid).2
      rw [← radioShape_cfgOf, hleft]
      exact h2
  · intro k hk
    have hk' : k < σ.objs.length := by simpa using hk
    simp only [getD_set_list _ _ _ _ hi]
    by_cases hki : k = i
    · simp only [hki, ↓reduceIte]
      refine ⟨by rw [hrid3, hrid2]; exact hrid, by rw [hd3]; exact inRange_exit hr2 _, ?_⟩
      intro R hR
      have hR' : R = regsOf (s2.w.radio d.rid) := by cases hR; rfl
      rw [hR', hR2, hd3]
      exact ⟨rfl, hr2.1⟩
    · simp only [hki, ↓reduceIte]
      exact hobj k hk'

/-- C09 along every history of blocks -/
theorem holds_of_good (n : Nat) (blocks : List (Nat × Body)) :
    ∀ (σ : Sys) (est : Nat → Option CfgRegs), Good n σ est →
      (∀ ib ∈ blocks, ib.1 < σ.objs.length ∧ ib.2.Ok n) → Holds blocks σ est := by
  induction blocks with
  | nil => intro _ _ _ _; trivial
  | cons ib rest ih =>
    intro σ est hg hbl
    obtain ⟨i, b⟩ := ib
    obtain ⟨hi, hb⟩ := hbl (i, b) (List.mem_cons_self)
    obtain ⟨h1, h2, h3⟩ := block_step n σ est i b hg hi hb
    refine ⟨h1, h2, ih _ _ h3 ?_⟩
    intro ib' hib'
    have := hbl ib' (List.mem_cons_of_mem _ hib')
    have hlen : (σ.block i b).2.objs.length = σ.objs.length := by
      unfold Sys.block; simp
    rw [hlen]; exact this

end Nrf
