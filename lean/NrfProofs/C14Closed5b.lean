/-
C14, closed system, part 5b: `send(buf, send_only=True)` with auto-acknowledgement off on pipe 0 (the
multicast path) appends **exactly one record** to the air log: one attempt, reported sent, carrying the
packet `s.packet buf`.  `l3_send_noack` (NrfProofs/C14Closed1.lean) with the air clause: the same
derivation over triples that also carry the air log (`RunWA`); every step of a `Run` triple whose
computation is "air kept" (`AK`, NrfProofs/C14Closed5.lean) lifts with the log unchanged, the
`W_TX_PAYLOAD` transaction happens with CE low (no cycle), the CE edge runs the one cycle
(`setCE_transmit_noack`).
-/
import NrfProofs.C14Closed5

set_option linter.unusedSimpArgs false
set_option linter.unusedVariables false

namespace Nrf.L3
open Nrf Nrf.Rf24

/-- like `RunW`, with the air log: started with the log `A`, the computation ends with a log satisfying `Q` -/
def RunWA {α} (w0 : World) (A : List AirRec) (m : DrvM α) (d : Rf24) (r : Radio)
    (Q : α → Rf24 → Radio → World → List AirRec → Prop) : Prop :=
  ∀ s, Snap s d r w0 → s.w.air = A →
    ∃ a s' d' r' w1, exec m s = (.ok a, s') ∧ Snap s' d' r' w1 ∧ Q a d' r' w1 s'.w.air

theorem RunWA.bind {α β} {w0 : World} {A : List AirRec} {d : Rf24} {r : Radio} {m : DrvM α} {f : α → DrvM β}
    {Q1 : α → Rf24 → Radio → World → List AirRec → Prop} {Q2 : β → Rf24 → Radio → World → List AirRec → Prop}
    (h1 : RunWA w0 A m d r Q1)
    (h2 : ∀ a d' r' w1 A1, Q1 a d' r' w1 A1 → RunWA w1 A1 (f a) d' r' Q2) : RunWA w0 A (m >>= f) d r Q2 := by
  intro s hs hA
  obtain ⟨a, s1, d1, r1, w1, e1, S1, q1⟩ := h1 s hs hA
  obtain ⟨b, s2, d2, r2, w2, e2, S2, q2⟩ := h2 a d1 r1 w1 s1.w.air q1 s1 S1 rfl
  refine ⟨b, s2, d2, r2, w2, ?_, S2, q2⟩
  rw [exec_bind, e1]
  exact e2

theorem RunWA.pure {α} {w0 : World} {A : List AirRec} {d : Rf24} {r : Radio}
    {Q : α → Rf24 → Radio → World → List AirRec → Prop} (a : α)
    (h : Q a d r w0 A) : RunWA w0 A (pure a : DrvM α) d r Q :=
  fun s hs hA => ⟨a, s, d, r, w0, rfl, hs, hA ▸ h⟩

theorem RunWA.conseq {α} {w0 : World} {A : List AirRec} {d : Rf24} {r : Radio} {m : DrvM α}
    {Q Q' : α → Rf24 → Radio → World → List AirRec → Prop}
    (h : RunWA w0 A m d r Q) (hq : ∀ a d' r' w1 A1, Q a d' r' w1 A1 → Q' a d' r' w1 A1) : RunWA w0 A m d r Q' := by
  intro s hs hA
  obtain ⟨a, s1, d1, r1, w1, e1, S1, q1⟩ := h s hs hA
  exact ⟨a, s1, d1, r1, w1, e1, S1, hq _ _ _ _ _ q1⟩

theorem RunWA.start {α} {m : DrvM α} {s : DrvState} {Q : α → Rf24 → Radio → World → List AirRec → Prop} (hw : s.Wf)
    (h : RunWA s.w s.w.air m s.d s.radio Q) :
    ∃ a s' w1, exec m s = (.ok a, s') ∧ Snap s' s'.d s'.radio w1 ∧ Q a s'.d s'.radio w1 s'.w.air := by
  obtain ⟨a, s', d', r', w1, e, S, q⟩ := h s (snap_self s hw) rfl
  refine ⟨a, s', w1, e, ?_, ?_⟩
  · rw [S.radio_eq, S.d_eq]; exact S
  · rw [S.radio_eq, S.d_eq]; exact q

/-- a `Run` triple of an air-keeping computation, started with an empty TX FIFO -/
theorem Run.toWA {α} {w0 : World} {A : List AirRec} {d : Rf24} {r : Radio} {m : DrvM α} {Q : α → Rf24 → Radio → Prop}
    (h : Run w0 m d r Q) (hk : AK m) (ht : r.txFifo = []) :
    RunWA w0 A m d r (fun a d' r' w1 A1 => w0 = w1 ∧ A1 = A ∧ Q a d' r') := by
  intro s hs hA
  obtain ⟨a, s1, d1, r1, e1, S1, q1⟩ := h s hs
  have hair := (hk s (by rw [hs.radio_eq]; exact ht)).2.2
  rw [e1] at hair
  exact ⟨a, s1, d1, r1, w0, e1, S1, rfl, hair.trans hA, q1⟩

/-- an SPI write transaction after which the radio is not in TX mode (CE low): also `W_TX_PAYLOAD` -/
theorem runWA_cmdBytes {w0 : World} {A : List AirRec} {d : Rf24} {r : Radio} (reg : Nat) (b : Bytes)
    (hidle : (r.xfer ((0x20 ||| reg) :: b)).1.txFifo = [] ∨ (r.xfer ((0x20 ||| reg) :: b)).1.txMode = false) :
    RunWA w0 A (regWriteBytes reg b) d r
      (fun _ d' r' w1 A1 => w0 = w1 ∧ A1 = A ∧ { d with status := r.status } = d' ∧
        (r.xfer ((0x20 ||| reg) :: b)).1 = r') := by
  intro s hs hA
  obtain ⟨a, s1, d1, r1, e1, S1, q1, q2⟩ := run_cmdBytes reg b hidle s hs
  have hair : (exec (regWriteBytes reg b) s).2.w.air = s.w.air := by
    unfold Rf24.regWriteBytes
    rw [exec_bind, exec_xfer]
    show (s.w.spi s.d.rid ((0x20 ||| reg) :: b)).1.air = s.w.air
    have hr : s.w.radio s.d.rid = r := by rw [hs.d_eq]; exact hs.radio
    exact spi_air_idle s.w s.d.rid _ hs.swf (by rw [hr]; exact hidle)
  rw [e1] at hair
  exact ⟨a, s1, d1, r1, w0, e1, S1, rfl, hair.trans hA, q1, q2⟩

theorem AK.pollFlags : ∀ f, AK (pollFlags f)
  | 0 => AK.raise _
  | f + 1 => by
    rw [Rf24.pollFlags]
    exact AK.bind AK.getD (fun _ => AK.ite _ (AK.bind AK.update (fun _ => AK.pollFlags f)) (AK.pure _))

theorem AK.forceRetry0 (so : Bool) (f : Nat) (res : SendRes) : AK (forceRetryLoop so (f + 1) 0 res) := by
  cases res <;>
  · rw [forceRetryLoop]
    simp only [bne_self_eq_false, Bool.false_and, Bool.false_eq_true, ↓reduceIte]
    exact AK.pure _

/-- CE high on a transmitter with one payload queued, no acknowledgement awaited: the one transmit cycle,
    one record on the air -/
theorem runWA_transmit_noack {w0 : World} {A : List AirRec} {d : Rf24} {r : Radio} (e : TxEntry)
    (hf : w0.faults = []) (hfifo : r.txFifo = [e]) (hkind : e.kind = .payload) (hpwr : r.pwrUp = true)
    (hrole : r.primRx = false) (hfl : r.flags &&& 0x10 = 0) (haw : r.awaitsAck e = false) :
    RunWA w0 A (setCE true) d r (fun _ d' r' w1 A1 => d = d' ∧
      (({ r with ce := true } : Radio).takePid e).txDoneNoAck [] = r' ∧
      w1.faults = [] ∧ w1.radios.length = w0.radios.length ∧
      (∀ i, i ≠ d.rid → w1.radio i = ((w0.radio i).receive (r.packetFor e)).1) ∧
      A1 = A ++ [{ sender := d.rid, pkt := r.packetFor e, attempts := 1, ok := true }]) := by
  intro s hs hA
  obtain ⟨hd, hwf, hr, ho, hfl', hl⟩ := hs
  have ha : s.d.rid < s.w.radios.length := by rw [hd, hl]; exact hwf
  have hr' : s.w.radio s.d.rid = r := by rw [hd]; exact hr
  obtain ⟨h1, h2, h3, h4, h5⟩ := setCE_transmit_noack s.w s.d.rid e ha (hfl'.trans hf) (by rw [hr']; exact hfifo) hkind
    (by rw [hr']; exact hpwr) (by rw [hr']; exact hrole) (by rw [hr']; exact hfl) (by rw [hr']; exact haw)
  rw [hr'] at h1 h4 h5
  refine ⟨(), { s with w := s.w.setCE s.d.rid true }, d, _, s.w.setCE s.d.rid true, exec_setCE true s,
    ⟨hd, by rw [h3, hl]; exact hwf, by rw [← hd]; exact h1, fun _ _ => rfl, rfl, rfl⟩,
    rfl, rfl, h2, h3.trans hl, ?_, ?_⟩
  · intro i hi
    rw [h4 i (by rw [hd]; exact hi), ho i hi]
  · show (s.w.setCE s.d.rid true).air = _
    rw [h5, hA, hd]

/-- `write(buf)`, auto-ack off on pipe 0, CE low, empty TX FIFO, loss-free: one record -/
theorem runWA_write_noack {w0 : World} {A : List AirRec} {d : Rf24} {r : Radio} (buf : Bytes)
    (hl1 : 1 ≤ buf.length) (hl32 : buf.length ≤ 32) (hdyn : d.dynPl &&& 1 ≠ 0)
    (hce : r.ce = false) (ht : r.txFifo = []) (hp : r.rxPNo ≤ 7)
    (hf : w0.faults = []) (hpwr : r.pwrUp = true) (hrole : r.primRx = false)
    (haa : r.enAA = 0x3E) :
    RunWA w0 A (write buf false) d r (fun a d' r' w1 A1 =>
      a = (true, buf) ∧ d' = { d with status := ({ r with flags := 0 } : Radio).status } ∧
      r' = sentRadio r ∧
      w1.faults = [] ∧ w1.radios.length = w0.radios.length ∧
      (∀ i, i ≠ d.rid → w1.radio i = ((w0.radio i).receive (r.packetFor { kind := .payload, data := buf })).1) ∧
      A1 = A ++ [{ sender := d.rid, pkt := r.packetFor { kind := .payload, data := buf }, attempts := 1, ok := true }]) := by
  unfold write
  refine RunWA.bind (run_getD.toWA AK.getD ht) ?_
  rintro _ _ _ _ _ ⟨rfl, rfl, rfl, rfl, rfl⟩
  have hlen : ¬ (d.dynPl &&& 1 ≠ 0 ∧ (buf.isEmpty = true ∨ buf.length > 32)) := by
    rintro ⟨_, h | h⟩
    · cases buf <;> simp at h hl1
    · omega
  simp only [hlen, hdyn, ↓reduceIte]
  -- clear_status_flags()
  have hcs : (clearStatusFlags : DrvM Unit) = regWrite 7 ((0x70 : Nat) : Int) := rfl
  rw [hcs]
  refine RunWA.bind ((run_regWrite 7 0x70 (by decide) (by decide) ht).toWA (AK.regWrite _ _ (by decide)) ht) ?_
  rintro _ _ _ _ _ ⟨rfl, rfl, rfl, rfl⟩
  have hclr : r.writeReg 7 [0x70] = { r with flags := 0 } := by simp [Radio.writeReg]
  rw [hclr]
  refine RunWA.bind (run_getD.toWA AK.getD ht) ?_
  rintro _ _ _ _ _ ⟨rfl, rfl, rfl, rfl, rfl⟩
  have hst1 : ¬ (r.status &&& 1 ≠ 0) := by rw [(status_bits r ht hp).1]; simp
  simp only [hst1, ↓reduceIte]
  -- W_TX_PAYLOAD
  have hreg : (160 ||| b2n false <<< 4) = 0xA0 := by decide
  rw [hreg]
  have hbne : buf ≠ [] := by intro h; rw [h] at hl1; simp at hl1
  have hx : ({ r with flags := 0 } : Radio).xfer ((0x20 ||| 0xA0) :: buf) = _ :=
    xfer_wTx ({ r with flags := 0 } : Radio) buf ht hbne
  rw [List.take_of_length_le hl32] at hx
  refine RunWA.bind (runWA_cmdBytes 0xA0 buf (Or.inr (by rw [hx]; simp [Radio.txMode, hce]))) ?_
  rintro _ _ _ _ _ ⟨rfl, rfl, rfl, rfl⟩
  rw [hx]
  simp only [Bool.not_false, ↓reduceIte]
  -- CE high
  have haw : ({ r with flags := 0, txFifo := [{ kind := .payload, data := buf }] } : Radio).awaitsAck
      { kind := .payload, data := buf } = false := by
    simp [Radio.awaitsAck, Radio.bit, haa]
  refine RunWA.bind (runWA_transmit_noack { kind := .payload, data := buf } hf rfl rfl hpwr hrole
    (Nat.zero_and 16) haw) ?_
  rintro _ _ _ _ _ ⟨rfl, rfl, hf1, hlen1, ho1, rfl⟩
  rw [txDoneNoAck_shape ({ r with flags := 0, txFifo := [{ kind := .payload, data := buf }] } : Radio) _]
  exact RunWA.pure _ ⟨rfl, rfl, by first | rfl | simp, hf1, hlen1, ho1, rfl⟩

/-- the part of `send` after the flushes, same situation: `True`, one record -/
theorem runWA_sendTail_noack {w0 : World} {A : List AirRec} {d : Rf24} {r : Radio} (buf : Bytes)
    (hl1 : 1 ≤ buf.length) (hl32 : buf.length ≤ 32) (hdyn : d.dynPl &&& 1 ≠ 0)
    (hce : r.ce = false) (ht : r.txFifo = []) (hp : r.rxPNo ≤ 7)
    (hf : w0.faults = []) (hpwr : r.pwrUp = true) (hrole : r.primRx = false)
    (haa : r.enAA = 0x3E) :
    RunWA w0 A (sendTail buf) d r (fun a d' r' w1 A1 =>
      a = (.bool true, buf) ∧ (∃ st, d' = { d with status := st }) ∧
      r' = sentRadio r ∧
      w1.faults = [] ∧ w1.radios.length = w0.radios.length ∧
      (∀ i, i ≠ d.rid → w1.radio i = ((w0.radio i).receive (r.packetFor { kind := .payload, data := buf })).1) ∧
      A1 = A ++ [{ sender := d.rid, pkt := r.packetFor { kind := .payload, data := buf }, attempts := 1, ok := true }]) := by
  unfold sendTail
  refine RunWA.bind (run_getD.toWA AK.getD ht) ?_
  rintro _ _ _ _ _ ⟨rfl, rfl, rfl, rfl, rfl⟩
  refine RunWA.bind (runWA_write_noack buf hl1 hl32 hdyn hce ht hp hf hpwr hrole haa) ?_
  rintro _ _ _ w1 A1 ⟨rfl, rfl, rfl, hf1, hlen1, ho1, hA1⟩
  have h0 : ({ r with flags := 0 } : Radio).status &&& 0x30 = 0 :=
    (status_bits ({ r with flags := 0 } : Radio) ht hp).2.1.trans (Nat.zero_and _)
  have hb2 := status_bits (sentRadio r) rfl hp
  have h1 : (sentRadio r).status &&& 0x30 ≠ 0 := by rw [hb2.2.1]; show (0x20 : Nat) &&& 0x30 ≠ 0; decide
  have h2 : decide ((sentRadio r).status &&& 32 ≠ 0) = true := by rw [hb2.2.2]; show decide ((0x20 : Nat) &&& 32 ≠ 0) = true; decide
  unfold POLL_FUEL
  refine RunWA.bind ((run_poll_once 6 h0 h1 rfl).toWA (AK.pollFlags _) rfl) ?_
  rintro _ _ _ _ _ ⟨rfl, rfl, rfl, rfl⟩
  refine RunWA.bind (run_getD.toWA AK.getD rfl) ?_
  rintro _ _ _ _ _ ⟨rfl, rfl, rfl, rfl, rfl⟩
  simp only [h2]
  refine RunWA.bind ((run_forceRetry0 true _ _).toWA (AK.forceRetry0 _ _ _) rfl) ?_
  rintro _ _ _ _ _ ⟨rfl, rfl, rfl, rfl, rfl⟩
  refine RunWA.bind (run_getD.toWA AK.getD rfl) ?_
  rintro _ _ _ _ _ ⟨rfl, rfl, rfl, rfl, rfl⟩
  exact RunWA.pure _ ⟨rfl, ⟨_, rfl⟩, rfl, hf1, hlen1, ho1, hA1⟩

/-- **`send(buf, send_only=True)` with auto-acknowledgement off on pipe 0, with the air log**: the
    conclusion of `l3_send_noack`, and **exactly one record** was appended to the air log — the packet
    `s.packet buf`, one attempt, reported sent. -/
theorem l3_send_noack_air (s : DrvState) (L : LinkCfg) (P : List Bytes) (ce : Bool) (buf : Bytes) (hw : s.Wf)
    (hN : NodeRadio L P false ce 0x3E s.d s.radio)
    (hl1 : 1 ≤ buf.length) (hl32 : buf.length ≤ 32) (hflt : s.w.faults = []) :
    ∃ s', exec (Rf24.send buf false false 0 true) s = (.ok (.bool true, buf), s') ∧
      s'.d.rid = s.d.rid ∧ s'.w.radios.length = s.w.radios.length ∧ s'.w.faults = [] ∧
      (∀ i, i ≠ s.d.rid → s'.w.radio i = ((s.w.radio i).receive (s.packet buf)).1) ∧
      NodeRadio L P false true 0x3E s'.d s'.radio ∧ s'.radio.rxFifo = s.radio.rxFifo ∧
      s'.radio.lastRx = s.radio.lastRx ∧ s'.radio.rxAddr0 = s.radio.rxAddr0 ∧
      s'.radio.txAddr = s.radio.txAddr ∧
      (s.packet buf).pid = s.radio.nextPid ∧ s'.radio.nextPid = (s.radio.nextPid + 1) % 4 ∧
      s'.w.air = s.w.air ++ [{ sender := s.d.rid, pkt := s.packet buf, attempts := 1, ok := true }] := by
  obtain ⟨h1, h2, h3, h4, h5, h6, h7, h8, h9, h10, h11, h12, h13, h14, h15, h16, h17, h18, h19, h20, h21, h22,
    h23, h24, h25, h26, h27, h28, h29⟩ := hN
  have key : RunWA s.w s.w.air (Rf24.send buf false false 0 true) s.d s.radio (fun a d' r' w1 A1 =>
      a = (.bool true, buf) ∧ d'.rid = s.d.rid ∧ w1.radios.length = s.w.radios.length ∧ w1.faults = [] ∧
      (∀ i, i ≠ s.d.rid → w1.radio i = ((s.w.radio i).receive (s.packet buf)).1) ∧
      NodeRadio L P false true 0x3E d' r' ∧ r'.rxFifo = s.radio.rxFifo ∧ r'.lastRx = s.radio.lastRx ∧
      r'.rxAddr0 = s.radio.rxAddr0 ∧ r'.txAddr = s.radio.txAddr ∧
      r'.nextPid = (s.radio.nextPid + 1) % 4 ∧
      A1 = s.w.air ++ [{ sender := s.d.rid, pkt := s.packet buf, attempts := 1, ok := true }]) := by
    have hp : s.radio.rxPNo ≤ 7 := by
      unfold Radio.rxPNo
      cases hfifo : s.radio.rxFifo with
      | nil => exact Nat.le_refl 7
      | cons e rest => exact Nat.le_trans (h29 e (by rw [hfifo]; exact List.mem_cons_self)) (by decide)
    have tail : ∀ (st : Nat) (tf : List TxEntry), tf = [] →
        RunWA s.w s.w.air (sendTail buf) { s.d with status := st } { s.radio with ce := false, txFifo := tf }
          (fun a d' r' w1 A1 =>
            a = (.bool true, buf) ∧ d'.rid = s.d.rid ∧ w1.radios.length = s.w.radios.length ∧ w1.faults = [] ∧
            (∀ i, i ≠ s.d.rid → w1.radio i = ((s.w.radio i).receive (s.packet buf)).1) ∧
            NodeRadio L P false true 0x3E d' r' ∧ r'.rxFifo = s.radio.rxFifo ∧ r'.lastRx = s.radio.lastRx ∧
            r'.rxAddr0 = s.radio.rxAddr0 ∧ r'.txAddr = s.radio.txAddr ∧
            r'.nextPid = (s.radio.nextPid + 1) % 4 ∧
            A1 = s.w.air ++ [{ sender := s.d.rid, pkt := s.packet buf, attempts := 1, ok := true }]) := by
      intro st tf htf
      subst htf
      refine (runWA_sendTail_noack (d := { s.d with status := st }) (r := { s.radio with ce := false, txFifo := [] }) buf hl1 hl32
        (by rw [h15]; decide) rfl rfl hp hflt
        (by simp [Radio.pwrUp, h2]) h3 h9).conseq ?_
      rintro _ _ _ w1 A1 ⟨rfl, ⟨st', rfl⟩, rfl, hf1, hlen1, ho1, hA1⟩
      exact ⟨rfl, rfl, hlen1, hf1, ho1, ⟨h1, h2, h3, rfl, h5, h6, h7, h8, h9, h10, h11, h12, h13, h14, h15, h16,
        h17, h18, h19, h20, h21, h22, h23, h24, h25, rfl, h27, h28, h29⟩, rfl, rfl, rfl, rfl, rfl, hA1⟩
    unfold Rf24.send
    simp only [Bool.not_true, Bool.false_eq_true, false_and, and_false, ↓reduceIte]
    refine RunWA.bind ((run_setCE false (Or.inl h26)).toWA (AK.setCE _) h26) ?_
    rintro _ _ _ _ _ ⟨rfl, rfl, rfl, rfl⟩
    refine RunWA.bind (run_getD.toWA AK.getD h26) ?_
    rintro _ _ _ _ _ ⟨rfl, rfl, rfl, rfl, rfl⟩
    split
    · unfold flushTx
      refine RunWA.bind ((run_regCmd 0xE1 (Or.inl (by rw [xfer_flushTx]))).toWA (AK.regCmd _ (by decide)) h26) ?_
      rintro _ _ _ _ _ ⟨rfl, rfl, rfl, rfl⟩
      rw [xfer_flushTx]
      exact tail _ [] rfl
    · exact tail s.d.status s.radio.txFifo h26
  obtain ⟨_, s', w1, e, S, rfl, q1, q2, q3, q4, q5, q6, q7, q8, q9, q10, q11⟩ := key.start hw
  refine ⟨s', e, q1, S.len.trans q2, S.faults.trans q3, ?_, q5, q6, q7, q8, q9, rfl, q10, q11⟩
  intro i hi
  rw [S.others i (by rw [q1]; exact hi)]
  exact q4 i hi

end Nrf.L3
