/-
C08: acknowledgement reception.  Air-level core: a transmitter whose pipe 0 is open on its TX
address (`canHear`) gets its packet acknowledged on the first attempt when a peer radio listens on
that address, acknowledges and has room, under the loss-free fault list.
-/
import NrfProofs.C08Inv

set_option linter.unusedSimpArgs false

namespace Nrf
open Rf24 Spec

namespace Radio

/-- the ACK-reception condition of the transmitter (Air.lean, `attemptLoop`) -/
def canHear (r : Radio) : Bool := bit r.enRxAddr 0 && r.rxAddr0.take r.aw == r.txAddr.take r.aw

/-- a peer that takes the packet on an auto-ack pipe and has room (or sees a duplicate) acknowledges -/
theorem receive_acks (p : Radio) (k : Packet) (q : Nat) (h1 : p.listensTo k = some q) (h2 : k.esb = true)
    (h3 : bit p.enAA q = true) (h4 : k.noAck = false) (h5 : p.rxFifo.length < 3) :
    (p.receive k).2.isSome = true := by
  unfold receive
  rw [h1]
  simp only [h2, h3, h4, Bool.true_and, Bool.not_false, Bool.and_true]
  have h5' : ¬ (p.rxFifo.length ≥ 3) := by omega
  by_cases hdup : (p.lastRx == some { pid := k.pid, addr := k.addr, data := k.data }) = true
  · simp [hdup]
  · simp only [hdup, Bool.not_false, Bool.true_and, decide_eq_true_eq, h5', ↓reduceIte, Bool.false_eq_true,
      Bool.not_true]
    split
    · rfl
    · split <;> rfl

end Radio

namespace World

theorem radio_eq_getElem (w : World) (i : Nat) (h : i < w.radios.length) : w.radio i = w.radios[i] := by
  unfold radio
  simp [List.getD_eq_getElem?_getD, List.getElem?_eq_getElem h]

/-- the transmitter itself is not touched by the delivery of its own packet -/
theorem deliver_radio_self (w : World) (s : Nat) (k : Packet) : (w.deliver s k).1.radio s = w.radio s := by
  unfold deliver deliverEach radio
  simp only [List.getD_eq_getElem?_getD, List.map_map, List.getElem?_map, List.getElem?_zipIdx]
  cases h : w.radios[s]? with
  | none => simp
  | some r => simp

theorem deliver_faults (w : World) (s : Nat) (k : Packet) : (w.deliver s k).1.faults = w.faults := rfl
theorem deliver_length (w : World) (s : Nat) (k : Packet) : (w.deliver s k).1.radios.length = w.radios.length := by
  unfold deliver deliverEach; simp

/-- some acknowledgement comes back when a radio other than the sender acknowledges -/
theorem deliver_ack (w : World) (s b : Nat) (k : Packet) (hb : b < w.radios.length) (hbs : b ≠ s)
    (hack : ((w.radio b).receive k).2.isSome = true) : (w.deliver s k).2.isSome = true := by
  unfold deliver
  simp only
  have hmem : ((w.radio b).receive k) ∈ w.deliverEach s k := by
    unfold deliverEach
    rw [List.mem_map]
    refine ⟨(w.radios[b], b), ?_, ?_⟩
    · rw [List.mem_iff_getElem]
      refine ⟨b, by simpa using hb, ?_⟩
      simp
    · simp only [hbs, ↓reduceIte]
      rw [radio_eq_getElem w b hb]
  obtain ⟨x, hx⟩ := Option.isSome_iff_exists.mp hack
  have hin : x ∈ (w.deliverEach s k).filterMap (·.2) := by
    rw [List.mem_filterMap]
    exact ⟨_, hmem, hx⟩
  cases hl : (w.deliverEach s k).filterMap (·.2) with
  | nil => rw [hl] at hin; cases hin
  | cons y ys => rfl

/-- first attempt of the acknowledged cycle succeeds -/
theorem attemptLoop_first (s : Nat) (k : Packet) (left made : Nat) (w : World) (hf : w.faults = [])
    (hcan : (w.radio s).canHear = true) (hack : (w.deliver s k).2.isSome = true) :
    attemptLoop s k (left + 1) made w = ((w.deliver s k).1, made + 1, (w.deliver s k).2) ∧
    (w.deliver s k).2.isSome = true := by
  refine ⟨?_, hack⟩
  unfold attemptLoop
  have hnf : w.nextFault = (w, .delivered) := by unfold nextFault; rw [hf]
  simp only [hnf]
  obtain ⟨x, hx⟩ := Option.isSome_iff_exists.mp hack
  have hc : (Radio.bit ((w.deliver s k).1.radio s).enRxAddr 0 &&
      ((w.deliver s k).1.radio s).rxAddr0.take ((w.deliver s k).1.radio s).aw ==
        ((w.deliver s k).1.radio s).txAddr.take ((w.deliver s k).1.radio s).aw) = true := by
    rw [deliver_radio_self]; exact hcan
  simp only [hx, hc, ↓reduceIte]

end World
end Nrf

namespace Nrf
open Rf24 Spec
namespace World

theorem updRadio_radio_self (w : World) (s : Nat) (f : Radio → Radio) (hs : s < w.radios.length) :
    (w.updRadio s f).radio s = f (w.radio s) := by
  unfold updRadio; rw [radio_setRadio]; simp [hs]

theorem updRadio_radio_other (w : World) (s j : Nat) (f : Radio → Radio) (hj : j ≠ s) :
    (w.updRadio s f).radio j = w.radio j := by
  unfold updRadio; rw [radio_setRadio]; simp [hj]

theorem updRadio_length (w : World) (s : Nat) (f : Radio → Radio) : (w.updRadio s f).radios.length = w.radios.length := by
  unfold updRadio setRadio; simp

theorem stamp_radio (w : World) (s t : Nat) (a : AirRec) (j : Nat) : (w.stamp s t a).radio j = w.radio j := rfl

/-- an acknowledged transmit cycle under the loss-free fault list, with a peer that acknowledges and
    a transmitter that can hear it: one attempt, TX_DS -/
theorem cycle_acked (w : World) (a b : Nat) (e : TxEntry) (rest : List TxEntry) (ha : a < w.radios.length)
    (hf : w.faults = []) (haw : (w.radio a).awaitsAck e = true) (hcan : (w.radio a).canHear = true)
    (hb : b < w.radios.length) (hba : b ≠ a)
    (hack : ((w.radio b).receive ((w.radio a).packetFor e)).2.isSome = true) :
    ∃ x, (w.cycle a e rest).radio a = (((w.radio a).takePid e).txDoneAcked rest 1 x) ∧
      (w.cycle a e rest).faults = [] ∧ (w.cycle a e rest).radios.length = w.radios.length := by
  unfold cycle
  simp only [haw, Bool.not_true, Bool.false_eq_true, ↓reduceIte]
  generalize hw1 : w.updRadio a (fun x => x.takePid e) = w1
  have hlen1 : w1.radios.length = w.radios.length := by rw [← hw1]; exact updRadio_length _ _ _
  have hf1 : w1.faults = [] := by rw [← hw1]; exact hf
  have hra : w1.radio a = (w.radio a).takePid e := by rw [← hw1]; exact updRadio_radio_self _ _ _ ha
  have hrb : w1.radio b = w.radio b := by rw [← hw1]; exact updRadio_radio_other _ _ _ _ hba
  have hcan1 : (w1.radio a).canHear = true := by rw [hra]; exact hcan
  have hack1 : (w1.deliver a ((w.radio a).packetFor e)).2.isSome = true :=
    deliver_ack w1 a b _ (by rw [hlen1]; exact hb) hba (by rw [hrb]; exact hack)
  obtain ⟨hloop, _⟩ := attemptLoop_first a ((w.radio a).packetFor e) ((w.radio a).setupRetr &&& 0x0F) 0 w1 hf1 hcan1 hack1
  rw [hloop]
  obtain ⟨x, hx⟩ := Option.isSome_iff_exists.mp hack1
  simp only [hx, Nat.zero_add]
  refine ⟨x, ?_, ?_, ?_⟩
  · rw [stamp_radio, updRadio_radio_self _ _ _ (by rw [deliver_length, hlen1]; exact ha), deliver_radio_self, hra]
  · exact hf1
  · show (((w1.deliver a ((w.radio a).packetFor e)).1.updRadio a fun r => r.txDoneAcked rest 1 x)).radios.length = _
    rw [updRadio_length, deliver_length, hlen1]

end World
end Nrf

namespace Nrf
open Rf24 Spec

/-- (2) gives the ACK-reception condition of the air model when the address width does not exceed
    the length of the address passed to `open_tx_pipe` -/
theorem canHear_of_txReady (r : Radio) (t : Bytes) (h : TxReady t r) (hrole : r.config &&& 1 = 0)
    (haa : r.enAA &&& 1 ≠ 0) (haw : r.aw ≤ t.length) : r.canHear = true := by
  obtain ⟨h1, h2, h3⟩ := h hrole haa
  unfold Radio.canHear Radio.bit
  have e1 : r.rxAddr0.take r.aw = t.take r.aw := by
    have := congrArg (List.take r.aw) h2
    rwa [List.take_take, Nat.min_eq_left haw] at this
  have e2 : r.txAddr.take r.aw = t.take r.aw := by
    have := congrArg (List.take r.aw) h3
    rwa [List.take_take, Nat.min_eq_left haw] at this
  rw [e1, e2]
  simp only [Nat.shiftLeft_zero, beq_self_eq_true, Bool.and_true, decide_eq_true_eq]
  exact h1

end Nrf
