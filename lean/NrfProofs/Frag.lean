/-
Helper lemmas for C11: the fragment loop of `_write_to_pipe` against the reference encoder.
-/
import NrfProofs.Wire
import NrfModel.Net.Frag

namespace Nrf.Proofs
open Nrf.Net Nrf.Spec

/-- the `k`-th payload as the reference encoder prescribes it, with the counter reduced to the
    one byte it has on the wire -/
def fragBytes (m : Msg) (total k : Nat) : Bytes :=
  headerBytes { fragment m total k with rsv := (fragment m total k).rsv % 256 } ++
    (fragment m total k).body

theorem pySlice_frag (msg : Bytes) (k : Nat) :
    pySlice msg (k * 24) (k * 24 + 24) = (msg.drop (24 * k)).take 24 := by
  unfold pySlice
  rw [List.drop_take]
  congr 1
  · omega
  · congr 1; omega

theorem pySlice_last (msg : Bytes) (k : Nat) (h : msg.length ≤ 24 * k + 24) :
    pySlice msg (k * 24) msg.length = (msg.drop (24 * k)).take 24 := by
  unfold pySlice
  rw [List.take_length, List.take_of_length_le (by simp; omega)]
  congr 1; omega

theorem fragLoop_eq (msg : Bytes) (total t src dst id : Nat) (h2 : 2 ≤ total)
    (hs : src < 4096) (hd : dst < 4096) (hi : id < 65536)
    (hlen : msg.length ≤ 24 * total) :
    ∀ (n : Nat) (h : Header), n ≤ total → h.fromNode = src → h.toNode = dst → h.frameId = id →
      fragLoop msg total t n h =
        .ok ((List.range' (total - n) n).map (fragBytes ⟨src, dst, id, t, msg⟩ total),
             if n = 0 then h else { h with msgType := .int MSG_FRAG_LAST, reserved := t }) := by
  intro n
  induction n with
  | zero => intro h _ _ _ _; simp [fragLoop, pure, Except.pure]
  | succ n ih =>
    intro h hn hf hto hid
    have hcnt : total - (n + 1) + 1 = total - n := by omega
    unfold fragLoop
    simp only [MAX_FRAG_SIZE]
    by_cases hlast : total - (n + 1) = total - 1
    · -- the last fragment: n = 0
      have hn0 : n = 0 := by omega
      subst hn0
      simp only [hlast, ↓reduceIte]
      rw [pack_eq _ MSG_FRAG_LAST (by simp [typeCode])]
      simp only [bind, Except.bind, fragLoop, pure, Except.pure, hf, hto, hid]
      simp only [List.range'_one, List.map_cons, List.map_nil, Nat.zero_add,
        Nat.succ_ne_self, ↓reduceIte]
      congr 2
      simp only [fragBytes, fragment, headerBytes, MSG_FRAG_LAST, FRAG_LAST, FRAG_SIZE]
      have e1 : total - 1 + 1 = total := by omega
      simp only [e1, ↓reduceIte]
      rw [pySlice_last msg (total - 1) (by omega)]
      rw [Nat.mod_eq_of_lt hs, Nat.mod_eq_of_lt hd, Nat.mod_eq_of_lt hi]
    · simp only [hlast, ↓reduceIte]
      have hn1 : 1 ≤ n := by omega
      by_cases hfirst : total - (n + 1) = 0
      · simp only [hfirst, ↓reduceIte]
        rw [pack_eq _ MSG_FRAG_FIRST (by simp [typeCode])]
        simp only [bind, Except.bind]
        rw [ih _ (by omega) (by simpa using hf) (by simpa using hto) (by simpa using hid)]
        simp only [pure, Except.pure, hf, hto, hid]
        have hne : n ≠ 0 := by omega
        simp only [hne, ↓reduceIte, Nat.add_eq_zero_iff, Nat.succ_ne_self, and_false]
        congr 2
        rw [List.range'_succ, List.map_cons]
        have e0 : 0 + 1 = total - n := by omega
        rw [e0]
        congr 1
        simp only [fragBytes, fragment, headerBytes, MSG_FRAG_FIRST, FRAG_FIRST, FRAG_SIZE]
        have e1 : ¬ (0 + 1 = total) := by omega
        simp only [e1, ↓reduceIte, Nat.sub_zero]
        have := pySlice_frag msg 0
        simp only [Nat.zero_mul, Nat.zero_add, Nat.mul_zero] at this
        rw [Nat.mod_eq_of_lt hs, Nat.mod_eq_of_lt hd, Nat.mod_eq_of_lt hi]
        simp [this]
      · simp only [hfirst, ↓reduceIte]
        rw [pack_eq _ MSG_FRAG_MORE (by simp [typeCode])]
        simp only [bind, Except.bind]
        rw [ih _ (by omega) (by simpa using hf) (by simpa using hto) (by simpa using hid)]
        simp only [pure, Except.pure, hf, hto, hid]
        have hne : n ≠ 0 := by omega
        simp only [hne, ↓reduceIte, Nat.add_eq_zero_iff, Nat.succ_ne_self, and_false]
        congr 2
        rw [List.range'_succ, List.map_cons, hcnt]
        congr 1
        simp only [fragBytes, fragment, headerBytes, MSG_FRAG_MORE, FRAG_MORE, FRAG_SIZE]
        have e1 : ¬ (total - (n + 1) + 1 = total) := by omega
        simp only [e1, hfirst, ↓reduceIte]
        rw [pySlice_frag msg (total - (n + 1))]
        rw [Nat.mod_eq_of_lt hs, Nat.mod_eq_of_lt hd, Nat.mod_eq_of_lt hi]


end Nrf.Proofs
