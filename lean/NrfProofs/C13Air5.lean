/-
C13, the air log of the acknowledged journey, part 5 (the top): `write()` at the origin of a route of two
or more hops, with the air log.  `live_hops_air` / `live_route_air` are `Nrf.Net.Hops.live_hops` /
`live_route` with the transmit cycles the call adds to `World.air`: first the origin's single
transmission of the data frame `pk` to the first hop, then — nested in the first `read()` of the wait
loop — the routers' transmissions `ackPlan … 1 (dist − 1)`: every router sends `pk` on, and on the way
back the NETWORK_ACK `pkA`.  Nothing else is logged.
-/
import NrfProofs.C13Air4

namespace Nrf.Net.Air
open Nrf Nrf.Spec Nrf.Proofs Nrf.Props.C04 Nrf.Net.Hops

/-- **The NETWORK_ACK round trip over a route of any length ≥ 2, on the air** (`Nrf.Net.Hops.live_hops`
    with the air log): `write()` returns `True`, and the transmit cycles it adds to the air log are
    exactly: one acknowledged single-attempt transmission of the packed frame `pk` by the origin's radio,
    then the routers' transmissions `ackPlan x d pk pkA 1 (dist x d - 1)` — `pk` forward by every router,
    the packed NETWORK_ACK `pkA` back by every router, nested. -/
theorem live_hops_air (hc : L3Contracts) (hair : AirContracts) (cfg : AddrCfg) (hcfg : CfgOk cfg) (L : LinkCfg)
    (tree : Nat → List Nat)
    (s : NetState) (a r jd : Nat) (x y d : List Nat) (ty : Int) (msg : Bytes)
    (hok : NetOk cfg L tree s) (hcur : s.cur = a) (hact : s.active = [a])
    (ha : a < s.nodes.length) (hr : r < s.nodes.length) (hjd : jd < s.nodes.length)
    (hsize : s.nodes.length ≤ 20000) (hndef : ∀ i, val (tree i) ≠ NETWORK_DEFAULT_ADDR)
    (hta : tree a = x) (htr : tree r = y) (htd : tree jd = d)
    (hy1 : nextHopSpec x d = y) (h2 : 2 ≤ dist x d)
    (hroute : ∀ k, 2 ≤ k → k ≤ dist x d →
      ∃ j, j < s.nodes.length ∧ tree j = hops k x d ∧ NotDupFrame (s.radioAt j) (wireCopy (callerFrame x d s.nextId ty msg)))
    (hquiet : ∀ i, i < s.nodes.length → (s.radioAt i).rxFifo = [])
    (hlast_a : NotDupFrame (s.radioAt a) (ackOf (wireCopy (callerFrame x d s.nextId ty msg))))
    (hlast_r : NotDupFrame (s.radioAt r) (wireCopy (callerFrame x d s.nextId ty msg)))
    (hty : 65 ≤ ty ∧ ty ≤ 191) (hsys : SysOk ty.toNat (s.nodeAt jd).retSysMsg)
    (hlen : msg.length ≤ MAX_FRAG_SIZE) (hmax : msg.length ≤ (s.nodeAt a).maxMessageLength)
    (hacc : Accepts (s.nodeAt jd).queue (wireCopy (callerFrame x d s.nextId ty msg))) :
    ∃ s1 pk pkA new,
      nexec (apiNetWrite (val d) ty msg AUTO_ROUTING) s = (.ok (true, callerFrame x d s.nextId ty msg), s1) ∧
      (wireCopy (callerFrame x d s.nextId ty msg)).pack = .ok pk ∧
      (ackOf (wireCopy (callerFrame x d s.nextId ty msg))).pack = .ok pkA ∧ pk ≠ pkA ∧
      s1.w.air = s.w.air ++ new ∧
      Forall2 (SentBy tree s) new ((x, pk) :: ackPlan x d pk pkA 1 (dist x d - 1)) := by
  have hxd : x ≠ d := by
    intro e; rw [e, dist_self] at h2; omega
  have hdy : dist y d + 1 = dist x d := by rw [← hy1]; exact dist_nextHop hxd
  have hyd : y ≠ d := by
    intro e; rw [e, dist_self] at hdy; omega
  subst hcur
  have hxy : x ≠ y := by rw [← hy1]; exact fun e => nextHop_ne_self hxd e.symm
  have hra : r ≠ s.cur := fun e => hxy (by rw [← hta, ← htr, e])
  have hrjd : r ≠ jd := fun e => hyd (by rw [← htr, ← htd, e])
  have hajd : s.cur ≠ jd := fun e => hxd (by rw [← hta, ← htd, e])
  obtain ⟨hn1, hn2, hn3, hn4, hn5, hn6⟩ := hok.node s.cur ha
  rw [hta] at hn1 hn2
  obtain ⟨P, hP, hN⟩ := hok.radio s.cur ha
  rw [hta] at hP
  obtain ⟨Pr, hPr, hNr⟩ := hok.radio r hr
  rw [htr] at hPr
  have hdn : IsNode d := by have := (hok.node jd hjd).1; rw [htd] at this; exact this
  have hyn : IsNode y := by have := (hok.node r hr).1; rw [htr] at this; exact this
  have hvd : val d < 4096 := val_lt_4096 hdn
  have hvx : val x < 4096 := val_lt_4096 hn1
  have hmd : maskInt (val d : Int) 0xFFF = val d := maskInt_natCast _ _ (by omega)
  have hnode : s.node = s.nodeAt s.cur := rfl
  have hw := apiNetWrite_eq (val d) ty msg s (by rw [hmd]; exact isValid_val hdn) hmax (Or.inl hlen)
  simp only [hmd] at hw
  have hcf : ({ header := { fromNode := s.node.a.addr, toNode := val d, frameId := s.nextId,
                            msgType := .int (maskInt ty 0xFF), reserved := 0 },
                message := msg } : Frame) = callerFrame x d s.nextId ty msg := by
    unfold callerFrame
    rw [hnode, hn2]; rfl
  rw [hcf] at hw
  generalize hcdef : callerFrame x d s.nextId ty msg = c at hw hacc hroute hlast_a hlast_r ⊢
  have hm1 : maskInt ty 0xFF = ty.toNat := by
    unfold maskInt
    have : ty % ((0xFF : Nat) + 1 : Int) = ty := Int.emod_eq_of_lt (by omega) (by omega)
    rw [this]
  have hm2 : ty.toNat &&& 0xFF = ty.toNat := by rw [and_ff]; omega
  have hwc : wireCopy c = ⟨⟨val x, val d, s.nextId &&& 0xFFFF, .int ty.toNat, 0⟩, msg⟩ := by
    rw [← hcdef]
    unfold wireCopy callerFrame
    simp only [Header.ty, hm1, hm2]
    rw [and_fff, and_fff, Nat.mod_eq_of_lt hvx, Nat.mod_eq_of_lt hvd]
    rfl
  obtain ⟨pk, hpk⟩ : ∃ pk, (wireCopy c).pack = .ok pk := by
    unfold Frame.pack
    rw [pack_int _ ty.toNat (by rw [hwc])]
    exact ⟨_, rfl⟩
  have T : AckTransitS (wireCopy c) pk ty.toNat x d :=
    ⟨by unfold wireCopy; simp only [Header.ty, Nat.and_assoc, Nat.and_self], by rw [hwc], by omega,
     by rw [hwc], by rw [hwc], hpk, by rw [hwc]; exact hlen, hdn, hn1⟩
  generalize hfr : wireCopy c = fr at T hacc hpk hwc hroute hlast_a hlast_r
  -- the prepared state
  have hprep : (({ s with nextId := (((s.nextId + 1) &&& 0xFFFF) + 1) &&& 0xFFFF } : NetState).setNode
      fun n => { n with frameBuf := wireCopy c }) = prepared s c := rfl
  rw [hprep] at hw
  generalize hs' : prepared s c = s' at hw
  have hsame' : Same s s' := by rw [← hs']; exact Same.prepared s c
  have hs'c : s'.cur = s.cur := by rw [← hs']; rfl
  have hs'a : s'.active = s.active := by rw [← hs']; rfl
  have hs'l : s'.nodes.length = s.nodes.length := hsame'.len
  have hs'w : s'.w = s.w := by rw [← hs']; rfl
  have hs'cl : s'.closed = true := by rw [← hs']; exact hok.closed
  have hs'n : s'.node = { s.node with frameBuf := fr } := by
    rw [← hs', ← hfr]; exact node_setNode _ _ ha
  have hs'at : ∀ i, i ≠ s.cur → s'.nodeAt i = s.nodeAt i := by
    intro i hi
    rw [← hs']
    show (NetState.setNode _ _).nodeAt i = _
    rw [nodeAt_setNode, if_neg (fun h => hi h.1)]
    rfl
  have hs'rid : ∀ i, s'.ridAt i = s.ridAt i := fun i => (hsame'.stat i).2.2.2.2
  have hs'rad : ∀ i, s'.radioAt i = s.radioAt i := by
    intro i; unfold NetState.radioAt; rw [hs'rid, hs'w]
  have hs'd : s'.drv = s.drv := by unfold NetState.drv; rw [hs'n, hs'w]
  -- the first hop
  obtain ⟨hp1, hp5⟩ : 1 ≤ hopPipe x d ∧ hopPipe x d ≤ 5 := by
    have := C04_listens cfg hcfg x d hn1 hdn hxd TX_NORMAL (Or.inl rfl)
    exact ⟨this.1, this.2.1⟩
  obtain ⟨A, hA1, hA2, hA3⟩ := listen_addrs cfg hcfg y hyn Pr hPr (hopPipe x d) hp1 hp5
  have hl2p : logi2phys s'.node.a (val d) TX_NORMAL = (val y, hopPipe x d, false) := by
    rw [hs'n]; show logi2phys s.node.a _ _ = _
    rw [hnode, hn2, l2p_tree hn1 hdn (Or.inl rfl), hy1]
  have hWf : s.drv.Wf := hn6
  obtain ⟨D, e3, r3, l3, f3, N3, x3, lr3, ⟨pid, hrb⟩, hoth3, rec, hairD, hrec⟩ := hop_single_air hc hair 199998 s' L P Pr r
    (hopPipe x d) (val y) (hopPipe x d) A pk
    (by rw [hs'c, hs'l]; exact ha) hs'cl (by rw [hs'l]; omega)
    (by
      intro i hi _ _
      rw [hs'rad]; exact hquiet i (by rw [← hs'l]; exact hi))
    (by rw [hs'd]; exact hWf) (by rw [hs'n, hs'd]; exact hN)
    (by rw [hs'l]; exact hr) (by rw [hs'c]; exact hra) (by rw [hs'a, hact]; simp; exact hra)
    (by
      intro i hi hic
      rw [hs'rid, hs'rid, hs'c]
      exact (hok.inj i s.cur (by rw [← hs'l]; exact hi) ha (by rw [← hs'c]; exact hic)).2)
    (by rw [hs'at r hra, hs'rad]; exact hNr)
    (by rw [hs'n]; show pipeAddress s.node.cfg _ _ = _; rw [hnode, hn3]; exact hA1)
    hA2 hp1 hp5 hA3 (by rw [hs'rad]; exact hlast_r.notDup hpk)
    (by
      intro ρ pid hri hrj
      rw [hs'w]
      rw [hs'rid, hs'c] at hri; rw [hs'rid] at hrj
      exact hok.hothers (i := s.cur) hcfg hr (by rw [htr]; exact hPr) hp1 hp5 hA2 pk ρ pid hri hrj)
    (by rw [hs'w]; exact hok.faults) (by rw [hs'n]; exact T.len) (by rw [hs'n]; exact T.pack)
    (by
      rw [hs'n]; show _ ≠ s.node.a.addr; rw [hnode, hn2]
      exact fun e => hxy (val_inj hn1.1 hyn.1 e.symm))
  rw [hs'rid, hs'rad, hquiet r hr] at hrb
  have hrb' : D.w.radio (s.ridAt r) = (s.radioAt r).withRx [{ pipe := hopPipe x d, data := pk }]
      { pid := pid, addr := A, data := pk } := by rw [hrb]; rfl
  have hoth3' : ∀ ρ, ρ ≠ s.ridAt s.cur → ρ ≠ s.ridAt r → D.w.radio ρ = s.w.radio ρ := by
    intro ρ h1 h2
    rw [hoth3 ρ (by rw [hs'rid, hs'c]; exact h1) (by rw [hs'rid]; exact h2), hs'w]
  have hDrid : D.d.rid = s.ridAt s.cur := by rw [r3, hs'n]; rfl
  have hDW : D.Wf := by unfold DrvState.Wf; rw [hDrid, l3, hs'w]; exact hn6
  -- listening again, then the wait
  have hs'cur : s'.cur < s'.nodes.length := by rw [hs'c, hs'l]; exact ha
  obtain ⟨D5, e5a, e5b, F5, N5, x5, hairD5⟩ := restore_air hc hair s' D L P true hs'cur hDW N3
  have hD5rid : D5.d.rid = s.ridAt s.cur := by rw [F5.rid]; exact hDrid
  have hD5fifo : D5.radio.rxFifo = [] := by rw [x5, x3, hs'd]; exact hquiet s.cur ha
  have hD5last : NotDupFrame D5.radio (ackOf fr) := by
    intro l hl; rw [F5.lastRx, lr3, hs'd] at hl; exact hlast_a l hl
  have hD5oth : ∀ ρ, ρ ≠ s.ridAt s.cur → D5.w.radio ρ = D.w.radio ρ := by
    intro ρ hρ; exact F5.others ρ (by rw [hDrid]; exact hρ)
  generalize hs4 : s'.afterRf D5 = s4 at e5b
  have hs4c : s4.cur = s.cur := by rw [← hs4]; exact hs'c
  have hs4a : s4.active = [s.cur] := by rw [← hs4]; show s'.active = _; rw [hs'a, hact]
  have hsame4 : Same s s4 := by
    rw [← hs4]
    refine hsame'.trans (Same.afterRf s' D5 hs'cur (by rw [hD5rid, hs'n]; rfl) (by rw [F5.len, l3]) ?_)
    intro ρ hρ
    have h1 : ρ ≠ s.ridAt s.cur := by
      have := hρ s.cur (by rw [hs'l]; exact ha); rw [hs'rid] at this; exact this.symm
    have h2 : ρ ≠ s.ridAt r := by have := hρ r (by rw [hs'l]; exact hr); rw [hs'rid] at this; exact this.symm
    rw [hD5oth ρ h1, hoth3 ρ (by rw [hs'rid, hs'c]; exact h1) (by rw [hs'rid]; exact h2)]
  have hs4l : s4.nodes.length = s.nodes.length := hsame4.len
  have hs4cl : s4.closed = true := by rw [hsame4.closed]; exact hok.closed
  have hs4rid : ∀ k, s4.ridAt k = s.ridAt k := fun k => (hsame4.stat k).2.2.2.2
  have hs4w : ∀ ρ, s4.w.radio ρ = D5.w.radio ρ := by intro ρ; rw [← hs4]; rfl
  have hs4n : s4.node = { s.node with rf := D5.d, frameBuf := fr } := by
    rw [← hs4, afterRf_node _ _ hs'cur, hs'n]
  have hs4at : ∀ k, k ≠ s.cur → s4.nodeAt k = s.nodeAt k := by
    intro k hk; rw [← hs4, nodeAt_afterRf_ne _ _ _ (by rw [hs'c]; exact hk), hs'at k hk]
  have hs4ata : s4.nodeAt s.cur = s4.node := by rw [← hs4c]; rfl
  have hs4rada : s4.radioAt s.cur = D5.radio := by
    unfold NetState.radioAt; rw [hs4rid, hs4w, ← hD5rid]; rfl
  have hs4radr : s4.radioAt r = (s.radioAt r).withRx [{ pipe := hopPipe x d, data := pk }]
      { pid := pid, addr := A, data := pk } := by
    unfold NetState.radioAt; rw [hs4rid, hs4w, hD5oth _ (hok.inj r s.cur hr ha hra).2, hrb']
    rfl
  have hs4rad : ∀ k, k < s.nodes.length → k ≠ s.cur → k ≠ r → s4.radioAt k = s.radioAt k := by
    intro k hk hka hkr
    unfold NetState.radioAt
    rw [hs4rid, hs4w, hD5oth _ (hok.inj k s.cur hk ha hka).2,
      hoth3' _ (hok.inj k s.cur hk ha hka).2 (hok.inj k r hk hr hkr).2]
  have hs4q : ∀ k, (s4.nodeAt k).queue = (s.nodeAt k).queue := by
    intro k
    by_cases hk : k = s.cur
    · subst hk; rw [hs4ata, hs4n]; rfl
    · rw [hs4at k hk]
  -- the network after the first hop: everybody listens
  have hok4 : NetOk cfg L tree s4 := by
    refine hok.of_same hsame4 (by rw [← hs4]; show D5.w.faults = []; rw [F5.faults]; exact f3) ?_
    intro k hk P' hP' hN'
    by_cases hka : k = s.cur
    · subst hka
      rw [hta] at hP'
      have : P' = P := Except.ok.inj (hP'.symm.trans hP)
      subst this
      rw [hs4ata, hs4n, hs4rada]; exact N5
    · rw [hs4at k hka]
      by_cases hkr : k = r
      · subst hkr; rw [hs4radr]; exact hN'.withRx _ _ _ hp5
      · rw [hs4rad k hk hka hkr]; exact hN'
  -- the first hop's turn, inside the first read of the wait loop
  generalize hsr : s4.switchTo r = sr
  have hsrc : sr.cur = r := by rw [← hsr]; rfl
  have hsra : sr.active = [r, s.cur] := by rw [← hsr]; show r :: s4.active = _; rw [hs4a]
  have hsrl : sr.nodes.length = s.nodes.length := by rw [← hsr, (Same.switchTo s4 r).len, hs4l]
  have hsrrad : ∀ k, sr.radioAt k = s4.radioAt k := by intro k; rw [← hsr]; exact radioAt_switchTo s4 r k
  have hsrq : ∀ k, (sr.nodeAt k).queue = (s.nodeAt k).queue := by
    intro k; rw [← hsr, queue_switchTo, hs4q]
  obtain ⟨pkA, hpkA⟩ := ackOf_pack fr
  have hpkne : pk ≠ pkA := fun e => pack_ackOf_ne T.wire T.ty T.ack.2 T.pack hpkA e.symm
  have hry : tree sr.cur = nextHopSpec x d := by rw [hsrc, htr, hy1]
  have Hr : HoldingA cfg L tree x d fr pk pkA ty.toNat (dist x d - 2 + 1) s.cur sr := by
    refine ⟨by rw [← hsr]; exact netOk_switchTo hok4 r, by rw [hsrc, hsrl]; exact hr, by rw [hsrc, hsra]; simp,
      ⟨1, by omega, by omega, by rw [hry]; rfl⟩, ?_, ⟨by rw [hsrl]; exact ha, ?_, by rw [hsra]; simp⟩,
      ⟨hopPipe x d, hp5, by rw [hsrc, hsrrad, hs4radr]; rfl⟩, ?_, ?_, ?_, ?_⟩
    · intro k hk1 hkn
      obtain ⟨j', hj', htj', hjl'⟩ := hroute (k + 1) (by omega) (by omega)
      have hj'r : j' ≠ r := by
        intro e
        rw [e, htr, ← hy1] at htj'
        exact hops_ne_origin (s := nextHopSpec x d) (d := d) (n := k) (by omega) (by rw [hy1]; omega) htj'.symm
      have hj'a : j' ≠ s.cur := by
        intro e
        rw [e, hta] at htj'
        exact hops_ne_origin (s := x) (d := d) (n := k + 1) (by omega) (by omega) htj'.symm
      refine ⟨j', by rw [hsrl]; exact hj', by rw [hry]; exact htj', ?_, ?_⟩
      · rw [hsra]; simp only [List.mem_cons, List.not_mem_nil, or_false, not_or]; exact ⟨hj'r, hj'a⟩
      · rw [hsrrad, hs4rad j' hj' hj'a hj'r]; exact hjl'.notDup hpk
    · rw [hry, hta]; exact (nextHop_back hxd).symm
    · intro k hk hkr
      rw [hsrl] at hk; rw [hsrc] at hkr
      rw [hsrrad]
      by_cases hka : k = s.cur
      · subst hka; rw [hs4rada]; exact hD5fifo
      · rw [hs4rad k hk hka hkr]; exact hquiet k hk
    · intro k hk hka l hl
      rw [hsra] at hka
      rw [hsrrad] at hl
      simp only [List.mem_cons, List.not_mem_nil, or_false] at hka
      rcases hka with rfl | rfl
      · rw [hs4radr] at hl
        have : l = { pid := pid, addr := A, data := pk } := (Option.some.inj hl).symm
        rw [this]; exact hpkne
      · rw [hs4rada] at hl
        exact fun e => hD5last l hl (by rw [e]; exact hpkA)
    · intro k hk htk
      rw [hsrl] at hk
      have : k = jd := by
        by_cases hkj : k = jd
        · exact hkj
        · exact absurd (htk.trans htd.symm) (hok.inj k jd hk hjd hkj).1
      rw [this, hsrq]; exact hacc
    · intro k hk htk
      rw [hsrl] at hk
      have : k = jd := by
        by_cases hkj : k = jd
        · exact hkj
        · exact absurd (htk.trans htd.symm) (hok.inj k jd hk hjd hkj).1
      rw [this, ← hsr, nodeAt_switchTo_ne s4 r jd (by rw [hs4c]; exact fun e => hajd e.symm),
        hs4at jd (fun e => hajd e.symm)]
      exact hsys
  have hbound : dist x d ≤ 8 := C04_route_bound x d hn1 hdn
  obtain ⟨sr', er, ⟨Aok, Acur, Aact, Asame, ⟨qA, Afifob⟩, Afifo, Aqueue, _⟩, new, hairR, hplan⟩ :=
    route_ack_all_air hc hair cfg hcfg L tree fr pk pkA ty.toNat x d T hpkA hndef (dist x d - 2) sr (199995 - r) s.cur Hr (by
      rw [hsrl]
      have h1 : (dist x d - 2 + 2) * (s.nodes.length + 16) ≤ 8 * (s.nodes.length + 16) :=
        Nat.mul_le_mul_right _ (by omega)
      omega)
  rw [hsrl] at Afifo Aqueue
  have hpkAl : pkA.length = 8 + fr.message.length := pack_length (fr := ackOf fr) hpkA
  -- the first read of the wait loop: the route runs, then the acknowledgement is there
  obtain ⟨s7, e7, ok7, c7, a7, same7, x7, lr7, rad7, q7, hair7⟩ := read_nested_air hc hair s4 sr' s.cur r (199995 - r) 0 hok4 hs4c
    (by rw [hs4l]; exact ha) (by rw [hs4l]; exact hr) hra (by rw [hs4a]; simpa using hra)
    (by rw [hs4radr]; rfl)
    (by
      intro k hk hka hkr _
      rw [hs4l] at hk
      rw [hs4rad k hk hka hkr]; exact hquiet k hk)
    (by rw [hsr]; exact er) Aok (by rw [Aact, hsra, hs4a]) (by rw [hsr]; exact Asame)
    (by
      intro k hk hka _
      rw [hs4l] at hk
      exact Afifo k hk hka)
    (by rw [hs4l]; omega)
    (by
      intro e he
      rw [Afifob] at he
      simp only [List.mem_singleton] at he
      subst he
      have := T.len
      unfold MAX_FRAG_SIZE at this
      simp only []
      omega)
  rw [Afifob] at e7
  simp only [List.head?_cons, Option.map_some] at e7
  have hread : nexec (rfRead 199997) s4 = (.ok (some pkA), s7) := by
    rw [show 199997 = 199995 - r + 2 + r from by omega]; exact e7
  have hs7l : s7.nodes.length = s.nodes.length := by rw [same7.len, hs4l]
  have hs7n : s7.node = s7.nodeAt s.cur := by rw [← c7]; rfl
  have hs7addr : s7.node.a = nodeSpec x := by
    rw [hs7n]
    have := (ok7.node s.cur (by rw [hs7l]; exact ha)).2.1
    rw [hta] at this; exact this
  have hunA : s7.node.frameBuf.unpack pkA = (ackOf fr, true) := by
    have := unpack_of_pack (ackOf fr) s7.node.frameBuf NETWORK_ACK rfl pkA hpkA
    rw [ackOf_wire T.wire] at this; exact this
  have hAto : (ackOf fr).header.toNode = val x := T.src
  have hAfrom : (ackOf fr).header.fromNode = val x := T.src
  have hAty : (ackOf fr).header.ty = NETWORK_ACK := rfl
  have hnu : nexec (netUpdate 199998 0) s4 = (.ok NETWORK_ACK, s7.withFrame (ackOf fr)) := by
    rw [show 199998 = 199997 + 1 from rfl, netUpdate_step, hread]
    simp only [hunA, hAto, hAfrom, isValid_val hn1, Bool.not_true, Bool.or_self, Bool.false_eq_true, if_false]
    have : val x = s7.node.a.addr := by rw [hs7addr]; rfl
    simp only [if_pos this, hAty]
    rw [show 199997 = 199996 + 1 from rfl, handleThis_ack]
    rfl
  -- `_write` and `write()` return
  generalize hs8 : s7.withFrame (ackOf fr) = s8 at hnu
  have hnw : nexec (nodeWrite F (val d) TX_NORMAL) s' = (.ok true, s8) :=
    nodeWrite_await_eval s' s4 s8 D (val d) (val y) (hopPipe x d) ty.toNat 199997 (by rw [hs'n]; exact T.ty) hl2p T.ack
      (fun e => hyd (val_inj hyn.1 hdn.1 e)) e3 e5a e5b hnu
  rw [hnw] at hw
  simp only [] at hw
  -- the air log
  have hs4air : s4.w.air = s.w.air ++ [rec] := by
    rw [← hs4]; show D5.w.air = _; rw [hairD5, hairD, hs'w]
  have hsrair : sr.w.air = s4.w.air := by rw [← hsr]; rfl
  have hs8air : s8.w.air = s7.w.air := by rw [← hs8]; rfl
  have hsamer : Same s sr := by rw [← hsr]; exact hsame4.trans (Same.switchTo s4 r)
  have hd1 : dist x d - (dist x d - 2 + 1) = 1 := by omega
  have hd2 : dist x d - 2 + 1 = dist x d - 1 := by omega
  rw [hd1, hd2] at hplan
  refine ⟨s8, pk, pkA, rec :: new, hw, hpk, hpkA, hpkne, ?_, ?_⟩
  · rw [hs8air, hair7, hairR, hsrair, hs4air, List.append_assoc]; rfl
  · refine Forall2.cons ?_ ((forall2_sentBy_of_same hsamer).mpr hplan)
    obtain ⟨h1, h2, h3, h4⟩ := hrec
    refine ⟨s.cur, ha, hta, ?_, h2, h3, h4⟩
    rw [h1, hs'rid, hs'c]

/-- **`live_route` on the air**: `live_hops_air` with the first hop and the destination picked from the
    route.  In a listening, quiet tree network in which every node of the tree route from `tree a` to `d`
    (two or more hops) is present, `write()` of a single-frame message of an acknowledged type returns
    `True`, and the transmit cycles it adds to the air log are exactly the origin's transmission of `pk`
    followed by the routers' `ackPlan (tree a) d pk pkA 1 (dist (tree a) d - 1)`. -/
theorem live_route_air (hc : L3Contracts) (hair : AirContracts) (cfg : AddrCfg) (hcfg : CfgOk cfg) (L : LinkCfg)
    (tree : Nat → List Nat) (s : NetState) (a : Nat) (d : List Nat) (ty : Int) (msg : Bytes)
    (hok : NetOk cfg L tree s) (hcur : s.cur = a) (hact : s.active = [a]) (ha : a < s.nodes.length)
    (hsize : s.nodes.length ≤ 20000) (hndef : ∀ i, val (tree i) ≠ NETWORK_DEFAULT_ADDR)
    (h2 : 2 ≤ dist (tree a) d)
    (hroute : ∀ k, 1 ≤ k → k ≤ dist (tree a) d →
      ∃ j, j < s.nodes.length ∧ tree j = hops k (tree a) d ∧ NotDupFrame (s.radioAt j) (wireCopy (callerFrame (tree a) d s.nextId ty msg)))
    (horig : NotDupFrame (s.radioAt a) (ackOf (wireCopy (callerFrame (tree a) d s.nextId ty msg))))
    (hquiet : ∀ i, i < s.nodes.length → (s.radioAt i).rxFifo = [])
    (hty : 65 ≤ ty ∧ ty ≤ 191) (hsys : ∀ j, j < s.nodes.length → tree j = d → SysOk ty.toNat (s.nodeAt j).retSysMsg)
    (hlen : msg.length ≤ MAX_FRAG_SIZE)
    (hmax : msg.length ≤ (s.nodeAt a).maxMessageLength)
    (hacc : ∀ j, j < s.nodes.length → tree j = d →
      Accepts (s.nodeAt j).queue (wireCopy (callerFrame (tree a) d s.nextId ty msg))) :
    ∃ s1 jd pk pkA new, jd < s.nodes.length ∧ tree jd = d ∧
      nexec (apiNetWrite (val d) ty msg AUTO_ROUTING) s =
        (.ok (true, callerFrame (tree a) d s.nextId ty msg), s1) ∧
      (wireCopy (callerFrame (tree a) d s.nextId ty msg)).pack = .ok pk ∧
      (ackOf (wireCopy (callerFrame (tree a) d s.nextId ty msg))).pack = .ok pkA ∧ pk ≠ pkA ∧
      s1.w.air = s.w.air ++ new ∧
      Forall2 (SentBy tree s) new
        ((tree a, pk) :: ackPlan (tree a) d pk pkA 1 (dist (tree a) d - 1)) := by
  obtain ⟨jd, hjd, htjd, _⟩ := hroute (dist (tree a) d) (by omega) (Nat.le_refl _)
  rw [hops_dist] at htjd
  obtain ⟨r, hr, htr, hlr⟩ := hroute 1 (by omega) (by omega)
  have htr' : tree r = nextHopSpec (tree a) d := htr
  obtain ⟨s1, pk, pkA, new, hw, hpk, hpkA, hne, hairN, hplan⟩ := live_hops_air hc hair cfg hcfg L tree s a r jd (tree a)
    (nextHopSpec (tree a) d) d ty msg hok hcur
    hact ha hr hjd hsize hndef rfl htr' htjd rfl h2
    (fun k hk2 hkd => hroute k (by omega) hkd) hquiet horig hlr hty (hsys jd hjd htjd) hlen hmax (hacc jd hjd htjd)
  exact ⟨s1, jd, pk, pkA, new, hjd, htjd, hw, hpk, hpkA, hne, hairN, hplan⟩

end Nrf.Net.Air
