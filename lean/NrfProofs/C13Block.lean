/-
C13 — "never blocking longer than the transmit and route timeouts allow": `_write` (`nodeWrite`) and its
NETWORK_ACK wait loop (`ackWait`) RETURN in the open system, with an explicit fuel bound computed from
the state.  Corollaries of the simultaneous fuel induction `totAll` of `NrfProofs/C15Total.lean` (which
already contains a clause for `nodeWrite` and `ackWait`; it was only exported for `update()` so far),
with the two `RF24` contracts it rests on supplied (`c15contracts`, NrfProofs/C15Discharge.lean).

Time: the wait loop's exit clock, combined with `ackWaitT_spec` (NrfProofs/C13Trace.lean).
-/
import NrfProofs.C15Master
import NrfProofs.C15Discharge
import NrfProofs.C13Trace

namespace Nrf.Net
open Nrf Rf24 Nrf.Spec Nrf.Proofs

/-- fuel that suffices for one `_write` with `m` frames still to be read (RX FIFO + arrival script),
    `tx_timeout = tt` ms, `route_timeout = rt` ms, `max_message_length ≤ Lm`: one unit per loop
    iteration / nested call (a `resend()` and a `read()` take ≥ 10 µs of virtual time each, so a
    `_tx_standby(tt)` loop makes ≤ 100·tt iterations and the NETWORK_ACK wait ≤ 100·rt) -/
def writeFuel (Lm tt rt m : Nat) : Nat := m + 400 * tt + 2 * (Lm / 24) + 100 * rt + 40

theorem writeFuel_eq (Lm tt rt m : Nat) : bNW Lm tt rt m = writeFuel Lm tt rt m := by
  unfold bNW bAW bNU bH bNW0 bWP bFL bFR bTS writeFuel
  omega

/-- fuel that suffices for the NETWORK_ACK wait loop entered at clock `now` with deadline `dl` (ns) -/
def waitFuel (Lm tt m dl now : Nat) : Nat := (dl + 10000 - now) / 10000 + m + 200 * tt + Lm / 24 + 22

theorem waitFuel_eq (Lm tt m dl now : Nat) :
    (dl + 10000 - now) / 10000 + 1 + bNU Lm tt m = waitFuel Lm tt m dl now := by
  unfold bNU bH bNW0 bWP bFL bFR bTS waitFuel
  omega

section
variable {Lm tt rt : Nat}

theorem nodeListens_of_lt {p0 a1 : Bytes} {aN : List Nat} {s s' : NetState}
    (ha : AddrOf s.node.cfg s.node.a p0 a1 aN) (h' : LT p0 a1 aN Lm tt rt 0x3E s s') : NodeListens s' := by
  refine ⟨p0, a1, aN, ?_, h'.1.1⟩
  rw [h'.1.2.cfg, h'.1.2.a]
  exact ha

/-- **`_write` returns** (open system): from a listening node with the invariant `TI`, a well-formed
    single frame in `frame_buf` (`HdrOk`) and a target `_write` can be asked for (`WdOk`), with any
    fuel `f ≥ writeFuel Lm tt rt s.M`. -/
theorem write_returns (hLm : 24 ≤ Lm) (s : NetState) (hl : NodeListens s) (hi : TI Lm tt rt s)
    (hok : HdrOk s.node) (wd st : Nat) (hwd : WdOk s.node.cfg wd st) (f : Nat)
    (hf : writeFuel Lm tt rt s.M ≤ f) :
    ∃ r s', nexec (nodeWrite f wd st) s = (.ok r, s') ∧ NodeListens s' ∧ TI Lm tt rt s' ∧ NP s s' := by
  obtain ⟨p0, a1, aN, ha, hls⟩ := hl
  have hlt : LT p0 a1 aN Lm tt rt 0x3E s s := ⟨⟨hls, NFr.refl s⟩, hi⟩
  rw [← writeFuel_eq] at hf
  have h0 : bNW0 Lm tt ≤ f := by unfold bNW bNW0 at *; omega
  have := (totAll c15contracts hLm (p0 := p0) (a1 := a1) (aN := aN) (tt := tt) (rt := rt) f).nodeWrite
    0x3E wd st s s (lt_midF hlt) hok hwd h0 (fun _ => hf)
  obtain ⟨r, s', h1, l1, np1, _⟩ := (wp_no_iff _ _ _).1 this
  exact ⟨r, s', h1, nodeListens_of_lt ha l1, l1.2, np1⟩

/-- **the NETWORK_ACK wait loop returns** (open system), with any fuel
    `f ≥ waitFuel Lm tt s.M dl s.w.clock` -/
theorem wait_returns (hLm : 24 ≤ Lm) (s : NetState) (hl : NodeListens s) (hi : TI Lm tt rt s)
    (dl f : Nat) (hf : waitFuel Lm tt s.M dl s.w.clock ≤ f) :
    ∃ r s', nexec (ackWait f dl) s = (.ok r, s') ∧ NodeListens s' ∧ TI Lm tt rt s' ∧ NP s s' := by
  obtain ⟨p0, a1, aN, ha, hls⟩ := hl
  have hlt : LT p0 a1 aN Lm tt rt 0x3E s s := ⟨⟨hls, NFr.refl s⟩, hi⟩
  rw [← waitFuel_eq] at hf
  have := (totAll c15contracts hLm (p0 := p0) (a1 := a1) (aN := aN) (tt := tt) (rt := rt) f).ackWait
    dl s s hlt hf
  obtain ⟨r, s', h1, l1, np1⟩ := (wp_no_iff _ _ _).1 this
  exact ⟨r, s', h1, nodeListens_of_lt ha l1, l1.2, np1⟩

/-- fuel that suffices for a `_write` that cannot wait for a NETWORK_ACK (`NoWait`) -/
def writeFuel0 (Lm tt : Nat) : Nat := 200 * tt + Lm / 24 + 16

theorem writeFuel0_eq (Lm tt : Nat) : bNW0 Lm tt = writeFuel0 Lm tt := by
  unfold bNW0 bWP bFL bFR bTS writeFuel0
  omega

/-- `_write` that cannot wait (type outside 65..191, or a send type other than `TX_NORMAL` / `TX_LOGICAL`)
    returns with fuel `writeFuel0 Lm tt`, independent of `route_timeout` and of the waiting frames -/
theorem write_returns_nowait (hLm : 24 ≤ Lm) (s : NetState) (hl : NodeListens s) (hi : TI Lm tt rt s)
    (hok : HdrOk s.node) (wd st : Nat) (hwd : WdOk s.node.cfg wd st)
    (hnw : NoWait st s.node.frameBuf.header.ty) (f : Nat) (hf : writeFuel0 Lm tt ≤ f) :
    ∃ r s', nexec (nodeWrite f wd st) s = (.ok r, s') ∧ NodeListens s' ∧ TI Lm tt rt s' ∧ NP s s' ∧
      HdrOk s'.node := by
  obtain ⟨p0, a1, aN, ha, hls⟩ := hl
  have hlt : LT p0 a1 aN Lm tt rt 0x3E s s := ⟨⟨hls, NFr.refl s⟩, hi⟩
  rw [← writeFuel0_eq] at hf
  have := (totAll c15contracts hLm (p0 := p0) (a1 := a1) (aN := aN) (tt := tt) (rt := rt) f).nodeWrite
    0x3E wd st s s (lt_midF hlt) hok hwd hf (fun hn => absurd hnw hn)
  obtain ⟨r, s', h1, l1, np1, hk⟩ := (wp_no_iff _ _ _).1 this
  exact ⟨r, s', h1, nodeListens_of_lt ha l1, l1.2, np1, hk hnw⟩

end

end Nrf.Net
