/-
Discharging `L3Contracts` (NrfProofs/C05Link.lean), part 1: the exact effect of the driver's
primitives (one SPI transaction, a CE edge, a sleep, a change of shadow attributes) on a state whose
radio has nothing to transmit — tracked as a *snapshot* `Snap s d r w0`: the shadows are `d`, the
object's radio is `r`, every other radio / the fault script / the number of radios are those of `w0`.
(The world-level lemmas follow NrfProofs/C08Send.lean, which cannot be imported next to C05Link.lean:
both define `DrvState.radio`.)  Everything lives in `Nrf.L3`.
-/
import NrfProofs.C05Link

namespace Nrf.L3
open Nrf Nrf.Rf24

/-! ### the world -/

/-- nothing is transmitted by a radio whose TX FIFO is empty or which is not in TX mode -/
theorem tryTransmit_idle (s f : Nat) (w : World)
    (h : (w.radio s).txFifo = [] ∨ (w.radio s).txMode = false) : World.tryTransmit s f w = w := by
  cases f with
  | zero => rfl
  | succ f =>
    unfold World.tryTransmit
    rcases h with h | h
    · simp only [h]
      split <;> rfl
    · simp only [h, Bool.false_and, Bool.false_eq_true, ↓reduceIte]

theorem jump_radio (w : World) (s j : Nat) : (w.jump s).radio j = w.radio j := rfl

/-- an SPI transaction on radio `a` after which it has nothing to transmit: only radio `a` changes,
    by the transaction; the fault list stays -/
theorem spi_idle (w : World) (a : Nat) (out : Bytes) (ha : a < w.radios.length)
    (hidle : ((w.radio a).xfer out).1.txFifo = [] ∨ ((w.radio a).xfer out).1.txMode = false) :
    (w.spi a out).1.radio a = ((w.radio a).xfer out).1 ∧ (w.spi a out).2 = ((w.radio a).xfer out).2 ∧
    (∀ j, j ≠ a → (w.spi a out).1.radio j = w.radio j) ∧ (w.spi a out).1.faults = w.faults ∧
    (w.spi a out).1.radios.length = w.radios.length := by
  have hl : a < (w.jump a).radios.length := ha
  have key : (w.spi a out).1 =
      { ((w.jump a).setRadio a ((w.radio a).xfer out).1) with
        clock := (w.jump a).clock + SPI_COST_NS, spiCount := (w.jump a).spiCount + 1 } := by
    unfold World.spi
    simp only [jump_radio]
    apply tryTransmit_idle
    have : ∀ (w' : World) (c n : Nat) j, ({ w' with clock := c, spiCount := n } : World).radio j = w'.radio j :=
      fun _ _ _ _ => rfl
    rw [this, World.radio_setRadio]
    simp only [hl, and_self, ↓reduceIte]
    exact hidle
  refine ⟨?_, rfl, ?_, ?_, World.spi_length _ _ _⟩
  · rw [key]
    show ((w.jump a).setRadio a _).radio a = _
    rw [World.radio_setRadio]; simp [hl]
  · intro j hj
    rw [key]
    show ((w.jump a).setRadio a _).radio j = _
    rw [World.radio_setRadio]; simp [hj]; rfl
  · rw [key]; rfl

/-- a CE edge on radio `a` after which it has nothing to transmit -/
theorem setCE_idle (w : World) (a : Nat) (v : Bool) (ha : a < w.radios.length)
    (hidle : (w.radio a).txFifo = [] ∨ ({ (w.radio a) with ce := v } : Radio).txMode = false) :
    (w.setCE a v).radio a = { (w.radio a) with ce := v } ∧
    (∀ j, j ≠ a → (w.setCE a v).radio j = w.radio j) ∧ (w.setCE a v).faults = w.faults ∧
    (w.setCE a v).radios.length = w.radios.length := by
  have hl : a < (w.jump a).radios.length := ha
  have key : w.setCE a v = (w.jump a).setRadio a { (w.radio a) with ce := v } := by
    unfold World.setCE
    simp only [jump_radio]
    apply tryTransmit_idle
    rw [World.radio_setRadio]
    simp only [hl, and_self, ↓reduceIte]
    exact hidle
  refine ⟨?_, ?_, ?_, World.setCE_length _ _ _⟩
  · rw [key, World.radio_setRadio]; simp [hl]
  · intro j hj
    rw [key, World.radio_setRadio]; simp [hj]; rfl
  · rw [key]; rfl

/-! ### snapshots -/

/-- a snapshot of a driver state: the object's shadows are `d`, its radio is `r`; every other radio,
    the fault list and the number of radios are those of `w0` -/
structure Snap (s : DrvState) (d : Rf24) (r : Radio) (w0 : World) : Prop where
  d_eq : s.d = d
  wf : d.rid < w0.radios.length
  radio : s.w.radio d.rid = r
  others : ∀ j, j ≠ d.rid → s.w.radio j = w0.radio j
  faults : s.w.faults = w0.faults
  len : s.w.radios.length = w0.radios.length

theorem snap_self (s : DrvState) (hw : s.Wf) : Snap s s.d s.radio s.w :=
  ⟨rfl, hw, rfl, fun _ _ => rfl, rfl, rfl⟩

theorem Snap.swf {s : DrvState} {d : Rf24} {r : Radio} {w0 : World} (h : Snap s d r w0) : s.Wf := by
  unfold DrvState.Wf; rw [h.d_eq, h.len]; exact h.wf

theorem Snap.radio_eq {s : DrvState} {d : Rf24} {r : Radio} {w0 : World} (h : Snap s d r w0) : s.radio = r := by
  unfold DrvState.radio; rw [h.d_eq]; exact h.radio

/-- a CE edge -/
theorem snap_ce {s : DrvState} {d : Rf24} {r : Radio} {w0 : World} (h : Snap s d r w0) (v : Bool)
    (hidle : r.txFifo = [] ∨ ({ r with ce := v } : Radio).txMode = false) :
    Snap { s with w := s.w.setCE s.d.rid v } d { r with ce := v } w0 := by
  obtain ⟨hd, hwf, hr, ho, hf, hl⟩ := h
  have ha : s.d.rid < s.w.radios.length := by rw [hd, hl]; exact hwf
  obtain ⟨h1, h2, h3, h4⟩ := setCE_idle s.w s.d.rid v ha (by rw [hd, hr]; exact hidle)
  refine ⟨hd, hwf, ?_, ?_, ?_, ?_⟩
  · show (s.w.setCE s.d.rid v).radio d.rid = _
    rw [← hd, h1, hd, hr]
  · intro j hj
    show (s.w.setCE s.d.rid v).radio j = _
    rw [h2 j (by rw [hd]; exact hj)]; exact ho j hj
  · exact h3.trans hf
  · exact h4.trans hl

/-- an SPI transaction -/
theorem snap_spi {s : DrvState} {d : Rf24} {r : Radio} {w0 : World} (h : Snap s d r w0) (out : Bytes)
    (hidle : (r.xfer out).1.txFifo = [] ∨ (r.xfer out).1.txMode = false) :
    Snap (s.spiStep out) { d with status := (r.xfer out).2.headD d.status } (r.xfer out).1 w0 := by
  obtain ⟨hd, hwf, hr, ho, hf, hl⟩ := h
  have ha : s.d.rid < s.w.radios.length := by rw [hd, hl]; exact hwf
  obtain ⟨h1, h2, h3, h4, h5⟩ := spi_idle s.w s.d.rid out ha (by rw [hd, hr]; exact hidle)
  refine ⟨?_, hwf, ?_, ?_, ?_, ?_⟩
  · show ({ s.d with status := (s.w.spi s.d.rid out).2.headD s.d.status } : Rf24) = _
    rw [h2, hd, hr]
  · show (s.w.spi s.d.rid out).1.radio d.rid = _
    rw [← hd, h1, hd, hr]
  · intro j hj
    show (s.w.spi s.d.rid out).1.radio j = _
    rw [h3 j (by rw [hd]; exact hj)]; exact ho j hj
  · exact h4.trans hf
  · exact h5.trans hl

/-- … and what it clocks out -/
theorem snap_spi_out {s : DrvState} {d : Rf24} {r : Radio} {w0 : World} (h : Snap s d r w0) (out : Bytes)
    (hidle : (r.xfer out).1.txFifo = [] ∨ (r.xfer out).1.txMode = false) :
    (s.w.spi s.d.rid out).2 = (r.xfer out).2 := by
  obtain ⟨hd, hwf, hr, _, _, hl⟩ := h
  have ha : s.d.rid < s.w.radios.length := by rw [hd, hl]; exact hwf
  have := (spi_idle s.w s.d.rid out ha (by rw [hd, hr]; exact hidle)).2.1
  rw [this, hd, hr]

/-- a change of shadow attributes that keeps the radio index -/
theorem snap_mod {s : DrvState} {d : Rf24} {r : Radio} {w0 : World} (h : Snap s d r w0) (f : Rf24 → Rf24)
    (hf : (f d).rid = d.rid) : Snap (s.modShadow f) (f d) r w0 := by
  obtain ⟨hd, hwf, hr, ho, hfl, hl⟩ := h
  refine ⟨by show f s.d = f d; rw [hd], by rw [hf]; exact hwf, by rw [hf]; exact hr, ?_, hfl, hl⟩
  intro j hj
  exact ho j (by rw [← hf]; exact hj)

/-- `time.sleep` -/
theorem snap_sleep {s : DrvState} {d : Rf24} {r : Radio} {w0 : World} (h : Snap s d r w0) (n : Nat) :
    Snap { s with w := s.w.sleep n } d r w0 := by
  obtain ⟨hd, hwf, hr, ho, hfl, hl⟩ := h
  exact ⟨hd, hwf, hr, ho, hfl, hl⟩

/-- a snapshot relative to the initial world gives the frame condition of the contracts -/
theorem Snap.frame {s s' : DrvState} {d : Rf24} {r : Radio} (h : Snap s' d r s.w) (hd : d.rid = s.d.rid)
    (hl : r.lastRx = s.radio.lastRx) : DrvFrame s s' := by
  refine ⟨by rw [h.d_eq]; exact hd, h.len, ?_, h.faults, ?_⟩
  · intro j hj
    exact h.others j (by rw [hd]; exact hj)
  · rw [h.radio_eq]; exact hl

/-! ### one SPI transaction on the chip, command by command -/

/-- the first byte clocked out is STATUS as it was before the command -/
theorem xfer_status (r : Radio) (c : Nat) (b : Bytes) (x : Nat) : ((r.xfer (c :: b)).2).headD x = r.status := rfl

theorem writeReg_txFifo (r : Radio) (reg : Nat) (b : Bytes) : (r.writeReg reg b).txFifo = r.txFifo := by
  unfold Radio.writeReg
  split <;> first | rfl | (split <;> rfl)

theorem xfer_wreg (r : Radio) (reg v : Nat) (hr : reg < 0x20) :
    (r.xfer [0x20 ||| reg, v]).1 = r.writeReg reg [v] := xfer_wreg_cfg r reg v hr

theorem xfer_wregs (r : Radio) (reg : Nat) (b : Bytes) (hr : reg < 0x20) (hb : b ≠ []) :
    (r.xfer ((0x20 ||| reg) :: b)).1 = r.writeReg reg b := xfer_wregs_cfg r reg b hr hb

theorem xfer_flushTx (r : Radio) : r.xfer [0xE1] = ({ r with txFifo := [] }, [r.status]) := by
  simp [Radio.xfer, Radio.runCmd, Radio.decodeCmd, zeros]
theorem xfer_nop (r : Radio) : r.xfer [0xFF] = (r, [r.status]) := by
  simp [Radio.xfer, Radio.runCmd, Radio.decodeCmd, zeros]
theorem xfer_clearFlags (r : Radio) : r.xfer [0x27, 0x70] = ({ r with flags := 0 }, [r.status, 0]) := by
  simp [Radio.xfer, Radio.runCmd, Radio.decodeCmd, zeros, Radio.writeReg]
theorem xfer_clearDr (r : Radio) :
    r.xfer [0x27, 0x40] = ({ r with flags := r.flags &&& 0x30 }, [r.status, 0]) := by
  simp [Radio.xfer, Radio.runCmd, Radio.decodeCmd, zeros, Radio.writeReg]
theorem xfer_wTx (r : Radio) (pay : Bytes) (hf : r.txFifo = []) (hp : pay ≠ []) :
    r.xfer (0xA0 :: pay) =
      ({ r with txFifo := [{ kind := .payload, data := pay.take 32 }] }, r.status :: zeros pay.length) := by
  have hne : pay.isEmpty = false := by cases pay <;> simp at hp ⊢
  simp [Radio.xfer, Radio.runCmd, Radio.decodeCmd, Radio.writePayload, Radio.txFull, hf, hne]

/-- R_RX_PL_WID -/
theorem xfer_plWid_nil (r : Radio) (hf : r.rxFifo = []) : r.xfer [0x60, 0] = (r, [r.status, 0]) := by
  have : Radio.decodeCmd 0x60 = .rRxPlWid := by decide
  simp [Radio.xfer, this, Radio.runCmd, Radio.clockOut, zeros, hf]

theorem xfer_plWid_cons (r : Radio) (e : RxEntry) (rest : List RxEntry) (hf : r.rxFifo = e :: rest) :
    r.xfer [0x60, 0] = (r, [r.status, e.data.length]) := by
  have : Radio.decodeCmd 0x60 = .rRxPlWid := by decide
  simp [Radio.xfer, this, Radio.runCmd, Radio.clockOut, zeros, hf]

/-- R_RX_PAYLOAD of exactly the head payload's length -/
theorem xfer_rxPayload (r : Radio) (e : RxEntry) (rest : List RxEntry) (hf : r.rxFifo = e :: rest)
    (hl : 1 ≤ e.data.length) :
    r.xfer (0x61 :: zeros e.data.length) =
      ({ r with rxFifo := rest, lastByte := e.data.getLastD (e.data.getLastD r.lastByte) },
       r.status :: e.data) := by
  have hd : Radio.decodeCmd 0x61 = .rRxPayload := by decide
  have hne : ¬ e.data.length = 0 := by omega
  simp only [Radio.xfer, hd, Radio.runCmd, Radio.readPayload, hf, zeros, List.length_replicate, hne, ↓reduceIte]
  rw [List.take_left' rfl]

/-! ### bits -/

theorem and_7F_of_lt {x : Nat} (h : x < 128) : x &&& 0x7F = x :=
  (by decide : ∀ y : Fin 128, y.val &&& 0x7F = y.val) ⟨x, h⟩

theorem and_3F_of_lt {x : Nat} (h : x < 64) : x &&& 0x3F = x :=
  (by decide : ∀ y : Fin 64, y.val &&& 0x3F = y.val) ⟨x, h⟩

/-- the CONFIG byte `listen = is_rx` computes from a 7-bit CONFIG -/
theorem cfg_listen {c : Nat} (h : c < 128) (b : Nat) (hb : b < 2) :
    (c &&& 0xFC ||| (2 + b)) < 128 ∧ (c &&& 0xFC ||| (2 + b)) &&& 2 ≠ 0 ∧
    ((c &&& 0xFC ||| (2 + b)) &&& 1 ≠ 0 ↔ b = 1) ∧ (c &&& 0xFC ||| (2 + b)) &&& 4 = c &&& 4 :=
  (by decide : ∀ (y : Fin 128) (z : Fin 2),
      (y.val &&& 0xFC ||| (2 + z.val)) < 128 ∧ (y.val &&& 0xFC ||| (2 + z.val)) &&& 2 ≠ 0 ∧
      ((y.val &&& 0xFC ||| (2 + z.val)) &&& 1 ≠ 0 ↔ z.val = 1) ∧
      (y.val &&& 0xFC ||| (2 + z.val)) &&& 4 = y.val &&& 4) ⟨c, h⟩ ⟨b, hb⟩

/-! ### the RX_P_NO field of STATUS -/

theorem rxField (k p t : Nat) (hk : k < 8) (hp : p < 8) (ht : t < 2) :
    (((16 * k) ||| (p <<< 1) ||| t) >>> 1) &&& 7 = p := by
  have : ∀ k : Fin 8, ∀ p : Fin 8, ∀ t : Fin 2,
      (((16 * k.val) ||| (p.val <<< 1) ||| t.val) >>> 1) &&& 7 = p.val := by decide
  exact this ⟨k, hk⟩ ⟨p, hp⟩ ⟨t, ht⟩

theorem and70 (f : Nat) : ∃ k, k < 8 ∧ f &&& 0x70 = 16 * k := by
  refine ⟨(f &&& 0x70) / 16, ?_, ?_⟩
  · have : f &&& 0x70 ≤ 0x70 := Nat.and_le_right
    omega
  · have h : (f &&& 0x70) % 16 = 0 := by
      have : (f &&& 0x70) &&& 15 = 0 := by rw [Nat.and_assoc]; simp
      rw [← Nat.and_two_pow_sub_one_eq_mod _ 4]; exact this
    omega

/-- the RX_P_NO field of the STATUS byte as the driver extracts it -/
theorem status_field (r : Radio) (hp : r.rxPNo < 8) : (r.status >>> 1) &&& 7 = r.rxPNo := by
  unfold Radio.status
  obtain ⟨k, hk, he⟩ := and70 r.flags
  rw [he]
  exact rxField k _ _ hk hp (by split <;> omega)

end Nrf.L3
