/-
Helper layer for C12 / C06: the queue *by value*.  `VQ` forgets object identity; the bridge lemmas
show that every operation of the object-level model (`QState`, frames in a heap) acts on the
abstraction `QState.abs` like the corresponding value-level function, **provided the caller only
passes in / mutates objects that are not stored in the queue** — which is exactly the content of
"private copies": an accepted frame is stored as a *new* object, so nothing the caller holds
aliases the queue (except what `peek()` returned).
-/
import NrfModel.Net.Queue

namespace Nrf.Proofs
open Nrf.Net

structure VQ where
  items : List Frame
  maxSize : Int
  frag : Bool
  cache : Frame
  cacheValid : Bool
  nextId : Nat

def abs (s : QState) : VQ := ⟨s.contents, s.maxSize, s.frag, s.cache, s.cacheValid, s.nextId⟩

/-- every stored object id is an allocated one -/
def WF (s : QState) : Prop := ∀ i ∈ s.queue, i < s.next

def full (fx : Fixes) (maxSize : Int) (len : Nat) : Bool :=
  if fx.capGe then decide (maxSize ≤ (len : Int)) else decide (maxSize = (len : Int))

/-- the private copy `new_frame.unpack(frame.pack())` of a frame whose `pack()` returned `img` -/
def copyOf (nextId : Nat) (img : Bytes) : Frame := ((Frame.fresh nextId).1.unpack img).1

def VQ.enqueueBase (fx : Fixes) (v : VQ) (f : Frame) : VQ × PyM Bool :=
  if full fx v.maxSize v.items.length then (v, .ok false)
  else if v.items.any (fun g => sameKey g f) then (v, .ok false)
  else
    match f.pack with
    | .error e => ({ v with nextId := (Frame.fresh v.nextId).2 }, .error e)
    | .ok img => ({ v with nextId := (Frame.fresh v.nextId).2,
                            items := v.items ++ [copyOf v.nextId img] }, .ok true)

/-- what `FrameQueueFrag.enqueue(frame)` decides to do, as a function of the cache and the frame's
    attribute values only -/
inductive FragAct where
  /-- not a fragment type: `FrameQueue.enqueue(frame)` -/
  | base
  /-- return without touching anything -/
  | ret (r : PyM Bool)
  /-- first fragment: the cache becomes `c` and valid -/
  | first (c : Frame)
  /-- middle fragment appended: the cache becomes `c` -/
  | more (c : Frame)
  /-- last fragment appended: the cache becomes `c` (type set), is handed to
      `FrameQueue.enqueue`; `ext`: the caller's frame gets type NETWORK_EXT_DATA by reference -/
  | last (c : Frame) (ext : Bool)

def fragAct (fx : Fixes) (cache : Frame) (cacheValid : Bool) (f : Frame) : FragAct :=
  if f.header.msgType = .int MSG_FRAG_FIRST ∨ f.header.msgType = .int MSG_FRAG_MORE
      ∨ f.header.msgType = .int MSG_FRAG_LAST then
    if f.header.msgType = .int MSG_FRAG_FIRST then
      match f.pack with
      | .error e => .ret (.error e)
      | .ok img => .first (cache.unpack img).1
    else if cacheValid
        && (!fx.matchOrigin || decide (f.header.fromNode = cache.header.fromNode))
        && decide (f.header.toNode = cache.header.toNode)
        && decide (f.header.frameId = cache.header.frameId) then
      let isLast := decide (f.header.msgType = .int MSG_FRAG_LAST)
      let inSeq :=
        if isLast then
          if fx.lastSeq then decide ((cache.header.reserved : Int) - 1 ≤ 1) else true
        else decide ((cache.header.reserved : Int) - 1 = (f.header.reserved : Int))
      if !inSeq then .ret (.ok false)
      else
        match f.header.pack with
        | .error e => .ret (.error e)
        | .ok hb =>
          let c : Frame := { header := (cache.header.unpack hb).1,
                             message := cache.message ++ f.message }
          if isLast then
            .last { c with header := { c.header with msgType := .int f.header.reserved } }
              (decide (f.header.reserved = NETWORK_EXT_DATA))
          else .more c
    else .ret (.ok false)
  else .base

/-- the caller's frame with `message_type = NETWORK_EXT_DATA` assigned -/
def extMark (f : Frame) : Frame :=
  { f with header := { f.header with msgType := .int NETWORK_EXT_DATA } }

def applyAct (fx : Fixes) (s : QState) (o : Nat) : FragAct → QState × PyM Bool
  | .base => s.enqueueBase fx (s.heap o)
  | .ret r => (s, r)
  | .first c => ({ s with cache := c, cacheValid := true }, .ok true)
  | .more c => ({ s with cache := c }, .ok true)
  | .last c ext =>
    let heap := if ext then hset s.heap o (extMark (s.heap o)) else s.heap
    let r := QState.enqueueBase fx { s with heap := heap, cache := c } c
    (if fx.invalidate then { r.1 with cacheValid := false } else r.1, r.2)

def applyActV (fx : Fixes) (v : VQ) (f : Frame) : FragAct → (VQ × PyM Bool) × Frame
  | .base => (v.enqueueBase fx f, f)
  | .ret r => ((v, r), f)
  | .first c => (({ v with cache := c, cacheValid := true }, .ok true), f)
  | .more c => (({ v with cache := c }, .ok true), f)
  | .last c ext =>
    let r := VQ.enqueueBase fx { v with cache := c } c
    ((if fx.invalidate then { r.1 with cacheValid := false } else r.1, r.2),
     if ext then extMark f else f)

/-- value-level `FrameQueueFrag.enqueue`; also returns the caller's frame after the call -/
def VQ.enqueueFrag (fx : Fixes) (v : VQ) (f : Frame) : (VQ × PyM Bool) × Frame :=
  applyActV fx v f (fragAct fx v.cache v.cacheValid f)

def VQ.enqueue (fx : Fixes) (v : VQ) (f : Frame) : (VQ × PyM Bool) × Frame :=
  if v.frag then v.enqueueFrag fx f else (v.enqueueBase fx f, f)

def VQ.dequeue (v : VQ) : VQ × Option Frame :=
  match v.items with
  | [] => (v, none)
  | f :: r => ({ v with items := r }, some f)

def VQ.setFragmentation (v : VQ) (enabled : Bool) : VQ :=
  if enabled = v.frag then v
  else if enabled then
    { v with frag := true, cache := (Frame.fresh v.nextId).1, cacheValid := true,
             nextId := (Frame.fresh v.nextId).2 }
  else { v with frag := false }

/-! ### bridge lemmas -/

theorem hset_other {h : Nat → Frame} {o i : Nat} {f : Frame} (hne : i ≠ o) : hset h o f i = h i := by
  simp [hset, hne]

theorem hset_same {h : Nat → Frame} {o : Nat} {f : Frame} : hset h o f o = f := by simp [hset]

theorem map_hset_notin {q : List Nat} {h : Nat → Frame} {o : Nat} {f : Frame} (hn : o ∉ q) :
    q.map (hset h o f) = q.map h := by
  apply List.map_congr_left
  intro i hi
  exact hset_other (fun e => hn (e ▸ hi))

theorem next_notin {s : QState} (hw : WF s) : s.next ∉ s.queue := fun h => Nat.lt_irrefl _ (hw _ h)

theorem abs_alloc (s : QState) (f : Frame) (hw : WF s) :
    abs (s.alloc f).1 = abs s ∧ WF (s.alloc f).1 ∧ (s.alloc f).2 = s.next ∧
      (s.alloc f).1.heap s.next = f ∧ (s.alloc f).1.next = s.next + 1 ∧
      (s.alloc f).1.queue = s.queue ∧ (∀ i, i ≠ s.next → (s.alloc f).1.heap i = s.heap i) := by
  refine ⟨?_, ?_, rfl, hset_same, rfl, rfl, fun i hi => hset_other hi⟩
  · simp only [abs, QState.alloc, QState.contents, map_hset_notin (next_notin hw)]
  · intro i hi; exact Nat.lt_succ_of_lt (hw i hi)

theorem abs_mutate (s : QState) (o : Nat) (f : Frame) (hw : WF s) (ho : o ∉ s.queue) :
    abs (s.mutate o f) = abs s ∧ WF (s.mutate o f) ∧ (s.mutate o f).queue = s.queue ∧
      (s.mutate o f).next = s.next := by
  refine ⟨?_, hw, rfl, rfl⟩
  simp only [abs, QState.mutate, QState.contents, map_hset_notin ho]

theorem any_contents (s : QState) (f : Frame) :
    s.queue.any (fun i => sameKey (s.heap i) f) = s.contents.any (fun g => sameKey g f) := by
  simp [QState.contents, List.any_map, Function.comp_def]

theorem enqueueBase_def (fx : Fixes) (s : QState) (f : Frame) :
    s.enqueueBase fx f =
      if full fx s.maxSize s.queue.length then (s, .ok false)
      else if s.contents.any (fun g => sameKey g f) then (s, .ok false)
      else match f.pack with
        | .error e => ({ s with nextId := (Frame.fresh s.nextId).2 }, .error e)
        | .ok img =>
          ({ s with nextId := (Frame.fresh s.nextId).2,
                    heap := hset s.heap s.next (copyOf s.nextId img), next := s.next + 1,
                    queue := s.queue ++ [s.next] }, .ok true) := by
  unfold QState.enqueueBase full
  rw [any_contents]
  rfl

/-- `FrameQueue.enqueue`: the stored frame is a **new** object; nothing allocated before changes -/
theorem abs_enqueueBase (fx : Fixes) (s : QState) (f : Frame) (hw : WF s) :
    abs (s.enqueueBase fx f).1 = ((abs s).enqueueBase fx f).1 ∧
      (s.enqueueBase fx f).2 = ((abs s).enqueueBase fx f).2 ∧ WF (s.enqueueBase fx f).1 ∧
      (∀ i, i < s.next → (s.enqueueBase fx f).1.heap i = s.heap i) ∧
      s.next ≤ (s.enqueueBase fx f).1.next ∧
      (∀ i ∈ (s.enqueueBase fx f).1.queue, i ∈ s.queue ∨ s.next ≤ i) := by
  rw [enqueueBase_def]
  unfold VQ.enqueueBase
  have hlen : (abs s).items.length = s.queue.length := by simp [abs, QState.contents]
  have hit : (abs s).items = s.contents := rfl
  have hmx : (abs s).maxSize = s.maxSize := rfl
  rw [hlen, hit, hmx]
  by_cases hf : full fx s.maxSize s.queue.length = true
  · simp only [hf, ↓reduceIte]
    first | exact ⟨rfl, rfl, hw, fun _ _ => rfl, Nat.le_refl _, fun i hi => Or.inl hi⟩ | exact ⟨trivial, trivial, hw, fun _ _ => trivial, Nat.le_refl _, fun i hi => Or.inl hi⟩
  · simp only [hf, Bool.false_eq_true, ↓reduceIte]
    by_cases hd : s.contents.any (fun g => sameKey g f) = true
    · simp only [hd, ↓reduceIte]
      first | exact ⟨rfl, rfl, hw, fun _ _ => rfl, Nat.le_refl _, fun i hi => Or.inl hi⟩ | exact ⟨trivial, trivial, hw, fun _ _ => trivial, Nat.le_refl _, fun i hi => Or.inl hi⟩
    · simp only [hd, Bool.false_eq_true, ↓reduceIte]
      cases hp : f.pack with
      | error e => first | exact ⟨rfl, rfl, hw, fun _ _ => rfl, Nat.le_refl _, fun i hi => Or.inl hi⟩ | exact ⟨trivial, trivial, hw, fun _ _ => trivial, Nat.le_refl _, fun i hi => Or.inl hi⟩
      | ok img =>
        refine ⟨?_, rfl, ?_, ?_, Nat.le_succ _, ?_⟩
        · simp only [abs, QState.contents, List.map_append, List.map_cons, List.map_nil, hset_same,
            map_hset_notin (next_notin hw)]
        · intro i hi
          simp only [List.mem_append, List.mem_singleton] at hi
          rcases hi with hi | rfl
          · exact Nat.lt_succ_of_lt (hw i hi)
          · exact Nat.lt_succ_self _
        · intro i hi; exact hset_other (Nat.ne_of_lt hi)
        · intro i hi
          simp only [List.mem_append, List.mem_singleton] at hi
          rcases hi with hi | rfl
          · exact Or.inl hi
          · exact Or.inr (Nat.le_refl _)

/-- the six facts every bridge lemma delivers -/
structure Bridge (s s' : QState) (r : PyM Bool) (v' : VQ × PyM Bool) : Prop where
  abs_eq : abs s' = v'.1
  res_eq : r = v'.2
  wf : WF s'
  next_le : s.next ≤ s'.next
  queue_new : ∀ i ∈ s'.queue, i ∈ s.queue ∨ s.next ≤ i

theorem Bridge.refl (s : QState) (hw : WF s) (r : PyM Bool) : Bridge s s r (abs s, r) :=
  ⟨rfl, rfl, hw, Nat.le_refl _, fun _ hi => Or.inl hi⟩

theorem bridge_base (fx : Fixes) (s : QState) (f : Frame) (hw : WF s) :
    Bridge s (s.enqueueBase fx f).1 (s.enqueueBase fx f).2 ((abs s).enqueueBase fx f) := by
  obtain ⟨h1, h2, h3, _, h5, h6⟩ := abs_enqueueBase fx s f hw
  exact ⟨h1, h2, h3, h5, h6⟩

/-- the model's `enqueueFrag` is "decide, then act" -/
theorem enqueueFrag_act (fx : Fixes) (s : QState) (o : Nat) :
    s.enqueueFrag fx o = applyAct fx s o (fragAct fx s.cache s.cacheValid (s.heap o)) := by
  unfold QState.enqueueFrag fragAct
  simp only
  by_cases h1 : (s.heap o).header.msgType = .int MSG_FRAG_FIRST ∨
      (s.heap o).header.msgType = .int MSG_FRAG_MORE ∨ (s.heap o).header.msgType = .int MSG_FRAG_LAST
  · simp only [h1, ↓reduceIte]
    by_cases h2 : (s.heap o).header.msgType = .int MSG_FRAG_FIRST
    · simp only [h2, ↓reduceIte]
      cases hp : (s.heap o).pack <;> rfl
    · simp only [h2, ↓reduceIte]
      split
      · by_cases hl : (s.heap o).header.msgType = .int MSG_FRAG_LAST
        · simp only [hl, decide_true, ↓reduceIte]
          generalize (if fx.lastSeq = true then decide ((s.cache.header.reserved : Int) - 1 ≤ 1)
            else true) = inSeq
          cases inSeq
          · rfl
          · simp only [Bool.not_true, Bool.false_eq_true, ↓reduceIte]
            cases hp : (s.heap o).header.pack with
            | error e => rfl
            | ok hb =>
              simp only [applyAct, extMark]
              by_cases he : (s.heap o).header.reserved = NETWORK_EXT_DATA <;> simp [he]
        · simp only [hl, decide_false, Bool.false_eq_true, ↓reduceIte]
          generalize decide ((s.cache.header.reserved : Int) - 1 = ((s.heap o).header.reserved : Int))
            = inSeq
          cases inSeq
          · rfl
          · simp only [Bool.not_true, Bool.false_eq_true, ↓reduceIte]
            cases hp : (s.heap o).header.pack <;> rfl
      · rfl
  · simp only [h1, ↓reduceIte]
    rfl

/-- `FrameQueueFrag.enqueue(frame)` for a frame object that is not stored in the queue -/
theorem bridge_frag (fx : Fixes) (s : QState) (o : Nat) (hw : WF s) (ho : o ∉ s.queue)
    (hlt : o < s.next) :
    Bridge s (s.enqueueFrag fx o).1 (s.enqueueFrag fx o).2 ((abs s).enqueueFrag fx (s.heap o)).1 ∧
      (s.enqueueFrag fx o).1.heap o = ((abs s).enqueueFrag fx (s.heap o)).2 ∧
      (∀ i, i < s.next → i ≠ o → (s.enqueueFrag fx o).1.heap i = s.heap i) := by
  rw [enqueueFrag_act]
  unfold VQ.enqueueFrag
  have hc : (abs s).cache = s.cache := rfl
  have hcv : (abs s).cacheValid = s.cacheValid := rfl
  rw [hc, hcv]
  cases fragAct fx s.cache s.cacheValid (s.heap o) with
  | base =>
    obtain ⟨h1, h2, h3, h4, h5, h6⟩ := abs_enqueueBase fx s (s.heap o) hw
    exact ⟨⟨h1, h2, h3, h5, h6⟩, h4 o hlt, fun i hi _ => h4 i hi⟩
  | ret r => exact ⟨Bridge.refl s hw _, rfl, fun _ _ _ => rfl⟩
  | first c => exact ⟨⟨rfl, rfl, hw, Nat.le_refl _, fun _ hi => Or.inl hi⟩, rfl, fun _ _ _ => rfl⟩
  | more c => exact ⟨⟨rfl, rfl, hw, Nat.le_refl _, fun _ hi => Or.inl hi⟩, rfl, fun _ _ _ => rfl⟩
  | last c ext =>
    simp only [applyAct, applyActV]
    generalize hheap : (if ext = true then hset s.heap o (extMark (s.heap o)) else s.heap) = heap'
    have hcont : s.queue.map heap' = s.contents := by
      rw [← hheap]; split
      · exact map_hset_notin ho
      · rfl
    have hw1 : WF { s with heap := heap', cache := c } := hw
    have habs1 : abs { s with heap := heap', cache := c } = { abs s with cache := c } := by
      simp only [abs, QState.contents, hcont]
    obtain ⟨b1, b2, b3, b4, b5, b6⟩ := abs_enqueueBase fx { s with heap := heap', cache := c } c hw1
    rw [habs1] at b1 b2
    have hheapo : heap' o = (if ext = true then extMark (s.heap o) else s.heap o) := by
      rw [← hheap]; split
      · exact hset_same
      · rfl
    have hheapi : ∀ i, i ≠ o → heap' i = s.heap i := by
      intro i hi; rw [← hheap]; split
      · exact hset_other hi
      · rfl
    refine ⟨⟨?_, b2, ?_, ?_, ?_⟩, ?_, ?_⟩
    · cases fx.invalidate
      · simpa using b1
      · have := congrArg (fun v : VQ => { v with cacheValid := false }) b1
        simp only [↓reduceIte]
        exact this
    · cases fx.invalidate <;> exact b3
    · cases fx.invalidate <;> exact b5
    · cases fx.invalidate <;> exact b6
    · have := b4 o hlt
      cases fx.invalidate <;> simp only [Bool.false_eq_true, ↓reduceIte] <;> rw [this] <;>
        exact hheapo
    · intro i hi hne
      have := b4 i hi
      cases fx.invalidate <;> simp only [Bool.false_eq_true, ↓reduceIte] <;> rw [this] <;>
        exact hheapi i hne

end Nrf.Proofs
