/-
C06 helper: histories.  The object-level run (`QState.runEv`) acts on the abstraction like the
value-level run; the invariant `VInv` along a history; from the invariant to the spec's `SafeOut`.
-/
import NrfProofs.ReasmInv

namespace Nrf.Proofs
open Nrf.Net Nrf.Spec

def VQ.runEv (fx : Fixes) : VQ → List Ev → VQ × List Frame
  | v, [] => (v, [])
  | v, .deliver f :: es => VQ.runEv fx (v.enqueue fx f).1.1 es
  | v, .read :: es =>
    let r := v.dequeue
    let t := VQ.runEv fx r.1 es
    (t.1, match r.2 with | some g => g :: t.2 | none => t.2)

/-- frames delivered by a history, in order -/
def delivered : List Ev → List Frame
  | [] => []
  | .deliver f :: es => f :: delivered es
  | .read :: es => delivered es

theorem abs_deliver (fx : Fixes) (s : QState) (f : Frame) (hw : WF s) :
    abs ((s.alloc f).1.enqueue fx (s.alloc f).2).1 = ((abs s).enqueue fx f).1.1 ∧
      WF ((s.alloc f).1.enqueue fx (s.alloc f).2).1 := by
  obtain ⟨a1, a2, a3, a4, a5, a6, _⟩ := abs_alloc s f hw
  rw [a3]
  unfold QState.enqueue VQ.enqueue
  have hfr : (s.alloc f).1.frag = (abs s).frag := rfl
  rw [hfr]
  by_cases hf : (abs s).frag = true
  · simp only [hf, ↓reduceIte]
    have hnot : s.next ∉ (s.alloc f).1.queue := by rw [a6]; exact next_notin hw
    obtain ⟨b, _, _⟩ := bridge_frag fx (s.alloc f).1 s.next a2 hnot (by rw [a5]; omega)
    rw [a1, a4] at b
    exact ⟨b.abs_eq, b.wf⟩
  · simp only [hf, Bool.false_eq_true, ↓reduceIte]
    have b := bridge_base fx (s.alloc f).1 ((s.alloc f).1.heap s.next) a2
    rw [a1] at b
    rw [a4] at b ⊢
    exact ⟨b.abs_eq, b.wf⟩

theorem abs_dequeue (s : QState) (hw : WF s) :
    abs s.dequeue.1 = (abs s).dequeue.1 ∧ WF s.dequeue.1 ∧
      s.dequeue.2.map s.dequeue.1.heap = (abs s).dequeue.2 := by
  unfold VQ.dequeue
  rcases dequeue_contents s with ⟨h1, h2, h3⟩ | ⟨o, h1, h2, h3, h4, h5, h6, h7⟩
  · have : (abs s).items = [] := h2
    rw [this, h1, h3]
    exact ⟨rfl, hw, rfl⟩
  · have : (abs s).items = s.heap o :: s.dequeue.1.contents := h2
    rw [this, h1]
    refine ⟨?_, ?_, by simp [h4]⟩
    · simp only [abs, h5, h7]
      unfold QState.dequeue
      cases hs : s.queue with
      | nil => simp [hs] at h3
      | cons a r => rfl
    · intro i hi; rw [h6]; exact hw i (by rw [h3]; simp [hi])

theorem abs_runEv (fx : Fixes) (es : List Ev) : ∀ (s : QState), WF s →
    abs (s.runEv fx es).1 = (VQ.runEv fx (abs s) es).1 ∧
      (s.runEv fx es).2 = (VQ.runEv fx (abs s) es).2 ∧ WF (s.runEv fx es).1 := by
  induction es with
  | nil => intro s hw; exact ⟨rfl, rfl, hw⟩
  | cons e es ih =>
    intro s hw
    cases e with
    | deliver f =>
      obtain ⟨h1, h2⟩ := abs_deliver fx s f hw
      obtain ⟨i1, i2, i3⟩ := ih _ h2
      simp only [QState.runEv, VQ.runEv]
      rw [h1] at i1 i2
      exact ⟨i1, i2, i3⟩
    | read =>
      obtain ⟨h1, h2, h3⟩ := abs_dequeue s hw
      obtain ⟨i1, i2, i3⟩ := ih _ h2
      simp only [QState.runEv, VQ.runEv]
      rw [h1] at i1 i2
      refine ⟨i1, ?_, i3⟩
      rw [← h3, i2]
      cases s.dequeue.2 <;> rfl

/-- the invariant along a value-level history whose deliveries are frames of sent messages -/
theorem vinv_run (sent : List Msg) (hs : SentOk sent) (es : List Ev) :
    ∀ (v : VQ) (rcv : List Frame), VInv sent rcv v →
      (∀ f, Ev.deliver f ∈ es → ∃ w, IsFrameOf sent w ∧ f = ofW w) →
      VInv sent (rcv ++ delivered es) (VQ.runEv Fixes.all v es).1 ∧
        ∀ g ∈ (VQ.runEv Fixes.all v es).2, ∃ m ∈ sent, IsWholeOf m g ∧ Complete m (rcv ++ delivered es) := by
  induction es with
  | nil => intro v rcv hv _; exact ⟨by simpa [delivered, VQ.runEv] using hv, by simp [VQ.runEv]⟩
  | cons e es ih =>
    intro v rcv hv hes
    cases e with
    | deliver f =>
      obtain ⟨w, hw, rfl⟩ := hes f (by simp)
      have h1 := vinv_deliver sent rcv v hs hv w hw
      have hen : (v.enqueue Fixes.all (ofW w)).1.1 = (v.enqueueFrag Fixes.all (ofW w)).1.1 := by
        simp [VQ.enqueue, hv.frag]
      rw [← hen] at h1
      have := ih _ _ h1 (fun f hf => hes f (by simp [hf]))
      simpa [VQ.runEv, delivered, List.append_assoc] using this
    | read =>
      obtain ⟨h1, h2⟩ := vinv_dequeue sent rcv v hv
      obtain ⟨i1, i2⟩ := ih _ _ h1 (fun f hf => hes f (by simp [hf]))
      simp only [VQ.runEv, delivered]
      refine ⟨i1, ?_⟩
      intro g hg
      cases hd : v.dequeue.2 with
      | none => rw [hd] at hg; exact i2 g hg
      | some a =>
        rw [hd] at hg
        simp only [List.mem_cons] at hg
        rcases hg with rfl | hg
        · obtain ⟨m, hm, hw, hc⟩ := h2 g hd
          exact ⟨m, hm, hw, hc.mono _⟩
        · exact i2 g hg

theorem vinv_init (sent : List Msg) (hs : SentOk sent) (n : Nat) : VInv sent [] (abs (QState.init n)) := by
  refine ⟨rfl, fun g hg => by simp [abs, QState.init, QState.contents, Frame.fresh] at hg, fun _ => Or.inl ?_⟩
  intro m hm
  have := (hs.1 m hm).2.1
  simpa [abs, QState.init, Frame.fresh] using fun h => this h.symm

/-- from the invariant's facts about a handed-out frame to the spec's predicate -/
theorem safeOut_of (sent : List Msg) (hs : SentOk sent) (rcv : List Frame) (g : Frame) (m : Msg)
    (hm : m ∈ sent) (hw : IsWholeOf m g) (hc : Complete m rcv) : SafeOut sent (rcv.map toW) (toW g) := by
  obtain ⟨w1, w2, w3, w4, w5⟩ := hw
  refine ⟨m, hm, ⟨w1, w2, w3, by simp [toW, w4], w5⟩, ?_⟩
  intro f hf
  by_cases hfr : Fragd m
  · have hnot : ¬ (m.body.length ≤ FRAG_SIZE) := by unfold Fragd at hfr; unfold FRAG_SIZE; omega
    simp only [refFrames, hnot, ↓reduceIte, List.mem_map, List.mem_range] at hf
    obtain ⟨k, hk, rfl⟩ := hf
    refine ⟨fragment m (total m) k, ?_, rfl, rfl, rfl, rfl, rfl, fun _ => rfl⟩
    exact List.mem_map.mpr ⟨_, hc.1 hfr k hk, rfl⟩
  · have hle : m.body.length ≤ FRAG_SIZE := by unfold Fragd at hfr; unfold FRAG_SIZE; omega
    simp only [refFrames, hle, ↓reduceIte, List.mem_singleton] at hf
    subst hf
    obtain ⟨g0, hg0, v1, v2, v3, v4, v5⟩ := hc.2 hfr
    refine ⟨toW g0, List.mem_map.mpr ⟨g0, hg0, rfl⟩, v1, v2, v3, by simp [toW, v4], v5, ?_⟩
    intro hty
    have := (hs.1 m hm).2.2.2.2.2.2 hfr
    simp only at hty
    rcases hty with h | h | h
    · exact absurd h this.1
    · exact absurd h this.2.1
    · exact absurd h this.2.2

end Nrf.Proofs
