/-
C13 helper lemmas, part 3 (closed system): the NETWORK_ACK round trip over a two-hop route
`origin — router — destination`, loss-free, under the driver contracts.
-/
import NrfProofs.C05RouteTop
import NrfProofs.C13Trace

namespace Nrf.Net
open Nrf Nrf.Spec Nrf.Proofs Nrf.Props.C04

/-! ### tree: neighbours are mutual -/

theorem nextHop_back {x d : List Nat} (hxd : x ≠ d) : nextHopSpec (nextHopSpec x d) x = x := by
  rcases nextHop_parent_or_child hxd with ⟨hne, hp⟩ | ⟨hp, hne⟩
  · -- the hop is the parent of `x`
    rw [hp]
    unfold parent
    have hpre : x.dropLast <+: x := List.dropLast_prefix x
    rw [nextHop_of_prefix hpre, List.length_dropLast]
    have : 0 < x.length := List.length_pos_iff.mpr hne
    rw [Nat.sub_add_cancel this, List.take_length]
  · -- the hop is a child of `x`
    have hnp : ¬ nextHopSpec x d <+: x := by
      intro h
      have h1 := h.length_le
      have h2 : (nextHopSpec x d).length = x.length + 1 := by
        have := congrArg List.length hp
        unfold parent at this
        rw [List.length_dropLast] at this
        have : 0 < (nextHopSpec x d).length := List.length_pos_iff.mpr hne
        omega
      omega
    rw [nextHop_of_not_prefix hnp]
    exact hp

/-! ### `_write_to_pipe`, piecewise -/

/-- the radio set-up of `_write_to_pipe` (unicast) from any state of the node's radio, and what
    remains to be done: the `send()` of the node layer -/
theorem tx_setup (hc : L3Contracts) (f : Nat) (s : NetState) (L : LinkCfg) (Pa : List Bytes)
    (rx ce : Bool) (aa tn tp : Nat) (A pk : Bytes)
    (hcur : s.cur < s.nodes.length) (hWf : s.drv.Wf)
    (hN : NodeRadio L Pa rx ce aa s.node.rf s.drv.radio)
    (haddr : pipeAddress s.node.cfg tn tp = .ok A) (hAlen : A.length = 5)
    (hmsg : s.node.frameBuf.message.length ≤ MAX_FRAG_SIZE)
    (hpk : s.node.frameBuf.pack = .ok pk) (hnl : tn ≠ s.node.a.addr) :
    ∃ D3 : DrvState, DrvFrame s.drv D3 ∧ NodeRadio L Pa false false 0x3F D3.d D3.radio ∧
      D3.radio.rxFifo = s.drv.radio.rxFifo ∧ D3.radio.txAddr = A ∧ D3.radio.rxAddr0 = A ∧
      nexec (nodeWriteToPipe (f + 1) tn tp false) s =
        match nexec (rfSend f pk) (s.afterRf D3) with
        | (.ok true, s') => (.ok true, s')
        | (.ok false, s') => nexec (txStandbyFor f s.node.txTimeout) s'
        | (.error e, s') => (.error e, s') := by
  obtain ⟨D1, e1, F1, N1, x1, _, _⟩ := hc.setAA s.drv L Pa rx ce aa 0x3F hWf hN (Or.inr rfl)
  obtain ⟨D2, e2, F2, N2, x2⟩ := hc.listenOff D1 L Pa rx ce 0x3F (F1.wf hWf) N1
  obtain ⟨D3, e3, F3, N3, x3, a3, t3⟩ := hc.openTx D2 L Pa false A ((F1.trans F2).wf hWf) N2 hAlen
  refine ⟨D3, (F1.trans F2).trans F3, N3, by rw [x3, x2, x1], t3, a3, ?_⟩
  rw [nodeWriteToPipe.eq_2, nexec_bind, nexec_getNode]
  have hno : ¬ (tn = s.node.a.addr ∧ (!false) = true) := fun h => hnl h.1
  simp only [if_neg hno, Bool.false_eq_true, if_false]
  have e63 : (62 + 1 : Int) = ((63 : Nat) : Int) := by decide
  rw [e63, nexec_bind, nexec_liftRf_ok _ s _ D1 e1]
  simp only []
  rw [nexec_bind, nexec_liftRf_ok _ _ _ D2 (by rw [afterRf_drv s D1 hcur]; exact e2), afterRf_afterRf]
  simp only []
  have hpa : nexec (pipeAddr tn tp) (s.afterRf D2) = (.ok A, s.afterRf D2) := by
    unfold Nrf.Net.pipeAddr
    rw [nexec_bind, nexec_getNode]
    simp only []
    rw [afterRf_node s D2 hcur]
    simp only []
    rw [haddr, nexec_liftPy_ok]
  rw [nexec_bind, hpa]
  simp only []
  rw [nexec_bind, nexec_liftRf_ok _ _ _ D3 (by rw [afterRf_drv s D2 hcur]; exact e3), afterRf_afterRf]
  simp only []
  rw [nexec_bind, nexec_getNode]
  simp only []
  rw [afterRf_node s D3 hcur]
  simp only [hmsg, if_true]
  rw [nexec_bind]
  have : (Frame.pack s.node.frameBuf) = .ok pk := hpk
  rw [this, nexec_liftPy_ok]
  simp only []
  rw [nexec_bind]
  rcases nexec (rfSend f pk) (s.afterRf D3) with ⟨r, s'⟩
  cases r with
  | error e => rfl
  | ok b => cases b <;> rfl

/-- `send()` of the node layer in the closed system: first the scheduling point, then the driver -/
theorem rfSend_closed (f : Nat) (pk : Bytes) (s : NetState) (hclosed : s.closed = true) :
    nexec (rfSend (f + 1) pk) s =
      match nexec (runOthers f 0) s with
      | (.ok _, s1) =>
        match nexec (liftRf (Rf24.send pk false false 0 true)) s1 with
        | (.ok r, s2) => (.ok (sendRes r), s2)
        | (.error e, s2) => (.error e, s2)
      | (.error e, s1) => (.error e, s1) := by
  rw [rfSend.eq_2, nexec_bind, nexec_get]
  simp only [hclosed, if_true]
  rw [nexec_bind]
  rcases nexec (runOthers f 0) s with ⟨r, s1⟩
  cases r with
  | error e => rfl
  | ok _ =>
    simp only []
    rw [nexec_bind]
    rcases nexec (liftRf (Rf24.send pk false false 0 true)) s1 with ⟨r2, s2⟩
    cases r2 <;> rfl

/-- `_handle_frame_for_this_node(NETWORK_ACK)`: not consumed, returned to `_net_update`'s caller -/
theorem handleThis_ack (f : Nat) (s : NetState) :
    nexec (handleThis (f + 1) NETWORK_ACK) s = (.ok (false, NETWORK_ACK), s) := by
  rw [handleThis.eq_2]
  have c1 : (NETWORK_ACK = NETWORK_PING) = False := eq_false (by decide)
  have c2 : (NETWORK_ACK = MESH_ADDR_RESPONSE) = False := eq_false (by decide)
  have c3 : (NETWORK_ACK = MESH_ADDR_REQUEST) = False := eq_false (by decide)
  have c5 : (NETWORK_ACK ≠ MSG_FRAG_FIRST ∧ NETWORK_ACK ≠ MSG_FRAG_MORE ∧ NETWORK_ACK ≠ MSG_FRAG_LAST ∧
      NETWORK_ACK ≠ NETWORK_EXT_DATA) = True := eq_true (by decide)
  simp only [nexec_bind, nexec_getNode, c1, c2, c3, c5, false_and, if_false, or_true, if_true, nexec_pure]

/-! ### sleeping changes the clock only -/

/-- the state after `time.sleep` -/
def NetState.slept (s : NetState) (ns : Nat) : NetState := { s with w := s.w.sleep ns }

theorem writePrelude_routed_ack (s : NetState) (t wd : Nat) (hhop : wd = (logi2phys s.node.a wd TX_ROUTED).1)
    (ht : 64 < t ∧ t < 192) : writePrelude s t wd TX_ROUTED = s.slept 2000000 := by
  unfold writePrelude
  rw [if_pos ⟨rfl, hhop, ht⟩]
  rfl

@[simp] theorem slept_cur (s : NetState) (n : Nat) : (s.slept n).cur = s.cur := rfl
@[simp] theorem slept_active (s : NetState) (n : Nat) : (s.slept n).active = s.active := rfl
@[simp] theorem slept_nodes (s : NetState) (n : Nat) : (s.slept n).nodes = s.nodes := rfl
@[simp] theorem slept_closed (s : NetState) (n : Nat) : (s.slept n).closed = s.closed := rfl
theorem slept_node (s : NetState) (n : Nat) : (s.slept n).node = s.node := rfl
theorem slept_nodeAt (s : NetState) (n k : Nat) : (s.slept n).nodeAt k = s.nodeAt k := rfl
theorem slept_radio (s : NetState) (n r : Nat) : (s.slept n).w.radio r = s.w.radio r := rfl
theorem slept_radioAt (s : NetState) (n k : Nat) : (s.slept n).radioAt k = s.radioAt k := rfl
theorem slept_ridAt (s : NetState) (n k : Nat) : (s.slept n).ridAt k = s.ridAt k := rfl
theorem slept_faults (s : NetState) (n : Nat) : (s.slept n).w.faults = s.w.faults := rfl
theorem slept_rlen (s : NetState) (n : Nat) : (s.slept n).w.radios.length = s.w.radios.length := rfl
theorem slept_drv_radio (s : NetState) (n : Nat) : (s.slept n).drv.radio = s.drv.radio := rfl
theorem slept_drv_d (s : NetState) (n : Nat) : (s.slept n).drv.d = s.drv.d := rfl

theorem Same.slept (s : NetState) (n : Nat) : Same s (s.slept n) :=
  ⟨rfl, rfl, fun _ => ⟨rfl, rfl, rfl, rfl, rfl⟩, rfl, fun _ _ => rfl⟩

/-! ### the destination's `update()`, without the whole-network invariant -/

/-- the state after the destination took the frame: read, dispatched, enqueued, read again -/
def NetState.delivered (s : NetState) (fr : Frame) (D1 D2 : DrvState) : NetState :=
  (((s.afterRf D1).withFrame fr).enqueued fr).afterRf D2

theorem dest_update (hc : L3Contracts) (f : Nat) (s : NetState) (L : LinkCfg) (P : List Bytes)
    (p : Nat) (pk : Bytes) (fr : Frame) (t : Nat) (d : List Nat)
    (hcur : s.cur < s.nodes.length) (hclosed : s.closed = true) (hfuel : s.nodes.length + 2 ≤ f)
    (hq : Quiet s) (hWf : s.drv.Wf) (hN : NodeRadio L P true true 0x3E s.node.rf s.drv.radio)
    (harr : s.node.arrivals = []) (hkind : s.node.kind ≠ .meshMaster) (haddr : s.node.a = nodeSpec d)
    (hfifo : s.drv.radio.rxFifo = [{ pipe := p, data := pk }]) (hp : p ≤ 5)
    (hwire : wireCopy fr = fr) (hfr : fr.header.msgType = .int t) (hpk : fr.pack = .ok pk)
    (hmsg : fr.message.length ≤ MAX_FRAG_SIZE) (hto : fr.header.toNode = val d) (hd : IsNode d)
    (hvf : isValid fr.header.fromNode = true) (hty : t ≤ MAX_USR_DEF_MSG_TYPE)
    (hacc : Accepts s.node.queue fr) :
    ∃ D1 D2 : DrvState, nexec (nodeUpdate (f + 4)) s = (.ok t, s.delivered fr D1 D2) ∧
      DrvFrame s.drv D1 ∧ DrvFrame D1 D2 ∧ NodeRadio L P true true 0x3E D2.d D2.radio ∧ D2.radio.rxFifo = [] := by
  have hm : t &&& 0xFF = t := by
    have h2 : (wireCopy fr).header.ty = t &&& 0xFF := by simp [wireCopy, Header.ty, hfr]
    rw [hwire] at h2
    have h1 : fr.header.ty = t := by simp [Header.ty, hfr]
    rw [h1] at h2; exact h2.symm
  obtain ⟨D1, D2, e, F1, F2, N2, x2⟩ := netUpdate_deliver hc f s L P p pk fr t hcur hclosed hfuel hq hWf hN harr
    hfifo hp hfr hpk hmsg (by rw [hwire, hto, haddr]; rfl) (by rw [hwire, hto]; exact isValid_val hd)
    (by rw [hwire]; exact hvf) (by rw [hm]; exact hty) hacc.1 (by rw [hwire]; exact hacc.2)
  rw [hm, hwire] at e
  refine ⟨D1, D2, ?_, F1, F2, N2, x2⟩
  show nexec (nodeUpdate ((f + 3) + 1)) s = _
  refine nodeUpdate_plain (f + 3) s _ t e ?_
  have hc1 : (s.afterRf D1).cur < (s.afterRf D1).nodes.length := by simpa using hcur
  have hc2 : ((s.afterRf D1).withFrame fr).cur < ((s.afterRf D1).withFrame fr).nodes.length := by simpa using hcur
  have hc3 : (((s.afterRf D1).withFrame fr).enqueued fr).cur <
      (((s.afterRf D1).withFrame fr).enqueued fr).nodes.length := by simpa using hcur
  unfold NetState.delivered
  rw [afterRf_node _ _ hc3, enqueued_node _ _ hc2, withFrame_node _ _ hc1, afterRf_node _ _ hcur]
  exact hkind

/-- per-node view of the state after the destination's update -/
theorem delivered_facts (s : NetState) (fr : Frame) (D1 D2 : DrvState) (hcur : s.cur < s.nodes.length)
    (F1 : DrvFrame s.drv D1) (F2 : DrvFrame D1 D2) :
    (s.delivered fr D1 D2).cur = s.cur ∧ (s.delivered fr D1 D2).active = s.active ∧
    (s.delivered fr D1 D2).closed = s.closed ∧ (s.delivered fr D1 D2).w = D2.w ∧
    (s.delivered fr D1 D2).nodes.length = s.nodes.length ∧
    (∀ k, k ≠ s.cur → (s.delivered fr D1 D2).nodeAt k = s.nodeAt k) ∧
    ((s.delivered fr D1 D2).nodeAt s.cur).rf = D2.d ∧
    ((s.delivered fr D1 D2).nodeAt s.cur).queue.frames = s.node.queue.frames ++ [fr] ∧
    (∀ k, (s.delivered fr D1 D2).ridAt k = s.ridAt k) := by
  have hc1 : (s.afterRf D1).cur < (s.afterRf D1).nodes.length := by simpa using hcur
  have hc2 : ((s.afterRf D1).withFrame fr).cur < ((s.afterRf D1).withFrame fr).nodes.length := by simpa using hcur
  have hc3 : (((s.afterRf D1).withFrame fr).enqueued fr).cur <
      (((s.afterRf D1).withFrame fr).enqueued fr).nodes.length := by simpa using hcur
  have hnode : (s.delivered fr D1 D2).nodeAt s.cur =
      ((Node.pushFrame { s.node with rf := D1.d, frameBuf := fr } fr).withRf D2.d) := by
    show (s.delivered fr D1 D2).node = _
    unfold NetState.delivered
    rw [afterRf_node _ _ hc3, enqueued_node _ _ hc2, withFrame_node _ _ hc1, afterRf_node _ _ hcur]
    rfl
  have hne : ∀ k, k ≠ s.cur → (s.delivered fr D1 D2).nodeAt k = s.nodeAt k := by
    intro k hk
    unfold NetState.delivered
    rw [nodeAt_afterRf_ne _ _ _ (by simpa using hk), nodeAt_enqueued_ne _ _ _ (by simpa using hk),
      nodeAt_withFrame_ne _ _ _ (by simpa using hk), nodeAt_afterRf_ne _ _ _ hk]
  refine ⟨rfl, rfl, rfl, rfl, by unfold NetState.delivered; simp, hne, by rw [hnode]; rfl, by rw [hnode]; rfl, ?_⟩
  intro k
  by_cases hk : k = s.cur
  · subst hk
    unfold NetState.ridAt
    rw [hnode]
    show D2.d.rid = _
    rw [F2.rid, F1.rid]; rfl
  · unfold NetState.ridAt; rw [hne k hk]

/-- an `RF24` call of the running node with the frame conditions of the contracts -/
theorem Same.ofFrame (s : NetState) (D : DrvState) (hcur : s.cur < s.nodes.length) (F : DrvFrame s.drv D) :
    Same s (s.afterRf D) :=
  Same.afterRf s D hcur F.rid F.len (fun ρ hρ => F.others ρ (fun e => hρ s.cur hcur (e ▸ rfl)))

theorem Same.delivered (s : NetState) (fr : Frame) (D1 D2 : DrvState) (hcur : s.cur < s.nodes.length)
    (F1 : DrvFrame s.drv D1) (F2 : DrvFrame D1 D2) : Same s (s.delivered fr D1 D2) := by
  unfold NetState.delivered
  have hc3 : (((s.afterRf D1).withFrame fr).enqueued fr).cur <
      (((s.afterRf D1).withFrame fr).enqueued fr).nodes.length := by simpa using hcur
  have hd3 : (((s.afterRf D1).withFrame fr).enqueued fr).drv = D1 := by
    unfold NetState.drv
    have hc1 : (s.afterRf D1).cur < (s.afterRf D1).nodes.length := by simpa using hcur
    have hc2 : ((s.afterRf D1).withFrame fr).cur < ((s.afterRf D1).withFrame fr).nodes.length := by simpa using hcur
    rw [enqueued_node _ _ hc2, withFrame_node _ _ hc1, afterRf_node _ _ hcur]
    rfl
  exact ((Same.ofFrame s D1 hcur F1).trans ((Same.withFrame _ fr).trans (Same.enqueued _ fr))).trans
    (Same.ofFrame _ D2 hc3 (by rw [hd3]; exact F2))

/-! ### the frame and its acknowledgement -/

/-- a single-frame user message in wire form whose type asks for a NETWORK_ACK, from `x` to `d` -/
structure AckTransit (fr : Frame) (pk : Bytes) (t : Nat) (x d : List Nat) : Prop where
  wire : wireCopy fr = fr
  ty : fr.header.msgType = .int t
  ack : 64 < t ∧ t < 192
  usr : t ≤ MAX_USR_DEF_MSG_TYPE
  dst : fr.header.toNode = val d
  src : fr.header.fromNode = val x
  pack : fr.pack = .ok pk
  len : fr.message.length ≤ MAX_FRAG_SIZE
  hd : IsNode d
  hx : IsNode x

/-- the NETWORK_ACK the last router makes of a frame: type 193, addressed to the frame's origin -/
def ackOf (fr : Frame) : Frame :=
  { fr with header := { (fr.header.setTy NETWORK_ACK) with toNode := fr.header.fromNode } }

theorem ackOf_wire {fr : Frame} (h : wireCopy fr = fr) : wireCopy (ackOf fr) = ackOf fr := by
  have hf : fr.header.fromNode &&& 0xFFF = fr.header.fromNode := by
    have := congrArg (fun g => g.header.fromNode) h
    simpa [wireCopy] using this
  have hi : fr.header.frameId &&& 0xFFFF = fr.header.frameId := by
    have := congrArg (fun g => g.header.frameId) h
    simpa [wireCopy] using this
  have hr : fr.header.reserved &&& 0xFF = fr.header.reserved := by
    have := congrArg (fun g => g.header.reserved) h
    simpa [wireCopy] using this
  unfold wireCopy ackOf
  simp only [Header.setTy, Header.ty, hf, hi, hr]
  rfl

theorem ackOf_pack (fr : Frame) : ∃ pkA, (ackOf fr).pack = .ok pkA := by
  unfold Frame.pack
  rw [pack_int (ackOf fr).header NETWORK_ACK rfl]
  exact ⟨_, rfl⟩

/-! ### the last router -/

/-- **The last router of an acknowledged frame** (`y`, between the origin `x` and the destination
    `d`, both its neighbours): its `update()` reads the frame, pauses 2 ms, delivers it to `d`, turns
    it into a NETWORK_ACK for `x` and sends that — the destination taking its frame at the scheduling
    point of this second transmission — and listens again.  Afterwards the whole network listens,
    the destination's queue has gained the frame, and the origin's radio holds exactly the
    NETWORK_ACK. -/
theorem router_ack (hc : L3Contracts) (cfg : AddrCfg) (hcfg : CfgOk cfg) (L : LinkCfg) (tree : Nat → List Nat)
    (fr : Frame) (pk : Bytes) (t : Nat) (x y d : List Nat) (T : AckTransit fr pk t x d)
    (hndef : ∀ i, val (tree i) ≠ NETWORK_DEFAULT_ADDR)
    (s : NetState) (r a jd g : Nat) (hok : NetOk cfg L tree s) (hcur : s.cur = r)
    (hr : r < s.nodes.length) (ha : a < s.nodes.length) (hjd : jd < s.nodes.length)
    (htr : tree r = y) (hta : tree a = x) (htd : tree jd = d)
    (hy1 : nextHopSpec x d = y) (hy2 : nextHopSpec y d = d) (hxd : x ≠ d) (hyd : y ≠ d)
    (hjda : jd ∉ s.active) (hract : r ∈ s.active) (haact : a ∈ s.active)
    (p : Nat) (hp : p ≤ 5) (hfifo : (s.radioAt r).rxFifo = [{ pipe := p, data := pk }])
    (hempty : ∀ k, k < s.nodes.length → k ≠ r → (s.radioAt k).rxFifo = [])
    (hlast_d : NotDup (s.radioAt jd) pk) (hlast_a : NotDupFrame (s.radioAt a) (ackOf fr))
    (hacc : Accepts (s.nodeAt jd).queue fr) (hg : s.nodes.length + 2 ≤ g) :
    ∃ s' pkA, (ackOf fr).pack = .ok pkA ∧ nexec (nodeUpdate (g + 11 + jd)) s = (.ok 0, s') ∧
      NetOk cfg L tree s' ∧ s'.cur = r ∧ s'.active = s.active ∧ Same s s' ∧
      (s'.radioAt a).rxFifo = [{ pipe := hopPipe y x, data := pkA }] ∧
      (∀ k, k < s.nodes.length → k ≠ a → (s'.radioAt k).rxFifo = []) ∧
      (∀ k, k < s.nodes.length →
        (s'.nodeAt k).queue.frames = (s.nodeAt k).queue.frames ++ (if k = jd then [fr] else [])) := by
  have hxy : x ≠ y := by rw [← hy1]; exact fun e => nextHop_ne_self hxd e.symm
  have hra : r ≠ a := fun e => hxy (by rw [← hta, ← htr, e])
  have hrjd : r ≠ jd := fun e => hyd (by rw [← htr, ← htd, e])
  have hajd : a ≠ jd := fun e => hxd (by rw [← hta, ← htd, e])
  obtain ⟨hn1, hn2, hn3, hn4, hn5, hn6⟩ := hok.node r hr
  rw [htr] at hn1 hn2
  obtain ⟨P, hP, hN⟩ := hok.radio r hr
  rw [htr] at hP
  obtain ⟨Pd, hPd, hNd⟩ := hok.radio jd hjd
  rw [htd] at hPd
  obtain ⟨Pa, hPa, hNa⟩ := hok.radio a ha
  rw [hta] at hPa
  have hq : Quiet s := fun k hk hkc _ => hempty k hk (by rw [hcur] at hkc; exact hkc)
  have hnode : s.node = s.nodeAt r := by rw [← hcur]; rfl
  have hdrv_rad : s.drv.radio = s.radioAt r := by rw [← hcur]; rfl
  have hridr : s.ridAt r = s.drv.d.rid := by rw [← hcur]; rfl
  have hWf : s.drv.Wf := by unfold DrvState.Wf; show s.node.rf.rid < s.w.radios.length; rw [hnode]; exact hn6
  have hT1 : fr.header.ty = t := by simp [Header.ty, T.ty]
  -- 1. the read
  obtain ⟨D1, e1, F1, N1, x1⟩ := rfRead_head hc (g + 8 + jd) s L P true true 0x3E (by rw [hcur]; exact hr)
    hok.closed (by omega) hq hWf (by rw [hnode, hdrv_rad]; exact hN) (by rw [hnode]; exact hn4)
    (by
      intro e he
      rw [hdrv_rad, hfifo] at he
      simp only [List.mem_singleton] at he
      subst he
      have := pack_length T.pack
      have := T.len
      unfold MAX_FRAG_SIZE at *
      exact ⟨hp, by simp only []; omega, by simp only []; omega⟩)
  rw [hdrv_rad, hfifo] at e1 x1
  simp only [List.head?_cons, Option.map_some, List.tail_cons] at e1 x1
  generalize hs1 : s.afterRf D1 = s1 at e1
  have hs1c : s1.cur = r := by rw [← hs1]; exact hcur
  have hs1l : s1.nodes.length = s.nodes.length := by rw [← hs1]; simp
  have hs1n : s1.node = { s.nodeAt r with rf := D1.d } := by
    rw [← hs1, afterRf_node s D1 (by rw [hcur]; exact hr), hnode]
  have hs1at : ∀ k, k ≠ r → s1.nodeAt k = s.nodeAt k := by
    intro k hk; rw [← hs1, nodeAt_afterRf_ne s D1 k (by rw [hcur]; exact hk)]
  have hs1w : s1.w = D1.w := by rw [← hs1]; rfl
  -- 2. dispatch: forward
  have hun : s1.node.frameBuf.unpack pk = (fr, true) := by
    have := unpack_of_pack fr s1.node.frameBuf t T.ty pk T.pack
    rw [T.wire] at this; exact this
  have hs2n0 : (s1.withFrame fr).node = { s.nodeAt r with rf := D1.d, frameBuf := fr } := by
    rw [withFrame_node _ _ (by rw [hs1c, hs1l]; exact hr), hs1n]
  have hto : val d ≠ s1.node.a.addr := by
    rw [hs1n]
    show val d ≠ (s.nodeAt r).a.addr
    rw [hn2]
    exact fun e => hyd (val_inj hn1.1 T.hd.1 e.symm)
  have step1 : nexec (netUpdate (g + 10 + jd) 0) s =
      match nexec (nodeWrite (g + 8 + jd) (val d) TX_ROUTED) (s1.withFrame fr) with
      | (.ok _, s3) => nexec (netUpdate (g + 9 + jd) 0) s3
      | (.error e, s3) => (.error e, s3) := by
    rw [show g + 10 + jd = (g + 9 + jd) + 1 from by omega, netUpdate_step,
      show g + 9 + jd = (g + 8 + jd) + 1 from by omega, e1]
    simp only [hun, T.dst, T.src, isValid_val T.hd, isValid_val T.hx, Bool.not_true, Bool.or_self,
      Bool.false_eq_true, if_false]
    simp only [if_neg hto]
    rw [handleOther_forward (g + 8 + jd) _ _
      (by rw [hs2n0]; right; show fr.header.toNode ≠ _; rw [T.dst]; exact val_ne_multicast T.hd)
      (by rw [hs2n0]; show (s.nodeAt r).a.addr ≠ _; rw [hn2]; have := hndef r; rw [htr] at this; exact this),
      hs2n0]
    simp only [T.dst]
    rcases nexec (nodeWrite (g + 8 + jd) (val d) TX_ROUTED) (s1.withFrame fr) with ⟨rr, s3⟩
    cases rr <;> rfl
  -- 3. the state being forwarded from
  generalize hs2 : s1.withFrame fr = s2 at step1 hs2n0
  have hs2n : s2.node = { s.nodeAt r with rf := D1.d, frameBuf := fr } := hs2n0
  have hs2cur : s2.cur = r := by rw [← hs2]; exact hs1c
  have hs2l : s2.nodes.length = s.nodes.length := by rw [← hs2]; simp; exact hs1l
  have hs2w : s2.w = D1.w := by rw [← hs2]; exact hs1w
  have hs2a : s2.active = s.active := by rw [← hs2, ← hs1]; rfl
  have hs2cl : s2.closed = true := by rw [← hs2, ← hs1]; exact hok.closed
  have hs2at : ∀ k, k ≠ r → s2.nodeAt k = s.nodeAt k := by
    intro k hk; rw [← hs2, nodeAt_withFrame_ne _ _ _ (by rw [hs1c]; exact hk), hs1at k hk]
  have hs2rid : ∀ k, s2.ridAt k = s.ridAt k := by
    intro k
    by_cases hk : k = r
    · subst hk
      have : s2.nodeAt k = s2.node := by rw [← hs2cur]; rfl
      unfold NetState.ridAt
      rw [this, hs2n]
      show D1.d.rid = _
      rw [F1.rid]; exact hridr.symm
    · unfold NetState.ridAt; rw [hs2at k hk]
  have hs2rad : ∀ k, k < s.nodes.length → k ≠ r → s2.radioAt k = s.radioAt k := by
    intro k hk hkr
    unfold NetState.radioAt
    rw [hs2rid, hs2w, F1.others _ (by rw [← hridr]; exact (hok.inj k r hk hr hkr).2)]
    rfl
  have hs2drv : s2.drv = D1 := by
    unfold NetState.drv; rw [hs2n, hs2w]
  -- the first hop: to the destination, after the 2 ms pause
  obtain ⟨hp1, hp5⟩ : 1 ≤ hopPipe y d ∧ hopPipe y d ≤ 5 := by
    have := C04_listens cfg hcfg y d hn1 T.hd hyd TX_ROUTED (Or.inr rfl)
    exact ⟨this.1, this.2.1⟩
  obtain ⟨A, hA1, hA2, hA3⟩ := listen_addrs cfg hcfg d T.hd Pd hPd (hopPipe y d) hp1 hp5
  have hl2p : logi2phys s2.node.a (val d) TX_ROUTED = (val d, hopPipe y d, false) := by
    rw [hs2n]; show logi2phys (s.nodeAt r).a _ _ = _
    rw [hn2, l2p_tree hn1 T.hd (Or.inr rfl), hy2]
  obtain ⟨D, e3, r3, l3, f3, N3, x3, lr3, ⟨pid, hrb⟩, hoth3⟩ := hop_single hc (g + 6 + jd) (s2.slept 2000000) L P Pd jd
    (hopPipe y d) (val d) (hopPipe y d) A pk
    (by simp; rw [hs2cur, hs2l]; exact hr) hs2cl (by simp; rw [hs2l]; omega)
    (by
      intro k hk hkc hka
      simp at hk hkc
      rw [hs2cur] at hkc; rw [hs2l] at hk
      rw [slept_radioAt, hs2rad k hk hkc]; exact hempty k hk hkc)
    (by
      unfold DrvState.Wf
      show s2.drv.d.rid < s2.drv.w.radios.length
      rw [hs2drv]; exact F1.wf hWf)
    (by rw [slept_node, slept_drv_radio, hs2n, hs2drv]; exact N1)
    (by simp; rw [hs2l]; exact hjd) (by simp; rw [hs2cur]; exact fun e => hrjd e.symm)
    (by simp; rw [hs2a]; exact hjda)
    (by
      intro k hk hkc
      simp at hk hkc
      rw [slept_ridAt, slept_ridAt, hs2rid, hs2rid]
      simp; rw [hs2cur]
      rw [hs2l] at hk; rw [hs2cur] at hkc
      exact (hok.inj k r hk hr hkc).2)
    (by rw [slept_nodeAt, slept_radioAt, hs2at jd (fun e => hrjd e.symm), hs2rad jd hjd (fun e => hrjd e.symm)]; exact hNd)
    (by rw [slept_node, hs2n]; show pipeAddress (s.nodeAt r).cfg _ _ = _; rw [hn3]; exact hA1)
    hA2 hp1 hp5 hA3 (by rw [slept_radioAt, hs2rad jd hjd (fun e => hrjd e.symm)]; exact hlast_d)
    (by
      intro ρ pid hri hrj
      rw [slept_ridAt] at hri hrj
      simp at hri
      rw [hs2rid, hs2cur] at hri; rw [hs2rid] at hrj
      rw [slept_radio, hs2w, F1.others ρ (by rw [← hridr]; exact hri)]
      exact hok.hothers (i := r) hcfg hjd (by rw [htd]; exact hPd) hp1 hp5 hA2 pk ρ pid hri hrj)
    (by rw [slept_faults, hs2w, F1.faults]; exact hok.faults)
    (by rw [slept_node, hs2n]; exact T.len) (by rw [slept_node, hs2n]; exact T.pack)
    (by
      rw [slept_node, hs2n]; show _ ≠ (s.nodeAt r).a.addr; rw [hn2]
      exact fun e => hyd (val_inj hn1.1 T.hd.1 e.symm))
  have hrb' : D.w.radio (s.ridAt jd) = (s.radioAt jd).withRx [{ pipe := hopPipe y d, data := pk }]
      { pid := pid, addr := A, data := pk } := by
    rw [slept_ridAt, slept_radioAt, hs2rid jd, hs2rad jd hjd (fun e => hrjd e.symm), hempty jd hjd (fun e => hrjd e.symm)] at hrb
    rw [hrb]; rfl
  have hoth3' : ∀ ρ, ρ ≠ s.ridAt r → ρ ≠ s.ridAt jd → D.w.radio ρ = s.w.radio ρ := by
    intro ρ hri hrj
    rw [hoth3 ρ (by rw [slept_ridAt]; simp; rw [hs2rid, hs2cur]; exact hri) (by rw [slept_ridAt, hs2rid]; exact hrj),
      slept_radio, hs2w, F1.others ρ (by rw [← hridr]; exact hri)]
    rfl
  have hDrid : D.d.rid = s.ridAt r := by
    rw [r3, slept_node, hs2n]; show D1.d.rid = _; rw [F1.rid]; exact hridr.symm
  have hDfifo : D.radio.rxFifo = [] := by rw [x3, slept_drv_radio, hs2drv]; exact x1
  have hDW : D.Wf := by
    unfold DrvState.Wf
    rw [hDrid, l3, slept_rlen, hs2w, F1.len]; exact hn6
  -- 4. `_write` goes on: emit
  rw [show g + 8 + jd = (g + 7 + jd) + 1 from by omega,
    nodeWrite_step_raw (g + 7 + jd) (val d) TX_ROUTED s2 t (by rw [hs2n]; exact T.ty), hl2p,
    writePrelude_routed_ack s2 t (val d) (by rw [hl2p]) T.ack,
    show g + 7 + jd = (g + 6 + jd) + 1 from by omega, e3] at step1
  simp only [] at step1
  generalize hs3 : (s2.slept 2000000).afterRf D = s3 at step1
  have hs3c : s3.cur = r := by rw [← hs3]; exact hs2cur
  have hs3a : s3.active = s.active := by rw [← hs3]; exact hs2a
  have hs3l : s3.nodes.length = s.nodes.length := by rw [← hs3]; simp; exact hs2l
  have hs3w : s3.w = D.w := by rw [← hs3]; rfl
  have hs3cl : s3.closed = true := by rw [← hs3]; exact hs2cl
  have hs3n : s3.node = { s.nodeAt r with rf := D.d, frameBuf := fr } := by
    rw [← hs3, afterRf_node _ _ (by simp; rw [hs2cur, hs2l]; exact hr), slept_node, hs2n]
  have hs3at : ∀ k, k ≠ r → s3.nodeAt k = s.nodeAt k := by
    intro k hk; rw [← hs3, nodeAt_afterRf_ne _ _ _ (by simp; rw [hs2cur]; exact hk), slept_nodeAt, hs2at k hk]
  have hemit : (if True ∧ True ∧ s3.node.frameBuf.header.fromNode ≠ s3.node.a.addr then AckAction.emit
      else if val d ≠ val d ∧ (TX_ROUTED = TX_NORMAL ∨ TX_ROUTED = TX_LOGICAL) then AckAction.await
      else AckAction.none) = AckAction.emit := by
    rw [if_pos]
    refine ⟨trivial, trivial, ?_⟩
    rw [hs3n]; show fr.header.fromNode ≠ (s.nodeAt r).a.addr
    rw [T.src, hn2]
    exact fun e => hxy (val_inj T.hx.1 hn1.1 e)
  simp only [if_true, if_pos T.ack, true_and] at step1
  have hfrom : s3.node.frameBuf.header.fromNode ≠ s3.node.a.addr := by
    rw [hs3n]; show fr.header.fromNode ≠ (s.nodeAt r).a.addr
    rw [T.src, hn2]
    exact fun e => hxy (val_inj T.hx.1 hn1.1 e)
  rw [if_pos hfrom] at step1
  -- the acknowledgement and its hop back
  obtain ⟨pkA, hpkA⟩ := ackOf_pack fr
  have hback : nextHopSpec y x = x := by rw [← hy1]; exact nextHop_back hxd
  have hyx : y ≠ x := fun e => hxy e.symm
  obtain ⟨hq1, hq5⟩ : 1 ≤ hopPipe y x ∧ hopPipe y x ≤ 5 := by
    have := C04_listens cfg hcfg y x hn1 T.hx hyx TX_ROUTED (Or.inr rfl)
    exact ⟨this.1, this.2.1⟩
  obtain ⟨A', hA'1, hA'2, hA'3⟩ := listen_addrs cfg hcfg x T.hx Pa hPa (hopPipe y x) hq1 hq5
  have hA'len : A'.length = 5 := by
    obtain ⟨_, _, _, _, _, _, _, _, _, _, _, _, _, _, _, _, _, _, _, _, _, hPl, _⟩ := hNa
    exact hPl A' (List.mem_of_getElem? hA'2)
  have hl2p2 : logi2phys s3.node.a s3.node.frameBuf.header.fromNode TX_ROUTED = (val x, hopPipe y x, false) := by
    rw [hs3n]; show logi2phys (s.nodeAt r).a fr.header.fromNode _ = _
    rw [hn2, T.src, l2p_tree hn1 T.hx (Or.inr rfl), hback]
  -- the state with the acknowledgement in `frame_buf`
  generalize hs4 : (s3.setNode fun n => { n with frameBuf := { n.frameBuf with header :=
      { (n.frameBuf.header.setTy NETWORK_ACK) with toNode := n.frameBuf.header.fromNode } } }) = s4
  have hs4c : s4.cur = r := by rw [← hs4]; exact hs3c
  have hs4a : s4.active = s.active := by rw [← hs4]; exact hs3a
  have hs4l : s4.nodes.length = s.nodes.length := by rw [← hs4]; simp; exact hs3l
  have hs4w : s4.w = D.w := by rw [← hs4]; exact hs3w
  have hs4cl : s4.closed = true := by rw [← hs4]; exact hs3cl
  have hs4n : s4.node = { s.nodeAt r with rf := D.d, frameBuf := ackOf fr } := by
    rw [← hs4, node_setNode _ _ (by rw [hs3c, hs3l]; exact hr), hs3n]
    rfl
  have hs4at : ∀ k, k ≠ r → s4.nodeAt k = s.nodeAt k := by
    intro k hk
    rw [← hs4, nodeAt_setNode, if_neg (fun h => hk (h.1.trans hs3c)), hs3at k hk]
  have hs4drv : s4.drv = D := by unfold NetState.drv; rw [hs4n, hs4w]
  obtain ⟨Dt, Ft, Nt, xt, tt, at', eqt⟩ := tx_setup hc (g + 6 + jd) s4 L P false true 0x3F (val x) (hopPipe y x) A' pkA
    (by rw [hs4c, hs4l]; exact hr) (by rw [hs4drv]; exact hDW) (by rw [hs4n, hs4drv]; exact N3)
    (by rw [hs4n]; show pipeAddress (s.nodeAt r).cfg _ _ = _; rw [hn3]; exact hA'1) hA'len
    (by rw [hs4n]; exact T.len) (by rw [hs4n]; exact hpkA)
    (by rw [hs4n]; show _ ≠ (s.nodeAt r).a.addr; rw [hn2]; exact fun e => hxy (val_inj T.hx.1 hn1.1 e))
  rw [hs4drv] at Ft xt
  -- 5. the scheduling point of the second transmission: the destination takes its frame
  generalize hs5 : s4.afterRf Dt = s5 at eqt
  have hs5c : s5.cur = r := by rw [← hs5]; exact hs4c
  have hs5a : s5.active = s.active := by rw [← hs5]; exact hs4a
  have hs5l : s5.nodes.length = s.nodes.length := by rw [← hs5]; simp; exact hs4l
  have hs5w : s5.w = Dt.w := by rw [← hs5]; rfl
  have hs5cl : s5.closed = true := by rw [← hs5]; exact hs4cl
  have hs5n : s5.node = { s.nodeAt r with rf := Dt.d, frameBuf := ackOf fr } := by
    rw [← hs5, afterRf_node _ _ (by rw [hs4c, hs4l]; exact hr), hs4n]
  have hs5at : ∀ k, k ≠ r → s5.nodeAt k = s.nodeAt k := by
    intro k hk; rw [← hs5, nodeAt_afterRf_ne _ _ _ (by rw [hs4c]; exact hk), hs4at k hk]
  have hs5ati : s5.nodeAt r = s5.node := by rw [← hs5c]; rfl
  have hDtrid : Dt.d.rid = s.ridAt r := by rw [Ft.rid]; exact hDrid
  have hs5rid : ∀ k, s5.ridAt k = s.ridAt k := by
    intro k
    by_cases hk : k = r
    · subst hk; unfold NetState.ridAt; rw [hs5ati, hs5n]; exact hDtrid
    · unfold NetState.ridAt; rw [hs5at k hk]
  have hDtoth : ∀ ρ, ρ ≠ s.ridAt r → Dt.w.radio ρ = D.w.radio ρ := by
    intro ρ hρ; exact Ft.others ρ (by rw [hDrid]; exact hρ)
  have hs5radr : s5.radioAt r = Dt.radio := by
    unfold NetState.radioAt; rw [hs5rid, hs5w, ← hDtrid]; rfl
  have hs5radjd : s5.radioAt jd = (s.radioAt jd).withRx [{ pipe := hopPipe y d, data := pk }]
      { pid := pid, addr := A, data := pk } := by
    unfold NetState.radioAt
    rw [hs5rid, hs5w, hDtoth _ (hok.inj jd r hjd hr (fun e => hrjd e.symm)).2, hrb']
    rfl
  have hs5rad : ∀ k, k < s.nodes.length → k ≠ r → k ≠ jd → s5.radioAt k = s.radioAt k := by
    intro k hk hkr hkj
    unfold NetState.radioAt
    rw [hs5rid, hs5w, hDtoth _ (hok.inj k r hk hr hkr).2, hoth3' _ (hok.inj k r hk hr hkr).2 (hok.inj k jd hk hjd hkj).2]
  -- the destination's turn
  generalize hsj : s5.switchTo jd = sj
  have hsjc : sj.cur = jd := by rw [← hsj]; rfl
  have hsja : sj.active = jd :: s.active := by rw [← hsj]; show jd :: s5.active = _; rw [hs5a]
  have hsjl : sj.nodes.length = s.nodes.length := by rw [← hsj, (Same.switchTo s5 jd).len, hs5l]
  have hsjrad : ∀ k, sj.radioAt k = s5.radioAt k := by intro k; rw [← hsj]; exact radioAt_switchTo s5 jd k
  have hsjrf : ∀ k, (sj.nodeAt k).rf = (s5.nodeAt k).rf := by intro k; rw [← hsj]; exact rf_switchTo s5 jd k
  have hsjq : ∀ k, (sj.nodeAt k).queue = (s5.nodeAt k).queue := by intro k; rw [← hsj]; exact queue_switchTo s5 jd k
  have hsjstat := fun k => (Same.switchTo s5 jd).stat k
  rw [hsj] at hsjstat
  have hsjnode : sj.node = sj.nodeAt jd := by rw [← hsjc]; rfl
  have hjdr : jd ≠ r := fun e => hrjd e.symm
  obtain ⟨hd1, hd2, hd3, hd4, hd5, hd6⟩ := hok.node jd hjd
  rw [htd] at hd2
  have hsjdrad : sj.drv.radio = sj.radioAt jd := by rw [← hsjc]; rfl
  obtain ⟨Dj1, Dj2, ej, Fj1, Fj2, Nj2, xj2⟩ := dest_update hc g sj L Pd (hopPipe y d) pk fr t d
    (by rw [hsjc, hsjl]; exact hjd) (by rw [← hsj]; exact hs5cl) (by rw [hsjl]; exact hg)
    (by
      intro k hk hkc hka
      rw [hsjl] at hk; rw [hsjc] at hkc; rw [hsja] at hka
      simp only [List.mem_cons, not_or] at hka
      have hkr : k ≠ r := fun e => hka.2 (e ▸ hract)
      rw [hsjrad, hs5rad k hk hkr hkc]
      exact hempty k hk hkr)
    (by
      unfold DrvState.Wf
      show sj.node.rf.rid < sj.w.radios.length
      rw [hsjnode, hsjrf, hs5at jd hjdr]
      have : sj.w.radios.length = s.w.radios.length := by
        rw [← hsj]; show s5.w.radios.length = _
        rw [hs5w, Ft.len, l3, slept_rlen, hs2w, F1.len]; rfl
      rw [this]; exact hd6)
    (by
      rw [hsjdrad, hsjnode, hsjrf, hs5at jd hjdr, hsjrad, hs5radjd]
      exact hNd.withRx _ _ _ hp5)
    (by rw [hsjnode, (hsjstat jd).2.2.1, hs5at jd hjdr]; exact hd4)
    (by rw [hsjnode, (hsjstat jd).2.2.2.1, hs5at jd hjdr]; exact hd5)
    (by rw [hsjnode, (hsjstat jd).1, hs5at jd hjdr]; exact hd2)
    (by rw [hsjdrad, hsjrad, hs5radjd]; rfl) hp5 T.wire T.ty T.pack T.len T.dst T.hd
    (by rw [T.src]; exact isValid_val T.hx) T.usr
    (by rw [hsjnode, hsjq, hs5at jd hjdr]; exact hacc)
  obtain ⟨dc, da, dcl, dw, dl, dne, drf, dq, drid⟩ := delivered_facts sj fr Dj1 Dj2 (by rw [hsjc, hsjl]; exact hjd) Fj1 Fj2
  rw [hsjc] at dne drf dq
  generalize hsj' : sj.delivered fr Dj1 Dj2 = sj' at ej dc da dcl dw dl dne drf dq drid
  have Fj : DrvFrame sj.drv Dj2 := Fj1.trans Fj2
  have hsjdrid : sj.drv.d.rid = s.ridAt jd := by
    show sj.node.rf.rid = _; rw [hsjnode, hsjrf, hs5at jd hjdr]; rfl
  have hsjw : ∀ ρ, sj.w.radio ρ = Dt.w.radio ρ := by
    intro ρ; rw [← hsj]; show s5.w.radio ρ = _; rw [hs5w]
  -- 6. back in the router
  generalize hs6 : sj'.switchBack r jd = s6
  have hs6c : s6.cur = r := by rw [← hs6]; rfl
  have hs6a : s6.active = s.active := by
    rw [← hs6]; show sj'.active.erase jd = _; rw [da, hsja, List.erase_cons_head]
  have hs6l : s6.nodes.length = s.nodes.length := by
    rw [← hs6, (Same.switchBack sj' r jd).len, dl, hsjl]
  have hs6cl : s6.closed = true := by rw [← hs6]; show sj'.closed = true; rw [dcl, ← hsj]; exact hs5cl
  have hs6wr : ∀ ρ, s6.w.radio ρ = Dj2.w.radio ρ := by
    intro ρ; rw [← hs6]; show sj'.w.radio ρ = _; rw [dw]
  have hs6rf : ∀ k, (s6.nodeAt k).rf = (sj'.nodeAt k).rf := by
    intro k; rw [← hs6]; exact (nodeAt_switchBack sj' r jd k).1
  have hs6q : ∀ k, (s6.nodeAt k).queue = (sj'.nodeAt k).queue := by
    intro k; rw [← hs6]; exact (nodeAt_switchBack sj' r jd k).2
  have hs6rid : ∀ k, s6.ridAt k = s.ridAt k := by
    intro k
    unfold NetState.ridAt
    rw [hs6rf]
    show sj'.ridAt k = _
    rw [drid, ← hsj, ((Same.switchTo s5 jd).stat k).2.2.2.2, hs5rid]
    rfl
  have hs6rfr : (s6.nodeAt r).rf = Dt.d := by
    rw [hs6rf, dne r hrjd, hsjrf, hs5ati, hs5n]
  have hs6radjd : s6.radioAt jd = Dj2.radio := by
    unfold NetState.radioAt
    rw [hs6rid, hs6wr, ← hsjdrid, ← Fj.rid]; rfl
  have hs6rad : ∀ k, k < s.nodes.length → k ≠ jd → s6.radioAt k = s5.radioAt k := by
    intro k hk hkj
    unfold NetState.radioAt
    rw [hs6rid, hs6wr, Fj.others _ (by rw [hsjdrid]; exact (hok.inj k jd hk hjd hkj).2), hs5rid]
    show sj.w.radio _ = _
    rw [hsjw, hs5w]
  have hro : nexec (runOthers (g + 4 + 1 + jd) 0) s5 = (.ok (), s6) := by
    have := runOthers_one (g + 4) s5 sj' jd (.ok t) (by rw [hs5l]; exact hjd)
      ⟨by rw [hs5c]; exact hjdr, by rw [hs5a]; simpa using hjda,
       by
        show (!(s5.radioAt jd).rxFifo.isEmpty) = true
        rw [hs5radjd]; rfl,
       by
        show (s5.radioAt jd).rxMode = true
        rw [hs5radjd]
        exact (hNd.withRx _ _ _ hp5).rxMode⟩
      (by
        intro k hk hrun
        obtain ⟨h1, _, h3, _⟩ := hrun
        rw [hs5c] at h1
        have hkl : k < s.nodes.length := by omega
        have h3' : (!(s5.radioAt k).rxFifo.isEmpty) = true := h3
        rw [hs5rad k hkl h1 (by omega), hempty k hkl h1] at h3'
        simp at h3')
      (by rw [hsj]; exact ej) (by rw [dl, hsjl, hs5l]) (by rw [hs5l]; omega)
      (by
        intro k hk hkl hrun
        obtain ⟨h1, _, h3, _⟩ := hrun
        rw [hs5c, hs6] at h1 h3
        rw [hs6c] at h1
        have h3' : (!(s6.radioAt k).rxFifo.isEmpty) = true := h3
        rw [hs5l] at hkl
        rw [hs6rad k hkl (by omega), hs5rad k hkl h1 (by omega), hempty k hkl h1] at h3'
        simp at h3')
    rw [hs5c, hs6] at this
    exact this
  -- 7. the acknowledgement goes out
  have hs6n : s6.node = s6.nodeAt r := by rw [← hs6c]; rfl
  have hs6drvd : s6.drv.d = Dt.d := by show s6.node.rf = _; rw [hs6n]; exact hs6rfr
  have hρchain : ∀ ρ, ρ ≠ s.ridAt jd → s6.w.radio ρ = Dt.w.radio ρ := by
    intro ρ hρ
    rw [hs6wr, Fj.others ρ (by rw [hsjdrid]; exact hρ)]
    show sj.w.radio ρ = _
    exact hsjw ρ
  have hridrjd : s.ridAt r ≠ s.ridAt jd := (hok.inj r jd hr hjd hrjd).2
  have hridra : s.ridAt r ≠ s.ridAt a := (hok.inj r a hr ha hra).2
  have hridajd : s.ridAt a ≠ s.ridAt jd := (hok.inj a jd ha hjd hajd).2
  have hs6drvrad : s6.drv.radio = Dt.radio := by
    show s6.w.radio s6.drv.d.rid = _
    rw [hs6drvd, hDtrid, hρchain _ hridrjd, ← hDtrid]; rfl
  have hs6rada : s6.w.radio (s.ridAt a) = s.radioAt a := by
    rw [hρchain _ hridajd, hDtoth _ (fun e => hridra e.symm), hoth3' _ (fun e => hridra e.symm) hridajd]; rfl
  have hs6faults : s6.w.faults = [] := by
    rw [← hs6]; show sj'.w.faults = []
    rw [dw, Fj.faults, ← hsj]; show s5.w.faults = []
    rw [hs5w, Ft.faults]; exact f3
  have hs6rlen : s6.w.radios.length = s.w.radios.length := by
    rw [← hs6]; show sj'.w.radios.length = _
    rw [dw, Fj.len, ← hsj]; show s5.w.radios.length = _
    rw [hs5w, Ft.len, l3, slept_rlen, hs2w, F1.len]; rfl
  have hpkAl : pkA.length = 8 + fr.message.length := pack_length (fr := ackOf fr) hpkA
  have hkA : s6.drv.packet pkA = unicastPacket L A' pkA Dt.radio.nextPid := by
    unfold DrvState.packet
    rw [hs6drvrad]
    exact Nt.packet A' pkA tt hA'len
  have hrecvA := Radio.receive_idle hNa (hopPipe y x) A' pkA Dt.radio.nextPid hq1 hq5 hA'2 hA'3
    (by rw [hempty a ha (fun e => hra e.symm)]; decide) (fun e => hlast_a _ e hpkA)
  obtain ⟨D4, e4, r4, l4, f4, o4, N4, x4, lr4, _, _⟩ := hc.send s6.drv L P false pkA (s.ridAt a)
    (by unfold DrvState.Wf; rw [hs6drvd, hDtrid]; show _ < s6.w.radios.length; rw [hs6rlen]; exact hn6)
    (by rw [hs6drvd, hs6drvrad]; exact Nt) (by rw [hs6drvrad, tt, at'])
    (by omega) (by have := T.len; unfold MAX_FRAG_SIZE at this; omega) hs6faults
    (by rw [hs6drvd, hDtrid]; exact fun e => hridra e.symm)
    (by
      show ((s6.w.radio (s.ridAt a)).receive _).2 = _
      rw [hs6rada, hkA, hrecvA])
  have hD4rid : D4.d.rid = s.ridAt r := by rw [r4, hs6drvd]; exact hDtrid
  have hD4a : D4.w.radio (s.ridAt a) = (s.radioAt a).withRx [{ pipe := hopPipe y x, data := pkA }]
      { pid := Dt.radio.nextPid, addr := A', data := pkA } := by
    rw [o4 _ (by rw [hs6drvd, hDtrid]; exact fun e => hridra e.symm)]
    show ((s6.w.radio (s.ridAt a)).receive _).1 = _
    rw [hs6rada, hkA, hrecvA, hempty a ha (fun e => hra e.symm)]
    rfl
  have hD4oth : ∀ ρ, ρ ≠ s.ridAt r → ρ ≠ s.ridAt a → D4.w.radio ρ = s6.w.radio ρ := by
    intro ρ hρr hρa
    rw [o4 ρ (by rw [hs6drvd, hDtrid]; exact hρr)]
    show ((s6.w.radio ρ).receive _).1 = _
    rw [hkA]
    suffices h : (s6.w.radio ρ).listensTo (unicastPacket L A' pkA Dt.radio.nextPid) = none by
      rw [Radio.receive_ignore _ _ h]
    by_cases hρj : ρ = s.ridAt jd
    · subst hρj
      have : s6.w.radio (s.ridAt jd) = Dj2.radio := by
        have := hs6radjd
        unfold NetState.radioAt at this
        rw [hs6rid] at this; exact this
      rw [this]
      exact listensTo_none_of_no_match Nj2 A' pkA _
        (fun q hq => hok.addr_unique hcfg ha hjd (fun e => hajd e.symm) (by rw [hta]; exact hPa)
          (by rw [htd]; exact hPd) hq1 hq5 hq hA'2)
    · rw [hρchain ρ hρj, hDtoth ρ hρr, hoth3' ρ hρr hρj]
      exact hok.hothers (i := r) hcfg ha (by rw [hta]; exact hPa) hq1 hq5 hA'2 pkA ρ _ hρr hρa
  have hntp : nexec (nodeWriteToPipe (g + 6 + jd + 1) (val x) (hopPipe y x) false) s4 = (.ok true, s6.afterRf D4) := by
    rw [eqt, show g + 6 + jd = (g + 5 + jd) + 1 from by omega, rfSend_closed _ _ _ hs5cl,
      show g + 5 + jd = g + 4 + 1 + jd from by omega, hro]
    simp only []
    rw [nexec_liftRf_ok _ s6 _ D4 e4]
    rfl
  -- 8. listening again
  have hs6cur : s6.cur < s6.nodes.length := by rw [hs6c, hs6l]; exact hr
  have hD4W : D4.Wf := by unfold DrvState.Wf; rw [hD4rid, l4]; show _ < s6.w.radios.length; rw [hs6rlen]; exact hn6
  obtain ⟨D5, e5a, e5b, F5, N5, x5⟩ := restore hc s6 D4 L P true hs6cur hD4W N4
  have hemitval : nexec (ackCont (g + 6 + jd + 1) AckAction.emit true false) s3 = (.ok true, s6.afterRf D5) := by
    unfold ackCont
    simp only [nexec_bind, nexec_getNode, nexec_setHdr]
    rw [hl2p2]
    simp only []
    rw [hs4, hntp]
    simp only []
    rw [e5a]
    simp only [Bool.not_false, if_true, nexec_bind]
    rw [e5b]
    rfl
  rw [hemitval] at step1
  simp only [] at step1
  generalize hs8 : s6.afterRf D5 = s8 at step1
  have hs8c : s8.cur = r := by rw [← hs8]; exact hs6c
  have hs8a : s8.active = s.active := by rw [← hs8]; exact hs6a
  have hs8l : s8.nodes.length = s.nodes.length := by rw [← hs8]; simp; exact hs6l
  have hs8cl : s8.closed = true := by rw [← hs8]; exact hs6cl
  have hs8n : s8.node = { s6.nodeAt r with rf := D5.d } := by
    rw [← hs8, afterRf_node _ _ hs6cur, hs6n]
  have hs8at : ∀ k, k ≠ r → s8.nodeAt k = s6.nodeAt k := by
    intro k hk; rw [← hs8, nodeAt_afterRf_ne _ _ _ (by rw [hs6c]; exact hk)]
  have hs8drv : s8.drv = D5 := by rw [← hs8]; exact afterRf_drv s6 D5 hs6cur
  have hD5rid : D5.d.rid = s.ridAt r := by rw [F5.rid]; exact hD4rid
  have hD5oth : ∀ ρ, ρ ≠ s.ridAt r → D5.w.radio ρ = D4.w.radio ρ := by
    intro ρ hρ; exact F5.others ρ (by rw [hD4rid]; exact hρ)
  have hs8w : ∀ ρ, s8.w.radio ρ = D5.w.radio ρ := by intro ρ; rw [← hs8]; rfl
  have hs8rid : ∀ k, s8.ridAt k = s.ridAt k := by
    intro k
    by_cases hk : k = r
    · subst hk
      have : s8.nodeAt k = s8.node := by rw [← hs8c]; rfl
      unfold NetState.ridAt; rw [this, hs8n]; exact hD5rid
    · unfold NetState.ridAt; rw [hs8at k hk]; exact hs6rid k
  have hs8radr : s8.radioAt r = D5.radio := by
    unfold NetState.radioAt; rw [hs8rid, hs8w, ← hD5rid]; rfl
  have hs8rada : s8.radioAt a = (s.radioAt a).withRx [{ pipe := hopPipe y x, data := pkA }]
      { pid := Dt.radio.nextPid, addr := A', data := pkA } := by
    unfold NetState.radioAt; rw [hs8rid, hs8w, hD5oth _ (fun e => hridra e.symm), hD4a]
    rfl
  have hs8radjd : s8.radioAt jd = Dj2.radio := by
    have h6 := hs6radjd
    unfold NetState.radioAt at h6 ⊢
    rw [hs6rid] at h6
    rw [hs8rid, hs8w, hD5oth _ (fun e => hridrjd e.symm), hD4oth _ (fun e => hridrjd e.symm) (fun e => hridajd e.symm), h6]
  have hs8rad : ∀ k, k < s.nodes.length → k ≠ r → k ≠ a → k ≠ jd → s8.radioAt k = s.radioAt k := by
    intro k hk hkr hka hkj
    have h6 := hs6rad k hk hkj
    have h5 := hs5rad k hk hkr hkj
    unfold NetState.radioAt at h6 h5 ⊢
    rw [hs6rid] at h6; rw [hs5rid] at h5
    rw [hs8rid, hs8w, hD5oth _ (hok.inj k r hk hr hkr).2,
      hD4oth _ (hok.inj k r hk hr hkr).2 (hok.inj k a hk ha hka).2, h6, hs5rid, h5]
  have hD5fifo : D5.radio.rxFifo = [] := by
    rw [x5, x4, hs6drvrad, xt]; exact hDfifo
  -- 9. nothing more to read
  obtain ⟨D6, e6, F6, N6, x6⟩ := rfRead_head hc (g + 7 + jd) s8 L P true true 0x3E (by rw [hs8c, hs8l]; exact hr)
    hs8cl (by rw [hs8l]; omega)
    (by
      intro k hk hkc hka
      rw [hs8l] at hk; rw [hs8c] at hkc; rw [hs8a] at hka
      have hk_a : k ≠ a := fun e => hka (e ▸ haact)
      by_cases hkj : k = jd
      · subst hkj; rw [hs8radjd]; exact xj2
      · rw [hs8rad k hk hkc hk_a hkj]; exact hempty k hk hkc)
    (by rw [hs8drv]; exact F5.wf hD4W) (by rw [hs8n, hs8drv]; exact N5)
    (by
      rw [hs8n]; show (s6.nodeAt r).arrivals = []
      have h1 := ((Same.switchBack sj' r jd).stat r).2.2.1
      rw [hs6] at h1
      rw [h1, dne r hrjd, (hsjstat r).2.2.1]
      rw [hs5ati, hs5n]; exact hn4)
    (by rw [hs8drv, hD5fifo]; simp)
  rw [hs8drv, hD5fifo] at e6 x6
  simp only [List.head?_nil, Option.map_none, List.tail_nil] at e6 x6
  rw [show g + 9 + jd = (g + 8 + jd) + 1 from by omega, netUpdate_step,
    show g + 8 + jd = (g + 7 + jd) + 1 from by omega, e6] at step1
  simp only [] at step1
  -- 10. the result
  generalize hs9 : s8.afterRf D6 = s9 at step1
  have hs8cur : s8.cur < s8.nodes.length := by rw [hs8c, hs8l]; exact hr
  have hs9c : s9.cur = r := by rw [← hs9]; exact hs8c
  have hs9n : s9.node = { s8.node with rf := D6.d } := by rw [← hs9, afterRf_node _ _ hs8cur]
  have hs9atr : s9.nodeAt r = s9.node := by rw [← hs9c]; rfl
  have hs9at : ∀ k, k ≠ r → s9.nodeAt k = s6.nodeAt k := by
    intro k hk; rw [← hs9, nodeAt_afterRf_ne _ _ _ (by rw [hs8c]; exact hk), hs8at k hk]
  have hD6rid : D6.d.rid = s.ridAt r := by rw [F6.rid, hs8drv]; exact hD5rid
  -- the same network
  have hsame3 : Same s s3 := by
    rw [← hs3, ← hs2, ← hs1]
    refine (Same.ofFrame s D1 (by rw [hcur]; exact hr) F1).trans ((Same.withFrame _ fr).trans ?_)
    rw [hs1, hs2]
    refine (Same.slept s2 2000000).trans (Same.afterRf _ D (by simp; rw [hs2cur, hs2l]; exact hr) r3 l3 ?_)
    intro ρ hρ
    have h1 : ρ ≠ s.ridAt r := by
      have := hρ r (by simp; rw [hs2l]; exact hr)
      rw [slept_ridAt, hs2rid] at this; exact this.symm
    have h2 : ρ ≠ s.ridAt jd := by
      have := hρ jd (by simp; rw [hs2l]; exact hjd)
      rw [slept_ridAt, hs2rid] at this; exact this.symm
    rw [hoth3 ρ (by rw [slept_ridAt]; simp; rw [hs2rid, hs2cur]; exact h1) (by rw [slept_ridAt, hs2rid]; exact h2)]
  have h34 : Same s3 s4 := by
    rw [← hs4]; exact Same.setNode s3 _ fun _ => ⟨rfl, rfl, rfl, rfl, rfl⟩
  have h45 : Same s4 s5 := by
    rw [← hs5]; exact Same.ofFrame s4 Dt (by rw [hs4c, hs4l]; exact hr) (by rw [hs4drv]; exact Ft)
  have hsame5 : Same s s5 := (hsame3.trans h34).trans h45
  have hsame6 : Same s s6 := by
    refine hsame5.trans ?_
    rw [← hs6, ← hsj', ← hsj]
    refine (Same.switchTo s5 jd).trans ?_
    rw [hsj]
    exact (Same.delivered sj fr Dj1 Dj2 (by rw [hsjc, hsjl]; exact hjd) Fj1 Fj2).trans (Same.switchBack _ r jd)
  have hsame8 : Same s s8 := by
    refine hsame6.trans ?_
    rw [← hs8]
    refine Same.afterRf s6 D5 hs6cur (by rw [hD5rid, hs6n, hs6rfr]; exact hDtrid.symm)
      (by rw [F5.len, l4]; rfl) ?_
    intro ρ hρ
    have h1 : ρ ≠ s.ridAt r := by have := hρ r (by rw [hs6l]; exact hr); rw [hs6rid] at this; exact this.symm
    have h2 : ρ ≠ s.ridAt a := by have := hρ a (by rw [hs6l]; exact ha); rw [hs6rid] at this; exact this.symm
    rw [hD5oth ρ h1, hD4oth ρ h1 h2]
  have hsame9 : Same s s9 := by
    refine hsame8.trans ?_
    rw [← hs9]
    exact Same.ofFrame s8 D6 hs8cur F6
  have hs9rid : ∀ k, s9.ridAt k = s.ridAt k := fun k => (hsame9.stat k).2.2.2.2
  have hs9w : ∀ ρ, s9.w.radio ρ = D6.w.radio ρ := by intro ρ; rw [← hs9]; rfl
  have hs9radr : s9.radioAt r = D6.radio := by
    unfold NetState.radioAt; rw [hs9rid, hs9w, ← hD6rid]; rfl
  have hs9rad : ∀ k, k < s.nodes.length → k ≠ r → s9.radioAt k = s8.radioAt k := by
    intro k hk hkr
    unfold NetState.radioAt
    rw [hs9rid, hs9w, F6.others _ (by rw [hs8drv, hD5rid]; exact (hok.inj k r hk hr hkr).2), hs8rid, hs8drv]
    exact (hs8w _).symm
  refine ⟨s9, pkA, hpkA, ?_, ?_, hs9c, by rw [← hs9]; exact hs8a, hsame9, ?_, ?_, ?_⟩
  · rw [show g + 11 + jd = (g + 10 + jd) + 1 from by omega]
    refine nodeUpdate_plain (g + 10 + jd) s s9 0 step1 ?_
    have := (hsame9.stat r).2.2.2.1
    rw [hs9atr] at this
    rw [this]; exact hn5
  · refine hok.of_same hsame9 (by rw [← hs9]; show D6.w.faults = []; rw [F6.faults, hs8drv, F5.faults]; exact f4) ?_
    intro k hk P' hP' hN'
    by_cases hkr : k = r
    · subst hkr
      rw [htr] at hP'
      have : P' = P := Except.ok.inj (hP'.symm.trans hP)
      subst this
      rw [hs9atr, hs9n, hs9radr]; exact N6
    · rw [hs9at k hkr, hs9rad k hk hkr, hs6rf]
      by_cases hkj : k = jd
      · subst hkj
        rw [htd] at hP'
        have : P' = Pd := Except.ok.inj (hP'.symm.trans hPd)
        subst this
        rw [drf, hs8radjd]; exact Nj2
      · rw [dne k hkj, hsjrf, hs5at k hkr]
        by_cases hka : k = a
        · subst hka; rw [hs8rada]; exact hN'.withRx _ _ _ hq5
        · rw [hs8rad k hk hkr hka hkj]; exact hN'
  · rw [hs9rad a ha (fun e => hra e.symm), hs8rada]; rfl
  · intro k hk hka
    by_cases hkr : k = r
    · subst hkr; rw [hs9radr]; exact x6
    · rw [hs9rad k hk hkr]
      by_cases hkj : k = jd
      · subst hkj; rw [hs8radjd]; exact xj2
      · rw [hs8rad k hk hkr hka hkj]; exact hempty k hk hkr
  · intro k hk
    have hq9 : (s9.nodeAt k).queue = (sj'.nodeAt k).queue := by
      by_cases hkr : k = r
      · subst hkr
        rw [hs9atr, hs9n]
        show s8.node.queue = _
        rw [hs8n]
        show (s6.nodeAt k).queue = _
        exact hs6q k
      · rw [hs9at k hkr, hs6q]
    rw [hq9]
    by_cases hkj : k = jd
    · subst hkj
      rw [dq, if_pos rfl, hsjnode, hsjq, hs5at k hjdr]
    · rw [dne k hkj, hsjq, if_neg hkj]
      by_cases hkr : k = r
      · subst hkr; rw [hs5ati, hs5n]; simp
      · rw [hs5at k hkr]; simp

/-! ### the origin -/

/-- evaluation of `_write(wd, TX_NORMAL)` in the wait case, given its parts: the hop accepted the
    frame, listening was restored, and the first `_net_update()` of the wait returned NETWORK_ACK -/
theorem nodeWrite_await_eval (s' s4 s8 : NetState) (D : DrvState) (wd tn tp t f : Nat)
    (ht : s'.node.frameBuf.header.msgType = .int t)
    (hl2p : logi2phys s'.node.a wd TX_NORMAL = (tn, tp, false)) (hack : 64 < t ∧ t < 192) (hne : tn ≠ wd)
    (e3 : nexec (nodeWriteToPipe (f + 2) tn tp false) s' = (.ok true, s'.afterRf D))
    (e5a : nexec (liftRf (Rf24.setListen true)) (s'.afterRf D) =
      (.ok (), s'.afterRf (exec (Rf24.setListen true) D).2))
    (e5b : nexec (liftRf (Rf24.setAutoAckAttr (.i 0x3E))) (s'.afterRf (exec (Rf24.setListen true) D).2) = (.ok (), s4))
    (hnu : nexec (netUpdate (f + 1) 0) s4 = (.ok NETWORK_ACK, s8)) :
    nexec (nodeWrite (f + 3) wd TX_NORMAL) s' = (.ok true, s8) := by
  rw [show f + 3 = (f + 2) + 1 from rfl, nodeWrite_step_raw (f + 2) wd TX_NORMAL s' t ht, hl2p]
  have hpre : writePrelude s' t wd TX_NORMAL = s' := by
    unfold writePrelude
    rw [if_neg]
    rintro ⟨h, _⟩
    exact absurd h (by decide)
  rw [hpre, e3]
  simp only [if_true, if_pos hack]
  have e01 : (TX_NORMAL = TX_ROUTED) = False := eq_false (by decide)
  simp only [e01, false_and, if_false, ne_eq, hne, not_false_eq_true, true_or, and_self, if_true]
  unfold ackCont
  simp only [nexec_bind, nexec_getNode]
  rw [e5a]
  simp only []
  rw [e5b]
  simp only [nexec_nowNs]
  rw [show f + 2 = (f + 1) + 1 from rfl, ackWait.eq_2, nexec_bind, hnu]
  simp only [if_true, nexec_pure]

/-- **The NETWORK_ACK round trip over two hops** (closed system, loss-free, driver contracts): the
    origin `a` (tree node `x`) writes a single-frame message of a user type in 65..127 for `d`, two
    hops away (`y = nextHop x d`, `nextHop y d = d`), all three present in a listening, quiet tree
    network, the packet accepted last by the first hop's and the destination's radio not carrying this frame's bytes
    and that of the origin's radio not carrying the bytes of this frame's NETWORK_ACK (`NotDupFrame`), the
    destination's queue accepting the frame.
    `write()` returns `True` (the acknowledgement is read in the very first `_net_update()` of the
    wait loop), and the destination's queue has gained exactly that message. -/
theorem live_two_hops (hc : L3Contracts) (cfg : AddrCfg) (hcfg : CfgOk cfg) (L : LinkCfg) (tree : Nat → List Nat)
    (s : NetState) (a r jd : Nat) (x y d : List Nat) (ty : Int) (msg : Bytes)
    (hok : NetOk cfg L tree s) (hcur : s.cur = a) (hact : s.active = [a])
    (ha : a < s.nodes.length) (hr : r < s.nodes.length) (hjd : jd < s.nodes.length)
    (hsize : s.nodes.length ≤ 20000) (hndef : ∀ i, val (tree i) ≠ NETWORK_DEFAULT_ADDR)
    (hta : tree a = x) (htr : tree r = y) (htd : tree jd = d)
    (hy1 : nextHopSpec x d = y) (hy2 : nextHopSpec y d = d) (hxd : x ≠ d) (hyd : y ≠ d)
    (hquiet : ∀ i, i < s.nodes.length → (s.radioAt i).rxFifo = [])
    (hlast_r : NotDupFrame (s.radioAt r) (wireCopy (callerFrame x d s.nextId ty msg)))
    (hlast_d : NotDupFrame (s.radioAt jd) (wireCopy (callerFrame x d s.nextId ty msg)))
    (hlast_a : NotDupFrame (s.radioAt a) (ackOf (wireCopy (callerFrame x d s.nextId ty msg))))
    (hty : 65 ≤ ty ∧ ty ≤ 127) (hlen : msg.length ≤ MAX_FRAG_SIZE) (hmax : msg.length ≤ (s.nodeAt a).maxMessageLength)
    (hacc : Accepts (s.nodeAt jd).queue (wireCopy (callerFrame x d s.nextId ty msg))) :
    ∃ s1, nexec (apiNetWrite (val d) ty msg AUTO_ROUTING) s = (.ok (true, callerFrame x d s.nextId ty msg), s1) ∧
      DeliveredOnce s.nodes s1.nodes jd (val x) ty.toNat msg := by
  subst hcur
  have hxy : x ≠ y := by rw [← hy1]; exact fun e => nextHop_ne_self hxd e.symm
  have hra : r ≠ s.cur := fun e => hxy (by rw [← hta, ← htr, e])
  have hrjd : r ≠ jd := fun e => hyd (by rw [← htr, ← htd, e])
  have hajd : s.cur ≠ jd := fun e => hxd (by rw [← hta, ← htd, e])
  obtain ⟨hn1, hn2, hn3, hn4, hn5, hn6⟩ := hok.node s.cur ha
  rw [hta] at hn1 hn2
  obtain ⟨P, hP, hN⟩ := hok.radio s.cur ha
  rw [hta] at hP
  obtain ⟨Pr, hPr, hNr⟩ := hok.radio r hr
  rw [htr] at hPr
  have hdn : IsNode d := by have := (hok.node jd hjd).1; rw [htd] at this; exact this
  have hyn : IsNode y := by have := (hok.node r hr).1; rw [htr] at this; exact this
  have hvd : val d < 4096 := val_lt_4096 hdn
  have hvx : val x < 4096 := val_lt_4096 hn1
  have hmd : maskInt (val d : Int) 0xFFF = val d := maskInt_natCast _ _ (by omega)
  have hnode : s.node = s.nodeAt s.cur := rfl
  have hw := apiNetWrite_eq (val d) ty msg s (by rw [hmd]; exact isValid_val hdn) hmax (Or.inl hlen)
  simp only [hmd] at hw
  have hcf : ({ header := { fromNode := s.node.a.addr, toNode := val d, frameId := s.nextId,
                            msgType := .int (maskInt ty 0xFF), reserved := 0 },
                message := msg } : Frame) = callerFrame x d s.nextId ty msg := by
    unfold callerFrame
    rw [hnode, hn2]; rfl
  rw [hcf] at hw
  generalize hcdef : callerFrame x d s.nextId ty msg = c at hw hacc hlast_r hlast_d hlast_a ⊢
  have hm1 : maskInt ty 0xFF = ty.toNat := by
    unfold maskInt
    have : ty % ((0xFF : Nat) + 1 : Int) = ty := Int.emod_eq_of_lt (by omega) (by omega)
    rw [this]
  have hm2 : ty.toNat &&& 0xFF = ty.toNat := by rw [and_ff]; omega
  have hwc : wireCopy c = ⟨⟨val x, val d, s.nextId &&& 0xFFFF, .int ty.toNat, 0⟩, msg⟩ := by
    rw [← hcdef]
    unfold wireCopy callerFrame
    simp only [Header.ty, hm1, hm2]
    rw [and_fff, and_fff, Nat.mod_eq_of_lt hvx, Nat.mod_eq_of_lt hvd]
    rfl
  obtain ⟨pk, hpk⟩ : ∃ pk, (wireCopy c).pack = .ok pk := by
    unfold Frame.pack
    rw [pack_int _ ty.toNat (by rw [hwc])]
    exact ⟨_, rfl⟩
  have T : AckTransit (wireCopy c) pk ty.toNat x d :=
    ⟨by unfold wireCopy; simp only [Header.ty, Nat.and_assoc, Nat.and_self], by rw [hwc], by omega,
     by unfold MAX_USR_DEF_MSG_TYPE; omega, by rw [hwc], by rw [hwc], hpk, by rw [hwc]; exact hlen, hdn, hn1⟩
  generalize hfr : wireCopy c = fr at T hacc hpk hwc hlast_r hlast_d hlast_a
  -- the prepared state
  have hprep : (({ s with nextId := (((s.nextId + 1) &&& 0xFFFF) + 1) &&& 0xFFFF } : NetState).setNode
      fun n => { n with frameBuf := wireCopy c }) = prepared s c := rfl
  rw [hprep] at hw
  generalize hs' : prepared s c = s' at hw
  have hsame' : Same s s' := by rw [← hs']; exact Same.prepared s c
  have hs'c : s'.cur = s.cur := by rw [← hs']; rfl
  have hs'a : s'.active = s.active := by rw [← hs']; rfl
  have hs'l : s'.nodes.length = s.nodes.length := hsame'.len
  have hs'w : s'.w = s.w := by rw [← hs']; rfl
  have hs'cl : s'.closed = true := by rw [← hs']; exact hok.closed
  have hs'n : s'.node = { s.node with frameBuf := fr } := by
    rw [← hs', ← hfr]; exact node_setNode _ _ ha
  have hs'at : ∀ i, i ≠ s.cur → s'.nodeAt i = s.nodeAt i := by
    intro i hi
    rw [← hs']
    show (NetState.setNode _ _).nodeAt i = _
    rw [nodeAt_setNode, if_neg (fun h => hi h.1)]
    rfl
  have hs'rid : ∀ i, s'.ridAt i = s.ridAt i := fun i => (hsame'.stat i).2.2.2.2
  have hs'rad : ∀ i, s'.radioAt i = s.radioAt i := by
    intro i; unfold NetState.radioAt; rw [hs'rid, hs'w]
  have hs'd : s'.drv = s.drv := by unfold NetState.drv; rw [hs'n, hs'w]
  -- the first hop
  obtain ⟨hp1, hp5⟩ : 1 ≤ hopPipe x d ∧ hopPipe x d ≤ 5 := by
    have := C04_listens cfg hcfg x d hn1 hdn hxd TX_NORMAL (Or.inl rfl)
    exact ⟨this.1, this.2.1⟩
  obtain ⟨A, hA1, hA2, hA3⟩ := listen_addrs cfg hcfg y hyn Pr hPr (hopPipe x d) hp1 hp5
  have hl2p : logi2phys s'.node.a (val d) TX_NORMAL = (val y, hopPipe x d, false) := by
    rw [hs'n]; show logi2phys s.node.a _ _ = _
    rw [hnode, hn2, l2p_tree hn1 hdn (Or.inl rfl), hy1]
  have hWf : s.drv.Wf := hn6
  obtain ⟨D, e3, r3, l3, f3, N3, x3, lr3, ⟨pid, hrb⟩, hoth3⟩ := hop_single hc 199998 s' L P Pr r
    (hopPipe x d) (val y) (hopPipe x d) A pk
    (by rw [hs'c, hs'l]; exact ha) hs'cl (by rw [hs'l]; omega)
    (by
      intro i hi _ _
      rw [hs'rad]; exact hquiet i (by rw [← hs'l]; exact hi))
    (by rw [hs'd]; exact hWf) (by rw [hs'n, hs'd]; exact hN)
    (by rw [hs'l]; exact hr) (by rw [hs'c]; exact hra) (by rw [hs'a, hact]; simp; exact hra)
    (by
      intro i hi hic
      rw [hs'rid, hs'rid, hs'c]
      exact (hok.inj i s.cur (by rw [← hs'l]; exact hi) ha (by rw [← hs'c]; exact hic)).2)
    (by rw [hs'at r hra, hs'rad]; exact hNr)
    (by rw [hs'n]; show pipeAddress s.node.cfg _ _ = _; rw [hnode, hn3]; exact hA1)
    hA2 hp1 hp5 hA3 (by rw [hs'rad]; exact hlast_r.notDup hpk)
    (by
      intro ρ pid hri hrj
      rw [hs'w]
      rw [hs'rid, hs'c] at hri; rw [hs'rid] at hrj
      exact hok.hothers (i := s.cur) hcfg hr (by rw [htr]; exact hPr) hp1 hp5 hA2 pk ρ pid hri hrj)
    (by rw [hs'w]; exact hok.faults) (by rw [hs'n]; exact T.len) (by rw [hs'n]; exact T.pack)
    (by
      rw [hs'n]; show _ ≠ s.node.a.addr; rw [hnode, hn2]
      exact fun e => hxy (val_inj hn1.1 hyn.1 e.symm))
  rw [hs'rid, hs'rad, hquiet r hr] at hrb
  have hrb' : D.w.radio (s.ridAt r) = (s.radioAt r).withRx [{ pipe := hopPipe x d, data := pk }]
      { pid := pid, addr := A, data := pk } := by rw [hrb]; rfl
  have hoth3' : ∀ ρ, ρ ≠ s.ridAt s.cur → ρ ≠ s.ridAt r → D.w.radio ρ = s.w.radio ρ := by
    intro ρ h1 h2
    rw [hoth3 ρ (by rw [hs'rid, hs'c]; exact h1) (by rw [hs'rid]; exact h2), hs'w]
  have hDrid : D.d.rid = s.ridAt s.cur := by rw [r3, hs'n]; rfl
  have hDW : D.Wf := by unfold DrvState.Wf; rw [hDrid, l3, hs'w]; exact hn6
  -- listening again, then the wait
  have hs'cur : s'.cur < s'.nodes.length := by rw [hs'c, hs'l]; exact ha
  obtain ⟨D5, e5a, e5b, F5, N5, x5⟩ := restore hc s' D L P true hs'cur hDW N3
  have hD5rid : D5.d.rid = s.ridAt s.cur := by rw [F5.rid]; exact hDrid
  have hD5fifo : D5.radio.rxFifo = [] := by rw [x5, x3, hs'd]; exact hquiet s.cur ha
  have hD5last : NotDupFrame D5.radio (ackOf fr) := by
    intro l hl; rw [F5.lastRx, lr3, hs'd] at hl; exact hlast_a l hl
  have hD5oth : ∀ ρ, ρ ≠ s.ridAt s.cur → D5.w.radio ρ = D.w.radio ρ := by
    intro ρ hρ; exact F5.others ρ (by rw [hDrid]; exact hρ)
  generalize hs4 : s'.afterRf D5 = s4 at e5b
  have hs4c : s4.cur = s.cur := by rw [← hs4]; exact hs'c
  have hs4a : s4.active = [s.cur] := by rw [← hs4]; show s'.active = _; rw [hs'a, hact]
  have hsame4 : Same s s4 := by
    rw [← hs4]
    refine hsame'.trans (Same.afterRf s' D5 hs'cur (by rw [hD5rid, hs'n]; rfl) (by rw [F5.len, l3]) ?_)
    intro ρ hρ
    have h1 : ρ ≠ s.ridAt s.cur := by
      have := hρ s.cur (by rw [hs'l]; exact ha); rw [hs'rid] at this; exact this.symm
    have h2 : ρ ≠ s.ridAt r := by have := hρ r (by rw [hs'l]; exact hr); rw [hs'rid] at this; exact this.symm
    rw [hD5oth ρ h1, hoth3 ρ (by rw [hs'rid, hs'c]; exact h1) (by rw [hs'rid]; exact h2)]
  have hs4l : s4.nodes.length = s.nodes.length := hsame4.len
  have hs4cl : s4.closed = true := by rw [hsame4.closed]; exact hok.closed
  have hs4rid : ∀ k, s4.ridAt k = s.ridAt k := fun k => (hsame4.stat k).2.2.2.2
  have hs4w : ∀ ρ, s4.w.radio ρ = D5.w.radio ρ := by intro ρ; rw [← hs4]; rfl
  have hs4n : s4.node = { s.node with rf := D5.d, frameBuf := fr } := by
    rw [← hs4, afterRf_node _ _ hs'cur, hs'n]
  have hs4at : ∀ k, k ≠ s.cur → s4.nodeAt k = s.nodeAt k := by
    intro k hk; rw [← hs4, nodeAt_afterRf_ne _ _ _ (by rw [hs'c]; exact hk), hs'at k hk]
  have hs4ata : s4.nodeAt s.cur = s4.node := by rw [← hs4c]; rfl
  have hs4rada : s4.radioAt s.cur = D5.radio := by
    unfold NetState.radioAt; rw [hs4rid, hs4w, ← hD5rid]; rfl
  have hs4radr : s4.radioAt r = (s.radioAt r).withRx [{ pipe := hopPipe x d, data := pk }]
      { pid := pid, addr := A, data := pk } := by
    unfold NetState.radioAt; rw [hs4rid, hs4w, hD5oth _ (hok.inj r s.cur hr ha hra).2, hrb']
    rfl
  have hs4rad : ∀ k, k < s.nodes.length → k ≠ s.cur → k ≠ r → s4.radioAt k = s.radioAt k := by
    intro k hk hka hkr
    unfold NetState.radioAt
    rw [hs4rid, hs4w, hD5oth _ (hok.inj k s.cur hk ha hka).2,
      hoth3' _ (hok.inj k s.cur hk ha hka).2 (hok.inj k r hk hr hkr).2]
  have hs4q : ∀ k, (s4.nodeAt k).queue = (s.nodeAt k).queue := by
    intro k
    by_cases hk : k = s.cur
    · subst hk; rw [hs4ata, hs4n]; rfl
    · rw [hs4at k hk]
  -- the router's turn, inside the first read of the wait loop
  generalize hsr : s4.switchTo r = sr
  have hsrc : sr.cur = r := by rw [← hsr]; rfl
  have hsra : sr.active = [r, s.cur] := by rw [← hsr]; show r :: s4.active = _; rw [hs4a]
  have hsamer : Same s sr := by rw [← hsr]; exact hsame4.trans (Same.switchTo s4 r)
  have hsrl : sr.nodes.length = s.nodes.length := hsamer.len
  have hsrrad : ∀ k, sr.radioAt k = s4.radioAt k := by intro k; rw [← hsr]; exact radioAt_switchTo s4 r k
  have hsrrf : ∀ k, (sr.nodeAt k).rf = (s4.nodeAt k).rf := by intro k; rw [← hsr]; exact rf_switchTo s4 r k
  have hsrq : ∀ k, (sr.nodeAt k).queue = (s.nodeAt k).queue := by
    intro k; rw [← hsr, queue_switchTo, hs4q]
  have hokr : NetOk cfg L tree sr := by
    refine hok.of_same hsamer (by rw [← hsr]; show s4.w.faults = []; rw [← hs4]; show D5.w.faults = []; rw [F5.faults]; exact f3) ?_
    intro k hk P' hP' hN'
    rw [hsrrf, hsrrad]
    by_cases hka : k = s.cur
    · subst hka
      rw [hta] at hP'
      have : P' = P := Except.ok.inj (hP'.symm.trans hP)
      subst this
      rw [hs4ata, hs4n, hs4rada]; exact N5
    · rw [hs4at k hka]
      by_cases hkr : k = r
      · subst hkr; rw [hs4radr]; exact hN'.withRx _ _ _ hp5
      · rw [hs4rad k hk hka hkr]; exact hN'
  obtain ⟨sr', pkA, hpkA, er, okr', cr', ar', samer', fifoa, fifoo, qr'⟩ := router_ack hc cfg hcfg L tree fr pk ty.toNat
    x y d T hndef sr r s.cur jd (199984 - r - jd) hokr hsrc (by rw [hsrl]; exact hr) (by rw [hsrl]; exact ha)
    (by rw [hsrl]; exact hjd) htr hta htd hy1 hy2 hxd hyd
    (by rw [hsra]; simp; exact ⟨fun e => hrjd e.symm, fun e => hajd e.symm⟩)
    (by rw [hsra]; simp) (by rw [hsra]; simp)
    (hopPipe x d) hp5 (by rw [hsrrad, hs4radr]; rfl)
    (by
      intro k hk hkr
      rw [hsrl] at hk
      rw [hsrrad]
      by_cases hka : k = s.cur
      · subst hka; rw [hs4rada]; exact hD5fifo
      · rw [hs4rad k hk hka hkr]; exact hquiet k hk)
    (by rw [hsrrad, hs4rad jd hjd (fun e => hajd e.symm) (fun e => hrjd e.symm)]; exact hlast_d.notDup hpk)
    (by rw [hsrrad, hs4rada]; exact hD5last)
    (by rw [hsrq]; exact hacc) (by rw [hsrl]; omega)
  rw [hsrl] at fifoo qr'
  -- back at the origin
  generalize hs6 : sr'.switchBack s.cur r = s6
  have hs6c : s6.cur = s.cur := by rw [← hs6]; rfl
  have hs6a : s6.active = [s.cur] := by
    rw [← hs6]; show sr'.active.erase r = _; rw [ar', hsra, List.erase_cons_head]
  have hsame6 : Same s s6 := by rw [← hs6]; exact (hsamer.trans samer').trans (Same.switchBack sr' s.cur r)
  have hs6l : s6.nodes.length = s.nodes.length := hsame6.len
  have hs6rad : ∀ k, s6.radioAt k = sr'.radioAt k := by intro k; rw [← hs6]; exact radioAt_switchBack sr' s.cur r k
  have hs6rf : ∀ k, (s6.nodeAt k).rf = (sr'.nodeAt k).rf := by
    intro k; rw [← hs6]; exact (nodeAt_switchBack sr' s.cur r k).1
  have hs6q : ∀ k, (s6.nodeAt k).queue = (sr'.nodeAt k).queue := by
    intro k; rw [← hs6]; exact (nodeAt_switchBack sr' s.cur r k).2
  have hok6 : NetOk cfg L tree s6 := by
    rw [← hs6]
    refine okr'.of_same (Same.switchBack sr' s.cur r) okr'.faults ?_
    intro k _ P' _ hN'
    rw [(nodeAt_switchBack sr' s.cur r k).1, radioAt_switchBack]; exact hN'
  have hro : nexec (runOthers (199995 - r + 1 + r) 0) s4 = (.ok (), s6) := by
    have := runOthers_one (199995 - r) s4 sr' r (.ok 0) (by rw [hs4l]; exact hr)
      ⟨by rw [hs4c]; exact hra, by rw [hs4a]; simpa using hra,
       by
        show (!(s4.radioAt r).rxFifo.isEmpty) = true
        rw [hs4radr]; rfl,
       by
        show (s4.radioAt r).rxMode = true
        rw [hs4radr]
        exact (hNr.withRx _ _ _ hp5).rxMode⟩
      (by
        intro k hk hrun
        obtain ⟨h1, _, h3, _⟩ := hrun
        rw [hs4c] at h1
        have hkl : k < s.nodes.length := by omega
        have h3' : (!(s4.radioAt k).rxFifo.isEmpty) = true := h3
        rw [hs4rad k hkl h1 (by omega), hquiet k hkl] at h3'
        simp at h3')
      (by
        rw [hsr, show 199995 - r = 199984 - r - jd + 11 + jd from by omega]
        exact er)
      (by rw [samer'.len, hsrl, hs4l]) (by rw [hs4l]; omega)
      (by
        intro k hk hkl hrun
        obtain ⟨h1, _, h3, _⟩ := hrun
        rw [hs4c, hs6] at h1 h3
        rw [hs6c] at h1
        have h3' : (!(s6.radioAt k).rxFifo.isEmpty) = true := h3
        rw [hs4l] at hkl
        rw [hs6rad, fifoo k hkl h1] at h3'
        simp at h3')
    rw [hs4c, hs6] at this
    exact this
  -- the acknowledgement is read
  have hs6n : s6.node = s6.nodeAt s.cur := by rw [← hs6c]; rfl
  obtain ⟨P6, hP6, hN6⟩ := hok6.radio s.cur (by rw [hs6l]; exact ha)
  have hs6drad : s6.drv.radio = s6.radioAt s.cur := by rw [← hs6c]; rfl
  have hpkAl : pkA.length = 8 + fr.message.length := pack_length (fr := ackOf fr) hpkA
  obtain ⟨hq1, hq5⟩ : 1 ≤ hopPipe y x ∧ hopPipe y x ≤ 5 := by
    have := C04_listens cfg hcfg y x hyn hn1 (fun e => hxy e.symm) TX_ROUTED (Or.inr rfl)
    exact ⟨this.1, this.2.1⟩
  obtain ⟨D6, e6, F6, N6, x6⟩ := hc.read s6.drv L P6 true true 0x3E
    (by
      unfold DrvState.Wf
      show s6.node.rf.rid < s6.w.radios.length
      rw [hs6n]; exact (hok6.node s.cur (by rw [hs6l]; exact ha)).2.2.2.2.2)
    (by rw [hs6drad]; show NodeRadio L P6 true true 0x3E s6.node.rf _; rw [hs6n]; exact hN6)
    (by
      intro e he
      rw [hs6drad, hs6rad, fifoa] at he
      simp only [List.mem_singleton] at he
      subst he
      have := T.len
      unfold MAX_FRAG_SIZE at this
      exact ⟨hq5, by simp only []; omega, by simp only []; omega⟩)
  rw [hs6drad, hs6rad, fifoa] at e6 x6
  simp only [List.head?_cons, Option.map_some, List.tail_cons] at e6 x6
  have hread : nexec (rfRead 199997) s4 = (.ok (some pkA), s6.afterRf D6) := by
    rw [show 199997 = (199995 - r + 1 + r) + 1 from by omega, rfRead.eq_2, nexec_bind,
      deliverDue_nil s4 (by rw [hs4n]; exact hn4)]
    simp only []
    rw [nexec_bind, nexec_get]
    simp only [hs4cl, if_true]
    rw [nexec_bind, hro]
    simp only []
    exact nexec_liftRf_ok _ s6 _ D6 e6
  generalize hs7 : s6.afterRf D6 = s7 at hread
  have hs6cur : s6.cur < s6.nodes.length := by rw [hs6c, hs6l]; exact ha
  have hsame7 : Same s s7 := by rw [← hs7]; exact hsame6.trans (Same.ofFrame s6 D6 hs6cur F6)
  have hs7c : s7.cur = s.cur := by rw [← hs7]; exact hs6c
  have hs7l : s7.nodes.length = s.nodes.length := hsame7.len
  have hs7n : s7.node = s7.nodeAt s.cur := by rw [← hs7c]; rfl
  have hs7addr : s7.node.a = nodeSpec x := by rw [hs7n, (hsame7.stat s.cur).1]; exact hn2
  have hunA : s7.node.frameBuf.unpack pkA = (ackOf fr, true) := by
    have := unpack_of_pack (ackOf fr) s7.node.frameBuf NETWORK_ACK rfl pkA hpkA
    rw [ackOf_wire T.wire] at this; exact this
  have hAto : (ackOf fr).header.toNode = val x := T.src
  have hAfrom : (ackOf fr).header.fromNode = val x := T.src
  have hAty : (ackOf fr).header.ty = NETWORK_ACK := rfl
  have hnu : nexec (netUpdate 199998 0) s4 = (.ok NETWORK_ACK, s7.withFrame (ackOf fr)) := by
    rw [show 199998 = 199997 + 1 from rfl, netUpdate_step, hread]
    simp only [hunA, hAto, hAfrom, isValid_val hn1, Bool.not_true, Bool.or_self, Bool.false_eq_true, if_false]
    have : val x = s7.node.a.addr := by rw [hs7addr]; rfl
    simp only [if_pos this, hAty]
    rw [show 199997 = 199996 + 1 from rfl, handleThis_ack]
    rfl
  -- `_write` and `write()` return
  generalize hs8 : s7.withFrame (ackOf fr) = s8 at hnu
  have hnw : nexec (nodeWrite F (val d) TX_NORMAL) s' = (.ok true, s8) :=
    nodeWrite_await_eval s' s4 s8 D (val d) (val y) (hopPipe x d) ty.toNat 199997 (by rw [hs'n]; exact T.ty) hl2p T.ack
      (fun e => hyd (val_inj hyn.1 hdn.1 e)) e3 e5a e5b hnu
  rw [hnw] at hw
  simp only [] at hw
  refine ⟨s8, hw, ?_⟩
  -- exactly once, nowhere else
  have hs8l : s8.nodes.length = s.nodes.length := by rw [← hs8]; simp; exact hs7l
  have hs8q : ∀ k, (s8.nodeAt k).queue = (sr'.nodeAt k).queue := by
    intro k
    rw [← hs8]
    have h1 : ((s7.withFrame (ackOf fr)).nodeAt k).queue = (s7.nodeAt k).queue := by
      unfold NetState.withFrame; rw [nodeAt_setNode]; split <;> rfl
    rw [h1, ← hs7, queue_afterRf, hs6q]
  refine ⟨hs8l, ⟨fr, ?_, ?_⟩, ?_⟩
  · show (s8.nodeAt jd).queue.frames = (s.nodeAt jd).queue.frames ++ [fr]
    rw [hs8q, qr' jd hjd, if_pos rfl, hsrq]
  · rw [hwc]; exact ⟨rfl, rfl, rfl⟩
  · intro k hk
    show (s8.nodeAt k).queue.frames = (s.nodeAt k).queue.frames
    by_cases hkl : k < s.nodes.length
    · rw [hs8q, qr' k hkl, if_neg hk, hsrq]; simp
    · unfold NetState.nodeAt
      rw [List.getD_eq_getElem?_getD, List.getD_eq_getElem?_getD,
        List.getElem?_eq_none (by omega), List.getElem?_eq_none (by omega)]

end Nrf.Net
