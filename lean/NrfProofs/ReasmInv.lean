/-
C06 helper: the reassembly invariant at value level (`VQ`), preserved by every delivery of a frame
of a sent message and by every dequeue.
-/
import NrfProofs.FragAct
import NrfProofs.FragSpec

namespace Nrf.Proofs
open Nrf.Net Nrf.Spec

/-- number of frames of a message -/
def total (m : Msg) : Nat := fragCount m.body.length

/-- the message needs fragmenting -/
def Fragd (m : Msg) : Prop := 24 < m.body.length

instance (m : Msg) : Decidable (Fragd m) := by unfold Fragd; infer_instance

/-- what C06 assumes of one sent message: wire-representable header fields, an origin that is a
    node address (never 0o7777, the header's "unset" value, which `is_address_valid` rejects before
    the queue is reached), at most 255 fragments (the counter is a byte), and — for a message that
    travels as one frame — a type that is not one of the fragment type codes -/
def MsgOk (m : Msg) : Prop :=
  m.src < 4096 ∧ m.src ≠ 0o7777 ∧ m.dst < 4096 ∧ m.id < 65536 ∧ m.ty < 256 ∧ total m ≤ 255 ∧
    (¬ Fragd m → m.ty ≠ FRAG_FIRST ∧ m.ty ≠ FRAG_MORE ∧ m.ty ≠ FRAG_LAST)

instance (m : Msg) : Decidable (MsgOk m) := by unfold MsgOk; infer_instance

/-- what C06 assumes of the set of sent messages: two *fragmented* messages with the same origin
    and destination do not share a frame id (ids of different origins may coincide) -/
def SentOk (sent : List Msg) : Prop :=
  (∀ m ∈ sent, MsgOk m) ∧
    ∀ m ∈ sent, ∀ m' ∈ sent, Fragd m → Fragd m' → m.src = m'.src → m.dst = m'.dst → m.id = m'.id →
      m = m'

/-- `w` is one of the frames of a sent message as it is on the air: the single frame of a short
    message (any reserved byte), or the `k`-th fragment of a long one -/
def IsFrameOf (sent : List Msg) (w : WFrame) : Prop :=
  ∃ m ∈ sent,
    (¬ Fragd m ∧ w.src = m.src ∧ w.dst = m.dst ∧ w.id = m.id ∧ w.ty = m.ty ∧ w.rsv < 256 ∧
        w.body = m.body) ∨
    (Fragd m ∧ ∃ k, k < total m ∧ w = fragment m (total m) k)

/-- the cache after fragments `0 .. j-1` of `m` -/
def partialFrame (m : Msg) (j : Nat) : Frame :=
  ⟨⟨m.src, m.dst, m.id, .int (if j = 1 then FRAG_FIRST else FRAG_MORE), total m - (j - 1)⟩,
   m.body.take (24 * j)⟩

/-- `g` is (origin, destination, id, type, bytes) of `m` -/
def IsWholeOf (m : Msg) (g : Frame) : Prop :=
  g.header.fromNode = m.src ∧ g.header.toNode = m.dst ∧ g.header.frameId = m.id ∧
    g.header.msgType = .int m.ty ∧ g.message = m.body

/-- every frame of `m` is among the received ones -/
def Complete (m : Msg) (rcv : List Frame) : Prop :=
  (Fragd m → ∀ k, k < total m → ofW (fragment m (total m) k) ∈ rcv) ∧
    (¬ Fragd m → ∃ g ∈ rcv, IsWholeOf m g)

theorem Complete.mono {m : Msg} {rcv : List Frame} (x : List Frame) (h : Complete m rcv) :
    Complete m (rcv ++ x) :=
  ⟨fun hf k hk => List.mem_append_left _ (h.1 hf k hk),
   fun hf => let ⟨g, hg, hw⟩ := h.2 hf; ⟨g, List.mem_append_left _ hg, hw⟩⟩

/-- the cache holds nothing of a sent message, or a contiguous prefix of exactly one -/
def CacheOk (sent : List Msg) (rcv : List Frame) (c : Frame) : Prop :=
  (∀ m ∈ sent, c.header.fromNode ≠ m.src) ∨
    ∃ m ∈ sent, Fragd m ∧ ∃ j, 1 ≤ j ∧ j + 1 ≤ total m ∧ c = partialFrame m j ∧
      ∀ k, k < j → ofW (fragment m (total m) k) ∈ rcv

structure VInv (sent : List Msg) (rcv : List Frame) (v : VQ) : Prop where
  frag : v.frag = true
  items : ∀ g ∈ v.items, ∃ m ∈ sent, IsWholeOf m g ∧ Complete m rcv
  cache : v.cacheValid = true → CacheOk sent rcv v.cache

theorem CacheOk.mono {sent : List Msg} {rcv : List Frame} {c : Frame} (x : List Frame)
    (h : CacheOk sent rcv c) : CacheOk sent (rcv ++ x) c := by
  rcases h with h | ⟨m, hm, hf, j, h1, h2, h3, h4⟩
  · exact Or.inl h
  · exact Or.inr ⟨m, hm, hf, j, h1, h2, h3, fun k hk => List.mem_append_left _ (h4 k hk)⟩

theorem VInv.mono {sent : List Msg} {rcv : List Frame} {v : VQ} (x : List Frame)
    (h : VInv sent rcv v) : VInv sent (rcv ++ x) v :=
  ⟨h.frag, fun g hg => let ⟨m, hm, hw, hc⟩ := h.items g hg; ⟨m, hm, hw, hc.mono x⟩,
   fun hv => (h.cache hv).mono x⟩

theorem total_ge2 {m : Msg} (h : Fragd m) : 2 ≤ total m := fragCount_ge2 h

theorem fragment_wire (m : Msg) (hm : MsgOk m) (k : Nat) : (fragment m (total m) k).InRange :=
  fragment_inRange m (total m) k hm.1 hm.2.2.1 hm.2.2.2.1 hm.2.2.2.2.1 hm.2.2.2.2.2.1

/-- a fragment of a sent fragmented message that matches the (valid) cache finds there a prefix
    of its own message -/
theorem match_partial (sent : List Msg) (rcv : List Frame) (v : VQ) (hs : SentOk sent)
    (hv : VInv sent rcv v) (m : Msg) (hm : m ∈ sent) (hf : Fragd m) (k : Nat)
    (hmatch : cacheMatch v.cache v.cacheValid (fragment m (total m) k) = true) :
    ∃ j, 1 ≤ j ∧ j + 1 ≤ total m ∧ v.cache = partialFrame m j ∧
      ∀ k', k' < j → ofW (fragment m (total m) k') ∈ rcv := by
  simp only [cacheMatch, Bool.and_eq_true, decide_eq_true_eq] at hmatch
  obtain ⟨⟨⟨hcv, h1⟩, h2⟩, h3⟩ := hmatch
  simp only [fragment] at h1 h2 h3
  rcases hv.cache hcv with hj | ⟨m', hm', hf', j, j1, j2, hc, hr⟩
  · exact absurd h1.symm (hj m hm)
  · have : m = m' := by
      apply hs.2 m hm m' hm' hf hf'
      · rw [h1, hc]; rfl
      · rw [h2, hc]; rfl
      · rw [h3, hc]; rfl
    subst this
    exact ⟨j, j1, j2, hc, hr⟩

/-- `FrameQueue.enqueue` of a wire-representable frame: the items keep any property the new frame
    has as well; nothing else of the value state changes except the id counter -/
theorem enqueueBase_items (fx : Fixes) (v : VQ) (c : Frame) (hw : Wire c) (P : Frame → Prop)
    (hitems : ∀ g ∈ v.items, P g) (hc : P c) :
    (∀ g ∈ (v.enqueueBase fx c).1.items, P g) ∧ (v.enqueueBase fx c).1.frag = v.frag ∧
      (v.enqueueBase fx c).1.cache = v.cache ∧ (v.enqueueBase fx c).1.cacheValid = v.cacheValid := by
  rw [enqueueBase_wire fx v c hw]
  split
  · exact ⟨hitems, rfl, rfl, rfl⟩
  · refine ⟨?_, rfl, rfl, rfl⟩
    intro g hg
    simp only [List.mem_append, List.mem_singleton] at hg
    rcases hg with hg | rfl
    · exact hitems g hg
    · exact hc

theorem take_chunk (l : List Nat) (j : Nat) :
    l.take (24 * j) ++ (l.drop (24 * j)).take 24 = l.take (24 * (j + 1)) := by
  rw [Nat.mul_add, Nat.mul_one, List.take_add]

/-- delivery of the single frame of a short message -/
theorem vinv_single (sent : List Msg) (rcv : List Frame) (v : VQ) (hs : SentOk sent)
    (hv : VInv sent rcv v) (m : Msg) (hm : m ∈ sent) (w : WFrame) (hnf : ¬ Fragd m)
    (h1 : w.src = m.src) (h2 : w.dst = m.dst) (h3 : w.id = m.id) (h4 : w.ty = m.ty)
    (h5 : w.rsv < 256) (h6 : w.body = m.body) :
    VInv sent (rcv ++ [ofW w]) ((v.enqueueFrag Fixes.all (ofW w)).1.1) := by
  have hok := hs.1 m hm
  have hr : w.InRange := ⟨h1 ▸ hok.1, h2 ▸ hok.2.2.1, h3 ▸ hok.2.2.2.1, h4 ▸ hok.2.2.2.2.1, h5⟩
  have hty := hok.2.2.2.2.2.2 hnf
  have hnft : NotFragType (ofW w) := by
    simp only [NotFragType, ofW, h4, ne_eq, MsgT.int.injEq, MSG_FRAG_FIRST, MSG_FRAG_MORE,
      MSG_FRAG_LAST]
    exact hty
  have hv' := hv.mono [ofW w]
  unfold VQ.enqueueFrag
  rw [fragAct_base _ _ _ _ hnft]
  simp only [applyActV]
  have hwhole : IsWholeOf m (ofW w) := ⟨h1, h2, h3, by simp [ofW, h4], h6⟩
  have hcomp : Complete m (rcv ++ [ofW w]) :=
    ⟨fun hf => absurd hf hnf, fun _ => ⟨ofW w, by simp, hwhole⟩⟩
  obtain ⟨e1, e2, e3, e4⟩ := enqueueBase_items Fixes.all v (ofW w) (wire_ofW w hr)
    (fun g => ∃ m' ∈ sent, IsWholeOf m' g ∧ Complete m' (rcv ++ [ofW w])) hv'.items ⟨m, hm, hwhole, hcomp⟩
  exact ⟨by rw [e2]; exact hv.frag, e1, by rw [e3, e4]; exact hv'.cache⟩

theorem partial_one (m : Msg) (hf : Fragd m) : ofW (fragment m (total m) 0) = partialFrame m 1 := by
  have h2 := total_ge2 hf
  have e1 : ¬ (0 + 1 = total m) := by omega
  simp [ofW, fragment, partialFrame, e1, FRAG_SIZE]

/-- delivery of the `k`-th fragment of a long message -/
theorem vinv_fragment (sent : List Msg) (rcv : List Frame) (v : VQ) (hs : SentOk sent)
    (hv : VInv sent rcv v) (m : Msg) (hm : m ∈ sent) (hf : Fragd m) (k : Nat) (hk : k < total m) :
    VInv sent (rcv ++ [ofW (fragment m (total m) k)])
      ((v.enqueueFrag Fixes.all (ofW (fragment m (total m) k))).1.1) := by
  have hok := hs.1 m hm
  have hr := fragment_wire m hok k
  have h2 := total_ge2 hf
  have hv' := hv.mono [ofW (fragment m (total m) k)]
  have hnew : ofW (fragment m (total m) k) ∈ rcv ++ [ofW (fragment m (total m) k)] := by simp
  unfold VQ.enqueueFrag
  by_cases hlast : k + 1 = total m
  · -- LAST
    have hty : (fragment m (total m) k).ty = FRAG_LAST := by simp [fragment, hlast]
    rw [fragAct_last _ _ _ hr hty]
    by_cases hcond : (cacheMatch v.cache v.cacheValid (fragment m (total m) k) &&
        decide ((v.cache.header.reserved : Int) - 1 ≤ 1)) = true
    · simp only [hcond, ↓reduceIte, applyActV]
      rw [Bool.and_eq_true, decide_eq_true_eq] at hcond
      obtain ⟨j, j1, j2, hc, hrj⟩ := match_partial sent rcv v hs hv m hm hf k hcond.1
      have hjk : j = k := by
        have := hcond.2
        rw [hc] at this
        simp only [partialFrame] at this
        omega
      subst hjk
      -- the reassembled frame
      have hbody : v.cache.message ++ (fragment m (total m) j).body = m.body := by
        rw [hc]
        simp only [partialFrame, fragment, FRAG_SIZE]
        rw [take_chunk]
        apply List.take_of_length_le
        have := fragCount_upper m.body.length
        unfold total at hlast
        rw [← hlast] at this
        exact this
      have hrsv : (fragment m (total m) j).rsv = m.ty := by simp [fragment, hlast]
      generalize hcdef : (⟨{ (ofW (fragment m (total m) j)).header with
          msgType := .int (fragment m (total m) j).rsv },
          v.cache.message ++ (fragment m (total m) j).body⟩ : Frame) = c
      have hwhole : IsWholeOf m c := by
        rw [← hcdef, hbody, hrsv]
        exact ⟨rfl, rfl, rfl, rfl, rfl⟩
      have hwire : Wire c := by
        rw [← hcdef, hrsv]
        refine ⟨⟨m.ty, rfl⟩, ?_⟩
        simp only [toW, ofW, fragment, hlast, ↓reduceIte]
        exact ⟨hok.1, hok.2.2.1, hok.2.2.2.1, hok.2.2.2.2.1, hok.2.2.2.2.1⟩
      have hcomp : Complete m (rcv ++ [ofW (fragment m (total m) j)]) := by
        refine ⟨fun _ k' hk' => ?_, fun h => absurd hf h⟩
        by_cases hlt : k' < j
        · exact List.mem_append_left _ (hrj k' hlt)
        · have : k' = j := by omega
          subst this; exact hnew
      obtain ⟨e1, e2, _, _⟩ := enqueueBase_items Fixes.all { v with cache := c } c hwire
        (fun g => ∃ m' ∈ sent, IsWholeOf m' g ∧ Complete m' (rcv ++ [ofW (fragment m (total m) j)]))
        hv'.items ⟨m, hm, hwhole, hcomp⟩
      have hinv : Fixes.all.invalidate = true := rfl
      simp only [hinv, ↓reduceIte]
      exact ⟨by show (VQ.enqueueBase Fixes.all { v with cache := c } c).1.frag = true
                rw [e2]; exact hv.frag, e1, fun h => by simp at h⟩
    · simp only [hcond, Bool.false_eq_true, ↓reduceIte, applyActV]
      exact hv'
  · by_cases hfirst : k = 0
    · -- FIRST
      subst hfirst
      have hty : (fragment m (total m) 0).ty = FRAG_FIRST := by simp [fragment, hlast]
      rw [fragAct_first _ _ _ hr hty]
      simp only [applyActV]
      refine ⟨hv.frag, hv'.items, fun _ => Or.inr ⟨m, hm, hf, 1, Nat.le_refl _, by omega,
        partial_one m hf, ?_⟩⟩
      intro k' hk'
      have : k' = 0 := by omega
      subst this; exact hnew
    · -- MORE
      have hty : (fragment m (total m) k).ty = FRAG_MORE := by simp [fragment, hlast, hfirst]
      rw [fragAct_more _ _ _ hr hty]
      by_cases hcond : (cacheMatch v.cache v.cacheValid (fragment m (total m) k) &&
          decide ((v.cache.header.reserved : Int) - 1 = ((fragment m (total m) k).rsv : Int))) = true
      · simp only [hcond, ↓reduceIte, applyActV]
        rw [Bool.and_eq_true, decide_eq_true_eq] at hcond
        obtain ⟨j, j1, j2, hc, hrj⟩ := match_partial sent rcv v hs hv m hm hf k hcond.1
        have hrsv : (fragment m (total m) k).rsv = total m - k := by simp [fragment, hlast]
        have hjk : j = k := by
          have := hcond.2
          rw [hc, hrsv] at this
          simp only [partialFrame] at this
          omega
        subst hjk
        have hcv : v.cacheValid = true := by
          have := hcond.1
          simp only [cacheMatch, Bool.and_eq_true] at this
          exact this.1.1.1
        refine ⟨hv.frag, hv'.items, fun _ => Or.inr ⟨m, hm, hf, j + 1, by omega, by omega, ?_, ?_⟩⟩
        · rw [hc]
          simp only [partialFrame, ofW, fragment, hlast, hfirst, ↓reduceIte, FRAG_SIZE]
          rw [take_chunk]
          have e1 : ¬ (j + 1 = 1) := by omega
          simp [e1, hfirst]
        · intro k' hk'
          by_cases hlt : k' < j
          · exact List.mem_append_left _ (hrj k' hlt)
          · have : k' = j := by omega
            subst this; exact hnew
      · simp only [hcond, Bool.false_eq_true, ↓reduceIte, applyActV]
        exact hv'

/-- delivery of any frame of any sent message preserves the invariant -/
theorem vinv_deliver (sent : List Msg) (rcv : List Frame) (v : VQ) (hs : SentOk sent)
    (hv : VInv sent rcv v) (w : WFrame) (hw : IsFrameOf sent w) :
    VInv sent (rcv ++ [ofW w]) ((v.enqueueFrag Fixes.all (ofW w)).1.1) := by
  obtain ⟨m, hm, ⟨hnf, h1, h2, h3, h4, h5, h6⟩ | ⟨hf, k, hk, rfl⟩⟩ := hw
  · exact vinv_single sent rcv v hs hv m hm w hnf h1 h2 h3 h4 h5 h6
  · exact vinv_fragment sent rcv v hs hv m hm hf k hk

theorem vinv_dequeue (sent : List Msg) (rcv : List Frame) (v : VQ) (hv : VInv sent rcv v) :
    VInv sent rcv v.dequeue.1 ∧
      ∀ g, v.dequeue.2 = some g → ∃ m ∈ sent, IsWholeOf m g ∧ Complete m rcv := by
  unfold VQ.dequeue
  cases hi : v.items with
  | nil => exact ⟨hv, fun g h => by simp at h⟩
  | cons a r =>
    refine ⟨⟨hv.frag, fun g hg => hv.items g (by rw [hi]; simp [hg]), hv.cache⟩, ?_⟩
    intro g hg
    simp only [Option.some.injEq] at hg
    subst hg
    exact hv.items a (by rw [hi]; simp)

end Nrf.Proofs
