/-
C07 — the invariants of a node's driver object and radio, and what the `RF24` methods used by
the network layer do to them.

`Base`   : shape / range facts that hold from `RF24.__init__` on,
`Mid v`  : the node has run `_begin`: pipes 1..5 programmed, all six pipes enabled, the pipe-0
           reading address remembered; EN_AA = `v` (0x3E at rest, 0x3F while sending a unicast);
           says nothing about CONFIG, CE, RX_ADDR_P0, TX_ADDR (what a transmission changes),
`Lst v`  : `Mid v` and the radio is listening on the pipe-0 address again.
-/
import NrfProofs.C07Rf

namespace Nrf
open Rf24 Nrf.Net

/-- registers nothing but `_begin` / `multicast_level` writes -/
def Radio.key (c : Radio) : Nat × Nat × Nat × Bytes × List Nat × Nat :=
  (c.dynpd, c.feature, c.enRxAddr, c.rxAddr1, c.rxAddrN, c.setupAw)

/-- shadow attributes nothing but `_begin` / `multicast_level` changes (the TX address: its length) -/
def Rf24.key (d : Rf24) : Bytes × Nat × Nat × Option Bytes :=
  (d.pipes1, d.openPipes, d.txAddress.length, d.pipe0ReadAddr)

structure Base (d : Rf24) (c : Radio) : Prop where
  dyn : c.dynpd = 0x3F
  feat : c.feature &&& 6 = 4
  r0len : c.rxAddr0.length = 5
  r1len : c.rxAddr1.length = 5
  rNlen : c.rxAddrN.length = 4
  rxenR : c.enRxAddr < 64
  sh0 : d.pipes0 = c.rxAddr0
  p1len : d.pipes1.length = 5
  openR : d.openPipes < 256
  txlen : d.txAddress.length = 5
  /-- SETUP_AW: five-byte addresses (what `RF24.__init__` writes; no network call changes it) -/
  aw : c.setupAw = 3

structure Mid (p0 a1 : Bytes) (aN : List Nat) (v : Nat) (d : Rf24) (c : Radio) : Prop extends Base d c where
  rxen : c.enRxAddr = 0x3F
  a1 : c.rxAddr1 = a1
  aN : c.rxAddrN = aN
  aa : c.enAA = v
  s_aa : d.aa = v
  s_read : d.pipe0ReadAddr = some p0
  p0len : p0.length = 5
  s_open : d.openPipes = 0x3F

structure Lst (p0 a1 : Bytes) (aN : List Nat) (v : Nat) (d : Rf24) (c : Radio) : Prop
    extends Mid p0 a1 aN v d c where
  rx : c.config &&& 3 = 3
  ce : c.ce = true
  a0 : c.rxAddr0 = p0

theorem Mid.congr {p0 a1 aN v d c} (h : Mid p0 a1 aN v d c) {d' : Rf24} {c' : Radio} (v' : Nat)
    (hc : c'.key = c.key) (hd : d'.key = d.key) (haa : c'.enAA = v') (hsaa : d'.aa = v')
    (hp : d'.pipes0 = c'.rxAddr0) (hlen : c'.rxAddr0.length = 5) : Mid p0 a1 aN v' d' c' := by
  simp only [Radio.key, Rf24.key, Prod.mk.injEq] at hc hd
  obtain ⟨c1, c2, c3, c4, c5, c6⟩ := hc
  obtain ⟨d1, d2, d3, d4⟩ := hd
  exact
    { dyn := c1 ▸ h.dyn, feat := c2 ▸ h.feat, r0len := hlen, r1len := c4 ▸ h.r1len, rNlen := c5 ▸ h.rNlen,
      rxenR := c3 ▸ h.rxenR, sh0 := hp, p1len := d1 ▸ h.p1len, openR := d2 ▸ h.openR, txlen := d3 ▸ h.txlen,
      aw := c6 ▸ h.aw, rxen := c3 ▸ h.rxen, a1 := c4 ▸ h.a1, aN := c5 ▸ h.aN, aa := haa, s_aa := hsaa,
      s_read := d4 ▸ h.s_read, p0len := h.p0len, s_open := d2 ▸ h.s_open }

theorem Mid.withStatus {p0 a1 aN v d c} (h : Mid p0 a1 aN v d c) (st : Nat) :
    Mid p0 a1 aN v (d.withStatus st) c :=
  h.congr v rfl rfl h.aa h.s_aa h.sh0 h.r0len

theorem Lst.withStatus {p0 a1 aN v d c} (h : Lst p0 a1 aN v d c) (st : Nat) :
    Lst p0 a1 aN v (d.withStatus st) c :=
  { h.toMid.withStatus st with rx := h.rx, ce := h.ce, a0 := h.a0 }

/-! ### the overlay of a 5-byte address on a 5-byte register -/

theorem overlay5' (old new : Bytes) (h : new.length = 5) (ho : old.length = 5) : Radio.overlay old new = new := by
  unfold Radio.overlay
  rw [h, List.take_of_length_le (by omega), List.drop_of_length_le (by omega)]
  simp

theorem append_drop5 (old new : Bytes) (h : new.length = 5) (ho : old.length = 5) :
    new ++ old.drop new.length = new := by
  rw [List.drop_of_length_le (by omega)]; simp

/-! ### transfer through the methods -/

section
variable {p0 a1 : Bytes} {aN : List Nat} {v : Nat} {d : Rf24} {c : Radio}

theorem Mid.not_offOpens (h : Mid p0 a1 aN v d c) : ¬ offOpens d := by
  intro hh
  have := hh.2
  rw [h.s_open] at this
  exact absurd this (by decide)

theorem Mid.off (h : Mid p0 a1 aN v d c) : Mid p0 a1 aN v (offD d) (offC d c) := by
  unfold offD offC
  rw [if_neg h.not_offOpens, if_neg h.not_offOpens]
  exact h.congr v rfl rfl h.aa h.s_aa h.sh0 h.r0len

theorem Mid.off_cfg (h : Mid p0 a1 aN v d c) :
    (offC d c).ce = false ∧ (offC d c).rxAddr0 = c.rxAddr0 := by
  unfold offC
  rw [if_neg h.not_offOpens]
  exact ⟨rfl, rfl⟩

theorem cfg_listen_bits (x : Nat) : (x &&& 0xFC ||| 3) &&& 0x7F &&& 3 = 3 := by
  rw [Nat.and_assoc, show (0x7F : Nat) &&& 3 = 3 by decide, Nat.and_or_distrib_right, Nat.and_assoc,
    show (0xFC : Nat) &&& 3 = 0 by decide]
  simp

theorem Mid.on (h : Mid p0 a1 aN v d c) : Lst p0 a1 aN v (onD d p0) (onC d c p0) := by
  unfold onD onC
  by_cases hc : p0 ≠ d.pipes0
  · rw [if_pos hc, if_pos hc]
    have hl : (Radio.overlay c.rxAddr0 p0) = p0 := overlay5' _ _ h.p0len h.r0len
    have hd : p0 ++ d.pipes0.drop p0.length = p0 := append_drop5 _ _ h.p0len (by rw [h.sh0]; exact h.r0len)
    have hm : Mid p0 a1 aN v ((d.withConfig (d.config &&& 0xFC ||| 3)).withPipes0 (p0 ++ d.pipes0.drop p0.length))
        ((((c.withCE false).wr 0 [d.config &&& 0xFC ||| 3]).withCE true).wr 0x0A p0) := by
      refine h.congr v rfl rfl h.aa h.s_aa ?_ ?_
      · show p0 ++ d.pipes0.drop p0.length = Radio.overlay c.rxAddr0 p0
        rw [hl, hd]
      · show (Radio.overlay c.rxAddr0 p0).length = 5
        rw [hl]; exact h.p0len
    exact { hm with rx := cfg_listen_bits _, ce := rfl, a0 := hl }
  · rw [if_neg hc, if_neg hc]
    have hc' : p0 = d.pipes0 := by simpa using hc
    have hm : Mid p0 a1 aN v (d.withConfig (d.config &&& 0xFC ||| 3))
        (((c.withCE false).wr 0 [d.config &&& 0xFC ||| 3]).withCE true) :=
      h.congr v rfl rfl h.aa h.s_aa h.sh0 h.r0len
    exact { hm with rx := cfg_listen_bits _, ce := rfl, a0 := by show c.rxAddr0 = p0; rw [hc', h.sh0] }

theorem Mid.setAa (h : Mid p0 a1 aN v d c) (v' : Nat) (hv : v' < 64) :
    Mid p0 a1 aN v' (d.withAa v') (c.wr 1 [v']) := by
  refine h.congr v' rfl rfl ?_ rfl h.sh0 h.r0len
  show v' &&& 0x3F = v'
  rw [show (0x3F : Nat) = 2 ^ 6 - 1 by decide, Nat.and_two_pow_sub_one_eq_mod]
  exact Nat.mod_eq_of_lt hv

theorem Lst.setAa (h : Lst p0 a1 aN v d c) (v' : Nat) (hv : v' < 64) :
    Lst p0 a1 aN v' (d.withAa v') (c.wr 1 [v']) :=
  { h.toMid.setAa v' hv with rx := h.rx, ce := h.ce, a0 := h.a0 }

theorem Mid.tx (h : Mid p0 a1 aN v d c) (addr : Bytes) (hl : addr.length = 5) :
    Mid p0 a1 aN v (txD d addr) (txC d c addr) := by
  unfold txD txC
  have ht : (addr ++ d.txAddress.drop addr.length).length = d.txAddress.length := by
    rw [append_drop5 _ _ hl h.txlen, hl, h.txlen]
  by_cases hc : d.aa &&& 1 ≠ 0
  · rw [if_pos hc, if_pos hc]
    have ho : Radio.overlay c.rxAddr0 addr = addr := overlay5' _ _ hl h.r0len
    refine h.congr v rfl ?_ h.aa h.s_aa ?_ ?_
    · show (d.pipes1, d.openPipes, (addr ++ d.txAddress.drop addr.length).length, d.pipe0ReadAddr) = _
      rw [ht]; rfl
    · show addr ++ d.pipes0.drop addr.length = Radio.overlay c.rxAddr0 addr
      rw [ho, append_drop5 _ _ hl (by rw [h.sh0]; exact h.r0len)]
    · show (Radio.overlay c.rxAddr0 addr).length = 5
      rw [ho]; exact hl
  · rw [if_neg hc, if_neg hc]
    refine h.congr v rfl ?_ h.aa h.s_aa h.sh0 h.r0len
    show (d.pipes1, d.openPipes, (addr ++ d.txAddress.drop addr.length).length, d.pipe0ReadAddr) = _
    rw [ht]; rfl

end

/-! ### on driver states -/

def DrvState.IsMid (p0 a1 : Bytes) (aN : List Nat) (v : Nat) (s : DrvState) : Prop :=
  s.Wf ∧ Mid p0 a1 aN v s.d s.cfg

def DrvState.IsLst (p0 a1 : Bytes) (aN : List Nat) (v : Nat) (s : DrvState) : Prop :=
  s.Wf ∧ Lst p0 a1 aN v s.d s.cfg

theorem DrvState.IsLst.mid {p0 a1 aN v} {s : DrvState} (h : s.IsLst p0 a1 aN v) : s.IsMid p0 a1 aN v :=
  ⟨h.1, h.2.toMid⟩

theorem At.isMid {s0 s d c p0 a1 aN v} (h : At s0 s d c) (hm : Mid p0 a1 aN v d c) : s.IsMid p0 a1 aN v := by
  refine ⟨h.wf, ?_⟩
  rw [h.d, h.c]
  exact hm.withStatus _

theorem At.isLst {s0 s d c p0 a1 aN v} (h : At s0 s d c) (hm : Lst p0 a1 aN v d c) : s.IsLst p0 a1 aN v := by
  refine ⟨h.wf, ?_⟩
  rw [h.d, h.c]
  exact hm.withStatus _

/-- a transmission / reception / poll keeps `Mid` -/
theorem Same.isMid {b p0 a1 aN v} {s s' : DrvState} (h : Same b s s') (hm : s.IsMid p0 a1 aN v) :
    s'.IsMid p0 a1 aN v := by
  refine ⟨h.wf, ?_⟩
  have hr := h.regs
  have hk : s'.cfg.key = s.cfg.key :=
    (congrArg Radio.key hr : (s'.cfg.noCE).key = (s.cfg.noCE).key)
  have h0 : s'.cfg.rxAddr0 = s.cfg.rxAddr0 :=
    (congrArg Radio.rxAddr0 hr : (s'.cfg.noCE).rxAddr0 = (s.cfg.noCE).rxAddr0)
  have haa : s'.cfg.enAA = s.cfg.enAA :=
    (congrArg Radio.enAA hr : (s'.cfg.noCE).enAA = (s.cfg.noCE).enAA)
  rw [h.d]
  exact (hm.2.congr v hk rfl (haa.trans hm.2.aa) hm.2.s_aa (by rw [h0]; exact hm.2.sh0)
    (by rw [h0]; exact hm.2.r0len)).withStatus _

/-- a reception / poll (CE untouched) keeps `Lst` -/
theorem Same.isLst {p0 a1 aN v} {s s' : DrvState} (h : Same false s s') (hm : s.IsLst p0 a1 aN v) :
    s'.IsLst p0 a1 aN v := by
  refine ⟨h.wf, ?_⟩
  have hc := h.cfg
  have hmid := (h.isMid hm.mid).2
  exact { hmid with rx := by rw [hc]; exact hm.2.rx, ce := by rw [hc]; exact hm.2.ce,
                    a0 := by rw [hc]; exact hm.2.a0 }

section
variable {E : PyErr → DrvState → Prop} {s : DrvState} {p0 a1 : Bytes} {aN : List Nat} {v : Nat}

theorem setListen_false_mid (h : s.IsMid p0 a1 aN v) {Q : Unit → DrvState → Prop}
    (hQ : ∀ s', s'.IsMid p0 a1 aN v → Fr s s' → Q () s') : dwp E (setListen false) Q s := by
  apply at_setListen_false (At.start s h.1) h.2.openR
  intro s' hs'
  exact hQ s' (hs'.isMid h.2.off) hs'.fr

theorem setListen_true_lst (h : s.IsMid p0 a1 aN v) {Q : Unit → DrvState → Prop}
    (hQ : ∀ s', s'.IsLst p0 a1 aN v → Fr s s' → Q () s') : dwp E (setListen true) Q s := by
  have hne : p0 ≠ [] := by intro e; have := h.2.p0len; rw [e] at this; simp at this
  apply at_setListen_true (At.start s h.1) p0 h.2.s_read
    (by rw [h.2.p0len, h.2.sh0, h.2.r0len]; exact Nat.le_refl _) hne
  intro s' hs'
  exact hQ s' (hs'.isLst h.2.on) hs'.fr

theorem setAutoAck_mid (h : s.IsMid p0 a1 aN v) (v' : Nat) (hv : v' < 64) {Q : Unit → DrvState → Prop}
    (hQ : ∀ s', s'.IsMid p0 a1 aN v' → Fr s s' → Q () s') : dwp E (setAutoAckAttr (.i (v' : Int))) Q s := by
  apply at_setAutoAck (At.start s h.1) v' hv
  intro s' hs'
  exact hQ s' (hs'.isMid (h.2.setAa v' hv)) hs'.fr

theorem setAutoAck_lst (h : s.IsLst p0 a1 aN v) (v' : Nat) (hv : v' < 64) {Q : Unit → DrvState → Prop}
    (hQ : ∀ s', s'.IsLst p0 a1 aN v' → Fr s s' → Q () s') : dwp E (setAutoAckAttr (.i (v' : Int))) Q s := by
  apply at_setAutoAck (At.start s h.1) v' hv
  intro s' hs'
  exact hQ s' (hs'.isLst (h.2.setAa v' hv)) hs'.fr

theorem openTxPipe_mid (h : s.IsMid p0 a1 aN v) (addr : Bytes) (hl : addr.length = 5)
    {Q : Unit → DrvState → Prop}
    (hQ : ∀ s', s'.IsMid p0 a1 aN v → Fr s s' → Q () s') : dwp E (openTxPipe addr) Q s := by
  have hne : addr ≠ [] := by intro e; rw [e] at hl; simp at hl
  apply at_openTxPipe (At.start s h.1) addr (by rw [hl, h.2.txlen]; exact Nat.le_refl _)
    (by rw [hl, h.2.sh0, h.2.r0len]; exact Nat.le_refl _) hne (by rw [h.2.s_open]; decide)
  intro s' hs'
  exact hQ s' (hs'.isMid (h.2.tx addr hl)) hs'.fr

/-- `send` / `resend`: whatever they return or raise -/
theorem keeps_mid {α} {m : DrvM α} {b : Bool} (hk : Keeps b m) (h : s.IsMid p0 a1 aN v)
    {Q : α → DrvState → Prop} (hE : ∀ e s', s'.IsMid p0 a1 aN v → Fr s s' → E e s')
    (hQ : ∀ a s', s'.IsMid p0 a1 aN v → Fr s s' → Q a s') : dwp E m Q s :=
  hk.use (Same.refl _ _ h.1) (fun e s' hs' => hE e s' (hs'.isMid h) hs'.toFr)
    (fun a s' hs' => hQ a s' (hs'.isMid h) hs'.toFr)

/-- `read` / `available`: whatever they return or raise -/
theorem keeps_lst {α} {m : DrvM α} (hk : Keeps false m) (h : s.IsLst p0 a1 aN v)
    {Q : α → DrvState → Prop} (hE : ∀ e s', s'.IsLst p0 a1 aN v → Fr s s' → E e s')
    (hQ : ∀ a s', s'.IsLst p0 a1 aN v → Fr s s' → Q a s') : dwp E m Q s :=
  hk.use (Same.refl _ _ h.1) (fun e s' hs' => hE e s' (hs'.isLst h) hs'.toFr)
    (fun a s' hs' => hQ a s' (hs'.isLst h) hs'.toFr)

end

end Nrf
