/-
C02 helper lemmas, part 1: raising CE on a PTX with one queued payload ("fire"), and the state of
the driver after `ce = True; update()`.
-/
import NrfProofs.TrafficRecv
import NrfProofs.C10Steps

namespace Nrf
open Rf24 Spec.Link

/-- sequencing after a step whose result is known -/
theorem exec_bind_ok {α β} {m : DrvM α} {f : α → DrvM β} {s : DrvState} {v : α} (h : (exec m s).1 = .ok v) :
    exec (m >>= f) s = exec (f v) (exec m s).2 := by
  rw [exec_bind]
  rcases hh : exec m s with ⟨r, s'⟩
  rw [hh] at h
  simp only at h
  subst h
  rfl

theorem exec_bind_err {α β} {m : DrvM α} {f : α → DrvM β} {s : DrvState} {e : PyErr} (h : (exec m s).1 = .error e) :
    exec (m >>= f) s = (.error e, (exec m s).2) := by
  rw [exec_bind]
  rcases hh : exec m s with ⟨r, s'⟩
  rw [hh] at h
  simp only at h
  subst h
  rfl

namespace Radio

/-- the registers: everything `cfgOf` keeps, CE aside -/
def regs (r : Radio) : Radio := { r.cfgOf with ce := false }

/-- powered-up primary transmitter -/
def Ptx (r : Radio) : Prop := r.pwrUp = true ∧ r.primRx = false

instance (r : Radio) : Decidable r.Ptx := by unfold Ptx; infer_instance

theorem ptx_regs (r r' : Radio) (h : r'.regs = r.regs) (hp : r.Ptx) : r'.Ptx := by
  have hc : r'.config = r.config := by have := congrArg Radio.config h; exact this
  unfold Ptx pwrUp primRx at *
  rw [hc]; exact hp

theorem packetFor_regs (r r' : Radio) (e e' : TxEntry) (h : r'.regs = r.regs) (hp : r'.pidFor e' = r.pidFor e)
    (hk : e'.kind = e.kind) (hd : e'.data = e.data) : r'.packetFor e' = r.packetFor e := by
  have h1 : r'.rfCh = r.rfCh := by have := congrArg Radio.rfCh h; exact this
  have h2 : r'.rfSetup = r.rfSetup := by have := congrArg Radio.rfSetup h; exact this
  have h3 : r'.enAA = r.enAA := by have := congrArg Radio.enAA h; exact this
  have h4 : r'.config = r.config := by have := congrArg Radio.config h; exact this
  have h5 : r'.feature = r.feature := by have := congrArg Radio.feature h; exact this
  have h6 : r'.dynpd = r.dynpd := by have := congrArg Radio.dynpd h; exact this
  have h7 : r'.txAddr = r.txAddr := by have := congrArg Radio.txAddr h; exact this
  have h8 : r'.setupAw = r.setupAw := by have := congrArg Radio.setupAw h; exact this
  unfold packetFor noAckFor rate crcLen esb dplOn aw
  rw [h1, h2, h3, h4, h5, h6, h7, h8, hp, hk, hd]

theorem awaitsAck_regs (r r' : Radio) (e e' : TxEntry) (h : r'.regs = r.regs) (hk : e'.kind = e.kind) :
    r'.awaitsAck e' = r.awaitsAck e := by
  have h3 : r'.enAA = r.enAA := by have := congrArg Radio.enAA h; exact this
  have h5 : r'.feature = r.feature := by have := congrArg Radio.feature h; exact this
  unfold awaitsAck noAckFor esb
  rw [h3, h5, hk]

theorem canHear_regs (r r' : Radio) (h : r'.regs = r.regs) : World.canHear r' = World.canHear r := by
  have h1 : r'.enRxAddr = r.enRxAddr := by have := congrArg Radio.enRxAddr h; exact this
  have h2 : r'.rxAddr0 = r.rxAddr0 := by have := congrArg Radio.rxAddr0 h; exact this
  have h7 : r'.txAddr = r.txAddr := by have := congrArg Radio.txAddr h; exact this
  have h8 : r'.setupAw = r.setupAw := by have := congrArg Radio.setupAw h; exact this
  unfold World.canHear aw
  rw [h1, h2, h7, h8]

theorem arcOf_regs (r r' : Radio) (h : r'.regs = r.regs) : World.arcOf r' = World.arcOf r := by
  have h1 : r'.setupRetr = r.setupRetr := by have := congrArg Radio.setupRetr h; exact this
  unfold World.arcOf; rw [h1]

theorem ardNs_regs (r r' : Radio) (h : r'.regs = r.regs) : World.ardNs r' = World.ardNs r := by
  have h1 : r'.setupRetr = r.setupRetr := by have := congrArg Radio.setupRetr h; exact this
  unfold World.ardNs; rw [h1]

/-- can the transmitter take an ACK payload into its RX FIFO (EN_ACK_PAY, DPL on pipe 0) -/
def ackPayRx (r : Radio) : Bool := (r.feature &&& 2 ≠ 0) && r.dplOn 0

theorem ackPayRx_regs (r r' : Radio) (h : r'.regs = r.regs) : r'.ackPayRx = r.ackPayRx := by
  have h5 : r'.feature = r.feature := by have := congrArg Radio.feature h; exact this
  have h6 : r'.dynpd = r.dynpd := by have := congrArg Radio.dynpd h; exact this
  unfold ackPayRx dplOn; rw [h5, h6]

theorem afterCycle_regs (r : Radio) (e : TxEntry) (rest : List TxEntry) (res : Nat × Option (Option Bytes)) :
    (r.afterCycle e rest res).regs = r.regs := by
  unfold afterCycle
  split
  · rfl
  · split <;> rfl

theorem afterCycle_ce (r : Radio) (e : TxEntry) (rest : List TxEntry) (res : Nat × Option (Option Bytes)) :
    (r.afterCycle e rest res).ce = r.ce := by
  unfold afterCycle
  split
  · rfl
  · split <;> rfl

end Radio

namespace World

/-- **raising CE on a powered-up PTX whose TX FIFO holds exactly one sendable payload and whose
    MAX_RT is clear runs exactly one transmit cycle** -/
theorem setCE_fire (w : World) (s : Nat) (e : TxEntry) (hs : s < w.radios.length)
    (hf : (w.radio s).txFifo = [e]) (hp : (w.radio s).Ptx) (hfl : (w.radio s).flags &&& 0x10 = 0)
    (hk : Radio.headSendable [e] = true) :
    w.setCE s true = (w.setCEQ s true).cycle s e [] := by
  rw [setCE_eq]
  have hr : (w.setCEQ s true).radio s = { (w.radio s) with ce := true } := setCEQ_radio_self _ _ _ hs
  have hready : ((w.setCEQ s true).radio s).txReady = true := by
    rw [hr]
    unfold Radio.txReady Radio.txMode
    have h1 : Radio.pwrUp { (w.radio s) with ce := true } = true := hp.1
    have h2 : Radio.primRx { (w.radio s) with ce := true } = false := hp.2
    rw [h1, h2]
    show (true && !false && true && decide ((w.radio s).flags &&& 0x10 = 0) && Radio.headSendable (w.radio s).txFifo) = true
    rw [hf, hk, hfl]; rfl
  rw [tryTransmit_ready s 3 _ e [] (by rw [hr]; exact hf) hready]
  apply tryTransmit_idle
  rw [cycle_self _ _ _ _ (by simpa using hs)]
  rcases Radio.afterCycle_progress ((w.setCEQ s true).radio s) e [] ((w.setCEQ s true).cycleRes s e) with h | h
  · exact Radio.idle_of_empty _ h
  · exact Radio.idle_of_maxrt _ h

theorem acked_setCEQ (w : World) (s : Nat) (v : Bool) (k : Packet) (hs : s < w.radios.length) :
    (w.setCEQ s v).acked s k = w.acked s k := by
  unfold acked
  rw [setCEQ_radio_self _ _ _ hs]
  have hc : canHear { (w.radio s) with ce := v } = canHear (w.radio s) := rfl
  rw [hc, deliver_snd_ackMap, deliver_snd_ackMap]
  rw [ackMap_congr w (w.setCEQ s v) s k (setCEQ_length _ _ _) (fun j _ hjs => setCEQ_radio_ne _ _ _ _ hjs)]

theorem deliver_snd_setCEQ (w : World) (s : Nat) (v : Bool) (k : Packet) :
    ((w.setCEQ s v).deliver s k).2 = (w.deliver s k).2 := by
  rw [deliver_snd_ackMap, deliver_snd_ackMap]
  rw [ackMap_congr w (w.setCEQ s v) s k (setCEQ_length _ _ _) (fun j _ hjs => setCEQ_radio_ne _ _ _ _ hjs)]

theorem ackMap_spiQ (w : World) (s : Nat) (out : Bytes) (k : Packet) : (w.spiQ s out).ackMap s k = w.ackMap s k :=
  ackMap_congr w (w.spiQ s out) s k (spiQ_length _ _ _) (fun j _ hjs => spiQ_radio_ne _ _ _ _ hjs)

theorem ackMap_setCEQ (w : World) (s : Nat) (v : Bool) (k : Packet) : (w.setCEQ s v).ackMap s k = w.ackMap s k :=
  ackMap_congr w (w.setCEQ s v) s k (setCEQ_length _ _ _) (fun j _ hjs => setCEQ_radio_ne _ _ _ _ hjs)

end World

/-! ### the driver state after `ce = True; update()` -/

/-- the state after the CE pin is driven without a transmission starting -/
def DrvState.ceQ (s : DrvState) (v : Bool) : DrvState := { s with w := s.w.setCEQ s.d.rid v }

theorem exec_setCE_false (s : DrvState) (hw : s.Wf) : exec (setCE false) s = (.ok (), s.ceQ false) := by
  rw [exec_setCE, World.setCE_false _ _ hw]; rfl

@[simp] theorem ceQ_d (s : DrvState) (v : Bool) : (s.ceQ v).d = s.d := rfl
theorem ceQ_rad (s : DrvState) (v : Bool) (hw : s.Wf) : (s.ceQ v).rad = { s.rad with ce := v } :=
  World.setCEQ_radio_self _ _ _ hw
theorem ceQ_wf (s : DrvState) (v : Bool) (hw : s.Wf) : (s.ceQ v).Wf := by
  unfold DrvState.Wf DrvState.ceQ; simp only [World.setCEQ_length]; exact hw
theorem ceQ_only (s : DrvState) (v : Bool) : World.Only s.d.rid s.w (s.ceQ v).w := World.setCEQ_only _ _ _

/-- world after `ce = True` (one cycle for entry `e`) and one `update()` -/
def DrvState.fired (s : DrvState) (e : TxEntry) : DrvState :=
  { d := { s.d with status := (((s.w.setCEQ s.d.rid true).cycle s.d.rid e []).radio s.d.rid).status },
    w := ((s.w.setCEQ s.d.rid true).cycle s.d.rid e []).spiQ s.d.rid [0xFF] }

/-- `self.ce_pin.value = True; self.update()` on a powered-up PTX with CE low (or high), MAX_RT
    clear and exactly one sendable payload queued -/
theorem exec_fire_update (s : DrvState) (e : TxEntry) (hw : s.Wf) (hf : s.rad.txFifo = [e]) (hp : s.rad.Ptx)
    (hfl : s.rad.flags &&& 0x10 = 0) (hk : Radio.headSendable [e] = true) :
    exec (setCE true >>= fun _ => update) s = (.ok true, s.fired e) := by
  rw [exec_bind, exec_setCE]
  simp only
  rw [World.setCE_fire _ _ e hw hf hp hfl hk, exec_update]
  unfold DrvState.spiStep DrvState.fired
  simp only
  have hlen : s.d.rid < ((s.w.setCEQ s.d.rid true).cycle s.d.rid e []).radios.length := by
    rw [World.cycle_length, World.setCEQ_length]; exact hw
  have hidle : (((s.w.setCEQ s.d.rid true).cycle s.d.rid e []).radio s.d.rid).Idle := by
    rw [World.cycle_self _ _ _ _ (by rw [World.setCEQ_length]; exact hw)]
    rcases Radio.afterCycle_progress ((s.w.setCEQ s.d.rid true).radio s.d.rid) e []
      ((s.w.setCEQ s.d.rid true).cycleRes s.d.rid e) with h | h
    · exact Radio.idle_of_empty _ h
    · exact Radio.idle_of_maxrt _ h
  rw [World.spi_idle _ _ _ hlen (by rw [Radio.xfer_nop]; exact hidle)]
  simp only [Radio.xfer_nop, List.headD_cons]

/-- the result `(attempts, acknowledgement)` of firing entry `e` from state `s` -/
def DrvState.fireRes (s : DrvState) (e : TxEntry) : Nat × Option (Option Bytes) :=
  (s.w.setCEQ s.d.rid true).cycleRes s.d.rid e

theorem fired_rid (s : DrvState) (e : TxEntry) : (s.fired e).d.rid = s.d.rid := rfl

theorem fired_wf (s : DrvState) (e : TxEntry) (hw : s.Wf) : (s.fired e).Wf := by
  unfold DrvState.Wf DrvState.fired
  simp only [World.spiQ_length, World.cycle_length, World.setCEQ_length]
  exact hw

/-- the transmitter after firing -/
theorem fired_rad (s : DrvState) (e : TxEntry) (hw : s.Wf) :
    (s.fired e).rad = Radio.afterCycle { s.rad with ce := true } e [] (s.fireRes e) := by
  unfold DrvState.rad DrvState.fired DrvState.fireRes
  simp only
  rw [World.spiQ_radio_self _ _ _ (by rw [World.cycle_length, World.setCEQ_length]; exact hw), Radio.xfer_nop]
  simp only
  rw [World.cycle_self _ _ _ _ (by rw [World.setCEQ_length]; exact hw), World.setCEQ_radio_self _ _ _ hw]

theorem fired_rad' (s : DrvState) (e : TxEntry) (hw : s.Wf) :
    (s.fired e).rad = ((s.w.setCEQ s.d.rid true).cycle s.d.rid e []).radio s.d.rid := by
  unfold DrvState.rad DrvState.fired
  simp only
  rw [World.spiQ_radio_self _ _ _ (by rw [World.cycle_length, World.setCEQ_length]; exact hw), Radio.xfer_nop]

theorem fired_fresh (s : DrvState) (e : TxEntry) (hw : s.Wf) : (s.fired e).d = { s.d with status := (s.fired e).rad.status } := by
  rw [fired_rad' s e hw]; rfl

end Nrf
