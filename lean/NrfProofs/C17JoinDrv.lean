/-
C17, end-to-end join, part 1: the driver in the *unacknowledged* transmit role.

`_logi_2_phys` turns every send type above `TX_ROUTED` — `TX_PHYSICAL`, `TX_LOGICAL`, `TX_MULTICAST` —
into a transmission to pipe 0 of the target with `auto_ack = 0x3E` (no auto-ack on pipe 0, so the
transmitter does not wait for an acknowledgement): the NETWORK_POLL multicast, its answer, the
address request and the address response of a mesh join all travel this way.  `L3Contracts`
(NrfProofs/C05Link.lean) covers the acknowledged role (`auto_ack = 0x3F`) only; here are the two
missing contracts, proved about the driver model with the machinery of NrfProofs/L3*.lean:

* `l3m_openTx` — `open_tx_pipe(a)` with auto-ack off on pipe 0: TX_ADDR becomes `a`, RX_ADDR_P0 stays;
* `l3m_send`   — `send(buf, send_only=True)`: one transmit cycle without acknowledgement; **every**
  other radio has `receive`d the packet (once), the result is `True`.
-/
import NrfProofs.L3Discharge

set_option linter.unusedSimpArgs false

namespace Nrf.L3
open Nrf Nrf.Rf24

/-! ### the air: a cycle that waits for no acknowledgement -/

theorem cycle_noack (w : World) (a : Nat) (e : TxEntry) (rest : List TxEntry) (ha : a < w.radios.length)
    (hf : w.faults = []) (haw : (w.radio a).awaitsAck e = false) :
    (w.cycle a e rest).radio a = (((w.radio a).takePid e).txDoneNoAck rest) ∧
      (w.cycle a e rest).faults = [] ∧ (w.cycle a e rest).radios.length = w.radios.length ∧
      (∀ i, i ≠ a → (w.cycle a e rest).radio i = ((w.radio i).receive ((w.radio a).packetFor e)).1) := by
  unfold World.cycle
  simp only [haw, Bool.not_false, ↓reduceIte]
  generalize hw1 : w.updRadio a (fun x => x.takePid e) = w1
  have hlen1 : w1.radios.length = w.radios.length := by rw [← hw1]; exact updRadio_length _ _ _
  have hf1 : w1.faults = [] := by rw [← hw1]; exact hf
  have hra : w1.radio a = (w.radio a).takePid e := by rw [← hw1]; exact updRadio_radio_self _ _ _ ha
  have hro : ∀ i, i ≠ a → w1.radio i = w.radio i := by
    intro i hi; rw [← hw1]; exact updRadio_radio_other _ _ _ _ hi
  have hnf : w1.nextFault = (w1, .delivered) := by unfold World.nextFault; rw [hf1]
  simp only [hnf]
  have hne : ¬ (Outcome.delivered = Outcome.packetLost) := by decide
  simp only [hne, ↓reduceIte]
  refine ⟨?_, ?_, ?_, ?_⟩
  · rw [stamp_radio, updRadio_radio_self _ _ _ (by rw [deliver_length, hlen1]; exact ha), deliver_radio_self, hra]
  · exact hf1
  · show (((w1.deliver a ((w.radio a).packetFor e)).1.updRadio a fun r => r.txDoneNoAck rest)).radios.length = _
    rw [updRadio_length, deliver_length, hlen1]
  · intro i hi
    rw [stamp_radio, updRadio_radio_other _ _ _ _ hi, deliver_radio_other _ _ _ _ hi, hro i hi]

/-- raising CE on a transmitter with one payload queued that waits for no acknowledgement -/
theorem setCE_transmit_noack (w : World) (a : Nat) (e : TxEntry) (ha : a < w.radios.length) (hf : w.faults = [])
    (hfifo : (w.radio a).txFifo = [e]) (hkind : e.kind = .payload)
    (hpwr : (w.radio a).pwrUp = true) (hrole : (w.radio a).primRx = false) (hfl : (w.radio a).flags &&& 0x10 = 0)
    (haw : (w.radio a).awaitsAck e = false) :
    (w.setCE a true).radio a = (({ (w.radio a) with ce := true } : Radio).takePid e).txDoneNoAck [] ∧
      (w.setCE a true).faults = [] ∧ (w.setCE a true).radios.length = w.radios.length ∧
      (∀ i, i ≠ a → (w.setCE a true).radio i = ((w.radio i).receive ((w.radio a).packetFor e)).1) := by
  have hl : a < (w.jump a).radios.length := ha
  unfold World.setCE
  simp only [jump_radio]
  generalize hw0 : (w.jump a).setRadio a { (w.radio a) with ce := true } = w0
  have hr0 : w0.radio a = { (w.radio a) with ce := true } := by rw [← hw0, World.radio_setRadio]; simp [hl]
  have hro : ∀ i, i ≠ a → w0.radio i = w.radio i := by
    intro i hi; rw [← hw0, World.radio_setRadio]; simp [hi]; rfl
  have hlen0 : w0.radios.length = w.radios.length := by rw [← hw0]; simp [World.setRadio, World.jump]
  have hf0 : w0.faults = [] := by rw [← hw0]; exact hf
  have htx : (w0.radio a).txMode = true := by
    rw [hr0]; unfold Radio.txMode Radio.pwrUp Radio.primRx at *
    simp only at hpwr hrole ⊢
    rw [hpwr, hrole]; rfl
  have hfl0 : (w0.radio a).flags &&& 0x10 = 0 := by rw [hr0]; exact hfl
  have hfifo0 : (w0.radio a).txFifo = [e] := by rw [hr0]; exact hfifo
  have hpk : (w0.radio a).packetFor e = (w.radio a).packetFor e := by rw [hr0]; rfl
  obtain ⟨hx, hfx, hlx, hox⟩ := cycle_noack w0 a e [] (by rw [hlen0]; exact ha) hf0
    (by rw [hr0]; exact haw)
  show (World.tryTransmit a 4 w0).radio a = _ ∧ (World.tryTransmit a 4 w0).faults = [] ∧
    (World.tryTransmit a 4 w0).radios.length = _ ∧ ∀ i, i ≠ a → (World.tryTransmit a 4 w0).radio i = _
  have hstep : World.tryTransmit a 4 w0 = w0.cycle a e [] := by
    unfold World.tryTransmit
    simp only [htx, hfl0, decide_true, Bool.and_self, ↓reduceIte, hfifo0, hkind]
    exact tryTransmit_idle a 3 _ (Or.inl (by rw [hx]; rfl))
  rw [hstep]
  refine ⟨by rw [hx, hr0], hfx, hlx.trans hlen0, ?_⟩
  intro i hi
  rw [hox i hi, hro i hi, hpk]

theorem runW_transmit_noack {w0 : World} {d : Rf24} {r : Radio} (e : TxEntry)
    (hf : w0.faults = []) (hfifo : r.txFifo = [e]) (hkind : e.kind = .payload) (hpwr : r.pwrUp = true)
    (hrole : r.primRx = false) (hfl : r.flags &&& 0x10 = 0) (haw : r.awaitsAck e = false) :
    RunW w0 (setCE true) d r (fun _ d' r' w1 => d = d' ∧
      (({ r with ce := true } : Radio).takePid e).txDoneNoAck [] = r' ∧
      w1.faults = [] ∧ w1.radios.length = w0.radios.length ∧
      ∀ i, i ≠ d.rid → w1.radio i = ((w0.radio i).receive (r.packetFor e)).1) := by
  intro s hs
  obtain ⟨hd, hwf, hr, ho, hfl', hl⟩ := hs
  have ha : s.d.rid < s.w.radios.length := by rw [hd, hl]; exact hwf
  have hr' : s.w.radio s.d.rid = r := by rw [hd]; exact hr
  obtain ⟨h1, h2, h3, h4⟩ := setCE_transmit_noack s.w s.d.rid e ha (hfl'.trans hf) (by rw [hr']; exact hfifo) hkind
    (by rw [hr']; exact hpwr) (by rw [hr']; exact hrole) (by rw [hr']; exact hfl) (by rw [hr']; exact haw)
  rw [hr'] at h1 h4
  refine ⟨(), { s with w := s.w.setCE s.d.rid true }, d, _, s.w.setCE s.d.rid true, exec_setCE true s,
    ⟨hd, by rw [h3, hl]; exact hwf, by rw [← hd]; exact h1, fun _ _ => rfl, rfl, rfl⟩,
    rfl, rfl, h2, h3.trans hl, ?_⟩
  intro i hi
  rw [h4 i (by rw [hd]; exact hi), ho i hi]

/-- `write(buf)` on a transmitter with CE low, an empty TX FIFO, dynamic payloads, auto-ack off on
    pipe 0 and loss-free air: the payload goes out at once -/
theorem runW_write_noack {w0 : World} {d : Rf24} {r : Radio} (buf : Bytes)
    (hl1 : 1 ≤ buf.length) (hl32 : buf.length ≤ 32) (hdyn : d.dynPl &&& 1 ≠ 0)
    (hce : r.ce = false) (ht : r.txFifo = []) (hp : r.rxPNo ≤ 7)
    (hf : w0.faults = []) (hpwr : r.pwrUp = true) (hrole : r.primRx = false)
    (haa : r.enAA = 0x3E) :
    RunW w0 (write buf false) d r (fun a d' r' w1 =>
      a = (true, buf) ∧ d' = { d with status := ({ r with flags := 0 } : Radio).status } ∧
      r' = sentRadio r ∧
      w1.faults = [] ∧ w1.radios.length = w0.radios.length ∧
      ∀ i, i ≠ d.rid → w1.radio i = ((w0.radio i).receive (r.packetFor { kind := .payload, data := buf })).1) := by
  unfold write
  refine RunW.bind run_getD.toW ?_
  rintro _ _ _ _ ⟨rfl, rfl, rfl, rfl⟩
  have hlen : ¬ (d.dynPl &&& 1 ≠ 0 ∧ (buf.isEmpty = true ∨ buf.length > 32)) := by
    rintro ⟨_, h | h⟩
    · cases buf <;> simp at h hl1
    · omega
  simp only [hlen, hdyn, ↓reduceIte]
  have hcs : (clearStatusFlags : DrvM Unit) = regWrite 7 ((0x70 : Nat) : Int) := rfl
  rw [hcs]
  refine RunW.bind (run_regWrite 7 0x70 (by decide) (by decide) ht).toW ?_
  rintro _ _ _ _ ⟨rfl, rfl, rfl⟩
  have hclr : r.writeReg 7 [0x70] = { r with flags := 0 } := by simp [Radio.writeReg]
  rw [hclr]
  refine RunW.bind run_getD.toW ?_
  rintro _ _ _ _ ⟨rfl, rfl, rfl, rfl⟩
  have hst1 : ¬ (r.status &&& 1 ≠ 0) := by rw [(status_bits r ht hp).1]; simp
  simp only [hst1, ↓reduceIte]
  have hreg : (160 ||| b2n false <<< 4) = 0xA0 := by decide
  rw [hreg]
  have hbne : buf ≠ [] := by intro h; rw [h] at hl1; simp at hl1
  have hx : ({ r with flags := 0 } : Radio).xfer ((0x20 ||| 0xA0) :: buf) = _ :=
    xfer_wTx ({ r with flags := 0 } : Radio) buf ht hbne
  rw [List.take_of_length_le hl32] at hx
  refine RunW.bind (run_cmdBytes 0xA0 buf (Or.inr (by rw [hx]; simp [Radio.txMode, hce]))).toW ?_
  rintro _ _ _ _ ⟨rfl, rfl, rfl⟩
  rw [hx]
  simp only [Bool.not_false, ↓reduceIte]
  have haw : ({ r with flags := 0, txFifo := [{ kind := .payload, data := buf }] } : Radio).awaitsAck
      { kind := .payload, data := buf } = false := by
    simp [Radio.awaitsAck, Radio.esb, Radio.noAckFor, Radio.bit, haa]
  refine RunW.bind (runW_transmit_noack { kind := .payload, data := buf } hf rfl rfl hpwr hrole
    (Nat.zero_and 16) haw) ?_
  rintro _ _ _ _ ⟨rfl, rfl, hf1, hlen1, ho1⟩
  exact RunW.pure _ ⟨rfl, rfl, by simp [Radio.txDoneNoAck, Radio.takePid], hf1, hlen1, ho1⟩

/-- the part of `send` after the flushes, same situation: `True` -/
theorem runW_sendTail_noack {w0 : World} {d : Rf24} {r : Radio} (buf : Bytes)
    (hl1 : 1 ≤ buf.length) (hl32 : buf.length ≤ 32) (hdyn : d.dynPl &&& 1 ≠ 0)
    (hce : r.ce = false) (ht : r.txFifo = []) (hp : r.rxPNo ≤ 7)
    (hf : w0.faults = []) (hpwr : r.pwrUp = true) (hrole : r.primRx = false)
    (haa : r.enAA = 0x3E) :
    RunW w0 (sendTail buf) d r (fun a d' r' w1 =>
      a = (.bool true, buf) ∧ (∃ st, d' = { d with status := st }) ∧
      r' = sentRadio r ∧
      w1.faults = [] ∧ w1.radios.length = w0.radios.length ∧
      ∀ i, i ≠ d.rid → w1.radio i = ((w0.radio i).receive (r.packetFor { kind := .payload, data := buf })).1) := by
  unfold sendTail
  refine RunW.bind run_getD.toW ?_
  rintro _ _ _ _ ⟨rfl, rfl, rfl, rfl⟩
  refine RunW.bind (runW_write_noack buf hl1 hl32 hdyn hce ht hp hf hpwr hrole haa) ?_
  rintro _ _ _ w1 ⟨rfl, rfl, rfl, hf1, hlen1, ho1⟩
  have h0 : ({ r with flags := 0 } : Radio).status &&& 0x30 = 0 :=
    (status_bits ({ r with flags := 0 } : Radio) ht hp).2.1.trans (Nat.zero_and _)
  have hb2 := status_bits (sentRadio r) rfl hp
  have h1 : (sentRadio r).status &&& 0x30 ≠ 0 := by rw [hb2.2.1]; show (0x20 : Nat) &&& 0x30 ≠ 0; decide
  have h2 : decide ((sentRadio r).status &&& 32 ≠ 0) = true := by rw [hb2.2.2]; show decide ((0x20 : Nat) &&& 32 ≠ 0) = true; decide
  unfold POLL_FUEL
  refine RunW.bind (run_poll_once 6 h0 h1 rfl).toW ?_
  rintro _ _ _ _ ⟨rfl, rfl, rfl⟩
  refine RunW.bind run_getD.toW ?_
  rintro _ _ _ _ ⟨rfl, rfl, rfl, rfl⟩
  simp only [h2]
  refine RunW.bind (run_forceRetry0 true _ _).toW ?_
  rintro _ _ _ _ ⟨rfl, rfl, rfl, rfl⟩
  refine RunW.bind run_getD.toW ?_
  rintro _ _ _ _ ⟨rfl, rfl, rfl, rfl⟩
  exact RunW.pure _ ⟨rfl, ⟨_, rfl⟩, rfl, hf1, hlen1, ho1⟩

/-- **`send(buf, send_only=True)` in the unacknowledged transmit role** (`auto_ack = 0x3E`),
    loss-free: every other radio has `receive`d the packet (once), the result is `True`, the
    sender's radio is as before (TX FIFO empty again) with CE left high; the packet carries the
    sender's `nextPid`, which advances by one modulo 4. -/
theorem l3m_send (s : DrvState) (L : LinkCfg) (P : List Bytes) (ce : Bool) (buf : Bytes) (hw : s.Wf)
    (hN : NodeRadio L P false ce 0x3E s.d s.radio)
    (hl1 : 1 ≤ buf.length) (hl32 : buf.length ≤ 32) (hflt : s.w.faults = []) :
    ∃ s', exec (Rf24.send buf false false 0 true) s = (.ok (.bool true, buf), s') ∧
      s'.d.rid = s.d.rid ∧ s'.w.radios.length = s.w.radios.length ∧ s'.w.faults = [] ∧
      (∀ i, i ≠ s.d.rid → s'.w.radio i = ((s.w.radio i).receive (s.packet buf)).1) ∧
      NodeRadio L P false true 0x3E s'.d s'.radio ∧ s'.radio.rxFifo = s.radio.rxFifo ∧
      s'.radio.lastRx = s.radio.lastRx ∧ s'.radio.rxAddr0 = s.radio.rxAddr0 ∧
      s'.radio.txAddr = s.radio.txAddr ∧ s'.radio.nextPid = (s.radio.nextPid + 1) % 4 := by
  obtain ⟨h1, h2, h3, h4, h5, h6, h7, h8, h9, h10, h11, h12, h13, h14, h15, h16, h17, h18, h19, h20, h21, h22,
    h23, h24, h25, h26, h27, h28, h29⟩ := hN
  have key : RunW s.w (Rf24.send buf false false 0 true) s.d s.radio (fun a d' r' w1 =>
      a = (.bool true, buf) ∧ d'.rid = s.d.rid ∧ w1.radios.length = s.w.radios.length ∧ w1.faults = [] ∧
      (∀ i, i ≠ s.d.rid → w1.radio i = ((s.w.radio i).receive (s.packet buf)).1) ∧
      NodeRadio L P false true 0x3E d' r' ∧ r'.rxFifo = s.radio.rxFifo ∧ r'.lastRx = s.radio.lastRx ∧
      r'.rxAddr0 = s.radio.rxAddr0 ∧ r'.txAddr = s.radio.txAddr ∧
      r'.nextPid = (s.radio.nextPid + 1) % 4) := by
    have hp : s.radio.rxPNo ≤ 7 := by
      unfold Radio.rxPNo
      cases hfifo : s.radio.rxFifo with
      | nil => exact Nat.le_refl 7
      | cons e rest => exact Nat.le_trans (h29 e (by rw [hfifo]; exact List.mem_cons_self)) (by decide)
    have tail : ∀ (st : Nat) (tf : List TxEntry), tf = [] →
        RunW s.w (sendTail buf) { s.d with status := st } { s.radio with ce := false, txFifo := tf }
          (fun a d' r' w1 =>
            a = (.bool true, buf) ∧ d'.rid = s.d.rid ∧ w1.radios.length = s.w.radios.length ∧ w1.faults = [] ∧
            (∀ i, i ≠ s.d.rid → w1.radio i = ((s.w.radio i).receive (s.packet buf)).1) ∧
            NodeRadio L P false true 0x3E d' r' ∧ r'.rxFifo = s.radio.rxFifo ∧ r'.lastRx = s.radio.lastRx ∧
            r'.rxAddr0 = s.radio.rxAddr0 ∧ r'.txAddr = s.radio.txAddr ∧
            r'.nextPid = (s.radio.nextPid + 1) % 4) := by
      intro st tf htf
      subst htf
      refine (runW_sendTail_noack (d := { s.d with status := st }) (r := { s.radio with ce := false, txFifo := [] }) buf hl1 hl32
        (by rw [h15]; decide) rfl rfl hp hflt
        (by simp [Radio.pwrUp, h2]) h3 h9).conseq ?_
      rintro _ _ _ w1 ⟨rfl, ⟨st', rfl⟩, rfl, hf1, hlen1, ho1⟩
      exact ⟨rfl, rfl, hlen1, hf1, ho1, ⟨h1, h2, h3, rfl, h5, h6, h7, h8, h9, h10, h11, h12, h13, h14, h15, h16,
        h17, h18, h19, h20, h21, h22, h23, h24, h25, rfl, h27, h28, h29⟩, rfl, rfl, rfl, rfl, rfl⟩
    unfold Rf24.send
    simp only [Bool.not_true, Bool.false_eq_true, false_and, and_false, ↓reduceIte]
    refine RunW.bind (run_setCE false (Or.inl h26)).toW ?_
    rintro _ _ _ _ ⟨rfl, rfl, rfl⟩
    refine RunW.bind run_getD.toW ?_
    rintro _ _ _ _ ⟨rfl, rfl, rfl, rfl⟩
    split
    · unfold flushTx
      refine RunW.bind (run_regCmd 0xE1 (Or.inl (by rw [xfer_flushTx]))).toW ?_
      rintro _ _ _ _ ⟨rfl, rfl, rfl⟩
      rw [xfer_flushTx]
      exact tail _ [] rfl
    · exact tail s.d.status s.radio.txFifo h26
  obtain ⟨_, s', w1, e, S, rfl, q1, q2, q3, q4, q5, q6, q7, q8, q9, q10⟩ := key.start hw
  refine ⟨s', e, q1, S.len.trans q2, S.faults.trans q3, ?_, q5, q6, q7, q8, q9, q10⟩
  intro i hi
  rw [S.others i (by rw [q1]; exact hi)]
  exact q4 i hi

/-! ### `open_tx_pipe` with auto-ack off on pipe 0 -/

/-- **`open_tx_pipe(a)` with `auto_ack = 0x3E`**: only TX_ADDR (and its shadow) change. -/
theorem l3m_openTx (s : DrvState) (L : LinkCfg) (P : List Bytes) (rx ce : Bool) (a : Bytes) (hw : s.Wf)
    (hN : NodeRadio L P rx ce 0x3E s.d s.radio) (ha : a.length = 5) :
    ∃ s', exec (openTxPipe a) s = (.ok (), s') ∧ DrvFrame s s' ∧
      NodeRadio L P rx ce 0x3E s'.d s'.radio ∧ s'.radio.rxFifo = s.radio.rxFifo ∧
      s'.radio.rxAddr0 = s.radio.rxAddr0 ∧ s'.radio.txAddr = a := by
  obtain ⟨h1, h2, h3, h4, h5, h6, h7, h8, h9, h10, h11, h12, h13, h14, h15, h16, h17, h18, h19, h20, h21, h22,
    h23, h24, h25, h26, h27, h28, h29⟩ := hN
  have hane : a ≠ [] := by intro h; rw [h] at ha; cases ha
  have key : Run s.w (openTxPipe a) s.d s.radio (fun _ d' r' =>
      d'.rid = s.d.rid ∧ r'.lastRx = s.radio.lastRx ∧ r'.rxFifo = s.radio.rxFifo ∧
      NodeRadio L P rx ce 0x3E d' r' ∧ r'.rxAddr0 = s.radio.rxAddr0 ∧ r'.txAddr = a) := by
    unfold openTxPipe
    refine Run.bind run_getD ?_
    rintro _ _ _ ⟨rfl, rfl, rfl⟩
    have haa : ¬ (s.d.aa &&& 1 ≠ 0) := by rw [h8]; decide
    simp only [haa, ↓reduceIte]
    try simp only [pure_bind]
    refine Run.bind run_getD ?_
    rintro _ _ _ ⟨rfl, rfl, rfl⟩
    have hov : overwritePrefix s.d.txAddress a = .ok a := by
      unfold overwritePrefix
      have : ¬ a.length > s.d.txAddress.length := by omega
      simp only [this, ↓reduceIte]
      rw [List.drop_of_length_le (by omega), List.append_nil]
    simp only [hov]
    refine Run.bind (run_modD _ rfl) ?_
    rintro _ _ _ ⟨rfl, rfl⟩
    refine (run_regWriteBytes 0x10 a hane (by decide) h26).conseq ?_
    rintro _ _ _ ⟨rfl, rfl⟩
    have hovt : Radio.overlay s.radio.txAddr a = a := overlay_full _ _ (by omega) ha
    refine ⟨rfl, rfl, rfl, ?_, rfl, hovt⟩
    exact ⟨h1, h2, h3, h4, h5, h6, h7, h8, h9, h10, h11, h12, h13, h14, h15, h16, h17, h18,
      h19, h20, h21, h22, h23, h24, ha, h26, h27,
      (congrArg List.length hovt).trans ha, h29⟩
  obtain ⟨_, s', e, S, q1, q2, q3, q4, q5, q6⟩ := key.start hw
  exact ⟨s', e, S.frame q1 q2, q4, q3, q5, q6⟩

end Nrf.L3
