/-
C17, the master's side of lookups and releases: the part of `RF24Mesh.update()` that follows
`_net_update()` in `nodeUpdate` (`NrfModel/Net/Node.lean`), and its table effects expressed by the
pure table model of C16 (`NrfModel/Mesh/Dhcp.lean`).
-/
import NrfProofs.MeshClientK
import NrfProofs.Lease

namespace Nrf.Proofs.MeshK
open Nrf Nrf.Net Nrf.NetK Nrf.Spec Nrf.Spec.MeshProtocol

/-- what `update()` does after `_net_update()` returned `msgT` (the rest of `nodeUpdate`) -/
def masterPart (f : Nat) (msgT : Nat) : NetM Nat := do
  let n ← getNode
  if n.kind ≠ .meshMaster then return msgT
  if msgT = MESH_ADDR_REQUEST ∧ n.frameBuf.header.reserved ≠ 0 then modNode fun n => { n with doDhcp := true }
  if n.nodeId = 0 then
    if (msgT = MESH_ADDR_LOOKUP ∨ msgT = MESH_ID_LOOKUP) ∧ Mesh.lookupLongEnough msgT n.frameBuf.message then
      setHdr fun h => { h with toNode := h.fromNode }
      let n ← getNode
      let m : Mesh.Master := { table := n.dhcp, abandoned := n.a.addr = NETWORK_DEFAULT_ADDR }
      let msg ← liftPy (masterLookupReply m n msgT)
      modNode fun n => { n with frameBuf := { n.frameBuf with message := msg } }
      let _ ← nodeWrite f (← getNode).frameBuf.header.toNode TX_NORMAL
    else if msgT = MESH_ADDR_RELEASE then
      masterRelease f (← getNode).frameBuf.header.fromNode
    masterDhcp f
  return msgT

theorem nodeUpdate_succ (f : Nat) : nodeUpdate (f + 1) = (do
    let msgT ← netUpdate f 0
    masterPart f msgT) := by
  rw [nodeUpdate.eq_2]
  rfl

/-- a node that is not of the master class, or has a non-zero ID, does nothing after
    `_net_update()` that touches a table or transmits (at most it remembers a request) -/
theorem nexec_masterPart_nonmaster (f msgT : Nat) (s : NetState)
    (h : (curNode s).kind ≠ .meshMaster) : nexec (masterPart f msgT) s = (.ok msgT, s) := by
  unfold masterPart
  simp only [nexec_bind, nexec_getNode, h, ne_eq, not_false_eq_true, ↓reduceIte, nexec_pure]

/-! ### lookups -/

/-- the master's answer to a lookup frame, as the spec's finite map gives it -/
def lookupAnswer (n : Node) (msgT : Nat) : Int :=
  if msgT = MESH_ADDR_LOOKUP then
    (if n.frameBuf.message.headD 0 = 0 then 0
     else if n.a.addr = NETWORK_DEFAULT_ADDR then NOT_ASSIGNED
     else tableAddress n.dhcp (n.frameBuf.message.headD 0))
  else
    (if le16 (n.frameBuf.message.headD 0) (n.frameBuf.message.tail.headD 0) = 0 then 0
     else if n.a.addr = NETWORK_DEFAULT_ADDR then NOT_ASSIGNED
     else tableNodeId n.dhcp (le16 (n.frameBuf.message.headD 0) (n.frameBuf.message.tail.headD 0)))

/-- every entry of the table fits a signed 16-bit reply (true of every table satisfying C16's
    invariant: IDs below 256, addresses below 4096) -/
def TableSmall (t : Mesh.Table) : Prop := ∀ e ∈ t, e.1 < 32768 ∧ e.2 < 32768

theorem tableAddress_range {t : Mesh.Table} (h : TableSmall t) (id : Nat) :
    -32768 ≤ tableAddress t id ∧ tableAddress t id < 32768 := by
  unfold tableAddress
  cases hf : t.find? (fun e => e.1 == id) with
  | none => simp [NOT_ASSIGNED]
  | some e =>
    have := (h e (List.mem_of_find?_eq_some hf)).2
    simp only
    omega

theorem tableNodeId_range {t : Mesh.Table} (h : TableSmall t) (a : Nat) :
    -32768 ≤ tableNodeId t a ∧ tableNodeId t a < 32768 := by
  unfold tableNodeId
  cases hf : t.find? (fun e => e.2 == a) with
  | none => simp [NOT_ASSIGNED]
  | some e =>
    have := (h e (List.mem_of_find?_eq_some hf)).1
    simp only
    omega

theorem lookupAnswer_range (n : Node) (msgT : Nat) (h : TableSmall n.dhcp) :
    -32768 ≤ lookupAnswer n msgT ∧ lookupAnswer n msgT < 32768 := by
  unfold lookupAnswer
  have h1 := tableAddress_range h
  have h2 := tableNodeId_range h
  repeat' split
  all_goals first | (simp [NOT_ASSIGNED]; done) | exact h1 _ | exact h2 _

theorem packSH_ok {v : Int} (h : -32768 ≤ v ∧ v < 32768) : packSH v = .ok (replyBytes v) := by
  unfold packSH replyBytes
  simp [h]

/-- the reply body the master builds: never an exception for a frame that is long enough, and the
    signed little-endian 16-bit encoding of the table's answer -/
theorem masterLookupReply_ok (n : Node) (msgT : Nat) (hm : msgT = MESH_ADDR_LOOKUP ∨ msgT = MESH_ID_LOOKUP)
    (hl : Mesh.lookupLongEnough msgT n.frameBuf.message = true) (ht : TableSmall n.dhcp) :
    masterLookupReply { table := n.dhcp, abandoned := n.a.addr = NETWORK_DEFAULT_ADDR } n msgT =
      .ok (replyBytes (lookupAnswer n msgT)) := by
  have hr := lookupAnswer_range n msgT ht
  unfold masterLookupReply Mesh.lookupReply
  unfold Mesh.lookupLongEnough at hl
  rcases hm with rfl | rfl
  · have e1 : (MESH_ADDR_LOOKUP = Mesh.MESH_ADDR_LOOKUP) = True := by simp [MESH_ADDR_LOOKUP, Mesh.MESH_ADDR_LOOKUP]
    simp only [e1, ↓reduceIte, decide_eq_true_eq] at hl ⊢
    cases hmsg : n.frameBuf.message with
    | nil => rw [hmsg] at hl; simp at hl
    | cons b rest =>
      have hg : pyGet (b :: rest) 0 = .ok b := by simp [pyGet]
      simp only [hg, bind, Except.bind]
      rw [← packSH_ok hr]
      unfold lookupAnswer Mesh.lookupAddress
      simp only [↓reduceIte, hmsg, List.headD_cons, decide_eq_true_eq, NOT_ASSIGNED]
      rw [show Mesh.MESH_ADDR_LOOKUP = MESH_ADDR_LOOKUP from rfl, getAddress_addr]
  · have e1 : (MESH_ID_LOOKUP = Mesh.MESH_ADDR_LOOKUP) = False := by simp [MESH_ID_LOOKUP, Mesh.MESH_ADDR_LOOKUP]
    have hne : ¬ (MESH_ID_LOOKUP = MESH_ADDR_LOOKUP) := by decide
    simp only [e1, ↓reduceIte, decide_eq_true_eq] at hl ⊢
    cases hmsg : n.frameBuf.message with
    | nil => rw [hmsg] at hl; simp at hl
    | cons b0 rest =>
      cases rest with
      | nil => rw [hmsg] at hl; simp at hl
      | cons b1 rest =>
        have hg : unpackH (pySlice (b0 :: b1 :: rest) 0 2) = .ok (b0 + 256 * b1) := by
          simp [pySlice, unpackH]
        simp only [hg, bind, Except.bind]
        rw [← packSH_ok hr]
        unfold lookupAnswer Mesh.lookupNodeId
        simp only [hne, ↓reduceIte, hmsg, List.headD_cons, List.tail_cons, decide_eq_true_eq,
          NOT_ASSIGNED, le16]
        rw [show Mesh.MESH_ID_LOOKUP = MESH_ID_LOOKUP from rfl, getAddress_id]

/-- the state in which the master calls `_write` for its answer: the frame turned around, the body
    replaced by the answer; **the table, `_do_dhcp` and everything else untouched** -/
def lookupAnswered (s : NetState) (msgT : Nat) : NetState :=
  updCur s fun n => { n with frameBuf :=
    { header := { n.frameBuf.header with toNode := n.frameBuf.header.fromNode },
      message := replyBytes (lookupAnswer (curNode s) msgT) } }

/-- **C17, the master answers a lookup.**  On the master (class RF24Mesh, ID 0), after
    `_net_update()` returned a lookup type with a body that is long enough: the frame is turned
    around, its body becomes the signed 16-bit answer of the table, it is written to the asker
    (`TX_NORMAL`), then `_dhcp()` runs (a no-op unless a request is pending); `update()` returns
    the lookup type.  No exception arises from building the answer. -/
theorem nexec_masterPart_lookup (f msgT : Nat) (s : NetState) (hc : HasCur s)
    (hk : (curNode s).kind = .meshMaster) (hid : (curNode s).nodeId = 0)
    (hm : msgT = MESH_ADDR_LOOKUP ∨ msgT = MESH_ID_LOOKUP)
    (hl : Mesh.lookupLongEnough msgT (curNode s).frameBuf.message = true)
    (ht : TableSmall (curNode s).dhcp) :
    nexec (masterPart f msgT) s =
      nexec (do
        let _ ← nodeWrite f (curNode s).frameBuf.header.fromNode TX_NORMAL
        masterDhcp f
        pure msgT) (lookupAnswered s msgT) := by
  have hreq : ¬ (msgT = MESH_ADDR_REQUEST ∧ (curNode s).frameBuf.header.reserved ≠ 0) := by
    rcases hm with rfl | rfl <;> simp [MESH_ADDR_REQUEST, MESH_ADDR_LOOKUP, MESH_ID_LOOKUP]
  unfold masterPart
  simp only [nexec_bind, nexec_getNode, hk, ne_eq, not_true_eq_false, ↓reduceIte, hreq, nexec_pure, hid,
    hm, hl, and_self, nexec_setHdr]
  rw [curNode_updCur _ _ hc]
  have hrep := masterLookupReply_ok (curNode s) msgT hm hl ht
  have hrep' : masterLookupReply
      { table := (curNode s).dhcp, abandoned := decide ((curNode s).a.addr = NETWORK_DEFAULT_ADDR) }
      { curNode s with frameBuf := { (curNode s).frameBuf with header :=
          { (curNode s).frameBuf.header with toNode := (curNode s).frameBuf.header.fromNode } } } msgT
      = .ok (replyBytes (lookupAnswer (curNode s) msgT)) := hrep
  simp only [hrep', nexec_liftPy_ok, nexec_modNode, updCur_updCur]
  rw [curNode_updCur _ _ hc]
  rfl

theorem lookupAnswered_node (s : NetState) (msgT : Nat) (hc : HasCur s) :
    (curNode (lookupAnswered s msgT)).dhcp = (curNode s).dhcp ∧
    (curNode (lookupAnswered s msgT)).doDhcp = (curNode s).doDhcp ∧
    (curNode (lookupAnswered s msgT)).frameBuf.header.toNode = (curNode s).frameBuf.header.fromNode ∧
    (curNode (lookupAnswered s msgT)).frameBuf.header.ty = (curNode s).frameBuf.header.ty ∧
    (curNode (lookupAnswered s msgT)).frameBuf.message = replyBytes (lookupAnswer (curNode s) msgT) ∧
    (lookupAnswered s msgT).w = s.w := by
  unfold lookupAnswered
  rw [curNode_updCur _ _ hc]
  exact ⟨rfl, rfl, rfl, rfl, rfl, rfl⟩

/-- the client decodes what the master encoded -/
theorem replyValue_replyBytes {v : Int} (h : -32768 ≤ v ∧ v < 32768) : replyValue (replyBytes v) = v := by
  unfold replyValue replyBytes signed16
  simp only
  have h1 : (v % 65536).toNat % 256 + 256 * ((v % 65536).toNat / 256) = (v % 65536).toNat := by omega
  rw [h1]
  split <;> omega

/-! ### releases -/

/-- **C17, the master handles a release frame** (type 197 from address `a ≠ 0`): the lease on `a`
    is removed from the table by the scan of C16 (`Mesh.releaseScan`), nothing is transmitted for
    it, then `_dhcp()` runs -/
theorem nexec_masterPart_release (f : Nat) (s : NetState) (hc : HasCur s)
    (hk : (curNode s).kind = .meshMaster) (hid : (curNode s).nodeId = 0)
    (ha : (curNode s).frameBuf.header.fromNode ≠ 0) :
    nexec (masterPart (f + 1) MESH_ADDR_RELEASE) s =
      nexec (do masterDhcp (f + 1); pure MESH_ADDR_RELEASE)
        (updCur s fun n => { n with dhcp :=
          (Mesh.releaseScan n.dhcp (curNode s).frameBuf.header.fromNode n.dhcp).1 }) := by
  have hreq : ¬ (MESH_ADDR_RELEASE = MESH_ADDR_REQUEST ∧ (curNode s).frameBuf.header.reserved ≠ 0) := by
    simp [MESH_ADDR_REQUEST, MESH_ADDR_RELEASE]
  have hlk : ¬ ((MESH_ADDR_RELEASE = MESH_ADDR_LOOKUP ∨ MESH_ADDR_RELEASE = MESH_ID_LOOKUP) ∧
      Mesh.lookupLongEnough MESH_ADDR_RELEASE (curNode s).frameBuf.message = true) := by
    simp [MESH_ADDR_LOOKUP, MESH_ADDR_RELEASE, MESH_ID_LOOKUP]
  unfold masterPart
  simp only [nexec_bind, nexec_getNode, hk, ne_eq, not_true_eq_false, ↓reduceIte, hreq, nexec_pure, hid, hlk]
  rw [masterRelease.eq_2]
  simp only [ha, ↓reduceIte, nexec_modNode]

/-- the table after the release is the one C16 speaks about -/
theorem release_table (t : Mesh.Table) (a rs : Nat) (w1 : Bool) (ha : a ≠ 0) (ab : Bool) :
    (Mesh.releaseScan t a t).1 = (Mesh.releaseAddress { table := t, abandoned := ab } a rs w1).1.table := by
  rw [Nrf.Proofs.Lease.releaseAddress_table]
  simp [ha]

end Nrf.Proofs.MeshK
