/-
Shared machinery for the C08 / C09 proofs: the four kinds of state steps a driver method is made
of (SPI transaction, shadow update, CE edge, sleep), what each does to the configuration part of
the radios and to the shadows, and `exec` rules for the SPI primitives that need no case analysis.
-/
import NrfProofs.Hoare
import NrfProofs.C08Attr
import Lean.Elab.Tactic

namespace Nrf
open Rf24

/-! ### bit facts on bytes (finite tables) -/

theorem and_7F_of_lt {x : Nat} (h : x < 128) : x &&& 0x7F = x :=
  (by decide : ∀ r : Fin 128, r.val &&& 0x7F = r.val) ⟨x, h⟩

theorem and_3F_of_lt {x : Nat} (h : x < 64) : x &&& 0x3F = x :=
  (by decide : ∀ r : Fin 64, r.val &&& 0x3F = r.val) ⟨x, h⟩

theorem and_07_of_lt {x : Nat} (h : x < 8) : x &&& 0x07 = x :=
  (by decide : ∀ r : Fin 8, r.val &&& 0x07 = r.val) ⟨x, h⟩

theorem and_03_of_lt {x : Nat} (h : x < 4) : x &&& 0x03 = x :=
  (by decide : ∀ r : Fin 4, r.val &&& 0x03 = r.val) ⟨x, h⟩

theorem and_FF_of_lt {x : Nat} (h : x < 256) : x &&& 0xFF = x := by
  have := Nat.and_two_pow_sub_one_eq_mod x 8
  simp only [Nat.reducePow, Nat.add_one_sub_one] at this
  rw [this]; exact Nat.mod_eq_of_lt h

/-! ### the state steps -/

/-- the state after a CE edge -/
def DrvState.ceStep (s : DrvState) (v : Bool) : DrvState := { s with w := s.w.setCE s.d.rid v }

/-- the state after `time.sleep` -/
def DrvState.sleepStep (s : DrvState) (n : Nat) : DrvState := { s with w := s.w.sleep n }

/-- the cached STATUS byte after an SPI transaction -/
def DrvState.stAfter (s : DrvState) (out : Bytes) : Nat := (s.w.spi s.d.rid out).2.headD s.d.status

theorem exec_setCE' (v : Bool) (s : DrvState) : exec (setCE v) s = (.ok (), s.ceStep v) := rfl
theorem exec_sleepNs' (n : Nat) (s : DrvState) : exec (sleepNs n) s = (.ok (), s.sleepStep n) := rfl

theorem spiStep_d' (s : DrvState) (out : Bytes) :
    (s.spiStep out).d = { s.d with status := s.stAfter out } := rfl
@[simp] theorem ceStep_d (s : DrvState) (v : Bool) : (s.ceStep v).d = s.d := rfl
@[simp] theorem sleepStep_d (s : DrvState) (n : Nat) : (s.sleepStep n).d = s.d := rfl

/-! The same four facts as proper rewrite rules (not `rfl`-lemmas): inside simp's discharger a
`dsimp`-style rewrite changes the side goal without a cast, and the proof then fails to be assigned
when the step functions are not reducible. -/
theorem spiStep_dN (s : DrvState) (out : Bytes) :
    (s.spiStep out).d = { s.d with status := s.stAfter out } := by cases s; rfl
theorem modShadow_dN (s : DrvState) (f : Rf24 → Rf24) : (s.modShadow f).d = f s.d := by cases s; rfl
theorem ceStep_dN (s : DrvState) (v : Bool) : (s.ceStep v).d = s.d := by cases s; rfl
theorem sleepStep_dN (s : DrvState) (n : Nat) : (s.sleepStep n).d = s.d := by cases s; rfl

@[simp] theorem ceStep_wf (s : DrvState) (v : Bool) : (s.ceStep v).Wf ↔ s.Wf := by
  unfold DrvState.Wf DrvState.ceStep
  simp only [World.setCE_length]

@[simp] theorem sleepStep_wf (s : DrvState) (n : Nat) : (s.sleepStep n).Wf ↔ s.Wf := Iff.rfl

@[simp] theorem sleepStep_cfg (s : DrvState) (n : Nat) : (s.sleepStep n).cfg = s.cfg := rfl
@[simp] theorem sleepStep_cfgAt (s : DrvState) (n j : Nat) : (s.sleepStep n).cfgAt j = s.cfgAt j := rfl

theorem ceStep_cfg (s : DrvState) (v : Bool) (hw : s.Wf) : (s.ceStep v).cfg = { s.cfg with ce := v } := by
  unfold DrvState.cfg DrvState.ceStep
  simp only
  rw [World.setCE_cfgOf _ _ _ hw]
  simp

theorem ceStep_cfgAt (s : DrvState) (v : Bool) (hw : s.Wf) (j : Nat) (hj : j ≠ s.d.rid) :
    (s.ceStep v).cfgAt j = s.cfgAt j := by
  unfold DrvState.cfgAt DrvState.ceStep
  simp only
  rw [World.setCE_cfgOf _ _ _ hw]
  simp [hj]

/-- the configuration part is a fixed point of `cfgOf` -/
theorem cfg_cfgOf (s : DrvState) : s.cfg.cfgOf = s.cfg := rfl

/-! ### register writes on a configuration part -/

namespace Radio

/-- a register write maps configuration parts to configuration parts -/
theorem writeReg_isCfg (r : Radio) (reg : Nat) (d : Bytes) (h : r.cfgOf = r) :
    (r.writeReg reg d).cfgOf = r.writeReg reg d := by
  rw [← h]
  unfold writeReg
  split <;> first | rfl | (split <;> rfl) | (simp only [cfgOf, Nat.zero_and])

end Radio

/-! ### in-range register writes as record updates -/

namespace Radio

theorem reservedLog_nil (name : String) (mask v : Nat) (h : v &&& mask = v) : reservedLog name mask v = [] := by
  simp [reservedLog, h]

theorem wr_config (r : Radio) (v : Nat) (hv : v < 128) :
    r.writeReg 0 [v] = { r with config := v, violations := r.violations ++
      (if r.ce ∧ (v &&& 1) ≠ (r.config &&& 1) then ["CE:role-change-with-CE-high"] else []) } := by
  simp only [writeReg, List.headD_cons, and_7F_of_lt hv, reservedLog_nil _ _ _ (and_7F_of_lt hv), List.append_nil]

theorem wr_enAA (r : Radio) (v : Nat) (hv : v < 64) : r.writeReg 1 [v] = { r with enAA := v } := by
  simp only [writeReg, List.headD_cons, and_3F_of_lt hv, reservedLog_nil _ _ _ (and_3F_of_lt hv), List.append_nil]

theorem wr_enRxAddr (r : Radio) (v : Nat) (hv : v < 64) : r.writeReg 2 [v] = { r with enRxAddr := v } := by
  simp only [writeReg, List.headD_cons, and_3F_of_lt hv, reservedLog_nil _ _ _ (and_3F_of_lt hv), List.append_nil]

theorem wr_setupAw (r : Radio) (v : Nat) (hv : v < 4) :
    r.writeReg 3 [v] = { r with setupAw := v, violations := r.violations ++
      (if v = 0 then ["SETUP_AW:illegal:0"] else []) } := by
  simp only [writeReg, List.headD_cons, and_03_of_lt hv, reservedLog_nil _ _ _ (and_03_of_lt hv), List.append_nil]

theorem wr_setupRetr (r : Radio) (v : Nat) (hv : v < 256) : r.writeReg 4 [v] = { r with setupRetr := v } := by
  simp only [writeReg, List.headD_cons, and_FF_of_lt hv]

theorem wr_rfCh (r : Radio) (v : Nat) (hv : v ≤ 125) : r.writeReg 5 [v] = { r with rfCh := v, plosCnt := 0 } := by
  have h1 : v &&& 0x7F = v := and_7F_of_lt (by omega)
  have h2 : ¬ v > 125 := by omega
  simp only [writeReg, List.headD_cons, h1, reservedLog_nil _ _ _ h1, List.append_nil, rangeLog, h2, decide_false,
    Bool.false_eq_true, ↓reduceIte]

theorem wr_rfSetup (r : Radio) (v : Nat) (hv : v &&& 0xBF = v) : r.writeReg 6 [v] = { r with rfSetup := v } := by
  simp only [writeReg, List.headD_cons, hv, reservedLog_nil _ _ _ hv, List.append_nil]

theorem wr_rxAddr0 (r : Radio) (b : Bytes) : r.writeReg 0x0A b = { r with rxAddr0 := overlay r.rxAddr0 b } := rfl
theorem wr_rxAddr1 (r : Radio) (b : Bytes) : r.writeReg 0x0B b = { r with rxAddr1 := overlay r.rxAddr1 b } := rfl
theorem wr_txAddr (r : Radio) (b : Bytes) : r.writeReg 0x10 b = { r with txAddr := overlay r.txAddr b } := rfl
theorem wr_rxAddr2 (r : Radio) (v : Nat) : r.writeReg 0x0C [v] = { r with rxAddrN := r.rxAddrN.set 0 v } := rfl
theorem wr_rxAddr3 (r : Radio) (v : Nat) : r.writeReg 0x0D [v] = { r with rxAddrN := r.rxAddrN.set 1 v } := rfl
theorem wr_rxAddr4 (r : Radio) (v : Nat) : r.writeReg 0x0E [v] = { r with rxAddrN := r.rxAddrN.set 2 v } := rfl
theorem wr_rxAddr5 (r : Radio) (v : Nat) : r.writeReg 0x0F [v] = { r with rxAddrN := r.rxAddrN.set 3 v } := rfl

theorem wr_rxPw (r : Radio) (i v : Nat) (hi : i ≤ 5) (hv : v ≤ 32) :
    r.writeReg (0x11 + i) [v] = { r with rxPw := r.rxPw.set i v } := by
  have h1 : v &&& 0x3F = v := and_3F_of_lt (by omega)
  have h2 : ¬ v > 32 := by omega
  have h3 : 0x11 ≤ 0x11 + i ∧ 0x11 + i ≤ 0x16 := by omega
  have h4 : 0x11 + i - 0x11 = i := by omega
  unfold writeReg
  split <;> first | omega | skip
  simp only [List.headD_cons, h1, reservedLog_nil _ _ _ h1, List.append_nil, rangeLog, h2, decide_false,
    Bool.false_eq_true, ↓reduceIte, h3, and_self, h4]

theorem wr_dynpd (r : Radio) (v : Nat) (hv : v < 64) (hf : r.featureVisible = true) :
    r.writeReg 0x1C [v] = { r with dynpd := v } := by
  simp only [writeReg, List.headD_cons, and_3F_of_lt hv, reservedLog_nil _ _ _ (and_3F_of_lt hv), List.append_nil, hf,
    ↓reduceIte]

theorem wr_feature (r : Radio) (v : Nat) (hv : v < 8) (hf : r.featureVisible = true) :
    r.writeReg 0x1D [v] = { r with feature := v } := by
  simp only [writeReg, List.headD_cons, and_07_of_lt hv, reservedLog_nil _ _ _ (and_07_of_lt hv), List.append_nil, hf,
    ↓reduceIte]


theorem wr_rxPw0 (r : Radio) (v : Nat) (hv : v ≤ 32) : r.writeReg 17 [v] = { r with rxPw := r.rxPw.set 0 v } :=
  wr_rxPw r 0 v (by decide) hv
theorem wr_rxPw1 (r : Radio) (v : Nat) (hv : v ≤ 32) : r.writeReg 18 [v] = { r with rxPw := r.rxPw.set 1 v } :=
  wr_rxPw r 1 v (by decide) hv
theorem wr_rxPw2 (r : Radio) (v : Nat) (hv : v ≤ 32) : r.writeReg 19 [v] = { r with rxPw := r.rxPw.set 2 v } :=
  wr_rxPw r 2 v (by decide) hv
theorem wr_rxPw3 (r : Radio) (v : Nat) (hv : v ≤ 32) : r.writeReg 20 [v] = { r with rxPw := r.rxPw.set 3 v } :=
  wr_rxPw r 3 v (by decide) hv
theorem wr_rxPw4 (r : Radio) (v : Nat) (hv : v ≤ 32) : r.writeReg 21 [v] = { r with rxPw := r.rxPw.set 4 v } :=
  wr_rxPw r 4 v (by decide) hv
theorem wr_rxPw5 (r : Radio) (v : Nat) (hv : v ≤ 32) : r.writeReg 22 [v] = { r with rxPw := r.rxPw.set 5 v } :=
  wr_rxPw r 5 v (by decide) hv

/-- a full-width address write replaces the register -/
theorem overlay_full (old new : Bytes) (ho : old.length ≤ 5) (h : new.length = 5) : overlay old new = new := by
  unfold overlay
  rw [List.take_of_length_le (by omega), h]
  simp [List.drop_eq_nil_of_le ho]

/-- a shorter write keeps the register 5 bytes long and puts the new bytes in front -/
theorem overlay_length (old new : Bytes) (ho : old.length = 5) : (overlay old new).length = 5 := by
  unfold overlay
  simp only [List.length_append, List.length_take, List.length_drop, ho]; omega

theorem overlay_prefix (old new : Bytes) (hn : new.length ≤ 5) : new <+: overlay old new := by
  unfold overlay
  rw [List.take_of_length_le hn]
  exact List.prefix_append _ _

end Radio

/-- `_reg_write(reg, v)` for a register address, on the configuration part -/
theorem spiStep_wreg (s : DrvState) (reg v : Nat) (hw : s.Wf) (hr : reg < 0x20) :
    (s.spiStep [0x20 ||| reg, v]).cfg = s.cfg.writeReg reg [v] := by
  rw [spiStep_cfg _ _ hw, xfer_wreg_cfg _ _ _ hr, Radio.writeReg_isCfg _ _ _ (cfg_cfgOf s)]

/-- `_reg_write_bytes(reg, b)` for a register address, on the configuration part -/
theorem spiStep_wregs (s : DrvState) (reg : Nat) (b : Bytes) (hw : s.Wf) (hr : reg < 0x20) (hb : b ≠ []) :
    (s.spiStep ((0x20 ||| reg) :: b)).cfg = s.cfg.writeReg reg b := by
  rw [spiStep_cfg _ _ hw, xfer_wregs_cfg _ _ _ hr hb, Radio.writeReg_isCfg _ _ _ (cfg_cfgOf s)]

/-- a register read leaves the configuration part alone -/
theorem spiStep_rreg (s : DrvState) (reg : Nat) (d : Bytes) (hw : s.Wf) (hr : reg < 0x20) :
    (s.spiStep (reg :: d)).cfg = s.cfg := by
  rw [spiStep_cfg _ _ hw, xfer_rreg_cfg _ _ _ hr]; rfl

/-- `_reg_write(reg, v)` with a natural number that fits a byte -/
theorem exec_regWrite_nat (reg v : Nat) (s : DrvState) (hv : v ≤ 255) (hr : reg ≠ 0x50) :
    exec (regWrite reg (v : Int)) s = (.ok (), s.spiStep [0x20 ||| reg, v]) := by
  rw [exec_regWrite reg v s (by omega) hr]
  simp

/-- `_reg_read(reg)` of a configuration register: the value is read off the configuration part -/
theorem exec_regRead_cfg (reg : Nat) (s : DrvState) (hr : reg < 0x20)
    (hc : reg ≠ 7 ∧ reg ≠ 8 ∧ reg ≠ 9 ∧ reg ≠ 0x17) :
    exec (regRead reg) s = (.ok ((s.cfg.readReg reg).headD 0), s.spiStep [reg, 0]) := by
  rw [exec_regRead, spi_read_cfg _ _ _ hr hc]; rfl


/-- a register write given by its literal command byte -/
theorem xfer_wlit (r : Radio) (c : Nat) (b : Bytes) (hc : 0x20 ≤ c ∧ c < 0x40) (hb : b ≠ []) :
    (r.xfer (c :: b)).1 = r.writeReg (c - 0x20) b := by
  have := xfer_wregs_cfg r (c - 0x20) b (by omega) hb
  rw [← this]
  have h0 : c - 32 + 32 = c := by omega
  have h1 : 0x20 ||| (c - 0x20) = c := by
    have := (by decide : ∀ r : Fin 32, 0x20 ||| ((r.val + 0x20) - 0x20) = r.val + 0x20) ⟨c - 0x20, by omega⟩
    simpa only [h0] using this
  rw [h1]

theorem spiStep_wlit (s : DrvState) (c : Nat) (b : Bytes) (hw : s.Wf) (hc : 0x20 ≤ c ∧ c < 0x40) (hb : b ≠ []) :
    (s.spiStep (c :: b)).cfg = s.cfg.writeReg (c - 0x20) b := by
  rw [spiStep_cfg _ _ hw, xfer_wlit _ _ _ hc hb, Radio.writeReg_isCfg _ _ _ (cfg_cfgOf s)]

@[simp] theorem modShadow_wf' (s : DrvState) (f : Rf24 → Rf24) (hf : (f s.d).rid = s.d.rid) :
    (s.modShadow f).Wf ↔ s.Wf := modShadow_wf s f hf


/-! ### reachability by driver steps: well-formedness and the frame come for free -/

/-- `s'` is reached from `s` by SPI transactions, shadow updates that keep the radio index, sleeps
    and — only if `allowCE` — CE edges -/
inductive Reach (allowCE : Bool) : DrvState → DrvState → Prop where
  | refl (s : DrvState) : Reach allowCE s s
  | spi {s s' : DrvState} (out : Bytes) : Reach allowCE s s' → Reach allowCE s (s'.spiStep out)
  | shadow {s s' : DrvState} (f : Rf24 → Rf24) : Reach allowCE s s' → (f s'.d).rid = s'.d.rid →
      Reach allowCE s (s'.modShadow f)
  | sleep {s s' : DrvState} (n : Nat) : Reach allowCE s s' → Reach allowCE s (s'.sleepStep n)
  | ce {s s' : DrvState} (v : Bool) : allowCE = true → Reach allowCE s s' → Reach allowCE s (s'.ceStep v)

theorem Reach.mono {b : Bool} {s s' : DrvState} (h : Reach b s s') : Reach true s s' := by
  induction h with
  | refl => exact .refl _
  | spi out _ ih => exact .spi out ih
  | shadow f _ hf ih => exact .shadow f ih hf
  | sleep n _ ih => exact .sleep n ih
  | ce v _ _ ih => exact .ce v rfl ih

theorem Reach.trans {b : Bool} {s s' s'' : DrvState} (h1 : Reach b s s') (h2 : Reach b s' s'') : Reach b s s'' := by
  induction h2 with
  | refl => exact h1
  | spi out _ ih => exact .spi out ih
  | shadow f _ hf ih => exact .shadow f ih hf
  | sleep n _ ih => exact .sleep n ih
  | ce v hb _ ih => exact .ce v hb ih

/-- driver steps keep the radio index, the existence of the radio, and the configuration part of
    every other radio -/
theorem Reach.frame {b : Bool} {s s' : DrvState} (h : Reach b s s') (hw : s.Wf) :
    s'.d.rid = s.d.rid ∧ s'.Wf ∧ ∀ j, j ≠ s.d.rid → s'.cfgAt j = s.cfgAt j := by
  induction h with
  | refl => exact ⟨rfl, hw, fun _ _ => rfl⟩
  | spi out _ ih =>
    obtain ⟨h1, h2, h3⟩ := ih
    refine ⟨h1, (spiStep_wf _ _).2 h2, fun j hj => ?_⟩
    rw [spiStep_cfgAt _ _ h2 j (by rw [h1]; exact hj)]; exact h3 j hj
  | shadow f _ hf ih =>
    obtain ⟨h1, h2, h3⟩ := ih
    exact ⟨hf.trans h1, (modShadow_wf _ _ hf).2 h2, fun j hj => (modShadow_cfgAt _ _ _).trans (h3 j hj)⟩
  | sleep n _ ih => exact ih
  | ce v _ _ ih =>
    obtain ⟨h1, h2, h3⟩ := ih
    refine ⟨h1, (ceStep_wf _ _).2 h2, fun j hj => ?_⟩
    rw [ceStep_cfgAt _ _ h2 j (by rw [h1]; exact hj)]; exact h3 j hj

theorem Reach.length {b : Bool} {s s' : DrvState} (h : Reach b s s') : s'.w.radios.length = s.w.radios.length := by
  induction h with
  | refl => rfl
  | spi out _ ih => rw [← ih]; exact World.spi_length _ _ _
  | shadow f _ _ ih => exact ih
  | sleep n _ ih => exact ih
  | ce v _ _ ih => rw [← ih]; exact World.setCE_length _ _ _

theorem Radio.writeReg_ce (r : Radio) (reg : Nat) (d : Bytes) : (r.writeReg reg d).ce = r.ce := by
  unfold Radio.writeReg; split <;> first | rfl | (split <;> rfl)

theorem Radio.runCmd_ce (r : Radio) (c : Radio.Cmd) (d : Bytes) : (r.runCmd c d).1.ce = r.ce := by
  unfold Radio.runCmd
  cases c with
  | wRegister reg => dsimp only; split; · rfl
                     exact Radio.writeReg_ce r _ d
  | rRxPayload => dsimp only; unfold Radio.readPayload; split <;> rfl
  | wTxPayload => dsimp only; unfold Radio.writePayload; split <;> rfl
  | wTxPayloadNoAck => dsimp only; unfold Radio.writePayload; split <;> rfl
  | wAckPayload p => dsimp only; unfold Radio.writePayload; split <;> rfl
  | _ => rfl

theorem Radio.xfer_ce (r : Radio) (o : Bytes) : (r.xfer o).1.ce = r.ce := by
  unfold Radio.xfer
  cases o with
  | nil => rfl
  | cons c d => exact Radio.runCmd_ce r _ d

/-- without a CE edge the CE pin keeps its level; SPI traffic cannot move it -/
theorem Reach.ce_eq {s s' : DrvState} (h : Reach false s s') (hw : s.Wf) : s'.cfg.ce = s.cfg.ce := by
  induction h with
  | refl => rfl
  | @spi s1 out h0 ih =>
    have hf := (Reach.frame h0 hw).2.1
    rw [spiStep_cfg _ _ hf, ← ih]
    exact Radio.xfer_ce _ _
  | @shadow s1 f h0 hf ih => rw [modShadow_cfg _ _ hf]; exact ih
  | sleep n _ ih => exact ih
  | ce v hb _ _ => cases hb

section
open Lean Elab Tactic Meta

/-- one step of `reach_steps`: look at the head symbol of the target state (no unfolding) -/
def reachStepCore : TacticM Bool := do
  let g ← getMainGoal
  let t ← instantiateMVars (← g.getType)
  let tgt := t.appArg!
  let fn := tgt.getAppFn
  if fn.isConstOf ``DrvState.spiStep then
    evalTactic (← `(tactic| refine Reach.spi _ ?_)); return true
  else if fn.isConstOf ``DrvState.modShadow then
    evalTactic (← `(tactic| refine Reach.shadow _ ?_ rfl)); return true
  else if fn.isConstOf ``DrvState.sleepStep then
    evalTactic (← `(tactic| refine Reach.sleep _ ?_)); return true
  else if fn.isConstOf ``DrvState.ceStep then
    evalTactic (← `(tactic| refine Reach.ce _ rfl ?_)); return true
  else
    evalTactic (← `(tactic| with_reducible exact Reach.refl _)); return false

/-- close a `Reach` goal whose target is an explicit composition of steps -/
elab "reach_steps" : tactic => do
  let mut fuel := 400
  let mut go := true
  while go && fuel > 0 do
    go ← reachStepCore
    fuel := fuel - 1

end

/-! ### small list facts -/

theorem getD_of_mem_range {l : List Nat} {P : Nat → Prop} (h : ∀ x ∈ l, P x) (i : Nat) (hi : i < l.length) :
    P (l.getD i 0) := by
  simp only [List.getD_eq_getElem?_getD, List.getElem?_eq_getElem hi, Option.getD_some]
  exact h _ (List.getElem_mem hi)

theorem set_getD_self (l : List Nat) (i : Nat) : l.set i (l.getD i 0) = l := by
  by_cases hi : i < l.length
  · simp [List.getD_eq_getElem?_getD, List.getElem?_eq_getElem hi]
  · rw [List.set_eq_of_length_le (by omega)]

theorem set6 (l : List Nat) (h : l.length = 6) (a b c d e f : Nat) :
    (((((l.set 0 a).set 1 b).set 2 c).set 3 d).set 4 e).set 5 f = [a, b, c, d, e, f] := by
  match l, h with
  | [_, _, _, _, _, _], _ => rfl

theorem set4 (l : List Nat) (h : l.length = 4) (a b c d : Nat) :
    (((l.set 0 a).set 1 b).set 2 c).set 3 d = [a, b, c, d] := by
  match l, h with
  | [_, _, _, _], _ => rfl

theorem list6_eq (l : List Nat) (h : l.length = 6) :
    [l.getD 0 0, l.getD 1 0, l.getD 2 0, l.getD 3 0, l.getD 4 0, l.getD 5 0] = l := by
  match l, h with
  | [_, _, _, _, _, _], _ => rfl

theorem list4_eq (l : List Nat) (h : l.length = 4) :
    [l.getD 0 0, l.getD 1 0, l.getD 2 0, l.getD 3 0] = l := by
  match l, h with
  | [_, _, _, _], _ => rfl


/-! ### the `drvx` simp set -/

/-- a register read given by its literal command byte leaves the configuration part alone -/
theorem spiStep_rlit (s : DrvState) (c : Nat) (d : Bytes) (hw : s.Wf) (hc : c < 0x20) :
    (s.spiStep (c :: d)).cfg = s.cfg := spiStep_rreg s c d hw hc

attribute [drvx] exec_bind exec_pure exec_throw exec_raise exec_get exec_getD exec_set exec_modify exec_ite
  exec_modD' exec_setCE' exec_sleepNs' exec_nowNs exec_regWriteBytes exec_regCmd
  spiStep_dN modShadow_dN ceStep_dN sleepStep_dN
  spiStep_wreg spiStep_wregs spiStep_rlit modShadow_cfg ceStep_cfg sleepStep_cfg
  spiStep_wf ceStep_wf sleepStep_wf modShadow_wf'
  Radio.readReg List.headD_cons
  Rf24.CONFIGURE Rf24.AUTO_ACK Rf24.OPEN_PIPES Rf24.SETUP_RETR Rf24.RF_PA_RATE Rf24.RX_ADDR_P0 Rf24.TX_ADDRESS
  Rf24.RX_PL_LENG Rf24.DYN_PL_LEN Rf24.TX_FEATURE
  ne_eq not_false_eq_true List.cons_ne_nil eq_self

end Nrf
