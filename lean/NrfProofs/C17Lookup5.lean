/-
C17, lookups end to end, part 5: consecutive lookups differ on the air (per-call frame id), and
`check_connection(attempts, ping_master=True)` of a connected node as a function of the master's table,
for every number of attempts (induction over the retry loop).
-/
import NrfProofs.C17Lookup4

namespace Nrf.Net.Join
open Nrf Nrf.Net Nrf.Spec Nrf.Proofs

/-- two lookup frames with different frame ids are different packets -/
theorem lookFrame_pack_ne (fid fid' ax ty ty' : Nat) (body body' d : Bytes) (hax : ax < 4096)
    (hfid : fid < 65536) (hfid' : fid' < 65536) (hty : ty < 256) (hty' : ty' < 256) (hne : fid ≠ fid')
    (h : (lookFrame fid ax ty body).pack = .ok d) : (lookFrame fid' ax ty' body').pack ≠ .ok d := by
  intro h'
  exact pack_ne (t := ty) (t' := ty') rfl rfl (lookFrame_wire fid ax ty body hax hfid hty)
    (lookFrame_wire fid' ax ty' body' hax hfid' hty')
    (fun e => hne (congrArg (fun f : Frame => f.header.frameId) e)) h h' rfl

theorem lookReply_pack_ne (fid fid' ax ty ty' : Nat) (body body' d : Bytes) (hax : ax < 4096)
    (hfid : fid < 65536) (hfid' : fid' < 65536) (hty : ty < 256) (hty' : ty' < 256) (hne : fid ≠ fid')
    (h : (lookReply fid ax ty body).pack = .ok d) : (lookReply fid' ax ty' body').pack ≠ .ok d := by
  intro h'
  exact pack_ne (t := ty) (t' := ty') rfl rfl (lookReply_wire fid ax ty body hax hfid hty)
    (lookReply_wire fid' ax ty' body' hax hfid' hty')
    (fun e => hne (congrArg (fun f : Frame => f.header.frameId) e)) h h' rfl

theorem nextId_ne (n : Nat) (h : n < 65536) : n ≠ (n + 1) &&& 0xFFFF := by
  rw [and_ffff]; omega

theorem nextId_lt (n : Nat) : (n + 1) &&& 0xFFFF < 65536 := by
  rw [and_ffff]; omega

/-- the attempt loop of `check_connection(ping_master=True)` on the connected node with ID `i`: `True` iff
    at least one attempt is made and the master's table maps `i` to the node's address -/
theorem check_go_closed (L : LinkCfg) (Pm Px : List Bytes) (m x px ax : Nat) (Am Ax : Bytes) (i : Nat) (hi8 : i < 256) :
    ∀ (k : Nat) (s : NetState), Conn L Pm Px m x px ax Am Ax s → (s.nodeAt x).nodeId = i →
      (∀ pid d, (s.radioAt m).lastRx = some { pid := pid, addr := Am, data := d } →
        (lookFrame s.nextId ax MESH_ADDR_LOOKUP [i]).pack ≠ .ok d) →
      (∀ pid d, (s.radioAt x).lastRx = some { pid := pid, addr := Ax, data := d } →
        (lookReply s.nextId ax MESH_ADDR_LOOKUP
          (MeshProtocol.replyBytes (MeshProtocol.tableAddress (s.nodeAt m).dhcp i))).pack ≠ .ok d) →
      ∃ s', nexec (meshCheckConnection.go true k) s =
          (.ok (decide (0 < k ∧ MeshProtocol.tableAddress (s.nodeAt m).dhcp i = (ax : Int))), s') ∧
        Conn L Pm Px m x px ax Am Ax s' ∧ (s'.nodeAt m).dhcp = (s.nodeAt m).dhcp ∧
        (s'.nodeAt x).nodeId = i := by
  intro k
  induction k with
  | zero =>
    intro s C hi _ _
    refine ⟨s, ?_, C, rfl, hi⟩
    rw [meshCheckConnection.go.eq_1]
    rfl
  | succ k ih =>
    intro s C hi hdupm hdupx
    have hi0 : i ≠ 0 := by rw [← hi]; exact C.xid
    obtain ⟨s2, e, C2, bm, bx, nx, pid1, pid2, pk, pk', hpk, hpk', lm, lx⟩ :=
      lookup_address_closed s L Pm Px m x px ax Am Ax i C hi0 hi8 hdupm hdupx
    have hd : (s2.nodeAt m).dhcp = (s.nodeAt m).dhcp := by
      have : (s2.nodeAt m).dhcp = (s2.nodeAt m).body.dhcp := rfl
      rw [this, bm]; rfl
    have hi2 : (s2.nodeAt x).nodeId = i := by
      have : (s2.nodeAt x).nodeId = (s2.nodeAt x).body.nodeId := rfl
      rw [this, bx]; exact hi
    have hid : s.node.nodeId = i := by rw [C.node]; exact hi
    have hstep : nexec (meshCheckConnection.go true (k + 1)) s =
        (if MeshProtocol.tableAddress (s.nodeAt m).dhcp i = -2 then (.ok false, s2)
         else if MeshProtocol.tableAddress (s.nodeAt m).dhcp i = (ax : Int) then (.ok true, s2)
         else nexec (meshCheckConnection.go true k) s2) := by
      rw [meshCheckConnection.go.eq_2]
      simp only [nexec_bind, nexec_getNode, if_true, hid, e, nexec_ite, nexec_pure]
      rw [C.node, C.xaddr]
    rw [hstep]
    by_cases h2 : MeshProtocol.tableAddress (s.nodeAt m).dhcp i = -2
    · refine ⟨s2, ?_, C2, hd, hi2⟩
      rw [if_pos h2, h2]
      have : ¬ (0 < k + 1 ∧ (-2 : Int) = (ax : Int)) := by omega
      rw [decide_eq_false this]
    · rw [if_neg h2]
      by_cases ha : MeshProtocol.tableAddress (s.nodeAt m).dhcp i = (ax : Int)
      · refine ⟨s2, ?_, C2, hd, hi2⟩
        rw [if_pos ha]
        have : 0 < k + 1 ∧ MeshProtocol.tableAddress (s.nodeAt m).dhcp i = (ax : Int) := ⟨by omega, ha⟩
        rw [decide_eq_true this]
      · rw [if_neg ha]
        have hn := nextId_ne s.nextId C.nextId
        obtain ⟨s', e', C', hd', hi'⟩ := ih s2 C2 hi2
          (by
            intro pid d h
            rw [lm] at h
            injection h with h
            injection h with _ _ h
            subst h
            rw [nx]
            exact lookFrame_pack_ne _ _ ax _ _ _ _ _ C.ax12 C.nextId (nextId_lt _) (by decide) (by decide) hn hpk)
          (by
            intro pid d h
            rw [lx] at h
            injection h with h
            injection h with _ _ h
            subst h
            rw [nx]
            exact lookReply_pack_ne _ _ ax _ _ _ _ _ C.ax12 C.nextId (nextId_lt _) (by decide) (by decide) hn hpk')
        refine ⟨s', ?_, C', hd'.trans hd, hi'⟩
        rw [e', hd]
        have h1 : ¬ (0 < k ∧ MeshProtocol.tableAddress (s.nodeAt m).dhcp i = (ax : Int)) := fun h => ha h.2
        have h3 : ¬ (0 < k + 1 ∧ MeshProtocol.tableAddress (s.nodeAt m).dhcp i = (ax : Int)) := fun h => ha h.2
        rw [decide_eq_false h1, decide_eq_false h3]

/-- **`check_connection(attempts, ping_master=True)` of the connected node `x` (ID `i`, address `ax`)**:
    `True` iff `attempts ≥ 1` and the master's table maps `i` to `ax`. -/
theorem check_connection_all (s : NetState) (L : LinkCfg) (Pm Px : List Bytes) (m x px ax : Nat) (Am Ax : Bytes)
    (i k : Nat) (C : Conn L Pm Px m x px ax Am Ax s) (hi : (s.nodeAt x).nodeId = i) (hi8 : i < 256)
    (hdupm : ∀ pid d, (s.radioAt m).lastRx = some { pid := pid, addr := Am, data := d } →
      (lookFrame s.nextId ax MESH_ADDR_LOOKUP [i]).pack ≠ .ok d)
    (hdupx : ∀ pid d, (s.radioAt x).lastRx = some { pid := pid, addr := Ax, data := d } →
      (lookReply s.nextId ax MESH_ADDR_LOOKUP
        (MeshProtocol.replyBytes (MeshProtocol.tableAddress (s.nodeAt m).dhcp i))).pack ≠ .ok d) :
    ∃ s', nexec (meshCheckConnection k true) s =
        (.ok (decide (0 < k ∧ MeshProtocol.tableAddress (s.nodeAt m).dhcp i = (ax : Int))), s') ∧
      Conn L Pm Px m x px ax Am Ax s' ∧ (s'.nodeAt m).dhcp = (s.nodeAt m).dhcp := by
  obtain ⟨s', e, C', hd, _⟩ := check_go_closed L Pm Px m x px ax Am Ax i hi8 k s C hi hdupm hdupx
  refine ⟨s', ?_, C', hd⟩
  have h0 : ¬ (s.node.nodeId = 0) := by rw [C.node]; exact C.xid
  have h1 : ¬ (s.node.a.addr = NETWORK_DEFAULT_ADDR) := by rw [C.node, C.xaddr]; exact C.axd
  unfold meshCheckConnection
  simp only [nexec_bind, nexec_getNode, if_neg h0, if_neg h1]
  exact e

end Nrf.Net.Join
