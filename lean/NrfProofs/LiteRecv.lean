/-
C20 — the lite driver as RECEIVER: `read()` of `rf24_lite` on a radio that listens (PRIM_RX set) and
holds a payload at the head of its RX FIFO returns exactly that payload and removes it.

`rf24_lite.any()` reads the chip's FEATURE register (not a shadow): with EN_DPL it asks R_RX_PL_WID,
otherwise it reads RX_PW_Px of the pipe in the STATUS byte just clocked out.
-/
import NrfProofs.LiteQuiet
import NrfProofs.Traffic

namespace Nrf
open Nrf.Radio

namespace Radio

theorem txMode_of_primRx_l {r : Radio} (h : r.primRx = true) : r.txMode = false := by
  simp [txMode, h]

theorem primRx_congr_l {r r' : Radio} (hc : r'.config = r.config) : r'.primRx = r.primRx := by
  unfold primRx; rw [hc]

/-- R_RX_PL_WID -/
theorem xfer_plWid_l (r : Radio) :
    r.xfer [0x60, 0] = (r, [r.status, match r.rxFifo with | [] => 0 | e :: _ => e.data.length]) := by
  unfold xfer
  have : decodeCmd 0x60 = .rRxPlWid := by decide
  simp only [this, runCmd]
  rfl

/-- R_RX_PAYLOAD with exactly the length of the head entry -/
theorem xfer_rxPayload_l (r : Radio) (e : RxEntry) (rest : List RxEntry) (hf : r.rxFifo = e :: rest) :
    (r.xfer (0x61 :: zeros e.data.length)).1.rxFifo = rest ∧
    (r.xfer (0x61 :: zeros e.data.length)).1.config = r.config ∧
    (r.xfer (0x61 :: zeros e.data.length)).2.drop 1 = e.data := by
  unfold xfer
  have : decodeCmd 0x61 = .rRxPayload := by decide
  simp only [this, runCmd]
  unfold readPayload
  rw [hf]
  simp only [zeros, List.length_replicate, List.drop_succ_cons, List.drop_zero]
  exact ⟨trivial, trivial, List.take_left' rfl⟩

end Radio

/-- one SPI transaction of a lite object whose radio has PRIM_RX set, other than a CONFIG write:
    nothing is transmitted, the radio does what the command says, PRIM_RX stays, the object caches
    the STATUS byte the radio clocked out -/
theorem LiteState.rx_step (s : LiteState) (c : Nat) (d : Bytes) (hw : s.Wf) (hq : s.radio.primRx = true)
    (hc : c ≠ 0x20) :
    (s.spiStep (c :: d)).radio = (s.radio.xfer (c :: d)).1 ∧ (s.spiStep (c :: d)).Wf ∧
    (s.spiStep (c :: d)).radio.primRx = true ∧ (s.spiStep (c :: d)).d.status = s.radio.status ∧
    (s.spiStep (c :: d)).radio.config = s.radio.config := by
  have hcfg := Radio.xfer_config_l s.radio c d hc
  have hp : (s.radio.xfer (c :: d)).1.primRx = true := by rw [Radio.primRx_congr_l hcfg]; exact hq
  have hr := LiteState.spiStep_radio_l s (c :: d) hw (Radio.txMode_of_primRx_l hp)
  refine ⟨hr, (LiteState.spiStep_wf _ _).2 hw, by rw [hr]; exact hp, ?_, by rw [hr]; exact hcfg⟩
  rw [LiteState.spiStep_status]
  rfl

/-- **`rf24_lite.read()` returns the head of the RX FIFO and removes it.**  The lite object's radio
    exists, listens (PRIM_RX set: it transmits nothing whatever CE is), its RX FIFO is well-formed
    (pipes ≤ 5, no empty payload) with head `e`; if the chip's FEATURE register does not show EN_DPL
    (static payload lengths) the RX_PW register of the head's pipe equals the head's length — which is
    what the chip guarantees for a payload it accepted on a static pipe.  Any shadow state of the
    object.  Then `read()` returns `e.data`; afterwards the FIFO is `rest` and CONFIG is unchanged. -/
theorem lite_read_head (s : LiteState) (hw : s.Wf) (hq : s.radio.primRx = true) (hrx : s.radio.RxWf)
    (e : RxEntry) (rest : List RxEntry) (hf : s.radio.rxFifo = e :: rest)
    (hsz : (s.radio.readReg 0x1D).headD 0 &&& 4 = 0 → s.radio.rxPw.getD e.pipe 0 = e.data.length) :
    (lexec (Lite.read none) s).1 = .ok (some e.data) ∧
    (lexec (Lite.read none) s).2.radio.rxFifo = rest ∧
    (lexec (Lite.read none) s).2.radio.config = s.radio.config ∧ (lexec (Lite.read none) s).2.Wf := by
  have he := hrx e (by rw [hf]; exact List.mem_cons_self ..)
  have hlen : e.data.length ≠ 0 := fun h => he.2 (List.eq_nil_of_length_eq_zero h)
  have hpno : s.radio.rxPNo = e.pipe := by unfold Radio.rxPNo; rw [hf]
  have hpipe : (s.radio.status >>> 1) &&& 7 = e.pipe := by rw [Radio.status_pipe _ hrx, hpno]
  -- 1: FEATURE
  have hx1 := Radio.xfer_read_l s.radio 0x1D (by decide)
  obtain ⟨r1, w1, q1, st1, _⟩ := LiteState.rx_step s 0x1D [0] hw hq (by decide)
  rw [hx1] at r1
  have hv1 : s.readVal 0x1D = (s.radio.readReg 0x1D).headD 0 := by
    rw [LiteState.readVal_eq, hx1]; rfl
  have hpf1 : Lite.rxPipeField (s.spiStep [0x1D, 0]).d = e.pipe := by
    unfold Lite.rxPipeField; rw [st1]; exact hpipe
  -- the rest, from a state `s2` whose radio is still `s.radio`, once the size is known
  have tail : ∀ s2 : LiteState, s2.Wf → s2.radio = s.radio →
      (lexec (do
          let r ← Lite.regReadBytes 0x61 e.data.length
          Lite.clearStatusFlags true false false
          return some r) s2).1 = .ok (some e.data) ∧
      (lexec (do
          let r ← Lite.regReadBytes 0x61 e.data.length
          Lite.clearStatusFlags true false false
          return some r) s2).2.radio.rxFifo = rest ∧
      (lexec (do
          let r ← Lite.regReadBytes 0x61 e.data.length
          Lite.clearStatusFlags true false false
          return some r) s2).2.radio.config = s.radio.config ∧
      (lexec (do
          let r ← Lite.regReadBytes 0x61 e.data.length
          Lite.clearStatusFlags true false false
          return some r) s2).2.Wf := by
    intro s2 w2 r2
    have q2 : s2.radio.primRx = true := by rw [r2]; exact hq
    obtain ⟨r3, w3, q3, _, c3⟩ := LiteState.rx_step s2 0x61 (zeros e.data.length) w2 q2 (by decide)
    obtain ⟨x1, _, x3⟩ := Radio.xfer_rxPayload_l s.radio e rest hf
    rw [r2] at r3 c3
    obtain ⟨r4, _, _, _, c4⟩ := LiteState.rx_step (s2.spiStep (0x61 :: zeros e.data.length)) (0x20 ||| 7) [0x40] w3 q3
      (by decide)
    have e40 : ((Rf24.b2n true <<< 6 ||| Rf24.b2n false <<< 5 ||| Rf24.b2n false <<< 4 : Nat) : Int) = ((0x40 : Nat) : Int) := by
      decide
    unfold Lite.clearStatusFlags
    rw [e40]
    simp only [lexec_bind, lexec_regReadBytes, lexec_regWriteNat 7 0x40 _ (by decide) (by decide), lexec_pure]
    refine ⟨?_, ?_, ?_, (LiteState.spiStep_wf _ _).2 w3⟩
    · congr 2
      show (s2.radio.xfer (0x61 :: zeros e.data.length)).2.drop 1 = e.data
      rw [r2]; exact x3
    · rw [r4, Radio.xfer_write_l _ 7 0x40 (by decide), r3]
      show (s.radio.xfer (0x61 :: zeros e.data.length)).1.rxFifo = rest
      exact x1
    · rw [c4, c3]
  unfold Lite.read Lite.any
  simp only [lexec_bind, lexec_regRead, lexec_getD, lexec_pure, lexec_ite]
  rw [hv1, hpf1]
  have hp6 : e.pipe < 6 := by omega
  by_cases hdpl : (s.radio.readReg 0x1D).headD 0 &&& 4 ≠ 0
  · -- dynamic payload lengths: R_RX_PL_WID
    obtain ⟨r2, w2, _, _, _⟩ := LiteState.rx_step (s.spiStep [0x1D, 0]) 0x60 [0] w1 q1 (by decide)
    rw [r1, Radio.xfer_plWid_l] at r2
    have hv2 : (s.spiStep [0x1D, 0]).readVal 0x60 = e.data.length := by
      rw [LiteState.readVal_eq, r1, Radio.xfer_plWid_l, hf]; rfl
    simp only [hdpl, hp6, and_self, ne_eq, not_false_eq_true, ↓reduceIte, lexec_bind, lexec_regRead, lexec_pure,
      hv2, hlen]
    exact tail _ w2 r2
  · -- static payload lengths: RX_PW_Px
    have hx2 := Radio.xfer_read_l s.radio (0x11 + e.pipe) (by omega)
    obtain ⟨r2, w2, _, _, _⟩ := LiteState.rx_step (s.spiStep [0x1D, 0]) (0x11 + e.pipe) [0] w1 q1 (by omega)
    rw [r1, hx2] at r2
    have hreg : (s.radio.readReg (0x11 + e.pipe)).headD 0 = s.radio.rxPw.getD e.pipe 0 := by
      have : e.pipe = 0 ∨ e.pipe = 1 ∨ e.pipe = 2 ∨ e.pipe = 3 ∨ e.pipe = 4 ∨ e.pipe = 5 := by omega
      rcases this with h | h | h | h | h | h <;> rw [h] <;> rfl
    have hv2 : (s.spiStep [0x1D, 0]).readVal (0x11 + e.pipe) = e.data.length := by
      rw [LiteState.readVal_eq, r1, hx2]
      show (s.radio.readReg (0x11 + e.pipe)).headD 0 = _
      rw [hreg]; exact hsz (by simpa using hdpl)
    simp only [hdpl, hp6, false_and, ↓reduceIte, lexec_bind, lexec_regRead, lexec_pure, lexec_getD, hpf1, hv2, hlen]
    exact tail _ w2 r2

/-! ### the other receive-side accessors of the lite driver -/

theorem Radio.rxPNo_nil_l {r : Radio} (h : r.rxFifo = []) : r.rxPNo = 7 := by unfold Radio.rxPNo; rw [h]

theorem Radio.rxWf_nil_l {r : Radio} (h : r.rxFifo = []) : r.RxWf := by
  intro e he; rw [h] at he; cases he

/-- **`rf24_lite.read()` on an empty RX FIFO** of a listening radio: `None`, the chip untouched -/
theorem lite_read_empty (s : LiteState) (hw : s.Wf) (hq : s.radio.primRx = true) (hf : s.radio.rxFifo = []) :
    (lexec (Lite.read none) s).1 = .ok none ∧ (lexec (Lite.read none) s).2.radio = s.radio := by
  have hx1 := Radio.xfer_read_l s.radio 0x1D (by decide)
  obtain ⟨r1, _, _, st1, _⟩ := LiteState.rx_step s 0x1D [0] hw hq (by decide)
  rw [hx1] at r1
  have hpf1 : Lite.rxPipeField (s.spiStep [0x1D, 0]).d = 7 := by
    unfold Lite.rxPipeField
    rw [st1, Radio.status_pipe _ (Radio.rxWf_nil_l hf), Radio.rxPNo_nil_l hf]
  unfold Lite.read Lite.any
  simp only [lexec_bind, lexec_regRead, lexec_getD, lexec_pure, lexec_ite, hpf1]
  simp only [show ¬ (7 < 6) by decide, and_false, ↓reduceIte, lexec_pure]
  exact ⟨trivial, r1⟩

/-- **`rf24_lite.available()`** on a listening radio with a well-formed RX FIFO: `True` exactly when
    the FIFO holds a payload; the chip untouched -/
theorem lite_available (s : LiteState) (hw : s.Wf) (hq : s.radio.primRx = true) (hrx : s.radio.RxWf) :
    (lexec Lite.available s).1 = .ok (decide (s.radio.rxFifo ≠ [])) ∧ (lexec Lite.available s).2.radio = s.radio := by
  obtain ⟨r1, _, _, st1, _⟩ := LiteState.rx_step s 0xFF [] hw hq (by decide)
  rw [Radio.xfer_nop_l] at r1
  unfold Lite.available Lite.update
  simp only [lexec_bind, lexec_regCmd, lexec_pure, lexec_getD]
  refine ⟨?_, r1⟩
  congr 1
  unfold Lite.rxPipeField
  rw [st1, Radio.status_pipe _ hrx]
  cases hf : s.radio.rxFifo with
  | nil => simp [Radio.rxPNo_nil_l hf]
  | cons e rest =>
    have he := hrx e (by rw [hf]; exact List.mem_cons_self ..)
    have : s.radio.rxPNo = e.pipe := by unfold Radio.rxPNo; rw [hf]
    rw [this]
    simp only [ne_eq, reduceCtorEq, not_false_eq_true, decide_true, decide_eq_true_eq]
    omega

/-- **`update()` then `pipe`** of the lite driver: the pipe of the FIFO head, `None` when empty -/
theorem lite_update_pipe (s : LiteState) (hw : s.Wf) (hq : s.radio.primRx = true) (hrx : s.radio.RxWf) :
    (lexec (do let _ ← Lite.update; Lite.pipe) s).1 = .ok (s.radio.rxFifo.head?.map (·.pipe)) := by
  obtain ⟨_, _, _, st1, _⟩ := LiteState.rx_step s 0xFF [] hw hq (by decide)
  unfold Lite.update Lite.pipe
  simp only [lexec_bind, lexec_regCmd, lexec_pure, lexec_getD]
  congr 1
  unfold Lite.rxPipeField
  rw [st1, Radio.status_pipe _ hrx]
  cases hf : s.radio.rxFifo with
  | nil => simp [Radio.rxPNo_nil_l hf]
  | cons e rest =>
    have he := hrx e (by rw [hf]; exact List.mem_cons_self ..)
    have : s.radio.rxPNo = e.pipe := by unfold Radio.rxPNo; rw [hf]
    rw [this]
    have : e.pipe < 6 := by omega
    simp [this]

/-- **`rf24_lite.any()`**: the length of the FIFO head (same side condition as `lite_read_head`),
    the chip untouched -/
theorem lite_any_head (s : LiteState) (hw : s.Wf) (hq : s.radio.primRx = true) (hrx : s.radio.RxWf)
    (e : RxEntry) (rest : List RxEntry) (hf : s.radio.rxFifo = e :: rest)
    (hsz : (s.radio.readReg 0x1D).headD 0 &&& 4 = 0 → s.radio.rxPw.getD e.pipe 0 = e.data.length) :
    (lexec Lite.any s).1 = .ok e.data.length ∧ (lexec Lite.any s).2.radio = s.radio := by
  have he := hrx e (by rw [hf]; exact List.mem_cons_self ..)
  have hpno : s.radio.rxPNo = e.pipe := by unfold Radio.rxPNo; rw [hf]
  have hpipe : (s.radio.status >>> 1) &&& 7 = e.pipe := by rw [Radio.status_pipe _ hrx, hpno]
  have hx1 := Radio.xfer_read_l s.radio 0x1D (by decide)
  obtain ⟨r1, w1, q1, st1, _⟩ := LiteState.rx_step s 0x1D [0] hw hq (by decide)
  rw [hx1] at r1
  have hv1 : s.readVal 0x1D = (s.radio.readReg 0x1D).headD 0 := by
    rw [LiteState.readVal_eq, hx1]; rfl
  have hpf1 : Lite.rxPipeField (s.spiStep [0x1D, 0]).d = e.pipe := by
    unfold Lite.rxPipeField; rw [st1]; exact hpipe
  unfold Lite.any
  simp only [lexec_bind, lexec_regRead, lexec_getD, lexec_pure, lexec_ite]
  rw [hv1, hpf1]
  have hp6 : e.pipe < 6 := by omega
  by_cases hdpl : (s.radio.readReg 0x1D).headD 0 &&& 4 ≠ 0
  · obtain ⟨r2, _, _, _, _⟩ := LiteState.rx_step (s.spiStep [0x1D, 0]) 0x60 [0] w1 q1 (by decide)
    rw [r1, Radio.xfer_plWid_l] at r2
    have hv2 : (s.spiStep [0x1D, 0]).readVal 0x60 = e.data.length := by
      rw [LiteState.readVal_eq, r1, Radio.xfer_plWid_l, hf]; rfl
    simp only [hdpl, hp6, and_self, ne_eq, not_false_eq_true, ↓reduceIte, lexec_bind, lexec_regRead, lexec_pure, hv2]
    exact ⟨trivial, r2⟩
  · have hx2 := Radio.xfer_read_l s.radio (0x11 + e.pipe) (by omega)
    obtain ⟨r2, _, _, _, _⟩ := LiteState.rx_step (s.spiStep [0x1D, 0]) (0x11 + e.pipe) [0] w1 q1 (by omega)
    rw [r1, hx2] at r2
    have hreg : (s.radio.readReg (0x11 + e.pipe)).headD 0 = s.radio.rxPw.getD e.pipe 0 := by
      have : e.pipe = 0 ∨ e.pipe = 1 ∨ e.pipe = 2 ∨ e.pipe = 3 ∨ e.pipe = 4 ∨ e.pipe = 5 := by omega
      rcases this with h | h | h | h | h | h <;> rw [h] <;> rfl
    have hv2 : (s.spiStep [0x1D, 0]).readVal (0x11 + e.pipe) = e.data.length := by
      rw [LiteState.readVal_eq, r1, hx2]
      show (s.radio.readReg (0x11 + e.pipe)).headD 0 = _
      rw [hreg]; exact hsz (by simpa using hdpl)
    simp only [hdpl, hp6, false_and, ↓reduceIte, lexec_bind, lexec_regRead, lexec_pure, lexec_getD, hpf1, hv2]
    exact ⟨trivial, r2⟩

end Nrf
