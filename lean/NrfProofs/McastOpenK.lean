/-
C14, open system: every packet that `_write_to_pipe` puts on the air for a multicast is a single
unacknowledged attempt on the level address.

Between the transmit set-up (`EN_AA = 0x3E`, `TX_ADDR = x`, proved in `McastDrvK.lean`) and the end of
the transmission the driver only issues FIFO / status commands (FLUSH_TX, FLUSH_RX, W_REGISTER
STATUS, W_TX_PAYLOAD, NOP, R_REGISTER FIFO_STATUS, R_RX_PL_WID, R_RX_PAYLOAD) and CE edges: none of
them changes EN_AA, TX_ADDR or SETUP_AW, so every transmit cycle they trigger runs with those
values (`cycle_noAck`).  In the open system nothing else touches the world in between.
-/
import NrfProofs.McastNodeK
import NrfProofs.NetFrameK

namespace Nrf.Proofs.McastK
open Nrf Nrf.Net Nrf.NetK Nrf.Rf24

/-! ### radio: commands that leave the transmit configuration alone -/

/-- the command bytes `send` / `resend` / `read` issue -/
def FifoCmd (out : Bytes) : Prop :=
  ∃ c rest, out = c :: rest ∧
    (c = 0xE1 ∨ c = 0xE2 ∨ c = 0x27 ∨ c = 0xA0 ∨ c = 0xB0 ∨ c = 0xFF ∨ c = 0x17 ∨ c = 0x60 ∨ c = 0x61)

/-- the part of a radio's configuration a transmission depends on -/
structure TxCfg (x : Bytes) (r : Radio) : Prop where
  enAA : r.enAA = 0x3E
  txAddr : r.txAddr.take 5 = x
  aw : r.aw = 5

theorem txCfg_of_cfgOf {x : Bytes} {r r' : Radio} (h : r'.cfgOf = r.cfgOf) (ht : TxCfg x r) : TxCfg x r' := by
  have e1 : r'.enAA = r.enAA := show r'.cfgOf.enAA = r.cfgOf.enAA from congrArg Radio.enAA h
  have e2 : r'.txAddr = r.txAddr := show r'.cfgOf.txAddr = r.cfgOf.txAddr from congrArg Radio.txAddr h
  have e3 : r'.setupAw = r.setupAw := show r'.cfgOf.setupAw = r.cfgOf.setupAw from congrArg Radio.setupAw h
  exact ⟨e1.trans ht.enAA, by rw [e2]; exact ht.txAddr, by unfold Radio.aw; rw [e3]; exact ht.aw⟩

theorem xfer_keeps_txCfg {x : Bytes} (r : Radio) (out : Bytes) (h : FifoCmd out) (ht : TxCfg x r) :
    TxCfg x (r.xfer out).1 := by
  obtain ⟨c, rest, rfl, hc⟩ := h
  have key : (r.xfer (c :: rest)).1.enAA = r.enAA ∧ (r.xfer (c :: rest)).1.txAddr = r.txAddr ∧
      (r.xfer (c :: rest)).1.setupAw = r.setupAw := by
    unfold Radio.xfer
    simp only
    rcases hc with rfl | rfl | rfl | rfl | rfl | rfl | rfl | rfl | rfl
    · exact ⟨rfl, rfl, rfl⟩
    · exact ⟨rfl, rfl, rfl⟩
    · -- W_REGISTER STATUS
      have : Radio.decodeCmd 0x27 = .wRegister 7 := by decide
      rw [this]
      unfold Radio.runCmd
      simp only
      split
      · exact ⟨rfl, rfl, rfl⟩
      · exact ⟨rfl, rfl, rfl⟩
    · have : Radio.decodeCmd 0xA0 = .wTxPayload := by decide
      rw [this]
      unfold Radio.runCmd Radio.writePayload
      simp only
      split <;> exact ⟨rfl, rfl, rfl⟩
    · have : Radio.decodeCmd 0xB0 = .wTxPayloadNoAck := by decide
      rw [this]
      unfold Radio.runCmd Radio.writePayload
      simp only
      split <;> exact ⟨rfl, rfl, rfl⟩
    · exact ⟨rfl, rfl, rfl⟩
    · exact ⟨rfl, rfl, rfl⟩
    · exact ⟨rfl, rfl, rfl⟩
    · have : Radio.decodeCmd 0x61 = .rRxPayload := by decide
      rw [this]
      unfold Radio.runCmd Radio.readPayload
      simp only
      split <;> exact ⟨rfl, rfl, rfl⟩
  exact ⟨key.1.trans ht.enAA, by rw [key.2.1]; exact ht.txAddr, by unfold Radio.aw; rw [key.2.2]; exact ht.aw⟩

/-! ### air records -/

/-- a multicast transmission as the air log shows it: by radio `rid`, one attempt, reported sent,
    to address `x` -/
def McRec (rid : Nat) (x : Bytes) (a : AirRec) : Prop :=
  a.sender = rid ∧ a.attempts = 1 ∧ a.ok = true ∧ a.pkt.addr = x

/-- the world since the set-up: radio `rid` exists and still has the transmit configuration; every
    record appended to the air log since is a `McRec` -/
structure McWorld (rid : Nat) (x : Bytes) (air0 : List AirRec) (w : World) : Prop where
  exists_ : rid < w.radios.length
  cfg : TxCfg x (w.radio rid)
  air : ∃ news, w.air = air0 ++ news ∧ ∀ a ∈ news, McRec rid x a

theorem take5_of_aw {r : Radio} {x : Bytes} (ht : TxCfg x r) : r.txAddr.take r.aw = x := by
  rw [ht.aw]; exact ht.txAddr

theorem mcWorld_tryTransmit {rid : Nat} {x : Bytes} {air0 : List AirRec} : ∀ f w,
    McWorld rid x air0 w → McWorld rid x air0 (World.tryTransmit rid f w) := by
  intro f
  induction f with
  | zero => intro w h; exact h
  | succ f ih =>
    intro w h
    unfold World.tryTransmit
    dsimp only
    split
    · split
      · exact h
      · split
        · exact h
        · rename_i e rest _ _ _
          apply ih
          have hb : Radio.bit (w.radio rid).enAA 0 = false := by rw [h.cfg.enAA]; decide
          obtain ⟨hair, haddr, _, _⟩ := cycle_noAck w rid e rest h.exists_ hb
          have hce := World.cycle_cfgEq w rid e rest
          refine ⟨by rw [hce.1]; exact h.exists_, txCfg_of_cfgOf (hce.2 rid) h.cfg, ?_⟩
          obtain ⟨news, hn, hall⟩ := h.air
          refine ⟨news ++ [{ sender := rid, pkt := (w.radio rid).packetFor e, attempts := 1, ok := true }], ?_, ?_⟩
          · rw [hair, hn, List.append_assoc]
          · intro a ha
            rw [List.mem_append] at ha
            rcases ha with ha | ha
            · exact hall a ha
            · simp only [List.mem_singleton] at ha
              subst ha
              exact ⟨rfl, rfl, rfl, haddr.trans (take5_of_aw h.cfg)⟩
    · exact h

theorem mcWorld_setRadio {rid : Nat} {x : Bytes} {air0 : List AirRec} {w : World}
    (h : McWorld rid x air0 w) (r' : Radio) (hr : TxCfg x r') : McWorld rid x air0 (w.setRadio rid r') := by
  refine ⟨by simp [World.setRadio]; exact h.exists_, ?_, h.air⟩
  rw [World.radio_setRadio]
  simp [h.exists_, hr]

theorem mcWorld_spi {rid : Nat} {x : Bytes} {air0 : List AirRec} {w : World}
    (h : McWorld rid x air0 w) (out : Bytes) (ho : FifoCmd out) : McWorld rid x air0 (w.spi rid out).1 := by
  unfold World.spi
  dsimp only
  apply mcWorld_tryTransmit
  have hj : McWorld rid x air0 (w.jump rid) := ⟨h.exists_, h.cfg, h.air⟩
  have := mcWorld_setRadio hj ((w.jump rid).radio rid |>.xfer out).1 (xfer_keeps_txCfg _ _ ho hj.cfg)
  exact ⟨this.exists_, this.cfg, this.air⟩

theorem mcWorld_setCE {rid : Nat} {x : Bytes} {air0 : List AirRec} {w : World}
    (h : McWorld rid x air0 w) (v : Bool) : McWorld rid x air0 (w.setCE rid v) := by
  unfold World.setCE
  dsimp only
  apply mcWorld_tryTransmit
  have hj : McWorld rid x air0 (w.jump rid) := ⟨h.exists_, h.cfg, h.air⟩
  exact mcWorld_setRadio hj _ ⟨hj.cfg.enAA, hj.cfg.txAddr, hj.cfg.aw⟩

theorem mcWorld_sleep {rid : Nat} {x : Bytes} {air0 : List AirRec} {w : World}
    (h : McWorld rid x air0 w) (n : Nat) : McWorld rid x air0 (w.sleep n) := ⟨h.exists_, h.cfg, h.air⟩

/-! ### the driver: `send` / `resend` as the network layer calls them -/

/-- the driver state since the set-up -/
def McDrv (rid : Nat) (x : Bytes) (air0 : List AirRec) (t : DrvState) : Prop :=
  t.d.rid = rid ∧ McWorld rid x air0 t.w

section drv
variable {rid : Nat} {x : Bytes} {air0 : List AirRec}

theorem xfer_mc (out : Bytes) (ho : FifoCmd out) : DPres (McDrv rid x air0) (xfer out) := by
  constructor
  intro s hs
  rw [exec_xfer]
  refine ⟨hs.1, ?_⟩
  show McWorld rid x air0 (s.w.spi s.d.rid out).1
  rw [hs.1]
  exact mcWorld_spi hs.2 out ho

theorem setCE_mc (v : Bool) : DPres (McDrv rid x air0) (setCE v) := by
  constructor
  intro s hs
  rw [exec_setCE]
  refine ⟨hs.1, ?_⟩
  show McWorld rid x air0 (s.w.setCE s.d.rid v)
  rw [hs.1]
  exact mcWorld_setCE hs.2 v

theorem modD_mc (f : Rf24 → Rf24) (hf : ∀ d, (f d).rid = d.rid) : DPres (McDrv rid x air0) (modD f) := by
  constructor
  intro s hs
  rw [exec_modD]
  exact ⟨(hf _).trans hs.1, hs.2⟩

theorem fifoCmd_of {c : Nat} {rest : Bytes}
    (h : c = 0xE1 ∨ c = 0xE2 ∨ c = 0x27 ∨ c = 0xA0 ∨ c = 0xB0 ∨ c = 0xFF ∨ c = 0x17 ∨ c = 0x60 ∨ c = 0x61) :
    FifoCmd (c :: rest) := ⟨c, rest, rfl, h⟩

theorem regCmd_mc (c : Nat)
    (h : c = 0xE1 ∨ c = 0xE2 ∨ c = 0x27 ∨ c = 0xA0 ∨ c = 0xB0 ∨ c = 0xFF ∨ c = 0x17 ∨ c = 0x60 ∨ c = 0x61) :
    DPres (McDrv rid x air0) (regCmd c) := by
  unfold regCmd
  dpres [xfer_mc (rid := rid) (x := x) (air0 := air0) _ (fifoCmd_of h)]

theorem flushTx_mc : DPres (McDrv rid x air0) flushTx := regCmd_mc _ (by decide)
theorem flushRx_mc : DPres (McDrv rid x air0) flushRx := regCmd_mc _ (by decide)
theorem update_mc : DPres (McDrv rid x air0) update := by
  unfold update
  dpres [regCmd_mc (rid := rid) (x := x) (air0 := air0) 0xFF (by decide)]

theorem clearStatusFlags_mc (a b c : Bool) : DPres (McDrv rid x air0) (clearStatusFlags a b c) := by
  unfold clearStatusFlags regWrite
  have h7 : ((if (7 : Nat) ≠ 0x50 then 0x20 else 0) ||| 7 : Nat) = 0x27 := by decide
  rw [h7]
  dpres [xfer_mc (rid := rid) (x := x) (air0 := air0) _ (fifoCmd_of (c := 0x27) (Or.inr (Or.inr (Or.inl rfl))))]

theorem regRead_mc (reg : Nat) (h : reg = 0x17 ∨ reg = 0x60) : DPres (McDrv rid x air0) (regRead reg) := by
  unfold regRead
  rcases h with rfl | rfl
  · dpres [xfer_mc (rid := rid) (x := x) (air0 := air0) _ (fifoCmd_of (c := 0x17) (by decide))]
  · dpres [xfer_mc (rid := rid) (x := x) (air0 := air0) _ (fifoCmd_of (c := 0x60) (by decide))]

theorem read_mc (l : Option Nat) : DPres (McDrv rid x air0) (Rf24.read l) := by
  unfold Rf24.read any regReadBytes
  dpres [regRead_mc (rid := rid) (x := x) (air0 := air0) 0x60 (Or.inr rfl),
    clearStatusFlags_mc (rid := rid) (x := x) (air0 := air0) _ _ _,
    xfer_mc (rid := rid) (x := x) (air0 := air0) _ (fifoCmd_of (c := 0x61) (by decide))]

theorem pollFlags_mc : ∀ f, DPres (McDrv rid x air0) (pollFlags f) := by
  intro f
  induction f with
  | zero => exact DPres.raise _
  | succ f ih => rw [pollFlags]; dpres [update_mc (rid := rid) (x := x) (air0 := air0), ih]

theorem fifo_mc (a : Bool) (c : Option Bool) : DPres (McDrv rid x air0) (fifo a c) := by
  unfold fifo
  dpres [regRead_mc (rid := rid) (x := x) (air0 := air0) 0x17 (Or.inl rfl)]

theorem resend_mc (so : Bool) : DPres (McDrv rid x air0) (resend so) := by
  unfold resend
  dpres [setCE_mc (rid := rid) (x := x) (air0 := air0) _, fifo_mc (rid := rid) (x := x) (air0 := air0) _ _,
    flushRx_mc (rid := rid) (x := x) (air0 := air0), clearStatusFlags_mc (rid := rid) (x := x) (air0 := air0) _ _ _,
    update_mc (rid := rid) (x := x) (air0 := air0), pollFlags_mc (rid := rid) (x := x) (air0 := air0) _,
    read_mc (rid := rid) (x := x) (air0 := air0) _]

theorem forceRetryLoop_mc (so : Bool) : ∀ f n r, DPres (McDrv rid x air0) (forceRetryLoop so f n r) := by
  intro f
  induction f with
  | zero => intro _ _; exact DPres.raise _
  | succ f ih =>
    intro n r
    cases r <;> (rw [forceRetryLoop]; dpres [resend_mc (rid := rid) (x := x) (air0 := air0) _, ih _ _])

/-- `write(buf)` without `ask_no_ack`: STATUS cleared, W_TX_PAYLOAD, CE high -/
theorem write_mc (buf : Bytes) (m w : Bool) : DPres (McDrv rid x air0) (write buf m false w) := by
  unfold write regWriteBytes
  have hA0 : (0x20 ||| (0xA0 ||| (b2n false <<< 4)) : Nat) = 0xA0 := by decide
  dpres [setCE_mc (rid := rid) (x := x) (air0 := air0) _,
    clearStatusFlags_mc (rid := rid) (x := x) (air0 := air0) _ _ _]
  all_goals (rw [hA0]; exact xfer_mc _ (fifoCmd_of (by decide)))

theorem send_mc (buf : Bytes) (m : Bool) (fr : Int) (so : Bool) :
    DPres (McDrv rid x air0) (send buf m false fr so) := by
  unfold send
  dpres [setCE_mc (rid := rid) (x := x) (air0 := air0) _, flushTx_mc (rid := rid) (x := x) (air0 := air0),
    flushRx_mc (rid := rid) (x := x) (air0 := air0), write_mc (rid := rid) (x := x) (air0 := air0) _ _ _,
    pollFlags_mc (rid := rid) (x := x) (air0 := air0) _,
    forceRetryLoop_mc (rid := rid) (x := x) (air0 := air0) _ _ _ _, read_mc (rid := rid) (x := x) (air0 := air0) _]

end drv

/-! ### the node layer, open system -/

/-- open system, running as node `cur`, whose driver drives radio `rid`, since the set-up -/
structure McNet (cur rid : Nat) (x : Bytes) (air0 : List AirRec) (s : NetState) : Prop where
  open_ : s.closed = false
  cur : s.cur = cur
  hasCur : HasCur s
  drv : McDrv rid x air0 (drvOf s)

section net
variable {cur rid : Nat} {x : Bytes} {air0 : List AirRec}

theorem liftRf_mc {α} (m : DrvM α) (hm : DPres (McDrv rid x air0) m) :
    NPres (McNet cur rid x air0) (liftRf m) := by
  constructor
  intro s hs
  rw [nexec_liftRf]
  have := hm.run (drvOf s) hs.drv
  refine ⟨hs.open_, hs.cur, (hasCur_putDrv _ _).2 hs.hasCur, ?_⟩
  rw [drvOf_putDrv _ _ hs.hasCur]
  exact this

theorem modFrameBuf_mc (f : Node → Node) (hf : ∀ n, (f n).rf = n.rf) :
    NPres (McNet cur rid x air0) (modNode f) := by
  constructor
  intro s hs
  rw [nexec_modNode]
  refine ⟨hs.open_, hs.cur, (hasCur_updCur _ _).2 hs.hasCur, ?_⟩
  have : drvOf (updCur s f) = drvOf s := by
    unfold drvOf
    rw [curNode_updCur _ _ hs.hasCur, hf]
    rfl
  rw [this]
  exact hs.drv

theorem setHdr_mc (f : Header → Header) : NPres (McNet cur rid x air0) (setHdr f) :=
  modFrameBuf_mc _ (fun _ => rfl)

theorem sleep_mc (n : Nat) : NPres (McNet cur rid x air0) (sleepNs n) := by
  constructor
  intro s hs
  rw [nexec_sleepNs]
  exact ⟨hs.open_, hs.cur, hs.hasCur, hs.drv.1, mcWorld_sleep hs.drv.2 n⟩

/-- in the open system `rfSend` is the driver's `send` -/
theorem rfSend_mc (f : Nat) (buf : Bytes) : NPres (McNet cur rid x air0) (rfSend f buf) := by
  cases f with
  | zero => rw [rfSend.eq_1]; exact NPres.throw _
  | succ f =>
    constructor
    intro s hs
    rw [rfSend.eq_2]
    simp only [nexec_bind, nexec_get, hs.open_, Bool.false_eq_true, ↓reduceIte, nexec_pure]
    have := (liftRf_mc (cur := cur) (Rf24.send buf false false 0 true) (send_mc _ _ _ _)).run s hs
    rcases hr : nexec (liftRf (Rf24.send buf false false 0 true)) s with ⟨r, s1⟩
    rw [hr] at this
    cases r <;> exact this

theorem rfResend_mc (f : Nat) : NPres (McNet cur rid x air0) (rfResend f) := by
  cases f with
  | zero => rw [rfResend.eq_1]; exact NPres.throw _
  | succ f =>
    constructor
    intro s hs
    rw [rfResend.eq_2]
    simp only [nexec_bind, nexec_get, hs.open_, Bool.false_eq_true, ↓reduceIte, nexec_pure]
    have := (liftRf_mc (cur := cur) (Rf24.resend true) (resend_mc _)).run s hs
    rcases hr : nexec (liftRf (Rf24.resend true)) s with ⟨r, s1⟩
    rw [hr] at this
    cases r with
    | error e => exact this
    | ok v => cases v <;> exact this

theorem txStandby_mc : ∀ f d, NPres (McNet cur rid x air0) (txStandby f d) := by
  intro f
  induction f with
  | zero => intro _; rw [txStandby.eq_1]; exact NPres.throw _
  | succ f ih =>
    intro _; rw [txStandby.eq_2]
    npres [rfResend_mc (cur := cur) (rid := rid) (x := x) (air0 := air0) f, ih _]

theorem txStandbyFor_mc (f ms : Nat) : NPres (McNet cur rid x air0) (txStandbyFor f ms) := by
  cases f with
  | zero => rw [txStandbyFor.eq_1]; exact NPres.throw _
  | succ f => rw [txStandbyFor.eq_2]; npres [txStandby_mc (cur := cur) (rid := rid) (x := x) (air0 := air0) f _]

theorem fragRetry_mc : ∀ f r b, NPres (McNet cur rid x air0) (fragRetry f r b) := by
  intro f
  induction f with
  | zero => intro _ _; rw [fragRetry.eq_1]; exact NPres.throw _
  | succ f ih =>
    intro _ _; rw [fragRetry.eq_2]
    npres [sleep_mc (cur := cur) (rid := rid) (x := x) (air0 := air0) _,
      txStandbyFor_mc (cur := cur) (rid := rid) (x := x) (air0 := air0) f _, ih _ _]

theorem nodeFragLoop_mc : ∀ f t m l, NPres (McNet cur rid x air0) (nodeFragLoop f t m l) := by
  intro f
  induction f with
  | zero => intro _ _ _; rw [nodeFragLoop.eq_1]; exact NPres.throw _
  | succ f ih =>
    intro _ _ _; rw [nodeFragLoop.eq_2]
    npres [setHdr_mc (cur := cur) (rid := rid) (x := x) (air0 := air0) _,
      rfSend_mc (cur := cur) (rid := rid) (x := x) (air0 := air0) f _,
      fragRetry_mc (cur := cur) (rid := rid) (x := x) (air0 := air0) f _ _, ih _ _ _]

/-- **C14, open system: the transmission of `frame_buf`** — whole or in fragments, with all its
    retries — only produces multicast records on the air -/
theorem transmitFrameBuf_mc (f : Nat) : NPres (McNet cur rid x air0) (transmitFrameBuf f) := by
  unfold transmitFrameBuf
  npres [setHdr_mc (cur := cur) (rid := rid) (x := x) (air0 := air0) _,
    rfSend_mc (cur := cur) (rid := rid) (x := x) (air0 := air0) f _,
    txStandbyFor_mc (cur := cur) (rid := rid) (x := x) (air0 := air0) f _,
    nodeFragLoop_mc (cur := cur) (rid := rid) (x := x) (air0 := air0) f _ _ _]

end net

/-- **C14, open system, end to end.**  Under the hypotheses of `multicast_spec`, in the open system
    (no other node runs meanwhile), with 5-byte addresses: between the transmit set-up and the
    moment `_write_to_pipe` has finished (whole frame or all fragments, all retries, any outcome)
    every record appended to the air log is a transmission by the sender's radio to the address of
    the target level, made as a **single attempt without waiting for an acknowledgement**. -/
theorem multicast_air_open (msg : Bytes) (ty : Int) (level : Option Int) (s : NetState) (hc : HasCur s)
    (hw : (drvOf s).Wf) (hs : ShadowOk (curNode s).rf)
    (hcfg : SfxOk (curNode s).cfg.pfx (curNode s).cfg.sfx)
    (ham : (curNode s).cfg.allowMulticast = true) (hlvl : (curNode s).a.netLvl ≤ 4)
    (hlen : msg.length ≤ (curNode s).maxMessageLength)
    (hopen : s.closed = false) (haw : (drvOf s).cfg.aw = 5) :
    ∃ x st, Spec.levelAddrSpec (curNode s).cfg.pfx (curNode s).cfg.sfx
        (Spec.Multicast.targetLevel (curNode s).a.netLvl level) = some x ∧
      nexec (apiMulticast msg ty level) s =
        nexec (do let r ← transmitFrameBuf (F - 2)
                  liftRf (Rf24.setListen true)
                  pure r) st ∧
      ∃ news, (nexec (transmitFrameBuf (F - 2)) st).2.w.air = st.w.air ++ news ∧
        ∀ a ∈ news, McRec (curNode s).rf.rid x a := by
  obtain ⟨x, st, h1, h2, -, -, -, -, -, h8, h9, h10, h11, -, -, -, h15, h16, h17, h18⟩ :=
    multicast_spec msg ty level s hc hw hs hcfg ham hlvl hlen
  refine ⟨x, st, h1, h2, ?_⟩
  have hrid : (drvOf st).d.rid = (curNode s).rf.rid := h9
  have hnet : McNet s.cur (curNode s).rf.rid x st.w.air st := by
    refine ⟨h16.trans hopen, h17, h18, hrid, ?_, ?_, ⟨[], by simp, fun _ h => by cases h⟩⟩
    · have : (drvOf st).d.rid < (drvOf st).w.radios.length := h8
      rw [hrid] at this; exact this
    · have e : (st.w.radio (curNode s).rf.rid).cfgOf = (drvOf st).cfg := by
        unfold DrvState.cfg; rw [hrid]; rfl
      have a1 : (st.w.radio (curNode s).rf.rid).enAA = 0x3E := by
        have := h10; rw [← e] at this; exact this
      have a2 : (st.w.radio (curNode s).rf.rid).txAddr.take 5 = x := by
        have := h11; rw [← e] at this; exact this
      have a3 : (st.w.radio (curNode s).rf.rid).setupAw = (drvOf s).cfg.setupAw := by
        have := h15; rw [← e] at this; exact this
      refine ⟨a1, a2, ?_⟩
      unfold Radio.aw at haw ⊢
      show ((st.w.radio (curNode s).rf.rid).setupAw &&& 3) + 2 = 5
      rw [a3]; exact haw
  have := (transmitFrameBuf_mc (cur := s.cur) (F - 2)).run st hnet
  exact this.drv.2.air

end Nrf.Proofs.McastK
