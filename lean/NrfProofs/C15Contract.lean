/-
C15 — the two facts about the `RF24` driver that the network-layer totality proof takes from the
link layer (C02: "send()/resend() terminate"), stated as a contract on the model, and what is
proved here about `send` / `resend` without it (time).
-/
import NrfProofs.C15Safe

namespace Nrf
open Rf24 Nrf.Net

/-- **Contracts on `send(buf, send_only=True)` and `resend(send_only=True)`** as the network layer
    calls them: on a radio configured as a transmitter (PWR_UP, PRIM_RX clear — `listen = False`
    ran), without ACK payloads (EN_ACK_PAY clear), dynamic payloads on in the driver's shadow, an
    idle transmitter (`TxS`: TX FIFO empty or MAX_RT latched *and visible in the cached status
    byte*, no ACK payload queued, at most three entries queued, RX FIFO entries tagged with pipe
    numbers 0..5) and a payload of 1..32 bytes: the call **returns** (the polling loop
    `while not status & 0x30` ends within `POLL_FUEL` polls, no exception), the transmitter is
    idle again afterwards, and the RX FIFO did not grow (its entries are entries it had before).
    In any world: any fault list, any other radios.

    **Proved**: `c15contracts` (`NrfProofs/C15Discharge.lean`).  The last two clauses of `TxS`
    (FIFO depth, pipe tags) were added when the contracts were discharged: without them both
    contracts are false on (unreachable) model states — `tools/c15_contract_counterexamples.lean`. -/
structure C15Contracts : Prop where
  send_ok : ∀ (s : DrvState) (buf : Bytes), s.Wf → s.cfg.config &&& 3 = 2 → s.cfg.feature &&& 2 = 0 →
    s.d.dynPl &&& 1 ≠ 0 → 1 ≤ buf.length → buf.length ≤ 32 → TxS s →
    ∃ r s', exec (send buf false false 0 true) s = (.ok r, s') ∧ TxS s' ∧
      (s'.w.radio s.d.rid).rxFifo <:+ (s.w.radio s.d.rid).rxFifo
  resend_ok : ∀ (s : DrvState), s.Wf → s.cfg.config &&& 3 = 2 → s.cfg.feature &&& 2 = 0 →
    TxS s →
    ∃ r s', exec (resend true) s = (.ok r, s') ∧ TxS s' ∧
      (s'.w.radio s.d.rid).rxFifo <:+ (s.w.radio s.d.rid).rxFifo

/-! ### `resend()` costs at least one SPI transaction -/

/-- `resend(send_only=True)` after the FIFO_STATUS read -/
def resendTail (a : Nat) : DrvM SendRes := do
  if a ≠ 0 then return .bool false
  setCE false
  if !true ∧ rxPipeField (← getD) < 6 then flushRx
  clearStatusFlags
  setCE true
  let _ ← update
  pollFlags POLL_FUEL
  let result := (← getD).status &&& 0x20 ≠ 0
  if result ∧ (← getD).status &&& 0x40 ≠ 0 ∧ !true then
    return .payload (← Rf24.read)
  return .bool result

theorem resend_eq : resend true = (fifo true (some true) >>= resendTail) := rfl

theorem keeps_resendTail (a : Nat) : Keeps true (resendTail a) := by
  intro s0 s hs
  unfold resendTail
  simp only [dwp_bind, dwp_getD, dwp_ite, dwp_pure, dwp_setCE', Bool.not_true, Bool.false_eq_true,
    false_and, and_false, ↓reduceIte]
  split
  · exact hs
  · have h2 := hs.trans (Same.ceStep _ false hs.wf)
    refine (keeps_clearStatusFlags true _ _ _ s0 _ h2).mono (fun _ _ h => h) (fun _ s3 h3 => ?_)
    have h4 := h3.trans (Same.ceStep _ true h3.wf)
    refine (keeps_update true s0 _ h4).mono (fun _ _ h => h) (fun _ s5 h5 => ?_)
    exact (keeps_pollFlags true _ s0 _ h5).mono (fun _ _ h => h) (fun _ s6 h6 => h6)

theorem resend_clock (s : DrvState) (hw : s.Wf) :
    s.w.clock + SPI_COST_NS ≤ (exec (resend true) s).2.w.clock := by
  rw [resend_eq, exec_bind]
  unfold fifo
  simp only [exec_bind, exec_regRead, exec_pure]
  have h1 := spiStep_clock s [0x17, 0]
  have hw1 : (s.spiStep [0x17, 0]).Wf := (spiStep_wf _ _).2 hw
  have key : ∀ a, (s.spiStep [0x17, 0]).w.clock ≤ (exec (resendTail a) (s.spiStep [0x17, 0])).2.w.clock := by
    intro a
    have := keeps_resendTail a (s.spiStep [0x17, 0]) (s.spiStep [0x17, 0]) (Same.refl _ _ hw1)
    unfold dwp at this
    rcases hx : exec (resendTail a) (s.spiStep [0x17, 0]) with ⟨r, s'⟩
    rw [hx] at this
    cases r <;> exact this.clock
  exact Nat.le_trans h1 (key _)

/-- `send` never runs the clock backwards (whatever it returns) -/
theorem send_clock (s : DrvState) (hw : s.Wf) (buf : Bytes) :
    s.w.clock ≤ (exec (send buf false false 0 true) s).2.w.clock := by
  have := keeps_send buf false s s (Same.refl _ _ hw)
  unfold dwp at this
  rcases hx : exec (send buf false false 0 true) s with ⟨r, s'⟩
  rw [hx] at this
  cases r <;> exact this.clock

end Nrf
