/-
C13 helper lemmas, part 5 (routes of any length): one hop to a neighbour that may be *suspended*
(on the call stack, inside its own `read()`), and may have received frames before.

`hop_single` (NrfProofs/C05Closed.lean) asks that the receiver is off the call stack (its FIFO is then
empty by quietness) (it used to ask for a receiver that never received anything; now only `NotDup`).  On the way
back of a NETWORK_ACK the first does not hold:
the receiver is the router that forwarded the data frame — it is on the call stack, listening inside
the `read()` of its `_net_update()` loop — and its radio remembers the data frame.  `hop_any` asks
for what reception really needs: room in the RX FIFO and a packet different from the last one.
-/
import NrfProofs.C13HopsTree

namespace Nrf.Net.Hops
open Nrf Nrf.Spec Nrf.Proofs Nrf.Props.C04

/-- a frame and the acknowledgement made of it have different images on the air -/
theorem pack_ackOf_ne {fr : Frame} {pk pkA : Bytes} {t : Nat} (hwire : wireCopy fr = fr)
    (hty : fr.header.msgType = .int t) (ht : t < 192) (hpk : fr.pack = .ok pk)
    (hpkA : (ackOf fr).pack = .ok pkA) : pkA ≠ pk := by
  intro e
  subst e
  have h1 := unpack_of_pack fr fr t hty pkA hpk
  have h2 := unpack_of_pack (ackOf fr) fr NETWORK_ACK rfl pkA hpkA
  rw [h1, hwire, ackOf_wire hwire] at h2
  have h3 := congrArg (fun p => p.1.header.ty) h2
  simp only [ackOf, Header.setTy, Header.ty, hty] at h3
  unfold NETWORK_ACK at h3
  omega

/-- **One hop, single frame, closed quiet network, loss-free — receiver possibly suspended.**  As
    `hop_single`, but the receiver `b` may be on the call stack; it is listening, has room in its RX
    FIFO, and the packet is not a repetition of the last one it took. -/
theorem hop_any (hc : L3Contracts) (f : Nat) (s : NetState) (L : LinkCfg) (Pa Pb : List Bytes)
    (b p tn tp : Nat) (A pk : Bytes)
    (hcur : s.cur < s.nodes.length) (hclosed : s.closed = true)
    (hfuel : s.nodes.length + 2 ≤ f) (hquiet : Quiet s) (hWf : s.drv.Wf)
    (hNa : NodeRadio L Pa true true 0x3E s.node.rf s.drv.radio)
    (hb : b < s.nodes.length) (hbc : b ≠ s.cur)
    (hrid : ∀ i, i < s.nodes.length → i ≠ s.cur → s.ridAt i ≠ s.ridAt s.cur)
    (hNb : NodeRadio L Pb true true 0x3E (s.nodeAt b).rf (s.radioAt b))
    (haddr : pipeAddress s.node.cfg tn tp = .ok A) (hA : Pb[p]? = some A) (hp1 : 1 ≤ p) (hp5 : p ≤ 5)
    (hlt : ∀ q, q < p → Pb[q]? ≠ some A)
    (hroom : (s.radioAt b).rxFifo.length < 3)
    (hdup : ∀ pid, (s.radioAt b).lastRx ≠ some { pid := pid, addr := A, data := pk })
    (hothers : ∀ i pid, i ≠ s.ridAt s.cur → i ≠ s.ridAt b →
      (s.w.radio i).listensTo (unicastPacket L A pk pid) = none)
    (hfaults : s.w.faults = []) (hmsg : s.node.frameBuf.message.length ≤ MAX_FRAG_SIZE)
    (hpk : s.node.frameBuf.pack = .ok pk) (hnl : tn ≠ s.node.a.addr) :
    ∃ D : DrvState, nexec (nodeWriteToPipe (f + 1) tn tp false) s = (.ok true, s.afterRf D) ∧
      D.d.rid = s.node.rf.rid ∧ D.w.radios.length = s.w.radios.length ∧ D.w.faults = [] ∧
      NodeRadio L Pa false true 0x3F D.d D.radio ∧ D.radio.rxFifo = s.drv.radio.rxFifo ∧
      D.radio.lastRx = s.drv.radio.lastRx ∧
      (∃ pid, D.w.radio (s.ridAt b) =
        { (s.radioAt b) with rxFifo := (s.radioAt b).rxFifo ++ [{ pipe := p, data := pk }],
                              flags := (s.radioAt b).flags ||| 0x40, rpd := true,
                              lastRx := some { pid := pid, addr := A, data := pk }, lastAck := none }) ∧
      (∀ i, i ≠ s.ridAt s.cur → i ≠ s.ridAt b → D.w.radio i = s.w.radio i) := by
  have hridc : s.ridAt s.cur = s.drv.d.rid := rfl
  have hjb : s.ridAt b ≠ s.drv.d.rid := hrid b hb hbc
  obtain ⟨D1, e1, F1, N1, x1, _, _⟩ := hc.setAA s.drv L Pa true true 0x3E 0x3F hWf hNa (Or.inr rfl)
  obtain ⟨D2, e2, F2, N2, x2⟩ := hc.listenOff D1 L Pa true true 0x3F (F1.wf hWf) N1
  have hAlen : A.length = 5 := by
    obtain ⟨_, _, _, _, _, _, _, _, _, _, _, _, _, _, _, _, _, _, _, _, _, hPl, _⟩ := hNb
    exact hPl A (List.mem_of_getElem? hA)
  obtain ⟨D3, e3, F3, N3, x3, a3, t3⟩ := hc.openTx D2 L Pa false A ((F1.trans F2).wf hWf) N2 hAlen
  have F03 : DrvFrame s.drv D3 := (F1.trans F2).trans F3
  have hW3 : D3.Wf := F03.wf hWf
  have hk : D3.packet pk = unicastPacket L A pk D3.radio.nextPid := N3.packet A pk t3 hAlen
  have hrb : D3.w.radio (s.ridAt b) = s.radioAt b := F03.others _ hjb
  have hpkl : pk.length = 8 + s.node.frameBuf.message.length := pack_length hpk
  have hrecv := Radio.receive_idle hNb p A pk D3.radio.nextPid hp1 hp5 hA hlt hroom (hdup _)
  obtain ⟨D4, e4, r4, l4, f4, o4, N4, x4, lr4, _, _⟩ := hc.send D3 L Pa false pk (s.ridAt b) hW3 N3
    (by rw [t3, a3]) (by omega) (by unfold MAX_FRAG_SIZE at hmsg; omega)
    (by rw [F03.faults]; exact hfaults) (by rw [F03.rid]; exact hjb)
    (by rw [hrb, hk, hrecv])
  refine ⟨D4, ?_, ?_, ?_, f4, N4, ?_, ?_, ⟨D3.radio.nextPid, ?_⟩, ?_⟩
  · rw [nodeWriteToPipe.eq_2, nexec_bind, nexec_getNode]
    have hno : ¬ (tn = s.node.a.addr ∧ (!false) = true) := fun h => hnl h.1
    simp only [if_neg hno, Bool.false_eq_true, if_false]
    have e63 : (62 + 1 : Int) = ((63 : Nat) : Int) := by decide
    rw [e63, nexec_bind, nexec_liftRf_ok _ s _ D1 e1]
    simp only []
    rw [nexec_bind, nexec_liftRf_ok _ _ _ D2 (by rw [afterRf_drv s D1 hcur]; exact e2), afterRf_afterRf]
    simp only []
    have hpa : nexec (pipeAddr tn tp) (s.afterRf D2) = (.ok A, s.afterRf D2) := by
      unfold Nrf.Net.pipeAddr
      rw [nexec_bind, nexec_getNode]
      simp only []
      rw [afterRf_node s D2 hcur]
      simp only []
      rw [haddr, nexec_liftPy_ok]
    rw [nexec_bind, hpa]
    simp only []
    rw [nexec_bind, nexec_liftRf_ok _ _ _ D3 (by rw [afterRf_drv s D2 hcur]; exact e3), afterRf_afterRf]
    simp only []
    rw [nexec_bind, nexec_getNode]
    simp only []
    rw [afterRf_node s D3 hcur]
    simp only [hmsg, if_true]
    rw [nexec_bind]
    have : (Frame.pack s.node.frameBuf) = .ok pk := hpk
    rw [this, nexec_liftPy_ok]
    simp only []
    obtain ⟨f', rfl⟩ : ∃ g, f = g + 1 := ⟨f - 1, by omega⟩
    have hq3 : Quiet (s.afterRf D3) := by
      intro i hi hic hia
      have hi' : i < s.nodes.length := by simpa using hi
      have hic' : i ≠ s.cur := hic
      unfold NetState.radioAt NetState.ridAt
      rw [nodeAt_afterRf_ne s D3 i hic', afterRf_w]
      have := F03.others (s.nodeAt i).rf.rid (hrid i hi' hic')
      rw [this]
      exact hquiet i hi' hic' hia
    have hsend : nexec (rfSend (f' + 1) pk) (s.afterRf D3) = (.ok true, s.afterRf D4) := by
      rw [rfSend.eq_2, nexec_bind, nexec_get]
      simp only [afterRf_closed, hclosed, if_true]
      rw [nexec_bind, runOthers_quiet0 _ hq3 f' (by simp; omega)]
      simp only []
      rw [nexec_bind, nexec_liftRf_ok _ _ _ D4 (by rw [afterRf_drv s D3 hcur]; exact e4), afterRf_afterRf]
      rfl
    rw [nexec_bind, hsend]
    rfl
  · rw [r4, F03.rid]; rfl
  · rw [l4, F03.len]; rfl
  · rw [x4, x3, x2, x1]
  · rw [lr4, F03.lastRx]
  · rw [o4 _ (by rw [F03.rid]; exact hjb), hrb, hk, hrecv]
  · intro i hic hib
    have hi3 : i ≠ D3.d.rid := by rw [F03.rid]; exact hic
    rw [o4 i hi3, F03.others i hic, hk]
    show ((s.w.radio i).receive _).1 = _
    rw [Radio.receive_ignore _ _ (hothers i _ hic hib)]

/-- **`_write(wd, st)` that neither awaits nor emits a NETWORK_ACK**: the type asks for none, or the
    frame is forwarded (`TX_ROUTED`) to a hop that is not its destination (a router in the middle
    of the route).  One hop (`hop_any`), listening restored, `True`. -/
theorem nodeWrite_hop_plain (hc : L3Contracts) (f : Nat) (s : NetState) (L : LinkCfg) (Pa Pb : List Bytes)
    (b p wd tn tp st t : Nat) (A pk : Bytes)
    (hcur : s.cur < s.nodes.length) (hclosed : s.closed = true)
    (hfuel : s.nodes.length + 2 ≤ f) (hquiet : Quiet s) (hWf : s.drv.Wf)
    (hNa : NodeRadio L Pa true true 0x3E s.node.rf s.drv.radio)
    (hb : b < s.nodes.length) (hbc : b ≠ s.cur)
    (hrid : ∀ i, i < s.nodes.length → i ≠ s.cur → s.ridAt i ≠ s.ridAt s.cur)
    (hNb : NodeRadio L Pb true true 0x3E (s.nodeAt b).rf (s.radioAt b))
    (haddr : pipeAddress s.node.cfg tn tp = .ok A) (hA : Pb[p]? = some A) (hp1 : 1 ≤ p) (hp5 : p ≤ 5)
    (hlt : ∀ q, q < p → Pb[q]? ≠ some A)
    (hroom : (s.radioAt b).rxFifo.length < 3)
    (hdup : ∀ pid, (s.radioAt b).lastRx ≠ some { pid := pid, addr := A, data := pk })
    (hothers : ∀ i pid, i ≠ s.ridAt s.cur → i ≠ s.ridAt b →
      (s.w.radio i).listensTo (unicastPacket L A pk pid) = none)
    (hfaults : s.w.faults = []) (hmsg : s.node.frameBuf.message.length ≤ MAX_FRAG_SIZE)
    (hpk : s.node.frameBuf.pack = .ok pk) (hnl : tn ≠ s.node.a.addr)
    (ht : s.node.frameBuf.header.msgType = .int t)
    (hl2p : logi2phys s.node.a wd st = (tn, tp, false))
    (hplain : ¬ (64 < t ∧ t < 192) ∨ (st = TX_ROUTED ∧ tn ≠ wd)) :
    ∃ D : DrvState, nexec (nodeWrite (f + 2) wd st) s = (.ok true, s.afterRf D) ∧
      D.d.rid = s.node.rf.rid ∧ D.w.radios.length = s.w.radios.length ∧ D.w.faults = [] ∧
      NodeRadio L Pa true true 0x3E D.d D.radio ∧ D.radio.rxFifo = s.drv.radio.rxFifo ∧
      D.radio.lastRx = s.drv.radio.lastRx ∧
      (∃ pid, D.w.radio (s.ridAt b) =
        { (s.radioAt b) with rxFifo := (s.radioAt b).rxFifo ++ [{ pipe := p, data := pk }],
                              flags := (s.radioAt b).flags ||| 0x40, rpd := true,
                              lastRx := some { pid := pid, addr := A, data := pk }, lastAck := none }) ∧
      (∀ i, i ≠ s.ridAt s.cur → i ≠ s.ridAt b → D.w.radio i = s.w.radio i) := by
  obtain ⟨D1, e1, r1, l1, f1, N1, x1, lr1, hrb, hoth⟩ := hop_any hc f s L Pa Pb b p tn tp A pk hcur hclosed hfuel
    hquiet hWf hNa hb hbc hrid hNb haddr hA hp1 hp5 hlt hroom hdup hothers hfaults hmsg hpk hnl
  have hW1 : D1.Wf := by
    unfold DrvState.Wf at *
    rw [r1, l1]; exact hWf
  obtain ⟨D2, e2, e3, F2, N2, x2⟩ := restore hc s D1 L Pa true hcur hW1 N1
  have hjb : s.ridAt b ≠ D1.d.rid := by rw [r1]; exact hrid b hb hbc
  refine ⟨D2, ?_, by rw [F2.rid, r1], by rw [F2.len, l1], by rw [F2.faults, f1], N2, by rw [x2, x1],
    by rw [F2.lastRx, lr1], ?_, ?_⟩
  · rw [show f + 2 = (f + 1) + 1 from rfl, nodeWrite_step_raw (f + 1) wd st s t ht, hl2p]
    have hpre : writePrelude s t wd st = s := by
      unfold writePrelude
      rw [if_neg]
      rintro ⟨h1, h2, h3⟩
      rcases hplain with h | h
      · exact h h3
      · rw [hl2p] at h2; exact h.2 h2.symm
    have hact : (if 64 < t ∧ t < 192 then
          if st = TX_ROUTED ∧ tn = wd ∧ (s.afterRf D1).node.frameBuf.header.fromNode ≠ (s.afterRf D1).node.a.addr
            then AckAction.emit
          else if tn ≠ wd ∧ (st = TX_NORMAL ∨ st = TX_LOGICAL) then AckAction.await
          else AckAction.none
        else AckAction.none) = AckAction.none := by
      rcases hplain with h | h
      · rw [if_neg h]
      · split
        · rw [if_neg (fun hh => h.2 hh.2.1), if_neg]
          rintro ⟨_, h4 | h4⟩ <;> rw [h.1] at h4 <;> exact absurd h4 (by decide)
        · rfl
    simp only [hpre, e1, if_true, hact]
    unfold ackCont
    simp only [Bool.not_false, if_true]
    rw [nexec_bind, e2]
    simp only []
    rw [nexec_bind, e3]
    rfl
  · obtain ⟨pid, hpid⟩ := hrb
    exact ⟨pid, by rw [F2.others _ hjb, hpid]⟩
  · intro i hic hib
    rw [F2.others i (by rw [r1]; exact hic), hoth i hic hib]

end Nrf.Net.Hops
