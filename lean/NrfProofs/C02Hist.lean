/-
C02 helper lemmas, part 6: the invariant of send/resend histories, `resend()` on an empty TX FIFO.
-/
import NrfProofs.C02Spec

namespace Nrf
open Rf24 Spec.Link

/-- the state of driver and radio between two calls of a send/resend history of a PTX with
    registers `R`: either a failed transmission is pending (exactly its payload queued, MAX_RT
    latched and shown by the cached status byte), or the TX FIFO is empty and the cached status byte
    is right about the RX FIFO being empty or not -/
def Hist (R : Radio) (s : DrvState) : Prop :=
  (∃ e k, FailedSt R e k s ∧ s.d.status = s.rad.status) ∨
  (s.Wf ∧ s.rad.regs = R.regs ∧ s.rad.RxPipes ∧ s.rad.txFifo = [] ∧ (s.rad.rxFifo = [] ∨ rxPipeField s.d = s.rad.rxPNo))

theorem Hist.wf {R : Radio} {s : DrvState} (h : Hist R s) : s.Wf := by
  rcases h with ⟨e, k, hf, _⟩ | ⟨hw, _⟩
  · exact hf.wf
  · exact hw

theorem Hist.regs {R : Radio} {s : DrvState} (h : Hist R s) : s.rad.regs = R.regs := by
  rcases h with ⟨e, k, hf, _⟩ | ⟨_, hr, _⟩
  · exact hf.regs
  · exact hr

/-- in such a state `send()` may be called: its precondition holds for every payload that passes
    `write()`'s check -/
theorem Hist.sendPre {R : Radio} {s : DrvState} (h : Hist R s) (hp : R.Ptx) (buf : Bytes) (sendOnly : Bool)
    (hlen : s.d.dynPl &&& 1 ≠ 0 → buf ≠ [] ∧ buf.length ≤ 32) (hpad : s.d.dynPl &&& 1 = 0 → 1 ≤ s.d.plLen.getD 0 0) :
    SendPre s buf sendOnly := by
  rcases h with ⟨e, k, hf, hfr⟩ | ⟨hw, hr, hpi, htx, hrx⟩
  · refine ⟨hf.wf, Radio.ptx_regs _ _ hf.regs hp, hf.pipes, Or.inl (Or.inl ?_), fun _ => Or.inr (fresh_rx _ hf.pipes hfr),
      hlen, hpad⟩
    rw [hfr, (Radio.status_decodeP _ hf.pipes).2.2.2.2.2.1, hf.flags]; decide
  · exact ⟨hw, Radio.ptx_regs _ _ hr hp, hpi, Or.inr htx, fun _ => hrx, hlen, hpad⟩

theorem Settled.hist {R : Radio} {so : Bool} {res : SendRes} {s : DrvState} (h : Settled R so res s) (hw : s.Wf) :
    Hist R s := Or.inr ⟨hw, h.regs, h.pipes, h.tx, h.rx⟩

/-- **`send()` keeps the invariant** -/
theorem hist_send (R : Radio) (s : DrvState) (h : Hist R s) (hp : R.Ptx) (buf : Bytes) (m askNoAck : Bool) (n : Nat)
    (sendOnly : Bool) (hlen : s.d.dynPl &&& 1 ≠ 0 → buf ≠ [] ∧ buf.length ≤ 32)
    (hpad : s.d.dynPl &&& 1 = 0 → 1 ≤ s.d.plLen.getD 0 0)
    (henv : AckEnv s.rad (s.sendPacket askNoAck buf) s) :
    Hist R (exec (send buf m askNoAck (n : Int) sendOnly) s).2 := by
  have hpre := h.sendPre hp buf sendOnly hlen hpad
  obtain ⟨_, ⟨att, _, _, _, hrun⟩, h3, h4⟩ := send_final s buf m askNoAck n sendOnly hpre henv
  have hregs := h.regs
  cases hok : sendSucceedsB (s.sendAwaits askNoAck buf) (s.sendAcked askNoAck buf) s.w.faults (World.arcOf s.rad) n with
  | false =>
    obtain ⟨hf, hfr⟩ := h3 hok
    exact Or.inl ⟨_, _, ⟨hf.wf, by rw [hf.regs, hregs], hf.fifo, hf.flags, hf.pipes, hf.pkt, hf.sendable, hf.hpid, hf.npid⟩, hfr⟩
  | true =>
    have hs := h4 hok
    exact Or.inr ⟨hrun.wf, by rw [hs.regs, hregs], hs.pipes, hs.tx, hs.rx⟩

/-- `resend()` with nothing queued: `False`, one register read, nothing transmitted -/
theorem resend_empty (s : DrvState) (sendOnly : Bool) (hw : s.Wf) (htx : s.rad.txFifo = []) :
    (exec (resend sendOnly) s).1 = .ok (.bool false) ∧
    (exec (resend sendOnly) s).2.rad = s.rad ∧
    World.Only s.d.rid s.w (exec (resend sendOnly) s).2.w ∧
    (exec (resend sendOnly) s).2.d = { s.d with status := s.rad.status } := by
  rw [resend_eq]
  simp only [exec_bind, exec_fifo]
  have hfa : fifoAnswer (fifoOf s.rad true) (some true) = 1 := by
    unfold fifoOf fifoAnswer; simp [htx]
  have h10 : (1 : Nat) ≠ 0 := by decide
  simp only [hfa, h10, ne_eq, not_false_eq_true, ↓reduceIte, exec_pure]
  have hx1 : (s.rad.xfer [0x17, 0]).1 = s.rad := by rw [Radio.xfer_rreg _ _ (by decide)]
  obtain ⟨hd1, hr1, ho1, _⟩ := spiStep_quiet s 0x17 [0] hw (by rw [hx1]; exact Radio.idle_of_empty _ htx)
  rw [hx1] at hr1
  exact ⟨trivial, hr1, ho1, hd1⟩

/-- **`resend()` keeps the invariant** -/
theorem hist_resend (R : Radio) (s : DrvState) (h : Hist R s) (hp : R.Ptx) (sendOnly : Bool)
    (henv : ∀ e k, FailedSt R e k s → AckEnv R k s) :
    Hist R (exec (resend sendOnly) s).2 := by
  rcases h with ⟨e, k, hf, hfr⟩ | ⟨hw, hr, hpi, htx, hrx⟩
  · obtain ⟨s', h1, h2, h3, h4⟩ := resend_spec R e k s sendOnly hp hf (henv e k hf)
    rw [h1]
    cases hok : cycleOkSpec (R.awaitsAck e) (ackedR R s.w s.d.rid k) s.w.faults (World.arcOf R + 1) with
    | false => obtain ⟨a, b⟩ := h3 hok; exact Or.inl ⟨e, k, a, b⟩
    | true => exact (h4 hok).hist h2.wf
  · obtain ⟨_, r2, r3, r4⟩ := resend_empty s sendOnly hw htx
    refine Or.inr ⟨?_, by rw [r2]; exact hr, by rw [r2]; exact hpi, by rw [r2]; exact htx, Or.inr ?_⟩
    · unfold DrvState.Wf; rw [r4, r3.2.2.2.2.1]; exact hw
    · unfold rxPipeField; rw [r4, r2]; exact (Radio.status_decodeP _ hpi).1

/-- the environment condition of the ACK-payload claim holds in every sane world (hence in every
    reachable one, `World.Reachable.good`) when the EN_DPL shadow agrees with the register -/
theorem ackEnv_of_sane (R : Radio) (k : Packet) (s : DrvState) (hs : s.w.Sane)
    (hfeat : R.ackPayRx = true → s.d.features &&& 4 ≠ 0) : AckEnv R k s := by
  refine ⟨hfeat, fun d hd => ?_⟩
  obtain ⟨j, hj, _, hr⟩ := World.deliver_ack_some s.w s.d.rid k _ hd
  exact Radio.receive_ack_nonempty _ _ (hs j hj) d hr

/-! ### list / tuple input -/

/-- what `send(b)` must return from state `s` -/
def expectedOne (s : DrvState) (askNoAck : Bool) (n : Nat) (sendOnly : Bool) (b : Bytes) : SendRes :=
  sendExpected (sendSucceedsB (s.sendAwaits askNoAck b) (s.sendAcked askNoAck b) s.w.faults (World.arcOf s.rad) n)
    sendOnly (s.sendAckPayload askNoAck b)

/-- the results a list input must yield: one per payload, in order, each judged in the state its
    predecessors leave behind -/
def expectedList (askNoAck : Bool) (n : Nat) (sendOnly : Bool) : DrvState → List (Bool × Bytes) → List (SendRes × Bytes)
  | _, [] => []
  | s, mb :: rest =>
    (expectedOne s askNoAck n sendOnly mb.2, mb.2) ::
      expectedList askNoAck n sendOnly (exec (send mb.2 mb.1 askNoAck (n : Int) sendOnly) s).2 rest

/-- every payload of the list passes `write()`'s check and meets the ACK-payload environment
    condition in the state in which it is sent -/
def listOk (askNoAck : Bool) (n : Nat) (sendOnly : Bool) : DrvState → List (Bool × Bytes) → Prop
  | _, [] => True
  | s, mb :: rest =>
    (s.d.dynPl &&& 1 ≠ 0 → mb.2 ≠ [] ∧ mb.2.length ≤ 32) ∧ (s.d.dynPl &&& 1 = 0 → 1 ≤ s.d.plLen.getD 0 0) ∧
    AckEnv s.rad (s.sendPacket askNoAck mb.2) s ∧
    listOk askNoAck n sendOnly (exec (send mb.2 mb.1 askNoAck (n : Int) sendOnly) s).2 rest

theorem mapM_send (R : Radio) (hp : R.Ptx) (askNoAck : Bool) (n : Nat) (sendOnly : Bool) :
    ∀ (bufs : List (Bool × Bytes)) (s : DrvState), Hist R s → listOk askNoAck n sendOnly s bufs →
      (exec (bufs.mapM fun mb => send mb.2 mb.1 askNoAck (n : Int) sendOnly) s).1 =
        .ok (expectedList askNoAck n sendOnly s bufs) ∧
      Hist R (exec (bufs.mapM fun mb => send mb.2 mb.1 askNoAck (n : Int) sendOnly) s).2 := by
  intro bufs
  induction bufs with
  | nil => intro s h _; exact ⟨rfl, h⟩
  | cons mb rest ih =>
    intro s h hok
    obtain ⟨h1, h2, h3, h4⟩ := hok
    have hpre := h.sendPre hp mb.2 sendOnly h1 h2
    have hres := (send_final s mb.2 mb.1 askNoAck n sendOnly hpre h3).1
    have hh := hist_send R s h hp mb.2 mb.1 askNoAck n sendOnly h1 h2 h3
    obtain ⟨i1, i2⟩ := ih _ hh h4
    rw [List.mapM_cons, exec_bind_ok hres, exec_bind_ok i1, exec_pure]
    exact ⟨rfl, i2⟩

end Nrf
