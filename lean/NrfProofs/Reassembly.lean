/-
Helper lemmas for C11 (spec level): the reference encoder's frames — count, bodies, and that the
TMRh20-style reference reassembler turns them back into the message.
-/
import NrfModel.Spec.Reassembly

namespace Nrf.Proofs
open Nrf.Spec

theorem fragCount_ge2 {n : Nat} (h : 24 < n) : 2 ≤ fragCount n := by
  unfold fragCount FRAG_SIZE; omega

theorem fragCount_upper (n : Nat) : n ≤ 24 * fragCount n := by
  unfold fragCount FRAG_SIZE; omega

theorem fragCount_lower {n : Nat} (h : 0 < n) : 24 * (fragCount n - 1) < n := by
  unfold fragCount FRAG_SIZE; omega

/-- cutting a list into consecutive 24-byte pieces and concatenating them gives the list back -/
theorem chunks_concat (c : Nat) : ∀ (l : List Nat), l.length ≤ 24 * c →
    (List.range c).flatMap (fun k => (l.drop (24 * k)).take 24) = l := by
  induction c with
  | zero => intro l h; have : l = [] := List.eq_nil_of_length_eq_zero (by omega); simp [this]
  | succ c ih =>
    intro l h
    rw [List.range_succ_eq_map, List.flatMap_cons, List.flatMap_map]
    have := ih (l.drop 24) (by simp; omega)
    simp only [List.drop_drop] at this
    have e : (fun k => List.take 24 (List.drop (24 * (k + 1)) l))
        = (fun k => List.take 24 (List.drop (24 + 24 * k) l)) := by
      funext k; congr 2; omega
    simp only [Nat.mul_zero, List.drop_zero, Function.comp_def, Nat.succ_eq_add_one, e, this]
    exact List.take_append_drop 24 l

theorem range_split {total : Nat} (h : 2 ≤ total) :
    List.range total = 0 :: (List.range' 1 (total - 2) ++ [total - 1]) := by
  obtain ⟨n, rfl⟩ : ∃ n, total = n + 2 := ⟨total - 2, by omega⟩
  rw [List.range_eq_range', List.range'_succ, List.range'_concat]
  simp; omega

/-- the cache entry after fragments `0 .. k-1` -/
def partialMsg (m : Msg) (total k : Nat) : WFrame :=
  { src := m.src, dst := m.dst, id := m.id, ty := FRAG_FIRST, rsv := total - (k - 1),
    body := m.body.take (24 * k) }

theorem tmrh_more (m : Msg) (total : Nat) (out : List WFrame) :
    ∀ (cnt k : Nat), 1 ≤ k → k + cnt + 1 ≤ total →
      ((List.range' k cnt).map (fragment m total)).foldl tmrhStep
          { cache := [((m.src, m.id), partialMsg m total k)], out := out }
        = { cache := [((m.src, m.id), partialMsg m total (k + cnt))], out := out } := by
  intro cnt
  induction cnt with
  | zero => intro k _ _; simp
  | succ cnt ih =>
    intro k hk hle
    rw [List.range'_succ, List.map_cons, List.foldl_cons]
    have hstep : tmrhStep { cache := [((m.src, m.id), partialMsg m total k)], out := out }
        (fragment m total k)
        = { cache := [((m.src, m.id), partialMsg m total (k + 1))], out := out } := by
      have e1 : ¬ (k + 1 = total) := by omega
      have e2 : ¬ (k = 0) := by omega
      have e3 : total - k + 1 = total - (k - 1) := by omega
      simp only [tmrhStep, fragment, e1, e2, ↓reduceIte, FRAG_MORE, FRAG_FIRST,
        partialMsg, List.lookup_cons, beq_self_eq_true, e3, cacheErase, FRAG_SIZE]
      simp only [Nat.reduceEqDiff, ↓reduceIte, ne_eq, not_true_eq_false, decide_false,
        Bool.false_eq_true, not_false_eq_true, List.filter_cons_of_neg, List.filter_nil,
        Nat.add_one_sub_one, Tmrh.mk.injEq, List.cons.injEq, Prod.mk.injEq, true_and, and_true,
        WFrame.mk.injEq]
      rw [Nat.mul_add, Nat.mul_one, List.take_add]
    rw [hstep, ih (k + 1) (by omega) (by omega)]
    congr 4
    omega

/-- the TMRh20-style receiver, fed with the reference encoder's frames of a message that needs
    fragmenting, hands out exactly that message (type restored from the last fragment) -/
theorem tmrh_refFrames (m : Msg) (h : 24 < m.body.length) :
    tmrhReassemble (refFrames m) =
      [{ src := m.src, dst := m.dst, id := m.id, ty := m.ty, rsv := m.ty, body := m.body }] := by
  have h2 := fragCount_ge2 h
  have hup := fragCount_upper m.body.length
  generalize htot : fragCount m.body.length = total at *
  unfold tmrhReassemble refFrames
  have hnot : ¬ (m.body.length ≤ FRAG_SIZE) := by unfold FRAG_SIZE; omega
  simp only [hnot, ↓reduceIte, htot]
  rw [range_split h2, List.map_cons, List.map_append, List.foldl_cons, List.foldl_append]
  have hfirst : tmrhStep {} (fragment m total 0)
      = { cache := [((m.src, m.id), partialMsg m total 1)], out := [] } := by
    have e1 : ¬ (0 + 1 = total) := by omega
    simp [tmrhStep, fragment, e1, FRAG_FIRST, partialMsg, cacheErase, FRAG_SIZE]
  rw [hfirst, tmrh_more m total [] (total - 2) 1 (by omega) (by omega)]
  have e1 : total - 1 + 1 = total := by omega
  have e2 : 1 + (total - 2) = total - 1 := by omega
  simp only [List.map_cons, List.map_nil, List.foldl_cons, List.foldl_nil, tmrhStep, fragment, e1,
    e2, ↓reduceIte, FRAG_LAST, FRAG_FIRST, FRAG_MORE, partialMsg, List.lookup_cons,
    beq_self_eq_true, cacheErase, FRAG_SIZE]
  have e3 : total - (total - 1 - 1) = 2 := by omega
  simp only [Nat.reduceEqDiff, ↓reduceIte, e3, List.nil_append, List.cons.injEq, WFrame.mk.injEq,
    true_and, and_true]
  rw [← List.take_add]
  apply List.take_of_length_le
  omega

end Nrf.Proofs
