/-
C05, round 2: kernel evaluation of CONCRETE runs — a fragmented 60-byte message (three fragments) over two hops
in `Example.three`, the ends of the two type ranges: 0 and 64 (no NETWORK_ACK awaited by the origin: delivery
completes at the router's next `update()`), 65, 100 and 127 (the origin waits for the NETWORK_ACK: delivery
completes inside `write()`); and the same over the BRANCHING route `0o1 → 0o0 → 0o2` of `Example.fork`
(up to the common ancestor and down).
-/
import NrfProofs.C05FragRoute
import NrfProofs.C05ExampleFork

namespace Nrf.Net.Inst
open Nrf Nrf.Net Nrf.Spec Nrf.Proofs

theorem three_types_noack : ∀ t ∈ [(0 : Int), 64],
    routeRunB Example.three (val []) t (List.range 60) (callerFrame [1, 1] [] 6 t (List.range 60)) 1 0 (val [1, 1])
      (planAir (List.range 60) t.toNat ⟨val [1, 1], val [], 6, .int t.toNat, 0⟩ [2, 1]) = true := by
  decide +kernel

theorem three_types_ack : ∀ t ∈ [(65 : Int), 100, 127],
    writeRunB Example.three (val []) t (List.range 60) (callerFrame [1, 1] [] 6 t (List.range 60)) 0 (val [1, 1])
      (planAir (List.range 60) t.toNat ⟨val [1, 1], val [], 6, .int t.toNat, 0⟩ [2, 1]) = true := by
  decide +kernel

theorem fork_noack : ∀ n ∈ [25, 60, 144],
    routeRunB Example.fork (val [2]) 5 (List.range n) (callerFrame [1] [2] 6 5 (List.range n)) 0 2 (val [1])
      (planAir (List.range n) 5 ⟨val [1], val [2], 6, .int 5, 0⟩ [1, 0]) = true := by
  decide +kernel

theorem fork_ack :
    writeRunB Example.fork (val [2]) 100 (List.range 60) (callerFrame [1] [2] 6 100 (List.range 60)) 2 (val [1])
      (planAir (List.range 60) 100 ⟨val [1], val [2], 6, .int 100, 0⟩ [1, 0]) = true := by
  decide +kernel

end Nrf.Net.Inst
