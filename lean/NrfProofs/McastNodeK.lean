/-
C14, node level: `multicast()` → `_write` → `_write_to_pipe` for `TX_MULTICAST`, and
`_handle_frame_for_other_node` on a received multicast frame.
-/
import NrfProofs.NetExecK
import NrfProofs.McastDrvK
import NrfProofs.McastAirK

namespace Nrf.Proofs.McastK
open Nrf Nrf.Net Nrf.NetK Nrf.Spec Nrf.Spec.Multicast Nrf.Proofs

/-! ### levels -/

/-- the level computed by `multicast()` is the one the spec names -/
theorem level_eq_spec (own : Nat) (l : Int) : (min 4 (max l 0)).toNat = targetLevel own (some l) := by
  unfold targetLevel
  simp only
  split
  · omega
  · split <;> omega

theorem targetLevel_le (own : Nat) (level : Option Int) (h : own ≤ 4) : targetLevel own level ≤ 4 := by
  unfold targetLevel
  cases level with
  | none => exact h
  | some l =>
    simp only
    split
    · omega
    · split <;> omega

/-- **the relay address.**  `(_lvl_2_addr(l) << 3) & 0xFFFF` is the logical address of level
    `l + 1` for every level 1..4 (the property speaks of 1..3; level 4 yields the address of a
    level 5 on which no node can sit), and stays 0 — the master's own level — for level 0. -/
theorem relay_addr (l : Nat) (h1 : 1 ≤ l) (h4 : l ≤ 4) :
    (lvl2addr l <<< 3) &&& 0xFFFF = lvl2addr (l + 1) := by
  have : l = 1 ∨ l = 2 ∨ l = 3 ∨ l = 4 := by omega
  rcases this with rfl | rfl | rfl | rfl <;> decide

theorem relay_addr_zero : (lvl2addr 0 <<< 3) &&& 0xFFFF = lvl2addr 0 := by decide

/-! ### `multicast()` -/

/-- the message `multicast()` puts into `frame_buf` (truncated to one frame when fragmentation is
    off) -/
def mcMessage (n : Node) (msg : Bytes) : Bytes :=
  if msg.length > MAX_FRAG_SIZE ∧ (!n.fragEnabled) = true then msg.take MAX_FRAG_SIZE else msg

/-- the node state in which `multicast()` calls `_write` -/
def mcPrepared (s : NetState) (msg : Bytes) (ty : Int) : NetState :=
  updCur s fun n => { n with frameBuf :=
    { header := { n.frameBuf.header with fromNode := (curNode s).a.addr, toNode := NETWORK_MULTICAST_ADDR,
                                         msgType := .int (maskInt ty 0xFF) },
      message := mcMessage (curNode s) msg } }

/-- `multicast(message, message_type, level)`: a message longer than `max_message_length` raises
    `ValueError` before anything happens; otherwise the header is set up and `_write` is called
    for the address of the level the spec names -/
theorem nexec_apiMulticast (msg : Bytes) (ty : Int) (level : Option Int) (s : NetState) :
    nexec (apiMulticast msg ty level) s =
      if msg.length > (curNode s).maxMessageLength then (.error .valueError, s)
      else nexec (nodeWrite F (lvl2addr (targetLevel (curNode s).a.netLvl level)) TX_MULTICAST)
            (mcPrepared s msg ty) := by
  unfold apiMulticast nodeValidateMsgLen
  simp only [nexec_bind, nexec_getNode, nexec_ite, nexec_pure, nexec_throw, nexec_setHdr, nexec_modNode]
  by_cases h1 : msg.length > (curNode s).maxMessageLength
  · simp only [h1, ↓reduceIte]
  · simp only [h1, ↓reduceIte]
    have hlv : ∀ l : Int, (min 4 (max l 0)).toNat = targetLevel (curNode s).a.netLvl (some l) :=
      fun l => level_eq_spec _ l
    by_cases h2 : msg.length > MAX_FRAG_SIZE ∧ (!(curNode s).fragEnabled) = true
    · simp only [h2, and_self, ↓reduceIte, updCur_updCur]
      cases level with
      | none =>
        simp only [targetLevel]
        congr 1
        unfold mcPrepared mcMessage
        rw [if_pos h2]
        congr 1
      | some l =>
        simp only [hlv]
        congr 1
        unfold mcPrepared mcMessage
        rw [if_pos h2]
        congr 1
    · simp only [h2, ↓reduceIte, updCur_updCur]
      cases level with
      | none =>
        simp only [targetLevel]
        congr 1
        unfold mcPrepared mcMessage
        rw [if_neg h2]
        congr 1
      | some l =>
        simp only [hlv]
        congr 1
        unfold mcPrepared mcMessage
        rw [if_neg h2]
        congr 1

/-! ### `_write` / `_write_to_pipe` for a multicast -/

/-- `_write(target, TX_MULTICAST)`: no routing (`_logi_2_phys` returns the target itself, pipe 0,
    multicast), no NETWORK_ACK is sent or awaited whatever the message type, afterwards the node
    listens again; auto-ack is *not* switched back on for pipe 0 -/
theorem nexec_nodeWrite_multicast (f tgt : Nat) (s : NetState) (t : Nat)
    (ht : (curNode s).frameBuf.header.msgType = .int t) :
    nexec (nodeWrite (f + 1) tgt TX_MULTICAST) s =
      nexec (do let r ← nodeWriteToPipe f tgt 0 true
                liftRf (Rf24.setListen true)
                pure r) s := by
  rw [nodeWrite.eq_2]
  have hl : logi2phys (curNode s).a tgt TX_MULTICAST = (tgt, 0, true) := by
    simp [logi2phys, TX_MULTICAST, TX_ROUTED]
  have hack : (curNode s).frameBuf.isAckType = .ok (decide (64 < t) && decide (t < 192)) := by
    unfold Frame.isAckType; rw [ht]; rfl
  have h41 : ¬ (TX_MULTICAST = TX_ROUTED) := by decide
  simp only [nexec_bind, nexec_getNode, hack, nexec_liftPy_ok, hl, h41, false_and, ↓reduceIte, ne_eq,
    not_true_eq_false, Bool.not_true, Bool.false_eq_true, nexec_pure, ite_self]

/-- what `_write_to_pipe` does once the radio is set up: transmit `frame_buf`, whole or in
    fragments (the tail of `nodeWriteToPipe`) -/
def transmitFrameBuf (f : Nat) : NetM Bool := do
  let n ← getNode
  if n.frameBuf.message.length ≤ MAX_FRAG_SIZE then
    let pk ← liftPy n.frameBuf.pack
    if (← rfSend f pk) then return true
    txStandbyFor f n.txTimeout
  else
    let msgLen := n.frameBuf.message.length
    let total := (if msgLen % MAX_FRAG_SIZE ≠ 0 then 1 else 0) + msgLen / MAX_FRAG_SIZE
    let msgT := n.frameBuf.header.ty
    let result ← nodeFragLoop f total msgT total
    setHdr fun h => h.setTy msgT
    return result

theorem nodeWriteToPipe_succ (f toNode toPipe : Nat) (mc : Bool) :
    nodeWriteToPipe (f + 1) toNode toPipe mc = (do
      let n ← getNode
      if toNode = n.a.addr ∧ !mc then return (← enqueueFrameBuf)
      liftRf (Rf24.setAutoAckAttr (.i (0x3E + (if mc then 0 else 1))))
      liftRf (Rf24.setListen false)
      let addr ← pipeAddr toNode toPipe
      liftRf (Rf24.openTxPipe addr)
      transmitFrameBuf f) := by
  rw [nodeWriteToPipe.eq_2]
  rfl

/-- the node-layer state after the multicast transmit set-up for TX address `x` -/
def mcTxState (s : NetState) (x : Bytes) : NetState := putDrv s (afterTxSetup (drvOf s) x)

/-- **C14, no loop-back, level address.**  `_write_to_pipe(_lvl_2_addr(L), 0, True)` on *any* node
    (whatever its own address — the master and node 0o1 included): nothing is queued locally; the
    radio is set up with `auto_ack = 0x3E`, `listen = False`, `open_tx_pipe(address of level L)`
    and the frame is transmitted from that state. -/
theorem nexec_nodeWriteToPipe_multicast (f L : Nat) (s : NetState) (hc : HasCur s)
    (hw : (drvOf s).Wf) (hs : ShadowOk (curNode s).rf)
    (hcfg : SfxOk (curNode s).cfg.pfx (curNode s).cfg.sfx)
    (ham : (curNode s).cfg.allowMulticast = true) (hL : L ≤ 5) :
    nexec (nodeWriteToPipe (f + 1) (lvl2addr L) 0 true) s =
      nexec (transmitFrameBuf f)
        (mcTxState s (levelFn (curNode s).cfg.pfx (sfxFn (curNode s).cfg.sfx) L)) := by
  generalize hx : levelFn (curNode s).cfg.pfx (sfxFn (curNode s).cfg.sfx) L = x
  have hx5 : x.length = 5 := by rw [← hx, levelFn_length]
  obtain ⟨h1, h2, h3, -⟩ := txSetup_spec (drvOf s) hw hs x hx5
  rw [nodeWriteToPipe_succ]
  simp only [nexec_bind, nexec_getNode, Bool.not_true, Bool.false_eq_true, and_false, ↓reduceIte,
    nexec_liftRf, Int.add_zero, h1]
  rw [drvOf_putDrv _ _ hc]
  simp only [h2, putDrv_putDrv]
  have hpa : nexec (pipeAddr (lvl2addr L) 0) (putDrv s (exec (Rf24.setListen false)
      (exec (Rf24.setAutoAckAttr (Arg.i 62)) (drvOf s)).2).2) =
      (.ok x, putDrv s (exec (Rf24.setListen false) (exec (Rf24.setAutoAckAttr (Arg.i 62)) (drvOf s)).2).2) := by
    unfold pipeAddr
    simp only [nexec_bind, nexec_getNode]
    rw [curNode_putDrv _ _ hc]
    simp only
    rw [pipeAddress_levelFn (sfxFn_spec hcfg.1) ham hL, hx]
    rfl
  rw [hpa]
  simp only []
  rw [drvOf_putDrv _ _ hc]
  simp only [h3, putDrv_putDrv]
  rfl

/-- the driver state the current node's radio calls start from, `Wf`: the radio exists -/
theorem mcPrepared_facts (s : NetState) (msg : Bytes) (ty : Int) (hc : HasCur s) :
    HasCur (mcPrepared s msg ty) ∧ drvOf (mcPrepared s msg ty) = drvOf s ∧
    (curNode (mcPrepared s msg ty)).cfg = (curNode s).cfg ∧
    (curNode (mcPrepared s msg ty)).a = (curNode s).a ∧
    (curNode (mcPrepared s msg ty)).queue = (curNode s).queue ∧
    (curNode (mcPrepared s msg ty)).frameBuf.header.toNode = NETWORK_MULTICAST_ADDR ∧
    (curNode (mcPrepared s msg ty)).frameBuf.header.fromNode = (curNode s).a.addr ∧
    (curNode (mcPrepared s msg ty)).frameBuf.header.msgType = .int (maskInt ty 0xFF) ∧
    (curNode (mcPrepared s msg ty)).frameBuf.header.frameId = (curNode s).frameBuf.header.frameId ∧
    (curNode (mcPrepared s msg ty)).frameBuf.message = mcMessage (curNode s) msg := by
  unfold mcPrepared
  refine ⟨(hasCur_updCur _ _).2 hc, ?_, ?_⟩
  · unfold drvOf
    rw [curNode_updCur _ _ hc]
    rfl
  · rw [curNode_updCur _ _ hc]
    exact ⟨rfl, rfl, rfl, rfl, rfl, rfl, rfl, rfl⟩

/-- **C14, `multicast()` end to end (node level).**  On any node (any address — the master and
    node 0o1 included), with `allow_multicast`, an admissible prefix / suffix configuration, a level
    attribute within 0..4 and a message that is not too long: `multicast(msg, type, level)` is
    exactly "transmit `frame_buf`, then listen again", started in the state where

    * `frame_buf` holds `to_node = 0o100`, `from_node` = own address, type `& 0xFF`, the message;
    * nothing was put into the node's own queue;
    * the radio has EN_AA = 0x3E (no acknowledgement on pipe 0), TX_ADDR = the address of level
      `L = targetLevel …` (the spec's `levelAddrSpec`), CE low, PRIM_RX = 0, PWR_UP = 1;
    * no configuration register of any other radio has changed. -/
theorem multicast_spec (msg : Bytes) (ty : Int) (level : Option Int) (s : NetState) (hc : HasCur s)
    (hw : (drvOf s).Wf) (hs : ShadowOk (curNode s).rf)
    (hcfg : SfxOk (curNode s).cfg.pfx (curNode s).cfg.sfx)
    (ham : (curNode s).cfg.allowMulticast = true) (hlvl : (curNode s).a.netLvl ≤ 4)
    (hlen : msg.length ≤ (curNode s).maxMessageLength) :
    ∃ x st, levelAddrSpec (curNode s).cfg.pfx (curNode s).cfg.sfx
        (targetLevel (curNode s).a.netLvl level) = some x ∧
      nexec (apiMulticast msg ty level) s =
        nexec (do let r ← transmitFrameBuf (F - 2)
                  liftRf (Rf24.setListen true)
                  pure r) st ∧
      (curNode st).frameBuf.header.toNode = NETWORK_MULTICAST_ADDR ∧
      (curNode st).frameBuf.header.fromNode = (curNode s).a.addr ∧
      (curNode st).frameBuf.header.msgType = .int (maskInt ty 0xFF) ∧
      (curNode st).frameBuf.message = mcMessage (curNode s) msg ∧
      (curNode st).queue = (curNode s).queue ∧
      (drvOf st).Wf ∧ (drvOf st).d.rid = (drvOf s).d.rid ∧
      (drvOf st).cfg.enAA = 0x3E ∧ (drvOf st).cfg.txAddr.take 5 = x ∧
      (drvOf st).cfg.ce = false ∧ (drvOf st).cfg.config &&& 3 = 2 ∧
      (∀ j, j ≠ (drvOf s).d.rid → (drvOf st).cfgAt j = (drvOf s).cfgAt j) ∧
      (drvOf st).cfg.setupAw = (drvOf s).cfg.setupAw ∧
      st.closed = s.closed ∧ st.cur = s.cur ∧ HasCur st := by
  obtain ⟨hc1, hd1, hcfg1, ha1, hq1, hto1, hfrom1, hty1, _, hmsg1⟩ := mcPrepared_facts s msg ty hc
  have hL : targetLevel (curNode s).a.netLvl level ≤ 5 := by
    have := targetLevel_le _ level hlvl; omega
  generalize hLdef : targetLevel (curNode s).a.netLvl level = L at hL
  generalize hxdef : levelFn (curNode s).cfg.pfx (sfxFn (curNode s).cfg.sfx) L = x
  have hx5 : x.length = 5 := by rw [← hxdef, levelFn_length]
  refine ⟨x, mcTxState (mcPrepared s msg ty) x, ?_, ?_, ?_⟩
  · rw [levelAddrSpec_fn (sfxFn_spec hcfg.1) hL, hxdef]
  · rw [nexec_apiMulticast, if_neg (by omega), hLdef]
    have hF : F = (F - 2) + 1 + 1 := by decide
    rw [show nodeWrite F (lvl2addr L) TX_MULTICAST = nodeWrite ((F - 2) + 1 + 1) (lvl2addr L) TX_MULTICAST
        from by rw [← hF], nexec_nodeWrite_multicast _ _ _ _ hty1]
    simp only [nexec_bind]
    rw [nexec_nodeWriteToPipe_multicast _ L _ hc1 (by rw [hd1]; exact hw) (by
        have : (curNode (mcPrepared s msg ty)).rf = (curNode s).rf := congrArg DrvState.d hd1
        rw [this]; exact hs) (by rw [hcfg1]; exact hcfg) (by rw [hcfg1]; exact ham) hL, hcfg1, hxdef]
  · obtain ⟨-, -, -, t4, t5, t6, t7, t8, t9, -, -, t12, t13⟩ := txSetup_spec (drvOf s) hw hs x hx5
    have hd : drvOf (mcTxState (mcPrepared s msg ty) x) = afterTxSetup (drvOf s) x := by
      unfold mcTxState
      rw [drvOf_putDrv _ _ hc1, hd1]
    have hn : curNode (mcTxState (mcPrepared s msg ty) x) =
        { curNode (mcPrepared s msg ty) with rf := (afterTxSetup (drvOf (mcPrepared s msg ty)) x).d } := by
      unfold mcTxState
      rw [curNode_putDrv _ _ hc1]
    have hcl : (mcTxState (mcPrepared s msg ty) x).closed = s.closed := rfl
    have hcu : (mcTxState (mcPrepared s msg ty) x).cur = s.cur := rfl
    have hhc : HasCur (mcTxState (mcPrepared s msg ty) x) := by
      unfold mcTxState; exact (hasCur_putDrv _ _).2 hc1
    rw [hd, hn]
    exact ⟨hto1, hfrom1, hty1, hmsg1, hq1, t4, t5, t6, t7, t8, t9, t12, t13, hcl, hcu, hhc⟩

/-! ### a received multicast frame: `_handle_frame_for_other_node` -/

/-- the re-broadcast of a relay: the two collision-avoidance sleeps, then `_write` to the next
    level's address as a multicast -/
def relayMulticast (f : Nat) (n : Node) : NetM Unit := do
  if n.a.addr >>> 3 = 0 then sleepNs 2400000
  sleepNs ((n.a.addr % 4) * 600000)
  let _ ← nodeWrite f ((lvl2addr n.a.netLvl <<< 3) &&& 0xFFFF) TX_MULTICAST

/-- the answer to a NETWORK_POLL: header turned around, a delay of `parent_pipe` ms, sent directly -/
def answerPoll (f : Nat) (n : Node) : NetM Unit := do
  setHdr fun h => { h with toNode := h.fromNode, fromNode := n.a.addr }
  sleepNs (n.a.parentPipe * 1000000)
  let _ ← nodeWrite f (← getNode).frameBuf.header.toNode TX_PHYSICAL

/-- **C14, a multicast frame is queued once and relayed iff the relay is on.**  Frame in
    `frame_buf` with `to_node = 0o100`, node with `allow_multicast`, not a NETWORK_POLL that must be
    answered: `queue.enqueue(frame_buf)` is called exactly once, *before* anything is sent; then,
    iff `multicast_relay` is on, the frame is re-broadcast once; the result tells `_net_update` to
    go on (`True`) with the frame's type, or to stop with NETWORK_EXT_DATA. -/
theorem nexec_handleOther_multicast (f msgT : Nat) (s : NetState)
    (ham : (curNode s).cfg.allowMulticast = true)
    (hto : (curNode s).frameBuf.header.toNode = NETWORK_MULTICAST_ADDR)
    (hpoll : ¬ (msgT = NETWORK_POLL ∧ (curNode s).a.addr ≠ NETWORK_DEFAULT_ADDR)) :
    nexec (handleOther (f + 1) msgT) s =
      nexec (do
        let _ ← enqueueFrameBuf
        if (curNode s).relayEnabled then relayMulticast f (curNode s)
        let n' ← getNode
        pure (if n'.frameBuf.header.ty = NETWORK_EXT_DATA then (false, NETWORK_EXT_DATA) else (true, msgT))) s := by
  rw [handleOther.eq_2]
  unfold relayMulticast
  simp only [nexec_bind, nexec_getNode, ham, hto, hpoll, ↓reduceIte, true_and]
  rcases nexec enqueueFrameBuf s with ⟨r, s1⟩
  cases r with
  | error e => rfl
  | ok b =>
    simp only
    by_cases hr : (curNode s).relayEnabled = true
    · simp only [hr, ↓reduceIte, nexec_bind, nexec_ite, nexec_pure]
      by_cases h3 : (curNode s).a.addr >>> 3 = 0
      · simp only [h3, ↓reduceIte, nexec_sleepNs, nexec_getNode]
        rcases nexec (nodeWrite f _ TX_MULTICAST) _ with ⟨r2, s2⟩
        cases r2 <;> simp only [] <;> split <;> rfl
      · simp only [h3, ↓reduceIte, nexec_sleepNs, nexec_getNode]
        rcases nexec (nodeWrite f _ TX_MULTICAST) _ with ⟨r2, s2⟩
        cases r2 <;> simp only [] <;> split <;> rfl
    · simp only [hr, Bool.false_eq_true, ↓reduceIte, nexec_bind, nexec_pure, nexec_getNode, nexec_ite]
      split <;> rfl

/-- **C14, NETWORK_POLL multicasts are answered, not queued** (on a node that holds an address):
    no `enqueue`; iff the node accepts children the poll is answered directly to its sender -/
theorem nexec_handleOther_poll (f : Nat) (s : NetState)
    (ham : (curNode s).cfg.allowMulticast = true)
    (hto : (curNode s).frameBuf.header.toNode = NETWORK_MULTICAST_ADDR)
    (haddr : (curNode s).a.addr ≠ NETWORK_DEFAULT_ADDR) :
    nexec (handleOther (f + 1) NETWORK_POLL) s =
      nexec (do
        if (curNode s).parenthood then answerPoll f (curNode s)
        pure (true, 0)) s := by
  rw [handleOther.eq_2]
  unfold answerPoll
  simp only [nexec_bind, nexec_getNode, ham, hto, haddr, ↓reduceIte, true_and, ne_eq, not_false_eq_true,
    and_self]
  by_cases hp : (curNode s).parenthood = true
  · simp only [hp, ↓reduceIte, nexec_bind, nexec_setHdr, nexec_sleepNs, nexec_getNode, nexec_pure]
    rcases nexec (nodeWrite f _ TX_PHYSICAL) _ with ⟨r2, s2⟩
    cases r2 <;> rfl
  · simp only [hp, Bool.false_eq_true, ↓reduceIte, nexec_pure, nexec_bind]

/-- **C14, `allow_multicast` off: a frame for another address is never queued** — it is forwarded
    as a routed frame (or ignored by a node without an address), the multicast address included -/
theorem nexec_handleOther_off (f msgT : Nat) (s : NetState)
    (ham : (curNode s).cfg.allowMulticast = false) :
    nexec (handleOther (f + 1) msgT) s =
      if (curNode s).a.addr ≠ NETWORK_DEFAULT_ADDR then
        nexec (do let _ ← nodeWrite f (curNode s).frameBuf.header.toNode TX_ROUTED
                  pure (true, 0)) s
      else (.ok (true, msgT), s) := by
  rw [handleOther.eq_2]
  simp only [nexec_bind, nexec_getNode, ham, Bool.false_eq_true, ↓reduceIte, nexec_ite, nexec_pure]

/-- what `queue.enqueue(frame_buf)` does to the node: the queue model's `enqueue` on the current
    queue and frame, once -/
theorem nexec_enqueueFrameBuf_node (s : NetState) (hc : HasCur s) :
    (curNode (nexec enqueueFrameBuf s).2).queue = ((curNode s).queue.enqueue (curNode s).frameBuf).1 ∧
    (nexec enqueueFrameBuf s).1 = .ok ((curNode s).queue.enqueue (curNode s).frameBuf).2.1 := by
  unfold enqueueFrameBuf
  simp only [nexec_bind, nexec_getNode, nexec_modNode]
  split
  · simp only [nexec_bind, nexec_takeId, nexec_pure]
    refine ⟨?_, trivial⟩
    show (curNode (updCur s _)).queue = _
    rw [curNode_updCur _ _ hc]
  · simp only [nexec_pure]
    refine ⟨?_, trivial⟩
    rw [curNode_updCur _ _ hc]

end Nrf.Proofs.McastK
