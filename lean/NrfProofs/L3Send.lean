/-
Discharging `L3Contracts`, part 5: `send(buf, send_only=True)` in the transmit role, loss-free, with
an acknowledging peer.
-/
import NrfProofs.L3Run
import NrfProofs.L3Air

set_option linter.unusedSimpArgs false

namespace Nrf.L3
open Nrf Nrf.Rf24

/-! ### triples that may change the rest of the world -/

/-- like `Run`, but the reference world may change (a transmission reaches the other radios) -/
def RunW {α} (w0 : World) (m : DrvM α) (d : Rf24) (r : Radio) (Q : α → Rf24 → Radio → World → Prop) : Prop :=
  ∀ s, Snap s d r w0 → ∃ a s' d' r' w1, exec m s = (.ok a, s') ∧ Snap s' d' r' w1 ∧ Q a d' r' w1

theorem RunW.bind {α β} {w0 : World} {d : Rf24} {r : Radio} {m : DrvM α} {f : α → DrvM β}
    {Q1 : α → Rf24 → Radio → World → Prop} {Q2 : β → Rf24 → Radio → World → Prop} (h1 : RunW w0 m d r Q1)
    (h2 : ∀ a d' r' w1, Q1 a d' r' w1 → RunW w1 (f a) d' r' Q2) : RunW w0 (m >>= f) d r Q2 := by
  intro s hs
  obtain ⟨a, s1, d1, r1, w1, e1, S1, q1⟩ := h1 s hs
  obtain ⟨b, s2, d2, r2, w2, e2, S2, q2⟩ := h2 a d1 r1 w1 q1 s1 S1
  refine ⟨b, s2, d2, r2, w2, ?_, S2, q2⟩
  rw [exec_bind, e1]
  exact e2

theorem Run.toW {α} {w0 : World} {d : Rf24} {r : Radio} {m : DrvM α} {Q : α → Rf24 → Radio → Prop}
    (h : Run w0 m d r Q) : RunW w0 m d r (fun a d' r' w1 => w0 = w1 ∧ Q a d' r') := by
  intro s hs
  obtain ⟨a, s1, d1, r1, e1, S1, q1⟩ := h s hs
  exact ⟨a, s1, d1, r1, w0, e1, S1, rfl, q1⟩

theorem RunW.pure {α} {w0 : World} {d : Rf24} {r : Radio} {Q : α → Rf24 → Radio → World → Prop} (a : α)
    (h : Q a d r w0) : RunW w0 (pure a : DrvM α) d r Q :=
  fun s hs => ⟨a, s, d, r, w0, rfl, hs, h⟩

theorem RunW.conseq {α} {w0 : World} {d : Rf24} {r : Radio} {m : DrvM α} {Q Q' : α → Rf24 → Radio → World → Prop}
    (h : RunW w0 m d r Q) (hq : ∀ a d' r' w1, Q a d' r' w1 → Q' a d' r' w1) : RunW w0 m d r Q' := by
  intro s hs
  obtain ⟨a, s1, d1, r1, w1, e1, S1, q1⟩ := h s hs
  exact ⟨a, s1, d1, r1, w1, e1, S1, hq _ _ _ _ q1⟩

theorem RunW.start {α} {m : DrvM α} {s : DrvState} {Q : α → Rf24 → Radio → World → Prop} (hw : s.Wf)
    (h : RunW s.w m s.d s.radio Q) :
    ∃ a s' w1, exec m s = (.ok a, s') ∧ Snap s' s'.d s'.radio w1 ∧ Q a s'.d s'.radio w1 := by
  obtain ⟨a, s', d', r', w1, e, S, q⟩ := h s (snap_self s hw)
  refine ⟨a, s', w1, e, ?_, ?_⟩
  · rw [S.radio_eq, S.d_eq]; exact S
  · rw [S.radio_eq, S.d_eq]; exact q

/-- CE high on a transmitter with one payload queued: the transmit cycle -/
theorem runW_transmit {w0 : World} {d : Rf24} {r : Radio} (e : TxEntry) (b : Nat)
    (hf : w0.faults = []) (hfifo : r.txFifo = [e]) (hkind : e.kind = .payload) (hpwr : r.pwrUp = true)
    (hrole : r.primRx = false) (hfl : r.flags &&& 0x10 = 0) (haw : r.awaitsAck e = true)
    (hcan : canHear r = true) (hb : b < w0.radios.length) (hbd : b ≠ d.rid)
    (hack : ((w0.radio b).receive (r.packetFor e)).2.isSome = true) :
    RunW w0 (setCE true) d r (fun _ d' r' w1 => d = d' ∧
      (∃ x, (({ r with ce := true } : Radio).takePid e).txDoneAcked [] 1 x = r') ∧
      w1.faults = [] ∧ w1.radios.length = w0.radios.length ∧
      ∀ i, i ≠ d.rid → w1.radio i = ((w0.radio i).receive (r.packetFor e)).1) := by
  intro s hs
  obtain ⟨hd, hwf, hr, ho, hfl', hl⟩ := hs
  have ha : s.d.rid < s.w.radios.length := by rw [hd, hl]; exact hwf
  have hr' : s.w.radio s.d.rid = r := by rw [hd]; exact hr
  obtain ⟨x, h1, h2, h3, h4⟩ := setCE_transmit s.w s.d.rid b e ha (hfl'.trans hf) (by rw [hr']; exact hfifo) hkind
    (by rw [hr']; exact hpwr) (by rw [hr']; exact hrole) (by rw [hr']; exact hfl) (by rw [hr']; exact haw)
    (by rw [hr']; exact hcan) (by rw [hl]; exact hb) (by rw [hd]; exact hbd)
    (by rw [hr', ho b hbd]; exact hack)
  rw [hr'] at h1 h4
  refine ⟨(), { s with w := s.w.setCE s.d.rid true }, d, _, s.w.setCE s.d.rid true, exec_setCE true s,
    ⟨hd, by rw [h3, hl]; exact hwf, by rw [← hd]; exact h1, fun _ _ => rfl, rfl, rfl⟩,
    rfl, ⟨x, rfl⟩, h2, h3.trans hl, ?_⟩
  intro i hi
  rw [h4 i (by rw [hd]; exact hi), ho i hi]

/-! ### STATUS of a radio whose TX FIFO is empty -/

theorem status_bits (r : Radio) (ht : r.txFifo = []) (hp : r.rxPNo ≤ 7) :
    r.status &&& 1 = 0 ∧ r.status &&& 0x30 = r.flags &&& 0x30 ∧ r.status &&& 0x20 = r.flags &&& 0x20 := by
  have hfull : r.txFull = false := by unfold Radio.txFull; rw [ht]; rfl
  unfold Radio.status
  rw [hfull]
  obtain ⟨k, hk, he⟩ := and70 r.flags
  have h30 : r.flags &&& 0x30 = (16 * k) &&& 0x30 := by
    rw [← he, Nat.and_assoc]; rfl
  have h20 : r.flags &&& 0x20 = (16 * k) &&& 0x20 := by
    rw [← he, Nat.and_assoc]; rfl
  rw [he, h30, h20]
  have : ∀ (k p : Fin 8), ((16 * k.val) ||| (p.val <<< 1) ||| 0) &&& 1 = 0 ∧
      ((16 * k.val) ||| (p.val <<< 1) ||| 0) &&& 0x30 = (16 * k.val) &&& 0x30 ∧
      ((16 * k.val) ||| (p.val <<< 1) ||| 0) &&& 0x20 = (16 * k.val) &&& 0x20 := by decide
  exact this ⟨k, hk⟩ ⟨r.rxPNo, by omega⟩

/-! ### the loops of `send` -/

/-- `while not self._in[0] & 0x30` with a flag already cached -/
theorem run_poll_ready {w0 : World} {d : Rf24} {r : Radio} (f : Nat) (h : d.status &&& 0x30 ≠ 0) :
    Run w0 (pollFlags (f + 1)) d r (fun _ d' r' => d = d' ∧ r = r') := by
  rw [pollFlags]
  refine Run.bind run_getD ?_
  rintro _ _ _ ⟨rfl, rfl, rfl⟩
  simp only [h, ↓reduceIte]
  exact Run.pure _ ⟨rfl, rfl⟩

/-- … with no flag cached and one latched in the chip: one `update()` -/
theorem run_poll_once {w0 : World} {d : Rf24} {r : Radio} (f : Nat) (h0 : d.status &&& 0x30 = 0)
    (h1 : r.status &&& 0x30 ≠ 0) (ht : r.txFifo = []) :
    Run w0 (pollFlags (f + 2)) d r (fun _ d' r' => { d with status := r.status } = d' ∧ r = r') := by
  rw [pollFlags]
  refine Run.bind run_getD ?_
  rintro _ _ _ ⟨rfl, rfl, rfl⟩
  simp only [h0, ↓reduceIte]
  unfold update
  simp only [bind_assoc, pure_bind]
  refine Run.bind (run_regCmd 0xFF (Or.inl (by rw [xfer_nop]; exact ht))) ?_
  rintro _ _ _ ⟨rfl, rfl⟩
  try rw [xfer_nop]
  exact run_poll_ready f h1

/-- `while force_retry and not result` with `force_retry = 0` -/
theorem run_forceRetry0 {w0 : World} {d : Rf24} {r : Radio} (so : Bool) (f : Nat) (res : SendRes) :
    Run w0 (forceRetryLoop so (f + 1) 0 res) d r (fun a d' r' => res = a ∧ d = d' ∧ r = r') := by
  cases res <;>
  · rw [forceRetryLoop]
    simp only [bne_self_eq_false, Bool.false_and, Bool.false_eq_true, ↓reduceIte]
    exact Run.pure _ ⟨rfl, rfl, rfl⟩

/-! ### `send` -/

/-- the transmitter after an acknowledged cycle when ACK payloads are off: TX_DS, nothing received -/
theorem txDone_shape (r1 : Radio) (e : TxEntry) (x : Option Bytes) (hfe : r1.feature &&& 2 = 0) :
    (({ r1 with ce := true } : Radio).takePid e).txDoneAcked [] 1 x =
      { r1 with ce := true, nextPid := (if e.pid.isNone then (r1.nextPid + 1) % 4 else r1.nextPid),
                txFifo := [], arcCnt := 0, flags := r1.flags ||| 0x20 } := by
  have hf : (decide (r1.feature &&& 2 ≠ 0)) = false := by simp [hfe]
  cases x <;> simp [Radio.txDoneAcked, Radio.takePid, hf]

/-- the transmitter after `send` succeeded: CE high, TX_DS latched, the PID consumed -/
abbrev sentRadio (r : Radio) : Radio :=
  { r with ce := true, nextPid := (r.nextPid + 1) % 4, txFifo := [], arcCnt := 0, flags := 0x20 }

/-- the part of `send` after the flushes -/
def sendTail (buf : Bytes) : DrvM (SendRes × Bytes) := do
  let _ ← getD
  let x ← write buf false
  pollFlags POLL_FUEL
  let d ← getD
  let res ← forceRetryLoop true (Int.natAbs 0 + 1) 0 (.bool (decide (d.status &&& 32 ≠ 0)))
  let _ ← getD
  pure (res, x.snd)

/-- `write(buf)` on a transmitter with CE low, an empty TX FIFO, dynamic payloads, an acknowledging
    peer and loss-free air: the payload goes out and is acknowledged at once -/
theorem runW_write {w0 : World} {d : Rf24} {r : Radio} (buf : Bytes) (b : Nat)
    (hl1 : 1 ≤ buf.length) (hl32 : buf.length ≤ 32) (hdyn : d.dynPl &&& 1 ≠ 0)
    (hce : r.ce = false) (ht : r.txFifo = []) (hp : r.rxPNo ≤ 7)
    (hf : w0.faults = []) (hpwr : r.pwrUp = true) (hrole : r.primRx = false)
    (haa : r.enAA = 0x3F) (hfe : r.feature &&& 2 = 0) (hcan : canHear r = true)
    (hb : b < w0.radios.length) (hbd : b ≠ d.rid)
    (hack : ((w0.radio b).receive (r.packetFor { kind := .payload, data := buf })).2.isSome = true) :
    RunW w0 (write buf false) d r (fun a d' r' w1 =>
      a = (true, buf) ∧ d' = { d with status := ({ r with flags := 0 } : Radio).status } ∧
      r' = sentRadio r ∧
      w1.faults = [] ∧ w1.radios.length = w0.radios.length ∧
      ∀ i, i ≠ d.rid → w1.radio i = ((w0.radio i).receive (r.packetFor { kind := .payload, data := buf })).1) := by
  unfold write
  refine RunW.bind run_getD.toW ?_
  rintro _ _ _ _ ⟨rfl, rfl, rfl, rfl⟩
  have hlen : ¬ (d.dynPl &&& 1 ≠ 0 ∧ (buf.isEmpty = true ∨ buf.length > 32)) := by
    rintro ⟨_, h | h⟩
    · cases buf <;> simp at h hl1
    · omega
  simp only [hlen, hdyn, ↓reduceIte]
  -- clear_status_flags()
  have hcs : (clearStatusFlags : DrvM Unit) = regWrite 7 ((0x70 : Nat) : Int) := rfl
  rw [hcs]
  refine RunW.bind (run_regWrite 7 0x70 (by decide) (by decide) ht).toW ?_
  rintro _ _ _ _ ⟨rfl, rfl, rfl⟩
  have hclr : r.writeReg 7 [0x70] = { r with flags := 0 } := by simp [Radio.writeReg]
  rw [hclr]
  refine RunW.bind run_getD.toW ?_
  rintro _ _ _ _ ⟨rfl, rfl, rfl, rfl⟩
  have hst1 : ¬ (r.status &&& 1 ≠ 0) := by rw [(status_bits r ht hp).1]; simp
  simp only [hst1, ↓reduceIte]
  -- W_TX_PAYLOAD
  have hreg : (160 ||| b2n false <<< 4) = 0xA0 := by decide
  rw [hreg]
  have hbne : buf ≠ [] := by intro h; rw [h] at hl1; simp at hl1
  have hx : ({ r with flags := 0 } : Radio).xfer ((0x20 ||| 0xA0) :: buf) = _ :=
    xfer_wTx ({ r with flags := 0 } : Radio) buf ht hbne
  rw [List.take_of_length_le hl32] at hx
  refine RunW.bind (run_cmdBytes 0xA0 buf (Or.inr (by rw [hx]; simp [Radio.txMode, hce]))).toW ?_
  rintro _ _ _ _ ⟨rfl, rfl, rfl⟩
  rw [hx]
  simp only [Bool.not_false, ↓reduceIte]
  -- CE high
  have haw : ({ r with flags := 0, txFifo := [{ kind := .payload, data := buf }] } : Radio).awaitsAck
      { kind := .payload, data := buf } = true := by
    simp [Radio.awaitsAck, Radio.esb, Radio.noAckFor, Radio.bit, haa]
  refine RunW.bind (runW_transmit { kind := .payload, data := buf } b hf rfl rfl hpwr hrole
    (Nat.zero_and 16) haw hcan hb hbd hack) ?_
  rintro _ _ _ _ ⟨rfl, ⟨x, rfl⟩, hf1, hlen1, ho1⟩
  rw [txDone_shape ({ r with flags := 0, txFifo := [{ kind := .payload, data := buf }] } : Radio) _ x hfe]
  exact RunW.pure _ ⟨rfl, rfl, by first | rfl | simp, hf1, hlen1, ho1⟩


/-- the part of `send` after the flushes, same situation: `True` -/
theorem runW_sendTail {w0 : World} {d : Rf24} {r : Radio} (buf : Bytes) (b : Nat)
    (hl1 : 1 ≤ buf.length) (hl32 : buf.length ≤ 32) (hdyn : d.dynPl &&& 1 ≠ 0)
    (hce : r.ce = false) (ht : r.txFifo = []) (hp : r.rxPNo ≤ 7)
    (hf : w0.faults = []) (hpwr : r.pwrUp = true) (hrole : r.primRx = false)
    (haa : r.enAA = 0x3F) (hfe : r.feature &&& 2 = 0) (hcan : canHear r = true)
    (hb : b < w0.radios.length) (hbd : b ≠ d.rid)
    (hack : ((w0.radio b).receive (r.packetFor { kind := .payload, data := buf })).2.isSome = true) :
    RunW w0 (sendTail buf) d r (fun a d' r' w1 =>
      a = (.bool true, buf) ∧ (∃ st, d' = { d with status := st }) ∧
      r' = sentRadio r ∧
      w1.faults = [] ∧ w1.radios.length = w0.radios.length ∧
      ∀ i, i ≠ d.rid → w1.radio i = ((w0.radio i).receive (r.packetFor { kind := .payload, data := buf })).1) := by
  unfold sendTail
  refine RunW.bind run_getD.toW ?_
  rintro _ _ _ _ ⟨rfl, rfl, rfl, rfl⟩
  refine RunW.bind (runW_write buf b hl1 hl32 hdyn hce ht hp hf hpwr hrole haa hfe hcan hb hbd hack) ?_
  rintro _ _ _ w1 ⟨rfl, rfl, rfl, hf1, hlen1, ho1⟩
  -- the poll loop: one `update()`
  have h0 : ({ r with flags := 0 } : Radio).status &&& 0x30 = 0 :=
    (status_bits ({ r with flags := 0 } : Radio) ht hp).2.1.trans (Nat.zero_and _)
  have hb2 := status_bits (sentRadio r) rfl hp
  have h1 : (sentRadio r).status &&& 0x30 ≠ 0 := by rw [hb2.2.1]; show (0x20 : Nat) &&& 0x30 ≠ 0; decide
  have h2 : decide ((sentRadio r).status &&& 32 ≠ 0) = true := by rw [hb2.2.2]; show decide ((0x20 : Nat) &&& 32 ≠ 0) = true; decide
  unfold POLL_FUEL
  refine RunW.bind (run_poll_once 6 h0 h1 rfl).toW ?_
  rintro _ _ _ _ ⟨rfl, rfl, rfl⟩
  refine RunW.bind run_getD.toW ?_
  rintro _ _ _ _ ⟨rfl, rfl, rfl, rfl⟩
  simp only [h2]
  refine RunW.bind (run_forceRetry0 true _ _).toW ?_
  rintro _ _ _ _ ⟨rfl, rfl, rfl, rfl⟩
  refine RunW.bind run_getD.toW ?_
  rintro _ _ _ _ ⟨rfl, rfl, rfl, rfl⟩
  exact RunW.pure _ ⟨rfl, ⟨_, rfl⟩, rfl, hf1, hlen1, ho1⟩

theorem l3_send (s : DrvState) (L : LinkCfg) (P : List Bytes) (ce : Bool) (buf : Bytes) (j : Nat) (hw : s.Wf)
    (hN : NodeRadio L P false ce 0x3F s.d s.radio) (hta : s.radio.txAddr = s.radio.rxAddr0)
    (hl1 : 1 ≤ buf.length) (hl32 : buf.length ≤ 32) (hflt : s.w.faults = []) (hj : j ≠ s.d.rid)
    (hack : ((s.w.radio j).receive (s.packet buf)).2 = some none) :
    ∃ s', exec (Rf24.send buf false false 0 true) s = (.ok (.bool true, buf), s') ∧
      s'.d.rid = s.d.rid ∧ s'.w.radios.length = s.w.radios.length ∧ s'.w.faults = [] ∧
      (∀ i, i ≠ s.d.rid → s'.w.radio i = ((s.w.radio i).receive (s.packet buf)).1) ∧
      NodeRadio L P false true 0x3F s'.d s'.radio ∧ s'.radio.rxFifo = s.radio.rxFifo ∧
      s'.radio.lastRx = s.radio.lastRx ∧ s'.radio.rxAddr0 = s.radio.rxAddr0 ∧
      s'.radio.txAddr = s.radio.txAddr := by
  obtain ⟨h1, h2, h3, h4, h5, h6, h7, h8, h9, h10, h11, h12, h13, h14, h15, h16, h17, h18, h19, h20, h21, h22,
    h23, h24, h25, h26, h27, h28, h29⟩ := hN
  have key : RunW s.w (Rf24.send buf false false 0 true) s.d s.radio (fun a d' r' w1 =>
      a = (.bool true, buf) ∧ d'.rid = s.d.rid ∧ w1.radios.length = s.w.radios.length ∧ w1.faults = [] ∧
      (∀ i, i ≠ s.d.rid → w1.radio i = ((s.w.radio i).receive (s.packet buf)).1) ∧
      NodeRadio L P false true 0x3F d' r' ∧ r'.rxFifo = s.radio.rxFifo ∧ r'.lastRx = s.radio.lastRx ∧
      r'.rxAddr0 = s.radio.rxAddr0 ∧ r'.txAddr = s.radio.txAddr) := by
    -- the peer exists
    have hjl : j < s.w.radios.length := by
      apply Classical.byContradiction
      intro h
      rw [radio_default _ _ h, default_receive] at hack
      cases hack
    have hp : s.radio.rxPNo ≤ 7 := by
      unfold Radio.rxPNo
      cases hfifo : s.radio.rxFifo with
      | nil => exact Nat.le_refl 7
      | cons e rest => exact Nat.le_trans (h29 e (by rw [hfifo]; exact List.mem_cons_self)) (by decide)
    -- the common tail of both branches
    have tail : ∀ (st : Nat) (tf : List TxEntry), tf = [] →
        RunW s.w (sendTail buf) { s.d with status := st } { s.radio with ce := false, txFifo := tf }
          (fun a d' r' w1 =>
            a = (.bool true, buf) ∧ d'.rid = s.d.rid ∧ w1.radios.length = s.w.radios.length ∧ w1.faults = [] ∧
            (∀ i, i ≠ s.d.rid → w1.radio i = ((s.w.radio i).receive (s.packet buf)).1) ∧
            NodeRadio L P false true 0x3F d' r' ∧ r'.rxFifo = s.radio.rxFifo ∧ r'.lastRx = s.radio.lastRx ∧
            r'.rxAddr0 = s.radio.rxAddr0 ∧ r'.txAddr = s.radio.txAddr) := by
      intro st tf htf
      subst htf
      refine (runW_sendTail (d := { s.d with status := st }) (r := { s.radio with ce := false, txFifo := [] }) buf j hl1 hl32
        (by rw [h15]; decide) rfl rfl hp hflt
        (by simp [Radio.pwrUp, h2]) h3 h9 (by rw [h13]; decide) (by simp [canHear, Radio.bit, h11, hta]) hjl hj
        (by
          show ((s.w.radio j).receive (s.packet buf)).2.isSome = true
          rw [hack]; rfl)).conseq ?_
      rintro _ _ _ w1 ⟨rfl, ⟨st', rfl⟩, rfl, hf1, hlen1, ho1⟩
      exact ⟨rfl, rfl, hlen1, hf1, ho1, ⟨h1, h2, h3, rfl, h5, h6, h7, h8, h9, h10, h11, h12, h13, h14, h15, h16,
        h17, h18, h19, h20, h21, h22, h23, h24, h25, rfl, h27, h28, h29⟩, rfl, rfl, rfl, rfl⟩
    unfold Rf24.send
    simp only [Bool.not_true, Bool.false_eq_true, false_and, and_false, ↓reduceIte]
    refine RunW.bind (run_setCE false (Or.inl h26)).toW ?_
    rintro _ _ _ _ ⟨rfl, rfl, rfl⟩
    refine RunW.bind run_getD.toW ?_
    rintro _ _ _ _ ⟨rfl, rfl, rfl, rfl⟩
    split
    · unfold flushTx
      refine RunW.bind (run_regCmd 0xE1 (Or.inl (by rw [xfer_flushTx]))).toW ?_
      rintro _ _ _ _ ⟨rfl, rfl, rfl⟩
      rw [xfer_flushTx]
      exact tail _ [] rfl
    · exact tail s.d.status s.radio.txFifo h26
  obtain ⟨_, s', w1, e, S, rfl, q1, q2, q3, q4, q5, q6, q7, q8, q9⟩ := key.start hw
  refine ⟨s', e, q1, S.len.trans q2, S.faults.trans q3, ?_, q5, q6, q7, q8, q9⟩
  intro i hi
  rw [S.others i (by rw [q1]; exact hi)]
  exact q4 i hi

/-- **`l3_send` with the PID sequence** (a strengthening used for histories in which the receiver has
    accepted packets before; `L3Contracts.send` itself is unchanged): the packet `send` puts on the air
    carries the sender's `nextPid` — which is therefore the PID the acknowledging radio records in its
    `lastRx` (`Radio.receive`) — and the sender's `nextPid` advances by one modulo 4. -/
theorem l3_send_pid (s : DrvState) (L : LinkCfg) (P : List Bytes) (ce : Bool) (buf : Bytes) (j : Nat) (hw : s.Wf)
    (hN : NodeRadio L P false ce 0x3F s.d s.radio) (hta : s.radio.txAddr = s.radio.rxAddr0)
    (hl1 : 1 ≤ buf.length) (hl32 : buf.length ≤ 32) (hflt : s.w.faults = []) (hj : j ≠ s.d.rid)
    (hack : ((s.w.radio j).receive (s.packet buf)).2 = some none) :
    ∃ s', exec (Rf24.send buf false false 0 true) s = (.ok (.bool true, buf), s') ∧
      s'.d.rid = s.d.rid ∧ s'.w.radios.length = s.w.radios.length ∧ s'.w.faults = [] ∧
      (∀ i, i ≠ s.d.rid → s'.w.radio i = ((s.w.radio i).receive (s.packet buf)).1) ∧
      NodeRadio L P false true 0x3F s'.d s'.radio ∧ s'.radio.rxFifo = s.radio.rxFifo ∧
      s'.radio.lastRx = s.radio.lastRx ∧ s'.radio.rxAddr0 = s.radio.rxAddr0 ∧
      s'.radio.txAddr = s.radio.txAddr ∧
      (s.packet buf).pid = s.radio.nextPid ∧ s'.radio.nextPid = (s.radio.nextPid + 1) % 4 := by
  obtain ⟨h1, h2, h3, h4, h5, h6, h7, h8, h9, h10, h11, h12, h13, h14, h15, h16, h17, h18, h19, h20, h21, h22,
    h23, h24, h25, h26, h27, h28, h29⟩ := hN
  have key : RunW s.w (Rf24.send buf false false 0 true) s.d s.radio (fun a d' r' w1 =>
      a = (.bool true, buf) ∧ d'.rid = s.d.rid ∧ w1.radios.length = s.w.radios.length ∧ w1.faults = [] ∧
      (∀ i, i ≠ s.d.rid → w1.radio i = ((s.w.radio i).receive (s.packet buf)).1) ∧
      NodeRadio L P false true 0x3F d' r' ∧ r'.rxFifo = s.radio.rxFifo ∧ r'.lastRx = s.radio.lastRx ∧
      r'.rxAddr0 = s.radio.rxAddr0 ∧ r'.txAddr = s.radio.txAddr ∧
      r'.nextPid = (s.radio.nextPid + 1) % 4) := by
    -- the peer exists
    have hjl : j < s.w.radios.length := by
      apply Classical.byContradiction
      intro h
      rw [radio_default _ _ h, default_receive] at hack
      cases hack
    have hp : s.radio.rxPNo ≤ 7 := by
      unfold Radio.rxPNo
      cases hfifo : s.radio.rxFifo with
      | nil => exact Nat.le_refl 7
      | cons e rest => exact Nat.le_trans (h29 e (by rw [hfifo]; exact List.mem_cons_self)) (by decide)
    -- the common tail of both branches
    have tail : ∀ (st : Nat) (tf : List TxEntry), tf = [] →
        RunW s.w (sendTail buf) { s.d with status := st } { s.radio with ce := false, txFifo := tf }
          (fun a d' r' w1 =>
            a = (.bool true, buf) ∧ d'.rid = s.d.rid ∧ w1.radios.length = s.w.radios.length ∧ w1.faults = [] ∧
            (∀ i, i ≠ s.d.rid → w1.radio i = ((s.w.radio i).receive (s.packet buf)).1) ∧
            NodeRadio L P false true 0x3F d' r' ∧ r'.rxFifo = s.radio.rxFifo ∧ r'.lastRx = s.radio.lastRx ∧
            r'.rxAddr0 = s.radio.rxAddr0 ∧ r'.txAddr = s.radio.txAddr ∧
            r'.nextPid = (s.radio.nextPid + 1) % 4) := by
      intro st tf htf
      subst htf
      refine (runW_sendTail (d := { s.d with status := st }) (r := { s.radio with ce := false, txFifo := [] }) buf j hl1 hl32
        (by rw [h15]; decide) rfl rfl hp hflt
        (by simp [Radio.pwrUp, h2]) h3 h9 (by rw [h13]; decide) (by simp [canHear, Radio.bit, h11, hta]) hjl hj
        (by
          show ((s.w.radio j).receive (s.packet buf)).2.isSome = true
          rw [hack]; rfl)).conseq ?_
      rintro _ _ _ w1 ⟨rfl, ⟨st', rfl⟩, rfl, hf1, hlen1, ho1⟩
      exact ⟨rfl, rfl, hlen1, hf1, ho1, ⟨h1, h2, h3, rfl, h5, h6, h7, h8, h9, h10, h11, h12, h13, h14, h15, h16,
        h17, h18, h19, h20, h21, h22, h23, h24, h25, rfl, h27, h28, h29⟩, rfl, rfl, rfl, rfl, rfl⟩
    unfold Rf24.send
    simp only [Bool.not_true, Bool.false_eq_true, false_and, and_false, ↓reduceIte]
    refine RunW.bind (run_setCE false (Or.inl h26)).toW ?_
    rintro _ _ _ _ ⟨rfl, rfl, rfl⟩
    refine RunW.bind run_getD.toW ?_
    rintro _ _ _ _ ⟨rfl, rfl, rfl, rfl⟩
    split
    · unfold flushTx
      refine RunW.bind (run_regCmd 0xE1 (Or.inl (by rw [xfer_flushTx]))).toW ?_
      rintro _ _ _ _ ⟨rfl, rfl, rfl⟩
      rw [xfer_flushTx]
      exact tail _ [] rfl
    · exact tail s.d.status s.radio.txFifo h26
  obtain ⟨_, s', w1, e, S, rfl, q1, q2, q3, q4, q5, q6, q7, q8, q9, q10⟩ := key.start hw
  refine ⟨s', e, q1, S.len.trans q2, S.faults.trans q3, ?_, q5, q6, q7, q8, q9, rfl, q10⟩
  intro i hi
  rw [S.others i (by rw [q1]; exact hi)]
  exact q4 i hi


end Nrf.L3
