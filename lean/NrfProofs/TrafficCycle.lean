/-
Traffic lemmas, part 5 — one transmit cycle, in closed form, for every fault pattern and world:
what it consumes of the fault pattern, what it logs on the air, how long the radio is busy, and
that it does not change who acknowledges the packet.
-/
import NrfProofs.TrafficAck

namespace Nrf
open Spec.Link

namespace World

theorem ackMap_updRadio (w : World) (s : Nat) (f : Radio → Radio) (k : Packet) :
    (w.updRadio s f).ackMap s k = w.ackMap s k :=
  ackMap_congr _ _ _ _ (updRadio_length _ _ _) (fun j _ hjs => updRadio_ne _ _ _ _ hjs)

theorem ackMap_stamp (w : World) (s t : Nat) (a : AirRec) (k : Packet) : (w.stamp s t a).ackMap s k = w.ackMap s k := rfl

theorem acked_updRadio (w : World) (s : Nat) (f : Radio → Radio) (k : Packet) (hs : s < w.radios.length)
    (hf : canHear (f (w.radio s)) = canHear (w.radio s)) : (w.updRadio s f).acked s k = w.acked s k := by
  unfold acked
  rw [updRadio_self _ _ _ hs, hf, deliver_snd_ackMap, deliver_snd_ackMap, ackMap_updRadio]

theorem deliver_snd_updRadio (w : World) (s : Nat) (f : Radio → Radio) (k : Packet) :
    ((w.updRadio s f).deliver s k).2 = (w.deliver s k).2 := by
  rw [deliver_snd_ackMap, deliver_snd_ackMap, ackMap_updRadio]

/-- ARC: the number of automatic retransmissions configured -/
def arcOf (r : Radio) : Nat := r.setupRetr &&& 0x0F

theorem arcOf_le (r : Radio) : arcOf r ≤ 15 := Nat.and_le_right

/-- **the acknowledged part of a cycle, in closed form** -/
theorem cycleRes_spec (w : World) (s : Nat) (e : TxEntry) (hs : s < w.radios.length) :
    (w.cycleRes s e).2 =
      (if w.acked s ((w.radio s).packetFor e) && hasDeliveredB w.faults (arcOf (w.radio s) + 1)
       then (w.deliver s ((w.radio s).packetFor e)).2 else none) ∧
    (w.cycleRes s e).1 =
      (if w.acked s ((w.radio s).packetFor e) then attemptsUsed w.faults (arcOf (w.radio s) + 1)
       else arcOf (w.radio s) + 1) := by
  unfold cycleRes
  obtain ⟨h1, h2, _⟩ := attemptLoop_spec s ((w.radio s).packetFor e) (((w.radio s).setupRetr &&& 0x0F) + 1) 0
    (w.updRadio s (·.takePid e))
  rw [acked_updRadio _ _ _ _ hs rfl, deliver_snd_updRadio] at h1
  rw [acked_updRadio _ _ _ _ hs rfl] at h2
  simp only [updRadio_faults, Nat.zero_add] at h1 h2
  exact ⟨h1, h2⟩

/-- number of attempts the cycle of radio `s` for entry `e` makes -/
def cycleAttempts (w : World) (s : Nat) (e : TxEntry) : Nat :=
  if (w.radio s).awaitsAck e then (w.cycleRes s e).1 else 1

/-- the sender sees TX_DS -/
def cycleOk (w : World) (s : Nat) (e : TxEntry) : Bool :=
  !(w.radio s).awaitsAck e || (w.cycleRes s e).2.isSome

/-- how long the cycle keeps the radio busy -/
def cycleDur (w : World) (s : Nat) (e : TxEntry) : Nat :=
  if !(w.radio s).awaitsAck e then T_TX_NS
  else match (w.cycleRes s e).2 with
    | some _ => ((w.cycleRes s e).1 - 1) * (T_TX_NS + ardNs (w.radio s)) + T_TX_NS + T_ACK_NS
    | none => (w.cycleRes s e).1 * (T_TX_NS + ardNs (w.radio s))

theorem cycleAttempts_le (w : World) (s : Nat) (e : TxEntry) : w.cycleAttempts s e ≤ arcOf (w.radio s) + 1 := by
  unfold cycleAttempts
  split
  · unfold cycleRes
    have := attemptLoop_made_le s ((w.radio s).packetFor e) (((w.radio s).setupRetr &&& 0x0F) + 1) 0 (w.updRadio s (·.takePid e))
    unfold arcOf; omega
  · omega

theorem cycleAttempts_pos (w : World) (s : Nat) (e : TxEntry) (hs : s < w.radios.length) : 1 ≤ w.cycleAttempts s e := by
  unfold cycleAttempts
  split
  · rw [(cycleRes_spec w s e hs).2]
    split
    · cases hf : w.faults with
      | nil => simp [attemptsUsed]
      | cons o t => cases o <;> simp [attemptsUsed] <;> omega
    · omega
  · omega

theorem ardNs_ge (r : Radio) : 250000 ≤ ardNs r := by
  unfold ardNs
  omega

/-- the cycle lasts at most `attempts · (T_TX + ARD)` -/
theorem cycleDur_le (w : World) (s : Nat) (e : TxEntry) (hs : s < w.radios.length) :
    w.cycleDur s e ≤ w.cycleAttempts s e * (T_TX_NS + ardNs (w.radio s)) := by
  have hpos := cycleAttempts_pos w s e hs
  have hard := ardNs_ge (w.radio s)
  unfold cycleDur cycleAttempts at *
  cases ha : (w.radio s).awaitsAck e with
  | false =>
    simp only [Bool.not_false, ↓reduceIte, Bool.false_eq_true, Nat.one_mul]
    omega
  | true =>
    simp only [ha, ↓reduceIte, Bool.not_true, Bool.false_eq_true] at hpos ⊢
    split
    · generalize (w.cycleRes s e).1 = m at *
      obtain ⟨m', rfl⟩ : ∃ m', m = m' + 1 := ⟨m - 1, by omega⟩
      simp only [Nat.add_sub_cancel, Nat.add_mul, Nat.one_mul]
      unfold T_ACK_NS
      omega
    · exact Nat.le_refl _

/-- **what a cycle does to the world besides the radios**: it consumes one outcome per attempt,
    appends one record to the air log, marks the radio busy for `cycleDur` from the moment the
    radio became free, leaves the clock alone — and the acknowledgement map of its packet -/
theorem cycle_world (w : World) (s : Nat) (e : TxEntry) (rest : List TxEntry) :
    (w.cycle s e rest).faults = w.faults.drop (w.cycleAttempts s e) ∧
    (w.cycle s e rest).air = w.air ++ [{ sender := s, pkt := (w.radio s).packetFor e,
                                         attempts := w.cycleAttempts s e, ok := w.cycleOk s e }] ∧
    (w.cycle s e rest).busyUntil = w.busyUntil.set s (max w.clock (w.busyUntil.getD s 0) + w.cycleDur s e) ∧
    (w.cycle s e rest).clock = w.clock ∧
    (w.cycle s e rest).ackMap s ((w.radio s).packetFor e) = w.ackMap s ((w.radio s).packetFor e) := by
  unfold cycle cycleAttempts cycleOk cycleDur
  dsimp only
  cases ha : (w.radio s).awaitsAck e with
  | false =>
    simp only [Bool.not_false, ↓reduceIte, Bool.false_eq_true, Bool.true_or]
    refine ⟨?_, ?_, ?_, ?_, ?_⟩
    · rw [stamp_faults, updRadio_faults]
      split
      · rw [nextFault_faults]; rfl
      · rw [deliver_faults, nextFault_faults]; rfl
    · rw [stamp_air, updRadio_air]
      split
      · rw [nextFault_air]; rfl
      · rw [deliver_air, nextFault_air]; rfl
    · rw [stamp_busy, updRadio_busy]
      split
      · rw [nextFault_busy]; rfl
      · rw [deliver_busy, nextFault_busy]; rfl
    · rw [stamp_clock, updRadio_clock]
      split
      · rw [nextFault_clock]; rfl
      · rw [deliver_clock, nextFault_clock]; rfl
    · rw [ackMap_stamp, ackMap_updRadio]
      split
      · rw [ackMap_nextFault, ackMap_updRadio]
      · rw [ackMap_deliver, ackMap_nextFault, ackMap_updRadio]
  | true =>
    simp only [Bool.not_true, Bool.false_eq_true, ↓reduceIte, Bool.false_or]
    have hspec := attemptLoop_spec s ((w.radio s).packetFor e) (((w.radio s).setupRetr &&& 0x0F) + 1) 0
      (w.updRadio s (·.takePid e))
    have hfa : (attemptLoop s ((w.radio s).packetFor e) (((w.radio s).setupRetr &&& 0x0F) + 1) 0
        (w.updRadio s (·.takePid e))).1.faults = w.faults.drop (w.cycleRes s e).1 := by
      rw [hspec.2.2]
      unfold cycleRes
      rw [hspec.2.1]
      simp only [updRadio_faults, Nat.zero_add]
    have hcr : (attemptLoop s ((w.radio s).packetFor e) (((w.radio s).setupRetr &&& 0x0F) + 1) 0
        (w.updRadio s (·.takePid e))).2 = w.cycleRes s e := rfl
    rw [hcr]
    cases hr : (w.cycleRes s e).2 with
    | some a =>
      simp only
      refine ⟨?_, ?_, ?_, ?_, ?_⟩
      · rw [stamp_faults, updRadio_faults, hfa]
      · rw [stamp_air, updRadio_air, attemptLoop_air]; rfl
      · rw [stamp_busy, updRadio_busy, attemptLoop_busy]; simp only [updRadio_busy, updRadio_clock, Nat.add_assoc]
      · rw [stamp_clock, updRadio_clock, attemptLoop_clock]; rfl
      · rw [ackMap_stamp, ackMap_updRadio, attemptLoop_ackMap, ackMap_updRadio]
    | none =>
      simp only
      refine ⟨?_, ?_, ?_, ?_, ?_⟩
      · rw [stamp_faults, updRadio_faults, hfa]
      · rw [stamp_air, updRadio_air, attemptLoop_air]; rfl
      · rw [stamp_busy, updRadio_busy, attemptLoop_busy]; simp only [updRadio_busy, updRadio_clock, Nat.add_assoc]
      · rw [stamp_clock, updRadio_clock, attemptLoop_clock]; rfl
      · rw [ackMap_stamp, ackMap_updRadio, attemptLoop_ackMap, ackMap_updRadio]

/-- the time at which radio `s` is free to take the next command -/
def eff (w : World) (s : Nat) : Nat := max w.clock (w.busyUntil.getD s 0)

theorem getD_set_le (l : List Nat) (s t : Nat) : (l.set s t).getD s 0 ≤ t := by
  simp only [List.getD_eq_getElem?_getD, List.getElem?_set]
  by_cases h : s < l.length <;> simp [h]

theorem cycle_eff (w : World) (s : Nat) (e : TxEntry) (rest : List TxEntry) :
    (w.cycle s e rest).eff s ≤ w.eff s + w.cycleDur s e := by
  obtain ⟨_, _, hb, hc, _⟩ := cycle_world w s e rest
  unfold eff
  rw [hb, hc]
  have := getD_set_le w.busyUntil s (max w.clock (w.busyUntil.getD s 0) + w.cycleDur s e)
  omega

theorem spiQ_eff (w : World) (s : Nat) (out : Bytes) : (w.spiQ s out).eff s = w.eff s + SPI_COST_NS := by
  unfold eff
  simp only [spiQ_clock, spiQ_busy]
  omega

theorem setCEQ_eff (w : World) (s : Nat) (v : Bool) : (w.setCEQ s v).eff s = w.eff s := by
  unfold eff
  simp only [setCEQ_clock, setCEQ_busy]
  omega

end World
end Nrf
