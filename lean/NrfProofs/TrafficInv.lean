/-
Traffic lemmas, part 3 — invariants of every reachable world.

`Radio.Sane`: FIFO bounds (≤ 3 entries), stored payloads carry a pipe 0..5 and are non-empty,
ARC_CNT ≤ 15.  `World.Good`: every radio is sane **and idle** (not about to transmit).  Both hold in
`World.fresh` and are preserved by every SPI transaction (any bytes), CE edge, arrival, sleep and
change of the fault pattern — whatever the fault pattern and the number of radios.  This is what
turns the side conditions `RxWf` / `Idle` of the C10 theorems into facts about all histories, and
what shows that the fuel 4 of `tryTransmit` always suffices.
-/
import NrfProofs.Traffic2

namespace Nrf

namespace Radio

structure Sane (r : Radio) : Prop where
  rx : r.RxWf
  rxLen : r.rxFifo.length ≤ 3
  txLen : r.txFifo.length ≤ 3
  tx : ∀ e ∈ r.txFifo, e.data ≠ []
  arc : r.arcCnt ≤ 15
  ack : ∀ d, r.lastAck = some d → d ≠ []

theorem sane_congr (r r' : Radio) (h : r.Sane) (h1 : r'.rxFifo = r.rxFifo) (h2 : r'.txFifo = r.txFifo)
    (h3 : r'.arcCnt = r.arcCnt) (h4 : r'.lastAck = r.lastAck) : r'.Sane :=
  ⟨by unfold RxWf; rw [h1]; exact h.rx, by rw [h1]; exact h.rxLen, by rw [h2]; exact h.txLen,
   by rw [h2]; exact h.tx, by rw [h3]; exact h.arc, by rw [h4]; exact h.ack⟩

theorem writeReg_fifos (r : Radio) (reg : Nat) (d : Bytes) :
    (r.writeReg reg d).rxFifo = r.rxFifo ∧ (r.writeReg reg d).txFifo = r.txFifo ∧
    (r.writeReg reg d).arcCnt = r.arcCnt ∧ (r.writeReg reg d).lastAck = r.lastAck := by
  unfold writeReg
  split <;> first | exact ⟨rfl, rfl, rfl, rfl⟩ | (split <;> exact ⟨rfl, rfl, rfl, rfl⟩)

theorem readPayload_sane (r : Radio) (n : Nat) (h : r.Sane) : (r.readPayload n).1.Sane := by
  unfold readPayload
  split
  · exact h
  · rename_i e rest he
    refine ⟨?_, ?_, h.txLen, h.tx, h.arc, h.ack⟩
    · intro x hx; exact h.rx x (by rw [he]; exact List.mem_cons_of_mem _ hx)
    · have := h.rxLen; rw [he] at this; simp only [List.length_cons] at this ⊢; omega

theorem writePayload_sane (r : Radio) (kind : TxKind) (d : Bytes) (h : r.Sane) : (r.writePayload kind d).Sane := by
  unfold writePayload
  split
  · exact h
  · rename_i hc
    simp only [not_or, txFull, decide_eq_true_eq, Nat.not_le, List.isEmpty_iff] at hc
    refine ⟨h.rx, h.rxLen, ?_, ?_, h.arc, h.ack⟩
    · simp only [List.length_append, List.length_cons, List.length_nil]; omega
    · intro e he
      rcases List.mem_append.1 he with he | he
      · exact h.tx e he
      · simp only [List.mem_cons, List.not_mem_nil, or_false] at he
        subst he
        simp only
        intro hd
        have : (d.take 32).length = 0 := by rw [hd]; rfl
        rw [List.length_take] at this
        have : d.length = 0 := by omega
        exact hc.2 (List.length_eq_zero_iff.1 this)

theorem runCmd_sane (r : Radio) (c : Cmd) (d : Bytes) (h : r.Sane) : (r.runCmd c d).1.Sane := by
  unfold runCmd
  cases c with
  | rRegister reg => exact h
  | wRegister reg =>
    dsimp only
    split
    · exact h
    · obtain ⟨h1, h2, h3, h4⟩ := writeReg_fifos r reg d
      exact sane_congr _ _ h h1 h2 h3 h4
  | activate => exact sane_congr _ _ h rfl rfl rfl rfl
  | rRxPlWid => exact h
  | rRxPayload => exact readPayload_sane _ _ h
  | wTxPayload => exact writePayload_sane _ _ _ h
  | wTxPayloadNoAck => exact writePayload_sane _ _ _ h
  | wAckPayload p => exact writePayload_sane _ _ _ h
  | flushTx => exact ⟨h.rx, h.rxLen, Nat.zero_le _, (fun e he => by cases he), h.arc, h.ack⟩
  | flushRx => exact ⟨(fun e he => by cases he), Nat.zero_le _, h.txLen, h.tx, h.arc, h.ack⟩
  | nop => exact h

/-- every SPI transaction keeps the radio sane, whatever bytes are sent -/
theorem xfer_sane (r : Radio) (out : Bytes) (h : r.Sane) : (r.xfer out).1.Sane := by
  unfold xfer
  cases out with
  | nil => exact h
  | cons c d => exact runCmd_sane _ _ _ h

/-! ### reception -/

theorem takeAck_some (f : List TxEntry) (p : Nat) (d : Bytes) (rest : List TxEntry) (h : takeAck f p = some (d, rest)) :
    (∃ e ∈ f, e.data = d) ∧ rest.length + 1 = f.length ∧ ∀ x ∈ rest, x ∈ f := by
  induction f generalizing d rest with
  | nil => simp [takeAck] at h
  | cons e t ih =>
    unfold takeAck at h
    split at h
    · cases h
      exact ⟨⟨e, List.mem_cons_self, rfl⟩, rfl, fun x hx => List.mem_cons_of_mem _ hx⟩
    · split at h
      · cases h
      · rename_i d' rest' hh
        cases h
        obtain ⟨⟨e', he', hd'⟩, hl, hs⟩ := ih d rest' hh
        refine ⟨⟨e', List.mem_cons_of_mem _ he', hd'⟩, by simp only [List.length_cons]; omega, ?_⟩
        intro x hx
        rcases List.mem_cons.1 hx with hx | hx
        · rw [hx]; exact List.mem_cons_self
        · exact List.mem_cons_of_mem _ (hs x hx)

/-- reception of a non-empty packet keeps a radio sane -/
theorem receive_sane (r : Radio) (k : Packet) (hk : k.data ≠ []) (h : r.Sane) : (r.receive k).1.Sane := by
  unfold receive
  split
  · exact h
  · rename_i p hp
    have hp5 := listensTo_le r k p hp
    dsimp only
    split
    · exact h
    · rename_i hroom
      split
      · exact h
      · rename_i hdup
        have hlen : r.rxFifo.length < 3 := by
          simp only [Bool.and_eq_true, Bool.not_eq_true', decide_eq_true_eq, not_and, Nat.not_le] at hroom
          simp only [Bool.not_eq_true] at hdup
          exact hroom (by simpa using hdup)
        have hrx : ∀ e ∈ r.rxFifo ++ [({ pipe := p, data := k.data } : RxEntry)], e.pipe ≤ 5 ∧ e.data ≠ [] := by
          intro e he
          rcases List.mem_append.1 he with he | he
          · exact h.rx e he
          · simp only [List.mem_cons, List.not_mem_nil, or_false] at he
            subst he; exact ⟨hp5, hk⟩
        have hrl : (r.rxFifo ++ [({ pipe := p, data := k.data } : RxEntry)]).length ≤ 3 := by
          simp only [List.length_append, List.length_cons, List.length_nil]; omega
        split
        · exact ⟨hrx, hrl, h.txLen, h.tx, h.arc, h.ack⟩
        · split
          · exact ⟨hrx, hrl, h.txLen, h.tx, h.arc, by intro d hd; cases hd⟩
          · split
            · exact ⟨hrx, hrl, h.txLen, h.tx, h.arc, by intro d hd; cases hd⟩
            · rename_i d rest hta
              obtain ⟨⟨e, he, hed⟩, hl, hs⟩ := takeAck_some _ _ _ _ hta
              refine ⟨hrx, hrl, ?_, fun x hx => h.tx x (hs x hx), h.arc, ?_⟩
              · have := h.txLen
                show rest.length ≤ 3
                have hl' : rest.length + 1 = r.txFifo.length := hl
                omega
              · intro d' hd'
                cases hd'
                rw [← hed]; exact h.tx e he

/-- reception stores at most the packet's payload, tagged with the pipe that accepted it -/
theorem receive_rxFifo (r : Radio) (k : Packet) :
    (r.receive k).1.rxFifo = r.rxFifo ∨
    ∃ p, r.listensTo k = some p ∧ (r.receive k).1.rxFifo = r.rxFifo ++ [⟨p, k.data⟩] := by
  unfold receive
  split
  · exact Or.inl rfl
  · rename_i p hp
    dsimp only
    split
    · exact Or.inl rfl
    · split
      · exact Or.inl rfl
      · split
        · exact Or.inr ⟨p, hp, rfl⟩
        · split
          · exact Or.inr ⟨p, hp, rfl⟩
          · split
            · exact Or.inr ⟨p, hp, rfl⟩
            · exact Or.inr ⟨p, hp, rfl⟩

/-- an ACK payload riding on an acknowledgement is never empty -/
theorem receive_ack_nonempty (r : Radio) (k : Packet) (h : r.Sane) (d : Bytes)
    (ha : (r.receive k).2 = some (some d)) : d ≠ [] := by
  unfold receive at ha
  split at ha
  · cases ha
  · dsimp only at ha
    split at ha
    · cases ha
    · split at ha
      · split at ha
        · split at ha
          · simp only [Option.some.injEq] at ha
            exact h.ack d ha
          · cases ha
        · cases ha
      · split at ha
        · cases ha
        · split at ha
          · cases ha
          · split at ha
            · cases ha
            · rename_i d' rest hta
              simp only [Option.some.injEq] at ha
              obtain ⟨⟨e, he, hed⟩, _, _⟩ := takeAck_some _ _ _ _ hta
              rw [← ha, ← hed]; exact h.tx e he

/-- reception never makes a radio ready to transmit: it only acts in RX mode and leaves the
    configuration alone -/
theorem receive_stays_idle (r : Radio) (k : Packet) (h : r.Idle) : (r.receive k).1.Idle := by
  cases hl : r.listensTo k with
  | none =>
    have : r.receive k = (r, none) := by unfold receive; rw [hl]
    rw [this]; exact h
  | some p =>
    have hrx := listensTo_rxMode r k p hl
    have hc := receive_cfgOf r k
    have hcfg : (r.receive k).1.config = r.config := by
      have := congrArg Radio.config hc; exact this
    have hpr : (r.receive k).1.primRx = true := by
      unfold primRx; rw [hcfg]
      unfold rxMode at hrx
      simp only [Bool.and_eq_true] at hrx
      exact hrx.1.2
    exact idle_of_primRx _ hpr

/-! ### the transmitter after its cycle -/

theorem or10_and10 (f : Nat) : (f ||| 0x10) &&& 0x10 ≠ 0 := by
  rw [Nat.and_or_distrib_right]
  intro h
  have := Nat.or_eq_zero_iff.1 h
  simp at this

theorem txDoneAcked_rx (r : Radio) (rest : List TxEntry) (made : Nat) (a : Option Bytes) :
    (r.txDoneAcked rest made a).rxFifo = r.rxFifo ∨
    ∃ d, a = some d ∧ r.rxFifo.length < 3 ∧ (r.txDoneAcked rest made a).rxFifo = r.rxFifo ++ [{ pipe := 0, data := d }] := by
  unfold txDoneAcked
  cases a with
  | none => left; simp
  | some d =>
    dsimp only
    split
    · rename_i hg
      right
      simp only [Bool.and_eq_true, decide_eq_true_eq] at hg
      exact ⟨d, rfl, hg.2, rfl⟩
    · left; rfl

theorem afterCycle_sane (r0 : Radio) (e : TxEntry) (rest : List TxEntry) (res : Nat × Option (Option Bytes))
    (h : r0.Sane) (hf : r0.txFifo = e :: rest) (hm : res.1 ≤ 16) (hd : ∀ d, res.2 = some (some d) → d ≠ []) :
    (r0.afterCycle e rest res).Sane := by
  have hrestLen : rest.length ≤ 3 := by have := h.txLen; rw [hf] at this; simp only [List.length_cons] at this; omega
  have hrest : ∀ x ∈ rest, x.data ≠ [] := fun x hx => h.tx x (by rw [hf]; exact List.mem_cons_of_mem _ hx)
  unfold afterCycle
  split
  · exact ⟨h.rx, h.rxLen, hrestLen, hrest, Nat.zero_le _, h.ack⟩
  · split
    · rename_i a ha
      have hrx := txDoneAcked_rx (r0.takePid e) rest res.1 a
      have h0 : (r0.takePid e).rxFifo = r0.rxFifo := rfl
      rw [h0] at hrx
      refine ⟨?_, ?_, hrestLen, hrest, by show res.1 - 1 ≤ 15; omega, h.ack⟩
      · rcases hrx with hrx | ⟨d, had, hlen, hrx⟩
        · unfold RxWf; rw [hrx]; exact h.rx
        · unfold RxWf; rw [hrx]
          intro x hx
          rcases List.mem_append.1 hx with hx | hx
          · exact h.rx x hx
          · simp only [List.mem_cons, List.not_mem_nil, or_false] at hx
            subst hx
            exact ⟨Nat.zero_le _, hd d (by rw [ha, had])⟩
      · rcases hrx with hrx | ⟨d, had, hlen, hrx⟩
        · rw [hrx]; exact h.rxLen
        · rw [hrx]; simp only [List.length_append, List.length_cons, List.length_nil]; omega
    · unfold txFailed takePid
      dsimp only
      refine ⟨h.rx, h.rxLen, ?_, ?_, ?_, h.ack⟩
      · have := h.txLen; rw [hf] at this; simpa using this
      · intro x hx
        rcases List.mem_cons.1 hx with hx | hx
        · subst hx; exact h.tx e (by rw [hf]; exact List.mem_cons_self)
        · exact hrest x hx
      · show r0.setupRetr &&& 0x0F ≤ 15
        exact Nat.and_le_right

/-- after its cycle the transmitter has popped the head payload, or MAX_RT is latched -/
theorem afterCycle_progress (r0 : Radio) (e : TxEntry) (rest : List TxEntry) (res : Nat × Option (Option Bytes)) :
    (r0.afterCycle e rest res).txFifo = rest ∨ (r0.afterCycle e rest res).flags &&& 0x10 ≠ 0 := by
  unfold afterCycle
  split
  · exact Or.inl rfl
  · split
    · exact Or.inl rfl
    · exact Or.inr (or10_and10 _)

end Radio

namespace World

/-- an acknowledged cycle makes at most `made + n` attempts, whatever the fault pattern -/
theorem attemptLoop_made_le (s : Nat) (k : Packet) (n made : Nat) (w : World) :
    (attemptLoop s k n made w).2.1 ≤ made + n := by
  induction n generalizing made w with
  | zero => simp [attemptLoop]
  | succ n ih =>
    unfold attemptLoop
    simp only
    split
    · have := ih (made + 1) (w.nextFault).1; omega
    · have := ih (made + 1) ((w.nextFault).1.deliver s k).1; omega
    · split
      · split
        · simp
        · have := ih (made + 1) ((w.nextFault).1.deliver s k).1; omega
      · have := ih (made + 1) ((w.nextFault).1.deliver s k).1; omega

/-- a property of acknowledgements that holds for every delivery in worlds satisfying an
    invariant holds for the acknowledgement the loop returns -/
theorem attemptLoop_ack (P : World → Prop) (Q : Option Bytes → Prop) (s : Nat) (k : Packet)
    (hnf : ∀ w, P w → P w.nextFault.1) (hdel : ∀ w, P w → P (w.deliver s k).1)
    (hq : ∀ w a, P w → (w.deliver s k).2 = some a → Q a)
    (n made : Nat) (w : World) (h : P w) (a : Option Bytes) (ha : (attemptLoop s k n made w).2.2 = some a) : Q a := by
  induction n generalizing made w with
  | zero => simp [attemptLoop] at ha
  | succ n ih =>
    unfold attemptLoop at ha
    simp only at ha
    have h1 := hnf w h
    have h2 := hdel _ h1
    split at ha
    · exact ih _ _ h1 ha
    · exact ih _ _ h2 ha
    · split at ha
      · rename_i a' hd
        split at ha
        · simp only [Option.some.injEq] at ha
          subst ha
          exact hq _ _ h1 hd
        · exact ih _ _ h2 ha
      · exact ih _ _ h2 ha

def Sane (w : World) : Prop := ∀ j, j < w.radios.length → (w.radio j).Sane

/-- all radios except possibly `s` are idle -/
def IdleBut (s : Nat) (w : World) : Prop := ∀ j, j < w.radios.length → j ≠ s → (w.radio j).Idle

/-- every radio is sane and idle -/
def Good (w : World) : Prop := w.Sane ∧ ∀ j, j < w.radios.length → (w.radio j).Idle

theorem cycleRes_le (w : World) (s : Nat) (e : TxEntry) : (w.cycleRes s e).1 ≤ 16 := by
  unfold cycleRes
  have := attemptLoop_made_le s ((w.radio s).packetFor e) (((w.radio s).setupRetr &&& 0x0F) + 1) 0 (w.updRadio s (·.takePid e))
  have h15 : (w.radio s).setupRetr &&& 0x0F ≤ 15 := Nat.and_le_right
  omega

theorem cycleRes_ack_nonempty (w : World) (s : Nat) (e : TxEntry) (hw : w.Sane) (he : e.data ≠ []) (d : Bytes)
    (h : (w.cycleRes s e).2 = some (some d)) : d ≠ [] := by
  unfold cycleRes at h
  refine attemptLoop_ack
    (fun w' => w'.radios.length = w.radios.length ∧ ∀ j, j < w.radios.length → j ≠ s → (w'.radio j).Sane)
    (fun a => ∀ d, a = some d → d ≠ []) s ((w.radio s).packetFor e) ?_ ?_ ?_ _ _ _ ?_ _ h d rfl
  · intro w' h'
    rw [nextFault_radios]; exact ⟨h'.1, fun j hj hjs => by rw [nextFault_radio]; exact h'.2 j hj hjs⟩
  · intro w' h'
    refine ⟨by rw [deliver_length]; exact h'.1, fun j hj hjs => ?_⟩
    rw [deliver_radio _ _ _ _ (by rw [h'.1]; exact hj)]
    simp only [hjs, ↓reduceIte]
    exact Radio.receive_sane _ _ he (h'.2 j hj hjs)
  · intro w' a h' hdl d hd
    subst hd
    obtain ⟨j, hj, hjs, hr⟩ := deliver_ack_some w' s _ _ hdl
    exact Radio.receive_ack_nonempty _ _ (h'.2 j (by rw [← h'.1]; exact hj) hjs) d hr
  · refine ⟨by simp, fun j hj hjs => ?_⟩
    rw [updRadio_ne _ _ _ _ hjs]; exact hw j hj

/-- one transmit cycle of a ready radio in a sane world where everybody else is idle: the world
    stays sane, everybody else stays idle, and the sender has popped its head payload or latched
    MAX_RT -/
theorem cycle_good (w : World) (s : Nat) (e : TxEntry) (rest : List TxEntry) (hs : s < w.radios.length)
    (hw : w.Sane) (hi : w.IdleBut s) (hf : (w.radio s).txFifo = e :: rest) :
    (w.cycle s e rest).Sane ∧ (w.cycle s e rest).IdleBut s ∧
    (((w.cycle s e rest).radio s).txFifo = rest ∨ ((w.cycle s e rest).radio s).Idle) := by
  have he : e.data ≠ [] := (hw s hs).tx e (by rw [hf]; exact List.mem_cons_self)
  have hself := cycle_self w s e rest hs
  have hlen := cycle_length w s e rest
  refine ⟨?_, ?_, ?_⟩
  · intro j hj
    rw [hlen] at hj
    by_cases hjs : j = s
    · subst hjs
      rw [hself]
      exact Radio.afterCycle_sane _ _ _ _ (hw j hs) hf (cycleRes_le w j e)
        (fun d hd => cycleRes_ack_nonempty w j e hw he d hd)
    · exact cycle_others Radio.Sane w s e rest (fun r hr => Radio.receive_sane r _ he hr)
        (fun j hj _ => hw j hj) j hj hjs
  · intro j hj hjs
    rw [hlen] at hj
    exact cycle_others Radio.Idle w s e rest (fun r hr => Radio.receive_stays_idle r _ hr) hi j hj hjs
  · rw [hself]
    rcases Radio.afterCycle_progress (w.radio s) e rest (w.cycleRes s e) with h | h
    · exact Or.inl h
    · exact Or.inr (Radio.idle_of_maxrt _ h)

/-- `tryTransmit` with enough fuel ends in a good world: the fuel 4 of the model always suffices -/
theorem tryTransmit_good (s : Nat) (f : Nat) (w : World) (hs : s < w.radios.length) (hw : w.Sane) (hi : w.IdleBut s)
    (hf : (w.radio s).txFifo.length < f ∨ (w.radio s).Idle) : (tryTransmit s f w).Good := by
  induction f generalizing w with
  | zero =>
    rcases hf with hf | hf
    · omega
    · refine ⟨hw, fun j hj => ?_⟩
      by_cases hjs : j = s
      · subst hjs; exact hf
      · exact hi j hj hjs
  | succ f ih =>
    by_cases hr : (w.radio s).Idle
    · rw [tryTransmit_idle _ _ _ hr]
      refine ⟨hw, fun j hj => ?_⟩
      by_cases hjs : j = s
      · subst hjs; exact hr
      · exact hi j hj hjs
    · have hready : (w.radio s).txReady = true := by simpa [Radio.Idle] using hr
      cases hq : (w.radio s).txFifo with
      | nil => exact absurd (Radio.idle_of_empty _ hq) hr
      | cons e rest =>
        rw [tryTransmit_ready s f w e rest hq hready]
        obtain ⟨h1, h2, h3⟩ := cycle_good w s e rest hs hw hi hq
        refine ih _ (by rw [cycle_length]; exact hs) h1 h2 ?_
        rcases h3 with h3 | h3
        · left
          rcases hf with hf | hf
          · rw [h3]; rw [hq] at hf; simp only [List.length_cons] at hf; omega
          · exact absurd hf hr
        · exact Or.inr h3

theorem Good.sane {w : World} (h : w.Good) : w.Sane := h.1
theorem Good.idleBut {w : World} (h : w.Good) (s : Nat) : w.IdleBut s := fun j hj _ => h.2 j hj

/-- **every SPI transaction, whatever its bytes, leads from a good world to a good world** -/
theorem spi_good (w : World) (s : Nat) (out : Bytes) (hs : s < w.radios.length) (h : w.Good) : (w.spi s out).1.Good := by
  rw [spi_eq]
  refine tryTransmit_good s 4 _ (by simpa using hs) ?_ ?_ ?_
  · intro j hj
    by_cases hjs : j = s
    · subst hjs; rw [spiQ_radio_self _ _ _ hs]; exact Radio.xfer_sane _ _ (h.1 j hs)
    · rw [spiQ_radio_ne _ _ _ _ hjs]; exact h.1 j (by simpa using hj)
  · intro j hj hjs
    rw [spiQ_radio_ne _ _ _ _ hjs]; exact h.2 j (by simpa using hj)
  · left
    rw [spiQ_radio_self _ _ _ hs]
    have := (Radio.xfer_sane _ out (h.1 s hs)).txLen
    omega

theorem setCE_good (w : World) (s : Nat) (v : Bool) (hs : s < w.radios.length) (h : w.Good) : (w.setCE s v).Good := by
  rw [setCE_eq]
  refine tryTransmit_good s 4 _ (by simpa using hs) ?_ ?_ ?_
  · intro j hj
    by_cases hjs : j = s
    · subst hjs; rw [setCEQ_radio_self _ _ _ hs]; exact Radio.sane_congr _ _ (h.1 j hs) rfl rfl rfl rfl
    · rw [setCEQ_radio_ne _ _ _ _ hjs]; exact h.1 j (by simpa using hj)
  · intro j hj hjs
    rw [setCEQ_radio_ne _ _ _ _ hjs]; exact h.2 j (by simpa using hj)
  · left
    rw [setCEQ_radio_self _ _ _ hs]
    have := (h.1 s hs).txLen
    show (w.radio s).txFifo.length < 4
    omega

theorem sleep_good (w : World) (n : Nat) (h : w.Good) : (w.sleep n).Good := h

theorem setFaults_good (w : World) (fs : List Outcome) (h : w.Good) : ({ w with faults := fs } : World).Good := h

theorem inject_core (w : World) (s p : Nat) (d : Bytes) (h : w.Good) (hrx : (w.radio s).rxMode = true)
    (hroom : (w.radio s).rxFifo.length < 3) (hp6 : p < 6) (hd : d ≠ []) :
    (w.setRadio s { (w.radio s) with rxFifo := (w.radio s).rxFifo ++ [⟨p, d⟩],
                                     flags := (w.radio s).flags ||| 0x40, rpd := true }).Good := by
  by_cases hs : s < w.radios.length
  · have hS := h.1 s hs
    refine ⟨fun j hj => ?_, fun j hj => ?_⟩
    · by_cases hjs : j = s
      · subst hjs
        rw [radio_setRadio_self _ _ _ hs]
        refine ⟨?_, ?_, hS.txLen, hS.tx, hS.arc, hS.ack⟩
        · intro x hx
          rcases List.mem_append.1 hx with hx | hx
          · exact hS.rx x hx
          · simp only [List.mem_cons, List.not_mem_nil, or_false] at hx
            subst hx; exact ⟨by show p ≤ 5; omega, hd⟩
        · show (_ ++ [_]).length ≤ 3
          simp only [List.length_append, List.length_cons, List.length_nil]; omega
      · rw [radio_setRadio_ne _ _ _ _ hjs]; exact h.1 j (by simpa using hj)
    · by_cases hjs : j = s
      · subst hjs
        rw [radio_setRadio_self _ _ _ hs]
        have : (w.radio j).primRx = true := by
          unfold Radio.rxMode at hrx; simp only [Bool.and_eq_true] at hrx; exact hrx.1.2
        exact Radio.idle_of_primRx _ this
      · rw [radio_setRadio_ne _ _ _ _ hjs]; exact h.2 j (by simpa using hj)
  · have : ∀ r, w.setRadio s r = w := by
      intro r
      unfold setRadio
      rw [List.set_eq_of_length_le (by omega)]
    rw [this]; exact h

theorem inject_good (w : World) (s p : Nat) (d : Bytes) (h : w.Good) : (w.inject s p d).Good := by
  unfold inject
  dsimp only
  split
  · split
    · rename_i hc
      simp only [Bool.and_eq_true, decide_eq_true_eq] at hc
      obtain ⟨⟨⟨⟨hrx, hroom⟩, hp6⟩, _⟩, hlen⟩ := hc
      exact inject_core w s p d h hrx hroom hp6 (by intro hd; subst hd; simp at hlen)
    · exact h
  · split
    · rename_i hc
      simp only [Bool.and_eq_true, decide_eq_true_eq] at hc
      obtain ⟨⟨⟨⟨hrx, hroom⟩, hp6⟩, _⟩, hlen⟩ := hc
      exact inject_core w s p d h hrx hroom hp6 (by intro hd; subst hd; simp at hlen)
    · exact h

theorem fresh_good (n : Nat) (plus : Bool) : (fresh n plus).Good := by
  have hr : ∀ j, j < (fresh n plus).radios.length → (fresh n plus).radio j = { plus := plus } := by
    intro j hj
    unfold radio fresh at *
    simp only [List.length_replicate] at hj
    simp [List.getD_eq_getElem?_getD, List.getElem?_replicate, hj]
  refine ⟨fun j hj => ?_, fun j hj => ?_⟩
  · rw [hr j hj]
    exact ⟨(fun e he => by cases he), Nat.zero_le _, Nat.zero_le _, (fun e he => by cases he), Nat.zero_le _,
      (fun d hd => by cases hd)⟩
  · rw [hr j hj]; exact Radio.idle_of_empty _ rfl

/-- everything that can happen to a world: the bus, the CE pin, the environment -/
inductive Step : World → World → Prop where
  | spi (w : World) (s : Nat) (out : Bytes) (hs : s < w.radios.length) : Step w (w.spi s out).1
  | setCE (w : World) (s : Nat) (v : Bool) (hs : s < w.radios.length) : Step w (w.setCE s v)
  | inject (w : World) (s p : Nat) (d : Bytes) : Step w (w.inject s p d)
  | sleep (w : World) (n : Nat) : Step w (w.sleep n)
  | faults (w : World) (fs : List Outcome) : Step w { w with faults := fs }

/-- reachable from a world of `n` reset radios by any finite sequence of steps -/
inductive Reachable : World → Prop where
  | fresh (n : Nat) (plus : Bool) : Reachable (World.fresh n plus)
  | step {w w' : World} : Reachable w → Step w w' → Reachable w'

theorem Step.good {w w' : World} (h : Step w w') (hg : w.Good) : w'.Good := by
  cases h with
  | spi s out hs => exact spi_good _ _ _ hs hg
  | setCE s v hs => exact setCE_good _ _ _ hs hg
  | inject s p d => exact inject_good _ _ _ _ hg
  | sleep n => exact sleep_good _ _ hg
  | faults fs => exact setFaults_good _ _ hg

theorem Reachable.good {w : World} (h : Reachable w) : w.Good := by
  induction h with
  | fresh n plus => exact fresh_good n plus
  | step _ hs ih => exact hs.good ih

end World
end Nrf
