/-
C14 ← C07: the bridge between the two "this is the radio of a listening network node" predicates.

* `Nrf.Spec.Listening n r` (NrfModel/Spec/Listening.lean, property C07): on the node `n` — the
  addresses come from `n.cfg`, `digitsOf n.a.addr` and the node's multicast level `n.a.netLvl`;
* `Nrf.Spec.Multicast.Listening pfx sfx am ds r` (NrfModel/Spec/Multicast.lean, property C14): on
  the tree node `ds` — the level is `ds.length`.

The first implies the second for a node sitting on tree node `ds` (`n.a.addr = val ds`) whose
multicast level is its own tree level (`n.a.netLvl = ds.length`: what `_begin` derives; the
`multicast_level` setter can move it).  With `allow_multicast` off the level plays no role.

Imports only the two specification files; everything lives in `Nrf.Proofs.C14Bridge`.
-/
import NrfModel.Spec.Listening
import NrfModel.Spec.Multicast

namespace Nrf.Proofs.C14Bridge
open Nrf Nrf.Net Nrf.Spec

/-- `digitsOf` inverts `val` on digit lists over 1..5 (local copy: the provider of `digitsOf_val`
    sits on top of the C07 execution stack, which this file must not import) -/
theorem digitsOf_val_ok {ds : List Nat} (h : DigitsOk ds) : digitsOf (val ds) = ds := by
  induction ds with
  | nil => rw [digitsOf]; simp [val]
  | cons d t ih =>
    have hd : 1 ≤ d ∧ d ≤ 5 := h d List.mem_cons_self
    have ht : DigitsOk t := fun x hx => h x (List.mem_cons_of_mem _ hx)
    have hv : val (d :: t) = d + 8 * val t := rfl
    rw [digitsOf]
    have hv0 : val (d :: t) ≠ 0 := by rw [hv]; omega
    simp only [hv0, ↓reduceDIte]
    have h1 : val (d :: t) % 8 = d := by rw [hv]; omega
    have h2 : val (d :: t) / 8 = val t := by rw [hv]; omega
    rw [h1, h2, ih ht]

private theorem pipe_cases {p : Nat} (hp : p ≤ 5) : p = 0 ∨ p = 1 ∨ p = 2 ∨ p = 3 ∨ p = 4 ∨ p = 5 := by
  omega

private theorem pipe_mem {p : Nat} (hp : p ≤ 5) : p ∈ [0, 1, 2, 3, 4, 5] := by
  rcases pipe_cases hp with rfl | rfl | rfl | rfl | rfl | rfl <;> decide

/-- everything of `Spec.Multicast.Listening` except the addresses: registers only -/
private theorem registers {n : Node} {r : Radio} (h : Nrf.Spec.Listening n r) :
    r.rxMode = true ∧ (∀ p, p ≤ 5 → Radio.bit r.enRxAddr p = true) ∧ r.aw = 5 ∧ r.enAA = 0x3E ∧
    (∀ p, p ≤ 5 → r.dplOn p = true) := by
  obtain ⟨h1, h2, h3, h4, h5, -, h7, h8, h9⟩ := h
  refine ⟨?_, ?_, h5, h7, ?_⟩
  · simp [Radio.rxMode, h1, h2, h3]
  · intro p hp
    rw [h4]
    rcases pipe_cases hp with rfl | rfl | rfl | rfl | rfl | rfl <;> decide
  · intro p hp
    have h9' : decide (r.feature &&& 4 ≠ 0) = true := decide_eq_true h9
    unfold Radio.dplOn
    rw [h9', h8, Bool.true_and]
    rcases pipe_cases hp with rfl | rfl | rfl | rfl | rfl | rfl <;> decide

/-- **the bridge.**  The radio of a listening node in the sense of C07 (`Spec.Listening`), the node
    sitting on tree node `ds` with its multicast level equal to its tree level, is a listening
    radio in the sense of C14 (`Spec.Multicast.Listening`) for the node's own prefix / suffix /
    `allow_multicast`. -/
theorem listening_bridge {n : Nrf.Net.Node} {r : Nrf.Radio} {ds : List Nat}
    (h : Nrf.Spec.Listening n r) (hn : Nrf.Spec.IsNode ds) (ha : n.a.addr = Nrf.Spec.val ds)
    (hl : n.a.netLvl = ds.length) :
    Nrf.Spec.Multicast.Listening n.cfg.pfx n.cfg.sfx n.cfg.allowMulticast ds r := by
  obtain ⟨hrx, hopen, haw, haa, hdpl⟩ := registers h
  refine ⟨hrx, hopen, haw, ?_, haa, hdpl⟩
  intro p hp
  have := h.2.2.2.2.2.1 p (pipe_mem hp)
  unfold wantAddr at this
  rw [ha, digitsOf_val_ok hn.1, hl] at this
  unfold listenSpec
  exact this.symm

/-- … with `allow_multicast` off the node's multicast level is irrelevant -/
theorem listening_bridge_off {n : Nrf.Net.Node} {r : Nrf.Radio} {ds : List Nat}
    (h : Nrf.Spec.Listening n r) (hn : Nrf.Spec.IsNode ds) (ha : n.a.addr = Nrf.Spec.val ds)
    (ham : n.cfg.allowMulticast = false) :
    Nrf.Spec.Multicast.Listening n.cfg.pfx n.cfg.sfx n.cfg.allowMulticast ds r := by
  obtain ⟨hrx, hopen, haw, haa, hdpl⟩ := registers h
  refine ⟨hrx, hopen, haw, ?_, haa, hdpl⟩
  intro p hp
  have := h.2.2.2.2.2.1 p (pipe_mem hp)
  unfold wantAddr at this
  rw [ha, digitsOf_val_ok hn.1, ham] at this
  unfold listenSpec
  rw [ham]
  have hf : ¬ (p = 0 ∧ false = true) := fun h => Bool.noConfusion h.2
  rw [if_neg hf] at this
  rw [if_neg hf]
  exact this.symm

end Nrf.Proofs.C14Bridge
