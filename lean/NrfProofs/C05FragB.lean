/-
C05 helper lemmas, part 9 (fragmented messages end to end, closed system), B: the link invariant.

A sender `a` transmits to its neighbour `b` (pipe `p` of `b`, address `A`); the rest of the network is
idle and deaf to `A` (no third radio listens to a unicast packet for `A`; other traffic it may hear).
`FragSt … s0 s role pend last q` relates the state `s` somewhere inside the transmission to the state `s0`
it started from:

* `a` runs (`cur = a`, call stack `[a]`), its radio object / radio are a node radio in `role`
  (`(true, true, 0x3E)` = listening as `_begin` left it, `(false, ce, 0x3F)` = transmit role towards `A`),
  its RX FIFO as at the start;
* `b` listens as before; its RX FIFO holds `pend` (nothing, or one payload on pipe `p`), the payload of the
  last packet it accepted is `last`, its queue is `q`;
* nothing else changed: radio assignment, third radios, everybody else's queue, the fault script (empty).

Lemmas: the invariant is kept by RF24 calls of `a` that only touch its own radio (`FragSt.afterRf`), by
changes of `a`'s `frame_buf` (`FragSt.setNode`); `b` *drains* its RX FIFO at a scheduling point
(`FragSt.drain`: `runOthers` runs `b.update()`, which enqueues the pending fragment); one acknowledged
`send` puts the next payload into `b`'s RX FIFO (`FragSt.send`).
-/
import NrfProofs.C05FragA
import NrfProofs.C05Route

namespace Nrf.Net
open Nrf Nrf.Spec Nrf.Proofs

/-- the static situation of a transmission from node `a` to its neighbour `b` on pipe `p` / address `A` -/
structure FragEnv (L : LinkCfg) (Pb : List Bytes) (A : Bytes) (p a b : Nat) (s0 : NetState) : Prop where
  ha : a < s0.nodes.length
  hb : b < s0.nodes.length
  hab : a ≠ b
  rid : ∀ i j, i < s0.nodes.length → j < s0.nodes.length → i ≠ j → s0.ridAt i ≠ s0.ridAt j
  wa : s0.ridAt a < s0.w.radios.length
  wb : s0.ridAt b < s0.w.radios.length
  quiet : ∀ i, i < s0.nodes.length → i ≠ b → (s0.radioAt i).rxFifo = []
  /-- no third radio listens to a unicast packet for the address `A` (other traffic they may well hear) -/
  deaf : ∀ r buf pid, r ≠ s0.ridAt a → r ≠ s0.ridAt b →
    (s0.w.radio r).listensTo (unicastPacket L A buf pid) = none
  pA : Pb[p]? = some A
  p1 : 1 ≤ p
  p5 : p ≤ 5
  plt : ∀ q, q < p → Pb[q]? ≠ some A
  kind : (s0.nodeAt b).kind ≠ .meshMaster

/-- the role of the sender's radio: PRIM_RX, CE, auto-ack mask -/
abbrev Role := Bool × Bool × Nat

/-- the link invariant (see the head of the file) -/
structure FragSt (L : LinkCfg) (Pa Pb : List Bytes) (A : Bytes) (p a b : Nat) (s0 s : NetState) (role : Role)
    (pend last : Option Bytes) (q : NetQueue) : Prop where
  cur : s.cur = a
  active : s.active = [a]
  closed : s.closed = true
  len : s.nodes.length = s0.nodes.length
  faults : s.w.faults = []
  rlen : s.w.radios.length = s0.w.radios.length
  rid : ∀ i, s.ridAt i = s0.ridAt i
  sndN : NodeRadio L Pa role.1 role.2.1 role.2.2 (s.nodeAt a).rf (s.radioAt a)
  sndT : role.1 = false → (s.radioAt a).txAddr = A ∧ (s.radioAt a).rxAddr0 = A
  sndFifo : (s.radioAt a).rxFifo = []
  rcvN : NodeRadio L Pb true true 0x3E (s.nodeAt b).rf (s.radioAt b)
  rcvFifo : (s.radioAt b).rxFifo = pend.toList.map (fun d => { pipe := p, data := d })
  rcvLast : (s.radioAt b).lastRx.map (·.data) = last
  rcvQ : (s.nodeAt b).queue = q
  rcvStat : (s.nodeAt b).a = (s0.nodeAt b).a ∧ (s.nodeAt b).arrivals = [] ∧ (s.nodeAt b).kind = (s0.nodeAt b).kind
  third : ∀ r, r ≠ s0.ridAt a → r ≠ s0.ridAt b → s.w.radio r = s0.w.radio r
  queues : ∀ j, j ≠ b → (s.nodeAt j).queue = (s0.nodeAt j).queue

section
variable {L : LinkCfg} {Pa Pb : List Bytes} {A : Bytes} {p a b : Nat} {s0 s : NetState} {role : Role}
  {pend last : Option Bytes} {q : NetQueue}

theorem FragSt.node_a (h : FragSt L Pa Pb A p a b s0 s role pend last q) : s.node = s.nodeAt a := by
  rw [node_eq_nodeAt, h.cur]

theorem FragSt.hcur (E : FragEnv L Pb A p a b s0) (h : FragSt L Pa Pb A p a b s0 s role pend last q) :
    s.cur < s.nodes.length := by rw [h.cur, h.len]; exact E.ha

theorem FragSt.drv_radio (h : FragSt L Pa Pb A p a b s0 s role pend last q) : s.drv.radio = s.radioAt a := by
  show s.w.radio s.node.rf.rid = _
  rw [h.node_a]; rfl

theorem FragSt.drv_rid (h : FragSt L Pa Pb A p a b s0 s role pend last q) : s.drv.d.rid = s0.ridAt a := by
  show s.node.rf.rid = _
  rw [h.node_a, ← h.rid a]; rfl

theorem FragSt.wf (E : FragEnv L Pb A p a b s0) (h : FragSt L Pa Pb A p a b s0 s role pend last q) : s.drv.Wf := by
  unfold DrvState.Wf
  rw [h.drv_rid]
  show _ < s.w.radios.length
  rw [h.rlen]; exact E.wa

/-- a third node's radio is as at the start: idle -/
theorem FragSt.third_fifo (E : FragEnv L Pb A p a b s0) (h : FragSt L Pa Pb A p a b s0 s role pend last q)
    (i : Nat) (hi : i < s0.nodes.length) (hia : i ≠ a) (hib : i ≠ b) : (s.radioAt i).rxFifo = [] := by
  unfold NetState.radioAt
  rw [h.rid i, h.third _ (E.rid i a hi E.ha hia) (E.rid i b hi E.hb hib)]
  exact E.quiet i hi hib

/-- with nothing pending at `b` the network is quiet -/
theorem FragSt.quiet (E : FragEnv L Pb A p a b s0) (h : FragSt L Pa Pb A p a b s0 s role none last q) : Quiet s := by
  intro i hi hic _
  rw [h.len] at hi; rw [h.cur] at hic
  by_cases hib : i = b
  · subst hib; rw [h.rcvFifo]; rfl
  · exact h.third_fifo E i hi hic hib

/-- an RF24 call of the sender, in raw form: its own radio object / radio in the new role, the receiver's
    radio (still a listening node radio) with the new RX FIFO and reception history, third radios untouched -/
theorem FragSt.afterRf_gen (E : FragEnv L Pb A p a b s0) (h : FragSt L Pa Pb A p a b s0 s role pend last q)
    (D : DrvState) (role' : Role) (pend' last' : Option Bytes)
    (hridD : D.d.rid = s.drv.d.rid) (hlen : D.w.radios.length = s.w.radios.length) (hf : D.w.faults = [])
    (N : NodeRadio L Pa role'.1 role'.2.1 role'.2.2 D.d D.radio) (x : D.radio.rxFifo = s.drv.radio.rxFifo)
    (T : role'.1 = false → D.radio.txAddr = A ∧ D.radio.rxAddr0 = A)
    (hbN : NodeRadio L Pb true true 0x3E (s.nodeAt b).rf (D.w.radio (s0.ridAt b)))
    (hbF : (D.w.radio (s0.ridAt b)).rxFifo = pend'.toList.map (fun d => { pipe := p, data := d }))
    (hbL : (D.w.radio (s0.ridAt b)).lastRx.map (·.data) = last')
    (hthird : ∀ r, r ≠ s0.ridAt a → r ≠ s0.ridAt b → D.w.radio r = s.w.radio r) :
    FragSt L Pa Pb A p a b s0 (s.afterRf D) role' pend' last' q := by
  have hcur := h.hcur E
  have hridD : D.d.rid = s0.ridAt a := by rw [hridD]; exact h.drv_rid
  have hat : ∀ i, i ≠ a → (s.afterRf D).nodeAt i = s.nodeAt i := by
    intro i hi; exact nodeAt_afterRf_ne s D i (by rw [h.cur]; exact hi)
  have hata : ((s.afterRf D).nodeAt a).rf = D.d := by
    rw [nodeAt_afterRf, if_pos ⟨h.cur.symm, hcur⟩]
  have hrid : ∀ i, (s.afterRf D).ridAt i = s0.ridAt i := by
    intro i
    by_cases hi : i = a
    · subst hi; unfold NetState.ridAt; rw [hata]; exact hridD
    · unfold NetState.ridAt; rw [hat i hi]; exact h.rid i
  have hrada : (s.afterRf D).radioAt a = D.radio := by
    rw [← h.cur]; exact radioAt_afterRf_cur s D hcur
  have hradb : (s.afterRf D).radioAt b = D.w.radio (s0.ridAt b) := by
    rw [radioAt_afterRf_ne s D b (by rw [h.cur]; exact fun e => E.hab e.symm), h.rid b]
  have hba : b ≠ a := fun e => E.hab e.symm
  refine ⟨h.cur, h.active, h.closed, by simp; exact h.len, hf,
    by simp; rw [hlen]; exact h.rlen, hrid, ?_, ?_, ?_, ?_, ?_, ?_, ?_, ?_, ?_, ?_⟩
  · rw [hata, hrada]; exact N
  · rw [hrada]; exact T
  · rw [hrada, x, h.drv_radio]; exact h.sndFifo
  · rw [hat b hba, hradb]; exact hbN
  · rw [hradb]; exact hbF
  · rw [hradb]; exact hbL
  · rw [hat b hba]; exact h.rcvQ
  · rw [hat b hba]; exact h.rcvStat
  · intro r hra hrb
    show D.w.radio r = _
    rw [hthird r hra hrb]
    exact h.third r hra hrb
  · intro j hj
    rw [queue_afterRf]; exact h.queues j hj

/-- **An RF24 call of the sender that touches only its own radio keeps the invariant** (with the new role) -/
theorem FragSt.afterRf (E : FragEnv L Pb A p a b s0) (h : FragSt L Pa Pb A p a b s0 s role pend last q)
    (D : DrvState) (role' : Role) (F : DrvFrame s.drv D)
    (N : NodeRadio L Pa role'.1 role'.2.1 role'.2.2 D.d D.radio) (x : D.radio.rxFifo = s.drv.radio.rxFifo)
    (T : role'.1 = false → D.radio.txAddr = A ∧ D.radio.rxAddr0 = A) :
    FragSt L Pa Pb A p a b s0 (s.afterRf D) role' pend last q := by
  have hrb : D.w.radio (s0.ridAt b) = s.radioAt b := by
    rw [F.others _ (by rw [h.drv_rid]; exact fun e => E.rid b a E.hb E.ha (fun e' => E.hab e'.symm) e)]
    show s.w.radio _ = s.w.radio _
    rw [h.rid b]
  refine h.afterRf_gen E D role' pend last F.rid F.len (by rw [F.faults]; exact h.faults) N x T
    (by rw [hrb]; exact h.rcvN) (by rw [hrb]; exact h.rcvFifo) (by rw [hrb]; exact h.rcvLast) ?_
  intro r hra _
  exact F.others r (by rw [h.drv_rid]; exact hra)

/-- a change of the sender's object that keeps its radio object and its queue keeps the invariant -/
theorem FragSt.setNode (E : FragEnv L Pb A p a b s0) (h : FragSt L Pa Pb A p a b s0 s role pend last q)
    (g : Node → Node) (hg : ∀ n, (g n).rf = n.rf ∧ (g n).queue = n.queue) :
    FragSt L Pa Pb A p a b s0 (s.setNode g) role pend last q := by
  have hat : ∀ i, i ≠ a → (s.setNode g).nodeAt i = s.nodeAt i := by
    intro i hi
    rw [nodeAt_setNode, if_neg (fun hh => hi (hh.1.trans h.cur))]
  have hrf : ∀ i, ((s.setNode g).nodeAt i).rf = (s.nodeAt i).rf := by
    intro i; rw [nodeAt_setNode]; split
    · exact (hg _).1
    · rfl
  have hrad : ∀ i, (s.setNode g).radioAt i = s.radioAt i := radioAt_setNode s g (fun n => (hg n).1)
  have hba : b ≠ a := fun e => E.hab e.symm
  refine ⟨h.cur, h.active, h.closed, by simp; exact h.len, h.faults, h.rlen, ?_, ?_, ?_, ?_, ?_, ?_, ?_, ?_, ?_,
    h.third, ?_⟩
  · intro i; unfold NetState.ridAt; rw [hrf]; exact h.rid i
  · rw [hrf, hrad]; exact h.sndN
  · rw [hrad]; exact h.sndT
  · rw [hrad]; exact h.sndFifo
  · rw [hat b hba, hrad]; exact h.rcvN
  · rw [hrad]; exact h.rcvFifo
  · rw [hrad]; exact h.rcvLast
  · rw [hat b hba]; exact h.rcvQ
  · rw [hat b hba]; exact h.rcvStat
  · intro j hj
    rw [nodeAt_setNode]; split
    · rw [(hg _).2]; exact h.queues j hj
    · exact h.queues j hj

/-- **One acknowledged `send`**: the sender in the transmit role towards `A`, nothing pending at `b`, the
    payload not a repetition of the last one `b` accepted — `send()` returns `True`, `b`'s RX FIFO holds
    exactly the payload (on pipe `p`), which is now the last packet `b` accepted; CE stays high. -/
theorem FragSt.send (hc : L3Contracts) (E : FragEnv L Pb A p a b s0) {ce : Bool}
    (h : FragSt L Pa Pb A p a b s0 s (false, ce, 0x3F) none last q) (buf : Bytes)
    (hl1 : 1 ≤ buf.length) (hl32 : buf.length ≤ 32) (hdup : last ≠ some buf) :
    ∃ s', nexec (liftRf (Rf24.send buf false false 0 true)) s = (.ok (.bool true, buf), s') ∧
      FragSt L Pa Pb A p a b s0 s' (false, true, 0x3F) (some buf) (some buf) q := by
  obtain ⟨hta, hra0⟩ := h.sndT rfl
  have hAlen : A.length = 5 := by
    obtain ⟨_, _, _, _, _, _, _, _, _, _, _, _, _, _, _, _, _, _, _, _, _, hPl, _⟩ := h.rcvN
    exact hPl A (List.mem_of_getElem? E.pA)
  have hN : NodeRadio L Pa false ce 0x3F s.drv.d s.drv.radio := by
    rw [h.drv_radio]
    show NodeRadio L Pa false ce 0x3F s.node.rf _
    rw [h.node_a]; exact h.sndN
  have hk : s.drv.packet buf = unicastPacket L A buf s.drv.radio.nextPid :=
    hN.packet A buf (by rw [h.drv_radio]; exact hta) hAlen
  have hrb : s.w.radio (s0.ridAt b) = s.radioAt b := by
    show s.w.radio _ = s.w.radio _
    rw [h.rid b]
  have hjb : s0.ridAt b ≠ s.drv.d.rid := by
    rw [h.drv_rid]; exact E.rid b a E.hb E.ha (fun e => E.hab e.symm)
  have hrecv := Radio.receive_idle h.rcvN p A buf s.drv.radio.nextPid E.p1 E.p5 E.pA E.plt
    (by rw [h.rcvFifo]; simp)
    (by
      intro e
      have := h.rcvLast
      rw [e] at this
      exact hdup this.symm)
  obtain ⟨D4, e4, r4, l4, f4, o4, N4, x4, _, a4, t4⟩ := hc.send s.drv L Pa ce buf (s0.ridAt b) (h.wf E) hN
    (by rw [h.drv_radio, hta, hra0]) hl1 hl32 h.faults hjb
    (by show ((s.w.radio (s0.ridAt b)).receive _).2 = _; rw [hrb, hk, hrecv])
  have hnew : D4.w.radio (s0.ridAt b) = (s.radioAt b).withRx [{ pipe := p, data := buf }]
      { pid := s.drv.radio.nextPid, addr := A, data := buf } := by
    rw [o4 _ hjb]
    show ((s.w.radio (s0.ridAt b)).receive _).1 = _
    rw [hrb, hk, hrecv, h.rcvFifo]
    rfl
  refine ⟨s.afterRf D4, nexec_liftRf_ok _ s _ D4 e4, ?_⟩
  refine h.afterRf_gen E D4 (false, true, 0x3F) (some buf) (some buf) r4 l4 f4 N4 x4
    (fun _ => ⟨by rw [t4, h.drv_radio]; exact hta, by rw [a4, h.drv_radio]; exact hra0⟩)
    (by rw [hnew]; exact h.rcvN.withRx _ _ _ E.p5) (by rw [hnew]; rfl) (by rw [hnew]; rfl) ?_
  intro r hra hrb'
  rw [o4 r (by rw [h.drv_rid]; exact hra), hk]
  show ((s.w.radio r).receive _).1 = _
  rw [Radio.receive_ignore _ _ (by rw [h.third r hra hrb']; exact E.deaf r _ _ hra hrb')]

theorem nodeAt_switchTo_ne (s : NetState) (j i : Nat) (h : i ≠ s.cur) : (s.switchTo j).nodeAt i = s.nodeAt i := by
  have : (s.switchTo j).nodeAt i = (s.setNode fun n => { n with clock := s.w.clock }).nodeAt i := rfl
  rw [this, nodeAt_setNode, if_neg (fun hh => h hh.1)]

/-- **The receiver drains its RX FIFO at a scheduling point of the sender**: a FIRST or MORE fragment `g0`
    for `b` is pending (payload `p0`); `runOthers` lets `b` — and nobody else — run `update()`, which
    reads the payload, hands the frame to `queue.enqueue` (the reassembly cache) and finds nothing more. -/
theorem FragSt.drain (hc : L3Contracts) (E : FragEnv L Pb A p a b s0) {p0 : Bytes}
    (h : FragSt L Pa Pb A p a b s0 s role (some p0) last q) (g0 : Frame) (g : Nat)
    (hl1 : 1 ≤ p0.length) (hl32 : p0.length ≤ 32)
    (hun : ∀ f0 : Frame, f0.unpack p0 = (g0, true)) (hto : g0.header.toNode = (s0.nodeAt b).a.addr)
    (hvt : isValid g0.header.toNode = true) (hvf : isValid g0.header.fromNode = true)
    (hty : g0.header.ty = MSG_FRAG_FIRST ∨ g0.header.ty = MSG_FRAG_MORE)
    (hfuel : s0.nodes.length + 6 ≤ g) :
    ∃ s', nexec (runOthers (g + 1 + b) 0) s = (.ok (), s') ∧
      FragSt L Pa Pb A p a b s0 s' role none last (q.enqueue g0).1 := by
  obtain ⟨g', rfl⟩ : ∃ g', g = g' + 4 := ⟨g - 4, by omega⟩
  have hba : b ≠ a := fun e => E.hab e.symm
  have hbl : b < s.nodes.length := by rw [h.len]; exact E.hb
  generalize ht : s.switchTo b = t
  have htc : t.cur = b := by rw [← ht]; rfl
  have hta : t.active = [b, a] := by rw [← ht]; show b :: s.active = _; rw [h.active]
  have htcl : t.closed = true := by rw [← ht]; exact h.closed
  have htl : t.nodes.length = s.nodes.length := by rw [← ht]; exact (Same.switchTo s b).len
  have htw : ∀ r, t.w.radio r = s.w.radio r := by intro r; rw [← ht]; rfl
  have htat : ∀ i, i ≠ a → t.nodeAt i = s.nodeAt i := by
    intro i hi; rw [← ht]; exact nodeAt_switchTo_ne s b i (by rw [h.cur]; exact hi)
  have htn : t.node = s.nodeAt b := by rw [node_eq_nodeAt, htc]; exact htat b hba
  have htrad : ∀ i, t.radioAt i = s.radioAt i := by intro i; rw [← ht]; exact radioAt_switchTo s b i
  have htdr : t.drv.radio = s.radioAt b := by
    show t.w.radio t.node.rf.rid = _
    rw [htw, htn]; rfl
  have htq : Quiet t := by
    intro i hi hic hia
    rw [htl, h.len] at hi
    rw [hta] at hia
    have hia' : i ≠ a := by
      intro e; apply hia; rw [e]; simp
    rw [htc] at hic
    rw [htrad]
    exact h.third_fifo E i hi hia' hic
  have hg0 : (q.enqueue g0).2.2 = g0 := enqueue_frame q g0 (Or.inl (by rcases hty with e | e <;> rw [e] <;> decide))
  obtain ⟨t', eu, U⟩ := nodeUpdate_enq hc g' t L Pb p p0 g0 (by rw [htc, htl]; exact hbl) htcl
    (by rw [htl, h.len]; omega) htq
    (by
      unfold DrvState.Wf
      show t.node.rf.rid < t.w.radios.length
      rw [htn]
      show s.ridAt b < _
      rw [h.rid b, ← ht]
      show _ < s.w.radios.length
      rw [h.rlen]; exact E.wb)
    (by rw [htdr, htn]; exact h.rcvN)
    (by rw [htn]; exact h.rcvStat.2.1)
    (by rw [htn, h.rcvStat.2.2]; exact E.kind)
    (by rw [htdr, h.rcvFifo]; rfl) E.p5 hl1 hl32 (hun _)
    (by rw [htn, h.rcvStat.1]; exact hto) hvt hvf (Or.inr (by rcases hty with e | e <;> simp [e]))
    (by
      rw [htn, h.rcvQ, hg0]
      rcases hty with e | e <;> rw [e] <;> decide)
  rw [htn, h.rcvQ, hg0] at U
  obtain ⟨Uc, Ua, Ucl, Ul, Uo, d, Un, F, N, x⟩ := U
  -- the frame facts of the receiver's RF24 calls, in terms of `s`
  have hdrid : d.rid = s0.ridAt b := by
    have := F.rid
    simp only [] at this
    rw [this]
    show t.node.rf.rid = _
    rw [htn, ← h.rid b]; rfl
  have hFo : ∀ r, r ≠ s0.ridAt b → t'.w.radio r = s.w.radio r := by
    intro r hr
    have := F.others r (by
      show r ≠ t.node.rf.rid
      rw [htn]; show r ≠ s.ridAt b; rw [h.rid b]; exact hr)
    simp only [] at this
    rw [this]
    exact htw r
  have ht'b : t'.nodeAt b = { s.nodeAt b with rf := d, queue := (q.enqueue g0).1, frameBuf := g0 } := by
    have : t'.nodeAt b = t'.node := by rw [node_eq_nodeAt, Uc, htc]
    rw [this, Un, htn]
  have ht'at : ∀ i, i ≠ b → t'.nodeAt i = t.nodeAt i := by
    intro i hi; exact Uo i (by rw [htc]; exact hi)
  -- back to the sender
  generalize hS : t'.switchBack s.cur b = S
  have hSrf : ∀ i, (S.nodeAt i).rf = (t'.nodeAt i).rf := by intro i; rw [← hS]; exact (nodeAt_switchBack t' _ b i).1
  have hSq : ∀ i, (S.nodeAt i).queue = (t'.nodeAt i).queue := by intro i; rw [← hS]; exact (nodeAt_switchBack t' _ b i).2
  have hSst := fun i => by have := (Same.switchBack t' s.cur b).stat i; rw [hS] at this; exact this
  have hSrad : ∀ i, S.radioAt i = t'.radioAt i := by intro i; rw [← hS]; exact radioAt_switchBack t' _ b i
  have hSw : ∀ r, S.w.radio r = t'.w.radio r := by intro r; rw [← hS]; rfl
  have ht'rid : ∀ i, t'.ridAt i = s0.ridAt i := by
    intro i
    by_cases hi : i = b
    · subst hi; unfold NetState.ridAt; rw [ht'b]; exact hdrid
    · unfold NetState.ridAt
      rw [ht'at i hi]
      show t.ridAt i = _
      rw [← ht, ((Same.switchTo s b).stat i).2.2.2.2]
      exact h.rid i
  have ht'rada : t'.radioAt a = s.radioAt a := by
    unfold NetState.radioAt
    rw [ht'rid, hFo _ (E.rid a b E.ha E.hb E.hab), h.rid a]
  have ht'radb : t'.radioAt b = t'.w.radio d.rid := by
    unfold NetState.radioAt; rw [ht'rid, hdrid]
  have hFS : FragSt L Pa Pb A p a b s0 S role none last (q.enqueue g0).1 := by
    refine ⟨by rw [← hS]; exact h.cur, ?_, by rw [← hS]; show t'.closed = true; rw [Ucl]; exact htcl,
      by rw [← hS, (Same.switchBack t' s.cur b).len, Ul, htl]; exact h.len, ?_, ?_, ?_, ?_, ?_, ?_, ?_, ?_, ?_, ?_,
      ?_, ?_, ?_⟩
    · rw [← hS]; show t'.active.erase b = _; rw [Ua, hta, List.erase_cons_head]
    · rw [← hS]; show t'.w.faults = []
      have := F.faults; simp only [] at this
      rw [this, ← ht]; exact h.faults
    · rw [← hS]; show t'.w.radios.length = _
      have := F.len; simp only [] at this
      rw [this, ← ht]; exact h.rlen
    · intro i; rw [(hSst i).2.2.2.2]; exact ht'rid i
    · rw [hSrf, hSrad, ht'at a E.hab, ht'rada, ← ht, rf_switchTo]; exact h.sndN
    · rw [hSrad, ht'rada]; exact h.sndT
    · rw [hSrad, ht'rada]; exact h.sndFifo
    · rw [hSrf, hSrad, ht'b, ht'radb]; exact N
    · rw [hSrad, ht'radb, x]; rfl
    · rw [hSrad, ht'radb]
      have := F.lastRx
      rw [show (⟨d, t'.w⟩ : DrvState).radio = t'.w.radio d.rid from rfl, htdr] at this
      rw [this]; exact h.rcvLast
    · rw [hSq, ht'b]
    · rw [(hSst b).1, (hSst b).2.2.1, (hSst b).2.2.2.1, ht'b]; exact h.rcvStat
    · intro r hra hrb
      rw [hSw, hFo r hrb]; exact h.third r hra hrb
    · intro j hj
      rw [hSq, ht'at j hj, ← ht, queue_switchTo]; exact h.queues j hj
  refine ⟨S, ?_, hFS⟩
  have hnr : ∀ (X : NetState), X.cur = a → (∀ i, i < s0.nodes.length → i ≠ a → i ≠ b → (X.radioAt i).rxFifo = []) →
      ∀ k, k ≠ b → k < s0.nodes.length → ¬ X.runnable k := by
    intro X hXc hX k hkb hk hrun
    obtain ⟨h1, _, h3, _⟩ := hrun
    rw [hXc] at h1
    have h3' : (!(X.radioAt k).rxFifo.isEmpty) = true := h3
    rw [hX k hk h1 hkb] at h3'
    simp at h3'
  have := runOthers_one (g' + 4) s t' b (.ok g0.header.ty) hbl
    ⟨by rw [h.cur]; exact hba, by rw [h.active]; simp; exact hba,
     by
      show (!(s.radioAt b).rxFifo.isEmpty) = true
      rw [h.rcvFifo]; rfl,
     by
      show (s.radioAt b).rxMode = true
      exact h.rcvN.rxMode⟩
    (fun k hk => hnr s h.cur (fun i hi hia hib => h.third_fifo E i hi hia hib) k (by omega) (by have := E.hb; omega))
    (by rw [ht]; exact eu) (by rw [Ul, htl]) (by rw [h.len]; omega)
    (by
      intro k hk hkl
      rw [hS]
      rw [h.len] at hkl
      exact hnr S hFS.cur (fun i hi hia hib => hFS.third_fifo E i hi hia hib) k (by omega) hkl)
  rw [hS] at this
  exact this

end

end Nrf.Net
