/-
C13 helper lemmas, part 4 (routes of any length): the tree route from `o` to `d` read backwards.

The NETWORK_ACK the last router emits travels the route of the data frame in the opposite direction:
the node after `i + 1` hops sends it to `nextHopSpec (hops (i + 1) o d) o`, which is the node after `i`
hops (`nextHop_back_route`).  Also: the positions of a route are pairwise different (`hops_inj`).
-/
import NrfProofs.C13Live

namespace Nrf.Net.Hops
open Nrf Nrf.Spec Nrf.Proofs Nrf.Props.C04

theorem hops_add (i k : Nat) (s d : List Nat) : hops (i + k) s d = hops k (hops i s d) d := by
  induction i generalizing s with
  | zero => simp [hops]
  | succ i ih =>
    rw [show i + 1 + k = (i + k) + 1 from by omega]
    simp only [hops]
    exact ih _

/-- after `i` hops the rest of the route is `i` hops shorter -/
theorem dist_hops {s d : List Nat} {i : Nat} (hi : i ≤ dist s d) : dist (hops i s d) d + i = dist s d := by
  induction i with
  | zero => rfl
  | succ i ih =>
    have h1 := ih (by omega)
    have hne : hops i s d ≠ d := hops_ne_before (by omega)
    have h2 := dist_nextHop hne
    rw [hops_succ]
    omega

/-- the positions of a route are pairwise different -/
theorem hops_inj {s d : List Nat} {i j : Nat} (hij : i < j) (hj : j ≤ dist s d) : hops i s d ≠ hops j s d := by
  obtain ⟨k, rfl⟩ : ∃ k, j = i + k := ⟨j - i, by omega⟩
  rw [hops_add]
  have hd := dist_hops (s := s) (d := d) (i := i) (by omega)
  exact (hops_ne_origin (s := hops i s d) (d := d) (n := k) (by omega) (by omega)).symm

/-- **The route read backwards**: from the node after `i + 1` hops of the route `o → d`, the next hop
    towards `o` is the node after `i` hops. -/
theorem nextHop_back_route {o d : List Nat} {i : Nat} (hi : i < dist o d) :
    nextHopSpec (hops (i + 1) o d) o = hops i o d := by
  have h1 := lcp_length_le_left o d
  have h2 := lcp_length_le_right o d
  rw [dist_eq] at hi
  by_cases hup : i + 1 ≤ o.length - (lcp o d).length
  · -- still climbing: both positions are ancestors of `o`
    rw [hops_eq, if_pos hup, hops_eq, if_pos (by omega)]
    rw [nextHop_of_prefix (List.take_prefix _ _), List.length_take]
    congr 1
    omega
  · -- descending towards `d`
    have hy : hops (i + 1) o d = d.take ((lcp o d).length + (i - (o.length - (lcp o d).length)) + 1) := by
      rw [hops_eq, if_neg hup]
      congr 1
      omega
    have hx : hops i o d = d.take ((lcp o d).length + (i - (o.length - (lcp o d).length))) := by
      rw [hops_eq]
      split
      · rename_i hle
        have : i = o.length - (lcp o d).length := by omega
        rw [this, Nat.sub_self, Nat.add_zero, ← lcp_eq_take_right]
        have h3 : o.length - (o.length - (lcp o d).length) = (lcp o d).length := by omega
        rw [h3, ← lcp_eq_take_left]
      · rfl
    rw [hy, hx]
    generalize hm : (lcp o d).length + (i - (o.length - (lcp o d).length)) = m
    have hml : m + 1 ≤ d.length := by omega
    have hnp : ¬ d.take (m + 1) <+: o := by
      intro hp
      have := (lcp_max hp (List.take_prefix _ _)).length_le
      rw [List.length_take] at this
      omega
    rw [nextHop_of_not_prefix hnp, List.dropLast_eq_take, List.take_take, List.length_take]
    congr 1
    omega

/-- on a route of two or more hops the origin is not the last router's neighbour on the far side:
    a position `m ≥ 1` is not the origin -/
theorem hops_ne_start {o d : List Nat} {m : Nat} (h1 : 1 ≤ m) (hm : m ≤ dist o d) : hops m o d ≠ o :=
  hops_ne_origin (by omega) hm

end Nrf.Net.Hops
