/-
C10 helper lemmas: symbolic execution of the accessor methods down to SPI transactions, and the
bit-level tables they need.
-/
import NrfProofs.Traffic
import NrfModel.Spec.Link

namespace Nrf
open Rf24 Spec.Link

/-- the cached status byte equals STATUS of the radio as it is now -/
def DrvState.Fresh (s : DrvState) : Prop := s.d.status = s.rad.status

instance (s : DrvState) : Decidable s.Fresh := by unfold DrvState.Fresh; infer_instance

theorem exec_update (s : DrvState) : exec update s = (.ok true, s.spiStep [0xFF]) := by
  unfold update
  simp only [exec_bind, exec_regCmd, exec_pure]

theorem exec_flushRx (s : DrvState) : exec flushRx s = (.ok (), s.spiStep [0xE2]) := exec_regCmd _ _
theorem exec_flushTx (s : DrvState) : exec flushTx s = (.ok (), s.spiStep [0xE1]) := exec_regCmd _ _

theorem clear_mask_le (a b c : Bool) : (b2n a <<< 6 ||| b2n b <<< 5 ||| b2n c <<< 4 : Nat) ≤ 255 := by
  cases a <;> cases b <;> cases c <;> decide

/-- the byte `clear_status_flags(a, b, c)` writes to STATUS -/
def clearMask (a b c : Bool) : Nat := b2n a <<< 6 ||| b2n b <<< 5 ||| b2n c <<< 4

theorem exec_clearStatusFlags (a b c : Bool) (s : DrvState) :
    exec (clearStatusFlags a b c) s = (.ok (), s.spiStep [0x27, clearMask a b c]) := by
  unfold clearStatusFlags
  have h := clear_mask_le a b c
  rw [exec_regWrite _ _ _ (by omega) (by decide)]
  rfl

theorem exec_regReadBytes (reg n : Nat) (s : DrvState) :
    exec (regReadBytes reg n) s = (.ok ((s.rad.xfer (reg :: zeros n)).2.drop 1), s.spiStep (reg :: zeros n)) := by
  unfold regReadBytes
  simp only [exec_bind, exec_xfer, exec_pure]
  rfl

theorem exec_regRead' (reg : Nat) (s : DrvState) :
    exec (regRead reg) s = (.ok ((s.rad.xfer [reg, 0]).2.getD 1 0), s.spiStep [reg, 0]) := exec_regRead reg s

/-- what `any()` computes from the byte R_RX_PL_WID returned and the cached status -/
def anyResult (d : Rf24) (lastDyn : Nat) : Nat :=
  if rxPipeField d < 6 then (if d.features &&& 4 ≠ 0 then lastDyn else d.plLen.getD (rxPipeField d) 0) else 0

theorem exec_any (s : DrvState) :
    exec any s = (.ok (anyResult (s.spiStep [0x60, 0]).d s.rad.headLen), s.spiStep [0x60, 0]) := by
  unfold any
  simp only [exec_bind, exec_regRead', exec_getD, Radio.xfer_plWid, List.getD_cons_succ, List.getD_cons_zero]
  unfold anyResult
  split
  · split
    · simp only [exec_pure]
    · simp only [exec_pure]
  · simp only [exec_pure]

/-- `read()` when `any()` reports 0 -/
theorem exec_read_zero (s : DrvState) (h : anyResult (s.spiStep [0x60, 0]).d s.rad.headLen = 0) :
    exec (Rf24.read none) s = (.ok none, s.spiStep [0x60, 0]) := by
  unfold Rf24.read
  simp only [exec_bind, exec_any, h, ↓reduceIte, exec_pure]

/-- `read()` when `any()` reports `n > 0`: three transactions -/
theorem exec_read_pos (s : DrvState) (n : Nat) (h : anyResult (s.spiStep [0x60, 0]).d s.rad.headLen = n) (hn : n ≠ 0) :
    exec (Rf24.read none) s =
      (.ok (some (((s.spiStep [0x60, 0]).rad.xfer (0x61 :: zeros n)).2.drop 1)),
       (((s.spiStep [0x60, 0]).spiStep (0x61 :: zeros n)).spiStep [0x27, clearMask true false false])) := by
  unfold Rf24.read
  simp only [exec_bind, exec_any, h, hn, ↓reduceIte, exec_pure, exec_regReadBytes, exec_clearStatusFlags]

/-- `fifo()` decodes FIFO_STATUS -/
def fifoDecode (f : Nat) (aboutTx : Bool) (ce : Option Bool) : Nat :=
  match ce with
  | none => (f &&& (if aboutTx then 0x30 else 0x03)) >>> (4 * b2n aboutTx)
  | some c => b2n (f &&& ((2 - b2n c) <<< (4 * b2n aboutTx)) ≠ 0)

def fifoByte (tl rl : Nat) : Nat :=
  (if tl ≥ 3 then 0x20 else 0) ||| (if tl = 0 then 0x10 else 0) ||| (if rl ≥ 3 then 0x02 else 0) ||| (if rl = 0 then 0x01 else 0)

theorem fifo_tbl0 : ∀ (tl rl : Fin 5) (aboutTx : Bool) (c : Bool),
    fifoDecode (fifoByte tl.val rl.val) aboutTx none = fifoAnswer (if aboutTx then tl.val else rl.val) none ∧
    fifoDecode (fifoByte tl.val rl.val) aboutTx (some c) = fifoAnswer (if aboutTx then tl.val else rl.val) (some c) := by
  decide +kernel

theorem fifo_tbl (tl rl : Fin 5) (aboutTx : Bool) (ce : Option Bool) :
    fifoDecode (fifoByte tl.val rl.val) aboutTx ce = fifoAnswer (if aboutTx then tl.val else rl.val) ce := by
  cases ce with
  | none => exact (fifo_tbl0 tl rl aboutTx true).1
  | some c => exact (fifo_tbl0 tl rl aboutTx c).2

theorem fifoStatus_eq (r : Radio) : r.fifoStatus = fifoByte r.txFifo.length r.rxFifo.length := by
  unfold Radio.fifoStatus Radio.txFull fifoByte
  simp only [List.isEmpty_iff, List.length_eq_zero_iff, decide_eq_true_eq]

theorem fifoByte_min (tl rl : Nat) : fifoByte (min tl 4) (min rl 4) = fifoByte tl rl := by
  unfold fifoByte
  have e1 : (min tl 4 ≥ 3) = (tl ≥ 3) := by apply propext; omega
  have e2 : (min tl 4 = 0) = (tl = 0) := by apply propext; omega
  have e3 : (min rl 4 ≥ 3) = (rl ≥ 3) := by apply propext; omega
  have e4 : (min rl 4 = 0) = (rl = 0) := by apply propext; omega
  simp only [e1, e2, e3, e4]

theorem fifoAnswer_min (n : Nat) (ce : Option Bool) : fifoAnswer (min n 4) ce = fifoAnswer n ce := by
  unfold fifoAnswer
  cases ce with
  | none => simp only; repeat' split
            all_goals omega
  | some c => cases c <;> simp only <;> repeat' split
              all_goals omega

theorem exec_fifo (aboutTx : Bool) (ce : Option Bool) (s : DrvState) :
    exec (fifo aboutTx ce) s = (.ok (fifoAnswer (fifoOf s.rad aboutTx) ce), s.spiStep [0x17, 0]) := by
  have hd : exec (fifo aboutTx ce) s = (.ok (fifoDecode s.rad.fifoStatus aboutTx ce), s.spiStep [0x17, 0]) := by
    unfold fifo
    simp only [exec_bind, exec_regRead', Radio.xfer_rreg _ 0x17 (by decide), List.getD_cons_succ, List.getD_cons_zero]
    have hr : (s.rad.readReg 0x17).headD 0 = s.rad.fifoStatus := rfl
    rw [hr]
    unfold fifoDecode
    cases ce <;> simp only [exec_pure]
  rw [hd, fifoStatus_eq, ← fifoByte_min]
  have ht := fifo_tbl ⟨min s.rad.txFifo.length 4, by omega⟩ ⟨min s.rad.rxFifo.length 4, by omega⟩ aboutTx ce
  simp only at ht
  rw [ht]
  have hans : fifoAnswer (if aboutTx = true then min s.rad.txFifo.length 4 else min s.rad.rxFifo.length 4) ce
      = fifoAnswer (fifoOf s.rad aboutTx) ce := by
    unfold fifoOf
    cases aboutTx <;> simp only [Bool.false_eq_true, ↓reduceIte] <;> exact fifoAnswer_min _ _
  rw [hans]

theorem exec_lastTxArc (s : DrvState) :
    exec lastTxArc s = (.ok (s.rad.observeTx &&& 0x0F), s.spiStep [8, 0]) := by
  unfold lastTxArc
  simp only [exec_bind, exec_regRead', Radio.xfer_rreg _ 8 (by decide), List.getD_cons_succ, List.getD_cons_zero, exec_pure]
  rfl

theorem observeTx_arc (r : Radio) (h : r.arcCnt ≤ 15) : r.observeTx &&& 0x0F = r.arcCnt := by
  unfold Radio.observeTx
  have hp : min r.plosCnt 15 < 16 := by omega
  have := (by decide +kernel : ∀ (p a : Fin 16), ((p.val <<< 4) ||| (a.val &&& 0x0F)) &&& 0x0F = a.val)
    ⟨min r.plosCnt 15, hp⟩ ⟨r.arcCnt, by omega⟩
  exact this

/-- CONFIG after `interrupt_config(a, b, c)` on a radio whose CONFIG was `v` -/
def irqConfig (v : Nat) (a b c : Bool) : Nat :=
  (v &&& 0x0F) ||| (b2n (!a) <<< 6) ||| (b2n (!c) <<< 4) ||| (b2n (!b) <<< 5)

theorem irqConfig_tbl : ∀ (v : Fin 16) (a b c : Bool),
    let x := (v.val ||| (b2n (!a) <<< 6) ||| (b2n (!c) <<< 4) ||| (b2n (!b) <<< 5))
    x ≤ 127 ∧ x &&& 0x7F = x ∧ x &&& 0x0F = v.val ∧
    x &&& 0x70 = (b2n (!a) <<< 6) ||| (b2n (!b) <<< 5) ||| (b2n (!c) <<< 4) ∧ x &&& 1 = v.val &&& 1 ∧
    x &&& 2 = v.val &&& 2 := by
  decide +kernel

theorem irqConfig_facts (v : Nat) (a b c : Bool) :
    irqConfig v a b c ≤ 127 ∧ irqConfig v a b c &&& 0x7F = irqConfig v a b c ∧
    irqConfig v a b c &&& 0x0F = v &&& 0x0F ∧
    irqConfig v a b c &&& 0x70 = (b2n (!a) <<< 6) ||| (b2n (!b) <<< 5) ||| (b2n (!c) <<< 4) ∧
    irqConfig v a b c &&& 1 = v &&& 1 ∧ irqConfig v a b c &&& 2 = v &&& 2 := by
  have hv : v &&& 0x0F < 16 := by
    have := and_mask_mod v 0x0F 4 (by decide)
    have h2 : v % 2 ^ 4 &&& 0x0F ≤ 0x0F := Nat.and_le_right
    omega
  have := irqConfig_tbl ⟨v &&& 0x0F, hv⟩ a b c
  simp only at this
  have e1 : v &&& 0x0F &&& 1 = v &&& 1 := by rw [Nat.and_assoc]; rfl
  have e2 : v &&& 0x0F &&& 2 = v &&& 2 := by rw [Nat.and_assoc]; rfl
  rw [e1, e2] at this
  exact this

/-- the IRQ pin for every flag byte and every mask choice -/
theorem irqLine_tbl : ∀ (f : Fin 128) (a b c : Bool),
    (decide ((f.val &&& 0x70) &&& (((b2n (!a) <<< 6) ||| (b2n (!b) <<< 5) ||| (b2n (!c) <<< 4)) ^^^ 0x70) ≠ 0))
    = ((a && decide (f.val &&& 0x40 ≠ 0)) || (b && decide (f.val &&& 0x20 ≠ 0)) || (c && decide (f.val &&& 0x10 ≠ 0))) := by
  decide +kernel

theorem exec_interruptConfig (a b c : Bool) (s : DrvState) :
    exec (interruptConfig a b c) s =
      (.ok (), (((s.spiStep [0, 0]).modShadow fun d => { d with config := irqConfig s.rad.config a b c }).spiStep
                [0x20, irqConfig s.rad.config a b c])) := by
  unfold interruptConfig
  have hle := (irqConfig_facts s.rad.config a b c).1
  simp only [CONFIGURE, exec_bind, exec_regRead', Radio.xfer_rreg _ 0 (by decide), List.getD_cons_succ, List.getD_cons_zero,
    exec_modD', exec_getD, modShadow_d]
  have hr : (s.rad.readReg 0).headD 0 = s.rad.config := rfl
  rw [hr]
  have hcfg : (((s.rad.config &&& 0x0F) ||| (b2n (!a) <<< 6)) ||| (b2n (!c) <<< 4) ||| (b2n (!b) <<< 5))
      = irqConfig s.rad.config a b c := rfl
  rw [exec_regWrite _ _ _ (by simp only [hcfg]; omega) (by decide)]
  simp only [hcfg]
  rfl

end Nrf
