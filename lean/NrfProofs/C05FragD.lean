/-
C05 helper lemmas, part 9 (fragmented messages end to end, closed system), D:

* `hop_frag` / `nodeWrite_frag` — `_write_to_pipe` / `_write(to, TX_NORMAL)` of a message longer than 24
  bytes to a direct neighbour, in terms of the link invariant `FragSt` (NrfProofs/C05FragB.lean);
* `fragTr` — the fragment plan of a message together with the frames the receiver unpacks (`rxFrag`,
  NrfProofs/C05Reasm.lean), and `fragTr_ok`: it is a plan as `sendFrags_closed` wants it — in particular
  **consecutive fragments differ** (type / countdown byte of the header), which is what keeps the radio's
  duplicate filter (`Radio.receive`: same PID, address and bytes as the last accepted packet) silent
  whatever the PIDs are.
-/
import NrfProofs.C05FragC

namespace Nrf.Net
open Nrf Nrf.Spec Nrf.Proofs

section
variable {L : LinkCfg} {Pa Pb : List Bytes} {A : Bytes} {p a b : Nat} {s0 s : NetState} {q : NetQueue}
  {role : Role} {pend last : Option Bytes}

/-- the sender's radio object / radio as the driver contracts want them -/
theorem FragSt.drvN (h : FragSt L Pa Pb A p a b s0 s role pend last q) :
    NodeRadio L Pa role.1 role.2.1 role.2.2 s.drv.d s.drv.radio := by
  rw [h.drv_radio]
  show NodeRadio L Pa _ _ _ s.node.rf _
  rw [h.node_a]; exact h.sndN

/-- **`_write_to_pipe` of a fragmented message to a listening neighbour**, closed quiet network, loss-free:
    auto-ack on pipe 0, stop listening, transmit address `A`, then the fragment loop (`sendFrags_closed`),
    after which `frame_buf` shows the message's own type again; `True`.  `last` = the bytes of the packet the
    neighbour's radio accepted last (if any): not the payload of the first fragment (`hfirst`). -/
theorem hop_frag (hc : L3Contracts) (E : FragEnv L Pb A p a b s0)
    (h : FragSt L Pa Pb A p a b s0 s (true, true, 0x3E) none last q)
    (f tn tp : Nat) (tr : List (Header × Bytes × Frame))
    (hfirst : ∀ t, tr.head? = some t → last ≠ some t.2.1)
    (haddr : pipeAddress s.node.cfg tn tp = .ok A) (hnl : tn ≠ s.node.a.addr)
    (hlong : ¬ s.node.frameBuf.message.length ≤ MAX_FRAG_SIZE)
    (hplan : fragPlan s.node.frameBuf.message (fragTotal s.node.frameBuf.message.length) s.node.frameBuf.header.ty
        (fragTotal s.node.frameBuf.message.length) s.node.frameBuf.header = tr.map (fun t => (t.1, t.2.1)))
    (htr : tr ≠ []) (hok : PlanOk (s0.nodeAt b).a.addr none tr)
    (hfuel : s0.nodes.length + b + 10 + tr.length ≤ f) :
    ∃ s' x, tr.getLast? = some x ∧ nexec (nodeWriteToPipe (f + 1) tn tp false) s = (.ok true, s') ∧
      FragSt L Pa Pb A p a b s0 s' (false, true, 0x3F) (some x.2.1) (some x.2.1)
        (feed q (tr.map (·.2.2)).dropLast) := by
  have hcur := h.hcur E
  have hWf := h.wf E
  have hNa := h.drvN
  -- 1. auto-ack on pipe 0   2. stop listening   3. transmit address
  obtain ⟨D1, e1, F1, N1, x1, _, _⟩ := hc.setAA s.drv L Pa true true 0x3E 0x3F hWf hNa (Or.inr rfl)
  obtain ⟨D2, e2, F2, N2, x2⟩ := hc.listenOff D1 L Pa true true 0x3F (F1.wf hWf) N1
  have hAlen : A.length = 5 := by
    obtain ⟨_, _, _, _, _, _, _, _, _, _, _, _, _, _, _, _, _, _, _, _, _, hPl, _⟩ := h.rcvN
    exact hPl A (List.mem_of_getElem? E.pA)
  obtain ⟨D3, e3, F3, N3, x3, a3, t3⟩ := hc.openTx D2 L Pa false A ((F1.trans F2).wf hWf) N2 hAlen
  have F03 : DrvFrame s.drv D3 := (F1.trans F2).trans F3
  have h3 := h.afterRf E D3 (false, false, 0x3F) F03 N3 (by rw [x3, x2, x1]) (fun _ => ⟨t3, a3⟩)
  -- the fragment loop
  have hn3 : (s.afterRf D3).node = { s.node with rf := D3.d } := afterRf_node s D3 hcur
  obtain ⟨s4, x, hx, e4, h4⟩ := sendFrags_closed hc E tr f (s.afterRf D3) false none last q htr h3
    (fun _ hx => nomatch hx) (fun _ => hfirst) (fun _ hx => nomatch hx) hok hfuel
  have h5 := h4.setNode E (fun n => { n with frameBuf := { n.frameBuf with header := n.frameBuf.header.setTy s.node.frameBuf.header.ty } }) (fun _ => ⟨rfl, rfl⟩)
  refine ⟨_, x, hx, ?_, by simpa using h5⟩
  -- the computation
  rw [nodeWriteToPipe.eq_2, nexec_bind, nexec_getNode]
  have hno : ¬ (tn = s.node.a.addr ∧ (!false) = true) := fun hh => hnl hh.1
  simp only [if_neg hno, Bool.false_eq_true, if_false]
  have e63 : (62 + 1 : Int) = ((63 : Nat) : Int) := by decide
  rw [e63, nexec_bind, nexec_liftRf_ok _ s _ D1 e1]
  simp only []
  rw [nexec_bind, nexec_liftRf_ok _ _ _ D2 (by rw [afterRf_drv s D1 hcur]; exact e2), afterRf_afterRf]
  simp only []
  have hpa : nexec (pipeAddr tn tp) (s.afterRf D2) = (.ok A, s.afterRf D2) := by
    unfold Nrf.Net.pipeAddr
    rw [nexec_bind, nexec_getNode]
    simp only []
    rw [afterRf_node s D2 hcur]
    simp only []
    rw [haddr, nexec_liftPy_ok]
  rw [nexec_bind, hpa]
  simp only []
  rw [nexec_bind, nexec_liftRf_ok _ _ _ D3 (by rw [afterRf_drv s D2 hcur]; exact e3), afterRf_afterRf]
  simp only []
  rw [nexec_bind, nexec_getNode]
  simp only []
  rw [hn3]
  simp only [if_neg hlong]
  rw [nexec_bind, nodeFragLoop_plan f _ _ _ (s.afterRf D3) (by simp; rw [h.cur, h.active]; simp)
    (by simpa using hcur), hn3]
  have htot : ((if s.node.frameBuf.message.length % MAX_FRAG_SIZE ≠ 0 then 1 else 0) +
      s.node.frameBuf.message.length / MAX_FRAG_SIZE) = fragTotal s.node.frameBuf.message.length := rfl
  simp only [htot, hplan, e4]
  rw [nexec_bind, nexec_setHdr]
  rfl

/-- **`_write(to, TX_NORMAL)` of a fragmented message to a direct neighbour**: the hop (`hop_frag`), no
    NETWORK_ACK business whatever the type, listening restored, `True`; the last fragment waits in the
    neighbour's RX FIFO, all the others are in its reassembly cache. -/
theorem nodeWrite_frag (hc : L3Contracts) (E : FragEnv L Pb A p a b s0)
    (h : FragSt L Pa Pb A p a b s0 s (true, true, 0x3E) none last q)
    (f wd tp t : Nat) (tr : List (Header × Bytes × Frame))
    (hfirst : ∀ t, tr.head? = some t → last ≠ some t.2.1)
    (haddr : pipeAddress s.node.cfg wd tp = .ok A) (hnl : wd ≠ s.node.a.addr)
    (hlong : ¬ s.node.frameBuf.message.length ≤ MAX_FRAG_SIZE)
    (hplan : fragPlan s.node.frameBuf.message (fragTotal s.node.frameBuf.message.length) s.node.frameBuf.header.ty
        (fragTotal s.node.frameBuf.message.length) s.node.frameBuf.header = tr.map (fun t => (t.1, t.2.1)))
    (htr : tr ≠ []) (hok : PlanOk (s0.nodeAt b).a.addr none tr)
    (ht : s.node.frameBuf.header.msgType = .int t)
    (hl2p : logi2phys s.node.a wd TX_NORMAL = (wd, tp, false))
    (hfuel : s0.nodes.length + b + 10 + tr.length ≤ f) :
    ∃ s' x, tr.getLast? = some x ∧ nexec (nodeWrite (f + 2) wd TX_NORMAL) s = (.ok true, s') ∧
      FragSt L Pa Pb A p a b s0 s' (true, true, 0x3E) (some x.2.1) (some x.2.1)
        (feed q (tr.map (·.2.2)).dropLast) := by
  obtain ⟨s1, x, hx, e1, h1⟩ := hop_frag hc E h f wd tp tr hfirst haddr hnl hlong hplan htr hok hfuel
  -- listen again, auto-ack as for reception
  obtain ⟨D2, e2, F2, N2, x2⟩ := hc.listenOn s1.drv L Pa true 0x3F (h1.wf E) h1.drvN
  have h2 := h1.afterRf E D2 (true, true, 0x3F) F2 N2 x2 (fun e => nomatch e)
  have hc2 : (s1.afterRf D2).cur < (s1.afterRf D2).nodes.length := h2.hcur E
  obtain ⟨D3, e3, F3, N3, x3, _, _⟩ := hc.setAA (s1.afterRf D2).drv L Pa true true 0x3F 0x3E (h2.wf E) h2.drvN
    (Or.inl rfl)
  have h3 := h2.afterRf E D3 (true, true, 0x3E) F3 N3 x3 (fun e => nomatch e)
  refine ⟨_, x, hx, ?_, h3⟩
  rw [show f + 2 = (f + 1) + 1 from rfl, nodeWrite_step_raw (f + 1) wd TX_NORMAL s t ht, hl2p]
  have hpre : writePrelude s t wd TX_NORMAL = s := by
    unfold writePrelude
    rw [if_neg]
    rintro ⟨hh, _⟩
    exact absurd hh (by decide)
  simp only [hpre, e1, if_true]
  have e01 : (TX_NORMAL = TX_ROUTED) = False := eq_false (by decide)
  simp only [e01, false_and, if_false, ne_eq, not_true_eq_false, ite_self]
  unfold ackCont
  simp only [Bool.not_false, if_true]
  rw [nexec_bind, nexec_liftRf_ok _ s1 _ D2 e2]
  simp only []
  have e62 : (0x3E : Int) = ((0x3E : Nat) : Int) := by decide
  rw [nexec_bind, e62, nexec_liftRf_ok _ _ _ D3 e3]
  rfl

end

/-! ### the plan of a message, with the frames the receiver sees -/

/-- one step of the sender's fragment loop, seen from the receiver: for a header from `a` to `b` with id
    `i`, fragment `k` of `n` has an integer type and a countdown that fit a byte, and its header and slice
    are exactly the frame `rxFrag … k` -/
theorem fragStep_rx (a b i msgT n : Nat) (msg : Bytes) (hn2 : 2 ≤ n) (hn : n < 256) (hm : msgT < 256)
    (hlen : msg.length ≤ 24 * n) (k : Nat) (hk : k < n) (h : Header)
    (hfa : h.fromNode = a) (hfb : h.toNode = b) (hfi : h.frameId = i) :
    ∃ T R E, fragStep msg n msgT k h = (⟨a, b, i, .int T, R⟩, E) ∧ T < 256 ∧ R < 256 ∧
      (⟨⟨a, b, i, .int T, R⟩, pySlice msg (k * MAX_FRAG_SIZE) E⟩ : Frame) = rxFrag a b i msgT n msg k := by
  unfold fragStep rxFrag MAX_FRAG_SIZE
  by_cases hl : k = n - 1
  · have hl' : k + 1 = n := by omega
    refine ⟨MSG_FRAG_LAST, msgT, msg.length, ?_, by decide, hm, ?_⟩
    · rw [if_pos hl]; cases h; simp_all
    · rw [if_pos hl']
      congr 1
      have := Nrf.Proofs.pySlice_last msg k (by omega)
      rw [this, List.take_of_length_le (by simp; omega)]
  · have hl' : ¬ (k + 1 = n) := by omega
    by_cases h0 : k = 0
    · refine ⟨MSG_FRAG_FIRST, n - k, k * 24 + 24, ?_, by decide, by omega, ?_⟩
      · rw [if_neg hl, if_pos h0]; cases h; simp_all
      · rw [if_neg hl', if_pos h0, h0]
        simp [pySlice]
    · refine ⟨MSG_FRAG_MORE, n - k, k * 24 + 24, ?_, by decide, by omega, ?_⟩
      · rw [if_neg hl, if_neg h0]; cases h; simp_all
      · rw [if_neg hl', if_neg h0, Nrf.Proofs.pySlice_frag]

/-- a fragment carries at most 24 message bytes -/
theorem rxFrag_len (a b i msgT n : Nat) (msg : Bytes) (hlen : msg.length ≤ 24 * n) (k : Nat) (_hk : k < n) :
    (rxFrag a b i msgT n msg k).message.length ≤ 24 := by
  unfold rxFrag
  split
  · simp only [List.length_drop]; omega
  · split <;> simp only [List.length_take] <;> omega

theorem rxFrag_to (a b i msgT n : Nat) (msg : Bytes) (k : Nat) :
    (rxFrag a b i msgT n msg k).header.toNode = b ∧ (rxFrag a b i msgT n msg k).header.fromNode = a := by
  unfold rxFrag
  split
  · exact ⟨rfl, rfl⟩
  · split <;> exact ⟨rfl, rfl⟩

/-- every fragment but the last is a FIRST or a MORE fragment; the last is a LAST fragment -/
theorem rxFrag_ty (a b i msgT n : Nat) (msg : Bytes) (k : Nat) :
    (k + 1 ≠ n → (rxFrag a b i msgT n msg k).header.ty = MSG_FRAG_FIRST ∨
      (rxFrag a b i msgT n msg k).header.ty = MSG_FRAG_MORE) ∧
    (k + 1 = n → (rxFrag a b i msgT n msg k).header.ty = MSG_FRAG_LAST) := by
  unfold rxFrag
  constructor
  · intro hk
    rw [if_neg hk]
    split
    · exact Or.inl rfl
    · exact Or.inr rfl
  · intro hk
    rw [if_pos hk]; rfl

/-- **Consecutive fragments of a message differ**: FIRST / MORE / LAST in the type byte, and two MORE
    fragments in the countdown `reserved` -/
theorem rxFrag_succ_ne (a b i msgT n : Nat) (msg : Bytes) (k : Nat) (hk : k + 1 < n) :
    rxFrag a b i msgT n msg k ≠ rxFrag a b i msgT n msg (k + 1) := by
  intro e
  have e1 := congrArg (fun f : Frame => f.header.ty) e
  have e2 := congrArg (fun f : Frame => f.header.reserved) e
  unfold rxFrag at e1 e2
  have h1 : ¬ (k + 1 = n) := by omega
  have h3 : ¬ (k + 1 = 0) := by omega
  simp only [if_neg h1, if_neg h3] at e1 e2
  by_cases h2 : k + 1 + 1 = n
  · simp only [if_pos h2] at e1
    by_cases h0 : k = 0
    · simp only [if_pos h0] at e1
      have : MSG_FRAG_FIRST = MSG_FRAG_LAST := e1
      exact absurd this (by decide)
    · simp only [if_neg h0] at e1
      have : MSG_FRAG_MORE = MSG_FRAG_LAST := e1
      exact absurd this (by decide)
  · simp only [if_neg h2] at e1 e2
    by_cases h0 : k = 0
    · simp only [if_pos h0] at e1
      have : MSG_FRAG_FIRST = MSG_FRAG_MORE := e1
      exact absurd this (by decide)
    · simp only [if_neg h0] at e2
      have : n - k = n - (k + 1) := e2
      omega

/-- the last `m` fragments of the plan of `(a, b, i, msgT, msg)` in `n` fragments: header, payload, and the
    frame the receiver unpacks -/
def fragTr (a b i msgT n : Nat) (msg : Bytes) : Nat → Header → List (Header × Bytes × Frame)
  | 0, _ => []
  | m + 1, h =>
    let st := fragStep msg n msgT (n - (m + 1)) h
    (st.1, hdrBytes st.1 ++ pySlice msg ((n - (m + 1)) * MAX_FRAG_SIZE) st.2, rxFrag a b i msgT n msg (n - (m + 1)))
      :: fragTr a b i msgT n msg m st.1

theorem fragTr_plan (a b i msgT n : Nat) (msg : Bytes) : ∀ (m : Nat) (h : Header),
    (fragTr a b i msgT n msg m h).map (fun t => (t.1, t.2.1)) = fragPlan msg n msgT m h := by
  intro m
  induction m with
  | zero => intro h; rfl
  | succ m ih => intro h; simp only [fragTr, fragPlan, List.map_cons, ih]

theorem fragTr_length (a b i msgT n : Nat) (msg : Bytes) : ∀ (m : Nat) (h : Header),
    (fragTr a b i msgT n msg m h).length = m := by
  intro m
  induction m with
  | zero => intro h; rfl
  | succ m ih => intro h; simp only [fragTr, List.length_cons, ih]

/-- the payload of the first entry of the plan is the packed frame `rxFrag … (n - m)` -/
theorem fragTr_head_pack (a b i msgT n : Nat) (msg : Bytes) (hn2 : 2 ≤ n) (hn : n < 256) (hm : msgT < 256)
    (hlen : msg.length ≤ 24 * n) (m : Nat) (h : Header) (hmn : m ≤ n)
    (hfa : h.fromNode = a) (hfb : h.toNode = b) (hfi : h.frameId = i) (t : Header × Bytes × Frame)
    (ht : (fragTr a b i msgT n msg m h).head? = some t) :
    (rxFrag a b i msgT n msg (n - m)).pack = .ok t.2.1 := by
  cases m with
  | zero => cases ht
  | succ m =>
    have hk : n - (m + 1) < n := by omega
    obtain ⟨T, R, E, hst, _, _, hfr⟩ := fragStep_rx a b i msgT n msg hn2 hn hm hlen (n - (m + 1)) hk h hfa hfb hfi
    unfold fragTr at ht
    simp only [hst, List.head?_cons, Option.some.injEq] at ht
    rw [← ht, ← hfr]
    unfold Frame.pack
    rw [pack_int _ T rfl]; rfl

theorem fragTr_frames (a b i msgT n : Nat) (msg : Bytes) : ∀ (m : Nat) (h : Header), m ≤ n →
    (fragTr a b i msgT n msg m h).map (·.2.2) = (List.range' (n - m) m).map (rxFrag a b i msgT n msg) := by
  intro m
  induction m with
  | zero => intro h _; rfl
  | succ m ih =>
    intro h hm
    simp only [fragTr, List.map_cons, ih _ (by omega : m ≤ n), List.range'_succ]
    rw [show n - (m + 1) + 1 = n - m from by omega]

/-- **The plan of a message is a plan as the closed-system loop wants it.** -/
theorem fragTr_ok (a b i msgT n : Nat) (msg : Bytes) (ha : a < 4096) (hb : b < 4096) (hi : i < 65536)
    (hn2 : 2 ≤ n) (hn : n < 256) (hm : msgT < 256) (hlen : msg.length ≤ 24 * n)
    (hva : isValid a = true) (hvb : isValid b = true) :
    ∀ (m : Nat) (h : Header) (pv : Option Frame), m ≤ n → h.fromNode = a → h.toNode = b → h.frameId = i →
      (m ≠ 0 → pv ≠ some (rxFrag a b i msgT n msg (n - m))) → PlanOk b pv (fragTr a b i msgT n msg m h) := by
  intro m
  induction m with
  | zero => intro h pv _ _ _ _ _; exact True.intro
  | succ m ih =>
    intro h pv hmn hfa hfb hfi hpv
    have hk : n - (m + 1) < n := by omega
    obtain ⟨T, R, E, hst, hT, hR, hfr⟩ := fragStep_rx a b i msgT n msg hn2 hn hm hlen (n - (m + 1)) hk h hfa hfb hfi
    unfold fragTr
    simp only [hst]
    have hmsg : pySlice msg ((n - (m + 1)) * MAX_FRAG_SIZE) E = (rxFrag a b i msgT n msg (n - (m + 1))).message := by
      rw [← hfr]
    have hpk : (⟨⟨a, b, i, .int T, R⟩, pySlice msg ((n - (m + 1)) * MAX_FRAG_SIZE) E⟩ : Frame).pack =
        .ok (hdrBytes ⟨a, b, i, .int T, R⟩ ++ pySlice msg ((n - (m + 1)) * MAX_FRAG_SIZE) E) := by
      unfold Frame.pack
      rw [pack_int _ T rfl]; rfl
    have hl := pack_length hpk
    simp only [] at hl
    have hl24 := rxFrag_len a b i msgT n msg hlen (n - (m + 1)) hk
    rw [← hmsg] at hl24
    refine ⟨hpv (Nat.succ_ne_zero m), ⟨by omega, by omega, ?_, (rxFrag_to a b i msgT n msg _).1, ?_, ?_⟩, ?_, ?_⟩
    · intro f0
      have hun := unpack_of_pack _ f0 T rfl _ hpk
      rw [wireCopy_id a b i T R _ ha hb hi hT hR, hfr] at hun
      exact hun
    · rw [(rxFrag_to a b i msgT n msg _).1]; exact hvb
    · rw [(rxFrag_to a b i msgT n msg _).2]; exact hva
    · intro hrest
      have hm0 : m ≠ 0 := by
        intro e; subst e; exact hrest rfl
      exact (rxFrag_ty a b i msgT n msg (n - (m + 1))).1 (by omega)
    · refine ih _ _ (by omega) rfl rfl rfl ?_
      intro hm0
      have : n - m = n - (m + 1) + 1 := by omega
      rw [this]
      intro e
      exact rxFrag_succ_ne a b i msgT n msg (n - (m + 1)) (by omega) (Option.some.inj e)

end Nrf.Net
