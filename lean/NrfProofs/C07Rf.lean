/-
C07 / C15 — what the configuring `RF24` methods used by the network layer do to the shadow
attributes and to the configuration registers: `listen = …`, `auto_ack = …`, `open_tx_pipe`,
`open_rx_pipe`, `set_auto_retries`.  Every lemma is total (the method returns normally under the
stated range hypotheses) and valid in any world.
-/
import NrfProofs.C07At

namespace Nrf
open Rf24 Nrf.Net

/-! ### equivalent, smaller-grained forms of the methods (definitional) -/

namespace Rf24

/-- the tail of the `listen` setter: wait until 150 µs have passed since `start` -/
def settle (start : Nat) : DrvM Unit := do
  let delta := (← nowNs) - start
  if delta < 150000 then sleepNs (150000 - delta)

/-- `listen = True` after CONFIG was written -/
def listenOn (start : Nat) : DrvM Unit := do
  setCE true
  let d ← getD
  let a0 ← address 0
  match d.pipe0ReadAddr with
  | some ra =>
    if ra ≠ a0 then do
      assignPrefix 0 ra
      regWriteBytes RX_ADDR_P0 ra
      settle start
    else settle start
  | none =>
    if d.openPipes &&& 1 ≠ 0 then do
      modD fun d => { d with openPipes := d.openPipes &&& 0x3E }
      regWrite OPEN_PIPES (← getD).openPipes
      settle start
    else settle start

/-- the part of `listen = False` after the optional `flush_tx()` -/
def listenOffTail (start : Nat) : DrvM Unit := do
  let d ← getD
  if d.aa &&& 1 ≠ 0 ∧ d.openPipes &&& 1 = 0 then do
    modD fun d => { d with openPipes := d.openPipes ||| 1 }
    regWrite OPEN_PIPES (← getD).openPipes
    settle start
  else settle start

/-- `listen = False` after CONFIG was written -/
def listenOff (start : Nat) : DrvM Unit := do
  let d ← getD
  if d.features &&& 6 = 6 ∧ (d.aa &&& d.dynPl) &&& 1 ≠ 0 then do
    flushTx
    listenOffTail start
  else listenOffTail start

theorem setListen_eq (isRx : Bool) : setListen isRx = (do
    setCE false
    modD fun d => { d with config := d.config &&& 0xFC ||| (2 + b2n isRx) }
    regWrite CONFIGURE (← getD).config
    let start ← nowNs
    if isRx then listenOn start else listenOff start) := rfl

/-- the tail of `open_tx_pipe`: the TX address itself -/
def openTxTail (addr : Bytes) : DrvM Unit := do
  let d ← getD
  match overwritePrefix d.txAddress addr with
  | .ok b => modD fun d => { d with txAddress := b }
  | .error e =>
    modD fun d => { d with txAddress := addr.take d.txAddress.length }
    raise e
  regWriteBytes TX_ADDRESS addr

theorem openTxPipe_eq (addr : Bytes) : openTxPipe addr = (do
    let d ← getD
    if d.aa &&& 1 ≠ 0 then do
      assignPrefix 0 addr
      regWriteBytes RX_ADDR_P0 addr
      let d ← getD
      if d.config &&& 1 = 0 ∧ d.openPipes &&& 1 = 0 then do
        modD fun d => { d with openPipes := d.openPipes ||| 1 }
        regWrite OPEN_PIPES (← getD).openPipes
        openTxTail addr
      else openTxTail addr
    else openTxTail addr) := rfl

/-- the tail of `open_rx_pipe`: enabling the pipe -/
def openRxTail (p : Nat) : DrvM Unit := do
  let v ← regRead OPEN_PIPES
  modD fun d => { d with openPipes := v ||| (1 <<< p) }
  regWrite OPEN_PIPES (← getD).openPipes

end Rf24

/-! ### steps -/

section
variable {E : PyErr → DrvState → Prop} {s0 s : DrvState} {d : Rf24} {c : Radio}

theorem at_settle (h : At s0 s d c) (start : Nat) {Q : Unit → DrvState → Prop}
    (hQ : ∀ s', At s0 s' d c → Q () s') : dwp E (settle start) Q s := by
  unfold settle
  wb
  apply at_nowNs h
  intro t
  simp only [dwp_ite, dwp_pure]
  split
  · exact at_sleepNs h _ hQ
  · exact hQ _ h

theorem setPipes_withStatus (x : Rf24) (i : Nat) (b : Bytes) (st : Nat) :
    setPipes (x.withStatus st) i b = (setPipes x i b).withStatus st := by
  unfold setPipes; split <;> rfl

theorem setPipes_rid (x : Rf24) (i : Nat) (b : Bytes) : (setPipes x i b).rid = x.rid := by
  unfold setPipes; split <;> rfl

theorem getPipes_withStatus (x : Rf24) (i st : Nat) : getPipes (x.withStatus st) i = getPipes x i := by
  unfold getPipes; split <;> rfl

theorem at_assignPrefix (h : At s0 s d c) (i : Nat) (addr : Bytes)
    (hlen : addr.length ≤ (getPipes d i).length) {Q : Unit → DrvState → Prop} (d' : Rf24)
    (hd' : setPipes d i (addr ++ (getPipes d i).drop addr.length) = d')
    (hQ : ∀ s', At s0 s' d' c → Q () s') :
    dwp E (assignPrefix i addr) Q s := by
  unfold assignPrefix
  wb
  apply at_getD h
  intro st
  have : ¬ addr.length > (getPipes d i).length := by omega
  simp only [overwritePrefix, getPipes_withStatus, this, ↓reduceIte]
  exact at_modD h d' hd' hQ (fun x st => setPipes_withStatus x i _ st) (fun x => setPipes_rid x i _)

end

/-! ### `listen = False` -/

/-- does `listen = False` have to open pipe 0 (for the acknowledgements) -/
def offOpens (d : Rf24) : Prop := d.aa &&& 1 ≠ 0 ∧ d.openPipes &&& 1 = 0

instance (d : Rf24) : Decidable (offOpens d) := by unfold offOpens; infer_instance

/-- shadows after `listen = False` -/
def offD (d : Rf24) : Rf24 :=
  if offOpens d then (d.withConfig (d.config &&& 0xFC ||| 2)).withOpenPipes (d.openPipes ||| 1)
  else d.withConfig (d.config &&& 0xFC ||| 2)

/-- configuration registers after `listen = False` -/
def offC (d : Rf24) (c : Radio) : Radio :=
  if offOpens d then (((c.withCE false).wr 0 [d.config &&& 0xFC ||| 2]).wr 2 [d.openPipes ||| 1])
  else ((c.withCE false).wr 0 [d.config &&& 0xFC ||| 2])

theorem cfg_byte (x k : Nat) (hk : k < 4) : x &&& 0xFC ||| k ≤ 255 := by
  have h1 : x &&& 0xFC < 2 ^ 8 := Nat.lt_of_le_of_lt Nat.and_le_right (by decide)
  have h2 : k < 2 ^ 8 := by omega
  have := Nat.or_lt_two_pow h1 h2
  omega

theorem or_one_byte (x : Nat) (h : x < 256) : x ||| 1 ≤ 255 := by
  have := Nat.or_lt_two_pow (show x < 2 ^ 8 from h) (show 1 < 2 ^ 8 by decide)
  omega

section
variable {E : PyErr → DrvState → Prop} {s0 s : DrvState} {d : Rf24} {c : Radio}

theorem at_listenOffTail (h : At s0 s d c) (ho : d.openPipes < 256) (start : Nat) {Q : Unit → DrvState → Prop}
    (hQ1 : offOpens d → ∀ s', At s0 s' (d.withOpenPipes (d.openPipes ||| 1)) (c.wr 2 [d.openPipes ||| 1]) → Q () s')
    (hQ2 : ¬ offOpens d → ∀ s', At s0 s' d c → Q () s') :
    dwp E (listenOffTail start) Q s := by
  unfold listenOffTail
  wb; apply at_getD h; intro st4
  simp only [dwp_ite]
  by_cases hc : offOpens d
  · have hc' : (d.withStatus st4).aa &&& 1 ≠ 0 ∧ (d.withStatus st4).openPipes &&& 1 = 0 := hc
    rw [if_pos hc']
    wb
    step_modD h => (d.withOpenPipes (d.openPipes ||| 1)); intro s5 h5
    wb; apply at_getD h5; intro st5
    show dwp E (regWrite OPEN_PIPES ((d.openPipes ||| 1 : Nat) : Int)) _ s5
    apply at_regWrite h5 _ _ (by decide) (or_one_byte _ ho); intro s6 h6
    apply at_settle h6; intro s7 h7
    exact hQ1 hc s7 h7
  · have hc' : ¬ ((d.withStatus st4).aa &&& 1 ≠ 0 ∧ (d.withStatus st4).openPipes &&& 1 = 0) := hc
    rw [if_neg hc']
    apply at_settle h; intro s7 h7
    exact hQ2 hc s7 h7

theorem at_setListen_false (h : At s0 s d c) (ho : d.openPipes < 256) {Q : Unit → DrvState → Prop}
    (hQ : ∀ s', At s0 s' (offD d) (offC d c) → Q () s') : dwp E (setListen false) Q s := by
  rw [setListen_eq]
  simp only [Bool.false_eq_true, ↓reduceIte]
  wb; apply at_setCE h; intro s1 h1
  step_modD h1 => (d.withConfig (d.config &&& 0xFC ||| 2)); intro s2 h2
  apply at_getD h2; intro st
  show dwp E (regWrite CONFIGURE ((d.config &&& 0xFC ||| 2 : Nat) : Int)) _ s2
  apply at_regWrite h2 _ _ (by decide) (cfg_byte _ 2 (by decide)); intro s3 h3
  apply at_nowNs h3; intro start
  unfold listenOff
  wb; apply at_getD h3; intro st3
  have tail : ∀ s4, At s0 s4 (d.withConfig (d.config &&& 0xFC ||| 2)) ((c.withCE false).wr 0 [d.config &&& 0xFC ||| 2]) →
      dwp E (listenOffTail start) Q s4 := by
    intro s4 h4
    apply at_listenOffTail h4 (by exact ho)
    · intro hc s' hs'
      apply hQ
      have hc' : offOpens d := hc
      unfold offD offC
      rw [if_pos hc', if_pos hc']
      exact hs'
    · intro hc s' hs'
      apply hQ
      have hc' : ¬ offOpens d := hc
      unfold offD offC
      rw [if_neg hc', if_neg hc']
      exact hs'
  simp only [dwp_ite]
  split
  · wb
    exact at_regCmd h3 _ (by decide) (by decide) (fun s4 h4 => tail s4 h4)
  · exact tail s3 h3

end

/-! ### `listen = True` -/

/-- shadows after `listen = True` when a pipe-0 reading address `ra` is remembered -/
def onD (d : Rf24) (ra : Bytes) : Rf24 :=
  if ra ≠ d.pipes0 then (d.withConfig (d.config &&& 0xFC ||| 3)).withPipes0 (ra ++ d.pipes0.drop ra.length)
  else d.withConfig (d.config &&& 0xFC ||| 3)

/-- configuration registers after `listen = True` -/
def onC (d : Rf24) (c : Radio) (ra : Bytes) : Radio :=
  if ra ≠ d.pipes0 then ((((c.withCE false).wr 0 [d.config &&& 0xFC ||| 3]).withCE true).wr 0x0A ra)
  else (((c.withCE false).wr 0 [d.config &&& 0xFC ||| 3]).withCE true)

section
variable {E : PyErr → DrvState → Prop} {s0 s : DrvState} {d : Rf24} {c : Radio}

theorem at_address0 (h : At s0 s d c) {Q : Bytes → DrvState → Prop} (hQ : Q d.pipes0 s) :
    dwp E (address 0) Q s := by
  unfold address
  wb
  apply at_getD h; intro st5
  have i1 : ¬ ((0 : Int) > 5) := by decide
  have i2 : ¬ ((0 : Int) < 0) := by decide
  have i3 : (0 : Int) ≤ 1 := by decide
  simp only [dwp_ite, i1, i2, i3, ↓reduceIte, dwp_pure]
  exact hQ

theorem at_listenOn (h : At s0 s d c) (start : Nat) (ra : Bytes) (hra : d.pipe0ReadAddr = some ra)
    (hlen : ra.length ≤ d.pipes0.length) (hne : ra ≠ []) {Q : Unit → DrvState → Prop}
    (hQ1 : ra ≠ d.pipes0 → ∀ s', At s0 s' (d.withPipes0 (ra ++ d.pipes0.drop ra.length)) ((c.withCE true).wr 0x0A ra) → Q () s')
    (hQ2 : ¬ ra ≠ d.pipes0 → ∀ s', At s0 s' d (c.withCE true) → Q () s') :
    dwp E (listenOn start) Q s := by
  unfold listenOn
  wb; apply at_setCE h; intro s4 h4
  apply at_getD h4; intro st4
  apply at_address0 h4
  have e2 : (d.withStatus st4).pipe0ReadAddr = some ra := hra
  rw [e2]
  simp only [dwp_ite]
  by_cases hc : ra ≠ d.pipes0
  · rw [if_pos hc]; wb
    apply at_assignPrefix h4 0 ra (by exact hlen) (d.withPipes0 (ra ++ d.pipes0.drop ra.length)) rfl; intro s5 h5
    apply at_regWriteBytes h5 _ _ (by decide) hne; intro s6 h6
    apply at_settle h6; intro s7 h7
    exact hQ1 hc s7 h7
  · rw [if_neg hc]
    apply at_settle h4; intro s7 h7
    exact hQ2 hc s7 h7

theorem at_setListen_true (h : At s0 s d c) (ra : Bytes) (hra : d.pipe0ReadAddr = some ra)
    (hlen : ra.length ≤ d.pipes0.length) (hne : ra ≠ []) {Q : Unit → DrvState → Prop}
    (hQ : ∀ s', At s0 s' (onD d ra) (onC d c ra) → Q () s') : dwp E (setListen true) Q s := by
  rw [setListen_eq]
  simp only [↓reduceIte]
  wb; apply at_setCE h; intro s1 h1
  step_modD h1 => (d.withConfig (d.config &&& 0xFC ||| 3)); intro s2 h2
  apply at_getD h2; intro st
  show dwp E (regWrite CONFIGURE ((d.config &&& 0xFC ||| 3 : Nat) : Int)) _ s2
  apply at_regWrite h2 _ _ (by decide) (cfg_byte _ 3 (by decide)); intro s3 h3
  apply at_nowNs h3; intro start
  apply at_listenOn h3 start ra (by exact hra) (by exact hlen) hne
  · intro hc s' hs'
    apply hQ
    have hc' : ra ≠ d.pipes0 := hc
    unfold onD onC
    rw [if_pos hc', if_pos hc']
    exact hs'
  · intro hc s' hs'
    apply hQ
    have hc' : ¬ ra ≠ d.pipes0 := hc
    unfold onD onC
    rw [if_neg hc', if_neg hc']
    exact hs'

end

/-! ### `auto_ack = <int>` -/

section
variable {E : PyErr → DrvState → Prop} {s0 s : DrvState} {d : Rf24} {c : Radio}

theorem at_setAutoAck (h : At s0 s d c) (v : Nat) (hv : v < 64) {Q : Unit → DrvState → Prop}
    (hQ : ∀ s', At s0 s' (d.withAa v) (c.wr 1 [v]) → Q () s') :
    dwp E (setAutoAckAttr (.i (v : Int))) Q s := by
  unfold setAutoAckAttr
  simp only
  wb
  have e : ((v : Int) % 64).toNat = v := by omega
  rw [e]
  step_modD h => (d.withAa v); intro s1 h1
  apply at_getD h1; intro st
  show dwp E (regWrite AUTO_ACK ((v : Nat) : Int)) _ s1
  exact at_regWrite h1 _ _ (by decide) (by omega) hQ

end

/-! ### `open_tx_pipe(address)` -/

/-- shadows after `open_tx_pipe(addr)`, pipe 0 shown as open -/
def txD (d : Rf24) (addr : Bytes) : Rf24 :=
  if d.aa &&& 1 ≠ 0 then
    (d.withPipes0 (addr ++ d.pipes0.drop addr.length)).withTxAddress (addr ++ d.txAddress.drop addr.length)
  else d.withTxAddress (addr ++ d.txAddress.drop addr.length)

/-- configuration registers after `open_tx_pipe(addr)` -/
def txC (d : Rf24) (c : Radio) (addr : Bytes) : Radio :=
  if d.aa &&& 1 ≠ 0 then ((c.wr 0x0A addr).wr 0x10 addr) else (c.wr 0x10 addr)

section
variable {E : PyErr → DrvState → Prop} {s0 s : DrvState} {d : Rf24} {c : Radio}

theorem at_openTxTail (h : At s0 s d c) (addr : Bytes) (hl : addr.length ≤ d.txAddress.length)
    (hne : addr ≠ []) {Q : Unit → DrvState → Prop}
    (hQ : ∀ s', At s0 s' (d.withTxAddress (addr ++ d.txAddress.drop addr.length)) (c.wr 0x10 addr) → Q () s') :
    dwp E (openTxTail addr) Q s := by
  unfold openTxTail
  wb; apply at_getD h; intro st
  have : ¬ addr.length > d.txAddress.length := by omega
  have e : (d.withStatus st).txAddress = d.txAddress := rfl
  simp only [overwritePrefix, e, this, ↓reduceIte]
  wb
  step_modD h => (d.withTxAddress (addr ++ d.txAddress.drop addr.length)); intro s1 h1
  exact at_regWriteBytes h1 _ _ (by decide) hne hQ

theorem at_openTxPipe (h : At s0 s d c) (addr : Bytes) (hl : addr.length ≤ d.txAddress.length)
    (hl0 : addr.length ≤ d.pipes0.length) (hne : addr ≠ []) (hop : d.openPipes &&& 1 ≠ 0)
    {Q : Unit → DrvState → Prop}
    (hQ : ∀ s', At s0 s' (txD d addr) (txC d c addr) → Q () s') : dwp E (openTxPipe addr) Q s := by
  rw [openTxPipe_eq]
  wb; apply at_getD h; intro st
  rw [dwp_ite]
  by_cases hc : d.aa &&& 1 ≠ 0
  · have hc' : (d.withStatus st).aa &&& 1 ≠ 0 := hc
    rw [if_pos hc']; wb
    apply at_assignPrefix h 0 addr (by exact hl0) (d.withPipes0 (addr ++ d.pipes0.drop addr.length)) rfl
    intro s1 h1
    apply at_regWriteBytes h1 _ _ (by decide) hne; intro s2 h2
    apply at_getD h2; intro st2
    rw [dwp_ite]
    have hn : ¬ (((d.withPipes0 (addr ++ d.pipes0.drop addr.length)).withStatus st2).config &&& 1 = 0 ∧
        ((d.withPipes0 (addr ++ d.pipes0.drop addr.length)).withStatus st2).openPipes &&& 1 = 0) := by
      intro hh
      exact hop hh.2
    rw [if_neg hn]
    apply at_openTxTail h2 addr (by exact hl) hne; intro s3 h3
    apply hQ
    unfold txD txC
    rw [if_pos hc, if_pos hc]
    exact h3
  · have hc' : ¬ (d.withStatus st).aa &&& 1 ≠ 0 := hc
    rw [if_neg hc']
    apply at_openTxTail h addr hl hne; intro s3 h3
    apply hQ
    unfold txD txC
    rw [if_neg hc, if_neg hc]
    exact h3

end

/-! ### `open_rx_pipe(pipe, address)` -/

section
variable {E : PyErr → DrvState → Prop} {s0 s : DrvState} {d : Rf24} {c : Radio}

theorem shl_le (p : Nat) (hp : p ≤ 5) : 1 <<< p ≤ 32 := by
  have : p = 0 ∨ p = 1 ∨ p = 2 ∨ p = 3 ∨ p = 4 ∨ p = 5 := by omega
  rcases this with rfl | rfl | rfl | rfl | rfl | rfl <;> decide

theorem at_openRxTail (h : At s0 s d c) (p : Nat) (hp : p ≤ 5) (hr : c.enRxAddr < 64)
    {Q : Unit → DrvState → Prop}
    (hQ : ∀ s', At s0 s' (d.withOpenPipes (c.enRxAddr ||| (1 <<< p))) (c.wr 2 [c.enRxAddr ||| (1 <<< p)]) → Q () s') :
    dwp E (openRxTail p) Q s := by
  unfold openRxTail
  wb
  apply at_regRead h OPEN_PIPES (by decide) (by decide); intro s1 h1
  have e : (c.readReg OPEN_PIPES).headD 0 = c.enRxAddr := rfl
  rw [e]
  step_modD h1 => (d.withOpenPipes (c.enRxAddr ||| (1 <<< p))); intro s2 h2
  apply at_getD h2; intro st
  show dwp E (regWrite OPEN_PIPES ((c.enRxAddr ||| (1 <<< p) : Nat) : Int)) _ s2
  have hb : c.enRxAddr ||| (1 <<< p) ≤ 255 := by
    have h1 : 1 <<< p < 2 ^ 6 := by have := shl_le p hp; omega
    have := Nat.or_lt_two_pow (show c.enRxAddr < 2 ^ 6 from hr) h1
    omega
  exact at_regWrite h2 _ _ (by decide) hb hQ

theorem openRxPipe_eq0 (addr : Bytes) (hne : addr ≠ []) : openRxPipe 0 addr = (do
    modD fun d => { d with pipe0ReadAddr := some addr }
    assignPrefix 0 addr
    regWriteBytes (RX_ADDR_P0 + 0) addr
    openRxTail 0) := by
  unfold openRxPipe openRxTail
  have i2 : ¬ (addr.isEmpty = true) := by simpa using hne
  simp [i2]

theorem openRxPipe_eq1 (addr : Bytes) (hne : addr ≠ []) : openRxPipe 1 addr = (do
    assignPrefix 1 addr
    regWriteBytes (RX_ADDR_P0 + 1) addr
    openRxTail 1) := by
  unfold openRxPipe openRxTail
  have i2 : ¬ (addr.isEmpty = true) := by simpa using hne
  simp [i2]

theorem openRxPipe_eqN (p : Nat) (hp2 : 2 ≤ p) (hp5 : p ≤ 5) (addr : Bytes) (hne : addr ≠ []) :
    openRxPipe (p : Int) addr = (do
      modD fun d => { d with pipesN := d.pipesN.set (p - 2) (addr.headD 0) }
      regWrite (RX_ADDR_P0 + p) (addr.headD 0)
      openRxTail p) := by
  unfold openRxPipe openRxTail
  have i1 : ((0 : Int) ≤ (p : Int) ∧ (p : Int) ≤ 5) := by omega
  have i2 : ¬ (addr.isEmpty = true) := by simpa using hne
  have e1 : ¬ p < 2 := by omega
  simp [i1, i2, e1]

/-- registers / shadows after `open_rx_pipe(0, x)`, `open_rx_pipe(1, x)`, `open_rx_pipe(p, x)` (p ≥ 2) -/
def cOpen0 (c : Radio) (x : Bytes) : Radio := (c.wr 0x0A x).wr 2 [c.enRxAddr ||| 1]
def dOpen0 (d : Rf24) (c : Radio) (x : Bytes) : Rf24 :=
  ((d.withPipe0Read (some x)).withPipes0 (x ++ d.pipes0.drop x.length)).withOpenPipes (c.enRxAddr ||| 1)
def cOpen1 (c : Radio) (x : Bytes) : Radio := (c.wr 0x0B x).wr 2 [c.enRxAddr ||| 2]
def dOpen1 (d : Rf24) (c : Radio) (x : Bytes) : Rf24 :=
  (d.withPipes1 (x ++ d.pipes1.drop x.length)).withOpenPipes (c.enRxAddr ||| 2)
def cOpenN (p : Nat) (c : Radio) (x : Bytes) : Radio :=
  (c.wr (0x0A + p) [x.headD 0]).wr 2 [c.enRxAddr ||| (1 <<< p)]
def dOpenN (p : Nat) (d : Rf24) (c : Radio) (x : Bytes) : Rf24 :=
  (d.withPipesN (d.pipesN.set (p - 2) (x.headD 0))).withOpenPipes (c.enRxAddr ||| (1 <<< p))

/-- `open_rx_pipe(0, addr)` -/
theorem at_openRxPipe0 (h : At s0 s d c) (addr : Bytes) (hne : addr ≠ []) (hl : addr.length ≤ d.pipes0.length)
    (hr : c.enRxAddr < 64) {Q : Unit → DrvState → Prop}
    (hQ : ∀ s', At s0 s' (dOpen0 d c addr) (cOpen0 c addr) → Q () s') :
    dwp E (openRxPipe 0 addr) Q s := by
  rw [openRxPipe_eq0 addr hne]
  wb
  step_modD h => (d.withPipe0Read (some addr)); intro s1 h1
  apply at_assignPrefix h1 0 addr (by exact hl)
    ((d.withPipe0Read (some addr)).withPipes0 (addr ++ d.pipes0.drop addr.length)) rfl; intro s2 h2
  apply at_regWriteBytes h2 _ _ (by decide) hne; intro s3 h3
  apply at_openRxTail h3 0 (by decide) (by exact hr); intro s4 h4
  exact hQ s4 h4

/-- `open_rx_pipe(1, addr)` -/
theorem at_openRxPipe1 (h : At s0 s d c) (addr : Bytes) (hne : addr ≠ []) (hl : addr.length ≤ d.pipes1.length)
    (hr : c.enRxAddr < 64) {Q : Unit → DrvState → Prop}
    (hQ : ∀ s', At s0 s' (dOpen1 d c addr) (cOpen1 c addr) → Q () s') :
    dwp E (openRxPipe 1 addr) Q s := by
  rw [openRxPipe_eq1 addr hne]
  wb
  apply at_assignPrefix h 1 addr (by exact hl) (d.withPipes1 (addr ++ d.pipes1.drop addr.length)) rfl; intro s2 h2
  apply at_regWriteBytes h2 _ _ (by decide) hne; intro s3 h3
  apply at_openRxTail h3 1 (by decide) (by exact hr); intro s4 h4
  exact hQ s4 h4

theorem wr_pipeN_enRxAddr (c : Radio) (p v : Nat) (hp2 : 2 ≤ p) (hp5 : p ≤ 5) :
    (c.wr (0x0A + p) [v]).enRxAddr = c.enRxAddr := by
  have : p = 2 ∨ p = 3 ∨ p = 4 ∨ p = 5 := by omega
  rcases this with rfl | rfl | rfl | rfl <;> rfl

/-- `open_rx_pipe(p, addr)` for `p = 2..5`: only the first byte is stored -/
theorem at_openRxPipeN (h : At s0 s d c) (p : Nat) (hp2 : 2 ≤ p) (hp5 : p ≤ 5) (addr : Bytes) (hne : addr ≠ [])
    (hb : addr.headD 0 ≤ 255) (hr : c.enRxAddr < 64) {Q : Unit → DrvState → Prop}
    (hQ : ∀ s', At s0 s' (dOpenN p d c addr) (cOpenN p c addr) → Q () s') :
    dwp E (openRxPipe (p : Int) addr) Q s := by
  rw [openRxPipe_eqN p hp2 hp5 addr hne]
  wb
  step_modD h => (d.withPipesN (d.pipesN.set (p - 2) (addr.headD 0))); intro s1 h1
  apply at_regWrite h1 _ _ (by unfold RX_ADDR_P0; omega) hb; intro s3 h3
  apply at_openRxTail h3 p hp5 (by rw [show RX_ADDR_P0 = 0x0A from rfl, wr_pipeN_enRxAddr c p _ hp2 hp5]; exact hr)
  intro s4 h4
  rw [show RX_ADDR_P0 = 0x0A from rfl, wr_pipeN_enRxAddr c p _ hp2 hp5] at h4
  exact hQ s4 h4

end

/-! ### `set_auto_retries(delay, count)` -/

section
variable {E : PyErr → DrvState → Prop} {s0 s : DrvState} {d : Rf24} {c : Radio}

theorem retry_byte (delay count : Int) : (ardCode delay <<< 4) ||| clampArc count ≤ 255 := by
  have h1 : ardCode delay ≤ 15 := by unfold ardCode; omega
  have h2 : clampArc count < 2 ^ 4 := by unfold clampArc; omega
  have h3 : ardCode delay <<< 4 < 2 ^ 8 := by rw [Nat.shiftLeft_eq]; omega
  have := Nat.or_lt_two_pow h3 (show clampArc count < 2 ^ 8 by omega)
  omega

theorem at_setAutoRetries (h : At s0 s d c) (delay count : Int) {Q : Unit → DrvState → Prop}
    (hQ : ∀ s', At s0 s' (d.withRetry ((ardCode delay <<< 4) ||| clampArc count))
      (c.wr 4 [(ardCode delay <<< 4) ||| clampArc count]) → Q () s') :
    dwp E (setAutoRetries delay count) Q s := by
  unfold setAutoRetries
  wb
  step_modD h => (d.withRetry ((ardCode delay <<< 4) ||| clampArc count)); intro s1 h1
  apply at_getD h1; intro st
  show dwp E (regWrite SETUP_RETR (((ardCode delay <<< 4) ||| clampArc count : Nat) : Int)) _ s1
  exact at_regWrite h1 _ _ (by decide) (retry_byte _ _) hQ

end

end Nrf
