/-
C17, `check_connection(attempts ≥ 1, ping_master=False)` (the default mode) of a node connected directly
below the master, closed two-node system: the NETWORK_PING written to the parent — one hop, acknowledged at
link level — succeeds at the first attempt, so the call is `True` **whatever the master's table holds**: in
this mode "connected" means "the parent's radio acknowledges", the master does not even run.
-/
import NrfProofs.C17Lookup5

namespace Nrf.Net.Join
open Nrf Nrf.Net Nrf.Spec Nrf.Proofs

/-- the ping frame `write(parent, NETWORK_PING, b"")` builds on the node at address `ax` below the master -/
def pingFrame (fid ax : Nat) : Frame :=
  { header := { fromNode := ax, toNode := 0, frameId := fid, msgType := .int NETWORK_PING, reserved := 0 },
    message := [] }

theorem check_connection_ping_closed (s : NetState) (L : LinkCfg) (Pm Px : List Bytes) (m x px ax : Nat)
    (Am Ax : Bytes) (k : Nat) (C : Conn L Pm Px m x px ax Am Ax s)
    (hpar : (s.nodeAt x).a.parent = 0)
    (hdupm : NotDupFrame (s.radioAt m) (pingFrame s.nextId ax)) :
    ∃ s2 pk pid, nexec (meshCheckConnection (k + 1) false) s = (.ok true, s2) ∧
      s2.nodeAt m = s.nodeAt m ∧ s2.cur = x ∧ s2.active = [x] ∧
      (pingFrame s.nextId ax).pack = .ok pk ∧
      s2.radioAt m = (s.radioAt m).withRx [{ pipe := px, data := pk }] { pid := pid, addr := Am, data := pk } ∧
      NodeRadio L Px true true 0x3E (s2.nodeAt x).rf (s2.radioAt x) ∧ (s2.radioAt x).rxFifo = [] := by
  have hcl : s.cur < s.nodes.length := by rw [C.cur, C.len]; exact C.hx
  have hnode : s.node = s.nodeAt x := C.node
  have two : ∀ k, k < 2 → k = m ∨ k = x := by have := C.hm; have := C.hx; have := C.hmx; omega
  obtain ⟨pk, hpk⟩ := pack_ok (pingFrame s.nextId ax) NETWORK_PING rfl
  generalize hs0 : ({ s with nextId := (s.nextId + 1) &&& 0xFFFF } : NetState) = s0
  have s0cur : s0.cur = x := by rw [← hs0]; exact C.cur
  have s0c : s0.cur < s0.nodes.length := by rw [← hs0]; exact hcl
  generalize hsB : s0.withFrame (pingFrame s.nextId ax) = sB
  have sBc : sB.cur < sB.nodes.length := by rw [← hsB]; simpa using s0c
  have sBcur : sB.cur = x := by rw [← hsB]; exact s0cur
  have sBlen : sB.nodes.length = 2 := by rw [← hsB]; simp only [withFrame_len]; rw [← hs0]; exact C.len
  have sBrad : ∀ k, sB.radioAt k = s.radioAt k := by intro k; rw [← hsB, radioAt_withFrame, ← hs0]; rfl
  have sBrf : ∀ k, (sB.nodeAt k).rf = (s.nodeAt k).rf := by intro k; rw [← hsB, rf_withFrame, ← hs0]; rfl
  have sBrid : ∀ k, sB.ridAt k = s.ridAt k := by intro k; show (sB.nodeAt k).rf.rid = _; rw [sBrf]; rfl
  have sBm : sB.nodeAt m = s.nodeAt m := by
    rw [← hsB, nodeAt_withFrame_ne _ _ _ (by rw [s0cur]; exact C.hmx), ← hs0]; rfl
  have sBnode : sB.node = { s.nodeAt x with frameBuf := pingFrame s.nextId ax } := by
    rw [← hsB, withFrame_node _ _ s0c, node_eq_nodeAt, s0cur, ← hs0]; rfl
  have sBw : sB.w = s.w := by rw [← hsB, ← hs0]; rfl
  have sBdrvr : sB.drv.radio = s.radioAt x := by
    show sB.w.radio sB.node.rf.rid = _
    rw [sBnode, sBw]; rfl
  have hq : Quiet sB := by
    intro k hk hkc hka
    rcases two k (by rw [← sBlen]; exact hk) with rfl | rfl
    · rw [sBrad]; exact C.fm
    · exact absurd sBcur.symm hkc
  have hrid : ∀ k, k < sB.nodes.length → k ≠ sB.cur → sB.ridAt k ≠ sB.ridAt sB.cur := by
    intro k hk hkc
    rcases two k (by rw [← sBlen]; exact hk) with rfl | rfl
    · rw [sBcur, sBrid, sBrid]; exact C.ridne
    · exact absurd sBcur.symm hkc
  obtain ⟨D1, e1, r1, l1, fl1, N1, x1, lr1, ⟨pid1, hgot1⟩, hoth1⟩ := nodeWrite_direct l3contracts (200000 - 2) sB L Px Pm
    m px 0 px NETWORK_PING Am pk sBc (by rw [← hsB, ← hs0]; exact C.closed) (by rw [sBlen]; decide) hq
    (by show sB.node.rf.rid < sB.w.radios.length; rw [sBnode, sBw]; exact C.ridx)
    (by rw [sBnode, sBdrvr]; exact C.Nx) (by rw [sBlen]; exact C.hm) (by rw [sBcur]; exact C.hmx)
    (by rw [← hsB, ← hs0]; show m ∉ s.active; rw [C.act]; simp [C.hmx]) hrid
    (by rw [sBm, sBrad]; exact C.Nm)
    (by rw [sBnode]; exact C.xcfg) C.pAm C.px1 C.px5 C.ltm
    (by
      intro l hl e
      rw [sBrad] at hl
      exact hdupm l hl (by rw [e]; exact hpk))
    (by
      intro i pid hi him
      rw [sBcur, sBrid] at hi
      rw [sBrid] at him
      rw [sBw]
      exact Radio.listensTo_not_rx _ _ (by rw [C.others i him hi]))
    (by rw [sBw]; exact C.faults) (by rw [sBnode]; simp [pingFrame, MAX_FRAG_SIZE]) (by rw [sBnode]; exact hpk)
    (by rw [sBnode]; show 0 ≠ (s.nodeAt x).a.addr; rw [C.xaddr]; exact fun h => C.ax0 h.symm)
    (by rw [sBnode]; rfl) (by rw [sBnode]; exact C.xl2p)
  have hne : m ≠ sB.cur := by rw [sBcur]; exact C.hmx
  refine ⟨sB.afterRf D1, pk, pid1, ?_, ?_, sBcur, by rw [← hsB, ← hs0]; exact C.act, hpk, ?_, ?_, ?_⟩
  · -- the computation
    have h0 : ¬ (s.node.nodeId = 0) := by rw [hnode]; exact C.xid
    have h1 : ¬ (s.node.a.addr = NETWORK_DEFAULT_ADDR) := by rw [hnode, C.xaddr]; exact C.axd
    unfold meshCheckConnection
    simp only [nexec_bind, nexec_getNode, if_neg h0, if_neg h1]
    rw [meshCheckConnection.go.eq_2]
    simp only [nexec_bind, nexec_getNode, Bool.false_eq_true, if_false]
    have hp : s.node.a.parent = 0 := by rw [hnode]; exact hpar
    rw [hp]
    unfold meshWrite nodeValidateMsgLen
    have hlen : ¬ (([] : Bytes).length > s.node.maxMessageLength) := by simp
    have hfr : ¬ (([] : Bytes).length > MAX_FRAG_SIZE ∧ (!s.node.fragEnabled) = true) := by
      simp [MAX_FRAG_SIZE]
    have hv : ¬ (s.node.a.addr = NETWORK_DEFAULT_ADDR ∨ (!isValid 0) = true) := by
      rw [valid0]; simp [h1]
    simp only [nexec_bind, nexec_getNode, if_neg hlen, if_neg hfr, nexec_pure, if_true, if_neg hv, nexec_takeId,
      nexec_modNode]
    have hmask : maskInt ((NETWORK_PING : Nat) : Int) 255 = NETWORK_PING := by decide
    have hz : (0 : Nat) &&& 4095 = 0 := by decide
    rw [hmask, hz]
    generalize hX : NetState.setNode _ _ = X
    have hst : X = sB := by
      rw [← hX, ← hsB, ← hs0]
      unfold NetState.withFrame pingFrame
      rw [hnode, C.xaddr]
    rw [hst, show F = 200000 - 2 + 2 from rfl, e1]
    rfl
  · rw [nodeAt_afterRf_ne _ _ _ hne, sBm]
  · rw [radioAt_afterRf_ne _ _ _ hne, hgot1, sBrad, C.fm]; rfl
  · rw [← sBcur, rf_afterRf_cur sB D1 sBc, radioAt_afterRf_cur sB D1 sBc]; exact N1
  · rw [← sBcur, radioAt_afterRf_cur sB D1 sBc, x1, sBdrvr]; exact C.fx

end Nrf.Net.Join
