/-
The four definitions every `NetM` proof stack starts from: `nexec` (run a node-layer computation),
`NetState.node` / `NetState.setNode` (the running node, read / changed) and `NetState.drv` (the driver
state an `RF24` method of the running node starts from).

They used to be declared twice, word for word, in NrfProofs/NetExecC07.lean (the weakest-precondition
stack of C07 / C15) and in NrfProofs/NetExecJ.lean (the `nexec` rewriting stack of C05 / C13 / C14 / C17),
so no file could import theorems of both stacks.  Both files now import this one; the rewrite rules
(which differ in form and in their `simp` attributes) stay where they were.
-/
import NrfModel.Net.Api

namespace Nrf.Net
open Nrf

/-- run a node-layer computation from state `s` -/
def nexec {α} (m : NetM α) (s : NetState) : Except PyErr α × NetState := (m.run).run s

/-- the node the computation runs as -/
def NetState.node (s : NetState) : Node := s.nodes.getD s.cur default

/-- the state after the running node's object was changed by `f` -/
def NetState.setNode (s : NetState) (f : Node → Node) : NetState :=
  { s with nodes := s.nodes.modify s.cur f }

/-- the driver state an `RF24` method of the running node starts from -/
def NetState.drv (s : NetState) : DrvState := { d := s.node.rf, w := s.w }

end Nrf.Net
