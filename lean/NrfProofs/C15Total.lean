/-
C15 — `update()` returns: total correctness of the mutual block of `NrfModel/Net/Node.lean` in an
open system, with an explicit fuel bound.  One simultaneous induction on the fuel (`totAll`).
-/
import NrfProofs.C15Queue

namespace Nrf.Net
open Nrf Rf24 Nrf.Spec Nrf.Proofs

/-! ### fuel budgets (in loop iterations / nested calls) -/

/-- `_tx_standby(tt ms)`: one `resend()` per 10 µs at most -/
def bTS (tt : Nat) : Nat := tt * 100 + 3
/-- the three retries of a fragment -/
def bFR (tt : Nat) : Nat := bTS tt + 4
/-- the fragment loop of a message of at most `Lm` bytes -/
def bFL (Lm tt : Nat) : Nat := Lm / 24 + 2 + bFR tt
/-- `_write_to_pipe` -/
def bWP (Lm tt : Nat) : Nat := bTS tt + bFL Lm tt + 2
/-- `_write` that cannot wait for a NETWORK_ACK -/
def bNW0 (Lm tt : Nat) : Nat := bWP Lm tt + 2
/-- a frame handler -/
def bH (Lm tt : Nat) : Nat := bNW0 Lm tt + 2
/-- `_net_update` with `m` frames still to come -/
def bNU (Lm tt m : Nat) : Nat := m + bH Lm tt + 3
/-- the NETWORK_ACK wait (`rt` ms): one `read()` per 10 µs at most -/
def bAW (Lm tt rt m : Nat) : Nat := rt * 100 + 3 + bNU Lm tt m
/-- `_write` -/
def bNW (Lm tt rt m : Nat) : Nat := bWP Lm tt + bAW Lm tt rt m + 2
/-- `update()` of any node class -/
def bUP (Lm tt rt m : Nat) : Nat := bNU Lm tt m + bNW Lm tt rt m + 6

/-! ### header facts -/

/-- the frame in `frame_buf` has an `int` type and valid addresses (it came through `unpack` and
    the address check, or was built by the node itself) -/
def HdrOk (n : Node) : Prop :=
  (∃ t, n.frameBuf.header.msgType = .int t) ∧ isValid n.frameBuf.header.fromNode = true ∧
  isValid n.frameBuf.header.toNode = true ∧ n.frameBuf.header.reserved < 256 ∧
  n.frameBuf.message.length ≤ 24

/-- `_write(wd, st)` can be asked for this target -/
def WdOk (cfg : AddrCfg) (wd st : Nat) : Prop :=
  (st ≤ 1 → isValid wd = true) ∧ (st > 1 → ∃ x, pipeAddress cfg wd 0 = .ok x)

/-- this `_write` cannot wait for a NETWORK_ACK -/
def NoWait (st ty : Nat) : Prop := ¬ ((64 < ty ∧ ty < 192) ∧ (st = TX_NORMAL ∨ st = TX_LOGICAL))

instance (st ty : Nat) : Decidable (NoWait st ty) := by unfold NoWait; infer_instance

theorem Header.ty_setTy (h : Header) (t : Nat) : (h.setTy t).ty = t := rfl

theorem pack_ok (f : Frame) (t : Nat) (h : f.header.msgType = .int t) :
    ∃ b, f.pack = .ok b ∧ b.length = 8 + f.message.length := by
  unfold Frame.pack Header.pack
  rw [h]
  exact ⟨_, rfl, by simp [le16b]; omega⟩

theorem hpack_ok (h : Header) (t : Nat) (ht : h.msgType = .int t) : ∃ b, h.pack = .ok b ∧ b.length = 8 := by
  unfold Header.pack
  rw [ht]
  exact ⟨_, rfl, by simp [le16b]⟩

/-! ### the session-level `read()` -/

section
variable {Lm tt rt : Nat} {p0 a1 : Bytes} {aN : List Nat} {v : Nat} {s : NetState}

theorem n_read (hl : s.LstS p0 a1 aN v) (hti : TI Lm tt rt s) {E : PyErr → NetState → Prop}
    {Q : Option Bytes → NetState → Prop}
    (hQ : ∀ r s', s'.LstS p0 a1 aN v → NFr s s' → TI Lm tt rt s' → NP s s' →
      s.w.clock + SPI_COST_NS ≤ s'.w.clock → (∀ b, r = some b → RxOk b ∧ s'.M + 1 ≤ s.M) →
      s'.node.frameBuf = s.node.frameBuf → Q r s') :
    wp E (liftRf (Rf24.read none)) Q s := by
  obtain ⟨r, ds, hex, hr⟩ := read_spec s.drv hl.2.1 hti.txs hti.feat
  have hk := keeps_read false none s.drv s.drv (Same.refl _ _ hl.2.1)
  unfold dwp at hk
  rw [hex] at hk
  have hp := safe_read.sound s.drv
  rw [hex] at hp
  have hc := read_clock s.drv
  rw [hex] at hc
  obtain ⟨l1, f1⟩ := LstS_putDrv hl.mid (hk.isLst hl.2) hk.toFr
  obtain ⟨t1, t2⟩ := hti.putDrv ds (hp.adv hti.txs)
  unfold wp
  rw [nexec_liftRf7, hex]
  apply hQ r _ l1 f1 t1 t2 hc
  · intro b hb
    rcases hr with hr | ⟨e, rest, he, hre, hrest, hne⟩
    · rw [hr] at hb; cases hb
    · rw [hre] at hb
      cases hb
      have hmem : e ∈ s.rxq := by
        show e ∈ (s.drv.w.radio s.drv.d.rid).rxFifo
        rw [he]; exact List.mem_cons_self ..
      refine ⟨(hti.rx e hmem).resolve_left hne, ?_⟩
      have hn := NetState.node_putDrv s ds hl.1
      have hrx : (s.putDrv ds).rxq = rest := by
        unfold NetState.rxq
        rw [hn]
        show (ds.w.radio ds.d.rid).rxFifo = rest
        rw [hp.rid]
        exact hrest
      unfold NetState.M
      rw [hrx, hn]
      have : s.rxq = e :: rest := he
      rw [this]
      simp only [List.length_cons]
      show rest.length + s.node.arrivals.length + 1 ≤ rest.length + 1 + s.node.arrivals.length
      omega
  · rw [NetState.node_putDrv s ds hl.1]

end

/-! ### the statements -/

section
variable (p0 a1 : Bytes) (aN : List Nat) (Lm tt rt : Nat)

/-- in the middle of a transmission -/
def MT (v : Nat) (s0 s : NetState) : Prop := MidF p0 a1 aN v s0 s ∧ TI Lm tt rt s
/-- listening -/
def LT (v : Nat) (s0 s : NetState) : Prop := LstF p0 a1 aN v s0 s ∧ TI Lm tt rt s

/-- what the transmit family keeps of `frame_buf` -/
def FrameKeep (n n' : Node) : Prop :=
  n'.frameBuf.message = n.frameBuf.message ∧ n'.frameBuf.header.fromNode = n.frameBuf.header.fromNode ∧
  n'.frameBuf.header.toNode = n.frameBuf.header.toNode

/-- postcondition of `send` / `resend` / `_tx_standby` -/
def TxPost (v : Nat) (s0 s s' : NetState) : Prop :=
  MT p0 a1 aN Lm tt rt v s0 s' ∧ TxC s' ∧ NP s s' ∧ s'.node.frameBuf = s.node.frameBuf

/-- the statements proved together, for one fuel value -/
structure TotAll (f : Nat) : Prop where
  rfSend : ∀ v buf s0 s, MT p0 a1 aN Lm tt rt v s0 s → TxC s → 1 ≤ buf.length → buf.length ≤ 32 → 1 ≤ f →
    wp noErr (rfSend f buf) (fun _ s' => TxPost p0 a1 aN Lm tt rt v s0 s s') s
  rfResend : ∀ v s0 s, MT p0 a1 aN Lm tt rt v s0 s → TxC s → 1 ≤ f →
    wp noErr (rfResend f)
      (fun _ s' => TxPost p0 a1 aN Lm tt rt v s0 s s' ∧ s.w.clock + SPI_COST_NS ≤ s'.w.clock) s
  txStandby : ∀ v dl s0 s, MT p0 a1 aN Lm tt rt v s0 s → TxC s →
    (dl - s.w.clock + 9999) / 10000 + 2 ≤ f →
    wp noErr (txStandby f dl) (fun _ s' => TxPost p0 a1 aN Lm tt rt v s0 s s') s
  txStandbyFor : ∀ v ms s0 s, MT p0 a1 aN Lm tt rt v s0 s → TxC s → ms * 100 + 3 ≤ f →
    wp noErr (txStandbyFor f ms) (fun _ s' => TxPost p0 a1 aN Lm tt rt v s0 s s') s
  fragRetry : ∀ v n r s0 s, MT p0 a1 aN Lm tt rt v s0 s → TxC s → n + bTS tt + 1 ≤ f →
    wp noErr (fragRetry f n r) (fun _ s' => TxPost p0 a1 aN Lm tt rt v s0 s s') s
  nodeFragLoop : ∀ v total msgT left s0 s, MT p0 a1 aN Lm tt rt v s0 s → TxC s →
    s.node.frameBuf.message.length ≤ total * 24 → left ≤ total → left + bFR tt + 1 ≤ f →
    wp noErr (nodeFragLoop f total msgT left)
      (fun _ s' => MT p0 a1 aN Lm tt rt v s0 s' ∧ TxC s' ∧ NP s s' ∧ FrameKeep s.node s'.node) s
  nodeWriteToPipe : ∀ v toNode toPipe isMc s0 s, MT p0 a1 aN Lm tt rt v s0 s →
    (∃ t, s.node.frameBuf.header.msgType = .int t) →
    ((toNode = s.node.a.addr ∧ isMc = false) ∨ ∃ x, pipeAddress s.node.cfg toNode toPipe = .ok x) →
    bWP Lm tt ≤ f →
    wp noErr (nodeWriteToPipe f toNode toPipe isMc)
      (fun _ s' => ∃ v', MT p0 a1 aN Lm tt rt v' s0 s' ∧ (isMc = true → v' = 0x3E) ∧ NP s s' ∧
        FrameKeep s.node s'.node ∧ (∃ t, s'.node.frameBuf.header.msgType = .int t) ∧
        (s.node.frameBuf.message.length ≤ 24 →
          s'.node.frameBuf.header.reserved = s.node.frameBuf.header.reserved)) s
  rfRead : ∀ v s0 s, LT p0 a1 aN Lm tt rt v s0 s → 1 ≤ f →
    wp noErr (rfRead f)
      (fun r s' => LT p0 a1 aN Lm tt rt v s0 s' ∧ NP s s' ∧ s.w.clock + SPI_COST_NS ≤ s'.w.clock ∧
        (∀ b, r = some b → RxOk b ∧ s'.M + 1 ≤ s.M) ∧ s'.node.frameBuf = s.node.frameBuf) s
  netUpdate : ∀ rv s0 s, LT p0 a1 aN Lm tt rt 0x3E s0 s → (rv ≠ 0 → HdrOk s.node) → bNU Lm tt s.M ≤ f →
    wp noErr (netUpdate f rv)
      (fun r s' => LT p0 a1 aN Lm tt rt 0x3E s0 s' ∧ NP s s' ∧ s.w.clock + SPI_COST_NS ≤ s'.w.clock ∧
        (r ≠ 0 → HdrOk s'.node)) s
  handleThis : ∀ msgT s0 s, LT p0 a1 aN Lm tt rt 0x3E s0 s → HdrOk s.node →
    s.node.frameBuf.header.ty = msgT → bH Lm tt ≤ f →
    wp noErr (handleThis f msgT) (fun _ s' => LT p0 a1 aN Lm tt rt 0x3E s0 s' ∧ NP s s' ∧ HdrOk s'.node) s
  handleOther : ∀ msgT s0 s, LT p0 a1 aN Lm tt rt 0x3E s0 s → HdrOk s.node →
    s.node.frameBuf.header.ty = msgT → bH Lm tt ≤ f →
    wp noErr (handleOther f msgT) (fun _ s' => LT p0 a1 aN Lm tt rt 0x3E s0 s' ∧ NP s s' ∧ HdrOk s'.node) s
  ackWait : ∀ dl s0 s, LT p0 a1 aN Lm tt rt 0x3E s0 s →
    (dl + 10000 - s.w.clock) / 10000 + 1 + bNU Lm tt s.M ≤ f →
    wp noErr (ackWait f dl) (fun _ s' => LT p0 a1 aN Lm tt rt 0x3E s0 s' ∧ NP s s') s
  nodeWrite : ∀ v wd st s0 s, MT p0 a1 aN Lm tt rt v s0 s → HdrOk s.node → WdOk s.node.cfg wd st →
    bNW0 Lm tt ≤ f → (¬ NoWait st s.node.frameBuf.header.ty → bNW Lm tt rt s.M ≤ f) →
    wp noErr (nodeWrite f wd st)
      (fun _ s' => LT p0 a1 aN Lm tt rt 0x3E s0 s' ∧ NP s s' ∧
        (NoWait st s.node.frameBuf.header.ty → HdrOk s'.node)) s

end

section
variable (C : C15Contracts) {p0 a1 : Bytes} {aN : List Nat} {Lm tt rt : Nat}

theorem totAll_zero : TotAll p0 a1 aN Lm tt rt 0 := by
  constructor
  · intro _ _ _ _ _ _ _ _ h; omega
  · intro _ _ _ _ _ h; omega
  · intro _ _ _ _ _ _ h; omega
  · intro _ _ _ _ _ _ h; omega
  · intro _ _ _ _ _ _ _ h; unfold bTS at h; omega
  · intro _ _ _ _ _ _ _ _ _ _ h; unfold bFR bTS at h; omega
  · intro _ _ _ _ _ _ _ _ _ h; unfold bWP at h; omega
  · intro _ _ _ _ h; omega
  · intro _ _ _ _ _ h; unfold bNU at h; omega
  · intro _ _ _ _ _ _ h; unfold bH bNW0 at h; omega
  · intro _ _ _ _ _ _ h; unfold bH bNW0 at h; omega
  · intro _ _ _ _ h; omega
  · intro _ _ _ _ _ _ _ _ h _; unfold bNW0 at h; omega

theorem MT.closed {v : Nat} {s0 s : NetState} (h : MT p0 a1 aN Lm tt rt v s0 s) : s.closed = false := h.2.open_
theorem LT.closed {v : Nat} {s0 s : NetState} (h : LT p0 a1 aN Lm tt rt v s0 s) : s.closed = false := h.2.open_

include C

theorem tstep_rfSend (f : Nat) : ∀ v buf s0 s, MT p0 a1 aN Lm tt rt v s0 s → TxC s → 1 ≤ buf.length →
    buf.length ≤ 32 → 1 ≤ f + 1 →
    wp noErr (rfSend (f + 1) buf) (fun _ s' => TxPost p0 a1 aN Lm tt rt v s0 s s') s := by
  intro v buf s0 s h htx hb1 hb2 _
  rw [rfSend]
  simp only [wp_bind, wp_get, wp_ite, h.closed, Bool.false_eq_true, ↓reduceIte, wp_pure]
  apply n_send C h.1.1 h.2 htx buf hb1 hb2
  intro r s' m1 f1 t1 np1 tx1 fb1
  exact ⟨⟨⟨m1, h.1.2.trans f1⟩, t1⟩, tx1, np1, fb1⟩

theorem tstep_rfResend (f : Nat) : ∀ v s0 s, MT p0 a1 aN Lm tt rt v s0 s → TxC s → 1 ≤ f + 1 →
    wp noErr (rfResend (f + 1))
      (fun _ s' => TxPost p0 a1 aN Lm tt rt v s0 s s' ∧ s.w.clock + SPI_COST_NS ≤ s'.w.clock) s := by
  intro v s0 s h htx _
  rw [rfResend]
  simp only [wp_bind, wp_get, wp_ite, h.closed, Bool.false_eq_true, ↓reduceIte, wp_pure]
  apply n_resend C h.1.1 h.2 htx
  intro r s' m1 f1 t1 np1 tx1 fb1 hc
  cases r <;> exact ⟨⟨⟨⟨m1, h.1.2.trans f1⟩, t1⟩, tx1, np1, fb1⟩, hc⟩

omit C in
theorem txPost_trans {v : Nat} {s0 s s1 s2 : NetState} (h1 : TxPost p0 a1 aN Lm tt rt v s0 s s1)
    (h2 : TxPost p0 a1 aN Lm tt rt v s0 s1 s2) : TxPost p0 a1 aN Lm tt rt v s0 s s2 :=
  ⟨h2.1, h2.2.1, h1.2.2.1.trans h2.2.2.1, h2.2.2.2.trans h1.2.2.2⟩

omit C in
theorem txPost_refl {v : Nat} {s0 s : NetState} (h : MT p0 a1 aN Lm tt rt v s0 s) (htx : TxC s) :
    TxPost p0 a1 aN Lm tt rt v s0 s s := ⟨h, htx, NP.refl s, rfl⟩

omit C in
theorem tstep_txStandby (f : Nat) (ih : TotAll p0 a1 aN Lm tt rt f) : ∀ v dl s0 s,
    MT p0 a1 aN Lm tt rt v s0 s → TxC s → (dl - s.w.clock + 9999) / 10000 + 2 ≤ f + 1 →
    wp noErr (txStandby (f + 1) dl) (fun _ s' => TxPost p0 a1 aN Lm tt rt v s0 s s') s := by
  intro v dl s0 s h htx hf
  rw [txStandby]
  simp only [wp_bind, wp_nowNs, wp_ite, wp_pure]
  split
  · rename_i hlt
    refine (ih.rfResend v s0 s h htx (by omega)).post (fun r s1 h1 => ?_)
    obtain ⟨p1, hc⟩ := h1
    split
    · exact p1
    · have hc' : s.w.clock + 10000 ≤ s1.w.clock := hc
      refine (ih.txStandby v dl s0 s1 p1.1 p1.2.1 (by omega)).post (fun _ s2 p2 => ?_)
      exact txPost_trans p1 p2
  · exact txPost_refl h htx

omit C in
theorem tstep_txStandbyFor (f : Nat) (ih : TotAll p0 a1 aN Lm tt rt f) : ∀ v ms s0 s,
    MT p0 a1 aN Lm tt rt v s0 s → TxC s → ms * 100 + 3 ≤ f + 1 →
    wp noErr (txStandbyFor (f + 1) ms) (fun _ s' => TxPost p0 a1 aN Lm tt rt v s0 s s') s := by
  intro v ms s0 s h htx hf
  rw [txStandbyFor]
  simp only [wp_bind, wp_nowNs]
  exact ih.txStandby v _ s0 s h htx (by omega)

omit C in
theorem mt_sleep {v : Nat} {s0 s : NetState} (h : MT p0 a1 aN Lm tt rt v s0 s) (ns : Nat) :
    MT p0 a1 aN Lm tt rt v s0 { s with w := s.w.sleep ns } ∧ NP s { s with w := s.w.sleep ns } :=
  ⟨⟨(stable_midF v s0).sleep s ns h.1, (h.2.sleep ns).1⟩, (h.2.sleep ns).2.1⟩

omit C in
theorem tstep_fragRetry (f : Nat) (ih : TotAll p0 a1 aN Lm tt rt f) : ∀ v n r s0 s,
    MT p0 a1 aN Lm tt rt v s0 s → TxC s → n + bTS tt + 1 ≤ f + 1 →
    wp noErr (fragRetry (f + 1) n r) (fun _ s' => TxPost p0 a1 aN Lm tt rt v s0 s s') s := by
  intro v n r s0 s h htx hf
  rw [fragRetry]
  simp only [wp_bind, wp_ite, wp_pure, wp_getNode, wp_sleepNs]
  split
  · rename_i hc
    obtain ⟨m1, np1⟩ := mt_sleep h 2000000
    have htx1 : TxC ({ s with w := s.w.sleep 2000000 } : NetState) := htx
    have htt : s.node.txTimeout = tt := h.2.tt
    have e : ({ s with w := s.w.sleep 2000000 } : NetState).node.txTimeout = tt := htt
    rw [e]
    unfold bTS at hf
    refine (ih.txStandbyFor v tt s0 _ m1 htx1 (by omega)).post (fun r1 s2 p2 => ?_)
    refine (ih.fragRetry v (n - 1) r1 s0 s2 p2.1 p2.2.1 (by unfold bTS; omega)).post (fun _ s3 p3 => ?_)
    exact txPost_trans ⟨p2.1, p2.2.1, np1.trans p2.2.2.1, p2.2.2.2⟩ p3
  · exact txPost_refl h htx

omit C in
/-- a change of the frame buffer / queue / lease table / flags of the current node -/
theorem mt_setNode {v : Nat} {s0 s : NetState} (h : MT p0 a1 aN Lm tt rt v s0 s) (f : Node → Node)
    (hf : (f s.node).cfg = s.node.cfg ∧ (f s.node).a = s.node.a ∧ (f s.node).kind = s.node.kind ∧
      (f s.node).rf = s.node.rf)
    (hf2 : (f s.node).txTimeout = s.node.txTimeout ∧ (f s.node).routeTimeout = s.node.routeTimeout ∧
      (f s.node).arrivals = s.node.arrivals)
    (hm : (f s.node).frameBuf.message.length ≤ Lm)
    (ht : ∀ p ∈ (f s.node).dhcp, p.1 < 32768 ∧ p.2 < 32768)
    (hdd : s.node.doDhcp = false → (f s.node).doDhcp = false := by exact id)
    (hnid : (f s.node).nodeId = s.node.nodeId := by exact rfl) :
    MT p0 a1 aN Lm tt rt v s0 (s.setNode f) ∧ NP s (s.setNode f) ∧ (s.setNode f).node = f s.node := by
  obtain ⟨t1, t2⟩ := h.2.setNode f ⟨hf.1, hf.2.1, hf2.1, hf2.2.1, hf.2.2.2, hf2.2.2⟩ hm ht hdd hnid
  exact ⟨⟨(stable_midF v s0).setNode s f h.1 hf, t1⟩, t2, NetState.node_setNode s f h.2.cur⟩

omit C in
theorem lt_setNode {v : Nat} {s0 s : NetState} (h : LT p0 a1 aN Lm tt rt v s0 s) (f : Node → Node)
    (hf : (f s.node).cfg = s.node.cfg ∧ (f s.node).a = s.node.a ∧ (f s.node).kind = s.node.kind ∧
      (f s.node).rf = s.node.rf)
    (hf2 : (f s.node).txTimeout = s.node.txTimeout ∧ (f s.node).routeTimeout = s.node.routeTimeout ∧
      (f s.node).arrivals = s.node.arrivals)
    (hm : (f s.node).frameBuf.message.length ≤ Lm)
    (ht : ∀ p ∈ (f s.node).dhcp, p.1 < 32768 ∧ p.2 < 32768)
    (hdd : s.node.doDhcp = false → (f s.node).doDhcp = false := by exact id)
    (hnid : (f s.node).nodeId = s.node.nodeId := by exact rfl) :
    LT p0 a1 aN Lm tt rt v s0 (s.setNode f) ∧ NP s (s.setNode f) ∧ (s.setNode f).node = f s.node := by
  obtain ⟨t1, t2⟩ := h.2.setNode f ⟨hf.1, hf.2.1, hf2.1, hf2.2.1, hf.2.2.2, hf2.2.2⟩ hm ht hdd hnid
  exact ⟨⟨(stable_lstF v s0).setNode s f h.1 hf, t1⟩, t2, NetState.node_setNode s f h.2.cur⟩

omit C in
/-- `setHdr` keeps everything but the header -/
theorem mt_setHdr {v : Nat} {s0 s : NetState} (h : MT p0 a1 aN Lm tt rt v s0 s) (g : Header → Header) :
    MT p0 a1 aN Lm tt rt v s0 (s.setNode fun n => { n with frameBuf := { n.frameBuf with header := g n.frameBuf.header } }) ∧
    NP s (s.setNode fun n => { n with frameBuf := { n.frameBuf with header := g n.frameBuf.header } }) ∧
    (s.setNode fun n => { n with frameBuf := { n.frameBuf with header := g n.frameBuf.header } }).node
      = { s.node with frameBuf := { s.node.frameBuf with header := g s.node.frameBuf.header } } :=
  mt_setNode h _ ⟨rfl, rfl, rfl, rfl⟩ ⟨rfl, rfl, rfl⟩ h.2.msg h.2.tab

omit C in
theorem lt_setHdr {v : Nat} {s0 s : NetState} (h : LT p0 a1 aN Lm tt rt v s0 s) (g : Header → Header) :
    LT p0 a1 aN Lm tt rt v s0 (s.setNode fun n => { n with frameBuf := { n.frameBuf with header := g n.frameBuf.header } }) ∧
    NP s (s.setNode fun n => { n with frameBuf := { n.frameBuf with header := g n.frameBuf.header } }) ∧
    (s.setNode fun n => { n with frameBuf := { n.frameBuf with header := g n.frameBuf.header } }).node
      = { s.node with frameBuf := { s.node.frameBuf with header := g s.node.frameBuf.header } } :=
  lt_setNode h _ ⟨rfl, rfl, rfl, rfl⟩ ⟨rfl, rfl, rfl⟩ h.2.msg h.2.tab

omit C in
theorem pySlice_length {α} (l : List α) (a b : Nat) :
    (pySlice l a b).length ≤ b - a ∧ (pySlice l a b).length ≤ l.length - a := by
  unfold pySlice
  simp only [List.length_drop, List.length_take]
  omega

omit C in
theorem frameKeep_refl (n : Node) : FrameKeep n n := ⟨rfl, rfl, rfl⟩

omit C in
theorem frameKeep_trans {a b c : Node} (h1 : FrameKeep a b) (h2 : FrameKeep b c) : FrameKeep a c :=
  ⟨h2.1.trans h1.1, h2.2.1.trans h1.2.1, h2.2.2.trans h1.2.2⟩

omit C in
/-- `setHdr` in continuation form -/
theorem mt_st_setHdr {v : Nat} {s0 s : NetState} (h : MT p0 a1 aN Lm tt rt v s0 s) (htx : TxC s)
    (g : Header → Header) {E : PyErr → NetState → Prop} {Q : Unit → NetState → Prop}
    (hQ : ∀ s', MT p0 a1 aN Lm tt rt v s0 s' → TxC s' → NP s s' →
      s'.node = { s.node with frameBuf := { s.node.frameBuf with header := g s.node.frameBuf.header } } → Q () s') :
    wp E (setHdr g) Q s := by
  rw [wp_setHdr]
  obtain ⟨m1, np1, n1⟩ := mt_setHdr h g
  refine hQ _ m1 ?_ np1 n1
  unfold TxC; rw [NetState.drv_setNode _ h.2.cur rfl]; exact htx

omit C in
theorem lt_st_setHdr {v : Nat} {s0 s : NetState} (h : LT p0 a1 aN Lm tt rt v s0 s)
    (g : Header → Header) {E : PyErr → NetState → Prop} {Q : Unit → NetState → Prop}
    (hQ : ∀ s', LT p0 a1 aN Lm tt rt v s0 s' → NP s s' →
      s'.node = { s.node with frameBuf := { s.node.frameBuf with header := g s.node.frameBuf.header } } → Q () s') :
    wp E (setHdr g) Q s := by
  rw [wp_setHdr]
  obtain ⟨m1, np1, n1⟩ := lt_setHdr h g
  exact hQ _ m1 np1 n1

omit C in
theorem tstep_nodeFragLoop (f : Nat) (ih : TotAll p0 a1 aN Lm tt rt f) : ∀ v total msgT left s0 s,
    MT p0 a1 aN Lm tt rt v s0 s → TxC s → s.node.frameBuf.message.length ≤ total * 24 → left ≤ total →
    left + bFR tt + 1 ≤ f + 1 →
    wp noErr (nodeFragLoop (f + 1) total msgT left)
      (fun _ s' => MT p0 a1 aN Lm tt rt v s0 s' ∧ TxC s' ∧ NP s s' ∧ FrameKeep s.node s'.node) s := by
  intro v total msgT left s0 s h htx hlen hle hf
  rw [nodeFragLoop]
  simp only [wp_bind, wp_ite, wp_pure, wp_getNode]
  split
  · exact ⟨h, htx, NP.refl s, frameKeep_refl _⟩
  · rename_i hl0
    -- the rest of an iteration, from a state `s2` whose header is the fragment's
    have rest : ∀ (be : Nat) (s2 : NetState), MT p0 a1 aN Lm tt rt v s0 s2 → TxC s2 → NP s s2 →
        FrameKeep s.node s2.node → (∃ t, s2.node.frameBuf.header.msgType = .int t) →
        (pySlice s.node.frameBuf.message ((total - left) * MAX_FRAG_SIZE) be).length ≤ 24 →
        wp noErr (liftPy s2.node.frameBuf.header.pack)
          (fun a s' =>
            wp noErr
              (rfSend f (a ++ pySlice s.node.frameBuf.message ((total - left) * MAX_FRAG_SIZE) be))
              (fun a s' =>
                wp noErr (fragRetry f 3 a)
                  (fun a s' =>
                    if (!a) = true then
                      MT p0 a1 aN Lm tt rt v s0 s' ∧ TxC s' ∧ NP s s' ∧ FrameKeep s.node s'.node
                    else if left = 1 then
                      MT p0 a1 aN Lm tt rt v s0 s' ∧ TxC s' ∧ NP s s' ∧ FrameKeep s.node s'.node
                    else wp noErr (nodeFragLoop f total msgT (left - 1))
                      (fun _ s' => MT p0 a1 aN Lm tt rt v s0 s' ∧ TxC s' ∧ NP s s' ∧ FrameKeep s.node s'.node) s')
                  s')
              s')
          s2 := by
      intro be s2 m2 tx2 np2 fk2 hty hsl
      obtain ⟨t, ht⟩ := hty
      obtain ⟨hb, hpk, hbl⟩ := hpack_ok _ t ht
      rw [hpk, wp_liftPy_ok]
      refine (ih.rfSend v _ s0 s2 m2 tx2 (by simp only [List.length_append]; omega)
        (by simp only [List.length_append]; omega) (by unfold bFR bTS at hf; omega)).post (fun r s3 p3 => ?_)
      refine (ih.fragRetry v 3 r s0 s3 p3.1 p3.2.1 (by unfold bFR at hf; omega)).post (fun res s4 p4 => ?_)
      have fk4 : FrameKeep s.node s4.node := by
        have : s4.node.frameBuf = s2.node.frameBuf := p4.2.2.2.trans p3.2.2.2
        exact ⟨by rw [this]; exact fk2.1, by rw [this]; exact fk2.2.1, by rw [this]; exact fk2.2.2⟩
      have np4 : NP s s4 := (np2.trans p3.2.2.1).trans p4.2.2.1
      split
      · exact ⟨p4.1, p4.2.1, np4, fk4⟩
      · split
        · exact ⟨p4.1, p4.2.1, np4, fk4⟩
        · have hlen4 : s4.node.frameBuf.message.length ≤ total * 24 := by rw [fk4.1]; exact hlen
          refine (ih.nodeFragLoop v total msgT (left - 1) s0 s4 p4.1 p4.2.1 hlen4 (by omega) (by omega)).post
            (fun _ s5 p5 => ?_)
          exact ⟨p5.1, p5.2.1, np4.trans p5.2.2.1, frameKeep_trans fk4 p5.2.2.2⟩
    -- the slices are at most 24 bytes long
    have hs1 : (pySlice s.node.frameBuf.message ((total - left) * MAX_FRAG_SIZE)
        ((total - left) * MAX_FRAG_SIZE + MAX_FRAG_SIZE)).length ≤ 24 := by
      have := (pySlice_length s.node.frameBuf.message ((total - left) * MAX_FRAG_SIZE)
        ((total - left) * MAX_FRAG_SIZE + MAX_FRAG_SIZE)).1
      unfold MAX_FRAG_SIZE at *
      omega
    apply mt_st_setHdr h htx; intro s1 m1 tx1 np1 n1
    have fk1 : FrameKeep s.node s1.node := by rw [n1]; exact ⟨rfl, rfl, rfl⟩
    split
    · rename_i hlast
      have hs2 : (pySlice s.node.frameBuf.message ((total - left) * MAX_FRAG_SIZE)
          s.node.frameBuf.message.length).length ≤ 24 := by
        have := (pySlice_length s.node.frameBuf.message ((total - left) * MAX_FRAG_SIZE)
          s.node.frameBuf.message.length).2
        have hc : total - left = total - 1 := by simpa using hlast
        unfold MAX_FRAG_SIZE at *
        have : left = 1 := by omega
        subst this
        have : (total - 1) * 24 + 24 = total * 24 := by
          have : total = (total - 1) + 1 := by omega
          rw [this]; simp [Nat.add_mul]
        omega
      apply mt_st_setHdr m1 tx1; intro s2 m2 tx2 np2 n2
      exact rest _ s2 m2 tx2 (np1.trans np2) (frameKeep_trans fk1 (by rw [n2]; exact ⟨rfl, rfl, rfl⟩))
        ⟨_, by rw [n2]; rfl⟩ hs2
    · split
      · apply mt_st_setHdr m1 tx1; intro s2 m2 tx2 np2 n2
        exact rest _ s2 m2 tx2 (np1.trans np2) (frameKeep_trans fk1 (by rw [n2]; exact ⟨rfl, rfl, rfl⟩))
          ⟨_, by rw [n2]; rfl⟩ hs1
      · apply mt_st_setHdr m1 tx1; intro s2 m2 tx2 np2 n2
        exact rest _ s2 m2 tx2 (np1.trans np2) (frameKeep_trans fk1 (by rw [n2]; exact ⟨rfl, rfl, rfl⟩))
          ⟨_, by rw [n2]; rfl⟩ hs1

omit C in
theorem mt_enqueue {v : Nat} {s0 s : NetState} (h : MT p0 a1 aN Lm tt rt v s0 s)
    (hty : ∃ t, s.node.frameBuf.header.msgType = .int t) {E : PyErr → NetState → Prop}
    {Q : Bool → NetState → Prop}
    (hQ : ∀ r s', MT p0 a1 aN Lm tt rt v s0 s' → NP s s' → FrameKeep s.node s'.node →
      (∃ t, s'.node.frameBuf.header.msgType = .int t) → s'.drv = s.drv →
      s'.node.frameBuf.header.reserved = s.node.frameBuf.header.reserved → Q r s') :
    wp E enqueueFrameBuf Q s := by
  unfold enqueueFrameBuf
  simp only [wp_bind, wp_getNode, wp_modNode, wp_ite, wp_takeId, wp_pure]
  generalize hq : (s.node.queue.enqueue s.node.frameBuf).1 = q'
  generalize hr : (s.node.queue.enqueue s.node.frameBuf).2.1 = r'
  generalize hfe : (s.node.queue.enqueue s.node.frameBuf).2.2 = f'
  have hfr := enqueue_frame s.node.queue s.node.frameBuf
  rw [hfe] at hfr
  have hmsg : f'.message = s.node.frameBuf.message := by rcases hfr with e | e <;> rw [e]
  obtain ⟨m1, np1, n1⟩ := mt_setNode h (fun n => { n with queue := q', frameBuf := f' })
    ⟨rfl, rfl, rfl, rfl⟩ ⟨rfl, rfl, rfl⟩ (by show f'.message.length ≤ Lm; rw [hmsg]; exact h.2.msg) h.2.tab
  have hd : (s.setNode fun n => { n with queue := q', frameBuf := f' }).drv = s.drv :=
    NetState.drv_setNode _ h.2.cur rfl
  have fk : FrameKeep s.node (s.setNode fun n => { n with queue := q', frameBuf := f' }).node := by
    rw [n1]
    rcases hfr with e | e
    · exact ⟨by show f'.message = _; rw [e], by show f'.header.fromNode = _; rw [e], by show f'.header.toNode = _; rw [e]⟩
    · exact ⟨by show f'.message = _; rw [e], by show f'.header.fromNode = _; rw [e]; rfl,
        by show f'.header.toNode = _; rw [e]; rfl⟩
  have ty1 : ∃ t, (s.setNode fun n => { n with queue := q', frameBuf := f' }).node.frameBuf.header.msgType = .int t := by
    rw [n1]
    show ∃ t, f'.header.msgType = .int t
    rcases hfr with e | e
    · rw [e]; exact hty
    · rw [e]; exact ⟨_, rfl⟩
  have hres : (s.setNode fun n => { n with queue := q', frameBuf := f' }).node.frameBuf.header.reserved
      = s.node.frameBuf.header.reserved := by
    rw [n1]
    show f'.header.reserved = _
    rcases hfr with e | e <;> rw [e] <;> rfl
  split
  · exact hQ _ _ ⟨(stable_midF v s0).nextId _ _ m1.1, (m1.2.nextId _).1⟩ (np1.trans (m1.2.nextId _).2) fk ty1 hd hres
  · exact hQ _ _ m1 np1 fk ty1 hd hres

omit C in
theorem tstep_nodeWriteToPipe (f : Nat) (ih : TotAll p0 a1 aN Lm tt rt f) : ∀ v toNode toPipe isMc s0 s,
    MT p0 a1 aN Lm tt rt v s0 s → (∃ t, s.node.frameBuf.header.msgType = .int t) →
    ((toNode = s.node.a.addr ∧ isMc = false) ∨ ∃ x, pipeAddress s.node.cfg toNode toPipe = .ok x) →
    bWP Lm tt ≤ f + 1 →
    wp noErr (nodeWriteToPipe (f + 1) toNode toPipe isMc)
      (fun _ s' => ∃ v', MT p0 a1 aN Lm tt rt v' s0 s' ∧ (isMc = true → v' = 0x3E) ∧ NP s s' ∧
        FrameKeep s.node s'.node ∧ (∃ t, s'.node.frameBuf.header.msgType = .int t) ∧
        (s.node.frameBuf.message.length ≤ 24 →
          s'.node.frameBuf.header.reserved = s.node.frameBuf.header.reserved)) s := by
  intro v toNode toPipe isMc s0 s h hty hpa hf
  rw [nodeWriteToPipe]
  simp only [wp_bind, wp_ite, wp_pure, wp_getNode, pipeAddr]
  split
  · rename_i hlb
    apply mt_enqueue h hty
    intro r s1 m1 np1 fk1 ty1 _ hres1
    refine ⟨v, m1, fun hm => ?_, np1, fk1, ty1, fun _ => hres1⟩
    rw [hm] at hlb
    exact absurd hlb.2 (by decide)
  · rename_i hnlb
    obtain ⟨x, hx⟩ : ∃ x, pipeAddress s.node.cfg toNode toPipe = .ok x := by
      rcases hpa with ⟨e1, e2⟩ | hx
      · exact absurd ⟨e1, by rw [e2]; rfl⟩ hnlb
      · exact hx
    have body : ∀ v', (isMc = true → v' = 0x3E) → v' < 64 →
        wp noErr (liftRf (setAutoAckAttr (Arg.i ((v' : Nat) : Int))))
          (fun a s' =>
            wp noErr (liftRf (setListen false))
              (fun a s' =>
                wp noErr (liftPy (pipeAddress s'.node.cfg toNode toPipe))
                  (fun a s' =>
                    wp noErr (liftRf (openTxPipe a))
                      (fun a s' =>
                        if List.length s'.node.frameBuf.message ≤ MAX_FRAG_SIZE then
                          wp noErr (liftPy s'.node.frameBuf.pack)
                            (fun a s'_1 =>
                              wp noErr (rfSend f a)
                                (fun a s'_2 =>
                                  if a = true then
                                    ∃ v', MT p0 a1 aN Lm tt rt v' s0 s'_2 ∧ (isMc = true → v' = 62) ∧ NP s s'_2 ∧
                                      FrameKeep s.node s'_2.node ∧ (∃ t, s'_2.node.frameBuf.header.msgType = .int t) ∧
                                      (s.node.frameBuf.message.length ≤ 24 →
                                        s'_2.node.frameBuf.header.reserved = s.node.frameBuf.header.reserved)
                                  else
                                    wp noErr (txStandbyFor f s'.node.txTimeout)
                                      (fun x s' =>
                                        ∃ v', MT p0 a1 aN Lm tt rt v' s0 s' ∧ (isMc = true → v' = 62) ∧ NP s s' ∧
                                          FrameKeep s.node s'.node ∧ (∃ t, s'.node.frameBuf.header.msgType = .int t) ∧
                                          (s.node.frameBuf.message.length ≤ 24 →
                                            s'.node.frameBuf.header.reserved = s.node.frameBuf.header.reserved))
                                      s'_2)
                                s'_1)
                            s'
                        else
                          wp noErr
                            (nodeFragLoop f
                              ((if List.length s'.node.frameBuf.message % MAX_FRAG_SIZE ≠ 0 then 1 else 0) +
                                List.length s'.node.frameBuf.message / MAX_FRAG_SIZE)
                              s'.node.frameBuf.header.ty
                              ((if List.length s'.node.frameBuf.message % MAX_FRAG_SIZE ≠ 0 then 1 else 0) +
                                List.length s'.node.frameBuf.message / MAX_FRAG_SIZE))
                            (fun a s'_1 =>
                              wp noErr (setHdr fun h => h.setTy s'.node.frameBuf.header.ty)
                                (fun a s' =>
                                  ∃ v', MT p0 a1 aN Lm tt rt v' s0 s' ∧ (isMc = true → v' = 62) ∧ NP s s' ∧
                                    FrameKeep s.node s'.node ∧ (∃ t, s'.node.frameBuf.header.msgType = .int t) ∧
                                    (s.node.frameBuf.message.length ≤ 24 →
                                      s'.node.frameBuf.header.reserved = s.node.frameBuf.header.reserved))
                                s'_1)
                            s')
                      s')
                  s')
              s')
          s := by
      intro v' hv' hlt
      apply n_prog (safe_setAutoAck _) h.2
      apply n_setAutoAck_mid h.1.1 v' hlt
      intro s1 hm1 f1 t1 np1 n1
      have g1 : MT p0 a1 aN Lm tt rt v' s0 s1 := ⟨⟨hm1, h.1.2.trans f1⟩, t1⟩
      apply n_prog (safe_setListen _) t1
      apply n_setListen_false_tx hm1
      intro s2 hm2 f2 tx2 t2 np2 n2
      have g2 : MT p0 a1 aN Lm tt rt v' s0 s2 := ⟨⟨hm2, g1.1.2.trans f2⟩, t2⟩
      have hcfg2 : s2.node.cfg = s.node.cfg := by rw [f2.cfg, f1.cfg]
      rw [hcfg2, hx, wp_liftPy_ok]
      apply n_prog (safe_openTxPipe _) t2
      apply n_openTxPipe_tx hm2 tx2 x (pipeAddress_length _ _ _ _ hx)
      intro s3 hm3 f3 tx3 t3 np3 n3
      have g3 : MT p0 a1 aN Lm tt rt v' s0 s3 := ⟨⟨hm3, g2.1.2.trans f3⟩, t3⟩
      have NP3 : NP s s3 := (np1.trans np2).trans np3
      have hfb3 : s3.node.frameBuf = s.node.frameBuf := by rw [n3, n2, n1]
      have fk3 : FrameKeep s.node s3.node := ⟨by rw [hfb3], by rw [hfb3], by rw [hfb3]⟩
      have ty3 : ∃ t, s3.node.frameBuf.header.msgType = .int t := by rw [hfb3]; exact hty
      have htt3 : s3.node.txTimeout = tt := t3.tt
      unfold bWP at hf
      split
      · rename_i hshort
        obtain ⟨t, ht⟩ := ty3
        obtain ⟨pk, hpk, hpl⟩ := pack_ok _ t ht
        rw [hpk, wp_liftPy_ok]
        unfold MAX_FRAG_SIZE at hshort
        refine (ih.rfSend v' pk s0 s3 g3 tx3 (by omega) (by omega) (by unfold bTS at hf; omega)).post (fun r s4 p4 => ?_)
        have fk4 : FrameKeep s.node s4.node := by
          have := p4.2.2.2
          exact ⟨by rw [this]; exact fk3.1, by rw [this]; exact fk3.2.1, by rw [this]; exact fk3.2.2⟩
        have ty4 : ∃ t, s4.node.frameBuf.header.msgType = .int t := by rw [p4.2.2.2]; exact ⟨t, ht⟩
        have hr4 : s4.node.frameBuf.header.reserved = s.node.frameBuf.header.reserved := by
          rw [p4.2.2.2, hfb3]
        split
        · exact ⟨v', p4.1, hv', NP3.trans p4.2.2.1, fk4, ty4, fun _ => hr4⟩
        · rw [htt3]
          refine (ih.txStandbyFor v' tt s0 s4 p4.1 p4.2.1 (by unfold bTS at hf; omega)).post (fun _ s5 p5 => ?_)
          have hfb5 := p5.2.2.2
          exact ⟨v', p5.1, hv', (NP3.trans p4.2.2.1).trans p5.2.2.1,
            ⟨by rw [hfb5]; exact fk4.1, by rw [hfb5]; exact fk4.2.1, by rw [hfb5]; exact fk4.2.2⟩,
            by rw [hfb5]; exact ty4, fun _ => by rw [hfb5]; exact hr4⟩
      · rename_i hlong
        have hmsg3 : s3.node.frameBuf.message.length ≤ Lm := t3.msg
        have htot : s3.node.frameBuf.message.length ≤
            ((if s3.node.frameBuf.message.length % MAX_FRAG_SIZE ≠ 0 then 1 else 0) +
              s3.node.frameBuf.message.length / MAX_FRAG_SIZE) * 24 := by
          unfold MAX_FRAG_SIZE
          split <;> omega
        have hfuel : ((if s3.node.frameBuf.message.length % MAX_FRAG_SIZE ≠ 0 then 1 else 0) +
              s3.node.frameBuf.message.length / MAX_FRAG_SIZE) + bFR tt + 1 ≤ f := by
          unfold bFL at hf
          unfold MAX_FRAG_SIZE
          have : s3.node.frameBuf.message.length / 24 ≤ Lm / 24 := Nat.div_le_div_right hmsg3
          split <;> omega
        refine (ih.nodeFragLoop v' _ _ _ s0 s3 g3 tx3 htot (Nat.le_refl _) hfuel).post (fun r s4 p4 => ?_)
        apply mt_st_setHdr p4.1 p4.2.1; intro s5 m5 _ np5 n5
        refine ⟨v', m5, hv', (NP3.trans p4.2.2.1).trans np5, ?_, ⟨_, by rw [n5]; rfl⟩, fun hsm => ?_⟩
        · have fk4 := frameKeep_trans fk3 p4.2.2.2
          rw [n5]
          exact ⟨fk4.1, fk4.2.1, fk4.2.2⟩
        · exfalso
          rw [hfb3] at hlong
          unfold MAX_FRAG_SIZE at hlong
          omega
    cases isMc with
    | true => exact body 0x3E (fun _ => rfl) (by decide)
    | false => exact body 0x3F (fun hh => by cases hh) (by decide)

omit C in
theorem tstep_rfRead (f : Nat) : ∀ v s0 s, LT p0 a1 aN Lm tt rt v s0 s → 1 ≤ f + 1 →
    wp noErr (rfRead (f + 1))
      (fun r s' => LT p0 a1 aN Lm tt rt v s0 s' ∧ NP s s' ∧ s.w.clock + SPI_COST_NS ≤ s'.w.clock ∧
        (∀ b, r = some b → RxOk b ∧ s'.M + 1 ≤ s.M) ∧ s'.node.frameBuf = s.node.frameBuf) s := by
  intro v s0 s h _
  rw [rfRead]
  simp only [wp_bind, wp_deliverDue, wp_get, wp_ite]
  have hc1 : (afterDue s).closed = false := h.2.open_
  simp only [hc1, Bool.false_eq_true, ↓reduceIte]
  obtain ⟨t1, np1, hclk⟩ := h.2.due
  have l1 : LstF p0 a1 aN v s0 (afterDue s) := by
    have := deliverDue_lst (E := noErr) (Q := fun _ s' => LstF p0 a1 aN v s0 s') h.1 (fun _ h' => h')
    rw [wp_deliverDue] at this
    exact this
  have hfb1 : (afterDue s).node.frameBuf = s.node.frameBuf := by
    have : (afterDue s).node = { s.node with arrivals := s.node.arrivals.dropWhile (fun a => decide (a.1 ≤ s.w.clock)) } :=
      NetState.node_setNode ({ s with w := dueWorld s }) _ h.2.cur
    rw [this]
  apply n_read l1.1 t1
  intro r s2 l2 f2 t2 np2 hc hm hfb
  refine ⟨⟨⟨l2, l1.2.trans f2⟩, t2⟩, np1.trans np2, by rw [← hclk]; exact hc, ?_, hfb.trans hfb1⟩
  intro b hb
  obtain ⟨x1, x2⟩ := hm b hb
  exact ⟨x1, by have := np1.m; omega⟩

/-! ### unpacking, validity -/

omit C in
theorem isValid_tree {ds : List Nat} (hn : IsNode ds) : isValid (val ds) = true := by
  unfold isValid
  split
  · rfl
  · rw [isValidGo_iff]
    exact ⟨ds, hn.1, rfl, Or.inr (by simp [VALID_DIGIT_LIMIT]; have := hn.2; omega)⟩

omit C in
theorem isValid_default : isValid NETWORK_DEFAULT_ADDR = true := by
  have : NETWORK_DEFAULT_ADDR = val [4, 4, 4, 4] := by decide
  rw [this]; exact isValid_tree (by decide)

omit C in
theorem isValid_zero : isValid 0 = true := isValid_tree (ds := []) (by decide)

omit C in
theorem treeAt_valid {a : NodeAddr} (h : TreeAt a) : isValid a.addr = true := by
  obtain ⟨ds, hn, L, _, rfl⟩ := h
  exact isValid_tree hn

omit C in
theorem treeAt_lvl {a : NodeAddr} (h : TreeAt a) : a.netLvl ≤ 4 := by
  obtain ⟨ds, hn, L, hL, rfl⟩ := h
  exact hL

omit C in
theorem unpack_facts (fr : Frame) (b : Bytes) :
    ((fr.unpack b).2 = true → (fr.unpack b).1.message = b.drop 8 ∧
      (∃ t, (fr.unpack b).1.header.msgType = .int t) ∧ (b.wf → (fr.unpack b).1.header.reserved < 256)) ∧
    ((fr.unpack b).2 = false → (fr.unpack b).1 = fr) := by
  unfold Frame.unpack Header.unpack
  match b with
  | [] => exact ⟨fun h => (by cases h), fun _ => rfl⟩
  | [_] => exact ⟨fun h => (by cases h), fun _ => rfl⟩
  | [_, _] => exact ⟨fun h => (by cases h), fun _ => rfl⟩
  | [_, _, _] => exact ⟨fun h => (by cases h), fun _ => rfl⟩
  | [_, _, _, _] => exact ⟨fun h => (by cases h), fun _ => rfl⟩
  | [_, _, _, _, _] => exact ⟨fun h => (by cases h), fun _ => rfl⟩
  | [_, _, _, _, _, _] => exact ⟨fun h => (by cases h), fun _ => rfl⟩
  | [_, _, _, _, _, _, _] => exact ⟨fun h => (by cases h), fun _ => rfl⟩
  | _ :: _ :: _ :: _ :: _ :: _ :: ty :: rs :: t =>
    exact ⟨fun _ => ⟨rfl, ⟨ty, rfl⟩, fun hw => hw rs (by simp)⟩, fun h => (by cases h)⟩

omit C in
theorem isAck_ok (fr : Frame) (t : Nat) (h : fr.header.msgType = .int t) :
    fr.isAckType = .ok (decide (64 < t) && decide (t < 192)) ∧ fr.header.ty = t := by
  unfold Frame.isAckType Header.ty
  rw [h]
  exact ⟨rfl, rfl⟩

omit C in
theorem lt_midF {v : Nat} {s0 s : NetState} (h : LT p0 a1 aN Lm tt rt v s0 s) : MT p0 a1 aN Lm tt rt v s0 s :=
  ⟨h.1.midF, h.2⟩

omit C in
theorem lt_enqueue {v : Nat} {s0 s : NetState} (h : LT p0 a1 aN Lm tt rt v s0 s)
    (hty : ∃ t, s.node.frameBuf.header.msgType = .int t) {E : PyErr → NetState → Prop}
    {Q : Bool → NetState → Prop}
    (hQ : ∀ r s', LT p0 a1 aN Lm tt rt v s0 s' → NP s s' → FrameKeep s.node s'.node →
      (∃ t, s'.node.frameBuf.header.msgType = .int t) →
      s'.node.frameBuf.header.reserved = s.node.frameBuf.header.reserved → Q r s') :
    wp E enqueueFrameBuf Q s := by
  unfold enqueueFrameBuf
  simp only [wp_bind, wp_getNode, wp_modNode, wp_ite, wp_takeId, wp_pure]
  generalize hq : (s.node.queue.enqueue s.node.frameBuf).1 = q'
  generalize hr : (s.node.queue.enqueue s.node.frameBuf).2.1 = r'
  generalize hfe : (s.node.queue.enqueue s.node.frameBuf).2.2 = f'
  have hfr := enqueue_frame s.node.queue s.node.frameBuf
  rw [hfe] at hfr
  have hmsg : f'.message = s.node.frameBuf.message := by rcases hfr with e | e <;> rw [e]
  obtain ⟨m1, np1, n1⟩ := lt_setNode h (fun n => { n with queue := q', frameBuf := f' })
    ⟨rfl, rfl, rfl, rfl⟩ ⟨rfl, rfl, rfl⟩ (by show f'.message.length ≤ Lm; rw [hmsg]; exact h.2.msg) h.2.tab
  have fk : FrameKeep s.node (s.setNode fun n => { n with queue := q', frameBuf := f' }).node := by
    rw [n1]
    rcases hfr with e | e
    · exact ⟨by show f'.message = _; rw [e], by show f'.header.fromNode = _; rw [e], by show f'.header.toNode = _; rw [e]⟩
    · exact ⟨by show f'.message = _; rw [e], by show f'.header.fromNode = _; rw [e]; rfl,
        by show f'.header.toNode = _; rw [e]; rfl⟩
  have ty1 : ∃ t, (s.setNode fun n => { n with queue := q', frameBuf := f' }).node.frameBuf.header.msgType = .int t := by
    rw [n1]
    show ∃ t, f'.header.msgType = .int t
    rcases hfr with e | e
    · rw [e]; exact hty
    · rw [e]; exact ⟨_, rfl⟩
  have hres : (s.setNode fun n => { n with queue := q', frameBuf := f' }).node.frameBuf.header.reserved
      = s.node.frameBuf.header.reserved := by
    rw [n1]
    show f'.header.reserved = _
    rcases hfr with e | e <;> rw [e] <;> rfl
  split
  · exact hQ _ _ ⟨(stable_lstF v s0).nextId _ _ m1.1, (m1.2.nextId _).1⟩ (np1.trans (m1.2.nextId _).2) fk ty1 hres
  · exact hQ _ _ m1 np1 fk ty1 hres

omit C in
theorem hdrOk_keep {n n' : Node} (h : HdrOk n) (fk : FrameKeep n n') (ty : ∃ t, n'.frameBuf.header.msgType = .int t)
    (hr : n'.frameBuf.header.reserved = n.frameBuf.header.reserved) :
    HdrOk n' :=
  ⟨ty, by rw [fk.2.1]; exact h.2.1, by rw [fk.2.2]; exact h.2.2.1, by rw [hr]; exact h.2.2.2.1,
   by rw [fk.1]; exact h.2.2.2.2⟩

omit C in
theorem lt_sleep {v : Nat} {s0 s : NetState} (h : LT p0 a1 aN Lm tt rt v s0 s) (ns : Nat) :
    LT p0 a1 aN Lm tt rt v s0 { s with w := s.w.sleep ns } ∧ NP s { s with w := s.w.sleep ns } :=
  ⟨⟨(stable_lstF v s0).sleep s ns h.1, (h.2.sleep ns).1⟩, (h.2.sleep ns).2.1⟩

section
variable (hLm : 24 ≤ Lm)
include hLm

omit C in
theorem tstep_netUpdate (f : Nat) (ih : TotAll p0 a1 aN Lm tt rt f) : ∀ rv s0 s,
    LT p0 a1 aN Lm tt rt 0x3E s0 s → (rv ≠ 0 → HdrOk s.node) → bNU Lm tt s.M ≤ f + 1 →
    wp noErr (netUpdate (f + 1) rv)
      (fun r s' => LT p0 a1 aN Lm tt rt 0x3E s0 s' ∧ NP s s' ∧ s.w.clock + SPI_COST_NS ≤ s'.w.clock ∧
        (r ≠ 0 → HdrOk s'.node)) s := by
  intro rv s0 s h hrv hf
  rw [netUpdate]
  simp only [wp_bind]
  unfold bNU at hf
  refine (ih.rfRead 0x3E s0 s h (by omega)).post (fun buf s1 p1 => ?_)
  obtain ⟨l1, np1, hc1, hm1, hfb1⟩ := p1
  cases buf with
  | none =>
    refine ⟨l1, np1, hc1, fun hr => ?_⟩
    have := hrv hr
    unfold HdrOk at *
    rw [hfb1]; exact this
  | some b =>
    obtain ⟨hb, hM⟩ := hm1 b rfl
    simp only [wp_bind, wp_getNode, wp_modNode, wp_ite, wp_pure]
    obtain ⟨u1, u2⟩ := unpack_facts s1.node.frameBuf b
    have hmsg : (s1.node.frameBuf.unpack b).1.message.length ≤ Lm := by
      cases hok : (s1.node.frameBuf.unpack b).2 with
      | true =>
        rw [(u1 hok).1]
        simp only [List.length_drop]
        have := hb.2.1
        omega
      | false => rw [u2 hok]; exact l1.2.msg
    obtain ⟨l2, np2, n2⟩ := lt_setNode l1 (fun n => { n with frameBuf := (s1.node.frameBuf.unpack b).1 })
      ⟨rfl, rfl, rfl, rfl⟩ ⟨rfl, rfl, rfl⟩ hmsg l1.2.tab
    have hM2 : (s1.setNode fun n => { n with frameBuf := (s1.node.frameBuf.unpack b).1 }).M + 1 ≤ s.M := by
      have := np2.m; omega
    have hclk2 : s.w.clock + SPI_COST_NS ≤ (s1.setNode fun n => { n with frameBuf := (s1.node.frameBuf.unpack b).1 }).w.clock := hc1
    split
    · -- discarded
      refine (ih.netUpdate 0 s0 _ l2 (fun h => absurd rfl h) (by unfold bNU; omega)).post (fun r s3 p3 => ?_)
      exact ⟨p3.1, (np1.trans np2).trans p3.2.1, Nat.le_trans hclk2 (Nat.le_trans (Nat.le_add_right _ _) p3.2.2.1), p3.2.2.2⟩
    · rename_i hvalid
      have hv : (s1.node.frameBuf.unpack b).2 = true ∧ isValid (s1.node.frameBuf.unpack b).1.header.toNode = true ∧
          isValid (s1.node.frameBuf.unpack b).1.header.fromNode = true := by
        simp only [Bool.or_eq_true, Bool.not_eq_true', not_or, Bool.not_eq_false] at hvalid
        exact ⟨hvalid.1.1, hvalid.1.2, hvalid.2⟩
      have hok2 : HdrOk (s1.setNode fun n => { n with frameBuf := (s1.node.frameBuf.unpack b).1 }).node := by
        rw [n2]
        refine ⟨(u1 hv.1).2.1, hv.2.2, hv.2.1, (u1 hv.1).2.2 hb.2.2, ?_⟩
        show (s1.node.frameBuf.unpack b).1.message.length ≤ 24
        rw [(u1 hv.1).1, List.length_drop]
        have := hb.2.1
        omega
      have hty2 : (s1.setNode fun n => { n with frameBuf := (s1.node.frameBuf.unpack b).1 }).node.frameBuf.header.ty
          = (s1.node.frameBuf.unpack b).1.header.ty := by rw [n2]
      have hfH : bH Lm tt ≤ f := by
        have : 1 ≤ s.M := by omega
        omega
      have after : ∀ (r : Bool × Nat) (s3 : NetState),
          (LT p0 a1 aN Lm tt rt 0x3E s0 s3 ∧
            NP (s1.setNode fun n => { n with frameBuf := (s1.node.frameBuf.unpack b).1 }) s3 ∧ HdrOk s3.node) →
          (if (!r.1) = true then
            LT p0 a1 aN Lm tt rt 0x3E s0 s3 ∧ NP s s3 ∧ s.w.clock + SPI_COST_NS ≤ s3.w.clock ∧ (r.2 ≠ 0 → HdrOk s3.node)
          else wp noErr (netUpdate f r.2)
            (fun r s' => LT p0 a1 aN Lm tt rt 0x3E s0 s' ∧ NP s s' ∧ s.w.clock + SPI_COST_NS ≤ s'.w.clock ∧
              (r ≠ 0 → HdrOk s'.node)) s3) := by
        intro r s3 p3
        have np3 : NP s s3 := (np1.trans np2).trans p3.2.1
        have hc3 : s.w.clock + SPI_COST_NS ≤ s3.w.clock := Nat.le_trans hclk2 p3.2.1.clock
        split
        · exact ⟨p3.1, np3, hc3, fun _ => p3.2.2⟩
        · have hM3 : s3.M + 1 ≤ s.M := by have := p3.2.1.m; omega
          refine (ih.netUpdate r.2 s0 s3 p3.1 (fun _ => p3.2.2) (by unfold bNU; omega)).post (fun r' s4 p4 => ?_)
          exact ⟨p4.1, np3.trans p4.2.1, Nat.le_trans hc3 p4.2.1.clock, p4.2.2.2⟩
      split
      · exact (ih.handleThis _ s0 _ l2 hok2 hty2 hfH).post (fun r s3 p3 => after r s3 p3)
      · exact (ih.handleOther _ s0 _ l2 hok2 hty2 hfH).post (fun r s3 p3 => after r s3 p3)

omit C hLm in
theorem tstep_ackWait (f : Nat) (ih : TotAll p0 a1 aN Lm tt rt f) : ∀ dl s0 s,
    LT p0 a1 aN Lm tt rt 0x3E s0 s → (dl + 10000 - s.w.clock) / 10000 + 1 + bNU Lm tt s.M ≤ f + 1 →
    wp noErr (ackWait (f + 1) dl) (fun _ s' => LT p0 a1 aN Lm tt rt 0x3E s0 s' ∧ NP s s') s := by
  intro dl s0 s h hf
  rw [ackWait]
  simp only [wp_bind, wp_ite, wp_pure, wp_nowNs]
  refine (ih.netUpdate 0 s0 s h (fun h => absurd rfl h) (by omega)).post (fun t s1 p1 => ?_)
  obtain ⟨l1, np1, hc1, _⟩ := p1
  have hc1' : s.w.clock + 10000 ≤ s1.w.clock := hc1
  split
  · exact ⟨l1, np1⟩
  · split
    · exact ⟨l1, np1⟩
    · rename_i hnot
      have hM : bNU Lm tt s1.M ≤ bNU Lm tt s.M := by unfold bNU; have := np1.m; omega
      refine (ih.ackWait dl s0 s1 l1 (by omega)).post (fun _ s2 p2 => ?_)
      exact ⟨p2.1, np1.trans p2.2⟩

omit C hLm in
theorem mt_st_setHdr0 {v : Nat} {s0 s : NetState} (h : MT p0 a1 aN Lm tt rt v s0 s)
    (g : Header → Header) {E : PyErr → NetState → Prop} {Q : Unit → NetState → Prop}
    (hQ : ∀ s', MT p0 a1 aN Lm tt rt v s0 s' → NP s s' →
      s'.node = { s.node with frameBuf := { s.node.frameBuf with header := g s.node.frameBuf.header } } → Q () s') :
    wp E (setHdr g) Q s := by
  rw [wp_setHdr]
  obtain ⟨m1, np1, n1⟩ := mt_setHdr h g
  exact hQ _ m1 np1 n1

omit C hLm in
/-- the exit of `_write`, total -/
theorem t_write_exit {v : Nat} {s0 s sA : NetState} (h : MT p0 a1 aN Lm tt rt v s0 s) (hnp : NP sA s)
    (mc : Bool) (hmc : mc = true → v = 0x3E) (P : NetState → Prop)
    (hP : ∀ s', s'.node.frameBuf = s.node.frameBuf → P s') :
    wp noErr (liftRf (setListen true))
      (fun a s' =>
        if (!mc) = true then
          wp noErr (liftRf (setAutoAckAttr (Arg.i 62)))
            (fun a s' => LT p0 a1 aN Lm tt rt 0x3E s0 s' ∧ NP sA s' ∧ P s') s'
        else LT p0 a1 aN Lm tt rt 0x3E s0 s' ∧ NP sA s' ∧ P s') s := by
  apply n_prog (safe_setListen _) h.2
  apply n_setListen_true h.1.1
  intro s1 l1 f1 t1 np1 n1
  split
  · apply n_prog (safe_setAutoAck _) t1
    apply n_setAutoAck_lst l1 0x3E (by decide)
    intro s2 l2 f2 t2 np2 n2
    exact ⟨⟨⟨l2, (h.1.2.trans f1).trans f2⟩, t2⟩, (hnp.trans np1).trans np2, hP _ (by rw [n2, n1])⟩
  · rename_i hm
    have : mc = true := by simpa using hm
    rw [hmc this] at l1
    exact ⟨⟨⟨l1, h.1.2.trans f1⟩, t1⟩, hnp.trans np1, hP _ (by rw [n1])⟩

omit C in
theorem tstep_nodeWrite (f : Nat) (ih : TotAll p0 a1 aN Lm tt rt f) : ∀ v wd st s0 s,
    MT p0 a1 aN Lm tt rt v s0 s → HdrOk s.node → WdOk s.node.cfg wd st →
    bNW0 Lm tt ≤ f + 1 → (¬ NoWait st s.node.frameBuf.header.ty → bNW Lm tt rt s.M ≤ f + 1) →
    wp noErr (nodeWrite (f + 1) wd st)
      (fun _ s' => LT p0 a1 aN Lm tt rt 0x3E s0 s' ∧ NP s s' ∧
        (NoWait st s.node.frameBuf.header.ty → HdrOk s'.node)) s := by
  intro v wd st s0 s h hok hwd hf0 hfw
  rw [nodeWrite]
  simp only [wp_bind, wp_getNode, wp_ite, wp_pure]
  obtain ⟨t, ht⟩ := hok.1
  obtain ⟨hack, hty⟩ := isAck_ok s.node.frameBuf t ht
  rw [hack, wp_liftPy_ok]
  rw [hty] at hfw ⊢
  -- the target of the first transmission exists
  have htarget : ((logi2phys s.node.a wd st).1 = s.node.a.addr ∧ (logi2phys s.node.a wd st).2.2 = false) ∨
      ∃ x, pipeAddress s.node.cfg (logi2phys s.node.a wd st).1 (logi2phys s.node.a wd st).2.1 = .ok x := by
    by_cases hst : st ≤ 1
    · exact Or.inr (l2p_ok h.2.good h.2.tree (hwd.1 hst) hst)
    · have : st > 1 := by omega
      rw [l2p_direct _ _ _ this]
      exact Or.inr (hwd.2 this)
  unfold bNW0 at hf0
  have main : ∀ s1, MT p0 a1 aN Lm tt rt v s0 s1 → NP s s1 → s1.node.frameBuf = s.node.frameBuf →
      s1.node.a = s.node.a → s1.node.cfg = s.node.cfg →
      wp noErr
        (nodeWriteToPipe f (logi2phys s.node.a wd st).fst (logi2phys s.node.a wd st).2.fst
          (logi2phys s.node.a wd st).2.snd)
        (fun a_1 s' =>
          if a_1 = true ∧ (decide (64 < t) && decide (t < 192)) = true then
            if st = TX_ROUTED ∧ (logi2phys s.node.a wd st).fst = wd ∧
                s'.node.frameBuf.header.fromNode ≠ s'.node.a.addr then
              wp noErr
                (setHdr fun h =>
                  { fromNode := (h.setTy NETWORK_ACK).fromNode, toNode := h.fromNode,
                    frameId := (h.setTy NETWORK_ACK).frameId, msgType := (h.setTy NETWORK_ACK).msgType,
                    reserved := (h.setTy NETWORK_ACK).reserved })
                (fun a s'_1 =>
                  wp noErr
                    (nodeWriteToPipe f (logi2phys s'.node.a s'.node.frameBuf.header.fromNode TX_ROUTED).fst
                      (logi2phys s'.node.a s'.node.frameBuf.header.fromNode TX_ROUTED).2.fst
                      (logi2phys s'.node.a s'.node.frameBuf.header.fromNode TX_ROUTED).2.snd)
                    (fun a s'_2 =>
                      wp noErr (liftRf (setListen true))
                        (fun a s'_3 =>
                          if (!(logi2phys s'.node.a s'.node.frameBuf.header.fromNode TX_ROUTED).2.snd) = true then
                            wp noErr (liftRf (setAutoAckAttr (Arg.i 62)))
                              (fun a s' => LT p0 a1 aN Lm tt rt 0x3E s0 s' ∧ NP s s' ∧ (NoWait st t → HdrOk s'.node)) s'_3
                          else LT p0 a1 aN Lm tt rt 0x3E s0 s'_3 ∧ NP s s'_3 ∧ (NoWait st t → HdrOk s'_3.node))
                        s'_2)
                    s'_1)
                s'
            else
              if (logi2phys s.node.a wd st).fst ≠ wd ∧ (st = TX_NORMAL ∨ st = TX_LOGICAL) then
                wp noErr (liftRf (setListen true))
                  (fun a s'_1 =>
                    wp noErr (liftRf (setAutoAckAttr (Arg.i 62)))
                      (fun a s'_2 =>
                        wp noErr Net.nowNs
                          (fun a s'_3 =>
                            wp noErr (ackWait f (s'.node.routeTimeout * 1000000 + a))
                              (fun _ s' => LT p0 a1 aN Lm tt rt 0x3E s0 s' ∧ NP s s' ∧ (NoWait st t → HdrOk s'.node)) s'_3)
                          s'_2)
                      s'_1)
                  s'
              else
                wp noErr (liftRf (setListen true))
                  (fun a s' =>
                    if (!(logi2phys s.node.a wd st).2.snd) = true then
                      wp noErr (liftRf (setAutoAckAttr (Arg.i 62)))
                        (fun a s' => LT p0 a1 aN Lm tt rt 0x3E s0 s' ∧ NP s s' ∧ (NoWait st t → HdrOk s'.node)) s'
                    else LT p0 a1 aN Lm tt rt 0x3E s0 s' ∧ NP s s' ∧ (NoWait st t → HdrOk s'.node))
                  s'
          else
            wp noErr (liftRf (setListen true))
              (fun a s' =>
                if (!(logi2phys s.node.a wd st).2.snd) = true then
                  wp noErr (liftRf (setAutoAckAttr (Arg.i 62)))
                    (fun a s' => LT p0 a1 aN Lm tt rt 0x3E s0 s' ∧ NP s s' ∧ (NoWait st t → HdrOk s'.node)) s'
                else LT p0 a1 aN Lm tt rt 0x3E s0 s' ∧ NP s s' ∧ (NoWait st t → HdrOk s'.node))
              s')
        s1 := by
    intro s1 h1 np1 hfb1 ha1 hc1
    have hty1 : ∃ t, s1.node.frameBuf.header.msgType = .int t := by rw [hfb1]; exact ⟨t, ht⟩
    have htarget1 : ((logi2phys s.node.a wd st).1 = s1.node.a.addr ∧ (logi2phys s.node.a wd st).2.2 = false) ∨
        ∃ x, pipeAddress s1.node.cfg (logi2phys s.node.a wd st).1 (logi2phys s.node.a wd st).2.1 = .ok x := by
      rw [ha1, hc1]; exact htarget
    refine (ih.nodeWriteToPipe v _ _ _ s0 s1 h1 hty1 htarget1 (by omega)).post (fun r s2 hx => ?_)
    obtain ⟨v2, h2, hmc, np2, fk2, ty2, R2⟩ := hx
    have NP2 : NP s s2 := np1.trans np2
    have hok2 : HdrOk s2.node := by
      have : HdrOk s1.node := by unfold HdrOk; rw [hfb1]; exact hok
      exact hdrOk_keep this fk2 ty2 (R2 this.2.2.2.2)
    -- a plain exit from `s2`
    have plain : wp noErr (liftRf (setListen true))
        (fun a s' =>
          if (!(logi2phys s.node.a wd st).2.snd) = true then
            wp noErr (liftRf (setAutoAckAttr (Arg.i 62)))
              (fun a s' => LT p0 a1 aN Lm tt rt 0x3E s0 s' ∧ NP s s' ∧ (NoWait st t → HdrOk s'.node)) s'
          else LT p0 a1 aN Lm tt rt 0x3E s0 s' ∧ NP s s' ∧ (NoWait st t → HdrOk s'.node)) s2 :=
      t_write_exit h2 NP2 _ hmc (fun s' => NoWait st t → HdrOk s'.node)
        (fun s' hfb _ => by unfold HdrOk; rw [hfb]; exact hok2)
    split
    · rename_i hres
      split
      · -- emit the NETWORK_ACK
        apply mt_st_setHdr0 h2; intro s3 m3 np3 n3
        have hfrom3 : s3.node.frameBuf.header.fromNode = s2.node.frameBuf.header.fromNode := by rw [n3]; rfl
        have hty3 : ∃ t, s3.node.frameBuf.header.msgType = .int t := by rw [n3]; exact ⟨_, rfl⟩
        have hok3 : HdrOk s3.node :=
          ⟨hty3, by rw [hfrom3]; exact hok2.2.1, by rw [n3]; exact hok2.2.1,
            by rw [n3]; exact hok2.2.2.2.1, by rw [n3]; exact hok2.2.2.2.2⟩
        have htarget3 : ((logi2phys s2.node.a s2.node.frameBuf.header.fromNode TX_ROUTED).1 = s3.node.a.addr ∧
              (logi2phys s2.node.a s2.node.frameBuf.header.fromNode TX_ROUTED).2.2 = false) ∨
            ∃ x, pipeAddress s3.node.cfg (logi2phys s2.node.a s2.node.frameBuf.header.fromNode TX_ROUTED).1
              (logi2phys s2.node.a s2.node.frameBuf.header.fromNode TX_ROUTED).2.1 = .ok x := by
          have : s3.node.cfg = s2.node.cfg := by rw [n3]
          rw [this]
          exact Or.inr (l2p_ok h2.2.good h2.2.tree hok2.2.1 (by decide))
        refine (ih.nodeWriteToPipe v2 _ _ _ s0 s3 m3 hty3 htarget3 (by omega)).post (fun r4 s4 hy => ?_)
        obtain ⟨v4, h4, hmc4, np4, fk4, ty4, R4⟩ := hy
        have hok4 : HdrOk s4.node := hdrOk_keep hok3 fk4 ty4 (R4 hok3.2.2.2.2)
        exact t_write_exit h4 ((NP2.trans np3).trans np4) _ hmc4 (fun s' => NoWait st t → HdrOk s'.node)
          (fun s' hfb _ => by unfold HdrOk; rw [hfb]; exact hok4)
      · split
        · -- wait for the NETWORK_ACK
          rename_i hwait
          have hnw : ¬ NoWait st t := by
            unfold NoWait
            intro hn
            apply hn
            have := hres.2
            simp only [Bool.and_eq_true, decide_eq_true_eq] at this
            exact ⟨this, hwait.2⟩
          have hfuel := hfw hnw
          unfold bNW bAW at hfuel
          apply n_prog (safe_setListen _) h2.2
          apply n_setListen_true h2.1.1
          intro s3 l3 f3 t3 np3 n3
          apply n_prog (safe_setAutoAck _) t3
          apply n_setAutoAck_lst l3 0x3E (by decide)
          intro s4 l4 f4 t4 np4 n4
          rw [wp_nowNs]
          have hrt : s2.node.routeTimeout = rt := h2.2.rt
          rw [hrt]
          have NP4 : NP s s4 := (NP2.trans np3).trans np4
          have hM4 : bNU Lm tt s4.M ≤ bNU Lm tt s.M := by unfold bNU; have := NP4.m; omega
          have l4' : LT p0 a1 aN Lm tt rt 0x3E s0 s4 := ⟨⟨l4, (h2.1.2.trans f3).trans f4⟩, t4⟩
          refine (ih.ackWait _ s0 s4 l4' (by omega)).post (fun _ s5 p5 => ?_)
          exact ⟨p5.1, NP4.trans p5.2, fun hn => absurd hn hnw⟩
        · exact plain
    · exact plain
  split
  · obtain ⟨m1, np1⟩ := mt_sleep h 2000000
    exact main _ m1 np1 rfl rfl rfl
  · exact main s h (NP.refl s) rfl rfl rfl

omit C hLm in
theorem noWait_of_st {st ty : Nat} (h : st ≠ TX_NORMAL ∧ st ≠ TX_LOGICAL) : NoWait st ty := by
  unfold NoWait
  intro hh
  rcases hh.2 with e | e
  · exact h.1 e
  · exact h.2 e

omit C hLm in
theorem noWait_of_ty {st ty : Nat} (h : ¬ (64 < ty ∧ ty < 192)) : NoWait st ty := fun hh => h hh.1

omit C in
theorem tstep_handleThis (f : Nat) (ih : TotAll p0 a1 aN Lm tt rt f) : ∀ msgT s0 s,
    LT p0 a1 aN Lm tt rt 0x3E s0 s → HdrOk s.node → s.node.frameBuf.header.ty = msgT → bH Lm tt ≤ f + 1 →
    wp noErr (handleThis (f + 1) msgT)
      (fun _ s' => LT p0 a1 aN Lm tt rt 0x3E s0 s' ∧ NP s s' ∧ HdrOk s'.node) s := by
  intro msgT s0 s h hok hty hf
  rw [handleThis]
  simp only [wp_bind, wp_getNode, wp_ite, wp_pure]
  unfold bH at hf
  split
  · exact ⟨h, NP.refl s, hok⟩
  split
  · -- MESH_ADDR_RESPONSE: pass it on to the unassigned node
    apply lt_st_setHdr h; intro s1 l1 np1 n1
    have hok1 : HdrOk s1.node := by
      rw [n1]; exact ⟨hok.1, hok.2.1, isValid_default, hok.2.2.2.1, hok.2.2.2.2⟩
    have hwd : WdOk s1.node.cfg NETWORK_DEFAULT_ADDR TX_PHYSICAL :=
      ⟨fun hh => absurd hh (by decide), fun _ => by
        have : NETWORK_DEFAULT_ADDR = val [4, 4, 4, 4] := by decide
        rw [this]; exact pa_tree l1.2.good (by decide) (by decide)⟩
    have hnw : NoWait TX_PHYSICAL s1.node.frameBuf.header.ty := noWait_of_st (by decide)
    refine (ih.nodeWrite 0x3E _ _ s0 s1 (lt_midF l1) hok1 hwd (by omega) (fun hn => absurd hnw hn)).post
      (fun _ s2 p2 => ?_)
    exact ⟨p2.1, np1.trans p2.2.1, p2.2.2 hnw⟩
  split
  · -- MESH_ADDR_REQUEST: pass it on to the master
    rename_i _ _ hreq
    apply lt_st_setHdr h; intro s1 l1 np1 n1
    have hok1 : HdrOk s1.node := by
      rw [n1]; exact ⟨hok.1, treeAt_valid h.2.tree, isValid_zero, hok.2.2.2.1, hok.2.2.2.2⟩
    have hwd : WdOk s1.node.cfg 0 TX_NORMAL := ⟨fun _ => isValid_zero, fun hh => absurd hh (by decide)⟩
    have hty1 : s1.node.frameBuf.header.ty = msgT := by rw [n1]; exact hty
    have hnw : NoWait TX_NORMAL s1.node.frameBuf.header.ty := by
      rw [hty1, hreq.1]
      exact noWait_of_ty (by decide)
    refine (ih.nodeWrite 0x3E _ _ s0 s1 (lt_midF l1) hok1 hwd (by omega) (fun hn => absurd hnw hn)).post
      (fun _ s2 p2 => ?_)
    exact ⟨p2.1, np1.trans p2.2.1, p2.2.2 hnw⟩
  have tail : wp noErr enqueueFrameBuf
      (fun a s' =>
        if s'.node.frameBuf.header.ty = NETWORK_EXT_DATA then
          LT p0 a1 aN Lm tt rt 0x3E s0 s' ∧ NP s s' ∧ HdrOk s'.node
        else LT p0 a1 aN Lm tt rt 0x3E s0 s' ∧ NP s s' ∧ HdrOk s'.node) s := by
    apply lt_enqueue h hok.1
    intro r s1 l1 np1 fk1 ty1 hr1
    have := hdrOk_keep hok fk1 ty1 hr1
    split <;> exact ⟨l1, np1, this⟩
  split
  · split
    · exact ⟨h, NP.refl s, hok⟩
    · exact tail
  · exact tail

omit C hLm in
/-- (stated for a generic duration: the kernel must never compare a state with `sleep (x * 600000)`
    against the state without it by evaluation) -/
theorem node_sleep (s : NetState) (ns : Nat) : ({ s with w := s.w.sleep ns } : NetState).node = s.node := rfl

omit C in
theorem tstep_handleOther (f : Nat) (ih : TotAll p0 a1 aN Lm tt rt f) : ∀ msgT s0 s,
    LT p0 a1 aN Lm tt rt 0x3E s0 s → HdrOk s.node → s.node.frameBuf.header.ty = msgT → bH Lm tt ≤ f + 1 →
    wp noErr (handleOther (f + 1) msgT)
      (fun _ s' => LT p0 a1 aN Lm tt rt 0x3E s0 s' ∧ NP s s' ∧ HdrOk s'.node) s := by
  intro msgT s0 s h hok hty hf
  rw [handleOther]
  simp only [wp_bind, wp_getNode, wp_ite, wp_pure]
  unfold bH at hf
  -- forwarding towards the destination
  have fwd : wp noErr (nodeWrite f s.node.frameBuf.header.toNode TX_ROUTED)
      (fun _ s' => LT p0 a1 aN Lm tt rt 0x3E s0 s' ∧ NP s s' ∧ HdrOk s'.node) s := by
    have hwd : WdOk s.node.cfg s.node.frameBuf.header.toNode TX_ROUTED :=
      ⟨fun _ => hok.2.2.1, fun hh => absurd hh (by decide)⟩
    have hnw : NoWait TX_ROUTED s.node.frameBuf.header.ty := noWait_of_st (by decide)
    refine (ih.nodeWrite 0x3E _ _ s0 s (lt_midF h) hok hwd (by omega) (fun hn => absurd hnw hn)).post
      (fun _ s2 p2 => ?_)
    exact ⟨p2.1, p2.2.1, p2.2.2 hnw⟩
  split
  · rename_i ham
    split
    · split
      · split
        · -- answer a NETWORK_POLL
          apply lt_st_setHdr h; intro s1 l1 np1 n1
          obtain ⟨l2, np2⟩ := lt_sleep l1 (s.node.a.parentPipe * 1000000)
          rw [wp_sleepNs]
          have hn2 : ({ s1 with w := s1.w.sleep (s.node.a.parentPipe * 1000000) } : NetState).node = s1.node :=
            node_sleep s1 _
          have hok2 : HdrOk ({ s1 with w := s1.w.sleep (s.node.a.parentPipe * 1000000) } : NetState).node := by
            rw [hn2, n1]; exact ⟨hok.1, treeAt_valid h.2.tree, hok.2.1, hok.2.2.2.1, hok.2.2.2.2⟩
          have hto : ({ s1 with w := s1.w.sleep (s.node.a.parentPipe * 1000000) } : NetState).node.frameBuf.header.toNode
              = s.node.frameBuf.header.fromNode := by rw [hn2, n1]
          rw [hto]
          have hwd : WdOk ({ s1 with w := s1.w.sleep (s.node.a.parentPipe * 1000000) } : NetState).node.cfg
              s.node.frameBuf.header.fromNode TX_PHYSICAL :=
            ⟨fun hh => absurd hh (by decide), fun _ => by
              have hc : ({ s1 with w := s1.w.sleep (s.node.a.parentPipe * 1000000) } : NetState).node.cfg = s.node.cfg := by
                rw [hn2, n1]
              rw [hc]; exact pa_valid0 h.2.good ham hok.2.1⟩
          have hnw : NoWait TX_PHYSICAL
              ({ s1 with w := s1.w.sleep (s.node.a.parentPipe * 1000000) } : NetState).node.frameBuf.header.ty :=
            noWait_of_st (by decide)
          refine (ih.nodeWrite 0x3E _ _ s0 _ (lt_midF l2) hok2 hwd (by omega) (fun hn => absurd hnw hn)).post
            (fun _ s3 p3 => ?_)
          exact ⟨p3.1, (np1.trans np2).trans p3.2.1, p3.2.2 hnw⟩
        · exact ⟨h, NP.refl s, hok⟩
      · -- a multicast: queue it, relay it
        apply lt_enqueue h hok.1
        intro r s1 l1 np1 fk1 ty1 hr1
        have hok1 := hdrOk_keep hok fk1 ty1 hr1
        have fin : ∀ s2, LT p0 a1 aN Lm tt rt 0x3E s0 s2 → NP s s2 → HdrOk s2.node →
            (if s2.node.frameBuf.header.ty = NETWORK_EXT_DATA then
              LT p0 a1 aN Lm tt rt 0x3E s0 s2 ∧ NP s s2 ∧ HdrOk s2.node
             else LT p0 a1 aN Lm tt rt 0x3E s0 s2 ∧ NP s s2 ∧ HdrOk s2.node) := by
          intro s2 a b c; split <;> exact ⟨a, b, c⟩
        split
        · have relay : ∀ s2, LT p0 a1 aN Lm tt rt 0x3E s0 s2 → NP s s2 → HdrOk s2.node →
              wp noErr (Net.sleepNs (s.node.a.addr % 4 * 600000))
                (fun a s' =>
                  wp noErr (nodeWrite f (lvl2addr s.node.a.netLvl <<< 3 &&& 65535) TX_MULTICAST)
                    (fun a s' =>
                      if s'.node.frameBuf.header.ty = NETWORK_EXT_DATA then
                        LT p0 a1 aN Lm tt rt 0x3E s0 s' ∧ NP s s' ∧ HdrOk s'.node
                      else LT p0 a1 aN Lm tt rt 0x3E s0 s' ∧ NP s s' ∧ HdrOk s'.node) s') s2 := by
            intro s2 l2 np2 hok2
            rw [wp_sleepNs]
            obtain ⟨l3, np3⟩ := lt_sleep l2 (s.node.a.addr % 4 * 600000)
            have hn3 : ({ s2 with w := s2.w.sleep (s.node.a.addr % 4 * 600000) } : NetState).node = s2.node :=
              node_sleep s2 _
            have hwd : WdOk ({ s2 with w := s2.w.sleep (s.node.a.addr % 4 * 600000) } : NetState).node.cfg
                (lvl2addr s.node.a.netLvl <<< 3 &&& 65535) TX_MULTICAST :=
              ⟨fun hh => absurd hh (by decide), fun _ => by
                have ham2 : s2.node.cfg.allowMulticast = true := by
                  have : s2.node.cfg = s.node.cfg := by rw [l2.1.2.cfg, ← h.1.2.cfg]
                  rw [this]; exact ham
                rw [node_sleep]
                exact pa_relay l2.2.good ham2 (treeAt_lvl h.2.tree)⟩
            have hnw : NoWait TX_MULTICAST
                ({ s2 with w := s2.w.sleep (s.node.a.addr % 4 * 600000) } : NetState).node.frameBuf.header.ty :=
              noWait_of_st (by decide)
            refine (ih.nodeWrite 0x3E _ _ s0 _ (lt_midF l3) (by rw [hn3]; exact hok2) hwd (by omega)
              (fun hn => absurd hnw hn)).post (fun _ s4 p4 => ?_)
            exact fin s4 p4.1 ((np2.trans np3).trans p4.2.1) (p4.2.2 hnw)
          split
          · rw [wp_sleepNs]
            obtain ⟨l2, np2⟩ := lt_sleep l1 2400000
            exact relay _ l2 (np1.trans np2) (by rw [node_sleep]; exact hok1)
          · exact relay s1 l1 np1 hok1
        · exact fin s1 l1 np1 hok1
    · split
      · exact fwd
      · exact ⟨h, NP.refl s, hok⟩
  · split
    · exact fwd
    · exact ⟨h, NP.refl s, hok⟩

/-- **every fuel**: the statements hold together -/
theorem totAll : ∀ f, TotAll p0 a1 aN Lm tt rt f := by
  intro f
  induction f with
  | zero => exact totAll_zero
  | succ f ih =>
    exact
      { rfSend := tstep_rfSend C f
        rfResend := tstep_rfResend C f
        txStandby := tstep_txStandby f ih
        txStandbyFor := tstep_txStandbyFor f ih
        fragRetry := tstep_fragRetry f ih
        nodeFragLoop := tstep_nodeFragLoop f ih
        nodeWriteToPipe := tstep_nodeWriteToPipe f ih
        rfRead := tstep_rfRead f
        netUpdate := tstep_netUpdate hLm f ih
        handleThis := tstep_handleThis hLm f ih
        handleOther := tstep_handleOther hLm f ih
        ackWait := tstep_ackWait f ih
        nodeWrite := tstep_nodeWrite hLm f ih }

end

end

end Nrf.Net
