/-
C14, closed system, part 4: `multicast()` on a tree network (`NetOk`), composed: the sender's call
(part 2) puts the packet into the RX FIFO of exactly the other nodes of the addressed level, nobody
acknowledges; at the next scheduling point — the `update()` of the sender or of any node that is not a
receiver — every receiver runs `update()` (part 3) and queues the frame once.
-/
import NrfProofs.C14Closed3

namespace Nrf.Net
open Nrf Nrf.Spec Nrf.Proofs Nrf.Proofs.McastK Nrf.Props.C04

/-- the frame `multicast(message, type, …)` leaves in `frame_buf`: the old header object with
    `to_node = 0o100`, `from_node` = the own address, the type's low byte -/
def mcCaller (n : Node) (ty : Int) (msg : Bytes) : Frame :=
  { header := { (n.frameBuf.header.setTy (maskInt ty 0xFF)) with toNode := NETWORK_MULTICAST_ADDR,
                                                                   fromNode := n.a.addr },
    message := msg }

/-- the state `multicast()` hands to `_write` -/
def mcPrepared (s : NetState) (ty : Int) (msg : Bytes) : NetState :=
  (s.setNode fun n => { n with frameBuf := { n.frameBuf with header :=
      { (n.frameBuf.header.setTy (maskInt ty 0xFF)) with toNode := NETWORK_MULTICAST_ADDR,
                                                          fromNode := s.node.a.addr } } }).setNode
    fun n => { n with frameBuf := { n.frameBuf with message := msg } }

/-- the level `multicast(…, level)` addresses: the clamped argument, by default the own level -/
def mcLevel (own : Nat) : Option Int → Nat
  | none => own
  | some l => (min 4 (max l 0)).toNat

theorem mcLevel_eq_target (own : Nat) (level : Option Int) :
    mcLevel own level = Nrf.Spec.Multicast.targetLevel own level := by
  unfold mcLevel Nrf.Spec.Multicast.targetLevel
  cases level with
  | none => rfl
  | some l => simp only []; split <;> (try split) <;> omega

/-- `multicast(message, type, level)` for an admissible single-frame length is `_write(_lvl_2_addr(lvl),
    TX_MULTICAST)` of the prepared frame -/
theorem apiMulticast_eq (msg : Bytes) (ty : Int) (level : Option Int) (s : NetState)
    (hlen : msg.length ≤ s.node.maxMessageLength) (hfrag : msg.length ≤ MAX_FRAG_SIZE) :
    nexec (apiMulticast msg ty level) s =
      nexec (nodeWrite F (lvl2addr (mcLevel s.node.a.netLvl level)) TX_MULTICAST) (mcPrepared s ty msg) := by
  unfold apiMulticast nodeValidateMsgLen mcPrepared mcLevel
  have h1 : ¬ msg.length > s.node.maxMessageLength := by omega
  have h2 : ¬ (msg.length > MAX_FRAG_SIZE ∧ (!s.node.fragEnabled) = true) := by
    rintro ⟨h3, _⟩; omega
  simp only [nexec_bind, nexec_getNode, h1, h2, if_false, nexec_pure, if_true, nexec_setHdr,
    nexec_modNode]
  cases level <;> rfl

theorem mcPrepared_facts (s : NetState) (ty : Int) (msg : Bytes) (hcur : s.cur < s.nodes.length) :
    (mcPrepared s ty msg).cur = s.cur ∧ (mcPrepared s ty msg).active = s.active ∧
    (mcPrepared s ty msg).nodes.length = s.nodes.length ∧ (mcPrepared s ty msg).w = s.w ∧
    (mcPrepared s ty msg).closed = s.closed ∧
    (mcPrepared s ty msg).node = { s.node with frameBuf := mcCaller s.node ty msg } ∧
    (∀ i, i ≠ s.cur → (mcPrepared s ty msg).nodeAt i = s.nodeAt i) := by
  refine ⟨rfl, rfl, by simp [mcPrepared, NetState.setNode], rfl, rfl, ?_, ?_⟩
  · unfold mcPrepared
    have hc1 : (s.setNode fun n => { n with frameBuf := { n.frameBuf with header :=
        { (n.frameBuf.header.setTy (maskInt ty 0xFF)) with toNode := NETWORK_MULTICAST_ADDR,
                                                            fromNode := s.node.a.addr } } }).cur <
        (s.setNode fun n => { n with frameBuf := { n.frameBuf with header :=
        { (n.frameBuf.header.setTy (maskInt ty 0xFF)) with toNode := NETWORK_MULTICAST_ADDR,
                                                            fromNode := s.node.a.addr } } }).nodes.length := by
      simpa [NetState.setNode] using hcur
    rw [node_setNode _ _ hc1, node_setNode _ _ hcur]
    rfl
  · intro i hi
    unfold mcPrepared
    rw [nodeAt_setNode, if_neg (fun h => hi h.1), nodeAt_setNode, if_neg (fun h => hi h.1)]

/-- a radio after it stored received multicast payloads (no acknowledgement was generated) -/
def _root_.Nrf.Radio.withMc (r : Radio) (fifo : List RxEntry) (last : LastRx) : Radio :=
  { r with rxFifo := fifo, flags := r.flags ||| 0x40, rpd := true, lastRx := some last }

theorem _root_.Nrf.NodeRadio.withMc {L : LinkCfg} {P : List Bytes} {rx ce : Bool} {aa : Nat} {d : Rf24} {r : Radio}
    (h : NodeRadio L P rx ce aa d r) (p : Nat) (data : Bytes) (last : LastRx) (hp : p ≤ 5) :
    NodeRadio L P rx ce aa d (r.withMc [{ pipe := p, data := data }] last) :=
  h.of_eq_cfg rfl (by
    intro e he
    have : e = { pipe := p, data := data } := by simpa [Radio.withMc] using he
    rw [this]; exact hp)

/-- the six addresses of a tree node against the address of level `Lv` -/
theorem pipes_level (cfg : AddrCfg) (hcfg : CfgOk cfg) (ham : cfg.allowMulticast = true) (y : List Nat)
    (hy : IsNode y) (P : List Bytes) (hP : beginPipes cfg (val y) = .ok P) (Lv : Nat) (hL : Lv ≤ 5) :
    (y.length = Lv → P[0]? = some (levelFn cfg.pfx (sfxFn cfg.sfx) Lv)) ∧
    (y.length ≠ Lv → ∀ q, q ≤ 5 → P[q]? ≠ some (levelFn cfg.pfx (sfxFn cfg.sfx) Lv)) := by
  have hg := sfxFn_spec (sfx := cfg.sfx) hcfg.1
  have hc' : SfxOk cfg.pfx cfg.sfx := hcfg
  rw [beginPipes_eq hg hy] at hP
  have hPe : P = [0, 1, 2, 3, 4, 5].map (listenFn cfg.pfx (sfxFn cfg.sfx) cfg.allowMulticast y) :=
    (Except.ok.inj hP).symm
  have hget : ∀ q, q ≤ 5 → P[q]? = some (listenFn cfg.pfx (sfxFn cfg.sfx) cfg.allowMulticast y q) := by
    intro q hq
    rw [hPe]
    have h : q = 0 ∨ q = 1 ∨ q = 2 ∨ q = 3 ∨ q = 4 ∨ q = 5 := by omega
    rcases h with rfl | rfl | rfl | rfl | rfl | rfl <;> rfl
  constructor
  · intro hl
    rw [hget 0 (by omega)]
    congr 1
    exact (listenFn_eq_level_iff hc' cfg.allowMulticast hy (Nat.zero_le 5) hL).mpr ⟨rfl, Or.inl ⟨ham, hl⟩⟩
  · intro hl q hq he
    rw [hget q hq] at he
    have := (listenFn_eq_level_iff hc' cfg.allowMulticast hy hq hL).mp (Option.some.inj he)
    rcases this.2 with ⟨_, h⟩ | ⟨h, _⟩
    · exact hl h
    · rw [ham] at h; cases h

/-- the frame a receiver of the multicast queues: origin, `0o100`, type, the sender's header id,
    message -/
def mcQueued (n : Node) (ty : Int) (msg : Bytes) : Frame := wireCopy (mcCaller n ty msg)

/-- the receivers of a multicast to level `Lv` sent by node object `x`: the other node objects whose
    tree node sits on level `Lv` -/
def mcReceivers (tree : Nat → List Nat) (len x Lv : Nat) : List Nat :=
  (List.range len).filter fun j => decide (j ≠ x ∧ (tree j).length = Lv)

theorem mem_mcReceivers {tree : Nat → List Nat} {len x Lv j : Nat} :
    j ∈ mcReceivers tree len x Lv ↔ j < len ∧ j ≠ x ∧ (tree j).length = Lv := by
  unfold mcReceivers
  simp [List.mem_filter, List.mem_range]

/-- **`multicast()` in the closed system, the sender's call.**  Tree network `NetOk` (every node
    listening, multicast allowed), all RX FIFOs empty, running as node object `s.cur`, a single-frame message of a user type, no radio's last accepted packet being this very
    frame.  The call returns `True`; afterwards the network is the same tree network (`NetOk`, the
    sender listening again), all queues are as before, the RX FIFO of every other node of level `Lv`
    holds exactly the packed frame on pipe 0 and every other RX FIFO is empty; every radio other
    than the sender's has `receive`d one and the same packet `k` on the level address, and none of
    them acknowledged it. -/
theorem multicast_sent (hc : L3Contracts) (cfg : AddrCfg) (hcfg : CfgOk cfg) (ham : cfg.allowMulticast = true)
    (L : LinkCfg) (tree : Nat → List Nat) (s : NetState) (ty : Int) (msg : Bytes) (level : Option Int)
    (hok : NetOk cfg L tree s) (hcur : s.cur < s.nodes.length)
    (hsize : s.nodes.length ≤ 100000)
    (hquiet : ∀ i, i < s.nodes.length → (s.radioAt i).rxFifo = [])
    (hty : 0 ≤ ty ∧ ty ≤ 127) (hlen : msg.length ≤ MAX_FRAG_SIZE) (hmax : msg.length ≤ s.node.maxMessageLength)
    (hdup : ∀ j, j < s.nodes.length → ∀ l, (s.radioAt j).lastRx = some l →
      (mcCaller s.node ty msg).pack ≠ .ok l.data) :
    ∃ (s1 : NetState) (pk : Bytes) (k : Packet),
      nexec (apiMulticast msg ty level) s = (.ok true, s1) ∧
      (mcQueued s.node ty msg).pack = .ok pk ∧
      McFrame (mcQueued s.node ty msg) pk ty.toNat (tree s.cur) ∧
      levelAddrSpec cfg.pfx cfg.sfx (mcLevel (tree s.cur).length level) = some k.addr ∧ k.data = pk ∧
      NetOk cfg L tree s1 ∧ s1.cur = s.cur ∧ s1.active = s.active ∧ s1.nodes.length = s.nodes.length ∧
      (∀ j, (s1.nodeAt j).queue = (s.nodeAt j).queue ∧ (s1.nodeAt j).relayEnabled = (s.nodeAt j).relayEnabled) ∧
      (∀ j, j < s.nodes.length → (s1.radioAt j).rxFifo =
        if j ≠ s.cur ∧ (tree j).length = mcLevel (tree s.cur).length level
        then [{ pipe := 0, data := pk }] else []) ∧
      (∀ r, r ≠ s.ridAt s.cur → s1.w.radio r = ((s.w.radio r).receive k).1 ∧ ((s.w.radio r).receive k).2 = none) := by
  generalize hx : tree s.cur = x at *
  obtain ⟨hn1, hn2, hn3, hn4, hn5, hn6⟩ := hok.node s.cur hcur
  rw [hx] at hn1 hn2
  obtain ⟨P, hP, hN⟩ := hok.radio s.cur hcur
  rw [hx] at hP
  have hnode : s.node = s.nodeAt s.cur := rfl
  have hlvl : s.node.a.netLvl = x.length := by rw [hnode, hn2]; rfl
  generalize hLv : mcLevel x.length level = Lv
  have hL4 : Lv ≤ 4 := by
    rw [← hLv]
    unfold mcLevel
    cases level with
    | none => exact hn1.2
    | some l => simp only []; omega
  have hw := apiMulticast_eq msg ty level s hmax hlen
  rw [hlvl, hLv] at hw
  obtain ⟨p1, p2, p3, p4, p5, p6, p7⟩ := mcPrepared_facts s ty msg hcur
  generalize hs' : mcPrepared s ty msg = s' at hw p1 p2 p3 p4 p5 p6 p7
  generalize hcdef : mcCaller s.node ty msg = c at *
  have hs'rid : ∀ i, s'.ridAt i = s.ridAt i := by
    intro i
    unfold NetState.ridAt
    by_cases hi : i = s.cur
    · subst hi
      have : s'.nodeAt s.cur = s'.node := by rw [node_eq_nodeAt, p1]
      rw [this, p6]
      rfl
    · rw [p7 i hi]
  have hs'rad : ∀ i, s'.radioAt i = s.radioAt i := by
    intro i; unfold NetState.radioAt; rw [hs'rid, p4]
  have hs'd : s'.drv = s.drv := by
    unfold NetState.drv; rw [p6, p4]
  -- the frame
  obtain ⟨hm1, hm2, hm3⟩ := userType_mask ty hty
  have hct : c.header.msgType = .int ty.toNat := by rw [← hcdef]; simp [mcCaller, Header.setTy, hm1]
  have hcm : c.message = msg := by rw [← hcdef]; rfl
  have hcto : c.header.toNode = NETWORK_MULTICAST_ADDR := by rw [← hcdef]; rfl
  have hcfrom : c.header.fromNode = val x := by rw [← hcdef]; show s.node.a.addr = _; rw [hnode, hn2]; rfl
  obtain ⟨pk, hpk⟩ : ∃ pk, c.pack = .ok pk := by
    unfold Frame.pack
    rw [pack_int _ _ hct]
    exact ⟨_, rfl⟩
  have hvx : val x < 4096 := val_lt_4096 hn1
  have hT : McFrame (wireCopy c) pk ty.toNat x := by
    refine ⟨?_, ?_, hm3, ?_, ?_, ?_, ?_, hn1⟩
    · unfold wireCopy
      simp only [Header.ty, Nat.and_assoc, Nat.and_self]
    · simp [wireCopy, Header.ty, hct, hm2]
    · simp only [wireCopy, hcto]; decide
    · simp only [wireCopy, hcfrom]
      have : (0xFFF : Nat) = 2 ^ 12 - 1 := by decide
      rw [this, Nat.and_two_pow_sub_one_eq_mod]
      exact Nat.mod_eq_of_lt (by omega)
    · rw [pack_wireCopy c _ hct]; exact hpk
    · show c.message.length ≤ _; rw [hcm]; exact hlen
  -- the level address
  have hg := sfxFn_spec (sfx := cfg.sfx) hcfg.1
  have hA : pipeAddress cfg (lvl2addr Lv) 0 = .ok (levelFn cfg.pfx (sfxFn cfg.sfx) Lv) :=
    pipeAddress_levelFn hg ham (by omega)
  generalize hAdef : levelFn cfg.pfx (sfxFn cfg.sfx) Lv = A at hA
  have hAlen : A.length = 5 := by rw [← hAdef]; exact levelFn_length _ _ _
  have hAspec : levelAddrSpec cfg.pfx cfg.sfx Lv = some A := by
    rw [levelAddrSpec_fn hg (by omega), hAdef]
  have hF : F = 199998 + 2 := rfl
  rw [hF] at hw
  obtain ⟨D, pid, e, r1, l1, f1, N1, x1, lr1, hoth⟩ := nodeWrite_mc hc 199998 s' L P (lvl2addr Lv) ty.toNat A pk
    (by rw [p1, p3]; exact hcur) (by rw [p5]; exact hok.closed) (by rw [p3]; omega)
    (by
      intro i hi _ _
      rw [hs'rad]
      exact hquiet i (by rw [← p3]; exact hi))
    (by rw [hs'd]; exact hn6)
    (by rw [p6, hs'd]; exact hN)
    (by
      intro i hi hic
      rw [hs'rid, hs'rid, p1]
      exact (hok.inj i s.cur (by rw [← p3]; exact hi) hcur (by rw [← p1]; exact hic)).2)
    (by rw [p6]; show pipeAddress s.node.cfg _ _ = _; rw [hnode, hn3]; exact hA)
    hAlen (by rw [p4]; exact hok.faults)
    (by rw [p6]; show c.message.length ≤ _; rw [hcm]; exact hlen)
    (by rw [p6]; exact hpk)
    (by rw [p6]; exact hct)
  rw [e] at hw
  generalize hkdef : unicastPacket L A pk pid = k at hoth
  -- what each radio did with the packet
  have hrecv : ∀ j, j < s.nodes.length → j ≠ s.cur →
      (s.radioAt j).receive k =
        (if (tree j).length = Lv then (s.radioAt j).withMc [{ pipe := 0, data := pk }] { pid := pid, addr := A, data := pk }
         else s.radioAt j, none) := by
    intro j hj hjc
    obtain ⟨Pj, hPj, hNj⟩ := hok.radio j hj
    obtain ⟨pl1, pl2⟩ := pipes_level cfg hcfg ham (tree j) (hok.node j hj).1 Pj hPj Lv (by omega)
    rw [hAdef] at pl1 pl2
    by_cases hl : (tree j).length = Lv
    · rw [if_pos hl, ← hkdef, Radio.receive_mc hNj A pk pid (pl1 hl) (by rw [hquiet j hj]; decide)
        (by
          intro hh
          exact hdup j hj _ hh hpk)]
      rw [hquiet j hj]
      rfl
    · rw [if_neg hl, ← hkdef]
      exact Radio.receive_ignore _ _ (listensTo_none_of_no_match hNj A pk pid (pl2 hl))
  have hspare : ∀ r, (∀ i, i < s.nodes.length → s.ridAt i ≠ r) → (s.w.radio r).receive k = (s.w.radio r, none) :=
    fun r hr => Radio.receive_ignore _ _ (hok.spare r k hr)
  have hnoack : ∀ r, r ≠ s.ridAt s.cur → ((s.w.radio r).receive k).2 = none := by
    intro r hr
    by_cases hex : ∃ j, j < s.nodes.length ∧ s.ridAt j = r
    · obtain ⟨j, hj, rfl⟩ := hex
      have hjc : j ≠ s.cur := fun e => hr (e ▸ rfl)
      have := hrecv j hj hjc
      unfold NetState.radioAt at this
      rw [this]
    · rw [hspare r (fun i hi e => hex ⟨i, hi, e⟩)]
  -- the state after the call
  generalize hs1 : s'.afterRf D = s1 at hw
  have c1 : s1.cur = s.cur := by rw [← hs1]; exact p1
  have a1 : s1.active = s.active := by rw [← hs1]; exact p2
  have len1 : s1.nodes.length = s.nodes.length := by rw [← hs1]; simp [p3]
  have w1 : s1.w = D.w := by rw [← hs1]; rfl
  have hcur' : s'.cur < s'.nodes.length := by rw [p1, p3]; exact hcur
  have node1 : s1.node = { s.node with frameBuf := c, rf := D.d } := by
    rw [← hs1, afterRf_node _ _ hcur', p6]
  have at1 : ∀ i, i ≠ s.cur → s1.nodeAt i = s.nodeAt i := by
    intro i hi
    rw [← hs1, nodeAt_afterRf_ne _ _ _ (by rw [p1]; exact hi), p7 i hi]
  have nodecur1 : s1.nodeAt s.cur = s1.node := by rw [node_eq_nodeAt, c1]
  have rid1 : ∀ i, s1.ridAt i = s.ridAt i := by
    intro i
    unfold NetState.ridAt
    by_cases hi : i = s.cur
    · subst hi
      rw [nodecur1, node1]
      show D.d.rid = _
      rw [r1, p6]; rfl
    · rw [at1 i hi]
  have hridc : s'.ridAt s'.cur = s.ridAt s.cur := by rw [hs'rid, p1]
  have same1 : Same s s1 := by
    refine ⟨by rw [← hs1]; exact p5, len1, ?_, by rw [w1, l1, p4], ?_⟩
    · intro i
      refine ⟨?_, ?_, ?_, ?_, rid1 i⟩ <;>
      · by_cases hi : i = s.cur
        · subst hi; rw [nodecur1, node1]; rfl
        · rw [at1 i hi]
    · intro r hr
      rw [w1, hoth r (by rw [hridc]; exact fun e => hr s.cur hcur e.symm), p4, hspare r hr]
  have radcur1 : s1.radioAt s.cur = D.radio := by
    unfold NetState.radioAt
    rw [rid1, w1]
    show D.w.radio s.node.rf.rid = _
    have : s.node.rf.rid = D.d.rid := by rw [r1, p6]
    rw [this]; rfl
  have radne1 : ∀ j, j < s.nodes.length → j ≠ s.cur → s1.radioAt j = ((s.radioAt j).receive k).1 := by
    intro j hj hjc
    unfold NetState.radioAt
    rw [rid1, w1, hoth _ (by rw [hridc]; exact (hok.inj j s.cur hj hcur hjc).2), p4]
  have ok1 : NetOk cfg L tree s1 := by
    refine hok.of_same same1 (by rw [w1]; exact f1) ?_
    intro i hi P' hP' hN'
    by_cases hic : i = s.cur
    · subst hic
      have : P' = P := Except.ok.inj (hP'.symm.trans (by rw [hx]; exact hP))
      subst this
      rw [nodecur1, node1, radcur1]
      exact N1
    · rw [at1 i hic, radne1 i hi hic, hrecv i hi hic]
      simp only []
      split
      · exact hN'.withMc 0 pk _ (by omega)
      · exact hN'
  refine ⟨s1, pk, k, hw, ?_, ?_, ?_, ?_, ok1, c1, a1, len1, ?_, ?_, ?_⟩
  · show (wireCopy (mcCaller s.node ty msg)).pack = _
    rw [hcdef]; exact hT.pack
  · show McFrame (wireCopy (mcCaller s.node ty msg)) _ _ _
    rw [hcdef]; exact hT
  · rw [← hkdef]; exact hAspec
  · rw [← hkdef]; rfl
  · intro j
    by_cases hj : j = s.cur
    · subst hj; rw [nodecur1, node1]; exact ⟨rfl, rfl⟩
    · rw [at1 j hj]; exact ⟨rfl, rfl⟩
  · intro j hj
    by_cases hjc : j = s.cur
    · subst hjc
      rw [radcur1, x1, hs'd, if_neg (fun h => h.1 rfl)]
      exact hquiet s.cur hcur
    · rw [radne1 j hj hjc, hrecv j hj hjc]
      simp only []
      by_cases hl : (tree j).length = Lv
      · rw [if_pos hl, if_pos ⟨hjc, hl⟩]; rfl
      · rw [if_neg hl, if_neg (fun h => hl h.2)]
        exact hquiet j hj
  · intro r hr
    refine ⟨?_, hnoack r hr⟩
    rw [w1, hoth r (by rw [hridc]; exact hr), p4]

/-- **The next scheduling point**: `update()` entered (like the session driver's `runAs`) as the sender or
    as any node that is not a receiver.  Every receiver runs `update()` to completion inside it and
    queues the frame once; the call returns 0 (nothing for the caller); all RX FIFOs are empty, the
    network is the same tree network. -/
theorem multicast_polled (hc : L3Contracts) (cfg : AddrCfg) (ham : cfg.allowMulticast = true)
    (L : LinkCfg) (tree : Nat → List Nat) (fr : Frame) (pk : Bytes) (t : Nat) (o : List Nat)
    (T : McFrame fr pk t o) (s1 : NetState) (R : List Nat) (hR : R.Nodup) (y : Nat)
    (hok : NetOk cfg L tree s1) (hy : y < s1.nodes.length) (hyR : y ∉ R) (hsize : s1.nodes.length ≤ 400)
    (hRl : ∀ j, j ∈ R → j < s1.nodes.length) (hRlen : R.length ≤ s1.nodes.length)
    (hfifo : ∀ j, j < s1.nodes.length → (s1.radioAt j).rxFifo = if j ∈ R then [{ pipe := 0, data := pk }] else [])
    (hacc : ∀ j, j ∈ R → Accepts (s1.nodeAt j).queue fr ∧ (s1.nodeAt j).relayEnabled = false) :
    ∃ s2, nexec apiUpdate ((s1.ret).callAs y) = (.ok 0, s2) ∧ NetOk cfg L tree s2 ∧
      (∀ j, j < s1.nodes.length →
        (s2.nodeAt j).queue.frames = (s1.nodeAt j).queue.frames ++ (if j ∈ R then [fr] else [])) ∧
      (∀ j, j < s1.nodes.length → (s2.radioAt j).rxFifo = []) := by
  generalize hu : (s1.ret).callAs y = u
  have ucur : u.cur = y := by rw [← hu]; rfl
  have uact : u.active = [y] := by rw [← hu]; rfl
  have sameu : Same s1 u := by rw [← hu]; exact (Same.ret s1).trans (Same.callAs _ y)
  have ulen : u.nodes.length = s1.nodes.length := sameu.len
  have urf : ∀ k, (u.nodeAt k).rf = (s1.nodeAt k).rf := by
    intro k; rw [← hu, nodeAt_callAs]; exact (ret_facts s1 k).1
  have uq : ∀ k, (u.nodeAt k).queue = (s1.nodeAt k).queue := by
    intro k; rw [← hu, nodeAt_callAs]; exact (ret_facts s1 k).2.1
  have urad : ∀ k, u.radioAt k = s1.radioAt k := by
    intro k
    unfold NetState.radioAt
    rw [(sameu.stat k).2.2.2.2]
    rw [← hu]; rfl
  have urel : ∀ k, (u.nodeAt k).relayEnabled = (s1.nodeAt k).relayEnabled := by
    intro k
    rw [← hu, nodeAt_callAs, nodeAt_ret]
    split <;> rfl
  have uw : u.w.faults = s1.w.faults := by rw [← hu]; rfl
  have oku : NetOk cfg L tree u :=
    hok.of_same sameu (by rw [uw]; exact hok.faults) (fun i _ P _ hN => by rw [urf, urad]; exact hN)
  have W : McWait cfg L tree fr pk R u := by
    refine ⟨oku, by rw [ucur, ulen]; exact hy, by rw [ucur, uact]; exact List.mem_singleton.mpr rfl, hR, ?_, ?_, ?_⟩
    · intro j hj _
      rw [urad]; exact hfifo j (by rw [← ulen]; exact hj)
    · intro j hj
      refine ⟨by rw [ulen]; exact hRl j hj, ?_⟩
      rw [uact]
      intro h
      exact hyR (List.mem_singleton.mp h ▸ hj)
    · intro j hj
      rw [uq, urel]; exact hacc j hj
  have hF : F = ((199997 + 1) + 1) + 1 := rfl
  have hfu : mcFuel u.nodes.length R.length ≤ 199997 := by
    unfold mcFuel
    rw [ulen]
    have h1 : R.length * (s1.nodes.length + 10) ≤ 400 * 410 :=
      Nat.mul_le_mul (by omega) (by omega)
    omega
  obtain ⟨s2, hro, Dn⟩ := mc_runOthers hc cfg ham L tree fr pk t o T R.length R rfl u 199997 W hfu
  obtain ⟨ok2, cur2, act2, same2, fifo2, stay2, queue2, attrs2⟩ := Dn
  -- the caller's own read: nothing
  have len2 : s2.nodes.length = s1.nodes.length := by rw [same2.len, ulen]
  have c2 : s2.cur = y := by rw [cur2, ucur]
  have hy2 : s2.cur < s2.nodes.length := by rw [c2, len2]; exact hy
  obtain ⟨P, hP, hN⟩ := ok2.radio y (by rw [len2]; exact hy)
  obtain ⟨n1, n2, n3, n4, n5, n6⟩ := ok2.node y (by rw [len2]; exact hy)
  have node2 : s2.node = s2.nodeAt y := by rw [node_eq_nodeAt, c2]
  have drvrad2 : s2.drv.radio = s2.radioAt y := by
    unfold DrvState.radio NetState.drv NetState.radioAt NetState.ridAt
    rw [node2]
  have hyact : y ∈ u.active := by rw [uact]; exact List.mem_singleton.mpr rfl
  have fifoy : s2.drv.radio.rxFifo = [] := by
    rw [drvrad2, (stay2 y (by rw [ulen]; exact hy) hyact).1, urad, hfifo y hy, if_neg hyR]
  obtain ⟨D, eD, FD, ND, xD⟩ := hc.read s2.drv L P true true 0x3E
    (by show s2.node.rf.rid < s2.w.radios.length; rw [node2]; exact n6)
    (by show NodeRadio L P true true 0x3E s2.node.rf s2.drv.radio; rw [drvrad2, node2]; exact hN)
    (by rw [fifoy]; intro e he; cases he)
  rw [fifoy] at eD xD
  simp only [List.head?_nil, Option.map_none, List.tail_nil] at eD xD
  have harr : u.node.arrivals = [] := by
    rw [node_eq_nodeAt, ucur]
    exact (oku.node y (by rw [ulen]; exact hy)).2.2.2.1
  have hread : nexec (rfRead (199997 + 1)) u = (.ok none, s2.afterRf D) := by
    rw [rfRead.eq_2, nexec_bind, deliverDue_nil u harr]
    simp only []
    rw [nexec_bind, nexec_get]
    simp only [oku.closed, if_true]
    rw [nexec_bind, hro]
    simp only []
    exact nexec_liftRf_ok _ s2 _ D eD
  have hnu : nexec (netUpdate ((199997 + 1) + 1) 0) u = (.ok 0, s2.afterRf D) := by
    rw [netUpdate_step, hread]
  have hkind : (s2.afterRf D).node.kind ≠ .meshMaster := by
    rw [afterRf_node _ _ hy2]
    show s2.node.kind ≠ _
    rw [node2]; exact n5
  have hup : nexec apiUpdate u = (.ok 0, s2.afterRf D) := by
    unfold apiUpdate
    rw [hF]
    exact nodeUpdate_plain _ u _ 0 hnu hkind
  have hridy : s2.drv.d.rid = s2.ridAt y := by
    show s2.node.rf.rid = _
    rw [node2]; rfl
  have hothers : ∀ j, j < s1.nodes.length → j ≠ y → D.w.radio (s2.ridAt j) = s2.radioAt j := by
    intro j hj hjy
    rw [FD.others _ (by rw [hridy]; exact (ok2.inj j y (by rw [len2]; exact hj) (by rw [len2]; exact hy) hjy).2)]
    rfl
  have same3 : Same s2 (s2.afterRf D) :=
    Same.afterRf s2 D hy2 FD.rid FD.len (fun r hr => FD.others r (by
      rw [hridy]; exact fun e => hr y (by rw [len2]; exact hy) e.symm))
  refine ⟨s2.afterRf D, hup, ?_, ?_, ?_⟩
  · refine ok2.of_same same3 (by rw [afterRf_w, FD.faults]; exact ok2.faults) ?_
    intro i hi P' hP' hN'
    by_cases hiy : i = y
    · subst hiy
      have : P' = P := Except.ok.inj (hP'.symm.trans hP)
      subst this
      have h1 : (s2.afterRf D).nodeAt s2.cur = { s2.nodeAt s2.cur with rf := D.d } := by
        rw [nodeAt_afterRf, if_pos ⟨rfl, hy2⟩]
      rw [← c2, h1, radioAt_afterRf_cur s2 D hy2]
      exact ND
    · rw [nodeAt_afterRf_ne s2 D i (by rw [c2]; exact hiy), radioAt_afterRf_ne s2 D i (by rw [c2]; exact hiy),
        hothers i (by rw [← len2]; exact hi) hiy]
      exact hN'
  · intro j hj
    rw [queue_afterRf, queue2 j (by rw [ulen]; exact hj), uq]
  · intro j hj
    by_cases hjy : j = y
    · subst hjy
      rw [← c2, radioAt_afterRf_cur s2 D hy2]; exact xD
    · rw [radioAt_afterRf_ne s2 D j (by rw [c2]; exact hjy), hothers j hj hjy]
      exact fifo2 j (by rw [ulen]; exact hj) (by
        rw [uact]
        intro h
        exact hjy (List.mem_singleton.mp h))

theorem mcReceivers_nodup (tree : Nat → List Nat) (len x Lv : Nat) : (mcReceivers tree len x Lv).Nodup :=
  List.Nodup.sublist List.filter_sublist List.nodup_range

theorem mcReceivers_length (tree : Nat → List Nat) (len x Lv : Nat) : (mcReceivers tree len x Lv).length ≤ len := by
  unfold mcReceivers
  exact Nat.le_trans (List.length_filter_le _ _) (by rw [List.length_range]; exact Nat.le_refl _)

/-- **One level, no relays, composed** (closed `runOthers` system): `multicast_sent`, then
    `multicast_polled` at the `update()` of the sender or of any node that is not a receiver. -/
theorem multicast_level_closed (hc : L3Contracts) (cfg : AddrCfg) (hcfg : CfgOk cfg) (ham : cfg.allowMulticast = true)
    (L : LinkCfg) (tree : Nat → List Nat) (s : NetState) (ty : Int) (msg : Bytes) (level : Option Int)
    (hok : NetOk cfg L tree s) (hcur : s.cur < s.nodes.length) (hsize : s.nodes.length ≤ 400)
    (hquiet : ∀ i, i < s.nodes.length → (s.radioAt i).rxFifo = [])
    (hty : 0 ≤ ty ∧ ty ≤ 127) (hlen : msg.length ≤ MAX_FRAG_SIZE) (hmax : msg.length ≤ s.node.maxMessageLength)
    (hdup : ∀ j, j < s.nodes.length → ∀ l, (s.radioAt j).lastRx = some l →
      (mcCaller s.node ty msg).pack ≠ .ok l.data)
    (hrelay : ∀ j, j < s.nodes.length → (s.nodeAt j).relayEnabled = false)
    (hacc : ∀ j, j < s.nodes.length → j ≠ s.cur →
      (tree j).length = Nrf.Spec.Multicast.targetLevel (tree s.cur).length level →
      Accepts (s.nodeAt j).queue (mcQueued s.node ty msg)) :
    ∃ (s1 : NetState) (pk : Bytes) (k : Packet),
      nexec (apiMulticast msg ty level) s = (.ok true, s1) ∧
      (mcQueued s.node ty msg).pack = .ok pk ∧
      levelAddrSpec cfg.pfx cfg.sfx (Nrf.Spec.Multicast.targetLevel (tree s.cur).length level) = some k.addr ∧
      k.data = pk ∧
      NetOk cfg L tree s1 ∧
      (∀ j, (s1.nodeAt j).queue = (s.nodeAt j).queue) ∧
      (∀ j, j < s.nodes.length → (s1.radioAt j).rxFifo =
        if j ≠ s.cur ∧ (tree j).length = Nrf.Spec.Multicast.targetLevel (tree s.cur).length level
        then [{ pipe := 0, data := pk }] else []) ∧
      (∀ r, r ≠ s.ridAt s.cur → s1.w.radio r = ((s.w.radio r).receive k).1 ∧ ((s.w.radio r).receive k).2 = none) ∧
      ∀ y, y < s.nodes.length →
        (y = s.cur ∨ (tree y).length ≠ Nrf.Spec.Multicast.targetLevel (tree s.cur).length level) →
        ∃ s2, nexec apiUpdate ((s1.ret).callAs y) = (.ok 0, s2) ∧ NetOk cfg L tree s2 ∧
          (∀ j, j < s.nodes.length →
            (s2.nodeAt j).queue.frames = (s.nodeAt j).queue.frames ++
              (if j ≠ s.cur ∧ (tree j).length = Nrf.Spec.Multicast.targetLevel (tree s.cur).length level
               then [mcQueued s.node ty msg] else [])) ∧
          (∀ j, j < s.nodes.length → (s2.radioAt j).rxFifo = []) := by
  rw [← mcLevel_eq_target] at hacc ⊢
  generalize hLv : mcLevel (tree s.cur).length level = Lv at hacc
  obtain ⟨s1, pk, k, e, hpk, T, hA, hkd, ok1, c1, a1, len1, hq1, hf1, hr1⟩ :=
    multicast_sent hc cfg hcfg ham L tree s ty msg level hok hcur (by omega) hquiet hty hlen hmax hdup
  rw [hLv] at hA hf1
  refine ⟨s1, pk, k, e, hpk, hA, hkd, ok1, fun j => (hq1 j).1, hf1, hr1, ?_⟩
  intro y hy hyr
  have hmem : ∀ j, j ∈ mcReceivers tree s.nodes.length s.cur Lv ↔ j < s.nodes.length ∧ j ≠ s.cur ∧ (tree j).length = Lv :=
    fun j => mem_mcReceivers
  have hif : ∀ {α : Type} (j : Nat) (a b : α), j < s.nodes.length →
      (if j ∈ mcReceivers tree s.nodes.length s.cur Lv then a else b) =
        (if j ≠ s.cur ∧ (tree j).length = Lv then a else b) := by
    intro α j a b hj
    by_cases h : j ≠ s.cur ∧ (tree j).length = Lv
    · rw [if_pos h, if_pos ((hmem j).mpr ⟨hj, h⟩)]
    · rw [if_neg h, if_neg (fun hh => h ((hmem j).mp hh).2)]
  obtain ⟨s2, e2, ok2, q2, f2⟩ := multicast_polled hc cfg ham L tree (mcQueued s.node ty msg) pk ty.toNat (tree s.cur) T
    s1 (mcReceivers tree s.nodes.length s.cur Lv) (mcReceivers_nodup _ _ _ _) y ok1 (by rw [len1]; exact hy)
    (by
      intro h
      obtain ⟨_, h1, h2⟩ := (hmem y).mp h
      rcases hyr with h3 | h3
      · exact h1 h3
      · exact h3 h2)
    (by rw [len1]; exact hsize)
    (by intro j hj; rw [len1]; exact ((hmem j).mp hj).1)
    (by rw [len1]; exact mcReceivers_length _ _ _ _)
    (by
      intro j hj
      rw [len1] at hj
      rw [hf1 j hj, hif j _ _ hj])
    (by
      intro j hj
      obtain ⟨h0, h1, h2⟩ := (hmem j).mp hj
      rw [(hq1 j).1, (hq1 j).2]
      exact ⟨hacc j h0 h1 h2, hrelay j h0⟩)
  refine ⟨s2, e2, ok2, ?_, ?_⟩
  · intro j hj
    rw [q2 j (by rw [len1]; exact hj), (hq1 j).1, hif j _ _ hj]
  · intro j hj
    exact f2 j (by rw [len1]; exact hj)

end Nrf.Net
