/-
The full driver's `write()` with CE low, in the same terms as `lite_write_spec` for the lite driver, and
the comparison of the two: for equal configuration both leave the *same radio* behind.
-/
import NrfProofs.LiteCalls

namespace Nrf
open Rf24 (b2n staticPayload)

/-- the radio the full driver object drives -/
def DrvState.ownRadio (s : DrvState) : Radio := s.w.radio s.d.rid

/-- a quiet SPI transaction of the full driver -/
theorem DrvState.spiStep_radio_l (s : DrvState) (out : Bytes) (hw : s.Wf) (hq : (s.ownRadio.xfer out).1.txMode = false) :
    (s.spiStep out).ownRadio = (s.ownRadio.xfer out).1 ∧
    (s.spiStep out).d = { s.d with status := (s.ownRadio.xfer out).2.headD s.d.status } ∧ (s.spiStep out).Wf :=
  ⟨World.spi_radio_quiet_l s.w s.d.rid out hw hq, rfl, (spiStep_wf _ _).2 hw⟩

/-- what the full driver's `write(buf, ask_no_ack, write_only=True)` does with CE low.  `dyn` / `pl`
    are the object's *cached* view (`_dyn_pl & 1`, `_pl_len[0]`). -/
theorem Rf24.lite_write_spec (s : DrvState) (hw : s.Wf) (hce : s.ownRadio.ce = false)
    (buf : Bytes) (m noack : Bool) {res : Except PyErr (Bool × Bytes)} {s' : DrvState}
    (hrun : exec (Rf24.write buf m noack true) s = (res, s')) :
    let r := s.ownRadio
    let dyn := decide (s.d.dynPl &&& 1 ≠ 0)
    let payload := Spec.Lite.expectedPayload dyn (s.d.plLen.getD 0 0) buf
    (if dyn = true ∧ Spec.Lite.dynLenOk buf.length = false then
      res = .error .valueError ∧ s'.ownRadio = r
     else if r.txFull = true then
      res = .ok (false, buf) ∧ s'.ownRadio = { r with flags := 0 }
     else
      res = .ok (true, buf) ∧
      s'.ownRadio = { r with
        flags := 0,
        txFifo := (if payload.isEmpty then r.txFifo
          else r.txFifo ++ [{ kind := if noack then .payloadNoAck else .payload, data := payload.take 32 }]) }) := by
  intro r dyn payload
  have hq : r.txMode = false := Radio.txMode_of_ce_low_l hce
  have hfl : ((b2n true <<< 6 ||| b2n true <<< 5 ||| b2n true <<< 4 : Nat) : Int) = 112 := by decide
  unfold Rf24.write Rf24.clearStatusFlags at hrun
  rw [hfl] at hrun
  simp only [exec_bind, exec_getD, exec_ite, exec_pure, exec_raise, exec_regWrite 7 112 _ (by decide) (by decide),
    exec_regWriteBytes, Bool.not_true, Bool.false_eq_true, ↓reduceIte] at hrun
  -- the clear-flags transaction
  have hx7 : r.xfer [0x20 ||| 7, (112 : Int).toNat] = ({ r with flags := 0 }, [r.status, 0]) := by
    have : (112 : Int).toNat = 112 := rfl
    rw [this, Radio.xfer_write_l _ 7 112 (by decide), Radio.writeReg_clear_l]
  have hce3 : ({ r with flags := 0 } : Radio).ce = false := hce
  obtain ⟨r3, d3, w3⟩ := DrvState.spiStep_radio_l s [0x20 ||| 7, (112 : Int).toNat] hw
    (by rw [hx7]; exact Radio.txMode_of_ce_low_l hce3)
  rw [hx7] at r3 d3
  have hst : (s.spiStep [0x20 ||| 7, (112 : Int).toNat]).d.status = r.status := by rw [d3]; rfl
  by_cases hdyn : dyn = true
  · have hd : s.d.dynPl &&& 1 ≠ 0 := by simpa [dyn] using hdyn
    have hd0 : ¬ (s.d.dynPl &&& 1 = 0) := hd
    by_cases hbad : buf.isEmpty = true ∨ buf.length > 32
    · have hlen : Spec.Lite.dynLenOk buf.length = false := by
        unfold Spec.Lite.dynLenOk
        rcases hbad with h | h
        · have : buf.length = 0 := by rw [List.isEmpty_iff] at h; rw [h]; rfl
          simp [this]
        · simp; omega
      rw [if_pos ⟨hd, hbad⟩] at hrun
      obtain ⟨rfl, rfl⟩ := Prod.mk.inj hrun
      rw [if_pos ⟨hdyn, hlen⟩]
      exact ⟨rfl, rfl⟩
    · have hlen : Spec.Lite.dynLenOk buf.length = true := by
        unfold Spec.Lite.dynLenOk
        have h1 : buf.length ≠ 0 := by
          intro h0; apply hbad; left; rw [List.isEmpty_iff]; exact List.eq_nil_of_length_eq_zero h0
        simp; omega
      rw [if_neg (by intro h; exact hbad h.2)] at hrun
      rw [if_neg (by simp [hlen])]
      rw [hst, Radio.status_and_one_l] at hrun
      have hp : payload = buf := by show Spec.Lite.expectedPayload dyn _ buf = buf; rw [hdyn]; rfl
      by_cases hfull : r.txFull = true
      · rw [if_pos hfull]
        have h10 : (if r.txFull = true then 1 else 0 : Nat) ≠ 0 := by simp [hfull]
        rw [if_pos h10] at hrun
        obtain ⟨rfl, rfl⟩ := Prod.mk.inj hrun
        exact ⟨rfl, r3⟩
      · rw [if_neg hfull]
        have hfull' : r.txFull = false := by simpa using hfull
        have h10 : ¬ ((if r.txFull = true then 1 else 0 : Nat) ≠ 0) := by simp [hfull']
        rw [if_neg h10, if_neg hd0] at hrun
        obtain ⟨rfl, rfl⟩ := Prod.mk.inj hrun
        refine ⟨rfl, ?_⟩
        have hq6 : (((s.spiStep [0x20 ||| 7, (112 : Int).toNat]).ownRadio).xfer
            ((0x20 ||| (0xA0 ||| (b2n noack <<< 4))) :: buf)).1.txMode = false := by
          rw [Radio.xfer_txMode_l _ _ _ (Radio.txCmd_l noack).2, r3]; exact Radio.txMode_of_ce_low_l hce3
        obtain ⟨r6, _, _⟩ := DrvState.spiStep_radio_l _ ((0x20 ||| (0xA0 ||| (b2n noack <<< 4))) :: buf) w3 hq6
        rw [r6, r3, Radio.xfer_tx_l, hp]
        unfold Radio.writePayload
        have hnf : ({ r with flags := 0 } : Radio).txFull = false := hfull'
        by_cases hb : buf.isEmpty = true
        · simp [hb]
        · simp [hb, hnf]
  · have hd : ¬ (s.d.dynPl &&& 1 ≠ 0) := by simpa [dyn] using hdyn
    have hd0 : s.d.dynPl &&& 1 = 0 := by simpa using hd
    rw [if_neg (by intro h; exact hd h.1)] at hrun
    rw [if_neg (by intro h; exact hdyn h.1)]
    rw [hst, Radio.status_and_one_l] at hrun
    have hp : payload = staticPayload buf (s.d.plLen.getD 0 0) := by
      show Spec.Lite.expectedPayload dyn _ buf = _
      have : dyn = false := by simpa using hdyn
      rw [lite_staticPayload_eq, this]
    by_cases hfull : r.txFull = true
    · rw [if_pos hfull]
      have h10 : (if r.txFull = true then 1 else 0 : Nat) ≠ 0 := by simp [hfull]
      rw [if_pos h10] at hrun
      obtain ⟨rfl, rfl⟩ := Prod.mk.inj hrun
      exact ⟨rfl, r3⟩
    · rw [if_neg hfull]
      have hfull' : r.txFull = false := by simpa using hfull
      have h10 : ¬ ((if r.txFull = true then 1 else 0 : Nat) ≠ 0) := by simp [hfull']
      rw [if_neg h10, if_pos hd0] at hrun
      obtain ⟨rfl, rfl⟩ := Prod.mk.inj hrun
      refine ⟨rfl, ?_⟩
      have hq6 : (((s.spiStep [0x20 ||| 7, (112 : Int).toNat]).ownRadio).xfer
          ((0x20 ||| (0xA0 ||| (b2n noack <<< 4))) :: staticPayload buf (s.d.plLen.getD 0 0))).1.txMode = false := by
        rw [Radio.xfer_txMode_l _ _ _ (Radio.txCmd_l noack).2, r3]; exact Radio.txMode_of_ce_low_l hce3
      obtain ⟨r6, _, _⟩ := DrvState.spiStep_radio_l _
        ((0x20 ||| (0xA0 ||| (b2n noack <<< 4))) :: staticPayload buf (s.d.plLen.getD 0 0)) w3 hq6
      rw [r6, r3, Radio.xfer_tx_l, hp]
      generalize staticPayload buf (s.d.plLen.getD 0 0) = sp
      unfold Radio.writePayload
      have hnf : ({ r with flags := 0 } : Radio).txFull = false := hfull'
      cases sp with
      | nil => simp
      | cons x xs => simp [hnf]

end Nrf
