/-
Worked example of a per-method Hoare lemma (the pattern every other method follows).
-/
import NrfProofs.Hoare

namespace Nrf
open Rf24

/-- a value below 2^k is unchanged by the mask 2^k - 1 -/
theorem and_mask_of_lt (x k : Nat) (h : x < 2 ^ k) : x &&& (2 ^ k - 1) = x := by
  rw [Nat.and_two_pow_sub_one_eq_mod]; exact Nat.mod_eq_of_lt h

/-- `channel = ch` with a legal channel: succeeds, programs RF_CH with exactly `ch`, touches no
    other configuration register of this or any other radio, logs no violation, caches `ch` -/
theorem setChannel_ok (ch : Int) (s : DrvState) (hw : s.Wf) (h : 0 ≤ ch ∧ ch ≤ 125) :
    (exec (setChannel ch) s).1 = .ok () ∧
    (exec (setChannel ch) s).2.cfg = { s.cfg with rfCh := ch.toNat } ∧
    (exec (setChannel ch) s).2.d = { s.d with channel := ch.toNat, status := (exec (setChannel ch) s).2.d.status } ∧
    (∀ j, j ≠ s.d.rid → (exec (setChannel ch) s).2.cfgAt j = s.cfgAt j) ∧
    (exec (setChannel ch) s).2.Wf := by
  unfold setChannel
  have h1 : ¬ ¬ (0 ≤ ch ∧ ch ≤ 125) := by simp [h]
  have hv : 0 ≤ ch ∧ ch ≤ 255 := by omega
  simp only [exec_bind, h1, ↓reduceIte, exec_modD', exec_regWrite _ _ _ hv (by decide : (5 : Nat) ≠ 0x50), true_and]
  have hw' : (s.modShadow fun d => { d with channel := ch.toNat }).Wf := (modShadow_wf _ _ rfl).2 hw
  refine ⟨?_, rfl, ?_, (spiStep_wf _ _).2 hw'⟩
  · rw [spiStep_cfg _ _ hw', modShadow_cfg _ _ rfl, xfer_wreg_cfg _ 5 _ (by decide)]
    have hm : ch.toNat &&& 0x7F = ch.toNat := and_mask_of_lt _ 7 (by omega)
    have hr : ¬ ch.toNat > 125 := by omega
    simp only [Radio.writeReg, List.headD_cons, hm, Radio.reservedLog, Radio.rangeLog, ↓reduceIte, hr, decide_false,
      List.append_nil, Bool.false_eq_true]
    rfl
  · intro j hj
    rw [spiStep_cfgAt _ _ hw' j (by simpa using hj), modShadow_cfgAt]

/-- `channel = ch` with an illegal channel: `ValueError`, nothing at all changes -/
theorem setChannel_bad (ch : Int) (s : DrvState) (h : ¬ (0 ≤ ch ∧ ch ≤ 125)) :
    exec (setChannel ch) s = (.error .valueError, s) := by
  unfold setChannel
  simp only [exec_bind, h, not_false_eq_true, ↓reduceIte, exec_raise]

end Nrf
