/-
C13 helper lemmas, part 2: where the value `_net_update()` returns comes from.

`netUpdateT` / `ackWaitT` are `netUpdate` / `ackWait` instrumented with a ghost record of what their
own loop read from the radio (`self._rf24.read()`) and when; erasing the record gives back the
original functions (`netUpdate_erase`, `ackWait_erase`), for every fuel, state and outcome.  On the
instrumented functions: a returned `NETWORK_ACK` (193) stems from a frame of type 193 read in that very
call and accepted as addressed to this node; `ackWait` says `True` only then, and `False` only after
its clock passed the deadline.
-/
import NrfProofs.NetFrameJ

namespace Nrf.Net
open Nrf

/-! ### what the two handlers can return -/

theorem handleThis_ret {f msgT : Nat} {s s' : NetState} {keep : Bool} {rv : Nat}
    (h : nexec (handleThis f msgT) s = (.ok (keep, rv), s')) :
    rv = msgT ∨ (rv = NETWORK_EXT_DATA ∧ keep = false) := by
  cases f with
  | zero => rw [handleThis.eq_1] at h; simp at h
  | succ f =>
    rw [handleThis.eq_2] at h
    simp only [nexec_bind, nexec_getNode, nexec_ite, nexec_pure, nexec_setHdr] at h
    repeat' split at h
    all_goals (try (simp only [Prod.mk.injEq, Except.ok.injEq, reduceCtorEq, false_and] at h))
    all_goals (obtain ⟨⟨hk, hr⟩, _⟩ := h; subst hk hr; simp)

theorem handleOther_ret {f msgT : Nat} {s s' : NetState} {keep : Bool} {rv : Nat}
    (h : nexec (handleOther f msgT) s = (.ok (keep, rv), s')) :
    (rv = NETWORK_EXT_DATA ∧ keep = false) ∨
      (keep = true ∧ (rv = 0 ∨ (rv = msgT ∧
        ((s.node.cfg.allowMulticast = true ∧ s.node.frameBuf.header.toNode = NETWORK_MULTICAST_ADDR)
          ∨ s.node.a.addr = NETWORK_DEFAULT_ADDR)))) := by
  cases f with
  | zero => rw [handleOther.eq_1] at h; simp at h
  | succ f =>
    rw [handleOther.eq_2] at h
    simp only [nexec_bind, nexec_getNode, nexec_ite, nexec_pure, nexec_setHdr, nexec_sleepNs] at h
    repeat' split at h
    all_goals (try (simp only [Prod.mk.injEq, Except.ok.injEq, reduceCtorEq, false_and] at h))
    all_goals (obtain ⟨⟨hk, hr⟩, _⟩ := h; subst hk hr)
    all_goals (first
      | (left; exact ⟨rfl, rfl⟩)
      | (right; refine ⟨rfl, Or.inl rfl⟩)
      | (right; refine ⟨rfl, Or.inr ⟨rfl, Or.inl ⟨by assumption, by assumption⟩⟩⟩)
      | (right; refine ⟨rfl, Or.inr ⟨rfl, Or.inr ?_⟩⟩; simp_all))

/-! ### the instrumented copies -/

/-- `_net_update()` returning, besides its result, the payloads its own loop got from
    `self._rf24.read()`, in order -/
def netUpdateT : Nat → Nat → NetM (Nat × List Bytes)
  | 0, _ => throw .diverge
  | f + 1, retVal => do
    let buf ← rfRead f
    match buf with
    | none => return (retVal, [])
    | some b =>
      let n ← getNode
      let (fb, ok) := n.frameBuf.unpack b
      modNode fun n => { n with frameBuf := fb }
      if !ok || !isValid fb.header.toNode || !isValid fb.header.fromNode then
        let r ← netUpdateT f 0
        return (r.1, b :: r.2)
      else
        let msgT := fb.header.ty
        let (keep, rv) ← if fb.header.toNode = n.a.addr then handleThis f msgT else handleOther f msgT
        if !keep then return (rv, [b])
        let r ← netUpdateT f rv
        return (r.1, b :: r.2)

/-- erase the ghost component of an outcome -/
def eraseT {α β : Type} (x : Except PyErr (α × β) × NetState) : Except PyErr α × NetState :=
  match x with
  | (.ok r, s) => (.ok r.1, s)
  | (.error e, s) => (.error e, s)

/-- the instrumentation is faithful: same result, same final state, for every outcome -/
theorem netUpdate_erase (f rv : Nat) (s : NetState) :
    nexec (netUpdate f rv) s = eraseT (nexec (netUpdateT f rv) s) := by
  induction f generalizing rv s with
  | zero => rw [netUpdate.eq_1, netUpdateT]; rfl
  | succ f ih =>
    rw [netUpdate.eq_2, netUpdateT]
    simp only [nexec_bind]
    rcases nexec (rfRead f) s with ⟨r1, s1⟩
    cases r1 with
    | error e => rfl
    | ok buf =>
      cases buf with
      | none => rfl
      | some b =>
        simp only [nexec_bind, nexec_getNode, nexec_modNode, nexec_ite, nexec_pure]
        split
        · rw [ih]
          rcases nexec (netUpdateT f 0) _ with ⟨r2, s2⟩
          cases r2 <;> rfl
        · split
          · rcases nexec (handleThis f _) _ with ⟨r2, s2⟩
            cases r2 with
            | error e => rfl
            | ok kr =>
              obtain ⟨keep, rv'⟩ := kr
              simp only []
              cases keep
              · rfl
              · simp only [Bool.not_true, Bool.false_eq_true, if_false]
                rw [ih]
                rcases nexec (netUpdateT f rv') s2 with ⟨r3, s3⟩
                cases r3 <;> rfl
          · rcases nexec (handleOther f _) _ with ⟨r2, s2⟩
            cases r2 with
            | error e => rfl
            | ok kr =>
              obtain ⟨keep, rv'⟩ := kr
              simp only []
              cases keep
              · rfl
              · simp only [Bool.not_true, Bool.false_eq_true, if_false]
                rw [ih]
                rcases nexec (netUpdateT f rv') s2 with ⟨r3, s3⟩
                cases r3 <;> rfl

/-- `b` is a well-formed frame of type NETWORK_ACK (193) that a node with address `addr` and
    multicast setting `am` takes as meant for it: addressed to `addr` — or, the two side doors the
    code has, to the multicast address while multicast is allowed, or anything at all while the
    node still has the default address `0o4444` -/
def IsAckFor (addr : Nat) (am : Bool) (b : Bytes) : Prop :=
  ∃ fb : Frame, (∀ f0 : Frame, f0.unpack b = (fb, true)) ∧ isValid fb.header.toNode = true ∧
    isValid fb.header.fromNode = true ∧ fb.header.ty = NETWORK_ACK ∧
    (fb.header.toNode = addr ∨ (am = true ∧ fb.header.toNode = NETWORK_MULTICAST_ADDR)
      ∨ addr = NETWORK_DEFAULT_ADDR)

theorem header_unpack_ok {h0 : Header} {b : Bytes} {h : Header} (e : h0.unpack b = (h, true))
    (h1 : Header) : h1.unpack b = (h, true) := by
  unfold Header.unpack at e ⊢
  split at e
  · exact e
  · simp at e

theorem unpack_ok_indep {f0 : Frame} {b : Bytes} {fb : Frame} (h : f0.unpack b = (fb, true)) (f1 : Frame) :
    f1.unpack b = (fb, true) := by
  unfold Frame.unpack at h ⊢
  rcases hh : f0.header.unpack b with ⟨hd, ok⟩
  rw [hh] at h
  cases ok with
  | false => simp at h
  | true =>
    rw [header_unpack_ok hh f1.header]
    simpa using h

theorem stat_addr {s s' : NetState} (h : Rel Node.stat s s') :
    s'.node.a = s.node.a ∧ s'.node.cfg = s.node.cfg :=
  ⟨congrArg NodeStat.a h.proj, congrArg NodeStat.cfg h.proj⟩

/-- a returned 193 was read in this call -/
theorem netUpdateT_ack (f : Nat) : ∀ (rv : Nat) (s s' : NetState) (reads : List Bytes),
    s.cur ∈ s.active → rv ≠ NETWORK_ACK →
    nexec (netUpdateT f rv) s = (.ok (NETWORK_ACK, reads), s') →
    ∃ b ∈ reads, IsAckFor s.node.a.addr s.node.cfg.allowMulticast b := by
  induction f with
  | zero => intro rv s s' reads _ _ h; rw [netUpdateT] at h; simp at h
  | succ f ih =>
    intro rv s s' reads hs hrv h
    rw [netUpdateT] at h
    obtain ⟨buf, s1, h1, h⟩ := nexec_bind_ok.mp h
    have r1 : Rel Node.stat s s1 := ((frameAt f).rfRead.toStat).out s _ s1 hs h1
    have hs1 := r1.ok hs
    cases buf with
    | none =>
      simp only [nexec_pure, Prod.mk.injEq, Except.ok.injEq] at h
      exact absurd h.1.1 hrv
    | some b =>
      simp only [nexec_bind, nexec_getNode, nexec_modNode] at h
      rcases hu : s1.node.frameBuf.unpack b with ⟨fb, ok⟩
      rw [hu] at h
      simp only [] at h
      have r2 : Rel Node.stat s1 (s1.setNode fun n => { n with frameBuf := fb }) :=
        Rel.of_modify (fun n => { n with frameBuf := fb }) (fun _ => rfl) rfl rfl rfl rfl
      have r02 := r1.trans r2
      have hs2 := r02.ok hs
      have hst := stat_addr r02
      generalize hs2d : (s1.setNode fun n => { n with frameBuf := fb }) = s2 at h r2 r02 hs2 hst
      have hfb : s2.node.frameBuf.header.toNode = fb.header.toNode ∨ ¬ s1.cur < s1.nodes.length := by
        by_cases hl : s1.cur < s1.nodes.length
        · left
          rw [← hs2d, node_eq]
          show ((s1.nodes.modify s1.cur _)[s1.cur]?.getD default).frameBuf.header.toNode = _
          rw [List.getElem?_modify_eq, List.getElem?_eq_getElem hl]
          rfl
        · exact Or.inr hl
      by_cases hv : (!ok || !isValid fb.header.toNode || !isValid fb.header.fromNode) = true
      · rw [if_pos hv] at h
        obtain ⟨r, s3, h3, h⟩ := nexec_bind_ok.mp h
        simp only [nexec_pure, Prod.mk.injEq, Except.ok.injEq] at h
        obtain ⟨⟨h31, h32⟩, _⟩ := h
        obtain ⟨b', hb', hack⟩ := ih 0 s2 s3 r.2 hs2 (by decide) (by rw [← h31] at *; exact h3)
        refine ⟨b', by rw [← h32]; exact List.mem_cons_of_mem _ hb', ?_⟩
        rw [← hst.1, ← hst.2]; exact hack
      · rw [if_neg hv] at h
        have hv' : ok = true ∧ isValid fb.header.toNode = true ∧ isValid fb.header.fromNode = true := by
          revert hv
          cases ok <;> cases isValid fb.header.toNode <;> cases isValid fb.header.fromNode <;> simp
        have hdec : ∀ f0 : Frame, f0.unpack b = (fb, true) := by
          rw [hv'.1] at hu; exact unpack_ok_indep hu
        -- `b` as a witness, given its type is 193 and how it was dispatched
        have wit : fb.header.ty = NETWORK_ACK →
            (fb.header.toNode = s1.node.a.addr ∨
              (s2.node.cfg.allowMulticast = true ∧ fb.header.toNode = NETWORK_MULTICAST_ADDR)
              ∨ s2.node.a.addr = NETWORK_DEFAULT_ADDR) →
            IsAckFor s.node.a.addr s.node.cfg.allowMulticast b := by
          intro hty hd
          refine ⟨fb, hdec, hv'.2.1, hv'.2.2, hty, ?_⟩
          rw [← hst.1, ← hst.2]
          have e1 : s1.node.a = s2.node.a := (stat_addr r2).1.symm
          rw [e1] at hd
          exact hd
        have hsplit : ∃ kr s3,
            nexec (if fb.header.toNode = s1.node.a.addr then handleThis f fb.header.ty
                   else handleOther f fb.header.ty) s2 = (.ok kr, s3) ∧
            nexec (if (!kr.1) = true then pure (kr.2, [b]) else do
                    let r ← netUpdateT f kr.2
                    pure (r.1, b :: r.2)) s3 = (.ok (NETWORK_ACK, reads), s') := by
          by_cases hto : fb.header.toNode = s1.node.a.addr
          · rw [if_pos hto] at h ⊢; exact nexec_bind_ok.mp h
          · rw [if_neg hto] at h ⊢; exact nexec_bind_ok.mp h
        clear h
        obtain ⟨kr, s3, h3, h⟩ := hsplit
        obtain ⟨keep, rv'⟩ := kr
        simp only [] at h
        -- what the dispatch tells about a returned 193
        have disp : rv' = NETWORK_ACK → IsAckFor s.node.a.addr s.node.cfg.allowMulticast b := by
          intro hr
          by_cases hto : fb.header.toNode = s1.node.a.addr
          · rw [if_pos hto] at h3
            rcases handleThis_ret h3 with h4 | ⟨h4, _⟩
            · exact wit (h4 ▸ hr) (Or.inl hto)
            · rw [h4] at hr; exact absurd hr (by decide)
          · rw [if_neg hto] at h3
            rcases handleOther_ret h3 with ⟨h4, _⟩ | ⟨_, h4 | ⟨h4, h5⟩⟩
            · rw [h4] at hr; exact absurd hr (by decide)
            · rw [h4] at hr; exact absurd hr (by decide)
            · refine wit (h4 ▸ hr) (Or.inr ?_)
              rcases h5 with ⟨h5, h6⟩ | h5
              · rcases hfb with hfb | hfb
                · exact Or.inl ⟨h5, hfb ▸ h6⟩
                · -- no such node object: every node read is `default`, whose header says `to_node = 0`
                  exfalso
                  have : s2.node = default := by
                    rw [← hs2d, node_eq]
                    show ((s1.nodes.modify s1.cur _)[s1.cur]?.getD default) = _
                    rw [List.getElem?_modify_eq, List.getElem?_eq_none (by omega)]
                    rfl
                  rw [this] at h6
                  exact absurd h6 (by decide)
              · exact Or.inr h5
        cases keep with
        | false =>
          simp only [Bool.not_false, if_true, nexec_pure, Prod.mk.injEq, Except.ok.injEq] at h
          obtain ⟨⟨h41, h42⟩, _⟩ := h
          exact ⟨b, by rw [← h42]; exact List.mem_cons_self, disp h41⟩
        | true =>
          simp only [Bool.not_true, Bool.false_eq_true, if_false] at h
          obtain ⟨r, s4, h4, h⟩ := nexec_bind_ok.mp h
          simp only [nexec_pure, Prod.mk.injEq, Except.ok.injEq] at h
          obtain ⟨⟨h51, h52⟩, _⟩ := h
          by_cases hr : rv' = NETWORK_ACK
          · exact ⟨b, by rw [← h52]; exact List.mem_cons_self, disp hr⟩
          · have r23 : Rel Node.stat s2 s3 := by
              by_cases hto : fb.header.toNode = s1.node.a.addr
              · rw [if_pos hto] at h3; exact ((frameAt f).handleThis _).out s2 _ s3 hs2 h3
              · rw [if_neg hto] at h3; exact ((frameAt f).handleOther _).out s2 _ s3 hs2 h3
            have r03 := r02.trans r23
            have hst3 := stat_addr r03
            obtain ⟨b', hb', hack⟩ := ih rv' s3 s4 r.2 (r03.ok hs) hr (by rw [← h51] at *; exact h4)
            refine ⟨b', by rw [← h52]; exact List.mem_cons_of_mem _ hb', ?_⟩
            rw [← hst3.1, ← hst3.2]; exact hack

/-! ### the wait loop of `_write` -/

/-- what one `_net_update()` call of the wait loop did, as seen on the node's own clock -/
structure UpdObs where
  /-- clock when the call began -/
  start : Nat
  /-- payloads the call's own loop read from the radio -/
  reads : List Bytes
  /-- message type it returned -/
  ret : Nat
  /-- clock when it returned -/
  stop : Nat
  deriving Repr

/-- `while self._net_update() != NETWORK_ACK: if time.monotonic_ns() > rx_timeout: …` returning,
    besides its result, the record of every `_net_update()` call it made -/
def ackWaitT : Nat → Nat → NetM (Bool × List UpdObs)
  | 0, _ => throw .diverge
  | f + 1, deadline => do
    let t0 ← nowNs
    let r ← netUpdateT f 0
    let t1 ← nowNs
    let ob : UpdObs := { start := t0, reads := r.2, ret := r.1, stop := t1 }
    if r.1 = NETWORK_ACK then return (true, [ob])
    if t1 > deadline then return (false, [ob])
    let rest ← ackWaitT f deadline
    return (rest.1, ob :: rest.2)

theorem ackWait_erase (f dl : Nat) (s : NetState) :
    nexec (ackWait f dl) s = eraseT (nexec (ackWaitT f dl) s) := by
  induction f generalizing s with
  | zero => rw [ackWait.eq_1, ackWaitT]; rfl
  | succ f ih =>
    rw [ackWait.eq_2, ackWaitT]
    simp only [nexec_bind, nexec_nowNs, netUpdate_erase]
    rcases nexec (netUpdateT f 0) s with ⟨r1, s1⟩
    cases r1 with
    | error e => rfl
    | ok r =>
      simp only [eraseT, nexec_ite, nexec_pure, nexec_bind, nexec_nowNs]
      split
      · rfl
      · split
        · rfl
        · rw [ih]
          rcases nexec (ackWaitT f dl) s1 with ⟨r2, s2⟩
          cases r2 <;> rfl

/-- consecutive calls: each begins when the previous one returned -/
def Linked : Nat → List UpdObs → Nat → Prop
  | t0, [], t1 => t0 = t1
  | t0, o :: rest, t1 => o.start = t0 ∧ Linked o.stop rest t1

/-- The wait loop, for every fuel, state (world, arrival script, fault list, other nodes) and
    normal outcome: the calls are consecutive from the start to the return of the loop; every call
    but the last returned something else than 193 no later than the deadline; the answer is `True`
    iff the last call returned 193 — which it read, in that call, as a NETWORK_ACK frame for this
    node — and `False` only if the last call ended after the deadline. -/
theorem ackWaitT_spec (f : Nat) : ∀ (dl : Nat) (s s' : NetState) (res : Bool) (obs : List UpdObs),
    s.cur ∈ s.active → nexec (ackWaitT f dl) s = (.ok (res, obs), s') →
    ∃ init last, obs = init ++ [last] ∧ Linked s.w.clock obs s'.w.clock ∧
      (∀ o ∈ init, o.ret ≠ NETWORK_ACK ∧ o.stop ≤ dl) ∧
      (res = true → last.ret = NETWORK_ACK ∧
        ∃ b ∈ last.reads, IsAckFor s.node.a.addr s.node.cfg.allowMulticast b) ∧
      (res = false → last.ret ≠ NETWORK_ACK ∧ dl < last.stop) := by
  induction f with
  | zero => intro dl s s' res obs _ h; rw [ackWaitT] at h; simp at h
  | succ f ih =>
    intro dl s s' res obs hs h
    rw [ackWaitT] at h
    simp only [nexec_bind, nexec_nowNs] at h
    rcases hu : nexec (netUpdateT f 0) s with ⟨r1, s1⟩
    rw [hu] at h
    cases r1 with
    | error e => simp at h
    | ok r =>
      simp only [nexec_ite, nexec_pure, nexec_bind] at h
      have hu' : nexec (netUpdate f 0) s = (.ok r.1, s1) := by rw [netUpdate_erase, hu]; rfl
      have r01 : Rel Node.stat s s1 := ((frameAt f).netUpdate 0).out s _ s1 hs hu'
      by_cases hr : r.1 = NETWORK_ACK
      · rw [if_pos hr] at h
        simp only [Prod.mk.injEq, Except.ok.injEq] at h
        obtain ⟨⟨h1, h2⟩, h3⟩ := h
        subst h1 h2 h3
        refine ⟨[], _, rfl, ⟨rfl, rfl⟩, by simp, fun _ => ⟨hr, ?_⟩, by simp⟩
        obtain ⟨r1, r2⟩ := r
        simp only [] at hr
        subst hr
        exact netUpdateT_ack f 0 s s1 r2 hs (by decide) hu
      · rw [if_neg hr] at h
        by_cases ht : s1.w.clock > dl
        · rw [if_pos ht] at h
          simp only [Prod.mk.injEq, Except.ok.injEq] at h
          obtain ⟨⟨h1, h2⟩, h3⟩ := h
          subst h1 h2 h3
          exact ⟨[], _, rfl, ⟨rfl, rfl⟩, by simp, by simp, fun _ => ⟨hr, ht⟩⟩
        · rw [if_neg ht] at h
          rcases hw : nexec (ackWaitT f dl) s1 with ⟨r2, s2⟩
          rw [hw] at h
          cases r2 with
          | error e => simp at h
          | ok rest =>
            simp only [Prod.mk.injEq, Except.ok.injEq] at h
            obtain ⟨⟨h1, h2⟩, h3⟩ := h
            subst h1 h2 h3
            obtain ⟨init, last, e1, hl, hi, ht', hf'⟩ := ih dl s1 s2 rest.1 rest.2 (r01.ok hs) hw
            have hst := stat_addr r01
            refine ⟨_ :: init, last, by rw [e1]; rfl, ⟨rfl, hl⟩, ?_, ?_, hf'⟩
            · intro o ho
              rcases List.mem_cons.mp ho with rfl | ho
              · exact ⟨hr, by simp only []; omega⟩
              · exact hi o ho
            · intro hres
              obtain ⟨h1, b, hb, hack⟩ := ht' hres
              refine ⟨h1, b, hb, ?_⟩
              rw [← hst.1, ← hst.2]; exact hack

/-- the last call of a consecutive run: it ends when the run ends, and begins when its predecessor
    returned (or when the run began) -/
theorem linked_last (init : List UpdObs) (last : UpdObs) (t0 t1 : Nat)
    (h : Linked t0 (init ++ [last]) t1) :
    t1 = last.stop ∧ last.start = ((init.getLast?).map UpdObs.stop).getD t0 := by
  induction init generalizing t0 with
  | nil =>
    obtain ⟨h1, h2⟩ := h
    exact ⟨h2.symm, h1⟩
  | cons o rest ih =>
    obtain ⟨h1, h2⟩ := h
    obtain ⟨h3, h4⟩ := ih o.stop h2
    refine ⟨h3, ?_⟩
    rw [h4]
    cases rest with
    | nil => rfl
    | cons p q =>
      rw [List.getLast?_cons_cons]
      have : (p :: q).getLast? = some ((p :: q).getLast (by simp)) := List.getLast?_eq_some_getLast _
      rw [this]; rfl

/-- an outcome of the original function, seen on the instrumented one -/
theorem ackWait_ok_iff {f dl : Nat} {s s' : NetState} {res : Bool} :
    nexec (ackWait f dl) s = (.ok res, s') ↔ ∃ obs, nexec (ackWaitT f dl) s = (.ok (res, obs), s') := by
  rw [ackWait_erase]
  rcases nexec (ackWaitT f dl) s with ⟨r, s1⟩
  cases r with
  | error e => simp [eraseT]
  | ok ro =>
    obtain ⟨r1, r2⟩ := ro
    simp only [eraseT, Prod.mk.injEq, Except.ok.injEq]
    constructor
    · rintro ⟨rfl, rfl⟩; exact ⟨r2, ⟨rfl, rfl⟩, rfl⟩
    · rintro ⟨obs, ⟨h1, _⟩, h2⟩; exact ⟨h1, h2⟩

theorem netUpdate_ok_iff {f rv : Nat} {s s' : NetState} {t : Nat} :
    nexec (netUpdate f rv) s = (.ok t, s') ↔ ∃ reads, nexec (netUpdateT f rv) s = (.ok (t, reads), s') := by
  rw [netUpdate_erase]
  rcases nexec (netUpdateT f rv) s with ⟨r, s1⟩
  cases r with
  | error e => simp [eraseT]
  | ok ro =>
    obtain ⟨r1, r2⟩ := ro
    simp only [eraseT, Prod.mk.injEq, Except.ok.injEq]
    constructor
    · rintro ⟨rfl, rfl⟩; exact ⟨r2, ⟨rfl, rfl⟩, rfl⟩
    · rintro ⟨obs, ⟨h1, _⟩, h2⟩; exact ⟨h1, h2⟩

end Nrf.Net
