/-
C09 helper lemmas: `RF24.__init__` and `FakeBLE.__init__` establish in-range shadows, in any world
whose radio answers and holds bytes in RX_ADDR_P2..5.
-/
import NrfProofs.C09History
import NrfProofs.C08Ops
import NrfModel.BleDev

set_option linter.unusedSimpArgs false

namespace Nrf
open Rf24 Spec

/-! ### reads of five-byte registers -/

/-- what `_reg_read_bytes(reg)` returns -/
def DrvState.rdBytes (s : DrvState) (reg : Nat) : Bytes := (s.w.spi s.d.rid (reg :: zeros 5)).2.drop 1

theorem Radio.xfer_rreg_out (r : Radio) (reg : Nat) (d : Bytes) (hr : reg < 0x20) :
    (r.xfer (reg :: d)).2 = r.status :: Radio.clockOut (r.readReg reg) d.length := by
  unfold Radio.xfer
  simp only [decodeCmd_r reg hr, Radio.runCmd]

theorem clockOut_length (src : Bytes) (n : Nat) : (Radio.clockOut src n).length = n := by
  unfold Radio.clockOut zeros
  simp

theorem rdBytes_length (s : DrvState) (reg : Nat) (hr : reg < 0x20) : (s.rdBytes reg).length = 5 := by
  unfold DrvState.rdBytes
  show (((s.w.radio s.d.rid).xfer (reg :: zeros 5)).2.drop 1).length = 5
  rw [Radio.xfer_rreg_out _ _ _ hr]
  simp [clockOut_length, zeros]

theorem exec_regReadBytes (reg : Nat) (s : DrvState) :
    exec (regReadBytes reg) s = (.ok (s.rdBytes reg), s.spiStep (reg :: zeros 5)) := by
  unfold regReadBytes
  simp only [exec_bind, exec_xfer, exec_pure]
  rfl

/-- ACTIVATE is sent without the W_REGISTER bit -/
theorem exec_regWrite_activate (s : DrvState) :
    exec (regWrite 0x50 0x73) s = (.ok (), s.spiStep [0x50, 0x73]) := by
  unfold regWrite
  rfl

theorem exec_clearStatusFlags' (s : DrvState) : exec clearStatusFlags s = (.ok (), s.spiStep [0x27, 0x70]) := by
  unfold clearStatusFlags
  exact exec_regWrite_nat 7 0x70 s (by decide) (by decide)

theorem getD_lt_256 {l : List Nat} (h : ∀ x ∈ l, x < 256) (i : Nat) : l.getD i 0 < 256 := by
  by_cases hi : i < l.length
  · exact getD_of_mem_range h i hi
  · simp [List.getD_eq_getElem?_getD, List.getElem?_eq_none (by omega : l.length ≤ i)]

theorem inRange_status {d : Rf24} (h : InRange d) (st : Nat) : InRange { d with status := st } := h

/-! ### `__init__` in three parts -/

/-- first part of `__init__`: probe the chip, capture the RX addresses, read FEATURE around ACTIVATE -/
def initHead : DrvM (Nat × Nat) := do
  setCE false
  regWrite CONFIGURE (← getD).config
  if (← regRead CONFIGURE) ≠ (← getD).config then raise .runtimeError
  let p0 ← regReadBytes RX_ADDR_P0
  let p1 ← regReadBytes (RX_ADDR_P0 + 1)
  let p2 ← regRead (RX_ADDR_P0 + 2)
  let p3 ← regRead (RX_ADDR_P0 + 3)
  let p4 ← regRead (RX_ADDR_P0 + 4)
  let p5 ← regRead (RX_ADDR_P0 + 5)
  modD fun d => { d with pipes0 := p0, pipes1 := p1, pipesN := [p2, p3, p4, p5],
                         openPipes := 0, isPlus := false }
  let f ← regRead TX_FEATURE
  modD fun d => { d with features := f }
  regWrite 0x50 0x73
  let after ← regRead TX_FEATURE
  return (f, after)

/-- the variant decision -/
def initVariant (f after : Nat) : DrvM Unit := do
  if f = after then modD fun d => { d with isPlus := true }
  else if after = 0 then regWrite 0x50 0x73

/-- the rest of `__init__` -/
def initTail : DrvM Unit := do
  modD fun d => { d with features := 5, pipe0ReadAddr := none }
  let ta ← regReadBytes TX_ADDRESS
  modD fun d => { d with txAddress := ta, retrySetup := 0x5F, rfSetup := 0x07, dynPl := 0x3F,
                         aa := 0x3F, channel := 76, addrLen := 5, plLen := [32, 32, 32, 32, 32, 32] }
  enter
  flushRx
  flushTx
  clearStatusFlags
  Rf24.exit

theorem ite_bind'' {α β} (c : Prop) [Decidable c] (a b : DrvM α) (k : α → DrvM β) :
    (if c then a else b) >>= k = if c then a >>= k else b >>= k := by split <;> rfl

theorem init_eq : init = (do let (f, after) ← initHead; initVariant f after; initTail) := by
  unfold init initHead initVariant initTail
  simp only [bind_assoc, pure_bind, ite_bind'']

/-- what the later parts need of the shadows after the first -/
structure HeadOk (d : Rf24) : Prop where
  config : d.config = 0x0E
  p0 : d.pipes0.length = 5
  p1 : d.pipes1.length = 5
  pn : d.pipesN.length = 4 ∧ ∀ x ∈ d.pipesN, x < 256
  op : d.openPipes = 0

theorem initHead_spec (s : DrvState) (hw : s.Wf) (hc : s.d.config = 0x0E) (hb : ∀ x ∈ s.cfg.rxAddrN, x < 256) :
    ∃ fa s', exec initHead s = (.ok fa, s') ∧ Reach true s s' ∧ HeadOk s'.d := by
  unfold initHead
  have h14 : (14 : Nat) ≤ 255 := by decide
  simp (config := {decide := true}) only [drvx, hw, hc, exec_regWrite_nat _ _ _ h14 (by decide : (0:Nat) ≠ 0x50),
    exec_regRead_cfg 0 _ (by decide) (by decide), Radio.wr_config _ _ (by decide : 14 < 128), ↓reduceIte,
    exec_regReadBytes, Nat.reduceAdd, exec_regRead_cfg 12 _ (by decide) (by decide),
    exec_regRead_cfg 13 _ (by decide) (by decide), exec_regRead_cfg 14 _ (by decide) (by decide),
    exec_regRead_cfg 15 _ (by decide) (by decide), exec_regRead_cfg 29 _ (by decide) (by decide),
    exec_regWrite_activate, not_true_eq_false]
  refine ⟨_, _, rfl, by reach_steps, ?_⟩
  refine ⟨?_, ?_, ?_, ⟨rfl, ?_⟩, ?_⟩
  · simp only [spiStep_dN, modShadow_dN, ceStep_dN, hc]
  · simp only [spiStep_dN, modShadow_dN, ceStep_dN]; exact rdBytes_length _ _ (by decide)
  · simp only [spiStep_dN, modShadow_dN, ceStep_dN]; exact rdBytes_length _ _ (by decide)
  · simp only [spiStep_dN, modShadow_dN, ceStep_dN]
    intro x hx
    simp only [List.mem_cons, List.not_mem_nil, or_false] at hx
    rcases hx with rfl | rfl | rfl | rfl <;> exact getD_lt_256 hb _
  · simp only [spiStep_dN, modShadow_dN, ceStep_dN]

end Nrf

namespace Nrf
open Rf24 Spec

theorem initVariant_spec (f after : Nat) (s : DrvState) :
    ∃ s', exec (initVariant f after) s = (.ok (), s') ∧ Reach true s s' ∧
      s'.d = { s.d with isPlus := s'.d.isPlus, status := s'.d.status } := by
  unfold initVariant
  by_cases h1 : f = after
  · simp only [h1, ↓reduceIte, exec_modD']
    exact ⟨_, rfl, by reach_steps, by simp only [modShadow_dN]⟩
  · by_cases h2 : after = 0
    · subst h2
      simp only [h1, ↓reduceIte, exec_regWrite_activate]
      exact ⟨_, rfl, by reach_steps, by simp only [spiStep_dN]⟩
    · simp only [h1, h2, ↓reduceIte, exec_pure]
      exact ⟨_, rfl, .refl _, rfl⟩

/-- the shadows after `__init__` -/
structure InitOk (d : Rf24) : Prop where
  range : InRange d
  user : d.pipe0ReadAddr = none
  config : d.config = 0x0C
  op : d.openPipes = 0
  aa : d.aa = 0x3F
  dyn : d.dynPl = 0x3F
  feat : d.features = 5

/-- `initTail`, first half: the default shadows -/
def initShadow : DrvM Unit := do
  modD fun d => { d with features := 5, pipe0ReadAddr := none }
  let ta ← regReadBytes TX_ADDRESS
  modD fun d => { d with txAddress := ta, retrySetup := 0x5F, rfSetup := 0x07, dynPl := 0x3F,
                         aa := 0x3F, channel := 76, addrLen := 5, plLen := [32, 32, 32, 32, 32, 32] }

/-- `initTail`, second half: `with self:` flush and clear -/
def initDump : DrvM Unit := do
  enter
  flushRx
  flushTx
  clearStatusFlags
  Rf24.exit

theorem initTail_eq : initTail = (do initShadow; initDump) := by
  unfold initTail initShadow initDump
  simp only [bind_assoc]

/-- the shadows between the two halves -/
structure ShadowOk (d : Rf24) : Prop where
  range : InRange d
  user : d.pipe0ReadAddr = none
  config : d.config = 0x0E
  op : d.openPipes = 0
  aa : d.aa = 0x3F
  dyn : d.dynPl = 0x3F
  feat : d.features = 5

theorem initShadow_spec (s : DrvState) (h : HeadOk s.d) :
    ∃ s', exec initShadow s = (.ok (), s') ∧ Reach true s s' ∧ ShadowOk s'.d := by
  obtain ⟨hc, hp0, hp1, ⟨hpnl, hpn⟩, hop⟩ := h
  unfold initShadow
  simp only [exec_bind, exec_modD', exec_regReadBytes, TX_ADDRESS]
  refine ⟨_, rfl, by reach_steps, ?_⟩
  simp only [modShadow_dN, spiStep_dN]
  refine ⟨?_, rfl, hc, hop, rfl, rfl, rfl⟩
  refine ⟨?_, by dsimp only; decide, by dsimp only; decide, ?_, by dsimp only; decide, by dsimp only; decide,
    by dsimp only; decide, by dsimp only; decide, by dsimp only; decide, by dsimp only; decide, hp0, hp1,
    rdBytes_length _ _ (by decide), ⟨hpnl, hpn⟩, by dsimp only; decide⟩
  · show s.d.config < 128
    rw [hc]; decide
  · show s.d.openPipes < 64
    rw [hop]; decide

theorem initDump_spec (X : DrvState) (h : ShadowOk X.d) :
    ∃ s', exec initDump X = (.ok (), s') ∧ Reach true X s' ∧ InitOk s'.d := by
  obtain ⟨hrX, hu, hc, hop, haa, hdyn, hfeat⟩ := h
  unfold initDump
  simp only [exec_bind, enter_exec X hrX, flushRx, flushTx, exec_regCmd, exec_clearStatusFlags']
  generalize hY : (((enterState X).spiStep [0xE2]).spiStep [0xE1]).spiStep [0x27, 0x70] = Y
  have hreachY : Reach true X Y := by
    rw [← hY]
    exact .spi _ (.spi _ (.spi _ (enterState_reach X)))
  have hYd : ∃ st, Y.d = { X.d with config := X.d.config ||| 2, status := st } := by
    rw [← hY, spiStep_dN, spiStep_dN, spiStep_dN, enterState_d]
    exact ⟨_, rfl⟩
  obtain ⟨stY, hYd⟩ := hYd
  have hYc : Y.d.config = 0x0E := by rw [hYd]; show X.d.config ||| 2 = 0x0E; rw [hc]; decide
  rw [exit_exec Y (by rw [hYc]; decide)]
  refine ⟨_, rfl, hreachY.trans (exitState_reach Y), ?_⟩
  have hZd := exitState_d Y
  generalize (exitState Y).d.status = stZ at hZd
  have hrY : InRange Y.d := by rw [hYd]; exact inRange_enter hrX _
  rw [hZd]
  refine ⟨inRange_exit hrY _, ?_, ?_, ?_, ?_, ?_, ?_⟩
  · show Y.d.pipe0ReadAddr = none
    rw [hYd]; exact hu
  · show Y.d.config &&& 0x7D = 0x0C
    rw [hYc]; decide
  · show Y.d.openPipes = 0
    rw [hYd]; exact hop
  · show Y.d.aa = 0x3F
    rw [hYd]; exact haa
  · show Y.d.dynPl = 0x3F
    rw [hYd]; exact hdyn
  · show Y.d.features = 5
    rw [hYd]; exact hfeat

theorem exec_bind_of' {α β} {x : DrvM α} {f : α → DrvM β} {s s1 : DrvState} {a : α}
    (h : exec x s = (.ok a, s1)) : exec (x >>= f) s = exec (f a) s1 := by rw [exec_bind, h]

/-- **`RF24.__init__`** on an object with the constructor's CONFIG shadow (0x0E), in any world
whose radio exists and holds bytes in RX_ADDR_P2..5: no exception, in-range shadows, no reading
address, TX role, the documented defaults -/
theorem init_spec (s : DrvState) (hw : s.Wf) (hc : s.d.config = 0x0E) (hb : ∀ x ∈ s.cfg.rxAddrN, x < 256) :
    ∃ s', exec init s = (.ok (), s') ∧ Reach true s s' ∧ InitOk s'.d := by
  rw [init_eq]
  obtain ⟨fa, s1, hex1, hre1, hok1⟩ := initHead_spec s hw hc hb
  rw [exec_bind_of' hex1]
  obtain ⟨f, after⟩ := fa
  simp only []
  obtain ⟨s2, hex2, hre2, hd2⟩ := initVariant_spec f after s1
  rw [exec_bind_of' hex2, initTail_eq]
  have hok2 : HeadOk s2.d := by
    rw [hd2]
    exact ⟨hok1.1, hok1.2, hok1.3, hok1.4, hok1.5⟩
  obtain ⟨s3, hex3, hre3, hok3⟩ := initShadow_spec s2 hok2
  rw [exec_bind_of' hex3]
  obtain ⟨s4, hex4, hre4, hok4⟩ := initDump_spec s3 hok3
  exact ⟨s4, hex4, ((hre1.trans hre2).trans hre3).trans hre4, hok4⟩

end Nrf

namespace Nrf
open Rf24 Spec

/-! ### the register shape is kept by everything the driver does -/

theorem Radio.writeReg_shape (r : Radio) (reg : Nat) (d : Bytes) (h : RadioShape r) : RadioShape (r.writeReg reg d) := by
  obtain ⟨h0, h1, h2, h3, h4⟩ := h
  unfold Radio.writeReg
  split
  all_goals first
    | exact ⟨h0, h1, h2, h3, h4⟩
    | exact ⟨Radio.overlay_length _ _ h0, h1, h2, h3, h4⟩
    | exact ⟨h0, Radio.overlay_length _ _ h1, h2, h3, h4⟩
    | exact ⟨h0, h1, Radio.overlay_length _ _ h2, h3, h4⟩
    | exact ⟨h0, h1, h2, by simp [h3], h4⟩
    | (split
       · exact ⟨h0, h1, h2, h3, by simp [h4]⟩
       · exact ⟨h0, h1, h2, h3, h4⟩)

theorem Radio.xfer_shape (r : Radio) (out : Bytes) (h : RadioShape r) : RadioShape (r.xfer out).1.cfgOf := by
  rw [Radio.xfer_cfgOf]
  have h' : RadioShape r.cfgOf := h
  generalize r.cfgOf = c at h'
  unfold Radio.xfer
  cases out with
  | nil => exact h'
  | cons cmd d =>
    simp only
    unfold Radio.runCmd
    split
    · exact h'
    · simp only
      split
      · exact h'
      · exact Radio.writeReg_shape _ _ _ h'
    · exact h'
    · exact h'
    · show RadioShape (c.readPayload d.length).1.cfgOf
      rw [Radio.readPayload_cfgOf]; exact h'
    · show RadioShape (c.writePayload _ d).cfgOf
      rw [Radio.writePayload_cfgOf]; exact h'
    · show RadioShape (c.writePayload _ d).cfgOf
      rw [Radio.writePayload_cfgOf]; exact h'
    · show RadioShape (c.writePayload _ d).cfgOf
      rw [Radio.writePayload_cfgOf]; exact h'
    · exact h'
    · exact h'
    · exact h'

/-- driver steps keep the chip variant and the register shape of the object's radio -/
theorem Reach.shape {b : Bool} {s s' : DrvState} (h : Reach b s s') (hw : s.Wf) (hs : RadioShape s.cfg) :
    RadioShape s'.cfg ∧ s'.cfg.plus = s.cfg.plus := by
  induction h with
  | refl => exact ⟨hs, rfl⟩
  | @spi s1 out h0 ih =>
    have hf := (Reach.frame h0 hw).2.1
    rw [spiStep_cfg _ _ hf]
    refine ⟨?_, ?_⟩
    · exact Radio.xfer_shape _ _ ih.1
    · rw [← ih.2]
      have : ∀ (r : Radio) (o : Bytes), (r.xfer o).1.plus = r.plus := by
        intro r o
        unfold Radio.xfer
        cases o with
        | nil => rfl
        | cons c d =>
          simp only
          unfold Radio.runCmd
          split <;> try rfl
          · simp only
            split
            · rfl
            · unfold Radio.writeReg; split <;> first | rfl | (split <;> rfl)
          · unfold Radio.readPayload; split <;> rfl
          all_goals (unfold Radio.writePayload; split <;> rfl)
      exact this _ _
  | @shadow s1 f h0 hf ih => rw [modShadow_cfg _ _ hf]; exact ih
  | sleep n _ ih => exact ih
  | @ce s1 v hb h0 ih =>
    have hf := (Reach.frame h0 hw).2.1
    rw [ceStep_cfg _ _ hf]
    exact ih

end Nrf
