/-
C09 helper lemmas: `RF24.__init__` and `FakeBLE.__init__` establish in-range shadows, in any world
whose radio answers and holds bytes in RX_ADDR_P2..5.
-/
import NrfProofs.C09History
import NrfProofs.C08Ops
import NrfProofs.InitDetect
import NrfModel.BleDev

set_option linter.unusedSimpArgs false

namespace Nrf
open Rf24 Spec

/-! ### reads of five-byte registers -/

/-- what `_reg_read_bytes(reg)` returns -/
def DrvState.rdBytes (s : DrvState) (reg : Nat) : Bytes := (s.w.spi s.d.rid (reg :: zeros 5)).2.drop 1

theorem Radio.xfer_rreg_out (r : Radio) (reg : Nat) (d : Bytes) (hr : reg < 0x20) :
    (r.xfer (reg :: d)).2 = r.status :: Radio.clockOut (r.readReg reg) d.length := by
  unfold Radio.xfer
  simp only [decodeCmd_r reg hr, Radio.runCmd]

theorem clockOut_length (src : Bytes) (n : Nat) : (Radio.clockOut src n).length = n := by
  unfold Radio.clockOut zeros
  simp

theorem rdBytes_length (s : DrvState) (reg : Nat) (hr : reg < 0x20) : (s.rdBytes reg).length = 5 := by
  unfold DrvState.rdBytes
  show (((s.w.radio s.d.rid).xfer (reg :: zeros 5)).2.drop 1).length = 5
  rw [Radio.xfer_rreg_out _ _ _ hr]
  simp [clockOut_length, zeros]

theorem exec_regReadBytes (reg : Nat) (s : DrvState) :
    exec (regReadBytes reg) s = (.ok (s.rdBytes reg), s.spiStep (reg :: zeros 5)) := by
  unfold regReadBytes
  simp only [exec_bind, exec_xfer, exec_pure]
  rfl

theorem exec_clearStatusFlags' (s : DrvState) : exec clearStatusFlags s = (.ok (), s.spiStep [0x27, 0x70]) := by
  unfold clearStatusFlags
  exact exec_regWrite_nat 7 0x70 s (by decide) (by decide)

theorem getD_lt_256 {l : List Nat} (h : ∀ x ∈ l, x < 256) (i : Nat) : l.getD i 0 < 256 := by
  by_cases hi : i < l.length
  · exact getD_of_mem_range h i hi
  · simp [List.getD_eq_getElem?_getD, List.getElem?_eq_none (by omega : l.length ≤ i)]

theorem inRange_status {d : Rf24} (h : InRange d) (st : Nat) : InRange { d with status := st } := h

/-! ### `__init__` in three parts -/

/-- first part of `__init__`: probe the chip, capture the RX addresses; the second part is the variant
    detection (`detect`, `NrfProofs/InitDetect.lean`) -/
def initHead : DrvM Unit := do
  setCE false
  regWrite CONFIGURE (← getD).config
  if (← regRead CONFIGURE) ≠ (← getD).config then raise .runtimeError
  let p0 ← regReadBytes RX_ADDR_P0
  let p1 ← regReadBytes (RX_ADDR_P0 + 1)
  let p2 ← regRead (RX_ADDR_P0 + 2)
  let p3 ← regRead (RX_ADDR_P0 + 3)
  let p4 ← regRead (RX_ADDR_P0 + 4)
  let p5 ← regRead (RX_ADDR_P0 + 5)
  modD fun d => { d with pipes0 := p0, pipes1 := p1, pipesN := [p2, p3, p4, p5],
                         openPipes := 0, isPlus := false }

/-- the rest of `__init__` -/
def initTail : DrvM Unit := do
  modD fun d => { d with features := 5, pipe0ReadAddr := none }
  let ta ← regReadBytes TX_ADDRESS
  modD fun d => { d with txAddress := ta, retrySetup := 0x5F, rfSetup := 0x07, dynPl := 0x3F,
                         aa := 0x3F, channel := 76, addrLen := 5, plLen := [32, 32, 32, 32, 32, 32] }
  enter
  flushRx
  flushTx
  clearStatusFlags
  Rf24.exit

theorem ite_bind'' {α β} (c : Prop) [Decidable c] (a b : DrvM α) (k : α → DrvM β) :
    (if c then a else b) >>= k = if c then a >>= k else b >>= k := by split <;> rfl

theorem init_eq : init = (do initHead; detect; initTail) := by
  unfold init initHead detect initTail
  simp only [bind_assoc, pure_bind, ite_bind'']

/-- what the later parts need of the shadows after the first -/
structure HeadOk (d : Rf24) : Prop where
  config : d.config = 0x0E
  p0 : d.pipes0.length = 5
  p1 : d.pipes1.length = 5
  pn : d.pipesN.length = 4 ∧ ∀ x ∈ d.pipesN, x < 256
  op : d.openPipes = 0

theorem initHead_spec (s : DrvState) (hw : s.Wf) (hc : s.d.config = 0x0E) (hb : ∀ x ∈ s.cfg.rxAddrN, x < 256) :
    ∃ s', exec initHead s = (.ok (), s') ∧ Reach true s s' ∧ HeadOk s'.d ∧ s'.d.isPlus = false := by
  unfold initHead
  have h14 : (14 : Nat) ≤ 255 := by decide
  simp (config := {decide := true}) only [drvx, hw, hc, exec_regWrite_nat _ _ _ h14 (by decide : (0:Nat) ≠ 0x50),
    exec_regRead_cfg 0 _ (by decide) (by decide), Radio.wr_config _ _ (by decide : 14 < 128), ↓reduceIte,
    exec_regReadBytes, Nat.reduceAdd, exec_regRead_cfg 12 _ (by decide) (by decide),
    exec_regRead_cfg 13 _ (by decide) (by decide), exec_regRead_cfg 14 _ (by decide) (by decide),
    exec_regRead_cfg 15 _ (by decide) (by decide), not_true_eq_false]
  refine ⟨_, rfl, by reach_steps, ?_, by simp only [spiStep_dN, modShadow_dN, ceStep_dN]⟩
  refine ⟨?_, ?_, ?_, ⟨rfl, ?_⟩, ?_⟩
  · simp only [spiStep_dN, modShadow_dN, ceStep_dN, hc]
  · simp only [spiStep_dN, modShadow_dN, ceStep_dN]; exact rdBytes_length _ _ (by decide)
  · simp only [spiStep_dN, modShadow_dN, ceStep_dN]; exact rdBytes_length _ _ (by decide)
  · simp only [spiStep_dN, modShadow_dN, ceStep_dN]
    intro x hx
    simp only [List.mem_cons, List.not_mem_nil, or_false] at hx
    rcases hx with rfl | rfl | rfl | rfl <;> exact getD_lt_256 hb _
  · simp only [spiStep_dN, modShadow_dN, ceStep_dN]

end Nrf

namespace Nrf
open Rf24 Spec

/-- the detection's steps are driver steps -/
theorem DetReach.toReach {s t : DrvState} (h : DetReach s t) : Reach true s t := by
  induction h with
  | refl => exact .refl _
  | spi out _ ih => exact .spi out ih
  | mod f hf _ ih => exact .shadow f ih hf

/-! ### the register shape is kept by everything the driver does -/

theorem Radio.writeReg_shape (r : Radio) (reg : Nat) (d : Bytes) (h : RadioShape r) : RadioShape (r.writeReg reg d) := by
  obtain ⟨h0, h1, h2, h3, h4⟩ := h
  unfold Radio.writeReg
  split
  all_goals first
    | exact ⟨h0, h1, h2, h3, h4⟩
    | exact ⟨Radio.overlay_length _ _ h0, h1, h2, h3, h4⟩
    | exact ⟨h0, Radio.overlay_length _ _ h1, h2, h3, h4⟩
    | exact ⟨h0, h1, Radio.overlay_length _ _ h2, h3, h4⟩
    | exact ⟨h0, h1, h2, by simp [h3], h4⟩
    | (split
       · exact ⟨h0, h1, h2, h3, by simp [h4]⟩
       · exact ⟨h0, h1, h2, h3, h4⟩)

theorem Radio.xfer_shape (r : Radio) (out : Bytes) (h : RadioShape r) : RadioShape (r.xfer out).1.cfgOf := by
  rw [Radio.xfer_cfgOf]
  have h' : RadioShape r.cfgOf := h
  generalize r.cfgOf = c at h'
  unfold Radio.xfer
  cases out with
  | nil => exact h'
  | cons cmd d =>
    simp only
    unfold Radio.runCmd
    split
    · exact h'
    · simp only
      split
      · exact h'
      · exact Radio.writeReg_shape _ _ _ h'
    · exact h'
    · exact h'
    · show RadioShape (c.readPayload d.length).1.cfgOf
      rw [Radio.readPayload_cfgOf]; exact h'
    · show RadioShape (c.writePayload _ d).cfgOf
      rw [Radio.writePayload_cfgOf]; exact h'
    · show RadioShape (c.writePayload _ d).cfgOf
      rw [Radio.writePayload_cfgOf]; exact h'
    · show RadioShape (c.writePayload _ d).cfgOf
      rw [Radio.writePayload_cfgOf]; exact h'
    · exact h'
    · exact h'
    · exact h'

/-- driver steps keep the chip variant and the register shape of the object's radio -/
theorem Reach.shape {b : Bool} {s s' : DrvState} (h : Reach b s s') (hw : s.Wf) (hs : RadioShape s.cfg) :
    RadioShape s'.cfg ∧ s'.cfg.plus = s.cfg.plus := by
  induction h with
  | refl => exact ⟨hs, rfl⟩
  | @spi s1 out h0 ih =>
    have hf := (Reach.frame h0 hw).2.1
    rw [spiStep_cfg _ _ hf]
    refine ⟨?_, ?_⟩
    · exact Radio.xfer_shape _ _ ih.1
    · rw [← ih.2]
      have : ∀ (r : Radio) (o : Bytes), (r.xfer o).1.plus = r.plus := by
        intro r o
        unfold Radio.xfer
        cases o with
        | nil => rfl
        | cons c d =>
          simp only
          unfold Radio.runCmd
          split <;> try rfl
          · simp only
            split
            · rfl
            · unfold Radio.writeReg; split <;> first | rfl | (split <;> rfl)
          · unfold Radio.readPayload; split <;> rfl
          all_goals (unfold Radio.writePayload; split <;> rfl)
      exact this _ _
  | @shadow s1 f h0 hf ih => rw [modShadow_cfg _ _ hf]; exact ih
  | sleep n _ ih => exact ih
  | @ce s1 v hb h0 ih =>
    have hf := (Reach.frame h0 hw).2.1
    rw [ceStep_cfg _ _ hf]
    exact ih

/-! ### what keeps the chip variant and the ACTIVATE state -/

theorem Radio.xfer_plus (r : Radio) (o : Bytes) : (r.xfer o).1.plus = r.plus := by
  unfold Radio.xfer
  cases o with
  | nil => rfl
  | cons c d =>
    simp only
    unfold Radio.runCmd
    split <;> try rfl
    · simp only
      split
      · rfl
      · unfold Radio.writeReg; split <;> first | rfl | (split <;> rfl)
    · unfold Radio.readPayload; split <;> rfl
    all_goals (unfold Radio.writePayload; split <;> rfl)

/-- driver steps keep the chip variant -/
theorem Reach.plus_eq {b : Bool} {s s' : DrvState} (h : Reach b s s') (hw : s.Wf) : s'.cfg.plus = s.cfg.plus := by
  induction h with
  | refl => rfl
  | @spi s1 out h0 ih =>
    rw [spiStep_cfg _ _ (Reach.frame h0 hw).2.1, ← ih]
    exact Radio.xfer_plus _ _
  | @shadow s1 f h0 hf ih => rw [modShadow_cfg _ _ hf]; exact ih
  | sleep n _ ih => exact ih
  | @ce s1 v hb h0 ih => rw [ceStep_cfg _ _ (Reach.frame h0 hw).2.1]; exact ih

theorem Radio.decodeCmd_activate {c : Nat} (h : Radio.decodeCmd c = .activate) : c = 0x50 := by
  unfold Radio.decodeCmd at h
  repeat' split at h
  all_goals first | assumption | cases h

/-- only ACTIVATE (command byte 0x50) changes the accessibility of the feature registers -/
theorem Radio.xfer_activated (r : Radio) (c : Nat) (d : Bytes) (hc : c ≠ 0x50) :
    (r.xfer (c :: d)).1.activated = r.activated := by
  unfold Radio.xfer
  simp only
  generalize hk : Radio.decodeCmd c = k
  cases k with
  | activate => exact absurd (Radio.decodeCmd_activate hk) hc
  | wRegister reg =>
    simp only [Radio.runCmd]
    split
    · rfl
    · unfold Radio.writeReg; split <;> first | rfl | (split <;> rfl)
  | rRxPayload => simp only [Radio.runCmd]; unfold Radio.readPayload; split <;> rfl
  | wTxPayload => simp only [Radio.runCmd]; unfold Radio.writePayload; split <;> rfl
  | wTxPayloadNoAck => simp only [Radio.runCmd]; unfold Radio.writePayload; split <;> rfl
  | wAckPayload p => simp only [Radio.runCmd]; unfold Radio.writePayload; split <;> rfl
  | _ => rfl

theorem spiStep_activated (s : DrvState) (c : Nat) (d : Bytes) (hw : s.Wf) (hc : c ≠ 0x50) :
    (s.spiStep (c :: d)).cfg.activated = s.cfg.activated := by
  rw [spiStep_cfg _ _ hw]
  exact Radio.xfer_activated _ _ _ hc

theorem ceStep_activated (s : DrvState) (v : Bool) (hw : s.Wf) : (s.ceStep v).cfg.activated = s.cfg.activated := by
  rw [ceStep_cfg _ _ hw]

theorem modShadow_activated (s : DrvState) (f : Rf24 → Rf24) (hf : (f s.d).rid = s.d.rid) :
    (s.modShadow f).cfg.activated = s.cfg.activated := by
  rw [modShadow_cfg _ _ hf]

/-- `__enter__` never sends ACTIVATE -/
theorem enterState_activated (s : DrvState) (hw : s.Wf) : (enterState s).cfg.activated = s.cfg.activated := by
  unfold enterState
  simp (config := {decide := true}) only [spiStep_activated, ceStep_activated, modShadow_activated, spiStep_wf,
    ceStep_wf, modShadow_wf', hw, ne_eq, not_false_eq_true]

/-- nor does `__exit__` -/
theorem exitState_activated (s : DrvState) (hw : s.Wf) : (exitState s).cfg.activated = s.cfg.activated := by
  unfold exitState
  simp (config := {decide := true}) only [sleepStep_cfg, spiStep_activated, ceStep_activated, modShadow_activated,
    spiStep_wf, ceStep_wf, modShadow_wf', hw, ne_eq, not_false_eq_true]

/-- the shadows after `__init__` -/
structure InitOk (d : Rf24) : Prop where
  range : InRange d
  user : d.pipe0ReadAddr = none
  config : d.config = 0x0C
  op : d.openPipes = 0
  aa : d.aa = 0x3F
  dyn : d.dynPl = 0x3F
  feat : d.features = 5

/-- `initTail`, first half: the default shadows -/
def initShadow : DrvM Unit := do
  modD fun d => { d with features := 5, pipe0ReadAddr := none }
  let ta ← regReadBytes TX_ADDRESS
  modD fun d => { d with txAddress := ta, retrySetup := 0x5F, rfSetup := 0x07, dynPl := 0x3F,
                         aa := 0x3F, channel := 76, addrLen := 5, plLen := [32, 32, 32, 32, 32, 32] }

/-- `initTail`, second half: `with self:` flush and clear -/
def initDump : DrvM Unit := do
  enter
  flushRx
  flushTx
  clearStatusFlags
  Rf24.exit

theorem initTail_eq : initTail = (do initShadow; initDump) := by
  unfold initTail initShadow initDump
  simp only [bind_assoc]

/-- the shadows between the two halves -/
structure InitShadowOk (d : Rf24) : Prop where
  range : InRange d
  user : d.pipe0ReadAddr = none
  config : d.config = 0x0E
  op : d.openPipes = 0
  aa : d.aa = 0x3F
  dyn : d.dynPl = 0x3F
  feat : d.features = 5

theorem initShadow_spec (s : DrvState) (h : HeadOk s.d) :
    ∃ s', exec initShadow s = (.ok (), s') ∧ Reach true s s' ∧
      (s.Wf → s'.cfg.activated = s.cfg.activated ∧ s'.d.isPlus = s.d.isPlus) ∧ InitShadowOk s'.d := by
  obtain ⟨hc, hp0, hp1, ⟨hpnl, hpn⟩, hop⟩ := h
  unfold initShadow
  simp only [exec_bind, exec_modD', exec_regReadBytes, TX_ADDRESS]
  refine ⟨_, rfl, by reach_steps, ?_, ?_⟩
  · intro hw
    refine ⟨?_, by simp only [modShadow_dN, spiStep_dN]⟩
    simp (config := {decide := true}) only [spiStep_activated, modShadow_activated, spiStep_wf, modShadow_wf', hw,
      ne_eq, not_false_eq_true]
  simp only [modShadow_dN, spiStep_dN]
  refine ⟨?_, rfl, hc, hop, rfl, rfl, rfl⟩
  refine ⟨?_, by dsimp only; decide, by dsimp only; decide, ?_, by dsimp only; decide, by dsimp only; decide,
    by dsimp only; decide, by dsimp only; decide, by dsimp only; decide, by dsimp only; decide, hp0, hp1,
    rdBytes_length _ _ (by decide), ⟨hpnl, hpn⟩, by dsimp only; decide⟩
  · show s.d.config < 128
    rw [hc]; decide
  · show s.d.openPipes < 64
    rw [hop]; decide

theorem initDump_spec (X : DrvState) (h : InitShadowOk X.d) :
    ∃ s', exec initDump X = (.ok (), s') ∧ Reach true X s' ∧
      (X.Wf → s'.cfg.activated = X.cfg.activated ∧ s'.d.isPlus = X.d.isPlus) ∧ InitOk s'.d := by
  obtain ⟨hrX, hu, hc, hop, haa, hdyn, hfeat⟩ := h
  unfold initDump
  simp only [exec_bind, enter_exec X hrX, flushRx, flushTx, exec_regCmd, exec_clearStatusFlags']
  generalize hY : (((enterState X).spiStep [0xE2]).spiStep [0xE1]).spiStep [0x27, 0x70] = Y
  have hreachY : Reach true X Y := by
    rw [← hY]
    exact .spi _ (.spi _ (.spi _ (enterState_reach X)))
  have hYd : ∃ st, Y.d = { X.d with config := X.d.config ||| 2, status := st } := by
    rw [← hY, spiStep_dN, spiStep_dN, spiStep_dN, enterState_d]
    exact ⟨_, rfl⟩
  obtain ⟨stY, hYd⟩ := hYd
  have hYc : Y.d.config = 0x0E := by rw [hYd]; show X.d.config ||| 2 = 0x0E; rw [hc]; decide
  rw [exit_exec Y (by rw [hYc]; decide)]
  refine ⟨_, rfl, hreachY.trans (exitState_reach Y), ?_, ?_⟩
  · intro hwX
    have hwY : Y.Wf := (hreachY.frame hwX).2.1
    refine ⟨?_, ?_⟩
    · rw [exitState_activated Y hwY, ← hY]
      have hwE : (enterState X).Wf := ((enterState_reach X).frame hwX).2.1
      simp (config := {decide := true}) only [spiStep_activated, spiStep_wf, hwE, ne_eq, not_false_eq_true,
        enterState_activated X hwX]
    · rw [exitState_d Y, hYd]
  have hZd := exitState_d Y
  generalize (exitState Y).d.status = stZ at hZd
  have hrY : InRange Y.d := by rw [hYd]; exact inRange_enter hrX _
  rw [hZd]
  refine ⟨inRange_exit hrY _, ?_, ?_, ?_, ?_, ?_, ?_⟩
  · show Y.d.pipe0ReadAddr = none
    rw [hYd]; exact hu
  · show Y.d.config &&& 0x7D = 0x0C
    rw [hYc]; decide
  · show Y.d.openPipes = 0
    rw [hYd]; exact hop
  · show Y.d.aa = 0x3F
    rw [hYd]; exact haa
  · show Y.d.dynPl = 0x3F
    rw [hYd]; exact hdyn
  · show Y.d.features = 5
    rw [hYd]; exact hfeat

theorem regsOf_writeReg7 (r : Radio) (d : Bytes) : regsOf (r.writeReg 7 d) = regsOf r := rfl

/-- the registers after the `with` block of `__init__` when the feature registers are accessible:
    every configuration register equals its shadow -/
theorem initDump_regs (X : DrvState) (h : InitShadowOk X.d) (hw : X.Wf) (hv : X.cfg.featureVisible = true)
    (hs : RadioShape X.cfg) : regsOf (exec initDump X).2.cfg = shadowRegs (exec initDump X).2.d := by
  obtain ⟨hrX, hu, hc, hop, haa, hdyn, hfeat⟩ := h
  unfold initDump
  simp only [exec_bind, enter_exec X hrX, flushRx, flushTx, exec_regCmd, exec_clearStatusFlags']
  have hwE : (enterState X).Wf := ((enterState_reach X).frame hw).2.1
  have hE := (enterState_cfg X hw hrX hv hs).1
  generalize hY : (((enterState X).spiStep [0xE2]).spiStep [0xE1]).spiStep [0x27, 0x70] = Y
  have hreachY : Reach true X Y := by
    rw [← hY]
    exact .spi _ (.spi _ (.spi _ (enterState_reach X)))
  have hwY : Y.Wf := (hreachY.frame hw).2.1
  have hYd : ∃ st, Y.d = { X.d with config := X.d.config ||| 2, status := st } := by
    rw [← hY, spiStep_dN, spiStep_dN, spiStep_dN, enterState_d]
    exact ⟨_, rfl⟩
  obtain ⟨stY, hYd⟩ := hYd
  have hYc : Y.d.config = 0x0E := by rw [hYd]; show X.d.config ||| 2 = 0x0E; rw [hc]; decide
  have hYcfg : regsOf Y.cfg = regsOf (enterState X).cfg := by
    rw [← hY, spiStep_wlit _ 0x27 [0x70] ((spiStep_wf _ _).2 ((spiStep_wf _ _).2 hwE)) (by decide) (by simp),
      regsOf_writeReg7, spiStep_cmd _ 0xE1 [] ((spiStep_wf _ _).2 hwE) (by decide), spiStep_cmd _ 0xE2 [] hwE (by decide)]
  rw [exit_exec Y (by rw [hYc]; decide)]
  show regsOf (exitState Y).cfg = shadowRegs (exitState Y).d
  rw [exitState_cfg Y hwY (by rw [hYc]; decide), exitState_d Y]
  show ({ regsOf Y.cfg with config := Y.d.config &&& 0x7D } : CfgRegs) = { shadowRegs Y.d with config := Y.d.config &&& 0x7D }
  rw [hYcfg, hE, hYd]
  rfl

theorem exec_bind_of' {α β} {x : DrvM α} {f : α → DrvM β} {s s1 : DrvState} {a : α}
    (h : exec x s = (.ok a, s1)) : exec (x >>= f) s = exec (f a) s1 := by rw [exec_bind, h]

/-- **`RF24.__init__`** on an object with the constructor's CONFIG shadow (0x0E), in any world
whose radio exists and holds bytes in RX_ADDR_P2..5 — plus or non-plus chip, feature registers locked
or unlocked, any FEATURE content: no exception, in-range shadows, no reading address, TX role, the
documented defaults; **`_is_plus_variant` is the chip's variant and the feature registers are
accessible afterwards** -/
theorem init_variant_spec (s : DrvState) (hw : s.Wf) (hc : s.d.config = 0x0E) (hb : ∀ x ∈ s.cfg.rxAddrN, x < 256) :
    ∃ s', exec init s = (.ok (), s') ∧ Reach true s s' ∧ InitOk s'.d ∧
      s'.d.isPlus = s.cfg.plus ∧ s'.cfg.plus = s.cfg.plus ∧ s'.cfg.featureVisible = true ∧
      (RadioShape s.cfg → regsOf s'.cfg = shadowRegs s'.d) := by
  rw [init_eq]
  obtain ⟨s1, hex1, hre1, hok1, hip1⟩ := initHead_spec s hw hc hb
  rw [exec_bind_of' hex1]
  have hw1 : s1.Wf := (hre1.frame hw).2.1
  have hp1 : s1.cfg.plus = s.cfg.plus := hre1.plus_eq hw
  obtain ⟨s2, ft, hex2, hat2, _⟩ := detect_spec s1 hw1 hip1
  have hre2 := hat2.reach.toReach
  rw [exec_bind_of' hex2, initTail_eq]
  have hw2 : s2.Wf := (hre2.frame hw1).2.1
  obtain ⟨fs, st, hd2⟩ := hat2.d
  have hok2 : HeadOk s2.d := by
    rw [hd2]
    exact ⟨hok1.1, hok1.2, hok1.3, hok1.4, hok1.5⟩
  obtain ⟨s3, hex3, hre3, hk3, hok3⟩ := initShadow_spec s2 hok2
  rw [exec_bind_of' hex3]
  have hw3 : s3.Wf := (hre3.frame hw2).2.1
  obtain ⟨s4, hex4, hre4, hk4, hok4⟩ := initDump_spec s3 hok3
  have hre := ((hre1.trans hre2).trans hre3).trans hre4
  have hplus : s4.cfg.plus = s.cfg.plus := hre.plus_eq hw
  have hvis2 : s2.cfg.featureVisible = true := by
    unfold Radio.featureVisible
    rw [hat2.cfg]
    show (s1.cfg.plus || (if s1.cfg.plus = true then s1.cfg.activated else true)) = true
    cases s1.cfg.plus <;> rfl
  have hvis3 : s3.cfg.featureVisible = true := by
    have h23 : s3.cfg.plus = s2.cfg.plus := hre3.plus_eq hw2
    unfold Radio.featureVisible at hvis2 ⊢
    rw [h23, (hk3 hw2).1]; exact hvis2
  refine ⟨s4, hex4, hre, hok4, ?_, hplus, ?_, ?_⟩
  · rw [(hk4 hw3).2, (hk3 hw2).2, hat2.isPlus, hp1]
  · have h34 : s4.cfg.plus = s3.cfg.plus := hre4.plus_eq hw3
    unfold Radio.featureVisible at hvis3 ⊢
    rw [h34, (hk4 hw3).1]; exact hvis3
  · intro hs
    have hs3 : RadioShape s3.cfg := (((hre1.trans hre2).trans hre3).shape hw hs).1
    have := initDump_regs s3 hok3 hw3 hvis3 hs3
    rw [hex4] at this
    exact this

/-- the part of `init_variant_spec` about the shadows -/
theorem init_spec (s : DrvState) (hw : s.Wf) (hc : s.d.config = 0x0E) (hb : ∀ x ∈ s.cfg.rxAddrN, x < 256) :
    ∃ s', exec init s = (.ok (), s') ∧ Reach true s s' ∧ InitOk s'.d := by
  obtain ⟨s', h1, h2, h3, _⟩ := init_variant_spec s hw hc hb
  exact ⟨s', h1, h2, h3⟩

end Nrf
