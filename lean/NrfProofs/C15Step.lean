/-
C15 — the steps of the node layer under the combined invariant: configuration (`Mid` / `Lst`, from
the C07 development) and the rest (`TI`), total correctness.
-/
import NrfProofs.C15Inv

namespace Nrf.Net
open Nrf Rf24 Nrf.Spec Nrf.Proofs

/-! ### an `RF24` call that only makes progress -/

/-- whatever is proved about a call made of safe steps may assume `TI` and `NP` of its final state,
    and that nothing of the node but its driver object changed -/
theorem n_prog {α} {m : DrvM α} (hs : SafeProg m) {Lm tt rt : Nat} {s : NetState} (hti : TI Lm tt rt s)
    {E : PyErr → NetState → Prop} {Q : α → NetState → Prop}
    (h : wp E (liftRf m) (fun a s' => TI Lm tt rt s' → NP s s' → s'.node = { s.node with rf := s'.node.rf } → Q a s') s) :
    wp E (liftRf m) Q s := by
  unfold wp at *
  rw [nexec_liftRf7] at *
  have hp := hs.sound s.drv
  obtain ⟨t1, t2⟩ := hti.putDrv _ (hp.adv hti.txs)
  have hn := NetState.node_putDrv s (exec m s.drv).2 hti.cur
  rcases hx : exec m s.drv with ⟨r, ds'⟩
  rw [hx] at h t1 t2 hn
  cases r with
  | error e => exact h
  | ok a => exact h t1 t2 (by rw [hn])

/-! ### the radio as a transmitter -/

/-- PWR_UP set, PRIM_RX clear -/
def TxC (s : NetState) : Prop := s.drv.cfg.config &&& 3 = 2

theorem cfg_tx_bits (x : Nat) : (x &&& 0xFC ||| 2) &&& 0x7F &&& 3 = 2 := by
  rw [Nat.and_assoc, show (0x7F : Nat) &&& 3 = 3 by decide, Nat.and_or_distrib_right, Nat.and_assoc,
    show (0xFC : Nat) &&& 3 = 0 by decide]
  simp

theorem txC_config (d : Rf24) (c : Radio) (addr : Bytes) : (txC d c addr).config = c.config := by
  unfold txC; split <;> rfl

theorem offC_config (d : Rf24) (c : Radio) (h : ¬ offOpens d) :
    (offC d c).config = (d.config &&& 0xFC ||| 2) &&& 0x7F := by
  unfold offC; rw [if_neg h]; rfl

section
variable {E : PyErr → NetState → Prop} {p0 a1 : Bytes} {aN : List Nat} {v : Nat} {s : NetState}

/-- `listen = False`: … and the radio is a transmitter -/
theorem n_setListen_false_tx (h : s.MidS p0 a1 aN v) {Q : Unit → NetState → Prop}
    (hQ : ∀ s', s'.MidS p0 a1 aN v → NFr s s' → TxC s' → Q () s') : wp E (liftRf (setListen false)) Q s := by
  rw [wp_liftRf]
  apply at_setListen_false (At.start s.drv h.2.1) h.2.2.openR
  intro ds hs'
  obtain ⟨h1, h2⟩ := MidS_putDrv h (hs'.isMid h.2.2.off) hs'.fr
  apply hQ _ h1 h2
  unfold TxC
  rw [NetState.drv_putDrv s ds h.1, hs'.c, offC_config _ _ h.2.2.not_offOpens]
  exact cfg_tx_bits _

/-- `open_tx_pipe` leaves CONFIG alone -/
theorem n_openTxPipe_tx (h : s.MidS p0 a1 aN v) (htx : TxC s) (addr : Bytes) (hl : addr.length = 5)
    {Q : Unit → NetState → Prop}
    (hQ : ∀ s', s'.MidS p0 a1 aN v → NFr s s' → TxC s' → Q () s') : wp E (liftRf (openTxPipe addr)) Q s := by
  have hne : addr ≠ [] := by intro e; rw [e] at hl; simp at hl
  rw [wp_liftRf]
  apply at_openTxPipe (At.start s.drv h.2.1) addr (by rw [hl, h.2.2.txlen]; exact Nat.le_refl _)
    (by rw [hl, h.2.2.sh0, h.2.2.r0len]; exact Nat.le_refl _) hne (by rw [h.2.2.s_open]; decide)
  intro ds hs'
  obtain ⟨h1, h2⟩ := MidS_putDrv h (hs'.isMid (h.2.2.tx addr hl)) hs'.fr
  apply hQ _ h1 h2
  unfold TxC
  rw [NetState.drv_putDrv s ds h.1, hs'.c, txC_config]
  exact htx

end

/-! ### `send` / `resend` under the contracts -/

section
variable {Lm tt rt : Nat} {p0 a1 : Bytes} {aN : List Nat} {v : Nat} {s : NetState}

theorem feat2_of_mid (h : s.MidS p0 a1 aN v) : s.drv.cfg.feature &&& 2 = 0 := by
  have := h.2.2.feat
  have e : s.drv.cfg.feature &&& 2 = (s.drv.cfg.feature &&& 6) &&& 2 := by rw [Nat.and_assoc]; rfl
  rw [e, this]; rfl

/-- what `Same true` (from `Keeps`) and the contract's facts give at the session level -/
theorem ti_of_same (hm : s.MidS p0 a1 aN v) (hti : TI Lm tt rt s) (htx : TxC s) {ds : DrvState}
    (hs : Same true s.drv ds) (hq : TxS ds)
    (hsuf : (ds.w.radio s.drv.d.rid).rxFifo <:+ (s.drv.w.radio s.drv.d.rid).rxFifo) :
    (s.putDrv ds).MidS p0 a1 aN v ∧ NFr s (s.putDrv ds) ∧ TI Lm tt rt (s.putDrv ds) ∧ NP s (s.putDrv ds) ∧
      TxC (s.putDrv ds) ∧ (s.putDrv ds).node.frameBuf = s.node.frameBuf := by
  obtain ⟨m1, f1⟩ := MidS_putDrv hm (hs.isMid hm.2) hs.toFr
  have hd : ds.d = { s.drv.d with status := ds.d.status } := hs.d
  have ha : Adv s.drv ds :=
    { rid := hs.rid, clock := hs.clock, txs := hq, rxq := hsuf, shd := by rw [hd]; exact ⟨rfl, rfl⟩ }
  obtain ⟨t1, t2⟩ := hti.putDrv ds ha
  refine ⟨m1, f1, t1, t2, ?_, ?_⟩
  · unfold TxC
    rw [NetState.drv_putDrv s ds hm.1]
    have : ds.cfg.noCE = s.drv.cfg.noCE := hs.regs
    have e : ds.cfg.config = s.drv.cfg.config := (congrArg Radio.config this : (ds.cfg.noCE).config = _)
    rw [e]; exact htx
  · rw [NetState.node_putDrv s ds hm.1]

variable (C : C15Contracts)
include C

/-- `self._rf24.send(buf, send_only=True)` -/
theorem n_send (hm : s.MidS p0 a1 aN v) (hti : TI Lm tt rt s) (htx : TxC s) (buf : Bytes)
    (hb1 : 1 ≤ buf.length) (hb2 : buf.length ≤ 32) {E : PyErr → NetState → Prop}
    {Q : SendRes × Bytes → NetState → Prop}
    (hQ : ∀ r s', s'.MidS p0 a1 aN v → NFr s s' → TI Lm tt rt s' → NP s s' → TxC s' →
      s'.node.frameBuf = s.node.frameBuf → Q r s') :
    wp E (liftRf (send buf false false 0 true)) Q s := by
  obtain ⟨r, ds, hex, hq, hsuf⟩ := C.send_ok s.drv buf hm.2.1 htx (feat2_of_mid hm) hti.dyn hb1 hb2 hti.txs
  have hk := keeps_send buf false s.drv s.drv (Same.refl _ _ hm.2.1)
  unfold dwp at hk
  rw [hex] at hk
  obtain ⟨x1, x2, x3, x4, x5, x6⟩ := ti_of_same hm hti htx hk hq hsuf
  unfold wp
  rw [nexec_liftRf7, hex]
  exact hQ r _ x1 x2 x3 x4 x5 x6

/-- `self._rf24.resend(send_only=True)`: … and it takes time -/
theorem n_resend (hm : s.MidS p0 a1 aN v) (hti : TI Lm tt rt s) (htx : TxC s) {E : PyErr → NetState → Prop}
    {Q : SendRes → NetState → Prop}
    (hQ : ∀ r s', s'.MidS p0 a1 aN v → NFr s s' → TI Lm tt rt s' → NP s s' → TxC s' →
      s'.node.frameBuf = s.node.frameBuf → s.w.clock + SPI_COST_NS ≤ s'.w.clock → Q r s') :
    wp E (liftRf (resend true)) Q s := by
  obtain ⟨r, ds, hex, hq, hsuf⟩ := C.resend_ok s.drv hm.2.1 htx (feat2_of_mid hm) hti.txs
  have hk := keeps_resend s.drv s.drv (Same.refl _ _ hm.2.1)
  unfold dwp at hk
  rw [hex] at hk
  obtain ⟨x1, x2, x3, x4, x5, x6⟩ := ti_of_same hm hti htx hk hq hsuf
  have hc := resend_clock s.drv hm.2.1
  rw [hex] at hc
  unfold wp
  rw [nexec_liftRf7, hex]
  exact hQ r _ x1 x2 x3 x4 x5 x6 hc

end

end Nrf.Net
