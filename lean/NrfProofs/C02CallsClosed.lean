/-
C02 helper lemmas, part 9: a CLOSED-FORM condition on the start state that implies the per-call
hypotheses `callsOk` of `calls_hist` along every list of `send`/`resend` calls: no other radio holds
an empty ACK payload (`AckOkBut`, kept by every reception), the EN_DPL shadow agrees with the
register when the radio takes ACK payloads, and the payloads are legal for the payload-length mode.
-/
import NrfProofs.C02Calls
import NrfProofs.C01Order

namespace Nrf
open Rf24 Spec.Link

/-- what the environment and the shadows must satisfy at the start of a history -/
structure CallsEnv (R : Radio) (s : DrvState) : Prop where
  acks : AckOkBut s.d.rid s.w
  feat : R.ackPayRx = true → s.d.features &&& 4 ≠ 0
  pad : s.d.dynPl &&& 1 = 0 → 1 ≤ s.d.plLen.getD 0 0

/-- the payload of a `send` passes `write()`'s check in dynamic-payload mode -/
def Call.legal (d : Rf24) : Call → Prop
  | .send _ buf _ _ _ _ => d.dynPl &&& 1 ≠ 0 → buf ≠ [] ∧ buf.length ≤ 32
  | .resend _ _ => True

theorem CallsEnv.withFaults {R : Radio} {s : DrvState} (h : CallsEnv R s) (F : Option (List Outcome)) :
    CallsEnv R (s.withFaults F) := by
  cases F with
  | none => exact h
  | some F => exact ⟨h.acks, h.feat, h.pad⟩

theorem CallsEnv.ackEnv {R : Radio} {s : DrvState} (h : CallsEnv R s) (hr : s.rad.regs = R.regs) (k : Packet) :
    AckEnv s.rad k s :=
  ackEnv_of_ackOk _ _ _ h.acks (by intro hcan; apply h.feat; rw [← Radio.ackPayRx_regs _ _ hr]; exact hcan)

theorem CallsEnv.ok {R : Radio} {s : DrvState} (h : CallsEnv R s) (hh : Hist R s) (c : Call) (hl : c.legal s.d) :
    c.ok s := by
  cases c with
  | send F buf m a n so => exact ⟨hl, h.pad, h.ackEnv hh.regs _⟩
  | resend F so => exact fun e rest _ => h.ackEnv hh.regs _

/-- a `Run` keeps the environment condition -/
theorem CallsEnv.run {R R' : Radio} {k : Packet} {s s' : DrvState} {m p : Nat} (h : CallsEnv R s) (hr : Run k R' s s' m p) :
    CallsEnv R s' := by
  refine ⟨?_, ?_, ?_⟩
  · intro q hq hqs
    have hq' : q < s.w.radios.length := by rw [← hr.sent.len]; exact hq
    have hqs' : q ≠ s.d.rid := by rw [← hr.rid]; exact hqs
    rw [hr.sent.others q hqs' hq']
    exact recvN_ackOk _ _ _ (h.acks q hq' hqs')
  · intro hc; rw [hr.d]; exact h.feat hc
  · rw [hr.d]; exact h.pad

/-- **one call keeps the environment condition and the shadows** -/
theorem call_env_step (R : Radio) (hp : R.Ptx) (c : Call) (s : DrvState) (h : Hist R s) (he : CallsEnv R s)
    (hl : c.legal s.d) :
    CallsEnv R (c.run s).2 ∧ (c.run s).2.d = { s.d with status := (c.run s).2.d.status } := by
  have hok := he.ok h c hl
  cases c with
  | send F buf m a n so =>
    obtain ⟨h1, h2, h3⟩ := hok
    have hpre := h.sendPre hp buf so h1 h2
    obtain ⟨_, ⟨att, _, _, _, hrun⟩, _, _⟩ := send_final s buf m a n so hpre h3
    exact ⟨he.run hrun, hrun.d⟩
  | resend F so =>
    have hregs : s.rad.regs = R.regs := h.regs
    have hp' : s.rad.Ptx := Radio.ptx_regs _ _ hregs hp
    rcases h with ⟨e, k, hf, hfr⟩ | ⟨hw, hr, hpi, htx, hrx⟩
    · have hf' : FailedSt s.rad e k s := ⟨hf.wf, rfl, hf.fifo, hf.flags, hf.pipes, hf.pkt, hf.sendable, hf.hpid, hf.npid⟩
      obtain ⟨s', r1, r2, _⟩ := resend_spec s.rad e k s so hp' hf' (he.ackEnv hregs k)
      have hs' : (Call.run (.resend F so) s).2 = s' := by
        show (exec (resend so) s).2 = s'
        rw [r1]
      rw [hs']
      exact ⟨he.run r2, r2.d⟩
    · obtain ⟨_, r2, r3, r4⟩ := resend_empty s so hw htx
      have hd : (Call.run (.resend F so) s).2.d = { s.d with status := s.rad.status } := r4
      have hwld : World.Only s.d.rid s.w (Call.run (.resend F so) s).2.w := r3
      refine ⟨⟨?_, ?_, ?_⟩, ?_⟩
      · intro q hq hqs
        have hqs' : q ≠ s.d.rid := by rw [hd] at hqs; exact hqs
        rw [hwld.1 q hqs']
        exact he.acks q (by rw [← hwld.2.2.2.2.1]; exact hq) hqs'
      · intro hc; rw [hd]; exact he.feat hc
      · rw [hd]; exact he.pad
      · rw [hd]

/-- **the closed-form condition implies the per-call hypotheses along every list of calls** -/
theorem callsOk_closed (R : Radio) (hp : R.Ptx) :
    ∀ (calls : List Call) (s : DrvState), Hist R s → CallsEnv R s → (∀ c ∈ calls, c.legal s.d) → callsOk calls s := by
  intro calls
  induction calls with
  | nil => intro _ _ _ _; trivial
  | cons c rest ih =>
    intro s h he hl
    have h0 := h.withFaults c.faults
    have he0 := he.withFaults c.faults
    have hl0 : c.legal (s.withFaults c.faults).d := by rw [DrvState.withFaults_d]; exact hl c List.mem_cons_self
    refine ⟨he0.ok h0 c hl0, ?_⟩
    obtain ⟨_, r2⟩ := call_step R hp c _ h0 (he0.ok h0 c hl0)
    obtain ⟨e1, e2⟩ := call_env_step R hp c _ h0 he0 hl0
    refine ih _ r2 e1 ?_
    intro c' hc'
    have hd : ((c.run (s.withFaults c.faults)).2.d).dynPl = s.d.dynPl := by
      rw [e2, DrvState.withFaults_d]
    have := hl c' (List.mem_cons_of_mem _ hc')
    cases c' with
    | send F buf m a n so => simp only [Call.legal] at this ⊢; rw [hd]; exact this
    | resend F so => trivial

end Nrf
