/-
C07 — the mutual block of `NrfModel/Net/Node.lean` in an open system (`closed = false`): every
transmission keeps the `_begin` configuration (`Mid`), every exit of `_write` re-establishes
listening (`Lst`), everything `_net_update` does keeps it.  One simultaneous induction on the fuel;
partial correctness (`wp anyErr`): for every fuel, every argument, every world.
-/
import NrfProofs.C07Net

namespace Nrf.Net
open Nrf Rf24

/-! ### small facts about the address functions -/

theorem pipeAddrLoop_length (cfg : AddrCfg) (store : Bool) : ∀ (dec count : Nat) (result r : Bytes) (c : Nat),
    pipeAddrLoop cfg store dec count result = .ok (r, c) → r.length = result.length := by
  intro dec
  induction dec using Nat.strongRecOn with
  | _ dec ih =>
    intro count result r c h
    rw [pipeAddrLoop] at h
    split at h
    · cases h; rfl
    · rename_i hd
      have hlt : dec >>> 3 < dec := by simp only [Nat.shiftRight_eq_div_pow]; omega
      cases store with
      | false =>
        simp only [Bool.false_eq_true, ↓reduceIte, pure, Except.pure, bind, Except.bind] at h
        exact ih (dec >>> 3) hlt _ _ _ _ h
      | true =>
        simp only [↓reduceIte, bind, Except.bind] at h
        cases hg : pyGet cfg.sfx ((dec % 8 : Nat) : Int) with
        | error e => rw [hg] at h; cases h
        | ok sb =>
          rw [hg] at h
          simp only at h
          unfold setByte at h
          by_cases hcnt : count < result.length
          · simp only [hcnt, ↓reduceIte] at h
            have := ih (dec >>> 3) hlt _ _ _ _ h
            rw [this]; simp
          · simp only [hcnt, ↓reduceIte] at h
            cases h

theorem pipeAddress_length (cfg : AddrCfg) (a p : Nat) (x : Bytes) (h : pipeAddress cfg a p = .ok x) :
    x.length = 5 := by
  unfold pipeAddress at h
  simp only [bind, Except.bind] at h
  split at h
  · cases h
  · rename_i rc hrc
    obtain ⟨r, c⟩ := rc
    have hl := pipeAddrLoop_length cfg _ _ _ _ _ _ hrc
    simp only [List.length_replicate] at hl
    simp only at h
    split at h
    · split at h
      · cases h
      · unfold setByte at h
        split at h
        · cases h; simp [hl]
        · cases h
    · split at h
      · split at h
        · cases h
        · unfold setByte at h
          split at h
          · cases h; simp [hl]
          · cases h
      · cases h; exact hl

theorem logi2phys_mc (n : NodeAddr) (t st : Nat) : (logi2phys n t st).2.2 = decide (st > TX_ROUTED) := by
  unfold logi2phys
  split
  · simp [*]
  · rename_i h
    split
    · split <;> simp [h]
    · simp [h]

/-! ### invariants with the frame to a reference state -/

section
variable (p0 a1 : Bytes) (aN : List Nat)

def MidF (v : Nat) (s0 s : NetState) : Prop := s.MidS p0 a1 aN v ∧ NFr s0 s
def LstF (v : Nat) (s0 s : NetState) : Prop := s.LstS p0 a1 aN v ∧ NFr s0 s

/-- predicates on session states that survive everything which is not a radio configuration -/
structure Stable (I : NetState → Prop) : Prop where
  inb : ∀ s, I s → s.cur < s.nodes.length
  setNode : ∀ s (f : Node → Node), I s →
    ((f s.node).cfg = s.node.cfg ∧ (f s.node).a = s.node.a ∧ (f s.node).kind = s.node.kind
      ∧ (f s.node).rf = s.node.rf) → I (s.setNode f)
  nextId : ∀ s n, I s → I { s with nextId := n }
  sleep : ∀ s ns, I s → I { s with w := s.w.sleep ns }

variable {p0 a1 aN}

theorem sleep_same (s : NetState) (ns : Nat) (hw : s.drv.Wf) :
    Same false s.drv { s.drv with w := s.w.sleep ns } := Same.sleepStep s.drv ns hw

theorem stable_midF (v : Nat) (s0 : NetState) : Stable (MidF p0 a1 aN v s0) where
  inb := fun _ h => h.1.1
  setNode := fun s f h hf => ⟨h.1.setNode f hf.2.2.2, h.2.trans (NFr.setNode s f h.1.1 hf)⟩
  nextId := fun s n h => ⟨h.1.nextId n, h.2.trans (NFr.nextId s n)⟩
  sleep := fun s ns h => ⟨h.1.world _ (sleep_same s ns h.1.2.1), h.2.trans (NFr.world s _)⟩

theorem stable_lstF (v : Nat) (s0 : NetState) : Stable (LstF p0 a1 aN v s0) where
  inb := fun _ h => h.1.1
  setNode := fun s f h hf => ⟨h.1.setNode f hf.2.2.2, h.2.trans (NFr.setNode s f h.1.1 hf)⟩
  nextId := fun s n h => ⟨h.1.nextId n, h.2.trans (NFr.nextId s n)⟩
  sleep := fun s ns h => ⟨h.1.world _ (sleep_same s ns h.1.2.1), h.2.trans (NFr.world s _)⟩

end

section
variable {E : PyErr → NetState → Prop} {I : NetState → Prop}

theorem st_setHdr (hI : Stable I) {s : NetState} (h : I s) (f : Header → Header) {Q : Unit → NetState → Prop}
    (hQ : ∀ s', I s' → Q () s') : wp E (setHdr f) Q s := by
  rw [wp_setHdr]
  exact hQ _ (hI.setNode s _ h ⟨rfl, rfl, rfl, rfl⟩)

theorem st_sleepNs (hI : Stable I) {s : NetState} (h : I s) (ns : Nat) {Q : Unit → NetState → Prop}
    (hQ : ∀ s', I s' → Q () s') : wp E (Net.sleepNs ns) Q s := by
  rw [wp_sleepNs]
  exact hQ _ (hI.sleep s ns h)

theorem st_enqueueFrameBuf (hI : Stable I) {s : NetState} (h : I s) {Q : Bool → NetState → Prop}
    (hQ : ∀ r s', I s' → Q r s') : wp E enqueueFrameBuf Q s := by
  unfold enqueueFrameBuf
  simp only [wp_bind, wp_getNode, wp_modNode, wp_ite, wp_takeId, wp_pure]
  have h1 := hI.setNode s
    (fun n => { n with queue := (s.node.queue.enqueue s.node.frameBuf).1,
                       frameBuf := (s.node.queue.enqueue s.node.frameBuf).2.2 }) h ⟨rfl, rfl, rfl, rfl⟩
  split
  · exact hQ _ _ (hI.nextId _ _ h1)
  · exact hQ _ _ h1

end

/-- a partial-correctness goal about a pure Python computation: only its normal result matters -/
theorem wp_liftPy_any {α} (x : PyM α) (Q : α → NetState → Prop) (s : NetState)
    (h : ∀ a, x = .ok a → Q a s) : wp anyErr (liftPy x) Q s := by
  cases x with
  | error e => trivial
  | ok a => exact h a rfl

/-! ### arrivals -/

theorem inject_same (ds : DrvState) (j p : Nat) (b : Bytes) (hw : ds.Wf) :
    Same false ds { ds with w := ds.w.inject j p b } := by
  have hc := World.inject_cfgEq ds.w j p b
  exact
    { rid := rfl
      wf := by show ds.d.rid < (ds.w.inject j p b).radios.length; rw [hc.1]; exact hw
      other := fun i _ => (hc.2 i)
      len := hc.1
      clock := by
        show ds.w.clock ≤ (ds.w.inject j p b).clock
        unfold World.inject
        dsimp only
        repeat' split
        all_goals exact Nat.le_refl _
      d := rfl
      regs := by show Radio.noCE _ = Radio.noCE _; unfold DrvState.cfg; rw [hc.2]
      ce := fun _ => by unfold DrvState.cfg; rw [hc.2] }

theorem injects_same (l : List (Nat × Nat × Bytes)) (j : Nat) (ds : DrvState) (hw : ds.Wf) :
    Same false ds { ds with w := l.foldl (fun w a => w.inject j a.2.1 a.2.2) ds.w } := by
  induction l generalizing ds with
  | nil => exact Same.refl _ _ hw
  | cons a l ih =>
    have h1 := inject_same ds j a.2.1 a.2.2 hw
    have h2 := ih { ds with w := ds.w.inject j a.2.1 a.2.2 } h1.wf
    exact h1.trans h2

section
variable {p0 a1 : Bytes} {aN : List Nat}

/-- the world after the due arrivals of the current node were put into its RX FIFO -/
def dueWorld (s : NetState) : World :=
  List.foldl (fun w a => w.inject s.node.rf.rid a.2.1 a.2.2) s.w
    (s.node.arrivals.takeWhile (fun a => decide (a.1 ≤ s.w.clock)))

theorem deliverDue_lst {E : PyErr → NetState → Prop} {v : Nat} {s0 s : NetState} (h : LstF p0 a1 aN v s0 s)
    {Q : Unit → NetState → Prop} (hQ : ∀ s', LstF p0 a1 aN v s0 s' → Q () s') : wp E deliverDue Q s := by
  unfold deliverDue
  simp only [wp_bind, wp_get, wp_set]
  apply hQ
  have hs : Same false s.drv { s.drv with w := dueWorld s } := injects_same _ s.node.rf.rid s.drv h.1.2.1
  have h1 : LstF p0 a1 aN v s0 ({ s with w := dueWorld s } : NetState) :=
    ⟨h.1.world _ hs, h.2.trans (NFr.world s _)⟩
  exact (stable_lstF v s0).setNode _
    (fun n => { n with arrivals := s.node.arrivals.dropWhile (fun a => decide (a.1 ≤ s.w.clock)) })
    h1 ⟨rfl, rfl, rfl, rfl⟩

/-! ### the simultaneous induction -/

variable (p0 a1 aN)

/-- the statements proved together, for one fuel value -/
structure OpenAll (f : Nat) : Prop where
  rfSend : ∀ v buf s0 s, Quiet7 s0 → MidF p0 a1 aN v s0 s →
    wp anyErr (rfSend f buf) (fun _ s' => MidF p0 a1 aN v s0 s') s
  rfResend : ∀ v s0 s, Quiet7 s0 → MidF p0 a1 aN v s0 s →
    wp anyErr (rfResend f) (fun _ s' => MidF p0 a1 aN v s0 s') s
  txStandby : ∀ v dl s0 s, Quiet7 s0 → MidF p0 a1 aN v s0 s →
    wp anyErr (txStandby f dl) (fun _ s' => MidF p0 a1 aN v s0 s') s
  txStandbyFor : ∀ v ms s0 s, Quiet7 s0 → MidF p0 a1 aN v s0 s →
    wp anyErr (txStandbyFor f ms) (fun _ s' => MidF p0 a1 aN v s0 s') s
  fragRetry : ∀ v n r s0 s, Quiet7 s0 → MidF p0 a1 aN v s0 s →
    wp anyErr (fragRetry f n r) (fun _ s' => MidF p0 a1 aN v s0 s') s
  nodeFragLoop : ∀ v total msgT left s0 s, Quiet7 s0 → MidF p0 a1 aN v s0 s →
    wp anyErr (nodeFragLoop f total msgT left) (fun _ s' => MidF p0 a1 aN v s0 s') s
  nodeWriteToPipe : ∀ v toNode toPipe isMc s0 s, Quiet7 s0 → MidF p0 a1 aN v s0 s →
    wp anyErr (nodeWriteToPipe f toNode toPipe isMc)
      (fun _ s' => ∃ v', MidF p0 a1 aN v' s0 s' ∧ (isMc = true → v' = 0x3E)) s
  rfRead : ∀ v s0 s, Quiet7 s0 → LstF p0 a1 aN v s0 s →
    wp anyErr (rfRead f) (fun _ s' => LstF p0 a1 aN v s0 s') s
  netUpdate : ∀ rv s0 s, Quiet7 s0 → LstF p0 a1 aN 0x3E s0 s →
    wp anyErr (netUpdate f rv) (fun _ s' => LstF p0 a1 aN 0x3E s0 s') s
  handleThis : ∀ msgT s0 s, Quiet7 s0 → LstF p0 a1 aN 0x3E s0 s →
    wp anyErr (handleThis f msgT) (fun _ s' => LstF p0 a1 aN 0x3E s0 s') s
  handleOther : ∀ msgT s0 s, Quiet7 s0 → LstF p0 a1 aN 0x3E s0 s →
    wp anyErr (handleOther f msgT) (fun _ s' => LstF p0 a1 aN 0x3E s0 s') s
  ackWait : ∀ dl s0 s, Quiet7 s0 → LstF p0 a1 aN 0x3E s0 s →
    wp anyErr (ackWait f dl) (fun _ s' => LstF p0 a1 aN 0x3E s0 s') s
  nodeWrite : ∀ v wd st s0 s, Quiet7 s0 → MidF p0 a1 aN v s0 s →
    wp anyErr (nodeWrite f wd st) (fun _ s' => LstF p0 a1 aN 0x3E s0 s') s

variable {p0 a1 aN}

/-! ### the poll points of the closed system -/

theorem wp_runOthers (f i : Nat) {s : NetState} (g : NetK.Good s) (d : NetK.Distinct s)
    {E : PyErr → NetState → Prop} {Q : Unit → NetState → Prop}
    (hQ : ∀ s', NetK.Kept s s' → Q () s') (hE : ∀ e s', NetK.Kept s s' → E e s') :
    wp E (runOthers f i) Q s := by
  have hk := NetK.runOthers_keeps f i s g d
  unfold wp
  have e : NetK.nexec (runOthers f i) s = nexec (runOthers f i) s := rfl
  rw [e] at hk
  rcases hx : nexec (runOthers f i) s with ⟨r, s'⟩
  rw [hx] at hk
  cases r with
  | error e => exact hE _ _ hk
  | ok a => exact hQ _ hk

theorem kept_node {s s' : NetState} (h : NetK.Kept s s') : ∃ c, s'.node = { s.node with clock := c } := h.node

theorem kept_nfr {s s' : NetState} (h : NetK.Kept s s') : NFr s s' := by
  obtain ⟨c, e⟩ := kept_node h
  exact ⟨h.cur, h.len, h.closed, by rw [e], by rw [e], by rw [e], by rw [e], h.active, h.rids⟩

theorem kept_drv {s s' : NetState} (h : NetK.Kept s s') (hw : s.drv.Wf) :
    s'.drv.d = s.drv.d ∧ s'.drv.cfg = s.drv.cfg ∧ s'.drv.Wf := by
  obtain ⟨c, e⟩ := kept_node h
  have hd : s'.drv.d = s.drv.d := by
    show s'.node.rf = s.node.rf
    rw [e]
  refine ⟨hd, ?_, ?_⟩
  · show (s'.w.radio s'.drv.d.rid).cfgOf = (s.w.radio s.drv.d.rid).cfgOf
    rw [hd]
    exact h.cfg
  · show s'.drv.d.rid < s'.w.radios.length
    rw [hd, h.radios]
    exact hw

theorem kept_mid {v : Nat} {s s' : NetState} (hk : NetK.Kept s s') (h : s.MidS p0 a1 aN v) : s'.MidS p0 a1 aN v := by
  obtain ⟨e1, e2, e3⟩ := kept_drv hk h.2.1
  refine ⟨by rw [hk.cur, hk.len]; exact h.1, e3, ?_⟩
  rw [e1, e2]
  exact h.2.2

theorem kept_lst {v : Nat} {s s' : NetState} (hk : NetK.Kept s s') (h : s.LstS p0 a1 aN v) : s'.LstS p0 a1 aN v := by
  obtain ⟨e1, e2, e3⟩ := kept_drv hk h.2.1
  refine ⟨by rw [hk.cur, hk.len]; exact h.1, e3, ?_⟩
  rw [e1, e2]
  exact h.2.2

/-- `if self.closed: run the others` in front of a transmitting call -/
theorem poll_mid {v : Nat} {s0 s : NetState} (h0 : Quiet7 s0) (h : MidF p0 a1 aN v s0 s) (f i : Nat)
    {α : Type} (rest : NetM α) {Q : α → NetState → Prop}
    (hQ : ∀ s', MidF p0 a1 aN v s0 s' → wp anyErr rest Q s') :
    wp anyErr (if s.closed = true then (do runOthers f i; rest) else rest) Q s := by
  by_cases hc : s.closed = true
  · rw [if_pos hc, wp_bind]
    obtain ⟨g, d⟩ := (h0.nfr h.2).closed hc
    exact wp_runOthers f i g d (fun s' hk => hQ s' ⟨kept_mid hk h.1, h.2.trans (kept_nfr hk)⟩) (fun _ _ _ => trivial)
  · rw [if_neg hc]
    exact hQ s h

/-- … in front of `read()` -/
theorem poll_lst {v : Nat} {s0 s : NetState} (h0 : Quiet7 s0) (h : LstF p0 a1 aN v s0 s) (f i : Nat)
    {α : Type} (rest : NetM α) {Q : α → NetState → Prop}
    (hQ : ∀ s', LstF p0 a1 aN v s0 s' → wp anyErr rest Q s') :
    wp anyErr (if s.closed = true then (do runOthers f i; rest) else rest) Q s := by
  by_cases hc : s.closed = true
  · rw [if_pos hc, wp_bind]
    obtain ⟨g, d⟩ := (h0.nfr h.2).closed hc
    exact wp_runOthers f i g d (fun s' hk => hQ s' ⟨kept_lst hk h.1, h.2.trans (kept_nfr hk)⟩) (fun _ _ _ => trivial)
  · rw [if_neg hc]
    exact hQ s h

theorem LstF.midF {v : Nat} {s0 s : NetState} (h : LstF p0 a1 aN v s0 s) : MidF p0 a1 aN v s0 s :=
  ⟨h.1.mid, h.2⟩

theorem openAll_zero : OpenAll p0 a1 aN 0 := by
  constructor <;> intros <;>
    simp only [Net.rfSend, Net.rfResend, Net.txStandby, Net.txStandbyFor, Net.fragRetry, Net.nodeFragLoop,
      Net.nodeWriteToPipe, Net.rfRead, Net.netUpdate, Net.handleThis, Net.handleOther, Net.ackWait,
      Net.nodeWrite, wp_throw, anyErr]

/-- `_rf24.send(…)` -/
theorem step_rfSend (f : Nat) : ∀ v buf s0 s, Quiet7 s0 → MidF p0 a1 aN v s0 s →
    wp anyErr (rfSend (f + 1) buf) (fun _ s' => MidF p0 a1 aN v s0 s') s := by
  intro v buf s0 s h0 h
  rw [rfSend]
  simp only [wp_bind, wp_get]
  apply poll_mid h0 h
  intro s1 h1'
  simp only [wp_bind, wp_pure]
  apply n_keeps_mid (keeps_send _ _) h1'.1
  · intro e s' _ _; trivial
  · intro a s' h1 h2; exact ⟨h1, h1'.2.trans h2⟩

/-- `_rf24.resend(…)` -/
theorem step_rfResend (f : Nat) : ∀ v s0 s, Quiet7 s0 → MidF p0 a1 aN v s0 s →
    wp anyErr (rfResend (f + 1)) (fun _ s' => MidF p0 a1 aN v s0 s') s := by
  intro v s0 s h0 h
  rw [rfResend]
  simp only [wp_bind, wp_get]
  apply poll_mid h0 h
  intro s1 h1'
  simp only [wp_bind, wp_pure]
  apply n_keeps_mid keeps_resend h1'.1
  · intro e s' _ _; trivial
  · intro a s' h1 h2
    cases a <;> exact ⟨h1, h1'.2.trans h2⟩

theorem step_txStandby (f : Nat) (ih : OpenAll p0 a1 aN f) : ∀ v dl s0 s, Quiet7 s0 →
    MidF p0 a1 aN v s0 s → wp anyErr (txStandby (f + 1) dl) (fun _ s' => MidF p0 a1 aN v s0 s') s := by
  intro v dl s0 s h0 h
  rw [txStandby]
  simp only [wp_bind, wp_nowNs, wp_ite, wp_pure]
  split
  · refine (ih.rfResend v s0 s h0 h).post (fun r s1 h1 => ?_)
    split
    · exact h1
    · exact ih.txStandby v dl s0 s1 h0 h1
  · exact h

theorem step_txStandbyFor (f : Nat) (ih : OpenAll p0 a1 aN f) : ∀ v ms s0 s, Quiet7 s0 →
    MidF p0 a1 aN v s0 s → wp anyErr (txStandbyFor (f + 1) ms) (fun _ s' => MidF p0 a1 aN v s0 s') s := by
  intro v ms s0 s h0 h
  rw [txStandbyFor]
  simp only [wp_bind, wp_nowNs]
  exact ih.txStandby v _ s0 s h0 h

theorem step_fragRetry (f : Nat) (ih : OpenAll p0 a1 aN f) : ∀ v n r s0 s, Quiet7 s0 →
    MidF p0 a1 aN v s0 s → wp anyErr (fragRetry (f + 1) n r) (fun _ s' => MidF p0 a1 aN v s0 s') s := by
  intro v n r s0 s h0 h
  rw [fragRetry]
  simp only [wp_bind, wp_ite, wp_pure, wp_getNode]
  split
  · apply st_sleepNs (stable_midF v s0) h
    intro s1 h1
    refine (ih.txStandbyFor v _ s0 s1 h0 h1).post (fun r s2 h2 => ?_)
    exact ih.fragRetry v _ _ s0 s2 h0 h2
  · exact h

theorem step_nodeFragLoop (f : Nat) (ih : OpenAll p0 a1 aN f) : ∀ v total msgT left s0 s, Quiet7 s0 →
    MidF p0 a1 aN v s0 s →
    wp anyErr (nodeFragLoop (f + 1) total msgT left) (fun _ s' => MidF p0 a1 aN v s0 s') s := by
  intro v total msgT left s0 s h0 h
  rw [nodeFragLoop]
  simp only [wp_bind, wp_ite, wp_pure, wp_getNode]
  split
  · exact h
  · apply st_setHdr (stable_midF v s0) h
    intro s1 h1
    have rest : ∀ (be : Nat) s2, MidF p0 a1 aN v s0 s2 →
        wp anyErr (liftPy s2.node.frameBuf.header.pack)
          (fun a s' =>
            wp anyErr
              (rfSend f (a ++ pySlice s.node.frameBuf.message ((total - left) * MAX_FRAG_SIZE) be))
              (fun a s' =>
                wp anyErr (fragRetry f 3 a)
                  (fun a s' =>
                    if (!a) = true then MidF p0 a1 aN v s0 s'
                    else if left = 1 then MidF p0 a1 aN v s0 s'
                    else wp anyErr (nodeFragLoop f total msgT (left - 1)) (fun _ s' => MidF p0 a1 aN v s0 s') s')
                  s')
              s')
          s2 := by
      intro be s2 h2
      apply wp_liftPy_any
      intro hb _
      refine (ih.rfSend v _ s0 s2 h0 h2).post (fun r s3 h3 => ?_)
      refine (ih.fragRetry v _ _ s0 s3 h0 h3).post (fun r s4 h4 => ?_)
      split
      · exact h4
      · split
        · exact h4
        · exact ih.nodeFragLoop v _ _ _ s0 s4 h0 h4
    split
    · apply st_setHdr (stable_midF v s0) h1; intro s2 h2; exact rest _ s2 h2
    · split
      · apply st_setHdr (stable_midF v s0) h1; intro s2 h2; exact rest _ s2 h2
      · apply st_setHdr (stable_midF v s0) h1; intro s2 h2; exact rest _ s2 h2

theorem step_nodeWriteToPipe (f : Nat) (ih : OpenAll p0 a1 aN f) : ∀ v toNode toPipe isMc s0 s,
    Quiet7 s0 → MidF p0 a1 aN v s0 s →
    wp anyErr (nodeWriteToPipe (f + 1) toNode toPipe isMc)
      (fun _ s' => ∃ v', MidF p0 a1 aN v' s0 s' ∧ (isMc = true → v' = 0x3E)) s := by
  intro v toNode toPipe isMc s0 s h0 h
  rw [nodeWriteToPipe]
  simp only [wp_bind, wp_ite, wp_pure, wp_getNode, pipeAddr]
  split
  · rename_i hlb
    apply st_enqueueFrameBuf (stable_midF v s0) h
    intro r s1 h1
    refine ⟨v, h1, fun hm => ?_⟩
    rw [hm] at hlb
    exact absurd hlb.2 (by decide)
  · -- the transmission
    have body : ∀ v', (isMc = true → v' = 0x3E) → v' < 64 →
        wp anyErr (liftRf (setAutoAckAttr (Arg.i ((v' : Nat) : Int))))
          (fun a s' =>
            wp anyErr (liftRf (setListen false))
              (fun a s' =>
                wp anyErr (liftPy (pipeAddress s'.node.cfg toNode toPipe))
                  (fun a s' =>
                    wp anyErr (liftRf (openTxPipe a))
                      (fun a s' =>
                        if List.length s'.node.frameBuf.message ≤ MAX_FRAG_SIZE then
                          wp anyErr (liftPy s'.node.frameBuf.pack)
                            (fun a s'_1 =>
                              wp anyErr (rfSend f a)
                                (fun a s'_2 =>
                                  if a = true then ∃ v', MidF p0 a1 aN v' s0 s'_2 ∧ (isMc = true → v' = 62)
                                  else
                                    wp anyErr (txStandbyFor f s'.node.txTimeout)
                                      (fun x s' => ∃ v', MidF p0 a1 aN v' s0 s' ∧ (isMc = true → v' = 62)) s'_2)
                                s'_1)
                            s'
                        else
                          wp anyErr
                            (nodeFragLoop f
                              ((if List.length s'.node.frameBuf.message % MAX_FRAG_SIZE ≠ 0 then 1 else 0) +
                                List.length s'.node.frameBuf.message / MAX_FRAG_SIZE)
                              s'.node.frameBuf.header.ty
                              ((if List.length s'.node.frameBuf.message % MAX_FRAG_SIZE ≠ 0 then 1 else 0) +
                                List.length s'.node.frameBuf.message / MAX_FRAG_SIZE))
                            (fun a s'_1 =>
                              wp anyErr (setHdr fun h => h.setTy s'.node.frameBuf.header.ty)
                                (fun a s' => ∃ v', MidF p0 a1 aN v' s0 s' ∧ (isMc = true → v' = 62)) s'_1)
                            s')
                      s')
                  s')
              s')
          s := by
      intro v' hv' hlt
      apply n_setAutoAck_mid h.1 v' hlt
      intro s1 h1 f1
      have g1 : MidF p0 a1 aN v' s0 s1 := ⟨h1, h.2.trans f1⟩
      apply n_setListen_false g1.1
      intro s2 h2 f2
      have g2 : MidF p0 a1 aN v' s0 s2 := ⟨h2, g1.2.trans f2⟩
      apply wp_liftPy_any
      intro addr haddr
      apply n_openTxPipe g2.1 addr (pipeAddress_length _ _ _ _ haddr)
      intro s3 h3 f3
      have g3 : MidF p0 a1 aN v' s0 s3 := ⟨h3, g2.2.trans f3⟩
      split
      · apply wp_liftPy_any
        intro pk _
        refine (ih.rfSend v' pk s0 s3 h0 g3).post (fun r s4 h4 => ?_)
        split
        · exact ⟨v', h4, hv'⟩
        · exact (ih.txStandbyFor v' _ s0 s4 h0 h4).post (fun _ s5 h5 => ⟨v', h5, hv'⟩)
      · refine (ih.nodeFragLoop v' _ _ _ s0 s3 h0 g3).post (fun r s4 h4 => ?_)
        apply st_setHdr (stable_midF v' s0) h4
        intro s5 h5
        exact ⟨v', h5, hv'⟩
    cases isMc with
    | true => exact body 0x3E (fun _ => rfl) (by decide)
    | false => exact body 0x3F (fun hh => by cases hh) (by decide)

theorem step_rfRead (f : Nat) : ∀ v s0 s, Quiet7 s0 → LstF p0 a1 aN v s0 s →
    wp anyErr (rfRead (f + 1)) (fun _ s' => LstF p0 a1 aN v s0 s') s := by
  intro v s0 s h0 h
  rw [rfRead]
  simp only [wp_bind]
  apply deliverDue_lst h
  intro s1 h1
  simp only [wp_get]
  apply poll_lst h0 h1
  intro s2 h2
  apply n_keeps_lst (keeps_read false none) h2.1
  · intro e s' _ _; trivial
  · intro a s' g1 g2; exact ⟨g1, h2.2.trans g2⟩

theorem step_netUpdate (f : Nat) (ih : OpenAll p0 a1 aN f) : ∀ rv s0 s, Quiet7 s0 →
    LstF p0 a1 aN 0x3E s0 s → wp anyErr (netUpdate (f + 1) rv) (fun _ s' => LstF p0 a1 aN 0x3E s0 s') s := by
  intro rv s0 s h0 h
  rw [netUpdate]
  simp only [wp_bind]
  refine (ih.rfRead 0x3E s0 s h0 h).post (fun buf s1 h1 => ?_)
  cases buf with
  | none => exact h1
  | some b =>
    simp only [wp_bind, wp_getNode, wp_modNode, wp_ite, wp_pure]
    have h2 := (stable_lstF 0x3E s0).setNode s1
      (fun n => { n with frameBuf := (s1.node.frameBuf.unpack b).1 }) h1 ⟨rfl, rfl, rfl, rfl⟩
    split
    · exact ih.netUpdate 0 s0 _ h0 h2
    · split
      · refine (ih.handleThis _ s0 _ h0 h2).post (fun r s3 h3 => ?_)
        split
        · exact h3
        · exact ih.netUpdate _ s0 s3 h0 h3
      · refine (ih.handleOther _ s0 _ h0 h2).post (fun r s3 h3 => ?_)
        split
        · exact h3
        · exact ih.netUpdate _ s0 s3 h0 h3

theorem step_handleThis (f : Nat) (ih : OpenAll p0 a1 aN f) : ∀ msgT s0 s, Quiet7 s0 →
    LstF p0 a1 aN 0x3E s0 s → wp anyErr (handleThis (f + 1) msgT) (fun _ s' => LstF p0 a1 aN 0x3E s0 s') s := by
  intro msgT s0 s h0 h
  rw [handleThis]
  simp only [wp_bind, wp_getNode, wp_ite, wp_pure]
  split
  · exact h
  split
  · apply st_setHdr (stable_lstF 0x3E s0) h
    intro s1 h1
    exact (ih.nodeWrite 0x3E _ _ s0 s1 h0 h1.midF).post (fun _ s2 h2 => h2)
  split
  · apply st_setHdr (stable_lstF 0x3E s0) h
    intro s1 h1
    exact (ih.nodeWrite 0x3E _ _ s0 s1 h0 h1.midF).post (fun _ s2 h2 => h2)
  have tail : wp anyErr enqueueFrameBuf
      (fun a s' =>
        if s'.node.frameBuf.header.ty = NETWORK_EXT_DATA then LstF p0 a1 aN 0x3E s0 s'
        else LstF p0 a1 aN 0x3E s0 s') s := by
    apply st_enqueueFrameBuf (stable_lstF 0x3E s0) h
    intro r s1 h1
    split <;> exact h1
  split
  · split
    · exact h
    · exact tail
  · exact tail

theorem step_handleOther (f : Nat) (ih : OpenAll p0 a1 aN f) : ∀ msgT s0 s, Quiet7 s0 →
    LstF p0 a1 aN 0x3E s0 s → wp anyErr (handleOther (f + 1) msgT) (fun _ s' => LstF p0 a1 aN 0x3E s0 s') s := by
  intro msgT s0 s h0 h
  rw [handleOther]
  simp only [wp_bind, wp_getNode, wp_ite, wp_pure]
  have fwd : ∀ (wd st : Nat) (Q : Bool → NetState → Prop), (∀ r s', LstF p0 a1 aN 0x3E s0 s' → Q r s') →
      wp anyErr (nodeWrite f wd st) Q s := by
    intro wd st Q hQ
    exact (ih.nodeWrite 0x3E wd st s0 s h0 h.midF).post (fun r s2 h2 => hQ r s2 h2)
  split
  · split
    · split
      · split
        · apply st_setHdr (stable_lstF 0x3E s0) h
          intro s1 h1
          apply st_sleepNs (stable_lstF 0x3E s0) h1
          intro s2 h2
          exact (ih.nodeWrite 0x3E _ _ s0 s2 h0 h2.midF).post (fun _ s3 h3 => h3)
        · exact h
      · apply st_enqueueFrameBuf (stable_lstF 0x3E s0) h
        intro r s1 h1
        have fin : ∀ s2, LstF p0 a1 aN 0x3E s0 s2 →
            (if s2.node.frameBuf.header.ty = NETWORK_EXT_DATA then LstF p0 a1 aN 0x3E s0 s2
             else LstF p0 a1 aN 0x3E s0 s2) := by
          intro s2 h2; split <;> exact h2
        split
        · have relay : ∀ s2, LstF p0 a1 aN 0x3E s0 s2 →
              wp anyErr (Net.sleepNs (s.node.a.addr % 4 * 600000))
                (fun a s' =>
                  wp anyErr (nodeWrite f (lvl2addr s.node.a.netLvl <<< 3 &&& 65535) TX_MULTICAST)
                    (fun a s' =>
                      if s'.node.frameBuf.header.ty = NETWORK_EXT_DATA then LstF p0 a1 aN 0x3E s0 s'
                      else LstF p0 a1 aN 0x3E s0 s') s') s2 := by
            intro s2 h2
            apply st_sleepNs (stable_lstF 0x3E s0) h2
            intro s3 h3
            exact (ih.nodeWrite 0x3E _ _ s0 s3 h0 h3.midF).post (fun _ s4 h4 => fin s4 h4)
          split
          · apply st_sleepNs (stable_lstF 0x3E s0) h1
            intro s2 h2
            exact relay s2 h2
          · exact relay s1 h1
        · exact fin s1 h1
    · split
      · exact fwd _ _ _ (fun _ _ h => h)
      · exact h
  · split
    · exact fwd _ _ _ (fun _ _ h => h)
    · exact h

theorem step_ackWait (f : Nat) (ih : OpenAll p0 a1 aN f) : ∀ dl s0 s, Quiet7 s0 →
    LstF p0 a1 aN 0x3E s0 s → wp anyErr (ackWait (f + 1) dl) (fun _ s' => LstF p0 a1 aN 0x3E s0 s') s := by
  intro dl s0 s h0 h
  rw [ackWait]
  simp only [wp_bind, wp_ite, wp_pure, wp_nowNs]
  refine (ih.netUpdate 0 s0 s h0 h).post (fun t s1 h1 => ?_)
  split
  · exact h1
  · split
    · exact h1
    · exact ih.ackWait dl s0 s1 h0 h1

/-- the exit of `_write`: `listen = True`, and `auto_ack = 0x3E` unless the frame went out as a
    multicast (then EN_AA already is 0x3E) -/
theorem write_exit {v : Nat} {s0 s : NetState} (h : MidF p0 a1 aN v s0 s) (mc : Bool) (hmc : mc = true → v = 0x3E)
    (r : Bool) :
    wp anyErr (liftRf (setListen true))
      (fun a s' =>
        if (!mc) = true then
          wp anyErr (liftRf (setAutoAckAttr (Arg.i 62))) (fun a s' => LstF p0 a1 aN 0x3E s0 s') s'
        else LstF p0 a1 aN 0x3E s0 s') s := by
  apply n_setListen_true h.1
  intro s1 h1 f1
  split
  · apply n_setAutoAck_lst h1 0x3E (by decide)
    intro s2 h2 f2
    exact ⟨h2, (h.2.trans f1).trans f2⟩
  · rename_i hm
    have : mc = true := by simpa using hm
    rw [hmc this] at h1
    exact ⟨h1, h.2.trans f1⟩

theorem step_nodeWrite (f : Nat) (ih : OpenAll p0 a1 aN f) : ∀ v wd st s0 s, Quiet7 s0 →
    MidF p0 a1 aN v s0 s → wp anyErr (nodeWrite (f + 1) wd st) (fun _ s' => LstF p0 a1 aN 0x3E s0 s') s := by
  intro v wd st s0 s h0 h
  rw [nodeWrite]
  simp only [wp_bind, wp_getNode, wp_ite, wp_pure]
  apply wp_liftPy_any
  intro isAckT _
  -- everything after the optional 2 ms pause
  have main : ∀ s1, MidF p0 a1 aN v s0 s1 →
      wp anyErr
        (nodeWriteToPipe f (logi2phys s.node.a wd st).fst (logi2phys s.node.a wd st).2.fst
          (logi2phys s.node.a wd st).2.snd)
        (fun a_1 s' =>
          if a_1 = true ∧ isAckT = true then
            if st = TX_ROUTED ∧ (logi2phys s.node.a wd st).fst = wd ∧
                s'.node.frameBuf.header.fromNode ≠ s'.node.a.addr then
              wp anyErr
                (setHdr fun h =>
                  { fromNode := (h.setTy NETWORK_ACK).fromNode, toNode := h.fromNode,
                    frameId := (h.setTy NETWORK_ACK).frameId, msgType := (h.setTy NETWORK_ACK).msgType,
                    reserved := (h.setTy NETWORK_ACK).reserved })
                (fun a s'_1 =>
                  wp anyErr
                    (nodeWriteToPipe f (logi2phys s'.node.a s'.node.frameBuf.header.fromNode TX_ROUTED).fst
                      (logi2phys s'.node.a s'.node.frameBuf.header.fromNode TX_ROUTED).2.fst
                      (logi2phys s'.node.a s'.node.frameBuf.header.fromNode TX_ROUTED).2.snd)
                    (fun a s'_2 =>
                      wp anyErr (liftRf (setListen true))
                        (fun a s'_3 =>
                          if (!(logi2phys s'.node.a s'.node.frameBuf.header.fromNode TX_ROUTED).2.snd) = true then
                            wp anyErr (liftRf (setAutoAckAttr (Arg.i 62)))
                              (fun a s' => LstF p0 a1 aN 0x3E s0 s') s'_3
                          else LstF p0 a1 aN 0x3E s0 s'_3)
                        s'_2)
                    s'_1)
                s'
            else
              if (logi2phys s.node.a wd st).fst ≠ wd ∧ (st = TX_NORMAL ∨ st = TX_LOGICAL) then
                wp anyErr (liftRf (setListen true))
                  (fun a s'_1 =>
                    wp anyErr (liftRf (setAutoAckAttr (Arg.i 62)))
                      (fun a s'_2 =>
                        wp anyErr Net.nowNs
                          (fun a s'_3 =>
                            wp anyErr (ackWait f (s'.node.routeTimeout * 1000000 + a))
                              (fun _ s' => LstF p0 a1 aN 0x3E s0 s') s'_3) s'_2)
                      s'_1)
                  s'
              else
                wp anyErr (liftRf (setListen true))
                  (fun a s' =>
                    if (!(logi2phys s.node.a wd st).2.snd) = true then
                      wp anyErr (liftRf (setAutoAckAttr (Arg.i 62))) (fun a s' => LstF p0 a1 aN 0x3E s0 s') s'
                    else LstF p0 a1 aN 0x3E s0 s')
                  s'
          else
            wp anyErr (liftRf (setListen true))
              (fun a s' =>
                if (!(logi2phys s.node.a wd st).2.snd) = true then
                  wp anyErr (liftRf (setAutoAckAttr (Arg.i 62))) (fun a s' => LstF p0 a1 aN 0x3E s0 s') s'
                else LstF p0 a1 aN 0x3E s0 s')
              s')
        s1 := by
    intro s1 h1
    refine (ih.nodeWriteToPipe v _ _ _ s0 s1 h0 h1).post (fun r s2 hx => ?_)
    obtain ⟨v2, h2, hmc⟩ := hx
    split
    · split
      · -- emit the NETWORK_ACK
        apply st_setHdr (stable_midF v2 s0) h2
        intro s3 h3
        refine (ih.nodeWriteToPipe v2 _ _ _ s0 s3 h0 h3).post (fun r s4 hy => ?_)
        obtain ⟨v4, h4, hmc4⟩ := hy
        exact write_exit h4 _ hmc4 r
      · split
        · -- wait for the NETWORK_ACK
          apply n_setListen_true h2.1
          intro s3 h3 f3
          apply n_setAutoAck_lst h3 0x3E (by decide)
          intro s4 h4 f4
          rw [wp_nowNs]
          exact ih.ackWait _ s0 s4 h0 ⟨h4, (h2.2.trans f3).trans f4⟩
        · exact write_exit h2 _ hmc r
    · exact write_exit h2 _ hmc r
  split
  · apply st_sleepNs (stable_midF v s0) h
    intro s1 h1
    exact main s1 h1
  · exact main s h

/-- **every fuel**: the thirteen statements hold together -/
theorem openAll (p0 a1 : Bytes) (aN : List Nat) : ∀ f, OpenAll p0 a1 aN f := by
  intro f
  induction f with
  | zero => exact openAll_zero
  | succ f ih =>
    exact
      { rfSend := step_rfSend f
        rfResend := step_rfResend f
        txStandby := step_txStandby f ih
        txStandbyFor := step_txStandbyFor f ih
        fragRetry := step_fragRetry f ih
        nodeFragLoop := step_nodeFragLoop f ih
        nodeWriteToPipe := step_nodeWriteToPipe f ih
        rfRead := step_rfRead f
        netUpdate := step_netUpdate f ih
        handleThis := step_handleThis f ih
        handleOther := step_handleOther f ih
        ackWait := step_ackWait f ih
        nodeWrite := step_nodeWrite f ih }

end

end Nrf.Net
