/-
The lite driver's attribute setters and getters against `Spec/Lite.lean`: each setter changes the
configuration part of its radio exactly as the documented encoding says (`Spec.Lite.setX`), each
getter returns the documented decoding (`Spec.Lite.getX`) — in any world, for all arguments.
-/
import NrfProofs.LiteMethods
import NrfProofs.LiteBits

namespace Nrf
open Lite
open Rf24 (b2n clampArc ardCode)

namespace LiteState

/-- `regRead reg` on its own -/
theorem does_read (s : LiteState) (h : s.Ok) (reg : Nat) (hr : reg < 0x20) :
    s.Does (regRead reg) (.ok (s.readVal reg)) id :=
  ⟨s.spiStep [reg, 0], lexec_regRead reg s, CfgStep.spiRead s reg [0] h.wf hr, rfl, h.spiStep _⟩

theorem does_pure {α} (s : LiteState) (h : s.Ok) (a : α) : s.Does (pure a) (.ok a) id :=
  ⟨s, rfl, CfgStep.refl h.wf, rfl, h⟩

theorem does_raise {α} (s : LiteState) (h : s.Ok) (e : PyErr) : s.Does (Lite.raise e : LiteM α) (.error e) id :=
  ⟨s, rfl, CfgStep.refl h.wf, rfl, h⟩

theorem does_sleep (s : LiteState) (h : s.Ok) (n : Nat) : s.Does (sleepNs n) (.ok ()) id :=
  ⟨s.sleepStep n, rfl, CfgStep.sleep s n h.wf, rfl, h.sleepStep n⟩

theorem does_ce (s : LiteState) (h : s.Ok) (v : Bool) : s.Does (Lite.setCE v) (.ok ()) (fun c => { c with ce := v }) :=
  ⟨s.ceStep v, rfl, CfgStep.ce s v h.wf, rfl, h.ceStep v⟩

/-- a plain `regWrite reg v` of an `Int` inside a byte -/
theorem does_writeInt (s : LiteState) (h : s.Ok) (reg : Nat) (v : Int) (hr : reg < 0x20) (hb : 0 ≤ v ∧ v ≤ 255) :
    s.Does (regWrite reg v) (.ok ()) (fun c => (c.writeReg reg [v.toNat]).cfgOf) := by
  refine ⟨s.spiStep [0x20 ||| reg, v.toNat], ?_, CfgStep.spiWrite s reg _ h.wf hr, rfl, h.spiStep _⟩
  rw [lexec_regWrite _ _ _ hb (by omega)]

/-- the configuration part is a fixed point of `cfgOf` -/
theorem cfgOf_with (s : LiteState) (g : Radio → Radio) (hg : (g s.cfg).cfgOf = g s.cfg) : (g s.cfg).cfgOf = g s.cfg := hg

end LiteState

open Spec.Lite in
theorem lite_clampArc_eq (c : Int) : clampArc c = arcOf c := by
  unfold clampArc arcOf clamp; congr 1; omega

open Spec.Lite in
theorem lite_arcOf_lt (c : Int) : arcOf c < 16 := by unfold arcOf clamp; omega

open Spec.Lite in
theorem lite_ardCode_eq (d : Int) : ardCode d = ardCodeOf d := by
  unfold ardCode ardCodeOf clamp
  omega

open Spec.Lite in
theorem lite_ardCodeOf_lt (d : Int) : ardCodeOf d < 16 := by
  unfold ardCodeOf clamp
  have : (max 250 (min 4000 d)).toNat ≤ 4000 := by omega
  omega

/-! ### channel -/

theorem lite_setChannel_ok (s : LiteState) (h : s.Ok) (ch : Int) (hc : Spec.Lite.channelOk ch = true) :
    s.Does (setChannel ch) (.ok ()) (fun c => Spec.Lite.setChannel c ch) := by
  have hc' : 0 ≤ ch ∧ ch ≤ 125 := by simpa [Spec.Lite.channelOk] using hc
  unfold setChannel
  have h1 : ¬ ¬ (0 ≤ ch ∧ ch ≤ 125) := by simp [hc']
  simp only [h1, ↓reduceIte]
  have := (LiteState.does_pure s h ()).bind (g := fun _ => regWrite 5 ch) (res := .ok ())
    (fun s' o _ => LiteState.does_writeInt s' o 5 ch (by decide) (by omega))
  refine this.congr ?_
  show (s.cfg.writeReg 5 [ch.toNat]).cfgOf = _
  rw [Radio.writeReg_rfCh_l _ _ (by omega)]
  rfl

theorem lite_setChannel_bad (s : LiteState) (ch : Int) (hc : Spec.Lite.channelOk ch = false) :
    lexec (setChannel ch) s = (.error .valueError, s) := by
  have hc' : ¬ (0 ≤ ch ∧ ch ≤ 125) := by simpa [Spec.Lite.channelOk] using hc
  unfold setChannel
  simp only [lexec_bind, lexec_ite, hc', not_false_eq_true, ↓reduceIte, lexec_raise]

theorem lite_getChannel_does (s : LiteState) (h : s.Ok) : s.Does getChannel (.ok (Spec.Lite.getChannel s.cfg)) id := by
  have := LiteState.does_read s h 5 (by decide)
  rw [s.read_rfCh] at this
  exact this

/-! ### arc / ard -/

theorem lite_setArc_does (s : LiteState) (h : s.Ok) (c : Int) :
    s.Does (setArc c) (.ok ()) (fun r => Spec.Lite.setArc r c) := by
  have hx : s.cfg.setupRetr < 256 := h.regs.setupRetr
  have ha := lite_arcOf_lt c
  have hv : (s.cfg.setupRetr &&& 0xF0) ||| clampArc c < 256 := by
    rw [lite_clampArc_eq, LiteBits.arc_set _ hx _ ha]
    have := LiteBits.arc_set _ hx _ ha
    rw [← this]
    exact Nat.or_lt_two_pow (n := 8) (lite_and_lt_of_mask _ _ _ (by decide)) (by omega)
  have := LiteState.does_rmw s h 4 (by decide) (fun v => (v &&& 0xF0) ||| clampArc c)
    (by rw [s.read_setupRetr]; omega)
  refine this.congr ?_
  show (s.cfg.writeReg 4 [(s.readVal 4 &&& 0xF0) ||| clampArc c]).cfgOf = _
  rw [s.read_setupRetr, Radio.writeReg_setupRetr_l _ _ hv, lite_clampArc_eq, LiteBits.arc_set _ hx _ ha]
  rfl

theorem lite_getArc_does (s : LiteState) (h : s.Ok) : s.Does getArc (.ok (Spec.Lite.getArc s.cfg)) id := by
  have := LiteState.does_get s h 4 (by decide) (fun v => v &&& 0x0F)
  rw [s.read_setupRetr, LiteBits.arc_get _ h.regs.setupRetr] at this
  exact this

theorem lite_setArd_does (s : LiteState) (h : s.Ok) (d : Int) :
    s.Does (setArd d) (.ok ()) (fun r => Spec.Lite.setArd r d) := by
  have hx : s.cfg.setupRetr < 256 := h.regs.setupRetr
  have ha := lite_ardCodeOf_lt d
  have hv : (s.cfg.setupRetr &&& 0x0F) ||| (ardCode d <<< 4) < 256 := by
    rw [lite_ardCode_eq]
    refine Nat.or_lt_two_pow (n := 8) (lite_and_lt_of_mask _ _ _ (by decide)) ?_
    rw [Nat.shiftLeft_eq]; omega
  have := LiteState.does_rmw s h 4 (by decide) (fun v => (v &&& 0x0F) ||| (ardCode d <<< 4))
    (by rw [s.read_setupRetr]; omega)
  refine this.congr ?_
  show (s.cfg.writeReg 4 [(s.readVal 4 &&& 0x0F) ||| (ardCode d <<< 4)]).cfgOf = _
  rw [s.read_setupRetr, Radio.writeReg_setupRetr_l _ _ hv, lite_ardCode_eq, LiteBits.ard_set _ hx _ ha]
  rfl

theorem lite_getArd_does (s : LiteState) (h : s.Ok) : s.Does getArd (.ok (Spec.Lite.getArd s.cfg)) id := by
  have := LiteState.does_get s h 4 (by decide) (fun v => ((v &&& 0xF0) >>> 4) * 250 + 250)
  rw [s.read_setupRetr, LiteBits.ard_get _ h.regs.setupRetr] at this
  have e : Spec.Lite.field s.cfg.setupRetr 4 4 * 250 + 250 = Spec.Lite.getArd s.cfg := by
    unfold Spec.Lite.getArd; omega
  rw [e] at this
  exact this

/-! ### payload_length (global) -/

namespace Radio
theorem cfgOf_writeReg_cfgOf_l (r : Radio) (reg : Nat) (d : Bytes) :
    (r.cfgOf.writeReg reg d).cfgOf = (r.writeReg reg d).cfgOf := (writeReg_cfgOf r reg d).symm

theorem writeReg_rxPw'_l (r : Radio) (reg i v : Nat) (hreg : reg = 0x11 + i) (hi : i < 6) (hv : 1 ≤ v ∧ v ≤ 32) :
    r.writeReg reg [v] = { r with rxPw := r.rxPw.set i v } := by
  subst hreg; exact writeReg_rxPw_l r i v hi hv
end Radio

theorem lite_set_all_six (l : List Nat) (v : Nat) (h : l.length = 6) :
    (((((l.set 0 v).set 1 v).set 2 v).set 3 v).set 4 v).set 5 v = List.replicate 6 v := by
  match l, h with
  | [_, _, _, _, _, _], _ => rfl

open Spec.Lite in
theorem lite_plLenOf_range (l : Int) : 1 ≤ plLenOf l ∧ plLenOf l ≤ 32 := by unfold plLenOf clamp; omega

theorem lite_setPayloadLength_does (s : LiteState) (h : s.Ok) (l : Int) :
    s.Does (setPayloadLength l) (.ok ()) (fun r => Spec.Lite.setPayloadLength r l) := by
  have hv : (0 : Int) ≤ max 1 (min 32 l) ∧ max 1 (min 32 l) ≤ 255 := by omega
  have hn : (max 1 (min 32 l)).toNat = Spec.Lite.plLenOf l := rfl
  have hr := lite_plLenOf_range l
  unfold setPayloadLength
  dsimp only
  refine LiteState.Does.congr
    (LiteState.Does.bind (LiteState.does_writeInt s h 0x11 _ (by decide) hv) fun s1 o1 _ =>
     LiteState.Does.bind (LiteState.does_writeInt s1 o1 0x12 _ (by decide) hv) fun s2 o2 _ =>
     LiteState.Does.bind (LiteState.does_writeInt s2 o2 0x13 _ (by decide) hv) fun s3 o3 _ =>
     LiteState.Does.bind (LiteState.does_writeInt s3 o3 0x14 _ (by decide) hv) fun s4 o4 _ =>
     LiteState.Does.bind (LiteState.does_writeInt s4 o4 0x15 _ (by decide) hv) fun s5 o5 _ =>
     LiteState.does_writeInt s5 o5 0x16 _ (by decide) hv) ?_
  simp only [hn]
  simp only [Radio.cfgOf_writeReg_cfgOf_l]
  rw [Radio.writeReg_rxPw'_l s.cfg 0x11 0 _ rfl (by decide) hr]
  rw [Radio.writeReg_rxPw'_l _ 0x12 1 _ rfl (by decide) hr]
  rw [Radio.writeReg_rxPw'_l _ 0x13 2 _ rfl (by decide) hr]
  rw [Radio.writeReg_rxPw'_l _ 0x14 3 _ rfl (by decide) hr]
  rw [Radio.writeReg_rxPw'_l _ 0x15 4 _ rfl (by decide) hr]
  rw [Radio.writeReg_rxPw'_l _ 0x16 5 _ rfl (by decide) hr]
  simp only [lite_set_all_six _ _ h.regs.rxPw]
  rfl

theorem lite_getPayloadLength_does (s : LiteState) (h : s.Ok) :
    s.Does getPayloadLength (.ok (Spec.Lite.getPayloadLength s.cfg)) id := by
  have := LiteState.does_read s h 0x11 (by decide)
  rw [s.read_rxPw0] at this
  exact this

/-! ### dynamic_payloads (global) -/

theorem lite_b2n_lt (b : Bool) : b2n b < 2 := by cases b <;> decide
theorem lite_b2n_eq_bit (b : Bool) : b2n b = Spec.Lite.bit b := rfl

theorem lite_setDynamicPayloads_does (s : LiteState) (h : s.Ok) (b : Bool) :
    s.Does (setDynamicPayloads b) (.ok ()) (fun r => Spec.Lite.setDynamicPayloads r b) := by
  have hx : s.cfg.feature < 8 := h.regs.feature
  have e1 := LiteBits.dpl_set _ hx _ (lite_b2n_lt b)
  have hv : (s.cfg.feature &&& 3) ||| (b2n b <<< 2) < 8 := by
    have : (s.cfg.feature &&& 3) ||| (b2n b <<< 2) < 2 ^ 3 :=
      Nat.or_lt_two_pow (lite_and_lt_of_mask _ _ _ (by decide)) (by cases b <;> decide)
    omega
  have hw : (0 : Int) ≤ (if b then 0x3F else 0) ∧ (if b then 0x3F else 0 : Int) ≤ 255 := by cases b <;> decide
  have hwn : (if b then 0x3F else 0 : Int).toNat = if b then 0x3F else 0 := by cases b <;> rfl
  unfold setDynamicPayloads
  refine LiteState.Does.congr
    (LiteState.Does.bind (LiteState.does_read s h 0x1D (by decide)) fun s1 o1 _ =>
     LiteState.Does.bind (LiteState.does_write s1 o1 0x1D ((s.readVal 0x1D &&& 3) ||| (b2n b <<< 2)) (by decide)
       (by rw [s.read_feature h]; omega)) fun s2 o2 _ =>
     LiteState.does_writeInt s2 o2 0x1C _ (by decide) hw) ?_
  simp only [id, hwn, Radio.cfgOf_writeReg_cfgOf_l, s.read_feature h]
  rw [Radio.writeReg_feature_l _ _ hv h.plus]
  rw [Radio.writeReg_dynpd_l { s.cfg with feature := (s.cfg.feature &&& 3) ||| (b2n b <<< 2) } _
    (by cases b <;> decide) h.plus, e1]
  rfl

theorem lite_getDynamicPayloads_does (s : LiteState) (h : s.Ok) :
    s.Does getDynamicPayloads (.ok (Spec.Lite.getDynamicPayloads s.cfg)) id := by
  have := LiteState.does_get s h 0x1D (by decide) (fun v => decide (v &&& 4 = 4))
  rw [s.read_feature h, LiteBits.dpl_get _ h.regs.feature] at this
  exact this

/-! ### data_rate -/

theorem lite_rate_code (speed : Int) :
    (if speed = 1 then 0 else (if speed ≠ 2 then 0x20 else 8) : Nat) =
      (((Spec.Lite.rateBits speed).1 <<< 5) ||| ((Spec.Lite.rateBits speed).2 <<< 3)) ∧
    (Spec.Lite.rateBits speed).1 < 2 ∧ (Spec.Lite.rateBits speed).2 < 2 := by
  unfold Spec.Lite.rateBits
  by_cases h1 : speed = 1
  · simp [h1]
  · by_cases h2 : speed = 2
    · simp [h2]
    · simp [h1, h2]

theorem lite_setDataRate_does (s : LiteState) (h : s.Ok) (speed : Int) :
    s.Does (setDataRate speed) (.ok ()) (fun r => Spec.Lite.setDataRate r speed) := by
  obtain ⟨hc, hlo, hhi⟩ := lite_rate_code speed
  obtain ⟨hx, hm⟩ := h.regs.rfSetup
  have e1 := LiteBits.rate_set _ hx _ hlo _ hhi
  have e2 := LiteBits.rate_mask _ hx hm _ hlo _ hhi
  unfold setDataRate
  dsimp only
  rw [hc]
  have hb : (s.cfg.rfSetup &&& 0xD7) ||| (((Spec.Lite.rateBits speed).1 <<< 5) ||| ((Spec.Lite.rateBits speed).2 <<< 3)) ≤ 255 := by
    have := lite_and_lt_of_mask (((s.cfg.rfSetup &&& 0xD7) ||| (((Spec.Lite.rateBits speed).1 <<< 5) ||| ((Spec.Lite.rateBits speed).2 <<< 3)))) 0xBF 256 (by decide)
    rw [e2] at this; omega
  have := LiteState.does_rmw s h 6 (by decide)
    (fun v => (v &&& 0xD7) ||| (((Spec.Lite.rateBits speed).1 <<< 5) ||| ((Spec.Lite.rateBits speed).2 <<< 3)))
    (by rw [s.read_rfSetup]; exact hb)
  refine this.congr ?_
  show (s.cfg.writeReg 6 [_]).cfgOf = _
  rw [s.read_rfSetup, Radio.writeReg_rfSetup_l _ _ e2, e1]
  rfl

theorem lite_getDataRate_does (s : LiteState) (h : s.Ok) : s.Does getDataRate (.ok (Spec.Lite.getDataRate s.cfg)) id := by
  have := LiteState.does_get s h 6 (by decide)
    (fun v => if v &&& 0x28 ≠ 0 then (if v &&& 0x28 = 8 then 2 else 250) else 1)
  rw [s.read_rfSetup, LiteBits.rate_get _ h.regs.rfSetup.1] at this
  exact this

/-! ### pa_level -/

theorem lite_paCode_cases (v : Int) (c : Nat) (hc : Spec.Lite.paCode v = some c) :
    ¬ (v ≠ -18 ∧ v ≠ -12 ∧ v ≠ -6 ∧ v ≠ 0) ∧ (3 - (v / -6).toNat) = c ∧ c < 4 := by
  unfold Spec.Lite.paCode at hc
  by_cases h1 : v = -18
  · subst h1; simp at hc; subst hc; decide
  · by_cases h2 : v = -12
    · subst h2; simp at hc; subst hc; decide
    · by_cases h3 : v = -6
      · subst h3; simp at hc; subst hc; decide
      · by_cases h4 : v = 0
        · subst h4; simp at hc; subst hc; decide
        · simp [h1, h2, h3, h4] at hc

theorem lite_setPaLevel_ok (s : LiteState) (h : s.Ok) (v : Int) (c : Nat) (hc : Spec.Lite.paCode v = some c) :
    s.Does (setPaLevel (.i v)) (.ok ()) (fun r => Spec.Lite.setPaLevel r c) := by
  obtain ⟨hv, hcode, hc4⟩ := lite_paCode_cases v c hc
  obtain ⟨hx, hm⟩ := h.regs.rfSetup
  have e1 := LiteBits.pa_set _ hx _ hc4
  have e2 := LiteBits.pa_mask _ hx hm _ hc4
  have hb : (s.cfg.rfSetup &&& 0xF8) ||| (c * 2) ||| 1 ≤ 255 := by
    have := lite_and_lt_of_mask ((s.cfg.rfSetup &&& 0xF8) ||| (c * 2) ||| 1) 0xBF 256 (by decide)
    rw [e2] at this; omega
  unfold setPaLevel
  simp only [hv, ↓reduceIte, hcode]
  have := LiteState.does_rmw s h 6 (by decide) (fun r => (r &&& 0xF8) ||| (c * 2) ||| 1)
    (by rw [s.read_rfSetup]; exact hb)
  refine (this.congr ?_)
  show (s.cfg.writeReg 6 [_]).cfgOf = _
  rw [s.read_rfSetup, Radio.writeReg_rfSetup_l _ _ e2, e1]
  rfl

theorem lite_setPaLevel_bad (s : LiteState) (v : Int) (hc : Spec.Lite.paCode v = none) :
    lexec (setPaLevel (.i v)) s = (.error .valueError, s) := by
  have hv : v ≠ -18 ∧ v ≠ -12 ∧ v ≠ -6 ∧ v ≠ 0 := by
    unfold Spec.Lite.paCode at hc
    refine ⟨?_, ?_, ?_, ?_⟩ <;> (intro e; subst e; simp at hc)
  unfold setPaLevel
  simp only [lexec_bind, lexec_ite, lexec_raise]
  rw [if_pos hv]

theorem lite_getPaLevel_does (s : LiteState) (h : s.Ok) : s.Does getPaLevel (.ok (Spec.Lite.getPaLevel s.cfg)) id := by
  have := LiteState.does_get s h 6 (by decide) (fun v => ((3 - ((v &&& 6) >>> 1) : Nat) : Int) * -6)
  rw [s.read_rfSetup, LiteBits.pa_get _ h.regs.rfSetup.1] at this
  exact this

/-! ### power -/

theorem lite_setPower_does (s : LiteState) (h : s.Ok) (b : Bool) :
    s.Does (setPower b) (.ok ()) (fun r => Spec.Lite.setPower r b) := by
  have hx : s.cfg.config < 128 := h.regs.config
  have e1 := LiteBits.power_set _ hx _ (lite_b2n_lt b)
  have e2 := LiteBits.power_role _ hx _ (lite_b2n_lt b)
  have e3 := LiteBits.power_lt _ hx _ (lite_b2n_lt b)
  unfold setPower
  refine LiteState.Does.congr
    (LiteState.Does.bind (LiteState.does_read s h 0 (by decide)) fun s1 o1 _ =>
     LiteState.Does.bind (LiteState.does_write s1 o1 0 (s.readVal 0 &&& 0x7D ||| (b2n b <<< 1)) (by decide)
       (by rw [s.read_config]; omega)) fun s2 o2 _ =>
     LiteState.does_sleep s2 o2 150000) ?_
  simp only [id, Radio.cfgOf_writeReg_cfgOf_l, s.read_config]
  rw [Radio.writeReg_config_l _ _ e3 (Or.inr e2), e1]
  rfl

theorem lite_getPower_does (s : LiteState) (h : s.Ok) : s.Does getPower (.ok (Spec.Lite.getPower s.cfg)) id := by
  have := LiteState.does_get s h 0 (by decide) (fun v => decide (v &&& 2 ≠ 0))
  rw [s.read_config, LiteBits.power_get _ h.regs.config] at this
  exact this

theorem lite_getListen_does (s : LiteState) (h : s.Ok) : s.Does getListen (.ok (Spec.Lite.getListen s.cfg)) id := by
  have := LiteState.does_get s h 0 (by decide) (fun v => decide (v &&& 3 = 3))
  rw [s.read_config, LiteBits.listen_get _ h.regs.config] at this
  exact this

/-! ### address_length -/

theorem lite_setAddressLength_does (s : LiteState) (h : s.Ok) (len : Int) :
    s.Does (setAddressLength len) (.ok ())
      (fun r => { Spec.Lite.setAddressLength r len with
                  violations := r.violations ++ (if Spec.Lite.awCode len = 0 then ["SETUP_AW:illegal:0"] else []) }) := by
  have hb : (0 : Int) ≤ (if 3 ≤ len ∧ len ≤ 5 then len - 2 else 0) ∧ (if 3 ≤ len ∧ len ≤ 5 then len - 2 else 0) ≤ 255 := by
    split <;> omega
  have hn : (if 3 ≤ len ∧ len ≤ 5 then len - 2 else 0 : Int).toNat = Spec.Lite.awCode len := by
    unfold Spec.Lite.awCode; split <;> rfl
  have hlt : Spec.Lite.awCode len < 4 := by unfold Spec.Lite.awCode; split <;> omega
  unfold setAddressLength
  refine (LiteState.does_writeInt s h 3 _ (by decide) hb).congr ?_
  show (s.cfg.writeReg 3 [_]).cfgOf = _
  rw [hn, Radio.writeReg_setupAw_l _ _ hlt]
  rfl

theorem lite_getAddressLength_does (s : LiteState) (h : s.Ok) :
    s.Does getAddressLength (.ok (Spec.Lite.getAddressLength s.cfg)) id := by
  have := LiteState.does_get s h 3 (by decide) (fun v => v + 2)
  rw [s.read_setupAw] at this
  exact this

/-! ### ack -/

theorem lite_setAck_does (s : LiteState) (h : s.Ok) (b : Bool) :
    s.Does (setAck b) (.ok ()) (fun r => Spec.Lite.setAck r b) := by
  have hx : s.cfg.feature < 8 := h.regs.feature
  unfold setAck
  cases b with
  | true =>
    simp only [↓reduceIte]
    have hv : ((s.cfg.feature &&& 5) ||| 4) ||| 2 < 8 := by
      have : ((s.cfg.feature &&& 5) ||| 4) ||| 2 < 2 ^ 3 :=
        Nat.or_lt_two_pow (Nat.or_lt_two_pow (lite_and_lt_of_mask _ _ _ (by decide)) (by decide)) (by decide)
      omega
    refine LiteState.Does.congr
      (LiteState.Does.bind (LiteState.does_read s h 0x1D (by decide)) fun s1 o1 _ =>
       LiteState.Does.bind (LiteState.does_writeInt s1 o1 0x1C 0x3F (by decide) (by decide)) fun s2 o2 _ =>
       LiteState.does_write s2 o2 0x1D (((s.readVal 0x1D &&& 5) ||| 4) ||| 2) (by decide)
         (by rw [s.read_feature h]; omega)) ?_
    simp only [id, Radio.cfgOf_writeReg_cfgOf_l, s.read_feature h]
    have e63 : (0x3F : Int).toNat = 0x3F := rfl
    rw [e63, Radio.writeReg_dynpd_l _ _ (by decide) h.plus]
    rw [Radio.writeReg_feature_l { s.cfg with dynpd := 0x3F } _ hv h.plus, LiteBits.ack_on _ hx]
    rfl
  | false =>
    simp only [Bool.false_eq_true, ↓reduceIte]
    have hv : (s.cfg.feature &&& 5) ||| 0 < 8 := by
      have : (s.cfg.feature &&& 5) ||| 0 < 2 ^ 3 := Nat.or_lt_two_pow (lite_and_lt_of_mask _ _ _ (by decide)) (by decide)
      omega
    refine LiteState.Does.congr
      (LiteState.Does.bind (LiteState.does_read s h 0x1D (by decide)) fun s2 o2 _ =>
       LiteState.does_write s2 o2 0x1D ((s.readVal 0x1D &&& 5) ||| 0) (by decide)
         (by rw [s.read_feature h]; omega)) ?_
    simp only [id, s.read_feature h]
    rw [Radio.writeReg_feature_l _ _ hv h.plus, LiteBits.ack_off _ hx]
    rfl

theorem lite_getAck_does (s : LiteState) (h : s.Ok) : s.Does getAck (.ok (Spec.Lite.getAck s.cfg)) id := by
  have hx : s.cfg.feature < 8 := h.regs.feature
  have e := LiteBits.ack_get _ hx
  have o1 := h.spiStep [0x1D, 0]
  have c1 := LiteState.CfgStep.spiRead s 0x1D [0] h.wf (by decide)
  have hf1 : s.readVal 0x1D = s.cfg.feature := s.read_feature h
  by_cases hf : s.cfg.feature &&& 6 = 6
  · refine ⟨(s.spiStep [0x1D, 0]).spiStep [0x1C, 0], ?_,
      c1.trans (LiteState.CfgStep.spiRead _ 0x1C [0] o1.wf (by decide)), rfl, o1.spiStep _⟩
    unfold getAck
    simp only [lexec_bind, lexec_regRead, lexec_ite, lexec_pure, hf1, hf, ↓reduceIte]
    rw [LiteState.read_dynpd _ o1, c1.cfg]
    have : decide (s.cfg.feature &&& 6 = 6) = true := by simp [hf]
    rw [this] at e
    unfold Spec.Lite.getAck
    rw [← e]
    simp
  · refine ⟨s.spiStep [0x1D, 0], ?_, c1, rfl, o1⟩
    unfold getAck
    simp only [lexec_bind, lexec_regRead, lexec_ite, lexec_pure, hf1, hf, ↓reduceIte]
    have : decide (s.cfg.feature &&& 6 = 6) = false := by simp [hf]
    rw [this] at e
    unfold Spec.Lite.getAck
    rw [← e]
    simp

/-! ### interrupt_config -/

theorem lite_interruptConfig_does (s : LiteState) (h : s.Ok) (dr ds df : Bool) :
    s.Does (interruptConfig dr ds df) (.ok ()) (fun r => Spec.Lite.setInterruptConfig r dr ds df) := by
  have hx : s.cfg.config < 128 := h.regs.config
  have e1 := LiteBits.irq_set _ hx _ (lite_b2n_lt (!dr)) _ (lite_b2n_lt (!ds)) _ (lite_b2n_lt (!df))
  obtain ⟨e2, e3⟩ := LiteBits.irq_role _ hx _ (lite_b2n_lt (!dr)) _ (lite_b2n_lt (!ds)) _ (lite_b2n_lt (!df))
  unfold interruptConfig
  dsimp only
  have := LiteState.does_rmw s h 0 (by decide)
    (fun v => (v &&& 0x0F) ||| ((b2n (!dr) <<< 6) ||| (b2n (!df) <<< 4) ||| (b2n (!ds) <<< 5)))
    (by rw [s.read_config]; omega)
  refine this.congr ?_
  show (s.cfg.writeReg 0 [_]).cfgOf = _
  rw [s.read_config, Radio.writeReg_config_l _ _ e3 (Or.inr e2), e1]
  rfl

end Nrf
