/-
Per-method lemmas for the lite driver at the level of the configuration registers: what every
attribute setter / getter and every pipe call does to the configuration part of its radio, in any
world (whatever is in the FIFOs, on the air, in the fault list — `Frame.lean`).

`s.Does m res f` : running `m` from `s` returns `res`, changes the configuration part of the
object's radio by `f`, no other radio's, keeps `_pipe0_read_addr`, and the state stays `Ok`.
-/
import NrfProofs.LiteQuiet

namespace Nrf
open Lite

/-! ### the invariant every state of a lite session satisfies -/

namespace Radio

theorem writeReg_plus_l (r : Radio) (reg : Nat) (d : Bytes) : (r.writeReg reg d).plus = r.plus := by
  unfold writeReg
  split <;> first | rfl | (split <;> rfl)

theorem runCmd_plus_l (r : Radio) (c : Cmd) (d : Bytes) : (r.runCmd c d).1.plus = r.plus := by
  unfold runCmd
  cases c with
  | wRegister reg => dsimp only; split; · rfl
                     exact writeReg_plus_l r _ d
  | rRxPayload => dsimp only; unfold readPayload; split <;> rfl
  | wTxPayload => dsimp only; unfold writePayload; split <;> rfl
  | wTxPayloadNoAck => dsimp only; unfold writePayload; split <;> rfl
  | wAckPayload p => dsimp only; unfold writePayload; split <;> rfl
  | _ => rfl

theorem xfer_plus_l (r : Radio) (out : Bytes) : (r.xfer out).1.plus = r.plus := by
  unfold xfer
  cases out with
  | nil => rfl
  | cons c d => exact runCmd_plus_l r _ d

theorem LiteRegWf.runCmd {r : Radio} (h : r.LiteRegWf) (c : Cmd) (d : Bytes) : (r.runCmd c d).1.LiteRegWf := by
  unfold Radio.runCmd
  cases c with
  | wRegister reg => dsimp only; split; · exact h
                     exact h.writeReg _ d
  | rRxPayload =>
    dsimp only; unfold readPayload; split
    · exact h
    · exact ⟨h.config, h.enRxAddr, h.setupAw, h.setupRetr, h.rfSetup, h.dynpd, h.feature, h.rxAddr0, h.txAddr, h.rxPw⟩
  | wTxPayload =>
    dsimp only; unfold writePayload; split
    · exact h
    · exact ⟨h.config, h.enRxAddr, h.setupAw, h.setupRetr, h.rfSetup, h.dynpd, h.feature, h.rxAddr0, h.txAddr, h.rxPw⟩
  | wTxPayloadNoAck =>
    dsimp only; unfold writePayload; split
    · exact h
    · exact ⟨h.config, h.enRxAddr, h.setupAw, h.setupRetr, h.rfSetup, h.dynpd, h.feature, h.rxAddr0, h.txAddr, h.rxPw⟩
  | wAckPayload p =>
    dsimp only; unfold writePayload; split
    · exact h
    · exact ⟨h.config, h.enRxAddr, h.setupAw, h.setupRetr, h.rfSetup, h.dynpd, h.feature, h.rxAddr0, h.txAddr, h.rxPw⟩
  | rRegister reg => exact h
  | activate => exact ⟨h.config, h.enRxAddr, h.setupAw, h.setupRetr, h.rfSetup, h.dynpd, h.feature, h.rxAddr0, h.txAddr, h.rxPw⟩
  | rRxPlWid => exact h
  | flushTx => exact ⟨h.config, h.enRxAddr, h.setupAw, h.setupRetr, h.rfSetup, h.dynpd, h.feature, h.rxAddr0, h.txAddr, h.rxPw⟩
  | flushRx => exact ⟨h.config, h.enRxAddr, h.setupAw, h.setupRetr, h.rfSetup, h.dynpd, h.feature, h.rxAddr0, h.txAddr, h.rxPw⟩
  | nop => exact h

theorem LiteRegWf.xfer {r : Radio} (h : r.LiteRegWf) (out : Bytes) : (r.xfer out).1.LiteRegWf := by
  unfold Radio.xfer
  cases out with
  | nil => exact h
  | cons c d => exact h.runCmd _ d

end Radio

/-- the object's radio exists, is a plus variant (the lite driver supports no other) and every
    configuration register is inside its mask -/
structure LiteState.Ok (s : LiteState) : Prop where
  wf : s.Wf
  regs : s.cfg.LiteRegWf
  plus : s.cfg.plus = true

namespace LiteState

theorem Ok.spiStep {s : LiteState} (h : s.Ok) (out : Bytes) : (s.spiStep out).Ok := by
  refine ⟨(spiStep_wf _ _).2 h.wf, ?_, ?_⟩
  · rw [spiStep_cfg _ _ h.wf]; exact (h.regs.xfer out).cfgOf
  · rw [spiStep_cfg _ _ h.wf]; show (s.cfg.xfer out).1.plus = true; rw [Radio.xfer_plus_l]; exact h.plus

theorem Ok.ceStep {s : LiteState} (h : s.Ok) (v : Bool) : (s.ceStep v).Ok := by
  refine ⟨(ceStep_wf _ _).2 h.wf, ?_, ?_⟩
  · rw [ceStep_cfg _ _ h.wf]
    exact ⟨h.regs.config, h.regs.enRxAddr, h.regs.setupAw, h.regs.setupRetr, h.regs.rfSetup, h.regs.dynpd,
      h.regs.feature, h.regs.rxAddr0, h.regs.txAddr, h.regs.rxPw⟩
  · rw [ceStep_cfg _ _ h.wf]; exact h.plus

theorem Ok.sleepStep {s : LiteState} (h : s.Ok) (n : Nat) : (s.sleepStep n).Ok := ⟨h.wf, h.regs, h.plus⟩

theorem Ok.modD {s : LiteState} (h : s.Ok) (g : Lite → Lite) (hg : (g s.d).rid = s.d.rid) :
    ({ s with d := g s.d } : LiteState).Ok := by
  have hc : ({ s with d := g s.d } : LiteState).cfg = s.cfg := by unfold LiteState.cfg; simp only [hg]
  refine ⟨?_, ?_, ?_⟩
  · unfold LiteState.Wf; simp only [hg]; exact h.wf
  · rw [hc]; exact h.regs
  · rw [hc]; exact h.plus

/-- a fresh world with a fresh object is `Ok` -/
theorem ok_fresh (n rid : Nat) (h : rid < n) : ({ d := { rid := rid }, w := World.fresh n true } : LiteState).Ok := by
  have hr : (World.fresh n true).radio rid = ({ plus := true } : Radio) := by
    unfold World.fresh World.radio
    simp [List.getD_eq_getElem?_getD, List.getElem?_replicate, h]
  refine ⟨by simp [LiteState.Wf, World.fresh, h], ?_, ?_⟩
  · show ((World.fresh n true).radio rid).cfgOf.LiteRegWf
    rw [hr]; exact (Radio.regWf_fresh_l true).cfgOf
  · show ((World.fresh n true).radio rid).cfgOf.plus = true
    rw [hr]; rfl

/-- value returned by a read of a configuration register -/
theorem readVal_reg (s : LiteState) (reg : Nat) (hr : reg < 0x20)
    (hc : reg ≠ 7 ∧ reg ≠ 8 ∧ reg ≠ 9 ∧ reg ≠ 0x17) : s.readVal reg = (s.cfg.readReg reg).headD 0 :=
  readVal_cfg s reg hr hc

/-- `s.Does m res f` -/
def Does {α} (s : LiteState) (m : LiteM α) (res : Except PyErr α) (f : Radio → Radio) : Prop :=
  ∃ s', lexec m s = (res, s') ∧ CfgStep s s' f ∧ s'.d.pipe0ReadAddr = s.d.pipe0ReadAddr ∧ s'.Ok

theorem Does.congr {α} {s : LiteState} {m : LiteM α} {res : Except PyErr α} {f g : Radio → Radio}
    (h : s.Does m res f) (hfg : f s.cfg = g s.cfg) : s.Does m res g := by
  obtain ⟨s', e, c, p, o⟩ := h
  exact ⟨s', e, c.congr hfg, p, o⟩

/-- sequencing -/
theorem Does.bind {α β} {s : LiteState} {x : LiteM α} {g : α → LiteM β} {a : α} {f h : Radio → Radio}
    {res : Except PyErr β}
    (h1 : s.Does x (.ok a) f)
    (h2 : ∀ s' : LiteState, s'.Ok → s'.cfg = f s.cfg → s'.Does (g a) res h) :
    s.Does (x >>= g) res (fun c => h (f c)) := by
  obtain ⟨s1, e1, c1, p1, o1⟩ := h1
  obtain ⟨s2, e2, c2, p2, o2⟩ := h2 s1 o1 c1.cfg
  refine ⟨s2, ?_, c1.trans c2, by rw [p2, p1], o2⟩
  rw [lexec_bind, e1]; exact e2

end LiteState

/-! ### the register values the reads return -/

theorem LiteState.read_feature (s : LiteState) (h : s.Ok) : s.readVal 0x1D = s.cfg.feature := by
  rw [LiteState.readVal_reg s 0x1D (by decide) (by decide)]
  show ([if s.cfg.featureVisible then s.cfg.feature else 0] : Bytes).headD 0 = _
  simp [Radio.featureVisible, h.plus]

theorem LiteState.read_dynpd (s : LiteState) (h : s.Ok) : s.readVal 0x1C = s.cfg.dynpd := by
  rw [LiteState.readVal_reg s 0x1C (by decide) (by decide)]
  show ([if s.cfg.featureVisible then s.cfg.dynpd else 0] : Bytes).headD 0 = _
  simp [Radio.featureVisible, h.plus]

theorem LiteState.read_config (s : LiteState) : s.readVal 0 = s.cfg.config :=
  LiteState.readVal_reg s 0 (by decide) (by decide)
theorem LiteState.read_enRxAddr (s : LiteState) : s.readVal 2 = s.cfg.enRxAddr :=
  LiteState.readVal_reg s 2 (by decide) (by decide)
theorem LiteState.read_setupAw (s : LiteState) : s.readVal 3 = s.cfg.setupAw :=
  LiteState.readVal_reg s 3 (by decide) (by decide)
theorem LiteState.read_setupRetr (s : LiteState) : s.readVal 4 = s.cfg.setupRetr :=
  LiteState.readVal_reg s 4 (by decide) (by decide)
theorem LiteState.read_rfCh (s : LiteState) : s.readVal 5 = s.cfg.rfCh :=
  LiteState.readVal_reg s 5 (by decide) (by decide)
theorem LiteState.read_rfSetup (s : LiteState) : s.readVal 6 = s.cfg.rfSetup :=
  LiteState.readVal_reg s 6 (by decide) (by decide)
theorem LiteState.read_rxPw0 (s : LiteState) : s.readVal 0x11 = s.cfg.rxPw.getD 0 0 :=
  LiteState.readVal_reg s 0x11 (by decide) (by decide)

/-! ### generic shapes: a getter, a read-modify-write setter -/

/-- `return g (← regRead reg)` -/
theorem LiteState.does_get {α} (s : LiteState) (h : s.Ok) (reg : Nat) (hr : reg < 0x20) (g : Nat → α) :
    s.Does (do let v ← regRead reg; return g v) (.ok (g (s.readVal reg))) id := by
  refine ⟨s.spiStep [reg, 0], ?_, CfgStep.spiRead s reg [0] h.wf hr, rfl, h.spiStep _⟩
  simp only [lexec_bind, lexec_regRead, lexec_pure]

/-- `regWrite reg (g (← regRead reg))` for a one-byte configuration register -/
theorem LiteState.does_rmw (s : LiteState) (h : s.Ok) (reg : Nat) (hr : reg < 0x20) (g : Nat → Nat)
    (hb : g (s.readVal reg) ≤ 255) :
    s.Does (do let v ← regRead reg; regWrite reg (g v : Nat)) (.ok ())
      (fun c => (c.writeReg reg [g (s.readVal reg)]).cfgOf) := by
  refine ⟨(s.spiStep [reg, 0]).spiStep [0x20 ||| reg, g (s.readVal reg)], ?_, ?_, rfl, (h.spiStep _).spiStep _⟩
  · simp only [lexec_bind, lexec_regRead]
    rw [lexec_regWriteNat _ _ _ hb (by omega)]
  · exact (CfgStep.spiRead s reg [0] h.wf hr).trans (CfgStep.spiWrite _ reg _ ((spiStep_wf _ _).2 h.wf) hr)

/-- a plain `regWrite reg v` of a byte -/
theorem LiteState.does_write (s : LiteState) (h : s.Ok) (reg v : Nat) (hr : reg < 0x20) (hb : v ≤ 255) :
    s.Does (regWrite reg (v : Nat)) (.ok ()) (fun c => (c.writeReg reg [v]).cfgOf) := by
  refine ⟨s.spiStep [0x20 ||| reg, v], ?_, CfgStep.spiWrite s reg v h.wf hr, rfl, h.spiStep _⟩
  rw [lexec_regWriteNat _ _ _ hb (by omega)]

theorem lite_or_le_255 (a b : Nat) (ha : a ≤ 255) (hb : b ≤ 255) : a ||| b ≤ 255 := by
  have : a ||| b < 2 ^ 8 := Nat.or_lt_two_pow (by omega) (by omega)
  omega

theorem lite_and_le_255 (a m : Nat) (hm : m ≤ 255) : a &&& m ≤ 255 := Nat.le_trans Nat.and_le_right hm

end Nrf
